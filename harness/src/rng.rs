//! SplitMix64: the single source of randomness. A case is identified by (stream, seed, index).

#[derive(Clone)]
pub struct Rng(pub u64);

impl Rng {
    pub fn new(seed: u64) -> Self {
        Rng(seed ^ 0x9E37_79B9_7F4A_7C15)
    }

    /// independent generator for case `index` of `stream`
    pub fn for_case(seed: u64, stream: &str, index: u64) -> Self {
        let mut h = seed ^ 0xD6E8_FEB8_6659_FD93;
        for b in stream.bytes() {
            h = (h ^ b as u64).wrapping_mul(0x100_0000_01B3);
        }
        let mut r = Rng(h ^ index.wrapping_mul(0x9E37_79B9_7F4A_7C15));
        r.next();
        r.next();
        r
    }

    pub fn next(&mut self) -> u64 {
        self.0 = self.0.wrapping_add(0x9E37_79B9_7F4A_7C15);
        let mut z = self.0;
        z = (z ^ (z >> 30)).wrapping_mul(0xBF58_476D_1CE4_E5B9);
        z = (z ^ (z >> 27)).wrapping_mul(0x94D0_49BB_1331_11EB);
        z ^ (z >> 31)
    }

    /// uniform in [0, n)
    pub fn below(&mut self, n: u64) -> u64 {
        if n == 0 {
            0
        } else {
            self.next() % n
        }
    }

    pub fn range(&mut self, lo: u64, hi_incl: u64) -> u64 {
        lo + self.below(hi_incl - lo + 1)
    }

    pub fn chance(&mut self, num: u64, den: u64) -> bool {
        self.below(den) < num
    }

    pub fn pick<'a, T>(&mut self, xs: &'a [T]) -> &'a T {
        &xs[self.below(xs.len() as u64) as usize]
    }

    pub fn byte(&mut self) -> u8 {
        self.next() as u8
    }
}
