//! Semantic DNS messages and their encoding with a choice of name-compression strategies.
//! The generator knows what it encoded (ground truth for the replay search).

use crate::rng::Rng;
use std::collections::HashMap;

pub const LABEL_CHARS: &[u8] = b"abcdefghijklmnopqrstuvwxyzABCDEFGHIJKLMNOPQRSTUVWXYZ0123456789-_";

pub const T_A: u16 = 1;
pub const T_NS: u16 = 2;
pub const T_CNAME: u16 = 5;
pub const T_SOA: u16 = 6;
pub const T_NULL: u16 = 10;
pub const T_WKS: u16 = 11;
pub const T_HINFO: u16 = 13;
pub const T_MINFO: u16 = 14;
pub const T_MX: u16 = 15;
pub const T_TXT: u16 = 16;
pub const T_AAAA: u16 = 28;
pub const T_OPT: u16 = 41;

pub const DN_TYPES: [u16; 8] = [2, 3, 4, 5, 7, 8, 9, 12];
pub const ALL_TYPES: [u16; 17] = [1, 2, 3, 4, 5, 6, 7, 8, 9, 10, 11, 12, 13, 14, 15, 16, 28];

pub fn type_name(t: u16) -> &'static str {
    match t {
        1 => "A",
        2 => "NS",
        3 => "MD",
        4 => "MF",
        5 => "CNAME",
        6 => "SOA",
        7 => "MB",
        8 => "MG",
        9 => "MR",
        10 => "NULL",
        11 => "WKS",
        12 => "PTR",
        13 => "HINFO",
        14 => "MINFO",
        15 => "MX",
        16 => "TXT",
        28 => "AAAA",
        _ => "A",
    }
}

#[derive(Clone, Debug, PartialEq, Eq, Hash)]
pub struct GName {
    pub labels: Vec<Vec<u8>>,
}

impl GName {
    pub fn root() -> GName {
        GName { labels: vec![] }
    }
    #[allow(dead_code)]
    pub fn text(&self) -> Vec<u8> {
        if self.labels.is_empty() {
            return b".".to_vec();
        }
        let mut t = Vec::new();
        for l in &self.labels {
            t.extend_from_slice(l);
            t.push(b'.');
        }
        t
    }
    pub fn flip_case(&self, r: &mut Rng) -> GName {
        GName {
            labels: self
                .labels
                .iter()
                .map(|l| {
                    l.iter()
                        .map(|c| {
                            if c.is_ascii_alphabetic() && r.chance(1, 2) {
                                c ^ 0x20
                            } else {
                                *c
                            }
                        })
                        .collect()
                })
                .collect(),
        }
    }
}

#[derive(Clone, Debug)]
pub enum GData {
    A(u32),
    Aaaa(u128),
    Dn(GName),
    Soa(GName, GName, [u32; 5]),
    Null(Vec<u8>),
    Wks(u32, u8, Vec<u8>),
    Hinfo(Vec<u8>, Vec<u8>),
    Minfo(GName, GName),
    Mx(u16, GName),
    Txt(Vec<Vec<u8>>),
    Raw(Vec<u8>),
}

#[derive(Clone, Debug)]
pub struct GRec {
    pub owner: GName,
    pub rtype: u16,
    pub rclass: u16,
    pub ttl: u32,
    pub data: GData,
    /// announced RDLENGTH = true length + delta
    pub rdlen_delta: i32,
}

#[derive(Clone, Debug)]
pub struct GMsg {
    pub id: u16,
    pub flags: u16,
    pub questions: Vec<(GName, u16, u16)>,
    pub sections: [Vec<GRec>; 3],
    /// header counts = true counts + delta
    pub count_delta: [i32; 4],
}

#[derive(Clone, Copy, Debug, PartialEq)]
pub enum Compress {
    None,
    Suffix,
    /// like Suffix but pointers go through extra pointer hops placed in a "trampoline" area
    Chains,
}

pub fn gen_label(r: &mut Rng, pool: bool) -> Vec<u8> {
    if pool {
        // a small pool so that equal / case-variant owners are frequent
        let words: [&[u8]; 8] = [b"a", b"www", b"example", b"COM", b"net", b"x-y", b"_srv", b"Mail"];
        return r.pick(&words).to_vec();
    }
    let len = match r.below(12) {
        0 => 63,
        1 => r.range(30, 63) as usize,
        _ => r.range(1, 9) as usize,
    };
    let mut l = Vec::with_capacity(len);
    for i in 0..len {
        let mut c = *r.pick(LABEL_CHARS);
        if (i == 0 || i + 1 == len) && c == b'-' {
            c = b'q';
        }
        l.push(c);
    }
    l
}

pub fn gen_name(r: &mut Rng, pool: bool) -> GName {
    if r.chance(1, 40) {
        // a name at or beyond the 255-octet limit: four or five labels of 61..63 octets
        // (wire length 249..321); readers that build an owned name must refuse the long ones
        let n = r.range(4, 5);
        return GName {
            labels: (0..n)
                .map(|_| {
                    let len = r.range(61, 63) as usize;
                    (0..len).map(|i| if i == 0 || i + 1 == len { b'q' } else { *r.pick(LABEL_CHARS) }).collect()
                })
                .collect(),
        };
    }
    let n = match r.below(10) {
        0 => 0,
        1..=6 => r.range(1, 3),
        _ => r.range(3, 5),
    };
    GName {
        labels: (0..n).map(|_| gen_label(r, pool)).collect(),
    }
}

pub fn gen_data(r: &mut Rng, rtype: u16, pool: bool) -> GData {
    match rtype {
        T_A => GData::A(r.next() as u32),
        T_AAAA => GData::Aaaa(((r.next() as u128) << 64) | r.next() as u128),
        2 | 3 | 4 | 5 | 7 | 8 | 9 | 12 => GData::Dn(gen_name(r, pool)),
        T_SOA => GData::Soa(
            gen_name(r, pool),
            gen_name(r, pool),
            [r.next() as u32, r.next() as u32, r.next() as u32, r.next() as u32, r.next() as u32],
        ),
        T_NULL => GData::Null((0..blob_len(r, 20)).map(|_| r.byte()).collect()),
        T_WKS => GData::Wks(r.next() as u32, r.byte(), (0..blob_len(r, 10)).map(|_| r.byte()).collect()),
        T_HINFO => GData::Hinfo(char_string(r, 8), char_string(r, 8)),
        T_MINFO => GData::Minfo(gen_name(r, pool), gen_name(r, pool)),
        T_MX => GData::Mx(r.next() as u16, gen_name(r, pool)),
        T_TXT => {
            // now and then more strings than a `u8` counts
            let n = if r.chance(1, 100) { r.range(255, 300) } else { r.below(4) };
            GData::Txt((0..n).map(|_| char_string(r, if n > 4 { 3 } else { 12 })).collect())
        }
        _ => GData::Raw((0..blob_len(r, 16)).map(|_| r.byte()).collect()),
    }
}

/// length of an opaque blob: mostly below `short`, now and then past the 8-bit and 10-bit marks
fn blob_len(r: &mut Rng, short: u64) -> u64 {
    if r.chance(1, 30) {
        *r.pick(&[255u64, 256, 257, 300, 1023, 1024, 1500])
    } else {
        r.below(short)
    }
}

/// the content of one `<character-string>`: mostly short, now and then at a boundary of the length
/// octet (a 255-octet string is what long TXT values are chunked into)
pub fn char_string(r: &mut Rng, short: u64) -> Vec<u8> {
    let n = if r.chance(1, 10) {
        *r.pick(&[63u64, 64, 127, 128, 200, 254, 255, 255])
    } else {
        r.below(short)
    };
    (0..n).map(|_| r.byte()).collect()
}

pub fn gen_rec(r: &mut Rng, pool: bool, owners: &[GName]) -> GRec {
    let rtype = match r.below(12) {
        0 => T_OPT,
        1 => *r.pick(&[0u16, 17, 40, 99, 252, 255, 256, 65535]),
        _ => *r.pick(&ALL_TYPES),
    };
    let owner = if !owners.is_empty() && r.chance(2, 3) {
        let o = r.pick(owners).clone();
        if r.chance(1, 3) {
            o.flip_case(r)
        } else {
            o
        }
    } else {
        gen_name(r, pool)
    };
    let rclass = match r.below(10) {
        0 => *r.pick(&[0u16, 2, 3, 4, 5, 254, 255, 4096]),
        _ => 1,
    };
    let data = gen_data(r, rtype, pool);
    GRec {
        owner: if rtype == T_OPT && r.chance(3, 4) { GName::root() } else { owner },
        rtype,
        rclass,
        ttl: if r.chance(1, 4) { r.next() as u32 } else { r.below(4000) as u32 },
        data,
        rdlen_delta: 0,
    }
}

pub fn gen_msg(r: &mut Rng, pool: bool) -> GMsg {
    let nq = match r.below(10) {
        0 => 0,
        1 => 2,
        2 => r.range(0, 3) as usize,
        _ => 1,
    };
    // one message in 200 has more questions than a `u8` counts
    let nq = if r.chance(1, 200) { r.range(255, 258) as usize } else { nq };
    let questions: Vec<(GName, u16, u16)> = (0..nq)
        .map(|_| {
            (
                gen_name(r, pool),
                *r.pick(&[1u16, 2, 5, 15, 16, 28, 255, 6]),
                if r.chance(1, 10) { r.next() as u16 } else { 1 },
            )
        })
        .collect();
    let mut owners: Vec<GName> = questions.iter().map(|q| q.0.clone()).collect();
    let mut sections: [Vec<GRec>; 3] = [vec![], vec![], vec![]];
    for s in 0..3 {
        let n = match r.below(8) {
            0..=2 => 0,
            3..=5 => r.range(1, 2),
            _ => r.range(2, 5),
        };
        // one section in 150 has more records than a `u8` counts
        let n = if r.chance(1, 150) { r.range(255, 300) } else { n };
        for _ in 0..n {
            let rec = gen_rec(r, pool, &owners);
            owners.push(rec.owner.clone());
            if let GData::Dn(n) = &rec.data {
                owners.push(n.clone());
            }
            sections[s].push(rec);
        }
    }
    let flags = match r.below(6) {
        0 => r.next() as u16,
        1 => 0x8180 | (r.below(16) as u16),
        2 => 0x8380,
        3 => 0x0100,
        _ => 0x8180,
    };
    GMsg {
        id: r.next() as u16,
        flags,
        questions,
        sections,
        count_delta: [0; 4],
    }
}

/// positions of interest in an encoded message
#[derive(Default, Clone, Debug)]
pub struct Layout {
    pub name_starts: Vec<usize>,
    /// (owner offset, type offset, rdata offset, rdlen announced, rtype) per record in wire order
    pub records: Vec<(usize, usize, usize, usize, u16)>,
}

pub struct Encoder<'a> {
    pub buf: Vec<u8>,
    pub mode: Compress,
    table: HashMap<Vec<Vec<u8>>, usize>,
    pub layout: Layout,
    r: &'a mut Rng,
}

impl<'a> Encoder<'a> {
    pub fn new(mode: Compress, r: &'a mut Rng) -> Self {
        Encoder {
            buf: Vec::new(),
            mode,
            table: HashMap::new(),
            layout: Layout::default(),
            r,
        }
    }

    pub fn u16(&mut self, v: u16) {
        self.buf.extend_from_slice(&v.to_be_bytes());
    }
    pub fn u32(&mut self, v: u32) {
        self.buf.extend_from_slice(&v.to_be_bytes());
    }

    pub fn name(&mut self, n: &GName) {
        self.layout.name_starts.push(self.buf.len());
        let labels = &n.labels;
        for i in 0..labels.len() {
            let suffix: Vec<Vec<u8>> = labels[i..].to_vec();
            if self.mode != Compress::None {
                if let Some(&off) = self.table.get(&suffix) {
                    if off < 0x3FFF && self.r.chance(4, 5) {
                        self.buf.push(0xC0 | (off >> 8) as u8);
                        self.buf.push(off as u8);
                        return;
                    }
                }
            }
            let here = self.buf.len();
            if here < 0x3FFF {
                self.table.entry(suffix).or_insert(here);
            }
            self.buf.push(labels[i].len() as u8);
            self.buf.extend_from_slice(&labels[i]);
        }
        self.buf.push(0);
    }

    fn data(&mut self, d: &GData) {
        match d {
            GData::A(v) => self.u32(*v),
            GData::Aaaa(v) => self.buf.extend_from_slice(&v.to_be_bytes()),
            GData::Dn(n) => self.name(n),
            GData::Soa(m, rn, v) => {
                self.name(m);
                self.name(rn);
                for x in v {
                    self.u32(*x);
                }
            }
            GData::Null(b) | GData::Raw(b) => self.buf.extend_from_slice(b),
            GData::Wks(a, p, b) => {
                self.u32(*a);
                self.buf.push(*p);
                self.buf.extend_from_slice(b);
            }
            GData::Hinfo(c, o) => {
                self.buf.push(c.len() as u8);
                self.buf.extend_from_slice(c);
                self.buf.push(o.len() as u8);
                self.buf.extend_from_slice(o);
            }
            GData::Minfo(a, b) => {
                self.name(a);
                self.name(b);
            }
            GData::Mx(p, n) => {
                self.u16(*p);
                self.name(n);
            }
            GData::Txt(ss) => {
                for s in ss {
                    self.buf.push(s.len() as u8);
                    self.buf.extend_from_slice(s);
                }
            }
        }
    }

    pub fn rec(&mut self, rec: &GRec) {
        let owner_off = self.buf.len();
        self.name(&rec.owner);
        let type_off = self.buf.len();
        self.u16(rec.rtype);
        self.u16(rec.rclass);
        self.u32(rec.ttl);
        let len_off = self.buf.len();
        self.u16(0);
        let start = self.buf.len();
        self.data(&rec.data);
        let true_len = self.buf.len() - start;
        let announced = (true_len as i64 + rec.rdlen_delta as i64).clamp(0, 65535) as usize;
        self.buf[len_off] = (announced >> 8) as u8;
        self.buf[len_off + 1] = announced as u8;
        self.layout
            .records
            .push((owner_off, type_off, start, announced, rec.rtype));
    }

    pub fn msg(&mut self, m: &GMsg) {
        self.u16(m.id);
        self.u16(m.flags);
        let counts = [
            m.questions.len() as i64 + m.count_delta[0] as i64,
            m.sections[0].len() as i64 + m.count_delta[1] as i64,
            m.sections[1].len() as i64 + m.count_delta[2] as i64,
            m.sections[2].len() as i64 + m.count_delta[3] as i64,
        ];
        for c in counts {
            self.u16(c.clamp(0, 65535) as u16);
        }
        for (n, t, c) in &m.questions {
            self.name(n);
            self.u16(*t);
            self.u16(*c);
        }
        for s in 0..3 {
            for rec in &m.sections[s] {
                self.rec(rec);
            }
        }
    }
}

pub fn encode(m: &GMsg, mode: Compress, r: &mut Rng) -> (Vec<u8>, Layout) {
    let mut e = Encoder::new(mode, r);
    e.msg(m);
    (e.buf, e.layout)
}

/// Encode `m` with one padding record (root owner, unknown type `rtype`, class IN, opaque data) pushed
/// at the end of section `sec`, sized such that the whole message is exactly `target` bytes long.
/// The first pass uses a pad that already moves everything behind it past the 14-bit pointer range, so
/// the compression choices (drawn from a clone of the generator state) are the same in both passes.
pub fn encode_padded(m: &mut GMsg, mode: Compress, r: &mut Rng, sec: usize, rtype: u16, target: usize) -> Option<(Vec<u8>, Layout)> {
    const L0: usize = 0x4000;
    let seed = r.byte();
    let pad = |n: usize| GRec {
        owner: GName::root(),
        rtype,
        rclass: 1,
        ttl: 0,
        data: GData::Raw((0..n).map(|i| seed.wrapping_add((i % 251) as u8)).collect()),
        rdlen_delta: 0,
    };
    m.sections[sec].push(pad(L0));
    let mut r0 = r.clone();
    let (b0, _) = encode(m, mode, &mut r0);
    let want = L0 as i64 + target as i64 - b0.len() as i64;
    let last = m.sections[sec].len() - 1;
    if want < L0 as i64 || want > 65535 {
        m.sections[sec].remove(last);
        return None;
    }
    m.sections[sec][last] = pad(want as usize);
    let out = encode(m, mode, r);
    if out.0.len() != target {
        m.sections[sec].remove(last);
        return None;
    }
    Some(out)
}

/// mutate bytes: flips, truncation, insertion
pub fn mutate(buf: &mut Vec<u8>, r: &mut Rng) {
    if buf.is_empty() {
        return;
    }
    match r.below(5) {
        0 => {
            let n = r.range(1, 3);
            for _ in 0..n {
                let i = r.below(buf.len() as u64) as usize;
                buf[i] = r.byte();
            }
        }
        1 => {
            let n = r.below(buf.len() as u64) as usize;
            buf.truncate(n);
        }
        2 => {
            let i = r.below(buf.len() as u64) as usize;
            buf[i] ^= 1 << r.below(8);
        }
        3 => {
            // turn some byte into a pointer to somewhere
            let i = r.below(buf.len() as u64) as usize;
            buf[i] = 0xC0;
            if i + 1 < buf.len() {
                buf[i + 1] = r.below(buf.len() as u64 + 4) as u8;
            }
        }
        _ => {
            // perturb a header count
            if buf.len() >= 12 {
                let i = 4 + 2 * r.below(4) as usize + 1;
                buf[i] = buf[i].wrapping_add(if r.chance(1, 2) { 1 } else { 255 });
            }
        }
    }
}

pub fn pick_mode(r: &mut Rng) -> Compress {
    match r.below(5) {
        0 => Compress::None,
        1 => Compress::Chains,
        _ => Compress::Suffix,
    }
}
