//! Streams `truth` (C02) and `seekhist` (C09).
//!
//! `truth <hex> exp=<transcript>`: the message is *well-formed* and was encoded from a semantic
//! description; `exp` is the transcript written from that description (never from decoded bytes).
//! The answer is the transcript the real decoders produce: flag accessors, one sequential
//! `MessageReader` pass (owned names, typed data, OPT through `opt_record`), the `MessageIterator`.
//!
//! `seekhist <hex> <op>…`: a protocol-conforming call history with many seeks; the answer is the
//! history's outputs followed by ` #L# ` and the outputs of one linear pass over the same message on
//! a fresh reader (`hd`, `qr`…, (`hr`,`db`)…, `hr`).

use super::decode::*;
use super::msggen::*;
use crate::canon::*;
use crate::mem::Guarded;
use crate::rng::Rng;
use crate::with_rtype;
use rsdns::message::reader::MessageReader;
use rsdns::message::MessageType;
use rsdns::names::Name;
use rsdns::records::data::*;

// ---------------------------------------------------------------------------------------------
// truth
// ---------------------------------------------------------------------------------------------

fn b01(b: bool) -> u8 {
    if b {
        1
    } else {
        0
    }
}

fn seq_transcript(buf: &[u8]) -> (String, String) {
    let mut items: Vec<String> = Vec::new();
    let mut mr = match MessageReader::new(buf) {
        Ok(m) => m,
        Err(e) => return ("-".into(), format!("!E:{}", show_err(&e))),
    };
    let flags;
    match mr.header() {
        Ok(h) => {
            let f = h.flags;
            flags = format!(
                "{}:{}:{}:{}:{}:{}:{}",
                b01(f.message_type() == MessageType::Response),
                f.opcode().value(),
                b01(f.authoritative_answer()),
                b01(f.truncated()),
                b01(f.recursion_desired()),
                b01(f.recursion_available()),
                f.response_code().value()
            );
            items.push(format!(
                "H:{}:{}:{}:{}:{}:{}",
                h.id,
                u16::from(h.flags),
                h.qd_count,
                h.an_count,
                h.ns_count,
                h.ar_count
            ));
        }
        Err(e) => return ("-".into(), format!("!E:{}", show_err(&e))),
    }
    while mr.has_questions() {
        match mr.question() {
            Ok(q) => items.push(format!(
                "Q:{}:{}:{}",
                to_hex(q.qname.as_str().as_bytes()),
                q.qtype.value(),
                q.qclass.value()
            )),
            Err(e) => {
                items.push(format!("!E:{}", show_err(&e)));
                return (flags, items.join(";"));
            }
        }
    }
    while mr.has_records() {
        let h = match mr.record_header::<Name>() {
            Ok(h) => h,
            Err(e) => {
                items.push(format!("!E:{}", show_err(&e)));
                return (flags, items.join(";"));
            }
        };
        let m = h.marker().clone();
        let mf = show_marker(&m); // M:off:toff:type:class:ttl:rdlen:sec
        let f: Vec<&str> = mf.split(':').collect();
        let t = m.rtype().value();
        let data = if ALL_TYPES.contains(&t) {
            with_rtype!(type_name(t), D, show_e(&mr.record_data::<D>(&m), |d| d.show()), "?".into())
        } else if t == T_OPT {
            show_e(&mr.opt_record(&m), |o| {
                format!(
                    "opt:{}:{}:{}:{}",
                    o.udp_payload_size(),
                    o.rcode_extension(),
                    o.version(),
                    b01(o.dnssec_ok())
                )
            })
        } else {
            show_e(&mr.record_data_bytes(&m), |b| format!("raw:{}", to_hex(b)))
        };
        if data.starts_with("E:") {
            // like a failing header call: the pass ends here, with the error
            items.push(format!("!{}", data));
            return (flags, items.join(";"));
        }
        items.push(format!(
            "R:{}:{}:{}:{}:{}:{}:{}:{}:{}",
            f[7],
            f[1],
            f[2],
            f[6],
            to_hex(h.name().as_str().as_bytes()),
            f[3],
            f[4],
            f[5],
            data
        ));
    }
    let extra = show_e(&mr.record_marker(), |_| "a-record-that-was-not-encoded".into());
    items.push(format!("END:{}:{}:{}", extra, mr.questions_count(), mr.records_count()));
    (flags, items.join(";"))
}

/// `truth <hex> [exp=…]` -> `F=<flag accessors> | S=<sequential transcript> | I=<iterator answer>`
pub fn eval_truth(toks: &[&str]) -> String {
    if toks.len() != 2 && !(toks.len() == 3 && toks[2].starts_with("exp=")) {
        return "bad-request".into();
    }
    let bytes = match from_hex(toks[1]) {
        Some(b) => b,
        None => return "bad-request".into(),
    };
    let g = Guarded::new(&bytes, true);
    let buf = g.as_slice();
    let (f, s) = seq_transcript(buf);
    let it = eval_iter(&["iter", toks[1]]);
    format!("F={} | S={} | I={}", f, s, it)
}

fn wire_len(n: &GName) -> usize {
    n.labels.iter().map(|l| l.len() + 1).sum::<usize>() + 1
}

fn legal_name(mut n: GName) -> GName {
    while wire_len(&n) > 255 {
        n.labels.pop();
    }
    n
}

pub(super) fn legalize_data(d: GData) -> GData {
    match d {
        GData::Dn(n) => GData::Dn(legal_name(n)),
        GData::Soa(a, b, v) => GData::Soa(legal_name(a), legal_name(b), v),
        GData::Minfo(a, b) => GData::Minfo(legal_name(a), legal_name(b)),
        GData::Mx(p, n) => GData::Mx(p, legal_name(n)),
        other => other,
    }
}

/// a well-formed semantic message: any id / flags, 0..3 questions, records of the 17 data types,
/// OPT, and unknown types / classes (QTYPE-only codes 252..255 are not record types and are left out)
fn gen_wellformed(r: &mut Rng) -> GMsg {
    let pool = r.chance(1, 2);
    let mut m = gen_msg(r, pool);
    if r.chance(1, 6) {
        // a third question
        let extra = (gen_name(r, pool), r.next() as u16, r.next() as u16);
        m.questions.push(extra);
    }
    if r.chance(1, 3) {
        m.flags = r.next() as u16;
    }
    for q in m.questions.iter_mut() {
        q.0 = legal_name(q.0.clone());
    }
    for s in 0..3 {
        for rec in m.sections[s].iter_mut() {
            rec.owner = legal_name(rec.owner.clone());
            rec.data = legalize_data(rec.data.clone());
            rec.rdlen_delta = 0;
            if (252..=255).contains(&rec.rtype) || (r.chance(1, 12) && rec.rtype != T_OPT) {
                // unknown types, among them codes whose low byte is a defined type
                rec.rtype = *r.pick(&[0u16, 17, 27, 29, 40, 42, 99, 251, 256, 257, 284, 297, 511, 0x8001, 0xff10, 65535]);
                rec.data = GData::Raw((0..r.below(16)).map(|_| r.byte()).collect());
            }
            if rec.rtype == T_OPT {
                // CLASS carries the UDP payload size, TTL the extended rcode / version / flags
                rec.rclass = if r.chance(1, 8) {
                    *r.pick(&[1u16, 2, 3, 4, 255])
                } else {
                    *r.pick(&[0u16, 512, 1232, 1410, 4096, 65535])
                };
                rec.ttl = match r.below(4) {
                    0 => 0,
                    1 => 0x8000,
                    _ => r.next() as u32,
                };
            } else if r.chance(1, 10) {
                rec.rclass = *r.pick(&[0u16, 2, 3, 4, 5, 254, 255, 256, 257, 4096, 65535]);
            }
        }
    }
    m.count_delta = [0; 4];
    m
}

fn expected_truth(m: &GMsg, layout: &Layout) -> String {
    let w = m.flags as u32;
    let f = format!(
        "{}:{}:{}:{}:{}:{}:{}",
        w / 32768 % 2,
        w / 2048 % 16,
        w / 1024 % 2,
        w / 512 % 2,
        w / 256 % 2,
        w / 128 % 2,
        w % 16
    );
    let h = format!(
        "H:{}:{}:{}:{}:{}:{}",
        m.id,
        m.flags,
        m.questions.len(),
        m.sections[0].len(),
        m.sections[1].len(),
        m.sections[2].len()
    );
    let qs: Vec<String> = m
        .questions
        .iter()
        .map(|(n, t, c)| format!("Q:{}:{}:{}", gname_hex(n), t, c))
        .collect();
    let mut s_items = vec![h.clone()];
    s_items.extend(qs.iter().cloned());
    let mut i_items: Vec<String> = Vec::new();
    let mut k = 0usize;
    for s in 0..3 {
        for rec in &m.sections[s] {
            let (off, toff, _start, rdlen, _) = layout.records[k];
            k += 1;
            let typed = ALL_TYPES.contains(&rec.rtype);
            let data = if typed {
                gdata_show(rec.rtype, &rec.data).unwrap_or_else(|| "?".into())
            } else if rec.rtype == T_OPT {
                format!(
                    "opt:{}:{}:{}:{}",
                    rec.rclass,
                    rec.ttl / 16777216,
                    rec.ttl / 65536 % 256,
                    rec.ttl / 32768 % 2
                )
            } else {
                match &rec.data {
                    GData::Raw(b) => format!("raw:{}", to_hex(b)),
                    _ => "?".into(),
                }
            };
            s_items.push(format!(
                "R:{}:{}:{}:{}:{}:{}:{}:{}:{}",
                s,
                off,
                toff,
                rdlen,
                gname_hex(&rec.owner),
                rec.rtype,
                rec.rclass,
                rec.ttl,
                data
            ));
            // the iterator yields the records of the 17 data types whose class is a defined one;
            // everything else (OPT, unknown types, unknown classes) is passed over in silence
            let class_defined = matches!(rec.rclass, 1 | 2 | 3 | 4 | 255);
            if typed && class_defined {
                i_items.push(format!(
                    "R:{}:{}:{}:{}:{}:{}",
                    s,
                    gname_hex(&rec.owner),
                    rec.rclass,
                    rec.rtype,
                    rec.ttl,
                    data
                ));
            }
        }
    }
    s_items.push("END:E:ReaderDone:0:0".into());
    // `MessageIterator::question()`: "the first question in the questions section"
    let the_q = if !m.questions.is_empty() {
        qs[0].clone()
    } else {
        "E:BadQuestionsCount(0)".to_string()
    };
    format!(
        "F={}|S={}|I={}|{}|{}|{}",
        f,
        s_items.join(";"),
        h,
        the_q,
        qs.join(";"),
        i_items.join(";")
    )
}

/// a well-formed message of exactly `target` bytes: the sizes around the 65535-byte limit of a DNS
/// message (the largest the two-octet TCP length prefix announces, and the largest `MessageReader` takes;
/// the iterator API has no limit). `sec` is the section that gets the padding record.
pub(super) fn gen_big(r: &mut Rng, targets: &[usize]) -> Option<(GMsg, Vec<u8>, Layout, usize)> {
    let mut m = gen_wellformed(r);
    let mode = pick_mode(r);
    let target = *r.pick(targets);
    let sec = r.below(3) as usize;
    let rtype = *r.pick(&[99u16, 0xff10, 257]);
    let (buf, layout) = encode_padded(&mut m, mode, r, sec, rtype, target)?;
    Some((m, buf, layout, target))
}

/// at most 100 cases of a run, whatever its size, are the (large) boundary-size messages
pub(super) fn big_slot(i: u64, every: u64) -> bool {
    i % every == every - 1 && i < 100 * every
}

pub fn gen_truth(r: &mut Rng, i: u64) -> String {
    if big_slot(i, 200) {
        if let Some((m, buf, layout, target)) = gen_big(r, &[65535, 65535, 65535, 65534, 65536, 65537, 66000]) {
            return if target <= 65535 {
                format!("truth {} exp={}", to_hex(&buf), expected_truth(&m, &layout))
            } else {
                // the sequential reader refuses the buffer; the iterator API decodes it
                format!("truth {}", to_hex(&buf))
            };
        }
    }
    let m = gen_wellformed(r);
    let mode = pick_mode(r);
    let (buf, layout) = encode(&m, mode, r);
    if buf.len() > 65535 {
        // (many large records) beyond what the sequential reader takes
        return format!("truth {}", to_hex(&buf));
    }
    format!("truth {} exp={}", to_hex(&buf), expected_truth(&m, &layout))
}

// ---------------------------------------------------------------------------------------------
// seekhist
// ---------------------------------------------------------------------------------------------

/// the op list of one linear pass, from the header counts (capped: the pass stops at the first error)
fn linear_ops(bytes: &[u8]) -> Vec<String> {
    let mut ops = vec!["hd".to_string()];
    if bytes.len() >= 12 {
        let c = |i: usize| u16::from_be_bytes([bytes[i], bytes[i + 1]]) as usize;
        let qd = c(4).min(64);
        let n = (c(6) + c(8) + c(10)).min(64);
        for _ in 0..qd {
            ops.push("qr".into());
        }
        for _ in 0..n {
            ops.push("hr".into());
            ops.push("db".into());
        }
    }
    ops.push("hr".into());
    ops
}

/// `seekhist <hex> <op>…` -> `<outputs of the history> ## <outputs of one linear pass>`
pub fn eval_seekhist(toks: &[&str]) -> String {
    if toks.len() < 2 {
        return "bad-request".into();
    }
    let bytes = match from_hex(toks[1]) {
        Some(b) => b,
        None => return "bad-request".into(),
    };
    let hist = run_history(&bytes, &toks[2..], Vec::new(), toks.len() % 2 == 0);
    let lin_ops = linear_ops(&bytes);
    let lin_refs: Vec<&str> = lin_ops.iter().map(|s| s.as_str()).collect();
    let lin = run_history(&bytes, &lin_refs, Vec::new(), true);
    format!("{} #L# {}", hist, lin)
}

const G1: [&str; 4] = ["mk", "hr", "hh", "hi"];

/// conforming, seek-heavy histories over messages of every section shape. The generator tracks where
/// a conforming reader is (questions read, record index) so that pairs stay paired and questions
/// come first; it does not decide what the answers must be.
pub fn gen_seekhist(r: &mut Rng, _i: u64) -> String {
    // section shape first: every combination of empty / non-empty sections is frequent
    let (buf, m) = if r.chance(1, 5) {
        let (b, m, _) = gen_message_bytes(r);
        (b, m)
    } else {
        let mut m = gen_wellformed(r);
        for s in 0..3 {
            match r.below(4) {
                0 => m.sections[s].clear(),
                1 => m.sections[s].truncate(1),
                _ => {}
            }
        }
        if r.chance(1, 4) {
            m.questions.clear();
        }
        let mode = pick_mode(r);
        let (mut b, _) = encode(&m, mode, r);
        if r.chance(1, 12) {
            let n = r.below(b.len() as u64 + 1) as usize;
            b.truncate(n);
        }
        (b, m)
    };
    let tot = [m.sections[0].len(), m.sections[1].len(), m.sections[2].len()];
    let n = tot[0] + tot[1] + tot[2];
    let start = [0usize, tot[0], tot[0] + tot[1]];
    let nq = m.questions.len();
    let mut ops: Vec<String> = vec!["hd".into()];
    let mut q_read = 0usize;
    let mut k = 0usize;
    let n_ops = if r.chance(1, 4) { r.range(30, 90) } else { r.range(4, 30) };
    // a plan makes long purposeful runs likely: read up to the end of some section, seek, re-read
    let mut run_to: Option<usize> = None;
    for _ in 0..n_ops {
        if q_read < nq {
            // seek straight after the header now and then (the documented first scenario)
            if q_read == 0 && r.chance(1, 5) {
                let s = r.below(3) as usize;
                ops.push(format!("seek:{}", s));
                q_read = nq;
                k = start[s];
                continue;
            }
            match r.below(6) {
                0 => {
                    ops.push("sq".into());
                    q_read = nq;
                }
                1 | 2 => {
                    ops.push("qr".into());
                    q_read += 1;
                }
                3 if nq == 1 => {
                    ops.push("tqr".into());
                    q_read += 1;
                }
                _ => {
                    ops.push("q".into());
                    q_read += 1;
                }
            }
            continue;
        }
        if let Some(target) = run_to {
            if k < target && k < n {
                ops.push(r.pick(&G1).to_string());
                ops.push(if r.chance(1, 2) { "sk".into() } else { "db".into() });
                k += 1;
                continue;
            }
            run_to = None;
        }
        match r.below(20) {
            0..=6 => {
                if k < n || r.chance(1, 10) {
                    ops.push(r.pick(&G1).to_string());
                    let g2 = match r.below(6) {
                        0 | 1 => "sk".to_string(),
                        2 | 3 => "db".to_string(),
                        _ => {
                            let t = if k < n {
                                m.sections.iter().flat_map(|s| s.iter()).nth(k).map(|x| x.rtype).unwrap_or(1)
                            } else {
                                1
                            };
                            if ALL_TYPES.contains(&t) {
                                format!("dt:{}", type_name(t))
                            } else {
                                "db".to_string()
                            }
                        }
                    };
                    // a header without its data now and then, followed by a seek
                    if r.chance(1, 15) {
                        ops.push(format!("seek:{}", r.below(3)));
                    } else {
                        ops.push(g2);
                        k += 1;
                    }
                }
            }
            7..=9 => {
                // read on to the end of a section (its last record included) or to the end
                let s = r.below(3) as usize;
                run_to = Some(if r.chance(1, 4) { n } else { start[s] + tot[s] });
            }
            10..=14 => {
                let s = r.below(3) as usize;
                ops.push(format!("seek:{}", s));
                k = start[s];
            }
            15 => ops.push("cq".into()),
            16 => ops.push("cr".into()),
            17 | 18 => ops.push(format!("cs:{}", r.below(3))),
            _ => {
                ops.push("cr".into());
                ops.push(format!("cs:{}", r.below(3)));
            }
        }
    }
    format!("seekhist {} {}", to_hex(&buf), ops.join(" "))
}

#[allow(dead_code)]
fn _unused(_: &A) {}
