//! stream `name`: `name <mode> <pos> <hex>` — read / skip / iterate a (possibly compressed) domain
//! name at an arbitrary position of an arbitrary buffer, through the four instantiations of
//! `labels_loop!`.

use crate::canon::*;
use crate::mem::Guarded;
use crate::rng::Rng;
use rsdns::names::{InlineName, Name};
use rsdns::verif_hooks as vh;

const MODES: [&str; 4] = ["heap", "inline", "skip", "iter"];

const LABEL_CHARS: &[u8] = b"abcdefghijklmnopqrstuvwxyzABCDEFGHIJKLMNOPQRSTUVWXYZ0123456789-_";

fn valid_label(r: &mut Rng, len: usize) -> Vec<u8> {
    let mut l = Vec::with_capacity(len);
    for i in 0..len {
        let mut c = *r.pick(LABEL_CHARS);
        if (i == 0 || i + 1 == len) && c == b'-' {
            c = b'x';
        }
        l.push(c);
    }
    l
}

fn valid_label_rng(r: &mut Rng, lo: u64, hi: u64) -> Vec<u8> {
    let n = r.range(lo, hi) as usize;
    valid_label(r, n)
}

fn push_label(buf: &mut Vec<u8>, l: &[u8]) {
    buf.push(l.len() as u8);
    buf.extend_from_slice(l);
}

fn push_ptr(buf: &mut Vec<u8>, off: usize) {
    buf.push(0xC0 | ((off >> 8) as u8 & 0x3F));
    buf.push(off as u8);
}

/// structured: a sequence of names, later ones compressed against earlier label starts
fn gen_structured(r: &mut Rng) -> (Vec<u8>, usize) {
    let mut buf = Vec::new();
    let pad = r.below(14) as usize;
    for _ in 0..pad {
        buf.push(r.byte());
    }
    let mut label_starts: Vec<usize> = Vec::new();
    let mut name_starts: Vec<usize> = Vec::new();
    let n_names = r.range(1, 5);
    for _ in 0..n_names {
        name_starts.push(buf.len());
        let n_labels = r.below(5);
        for _ in 0..n_labels {
            label_starts.push(buf.len());
            let len = match r.below(10) {
                0 => 63,
                1 => r.range(40, 63) as usize,
                _ => r.range(1, 8) as usize,
            };
            let l = valid_label(r, len);
            push_label(&mut buf, &l);
        }
        if !label_starts.is_empty() && r.chance(2, 3) {
            let t = if r.chance(1, 6) && !name_starts.is_empty() {
                *r.pick(&name_starts)
            } else {
                *r.pick(&label_starts)
            };
            push_ptr(&mut buf, t);
        } else {
            buf.push(0);
        }
        // filler between names (fixed fields of a question / record)
        let fill = r.below(6) as usize;
        for _ in 0..fill {
            buf.push(r.byte());
        }
    }
    let start = if r.chance(4, 5) {
        *r.pick(&name_starts)
    } else if !label_starts.is_empty() {
        *r.pick(&label_starts)
    } else {
        0
    };
    (buf, start)
}

/// boundary: pointer target at P0-1 / P0 / P0+1 / P0+2 (P0 = position of the first pointer)
fn gen_ptr_boundary(r: &mut Rng) -> (Vec<u8>, usize) {
    let mut buf = Vec::new();
    // an earlier name so that backward pointers have something to hit
    let l = valid_label_rng(r, 1, 5);
    push_label(&mut buf, &l);
    buf.push(0);
    while buf.len() < r.range(4, 12) as usize {
        buf.push(0);
    }
    let start = buf.len();
    let n_labels = r.below(3);
    for _ in 0..n_labels {
        let l = valid_label_rng(r, 1, 4);
        push_label(&mut buf, &l);
    }
    let p0 = buf.len();
    let delta: i64 = *r.pick(&[-3i64, -2, -1, 0, 1, 2, 3]);
    let target = (p0 as i64 + delta).max(0) as usize;
    push_ptr(&mut buf, target);
    // bytes after the pointer that would parse as a name if a forward pointer were followed
    let l = valid_label(r, 2);
    push_label(&mut buf, &l);
    buf.push(0);
    (buf, start)
}

/// large messages: a pointer whose target lies at an offset that needs bit 12 / bit 13 of the 14-bit
/// offset field (4096.., 8192.., up to 16383). The filler in front is itself a valid name at every
/// 4-byte step, so that a pointer resolved to a truncated offset still finds a (different) name.
fn gen_far(r: &mut Rng) -> (Vec<u8>, usize) {
    let mut buf = Vec::new();
    let base = *r.pick(&[4090usize, 4096, 8186, 8192, 8200, 12288, 16370]);
    let pad = base + r.below(8) as usize;
    while buf.len() + 5 <= pad {
        buf.extend_from_slice(&[3, b'p', b'a', b'd']);
    }
    buf.push(0);
    while buf.len() < pad {
        buf.push(0);
    }
    // the target name, in place
    let target = buf.len();
    let n_labels = r.range(1, 3);
    for _ in 0..n_labels {
        let l = valid_label_rng(r, 1, 6);
        push_label(&mut buf, &l);
    }
    buf.push(0);
    // filler, then the name under test: 0..2 labels + a pointer to the target (or into its middle)
    for _ in 0..r.below(4) {
        buf.push(0);
    }
    let start = buf.len();
    for _ in 0..r.below(3) {
        let l = valid_label_rng(r, 1, 4);
        push_label(&mut buf, &l);
    }
    if target <= 0x3FFF {
        push_ptr(&mut buf, target);
    } else {
        buf.push(0);
    }
    let l = valid_label(r, 2);
    push_label(&mut buf, &l);
    buf.push(0);
    (buf, start)
}

/// boundary: pointer chains of 30..34 hops, optionally with labels in between
fn gen_chain(r: &mut Rng) -> (Vec<u8>, usize) {
    let mut buf = Vec::new();
    let l = valid_label_rng(r, 1, 3);
    push_label(&mut buf, &l);
    buf.push(0);
    let hops = *r.pick(&[1usize, 2, 30, 31, 32, 33, 34, 40]);
    let with_labels = r.chance(1, 3);
    let mut prev = 0usize;
    for _ in 0..hops {
        let here = buf.len();
        if with_labels {
            let l = valid_label(r, 1);
            push_label(&mut buf, &l);
        }
        push_ptr(&mut buf, prev);
        prev = here;
    }
    (buf, prev)
}

/// boundary: wire name length 250..258 built from maximal labels
fn gen_long(r: &mut Rng) -> (Vec<u8>, usize) {
    let mut buf = Vec::new();
    let total_text: usize = r.range(248, 258) as usize; // sum(len+1)
    let mut left = total_text;
    let compress = r.chance(1, 3);
    let mut first_tail = Vec::new();
    if compress {
        // a tail name placed first, pointed to by the long name
        let l = valid_label_rng(r, 1, 20);
        push_label(&mut first_tail, &l);
        first_tail.push(0);
        left = left.saturating_sub(l.len() + 1);
        buf.extend_from_slice(&first_tail);
    }
    let start = buf.len();
    while left > 0 {
        let take = if left >= 64 { 63 } else { left - 1 };
        if take == 0 {
            break;
        }
        let l = valid_label(r, take);
        push_label(&mut buf, &l);
        left -= take + 1;
    }
    if compress {
        push_ptr(&mut buf, 0);
    } else {
        buf.push(0);
    }
    (buf, start)
}

/// label content / type bytes from all 256 values
fn gen_bytes(r: &mut Rng) -> (Vec<u8>, usize) {
    let mut buf = Vec::new();
    let n = r.range(1, 3);
    for _ in 0..n {
        match r.below(6) {
            0 => {
                // arbitrary label-type byte
                buf.push(r.byte());
                for _ in 0..r.below(4) {
                    buf.push(r.byte());
                }
            }
            1 => {
                // label with one arbitrary byte inside
                let len = r.range(1, 6) as usize;
                let mut l = valid_label(r, len);
                let i = r.below(len as u64) as usize;
                l[i] = r.byte();
                push_label(&mut buf, &l);
            }
            2 => {
                // label with '-' at an end
                let len = r.range(1, 5) as usize;
                let mut l = valid_label(r, len);
                if r.chance(1, 2) {
                    l[0] = b'-';
                } else {
                    l[len - 1] = b'-';
                }
                push_label(&mut buf, &l);
            }
            3 => {
                // declared length longer than what is left
                buf.push(r.range(1, 63) as u8);
                for _ in 0..r.below(3) {
                    buf.push(b'a');
                }
                return (buf, 0);
            }
            _ => {
                let l = valid_label_rng(r, 1, 6);
                push_label(&mut buf, &l);
            }
        }
    }
    if r.chance(3, 4) {
        buf.push(0);
    }
    (buf, 0)
}

/// a web of pointers: the name under test sits at the end and points back to a fragment that itself
/// ends in a pointer *forward* to a later fragment (still in front of the name's first pointer), and
/// so on. Every pointer lies in front of the first one, as the decoders demand, but only the first is
/// a backward reference; targets at the bound (first pointer − 3 … first pointer + 1) included.
fn gen_web(r: &mut Rng) -> (Vec<u8>, usize) {
    let mut buf = Vec::new();
    for _ in 0..r.below(6) {
        buf.push(r.byte());
    }
    let n_frag = r.range(2, 5) as usize;
    // fragment i: 1..2 labels, then a pointer to fragment i+1 (patched below) or the root
    let mut frag_start = Vec::new();
    let mut ptr_at = Vec::new();
    for i in 0..n_frag {
        frag_start.push(buf.len());
        for _ in 0..r.range(if i == 0 { 0 } else { 1 }, 2) {
            let l = valid_label_rng(r, 1, 5);
            push_label(&mut buf, &l);
        }
        if i + 1 < n_frag {
            ptr_at.push(buf.len());
            push_ptr(&mut buf, 0);
        } else {
            buf.push(0);
        }
        for _ in 0..r.below(4) {
            buf.push(r.byte());
        }
    }
    // visiting order of the fragments: a permutation starting anywhere, so that hops go both ways
    let mut order: Vec<usize> = (0..n_frag).collect();
    if r.chance(2, 3) {
        for i in (1..order.len()).rev() {
            let j = r.below(i as u64 + 1) as usize;
            order.swap(i, j);
        }
    }
    // fragment k's pointer (if it has one) leads to the fragment after it in `order`; the fragment
    // whose successor does not exist keeps its pointer target 0 unless it is the last fragment
    for w in order.windows(2) {
        let (from, to) = (w[0], w[1]);
        if from + 1 < n_frag {
            let at = ptr_at[from];
            let t = frag_start[to];
            buf[at] = 0xC0 | ((t >> 8) as u8 & 0x3F);
            buf[at + 1] = t as u8;
        }
    }
    let start = buf.len();
    for _ in 0..r.below(3) {
        let l = valid_label_rng(r, 1, 4);
        push_label(&mut buf, &l);
    }
    let p0 = buf.len();
    let first = frag_start[order[0]];
    push_ptr(&mut buf, first);
    if r.chance(1, 6) {
        // one inner pointer aimed at the bound
        if let Some(&at) = ptr_at.first() {
            let t = (p0 as i64 + *r.pick(&[-4i64, -3, -2, -1, 0, 1])).max(0) as usize;
            buf[at] = 0xC0 | ((t >> 8) as u8 & 0x3F);
            buf[at + 1] = t as u8;
        }
    }
    (buf, start)
}

fn gen_random(r: &mut Rng) -> (Vec<u8>, usize) {
    let n = r.below(40) as usize;
    let mut buf = Vec::with_capacity(n);
    for _ in 0..n {
        // bias towards small values, zeros and pointer bytes
        let b = match r.below(6) {
            0 => 0,
            1 => 0xC0,
            2 => r.below(8) as u8,
            3 => *r.pick(LABEL_CHARS),
            _ => r.byte(),
        };
        buf.push(b);
    }
    let pos = r.below(n as u64 + 3) as usize;
    (buf, pos)
}

pub fn gen(r: &mut Rng, index: u64) -> String {
    gen_mode(r, index, None)
}

/// stream `names`: the same buffers, decoded through all four instantiations at once
pub fn gen_all(r: &mut Rng, index: u64) -> String {
    gen_mode(r, index, Some("all"))
}

fn gen_mode(r: &mut Rng, _index: u64, fixed: Option<&'static str>) -> String {
    let far = r.chance(1, 25);
    let (mut buf, mut pos) = match r.below(if far { 21 } else { 20 }) {
        20 => gen_far(r),
        0..=4 => gen_structured(r),
        5..=6 => gen_web(r),
        7..=9 => gen_ptr_boundary(r),
        10..=11 => gen_chain(r),
        12..=14 => gen_long(r),
        15..=17 => gen_bytes(r),
        _ => gen_random(r),
    };
    // mutate a structured case now and then
    if r.chance(1, 8) && !buf.is_empty() {
        match r.below(3) {
            0 => {
                let i = r.below(buf.len() as u64) as usize;
                buf[i] = r.byte();
            }
            1 => {
                let n = r.below(buf.len() as u64) as usize;
                buf.truncate(n);
            }
            _ => {
                pos = r.below(buf.len() as u64 + 2) as usize;
            }
        }
    }
    let mode = *r.pick(&MODES);
    match fixed {
        Some(_) => format!("names {} {}", pos, to_hex(&buf)),
        None => format!("name {} {} {}", mode, pos, to_hex(&buf)),
    }
}

/// `names <pos> <hex>` -> `heap=<answer> | inline=<answer> | skip=<answer> | iter=<answer>`
pub fn eval_all(toks: &[&str]) -> String {
    if toks.len() != 3 {
        return "bad-request".into();
    }
    let parts: Vec<String> = MODES
        .iter()
        .map(|m| {
            let a = std::panic::catch_unwind(|| eval(&["name", m, toks[1], toks[2]])).unwrap_or_else(|_| "panic".to_string());
            format!("{}={}", m, a)
        })
        .collect();
    if parts.iter().any(|p| p.ends_with("=bad-request")) {
        return "bad-request".into();
    }
    parts.join(" | ")
}

pub fn eval(toks: &[&str]) -> String {
    if toks.len() != 4 {
        return "bad-request".into();
    }
    let mode = toks[1];
    let pos: usize = match toks[2].parse() {
        Ok(p) => p,
        Err(_) => return "bad-request".into(),
    };
    let bytes = match from_hex(toks[3]) {
        Some(b) => b,
        None => return "bad-request".into(),
    };
    let g = Guarded::new(&bytes, pos % 2 == 0);
    let buf = g.as_slice();
    match mode {
        "heap" => {
            let mut c = vh::Cursor::with_pos(buf, pos);
            let r: rsdns::Result<Name> = vh::read_domain_name(&mut c);
            show_res(&r, |n| format!("{} next={}", to_hex(n.as_str().as_bytes()), c.pos()))
        }
        "inline" => {
            let mut c = vh::Cursor::with_pos(buf, pos);
            let r: rsdns::Result<InlineName> = vh::read_domain_name(&mut c);
            show_res(&r, |n| format!("{} next={}", to_hex(n.as_str().as_bytes()), c.pos()))
        }
        "skip" => {
            let mut c = vh::Cursor::with_pos(buf, pos);
            let r = vh::skip_domain_name(&mut c);
            show_res(&r, |n| format!("n={} next={}", n, c.pos()))
        }
        "iter" => {
            let mut labels = vh::labels_at(buf, pos);
            let mut out: Vec<String> = Vec::new();
            while let Some(l) = labels.next() {
                match l {
                    Ok(l) => {
                        if !g.contains(l.bytes()) {
                            return "slice-outside-message".into();
                        }
                        let off = l.bytes().as_ptr() as usize - buf.as_ptr() as usize - 1 + 1;
                        // LabelRef::pos is crate-private: the label's position is recovered from
                        // the slice address (bytes start one past the length octet)
                        out.push(format!("{}@{}", to_hex(l.bytes()), off - 1));
                    }
                    Err(e) => {
                        // a name that is rejected stays rejected: the walk ends with its first error
                        for _ in 0..3 {
                            match labels.next() {
                                None => {}
                                Some(Ok(l)) => return format!("resumed-after-error {} then label {}", show_err(&e), to_hex(l.bytes())),
                                Some(Err(e2)) => return format!("resumed-after-error {} then {}", show_err(&e), show_err(&e2)),
                            }
                        }
                        return format!("err {}", show_err(&e));
                    }
                }
            }
            format!("ok {}", out.join(","))
        }
        _ => "bad-request".into(),
    }
}
