//! request kinds `check`, `checklabel`, `parse`, `wname`, `cmp`, `eqstr`, `query`: text-side name
//! code and the wire encoder, driven through the hook with exact-size guard-paged buffers.

use crate::canon::*;
use crate::mem::Guarded;
use crate::rng::Rng;
use rsdns::names::{InlineName, Name};
use rsdns::records::{Class, Type};
use rsdns::verif_hooks as vh;
use std::hash::{Hash, Hasher};
use std::str::FromStr;

/// records the exact byte sequence fed by `Hash::hash` — and its call structure: `Hasher` does not
/// promise that one `write(&[a, b])` hashes like `write_u8(a); write_u8(b)` (word-at-a-time hashers
/// such as FxHasher do differ), so "equal names hash alike" needs equal call sequences. A `write` of
/// anything but one byte is recorded with the marker `ff fe` (bytes no name contains) in front.
#[derive(Default)]
struct Recorder(Vec<u8>);
impl Hasher for Recorder {
    fn finish(&self) -> u64 {
        0
    }
    fn write(&mut self, bytes: &[u8]) {
        if bytes.len() != 1 {
            self.0.extend_from_slice(&[0xff, 0xfe]);
        }
        self.0.extend_from_slice(bytes);
    }
}

fn feed<T: Hash>(t: &T) -> String {
    let mut r = Recorder::default();
    t.hash(&mut r);
    to_hex(&r.0)
}

fn ord_str(o: std::cmp::Ordering) -> &'static str {
    match o {
        std::cmp::Ordering::Less => "lt",
        std::cmp::Ordering::Equal => "eq",
        std::cmp::Ordering::Greater => "gt",
    }
}

pub fn eval(toks: &[&str]) -> String {
    match toks {
        ["check", h] => match from_hex(h) {
            Some(s) => show_res(&vh::check_name_bytes(&s), |_| String::new()),
            None => "bad-request".into(),
        },
        ["checklabel", h] => match from_hex(h) {
            Some(s) => show_res(&vh::check_label_bytes(&s), |_| String::new()),
            None => "bad-request".into(),
        },
        ["parse", kind, h] => {
            let bytes = match from_hex(h) {
                Some(b) => b,
                None => return "bad-request".into(),
            };
            // the public parsers take &str; non-UTF-8 input cannot be expressed through them
            let s = match std::str::from_utf8(&bytes) {
                Ok(s) => s,
                Err(_) => return "not-utf8".into(),
            };
            match *kind {
                "heap" => {
                    let r = Name::from_str(s);
                    // TryFrom<&str> must agree with FromStr
                    let r2 = Name::try_from(s);
                    if r.is_ok() != r2.is_ok() {
                        return "fromstr-tryfrom-disagree".into();
                    }
                    show_res(&r, |n| to_hex(n.as_str().as_bytes()))
                }
                "inline" => {
                    let r = InlineName::from_str(s);
                    let r2 = InlineName::try_from(s);
                    if r.is_ok() != r2.is_ok() {
                        return "fromstr-tryfrom-disagree".into();
                    }
                    show_res(&r, |n| to_hex(n.as_str().as_bytes()))
                }
                _ => "bad-request".into(),
            }
        }
        ["wname", cap, h] => {
            let cap: usize = match cap.parse() {
                Ok(c) => c,
                Err(_) => return "bad-request".into(),
            };
            let name = match from_hex(h) {
                Some(b) => b,
                None => return "bad-request".into(),
            };
            let mut g = Guarded::new(&vec![0xFFu8; cap], true);
            let r = vh::write_domain_name(g.as_mut_slice(), &name);
            let buf = g.as_slice();
            match &r {
                Ok(n) => {
                    let n = *n;
                    if n > cap {
                        return "length-beyond-buffer".into();
                    }
                    format!("ok {} {} rest={}", n, to_hex(&buf[..n]), buf[n..].iter().all(|b| *b == 0xFF))
                }
                Err(e) => format!("err {}", show_err(e)),
            }
        }
        ["cmp", ha, hb] => {
            let (a, b) = match (from_hex(ha), from_hex(hb)) {
                (Some(a), Some(b)) => (a, b),
                _ => return "bad-request".into(),
            };
            let (sa, sb) = match (std::str::from_utf8(&a), std::str::from_utf8(&b)) {
                (Ok(a), Ok(b)) => (a, b),
                _ => return "badname".into(),
            };
            match (Name::from_str(sa), Name::from_str(sb), InlineName::from_str(sa), InlineName::from_str(sb)) {
                (Ok(na), Ok(nb), Ok(ia), Ok(ib)) => {
                    // partial_cmp must agree with cmp
                    if na.partial_cmp(&nb) != Some(na.cmp(&nb)) || ia.partial_cmp(&ib) != Some(ia.cmp(&ib)) {
                        return "partial-cmp-disagrees".into();
                    }
                    let conv_i: InlineName = na.clone().into();
                    let conv_h: Name = ia.clone().into();
                    let conv_h2: Name = (&ia).into();
                    if conv_h.as_str() != conv_h2.as_str() {
                        return "from-ref-disagrees".into();
                    }
                    format!(
                        "eq={} cmp={} ieq={} icmp={} xeq={} ha={} hb={} iha={} conv={}:ok {}:ok {}",
                        na == nb,
                        ord_str(na.cmp(&nb)),
                        ia == ib,
                        ord_str(ia.cmp(&ib)),
                        ia == nb,
                        feed(&na),
                        feed(&nb),
                        feed(&ia),
                        to_hex(na.as_str().as_bytes()),
                        to_hex(conv_i.as_str().as_bytes()),
                        to_hex(conv_h.as_str().as_bytes()),
                    )
                }
                _ => "badname".into(),
            }
        }
        ["eqstr", kind, hn, hs] => {
            let (n, s) = match (from_hex(hn), from_hex(hs)) {
                (Some(a), Some(b)) => (a, b),
                _ => return "bad-request".into(),
            };
            let (n, s) = match (std::str::from_utf8(&n), std::str::from_utf8(&s)) {
                (Ok(a), Ok(b)) => (a, b),
                _ => return "badname".into(),
            };
            match *kind {
                "heap" => match Name::from_str(n) {
                    Ok(nm) => format!("ok {}", nm == s),
                    Err(_) => "badname".into(),
                },
                "inline" => match InlineName::from_str(n) {
                    Ok(nm) => format!("ok {}", nm == s),
                    Err(_) => "badname".into(),
                },
                _ => "bad-request".into(),
            }
        }
        ["query", cap, ty, cl, rd, opt, h] => {
            let (cap, ty, cl) = match (cap.parse::<usize>(), ty.parse::<u16>(), cl.parse::<u16>()) {
                (Ok(a), Ok(b), Ok(c)) => (a, b, c),
                _ => return "bad-request".into(),
            };
            let name = match from_hex(h) {
                Some(b) => b,
                None => return "bad-request".into(),
            };
            let name = match std::str::from_utf8(&name) {
                Ok(s) => s.to_string(),
                Err(_) => return "not-utf8".into(),
            };
            let opt = if *opt == "-" {
                None
            } else {
                let p: Vec<&str> = opt.split(':').collect();
                match (p[0].parse::<u8>(), p.get(1).and_then(|x| x.parse::<u16>().ok())) {
                    (Ok(v), Some(pl)) => Some((v, pl)),
                    _ => return "bad-request".into(),
                }
            };
            let mut g = Guarded::new(&vec![0xFFu8; cap], true);
            let (id, r) = vh::query_write(g.as_mut_slice(), &name, Type::from(ty), Class::from(cl), *rd == "1", opt);
            let buf = g.as_mut_slice();
            match r {
                Ok(n) => {
                    if n > cap {
                        return "length-beyond-buffer".into();
                    }
                    if n >= 4 {
                        if buf[2..4] != id.to_be_bytes() {
                            return "id-mismatch".into();
                        }
                        buf[2] = 0;
                        buf[3] = 0;
                    }
                    format!("ok {} {} rest={}", n, to_hex(&buf[..n]), buf[n..].iter().all(|b| *b == 0xFF))
                }
                Err(e) => format!("err {}", show_err(&e)),
            }
        }
        // decode a wire name, then re-parse its text with both parsers and the validator (C05, converse)
        ["rt", pos, h] => {
            let pos: usize = match pos.parse() {
                Ok(p) => p,
                Err(_) => return "bad-request".into(),
            };
            let bytes = match from_hex(h) {
                Some(b) => b,
                None => return "bad-request".into(),
            };
            let g = Guarded::new(&bytes, true);
            let buf = g.as_slice();
            let mut c = vh::Cursor::with_pos(buf, pos);
            let r: rsdns::Result<Name> = vh::read_domain_name(&mut c);
            let mut c2 = vh::Cursor::with_pos(buf, pos);
            let r2: rsdns::Result<InlineName> = vh::read_domain_name(&mut c2);
            match (&r, &r2) {
                (Ok(a), Ok(b)) if a.as_str() == b.as_str() => {}
                (Err(_), Err(_)) => {}
                _ => return "heap-inline-disagree".into(),
            }
            match r {
                Err(e) => format!("err {}", show_err(&e)),
                Ok(n) => {
                    let t = n.as_str();
                    let p1 = Name::from_str(t);
                    let p2 = InlineName::from_str(t);
                    let p3 = vh::check_name_bytes(t.as_bytes());
                    let show = |ok: bool, e: Option<String>| if ok { "ok".to_string() } else { format!("err:{}", e.unwrap()) };
                    let eq1 = p1.as_ref().map(|m| m.as_str() == t && *m == n).unwrap_or(false);
                    let eq2 = p2.as_ref().map(|m| m.as_str() == t).unwrap_or(false);
                    format!(
                        "ok {} heap={} inline={} check={} same={}",
                        to_hex(t.as_bytes()),
                        show(p1.is_ok(), p1.as_ref().err().map(show_err)),
                        show(p2.is_ok(), p2.as_ref().err().map(show_err)),
                        show(p3.is_ok(), p3.as_ref().err().map(show_err)),
                        eq1 && eq2
                    )
                }
            }
        }
        // encode a text name into a roomy buffer, decode it again (C05, forward)
        ["enc", h] => {
            let name = match from_hex(h) {
                Some(b) => b,
                None => return "bad-request".into(),
            };
            let mut g = Guarded::new(&vec![0xFFu8; 600], true);
            let w = vh::write_domain_name(g.as_mut_slice(), &name);
            let parse_ok = match std::str::from_utf8(&name) {
                Ok(s) => Some((Name::from_str(s).is_ok(), InlineName::from_str(s).is_ok())),
                Err(_) => None,
            };
            let chk = vh::check_name_bytes(&name).is_ok();
            let pstr = match parse_ok {
                Some((a, b)) => format!("{}{}", a as u8, b as u8),
                None => "--".into(),
            };
            match w {
                Err(e) => format!("err {} parse={} check={}", show_err(&e), pstr, chk as u8),
                Ok(n) => {
                    let buf = g.as_slice();
                    let mut c = vh::Cursor::with_pos(&buf[..n], 0);
                    let r: rsdns::Result<Name> = vh::read_domain_name(&mut c);
                    match r {
                        Ok(d) => format!(
                            "ok {} dec={} next={} parse={} check={}",
                            n,
                            to_hex(d.as_str().as_bytes()),
                            c.pos(),
                            pstr,
                            chk as u8
                        ),
                        Err(e) => format!("ok {} dec=!{} parse={} check={}", n, show_err(&e), pstr, chk as u8),
                    }
                }
            }
        }
        _ => "bad-request".into(),
    }
}

// ---------------------------------------------------------------------------------------------
// generators
// ---------------------------------------------------------------------------------------------

const NAME_CHARS: &[u8] = b"abcxyzABCXYZ019-_";

fn gen_label_text(r: &mut Rng) -> Vec<u8> {
    let len = match r.below(14) {
        0 => 0,
        1 => 63,
        2 => 64,
        3 => 62,
        4 => r.range(40, 70) as usize,
        _ => r.range(1, 7) as usize,
    };
    let mut l: Vec<u8> = (0..len).map(|_| *r.pick(NAME_CHARS)).collect();
    if len > 0 && !r.chance(1, 10) {
        if l[0] == b'-' {
            l[0] = b'k';
        }
        if l[len - 1] == b'-' {
            l[len - 1] = b'k';
        }
    }
    l
}

/// text names: mostly valid, all boundary lengths, dots everywhere, odd bytes
pub fn gen_name_text(r: &mut Rng) -> Vec<u8> {
    let mut s: Vec<u8> = Vec::new();
    match r.below(12) {
        0 => {
            // total length around the limit: 250..258
            let target = r.range(248, 258) as usize;
            while s.len() < target {
                let left = target - s.len();
                let take = if left >= 64 { 63 } else { left };
                for _ in 0..take {
                    s.push(*r.pick(b"abcXYZ09"));
                }
                if s.len() < target {
                    s.push(b'.');
                }
            }
            if r.chance(1, 2) {
                s.push(b'.');
            }
        }
        1 => return b".".to_vec(),
        2 => return vec![],
        _ => {
            let n = r.range(1, 5);
            for i in 0..n {
                if i > 0 {
                    s.push(b'.');
                }
                s.extend_from_slice(&gen_label_text(r));
            }
            if r.chance(1, 3) {
                s.push(b'.');
            }
        }
    }
    match r.below(16) {
        0 => {
            if !s.is_empty() {
                let i = r.below(s.len() as u64) as usize;
                s[i] = *r.pick(&[b' ', b'.', 0u8, 0x7f, b'*', b'@', b'\\', b'/']);
            }
        }
        1 => {
            if !s.is_empty() {
                let i = r.below(s.len() as u64) as usize;
                s[i] = r.byte();
            }
        }
        2 => s.insert(0, b'.'),
        3 => s.push(b'.'),
        _ => {}
    }
    s
}

fn variant(r: &mut Rng, s: &[u8]) -> Vec<u8> {
    let mut v = s.to_vec();
    match r.below(6) {
        0 => {}
        1 => {
            for c in v.iter_mut() {
                if c.is_ascii_alphabetic() && r.chance(1, 2) {
                    *c ^= 0x20;
                }
            }
        }
        2 => {
            if v.last() == Some(&b'.') && v.len() > 1 {
                v.pop();
            } else {
                v.push(b'.');
            }
        }
        3 => {
            if !v.is_empty() {
                let i = r.below(v.len() as u64) as usize;
                v[i] = *r.pick(NAME_CHARS);
            }
        }
        4 => {
            let n = r.below(v.len() as u64 + 1) as usize;
            v.truncate(n);
        }
        _ => v.extend_from_slice(b".x"),
    }
    v
}

/// a string that differs from the name `s` in exactly one letter, replaced by a NON-ASCII character that a
/// Unicode-aware case mapping sends to (or near) that letter: KELVIN SIGN for k, LONG S for s, dotted /
/// dotless I for i, the fullwidth forms for any letter.  No parser accepts such a string, so `name == s`
/// has to be false; an ASCII-only or random-byte generator never produces one.
fn fold_lookalike(r: &mut Rng, s: &[u8]) -> (Vec<u8>, Vec<u8>) {
    let mut name = s.to_vec();
    let letters: Vec<usize> = (0..name.len()).filter(|&i| name[i].is_ascii_alphabetic()).collect();
    if letters.is_empty() {
        return (name.clone(), name);
    }
    let i = *r.pick(&letters);
    if r.chance(2, 3) {
        let c = *r.pick(b"kKsSiI");
        name[i] = c;
    }
    let c = name[i];
    let lower = c.to_ascii_lowercase();
    let mut cands: Vec<char> = Vec::new();
    match lower {
        b'k' => cands.push('\u{212A}'),
        b's' => cands.push('\u{017F}'),
        b'i' => {
            cands.push('\u{0131}');
            cands.push('\u{0130}');
        }
        _ => {}
    }
    cands.push(char::from_u32(0xFF41 + (lower - b'a') as u32).unwrap());
    cands.push(char::from_u32(0xFF21 + (lower - b'a') as u32).unwrap());
    let ch = *r.pick(&cands);
    let mut out = name[..i].to_vec();
    let mut tmp = [0u8; 4];
    out.extend_from_slice(ch.encode_utf8(&mut tmp).as_bytes());
    out.extend_from_slice(&name[i + 1..]);
    if r.chance(1, 3) {
        if out.last() == Some(&b'.') && out.len() > 1 {
            out.pop();
        } else {
            out.push(b'.');
        }
    }
    (name, out)
}

pub fn gen(stream: &str, r: &mut Rng, _i: u64) -> String {
    match stream {
        "text" => {
            let s = gen_name_text(r);
            match r.below(8) {
                0 | 1 => format!("check {}", to_hex(&s)),
                2 => format!("parse heap {}", to_hex(&s)),
                3 => format!("parse inline {}", to_hex(&s)),
                4 => {
                    let l = gen_label_text(r);
                    let mut l = l;
                    if r.chance(1, 4) && !l.is_empty() {
                        let i = r.below(l.len() as u64) as usize;
                        l[i] = r.byte();
                    }
                    format!("checklabel {}", to_hex(&l))
                }
                _ => {
                    // buffer sizes: generous, exact, one short, tiny
                    let need = s.len() + 2;
                    let cap = match r.below(6) {
                        0 => need,
                        1 => need.saturating_sub(1),
                        2 => need.saturating_sub(2),
                        3 => r.below(need as u64 + 3) as usize,
                        _ => 300,
                    };
                    format!("wname {} {}", cap, to_hex(&s))
                }
            }
        }
        "roundtrip" => {
            if r.chance(1, 2) {
                let s = gen_name_text(r);
                format!("enc {}", to_hex(&s))
            } else {
                // a wire name: labels up to the length limits, sometimes compressed
                let mut buf: Vec<u8> = Vec::new();
                let tail_first = r.chance(1, 3);
                if tail_first {
                    let l = gen_label_text(r);
                    if !l.is_empty() && l.len() < 64 {
                        buf.push(l.len() as u8);
                        buf.extend_from_slice(&l);
                    }
                    buf.push(0);
                }
                let start = buf.len();
                let target: usize = r.range(230, 260) as usize;
                let long = r.chance(1, 2);
                let mut total = 0usize;
                loop {
                    let len = if long {
                        let left = target.saturating_sub(total);
                        if left <= 1 {
                            break;
                        }
                        (left - 1).min(63)
                    } else {
                        if r.chance(1, 3) {
                            break;
                        }
                        r.range(1, 12) as usize
                    };
                    buf.push(len as u8);
                    for _ in 0..len {
                        buf.push(*r.pick(b"abcXYZ09-_"));
                    }
                    total += len + 1;
                    if total > 300 {
                        break;
                    }
                }
                if tail_first && r.chance(1, 2) {
                    buf.push(0xC0);
                    buf.push(0);
                } else {
                    buf.push(0);
                }
                format!("rt {} {}", start, to_hex(&buf))
            }
        }
        "cmp" => {
            let a = gen_name_text(r);
            let b = if r.chance(3, 4) { variant(r, &a) } else { gen_name_text(r) };
            match r.below(4) {
                0 => {
                    let (a, b) = if r.chance(1, 5) { fold_lookalike(r, &a) } else { (a, b) };
                    format!("eqstr {} {} {}", if r.chance(1, 2) { "heap" } else { "inline" }, to_hex(&a), to_hex(&b))
                }
                _ => format!("cmp {} {}", to_hex(&a), to_hex(&b)),
            }
        }
        "query" => {
            let s = gen_name_text(r);
            let ty = if r.chance(1, 2) { *r.pick(&[0u16, 1, 5, 28, 41, 255, 256, 65535]) } else { r.next() as u16 };
            let cl = if r.chance(1, 2) { *r.pick(&[0u16, 1, 3, 255, 65535]) } else { r.next() as u16 };
            let opt = if r.chance(1, 2) {
                "-".to_string()
            } else {
                format!("{}:{}", *r.pick(&[0u8, 1, 255]), *r.pick(&[0u16, 512, 1232, 4096, 65535]))
            };
            let need = 2 + 12 + s.len() + 2 + 4 + if opt == "-" { 0 } else { 11 };
            let cap = match r.below(8) {
                0 => need,
                1 => need.saturating_sub(1),
                2 => need + 1,
                3 => r.below(need as u64 + 4) as usize,
                4 => r.below(16) as usize,
                _ => 288,
            };
            format!("query {} {} {} {} {} {}", cap, ty, cl, r.below(2), opt, to_hex(&s))
        }
        _ => panic!("unknown text stream"),
    }
}
