//! stream `cfg`: builder sequences on `ClientConfig` (pure, no sockets).
//!
//! request : `cfg <ctor> <op>*`
//!   ctor  : `new` | `with:<addr>`
//!   op    : `ns:<addr>` | `bind:<addr>` | `lt:<ms>` | `qt:<ms>` | `qt:none` | `st:<0|1|2>` |
//!           `rd:<0|1>` | `buf:<n>` | `edns:off` | `edns:<version>-<payload>`
//!   addr  : `4-<ip as a decimal number>-<port>` | `6-<ip as a decimal number>-<port>`
//! answer  : every getter of the configuration the calls produce
//!   `ns=<addr> bind=<addr> lt=<ms> qt=<ms|none> st=<n> rd=<0|1> buf=<n> edns=<off|v-p> has=<0|1>`

use crate::rng::Rng;
use rsdns::clients::{ClientConfig, EDns, ProtocolStrategy, Recursion};
use rsdns::records::data::*;
use crate::with_rtype;
use std::net::{Ipv4Addr, Ipv6Addr, SocketAddr, SocketAddrV4, SocketAddrV6};
use std::time::Duration;

fn parse_addr(s: &str) -> Option<SocketAddr> {
    let p: Vec<&str> = s.split('-').collect();
    if p.len() != 3 {
        return None;
    }
    let port: u16 = p[2].parse().ok()?;
    match p[0] {
        "4" => {
            let ip: u32 = p[1].parse().ok()?;
            Some(SocketAddr::V4(SocketAddrV4::new(Ipv4Addr::from(ip), port)))
        }
        "6" => {
            let ip: u128 = p[1].parse().ok()?;
            Some(SocketAddr::V6(SocketAddrV6::new(Ipv6Addr::from(ip), port, 0, 0)))
        }
        _ => None,
    }
}

fn show_addr(a: &SocketAddr) -> String {
    match a {
        SocketAddr::V4(x) => format!("4-{}-{}", u32::from(*x.ip()), x.port()),
        SocketAddr::V6(x) => format!("6-{}-{}", u128::from(*x.ip()), x.port()),
    }
}

fn apply(c: ClientConfig, op: &str) -> Option<ClientConfig> {
    let (k, v) = op.split_once(':')?;
    Some(match k {
        "ns" => c.set_nameserver(parse_addr(v)?),
        "bind" => c.set_bind_addr(parse_addr(v)?),
        "lt" => c.set_query_lifetime(Duration::from_millis(v.parse().ok()?)),
        "qt" => c.set_query_timeout(if v == "none" {
            None
        } else {
            Some(Duration::from_millis(v.parse().ok()?))
        }),
        "st" => c.set_protocol_strategy(match v {
            "0" => ProtocolStrategy::Udp,
            "1" => ProtocolStrategy::Tcp,
            "2" => ProtocolStrategy::NoTcp,
            _ => return None,
        }),
        "rd" => c.set_recursion(match v {
            "1" => Recursion::On,
            "0" => Recursion::Off,
            _ => return None,
        }),
        "buf" => c.set_buffer_size(v.parse().ok()?),
        "edns" => c.set_edns(if v == "off" {
            EDns::Off
        } else {
            let (ver, pay) = v.split_once('-')?;
            EDns::On {
                version: ver.parse().ok()?,
                udp_payload_size: pay.parse().ok()?,
            }
        }),
        _ => return None,
    })
}

/// `rtype <NAME>` -> `ok <code>`: the TYPE a typed query (`query_rrset::<D>`) asks for and filters by
pub fn eval_rtype(toks: &[&str]) -> String {
    if toks.len() != 2 {
        return "bad-request".into();
    }
    with_rtype!(toks[1], D, format!("ok {}", <D as RData>::RTYPE.value()), "bad-request".to_string())
}

pub fn eval_cfg(toks: &[&str]) -> String {
    if toks.len() < 2 {
        return "bad-request".into();
    }
    let mut c = if toks[1] == "new" {
        ClientConfig::new()
    } else if let Some(a) = toks[1].strip_prefix("with:").and_then(parse_addr) {
        ClientConfig::with_nameserver(a)
    } else {
        return "bad-request".into();
    };
    for op in &toks[2..] {
        c = match apply(c, op) {
            Some(c) => c,
            None => return "bad-request".into(),
        };
    }
    // a clone is the same configuration
    let c = if toks.len() % 2 == 0 { c.clone() } else { c };
    let st = match c.protocol_strategy() {
        ProtocolStrategy::Udp => 0,
        ProtocolStrategy::Tcp => 1,
        ProtocolStrategy::NoTcp => 2,
    };
    let rd = match c.recursion() {
        Recursion::On => 1,
        Recursion::Off => 0,
    };
    let edns = match c.edns() {
        EDns::Off => "off".to_string(),
        EDns::On {
            version,
            udp_payload_size,
        } => format!("{}-{}", version, udp_payload_size),
    };
    format!(
        "ns={} bind={} lt={} qt={} st={} rd={} buf={} edns={} has={}",
        show_addr(&c.nameserver()),
        show_addr(&c.bind_addr()),
        c.query_lifetime().as_millis(),
        c.query_timeout().map(|d| d.as_millis().to_string()).unwrap_or_else(|| "none".into()),
        st,
        rd,
        c.buffer_size(),
        edns,
        if c.has_nameserver() { 1 } else { 0 }
    )
}

fn gen_addr(r: &mut Rng) -> String {
    const V4: [(u32, u16); 6] = [(0, 0), (0, 53), (0x7f00_0001, 53), (0x7f00_0001, 0), (0xc000_0235, 53), (0xffff_ffff, 65535)];
    const V6: [(u128, u16); 5] = [
        (0, 0),
        (0, 53),
        (1, 53),
        (0x2001_0db8_0000_0000_0000_0000_0000_0053, 53),
        (0x0000_0000_0000_0000_0000_ffff_7f00_0001, 5353),
    ];
    if r.chance(1, 2) {
        let (ip, p) = *r.pick(&V4);
        format!("4-{}-{}", ip, p)
    } else {
        let (ip, p) = *r.pick(&V6);
        format!("6-{}-{}", ip, p)
    }
}

/// a constructor followed by 0..9 builder calls; every setter is called with boundary and ordinary
/// values, name-server changes of both families are mixed with everything else
pub fn gen_cfg(r: &mut Rng, i: u64) -> String {
    const NAMES: [&str; 17] = ["A", "NS", "MD", "MF", "CNAME", "SOA", "MB", "MG", "MR", "NULL", "WKS", "PTR", "HINFO", "MINFO", "MX", "TXT", "AAAA"];
    if i < 17 {
        // the first requests of every run: all 17 record-data types
        return format!("rtype {}", NAMES[i as usize]);
    }
    let mut toks: Vec<String> = vec!["cfg".into()];
    toks.push(if r.chance(1, 3) { "new".into() } else { format!("with:{}", gen_addr(r)) });
    let n = r.below(10);
    for _ in 0..n {
        let op = match r.below(10) {
            0 | 1 | 2 => format!("ns:{}", gen_addr(r)),
            3 => format!("bind:{}", gen_addr(r)),
            4 => format!("lt:{}", r.pick(&[0u64, 1, 120, 1500, 10000, 86_400_000])),
            5 => {
                if r.chance(1, 3) {
                    "qt:none".to_string()
                } else {
                    format!("qt:{}", r.pick(&[0u64, 1, 40, 400, 2000, 10000]))
                }
            }
            6 | 7 => format!("st:{}", r.below(3)),
            8 => {
                if r.chance(1, 2) {
                    format!("rd:{}", r.below(2))
                } else {
                    format!("buf:{}", r.pick(&[0usize, 1, 511, 512, 513, 1232, 65535, 65536, 1_000_000]))
                }
            }
            _ => {
                if r.chance(1, 3) {
                    "edns:off".to_string()
                } else {
                    format!("edns:{}-{}", r.pick(&[0u8, 1, 255]), r.pick(&[0u16, 511, 512, 1232, 4096, 65535]))
                }
            }
        };
        toks.push(op);
    }
    toks.join(" ")
}
