//! Streams: each has a generator (request lines) and an evaluator (real rsdns code).

use crate::rng::Rng;

pub mod name;

pub fn gen(stream: &str, r: &mut Rng, index: u64) -> String {
    match stream {
        "name" => name::gen(r, index),
        _ => panic!("unknown stream {}", stream),
    }
}

pub fn eval(line: &str) -> String {
    let toks: Vec<&str> = line.split(' ').collect();
    match toks.first().copied() {
        Some("name") => name::eval(&toks),
        _ => "bad-request".to_string(),
    }
}
