//! Streams: each has a generator (request lines) and an evaluator (real rsdns code).

use crate::rng::Rng;

pub mod client;
pub mod config;
pub mod decode;
pub mod msggen;
pub mod name;
pub mod text;
pub mod truth;

pub fn gen(stream: &str, r: &mut Rng, index: u64) -> String {
    match stream {
        "name" => name::gen(r, index),
        "names" => name::gen_all(r, index),
        "rdata" => decode::gen_rdata(r, index),
        "reader" => decode::gen_reader(r, index),
        "readerx" => decode::gen_readerx(r, index),
        "xmark" => decode::gen_xmark(r, index),
        "noalloc" => decode::gen_noalloc(r, index),
        "views" => decode::gen_views(r, index),
        "iter" => decode::gen_iter(r, index),
        "rrset" => decode::gen_rrset(r, index),
        "nameeq" => decode::gen_nameeq(r, index),
        "cfg" => config::gen_cfg(r, index),
        "truth" => truth::gen_truth(r, index),
        "seekhist" => truth::gen_seekhist(r, index),
        "text" | "cmp" | "query" | "roundtrip" => text::gen(stream, r, index),
        "c11" | "c12" | "c13" | "c14" | "c15" | "c16" => client::gen(stream, r, index),
        _ => panic!("unknown stream {}", stream),
    }
}

pub fn eval(line: &str) -> String {
    let toks: Vec<&str> = line.split(' ').collect();
    match toks.first().copied() {
        Some("name") => name::eval(&toks),
        Some("names") => name::eval_all(&toks),
        Some("client") => client::eval(&toks),
        Some("cfg") => config::eval_cfg(&toks),
        Some("rtype") => config::eval_rtype(&toks),
        Some("rdata") => decode::eval_rdata(&toks),
        Some("reader") => decode::eval_reader(&toks),
        Some("xmark") => decode::eval_xmark(&toks),
        Some("views") => decode::eval_views(&toks),
        Some("noalloc") => decode::eval_noalloc(&toks),
        Some("noalloci") => decode::eval_noalloc_iter(&toks),
        Some("iter") => decode::eval_iter(&toks),
        Some("rrset") => decode::eval_rrset(&toks),
        Some("nameeq") => decode::eval_nameeq(&toks),
        Some("truth") => truth::eval_truth(&toks),
        Some("seekhist") => truth::eval_seekhist(&toks),
        Some("check") | Some("checklabel") | Some("parse") | Some("wname") | Some("cmp") | Some("eqstr")
        | Some("query") | Some("rt") | Some("enc") => text::eval(&toks),
        _ => "bad-request".to_string(),
    }
}
