//! request kinds `rdata`, `reader`, `iter`, `rrset`, `nameeq`: evaluators (real rsdns code) and
//! generators for the streams `rdata`, `reader`, `readerx`, `iter`, `rrset`, `nameeq`.

use super::msggen::*;
use crate::canon::*;
use crate::mem::Guarded;
use crate::rng::Rng;
use rsdns::message::reader::{MessageIterator, MessageReader, NameRef, RecordMarker};
use rsdns::message::RecordsSection;
use rsdns::names::{InlineName, Name};
use rsdns::records::data::*;
use rsdns::records::RecordSet;
use rsdns::verif_hooks as vh;
use std::panic::{catch_unwind, AssertUnwindSafe};

// ---------------------------------------------------------------------------------------------
// canonical printing of record data
// ---------------------------------------------------------------------------------------------

pub(super) fn nhex(n: &Name) -> String {
    to_hex(n.as_str().as_bytes())
}

pub trait Show {
    fn show(&self) -> String;
}
impl Show for A {
    fn show(&self) -> String {
        format!("A:{}", u32::from(self.address))
    }
}
impl Show for Aaaa {
    fn show(&self) -> String {
        format!("AAAA:{}", u128::from(self.address))
    }
}
macro_rules! show_dn {
    ($t:ident, $f:ident, $n:expr) => {
        impl Show for $t {
            fn show(&self) -> String {
                format!("{}:{}", $n, nhex(&self.$f))
            }
        }
    };
}
show_dn!(Ns, nsdname, "NS");
show_dn!(Md, madname, "MD");
show_dn!(Mf, madname, "MF");
show_dn!(Cname, cname, "CNAME");
show_dn!(Mb, madname, "MB");
show_dn!(Mg, mgmname, "MG");
show_dn!(Mr, newname, "MR");
show_dn!(Ptr, ptrdname, "PTR");
impl Show for Soa {
    fn show(&self) -> String {
        format!(
            "SOA:{}:{}:{}:{}:{}:{}:{}",
            nhex(&self.mname),
            nhex(&self.rname),
            self.serial,
            self.refresh,
            self.retry,
            self.expire,
            self.minimum
        )
    }
}
impl Show for Null {
    fn show(&self) -> String {
        format!("NULL:{}", to_hex(&self.anything))
    }
}
impl Show for Wks {
    fn show(&self) -> String {
        format!("WKS:{}:{}:{}", u32::from(self.address), self.protocol, to_hex(&self.bitmap))
    }
}
impl Show for Hinfo {
    fn show(&self) -> String {
        format!("HINFO:{}:{}", to_hex(&self.cpu), to_hex(&self.os))
    }
}
impl Show for Minfo {
    fn show(&self) -> String {
        format!("MINFO:{}:{}", nhex(&self.rmailbx), nhex(&self.emailbx))
    }
}
impl Show for Mx {
    fn show(&self) -> String {
        format!("MX:{}:{}", self.preference, nhex(&self.exchange))
    }
}
impl Show for Txt {
    fn show(&self) -> String {
        format!("TXT:{}", to_hex(&self.text))
    }
}

pub(super) fn show_record_data(d: &RecordData) -> String {
    match d {
        RecordData::A(x) => x.show(),
        RecordData::Ns(x) => x.show(),
        RecordData::Md(x) => x.show(),
        RecordData::Mf(x) => x.show(),
        RecordData::Cname(x) => x.show(),
        RecordData::Soa(x) => x.show(),
        RecordData::Mb(x) => x.show(),
        RecordData::Mg(x) => x.show(),
        RecordData::Mr(x) => x.show(),
        RecordData::Null(x) => x.show(),
        RecordData::Wks(x) => x.show(),
        RecordData::Ptr(x) => x.show(),
        RecordData::Hinfo(x) => x.show(),
        RecordData::Minfo(x) => x.show(),
        RecordData::Mx(x) => x.show(),
        RecordData::Txt(x) => x.show(),
        RecordData::Aaaa(x) => x.show(),
    }
}

/// run `$body` with `$D` bound to the record-data type named by `$ty`
#[macro_export]
macro_rules! with_rtype {
    ($ty:expr, $D:ident, $body:expr, $else:expr) => {
        match $ty {
            "A" => { type $D = A; $body }
            "NS" => { type $D = Ns; $body }
            "MD" => { type $D = Md; $body }
            "MF" => { type $D = Mf; $body }
            "CNAME" => { type $D = Cname; $body }
            "SOA" => { type $D = Soa; $body }
            "MB" => { type $D = Mb; $body }
            "MG" => { type $D = Mg; $body }
            "MR" => { type $D = Mr; $body }
            "NULL" => { type $D = Null; $body }
            "WKS" => { type $D = Wks; $body }
            "PTR" => { type $D = Ptr; $body }
            "HINFO" => { type $D = Hinfo; $body }
            "MINFO" => { type $D = Minfo; $body }
            "MX" => { type $D = Mx; $body }
            "TXT" => { type $D = Txt; $body }
            "AAAA" => { type $D = Aaaa; $body }
            _ => $else,
        }
    };
}

// ---------------------------------------------------------------------------------------------
// rdata
// ---------------------------------------------------------------------------------------------

pub fn eval_rdata(toks: &[&str]) -> String {
    if toks.len() != 5 {
        return "bad-request".into();
    }
    let (pos, rdlen) = match (toks[2].parse::<usize>(), toks[3].parse::<usize>()) {
        (Ok(a), Ok(b)) => (a, b),
        _ => return "bad-request".into(),
    };
    let bytes = match from_hex(toks[4]) {
        Some(b) => b,
        None => return "bad-request".into(),
    };
    let g = Guarded::new(&bytes, rdlen % 2 == 0);
    let buf = g.as_slice();
    with_rtype!(
        toks[1],
        D,
        {
            use vh::RrDataReader;
            let mut c = vh::Cursor::with_pos(buf, pos);
            let r: rsdns::Result<D> = c.read_rr_data(rdlen);
            format!("{} pos={} cap={}", show_res(&r, |d| d.show()), c.pos(), c.capacity())
        },
        "bad-request".into()
    )
}

// ---------------------------------------------------------------------------------------------
// reader histories
// ---------------------------------------------------------------------------------------------

pub(super) fn show_name_ref(n: &NameRef) -> String {
    match Name::try_from(n) {
        Ok(n) => nhex(&n),
        Err(e) => format!("!{}", show_err(&e)),
    }
}

pub(super) fn show_marker(m: &RecordMarker) -> String {
    // RecordOffset fields are crate-private; Debug prints them
    let dbg = format!("{:?}", m.offset());
    let nums: Vec<usize> = dbg
        .split(|c: char| !c.is_ascii_digit())
        .filter(|s| !s.is_empty())
        .map(|s| s.parse().unwrap())
        .collect();
    format!(
        "M:{}:{}:{}:{}:{}:{}:{}",
        nums[0],
        nums[1],
        m.rtype().value(),
        m.rclass().value(),
        m.ttl(),
        m.rdlen(),
        m.section() as usize
    )
}

pub(super) fn show_e<T>(r: &rsdns::Result<T>, f: impl Fn(&T) -> String) -> String {
    match r {
        Ok(v) => f(v),
        Err(e) => format!("E:{}", show_err(e)),
    }
}

pub(super) fn section_of(s: &str) -> Option<RecordsSection> {
    match s {
        "0" => Some(RecordsSection::Answer),
        "1" => Some(RecordsSection::Authority),
        "2" => Some(RecordsSection::Additional),
        _ => None,
    }
}

pub fn eval_reader(toks: &[&str]) -> String {
    if toks.len() < 2 {
        return "bad-request".into();
    }
    let bytes = match from_hex(toks[1]) {
        Some(b) => b,
        None => return "bad-request".into(),
    };
    run_history(&bytes, &toks[2..], Vec::new(), toks.len() % 2 == 0)
}

/// `xmark <hexA> <hexB> <op>…`: the markers of message A (one sequential pass) are used on a reader
/// over message B — "markers obtained from a different message".
pub fn eval_xmark(toks: &[&str]) -> String {
    if toks.len() < 3 {
        return "bad-request".into();
    }
    let (a, b) = match (from_hex(toks[1]), from_hex(toks[2])) {
        (Some(a), Some(b)) => (a, b),
        _ => return "bad-request".into(),
    };
    let mut markers: Vec<RecordMarker> = Vec::new();
    if let Ok(mut ra) = MessageReader::new(&a) {
        if ra.header().is_ok() && ra.skip_questions().is_ok() {
            while let Ok(m) = ra.record_marker() {
                let ok = ra.skip_record_data(&m).is_ok();
                markers.push(m);
                if !ok {
                    break;
                }
            }
        }
    }
    run_history(&b, &toks[3..], markers, toks.len() % 2 == 0)
}

pub(super) fn run_history(bytes: &[u8], ops: &[&str], initial_markers: Vec<RecordMarker>, tail: bool) -> String {
    let g = Guarded::new(bytes, tail);
    let buf = g.as_slice();
    let mut mr = match MessageReader::new(buf) {
        Ok(m) => m,
        Err(e) => return format!("err {}", show_err(&e)),
    };
    let mut markers: Vec<RecordMarker> = initial_markers;
    // the marker returned by the last successful G1 call that has not been consumed by a G2 call yet:
    // `sk`, `db`, `dt:T`, `op` are issued only then (the documented header/data pairing)
    let mut pending: Option<RecordMarker> = None;
    let mut outs: Vec<String> = Vec::new();
    for op in ops {
        let parts: Vec<&str> = op.split(':').collect();
        let res = catch_unwind(AssertUnwindSafe(|| -> String {
            let is_g2 = matches!(parts[0], "sk" | "db" | "dt" | "op");
            let is_g1 = matches!(parts[0], "mk" | "hr" | "hh" | "hi");
            let last = if is_g2 { pending.take() } else { None };
            if is_g1 || matches!(parts[0], "seek" | "hd" | "q" | "qr" | "tq" | "tqr" | "sq" | "skx" | "dbx" | "dtx" | "opx") {
                // anything that moves the reader ends a pending pair
                pending = None;
            }
            match parts.as_slice() {
                ["hd"] => show_e(&mr.header(), |h| {
                    format!(
                        "H:{}:{}:{}:{}:{}:{}",
                        h.id,
                        u16::from(h.flags),
                        h.qd_count,
                        h.an_count,
                        h.ns_count,
                        h.ar_count
                    )
                }),
                ["q"] => show_e(&mr.question(), |q| {
                    format!("Q:{}:{}:{}", to_hex(q.qname.as_str().as_bytes()), q.qtype.value(), q.qclass.value())
                }),
                ["tq"] => show_e(&mr.the_question(), |q| {
                    format!("Q:{}:{}:{}", to_hex(q.qname.as_str().as_bytes()), q.qtype.value(), q.qclass.value())
                }),
                ["qr"] => show_e(&mr.question_ref(), |q| {
                    format!("Q:{}:{}:{}", show_name_ref(&q.qname), q.qtype.value(), q.qclass.value())
                }),
                ["tqr"] => show_e(&mr.the_question_ref(), |q| {
                    format!("Q:{}:{}:{}", show_name_ref(&q.qname), q.qtype.value(), q.qclass.value())
                }),
                ["sq"] => show_e(&mr.skip_questions(), |_| "ok".into()),
                ["mk"] => {
                    let r = mr.record_marker();
                    if let Ok(m) = &r {
                        markers.push(m.clone());
                        pending = Some(m.clone());
                    }
                    show_e(&r, show_marker)
                }
                ["hr"] => {
                    let r = mr.record_header_ref();
                    if let Ok(h) = &r {
                        markers.push(h.marker().clone());
                        pending = Some(h.marker().clone());
                    }
                    show_e(&r, |h| format!("{}:{}", show_marker(h.marker()), show_name_ref(h.name())))
                }
                ["hh"] => {
                    let r = mr.record_header::<Name>();
                    if let Ok(h) = &r {
                        markers.push(h.marker().clone());
                        pending = Some(h.marker().clone());
                    }
                    show_e(&r, |h| format!("{}:{}", show_marker(h.marker()), nhex(h.name())))
                }
                ["hi"] => {
                    let r = mr.record_header::<InlineName>();
                    if let Ok(h) = &r {
                        markers.push(h.marker().clone());
                        pending = Some(h.marker().clone());
                    }
                    show_e(&r, |h| {
                        format!("{}:{}", show_marker(h.marker()), to_hex(h.name().as_str().as_bytes()))
                    })
                }
                ["sk"] => match &last {
                    Some(m) => show_e(&mr.skip_record_data(m), |_| "ok".into()),
                    None => "nomarker".into(),
                },
                ["db"] => match &last {
                    Some(m) => {
                        let r = mr.record_data_bytes(m);
                        if let Ok(b) = &r {
                            if !g.contains(b) {
                                return "slice-outside-message".into();
                            }
                        }
                        show_e(&r, |b| format!("B:{}", to_hex(b)))
                    }
                    None => "nomarker".into(),
                },
                ["op"] => match &last {
                    Some(m) if m.rtype().value() != 41 => "notopt".into(),
                    Some(m) => show_e(&mr.opt_record(m), |o| {
                        format!(
                            "O:{}:{}:{}:{}",
                            o.udp_payload_size(),
                            o.rcode_extension(),
                            o.version(),
                            // the flags field is private; DO is its top bit — compare the whole
                            // word through Debug
                            {
                                let d = format!("{:?}", o);
                                d.split("flags: ").nth(1).map(|s| s.trim_end_matches(|c: char| !c.is_ascii_digit()).to_string()).unwrap_or_default()
                            }
                        )
                    }),
                    None => "nomarker".into(),
                },
                ["cq"] => format!("N:{}", mr.questions_count()),
                ["cr"] => format!("N:{}", mr.records_count()),
                ["cs", s] => match section_of(s) {
                    Some(sec) => format!("N:{}", mr.records_count_in(sec)),
                    None => "badop".into(),
                },
                ["dt", ty] => match &last {
                    Some(m) => with_rtype!(
                        *ty,
                        D,
                        show_e(&mr.record_data::<D>(m), |d| format!("D:{}", d.show())),
                        "nomarker".into()
                    ),
                    None => "nomarker".into(),
                },
                ["seek", s] => match section_of(s) {
                    Some(sec) => show_e(&mr.seek(sec), |_| "ok".into()),
                    None => "badop".into(),
                },
                ["dba", i] => match i.parse::<usize>().ok().and_then(|i| markers.get(i)) {
                    Some(m) => {
                        let r = mr.record_data_bytes_at(m);
                        if let Ok(b) = &r {
                            if !g.contains(b) {
                                return "slice-outside-message".into();
                            }
                        }
                        let out = show_e(&r, |b| format!("B:{}", to_hex(b)));
                        // purity oracle (C10): a fresh reader over the same message must agree
                        let fresh = MessageReader::new(buf).unwrap();
                        let out2 = show_e(&fresh.record_data_bytes_at(m), |b| format!("B:{}", to_hex(b)));
                        if out != out2 { format!("IMPURE!{}!={}", out, out2) } else { out }
                    }
                    None => "nomarker".into(),
                },
                ["dta", i, ty] => match i.parse::<usize>().ok().and_then(|i| markers.get(i)) {
                    Some(m) => with_rtype!(
                        *ty,
                        D,
                        {
                            let out = show_e(&mr.record_data_at::<D>(m), |d| format!("D:{}", d.show()));
                            let fresh = MessageReader::new(buf).unwrap();
                            let out2 = show_e(&fresh.record_data_at::<D>(m), |d| format!("D:{}", d.show()));
                            if out != out2 { format!("IMPURE!{}!={}", out, out2) } else { out }
                        },
                        "nomarker".into()
                    ),
                    None => "nomarker".into(),
                },
                ["nra", i] => match i.parse::<usize>().ok().and_then(|i| markers.get(i)) {
                    Some(m) => {
                        let out = format!("R:{}", show_name_ref(&mr.name_ref_at(m)));
                        let fresh = MessageReader::new(buf).unwrap();
                        let out2 = format!("R:{}", show_name_ref(&fresh.name_ref_at(m)));
                        if out != out2 { format!("IMPURE!{}!={}", out, out2) } else { out }
                    }
                    None => "nomarker".into(),
                },
                ["opx", i] => match i.parse::<usize>().ok().and_then(|i| markers.get(i)) {
                    Some(m) => show_e(&mr.opt_record(m), |o| format!("O:{}:{}:{}", o.udp_payload_size(), o.rcode_extension(), o.version())),
                    None => "nomarker".into(),
                },
                ["skx", i] => match i.parse::<usize>().ok().and_then(|i| markers.get(i)) {
                    Some(m) => show_e(&mr.skip_record_data(m), |_| "ok".into()),
                    None => "nomarker".into(),
                },
                ["dbx", i] => match i.parse::<usize>().ok().and_then(|i| markers.get(i)) {
                    Some(m) => {
                        let r = mr.record_data_bytes(m);
                        if let Ok(b) = &r {
                            if !g.contains(b) {
                                return "slice-outside-message".into();
                            }
                        }
                        show_e(&r, |b| format!("B:{}", to_hex(b)))
                    }
                    None => "nomarker".into(),
                },
                ["dtx", i, ty] => match i.parse::<usize>().ok().and_then(|i| markers.get(i)) {
                    Some(m) => with_rtype!(
                        *ty,
                        D,
                        show_e(&mr.record_data::<D>(m), |d| format!("D:{}", d.show())),
                        "nomarker".into()
                    ),
                    None => "nomarker".into(),
                },
                _ => "badop".into(),
            }
        }));
        match res {
            Ok(s) => {
                let stop = s == "slice-outside-message";
                outs.push(s);
                if stop {
                    return "slice-outside-message".into();
                }
            }
            Err(_) => {
                outs.push("P".into());
                break;
            }
        }
    }
    outs.join(" ")
}

// ---------------------------------------------------------------------------------------------
// the allocation-free API under a counting allocator (C20)
// ---------------------------------------------------------------------------------------------

fn status<T>(r: &rsdns::Result<T>) -> String {
    match r {
        Ok(_) => "ok".into(),
        Err(e) => format!("E:{}", show_err(e)),
    }
}

/// `noalloc <hex> <op>…`: every call is made with the allocation counter armed; a call that touched
/// the allocator is reported as `<status>!A<n>`.
pub fn eval_noalloc(toks: &[&str]) -> String {
    use crate::alloc::measure;
    if toks.len() < 2 {
        return "bad-request".into();
    }
    let bytes = match from_hex(toks[1]) {
        Some(b) => b,
        None => return "bad-request".into(),
    };
    let g = Guarded::new(&bytes, true);
    let buf = g.as_slice();
    let (mr, n0) = measure(|| MessageReader::new(buf));
    let mut mr = match mr {
        Ok(m) => m,
        Err(e) => return format!("err {}{}", show_err(&e), if n0 > 0 { format!("!A{}", n0) } else { String::new() }),
    };
    let mut markers: Vec<RecordMarker> = Vec::with_capacity(256);
    let mut refs: Vec<NameRef> = Vec::with_capacity(256);
    let mut pending: Option<RecordMarker> = None;
    let mut outs: Vec<String> = Vec::new();
    if n0 > 0 {
        outs.push(format!("new!A{}", n0));
    }
    for op in &toks[2..] {
        let parts: Vec<&str> = op.split(':').collect();
        let is_g2 = matches!(parts[0], "sk" | "db" | "dt" | "op");
        let last = if is_g2 { pending.take() } else { None };
        if matches!(parts[0], "mk" | "hr" | "hi" | "hh" | "seek" | "hd" | "q" | "qr" | "sq") {
            pending = None;
        }
        let full = markers.len() >= 250 || refs.len() >= 250;
        let (st, n): (String, u64) = match parts.as_slice() {
            ["hd"] => {
                let (r, n) = measure(|| mr.header());
                (status(&r), n)
            }
            ["q"] => {
                let (r, n) = measure(|| mr.question());
                (status(&r), n)
            }
            ["qr"] => {
                let (r, n) = measure(|| mr.question_ref());
                (status(&r), n)
            }
            ["sq"] => {
                let (r, n) = measure(|| mr.skip_questions());
                (status(&r), n)
            }
            ["mk"] if !full => {
                let (r, n) = measure(|| mr.record_marker());
                if let Ok(m) = &r {
                    markers.push(m.clone());
                    pending = Some(m.clone());
                }
                (status(&r), n)
            }
            ["hr"] if !full => {
                let (r, n) = measure(|| mr.record_header_ref());
                if let Ok(h) = &r {
                    markers.push(h.marker().clone());
                    pending = Some(h.marker().clone());
                    refs.push(h.name().clone());
                }
                (status(&r), n)
            }
            ["hi"] if !full => {
                let (r, n) = measure(|| mr.record_header::<InlineName>());
                if let Ok(h) = &r {
                    markers.push(h.marker().clone());
                    pending = Some(h.marker().clone());
                }
                (status(&r), n)
            }
            // positive control of the meter: a heap `Name` must allocate (reported as `ctl:<0|1>`)
            ["hh"] if !full => {
                let (r, n) = measure(|| mr.record_header::<Name>());
                if let Ok(h) = &r {
                    markers.push(h.marker().clone());
                    pending = Some(h.marker().clone());
                }
                outs.push(format!("{}:ctl:{}", status(&r), (n > 0) as u8));
                continue;
            }
            ["sk"] => match &last {
                Some(m) => {
                    let (r, n) = measure(|| mr.skip_record_data(m));
                    (status(&r), n)
                }
                None => ("nomarker".into(), 0),
            },
            ["db"] => match &last {
                Some(m) => {
                    let (r, n) = measure(|| mr.record_data_bytes(m));
                    (status(&r), n)
                }
                None => ("nomarker".into(), 0),
            },
            ["dt", "A"] => match &last {
                Some(m) => {
                    let (r, n) = measure(|| mr.record_data::<A>(m));
                    (status(&r), n)
                }
                None => ("nomarker".into(), 0),
            },
            ["dt", "AAAA"] => match &last {
                Some(m) => {
                    let (r, n) = measure(|| mr.record_data::<Aaaa>(m));
                    (status(&r), n)
                }
                None => ("nomarker".into(), 0),
            },
            ["op"] => match &last {
                Some(m) if m.rtype().value() != 41 => ("notopt".into(), 0),
                Some(m) => {
                    let (r, n) = measure(|| mr.opt_record(m));
                    (status(&r), n)
                }
                None => ("nomarker".into(), 0),
            },
            ["seek", s] => match section_of(s) {
                Some(sec) => {
                    let (r, n) = measure(|| mr.seek(sec));
                    (status(&r), n)
                }
                None => ("badop".into(), 0),
            },
            ["cq"] => {
                let (_, n) = measure(|| mr.questions_count() + mr.records_count());
                ("ok".into(), n)
            }
            ["cs", s] => match section_of(s) {
                Some(sec) => {
                    let (_, n) = measure(|| mr.records_count_in(sec));
                    ("ok".into(), n)
                }
                None => ("badop".into(), 0),
            },
            ["dba", i] => match i.parse::<usize>().ok().and_then(|i| markers.get(i)) {
                Some(m) => {
                    let (r, n) = measure(|| mr.record_data_bytes_at(m));
                    (status(&r), n)
                }
                None => ("nomarker".into(), 0),
            },
            ["dta", i, "A"] => match i.parse::<usize>().ok().and_then(|i| markers.get(i)) {
                Some(m) => {
                    let (r, n) = measure(|| mr.record_data_at::<A>(m));
                    (status(&r), n)
                }
                None => ("nomarker".into(), 0),
            },
            ["dta", i, "AAAA"] => match i.parse::<usize>().ok().and_then(|i| markers.get(i)) {
                Some(m) => {
                    let (r, n) = measure(|| mr.record_data_at::<Aaaa>(m));
                    (status(&r), n)
                }
                None => ("nomarker".into(), 0),
            },
            // name_ref_at + iterating its labels (borrowed view of an RDATA name)
            ["nra", i] => match i.parse::<usize>().ok().and_then(|i| markers.get(i)) {
                Some(m) => {
                    let (r, n) = measure(|| {
                        let nr = mr.name_ref_at(m);
                        let mut res: rsdns::Result<()> = Ok(());
                        for l in nr.labels() {
                            if let Err(e) = l {
                                res = Err(e);
                                break;
                            }
                        }
                        res
                    });
                    (status(&r), n)
                }
                None => ("nomarker".into(), 0),
            },
            // NameRef::eq / ne between two owner names seen so far
            ["neq", i, j] => {
                match (
                    i.parse::<usize>().ok().and_then(|i| refs.get(i)),
                    j.parse::<usize>().ok().and_then(|j| refs.get(j)),
                ) {
                    (Some(a), Some(b)) => {
                        let (r, n) = measure(|| a.eq(b).and_then(|x| b.ne(a).map(|y| (x, y))));
                        (
                            match &r {
                                Ok((x, _)) => format!("ok:{}", x),
                                Err(e) => format!("E:{}", show_err(e)),
                            },
                            n,
                        )
                    }
                    _ => ("nomarker".into(), 0),
                }
            }
            _ => ("badop".into(), 0),
        };
        outs.push(if n > 0 { format!("{}!A{}", st, n) } else { st });
    }
    outs.join(" ")
}

/// `noalloci <hex>`: the iterator API restricted to what is advertised as allocation-free:
/// `MessageIterator::new`, `question()`, `questions()`, and `records()` as long as the records are A / AAAA
pub fn eval_noalloc_iter(toks: &[&str]) -> String {
    use crate::alloc::measure;
    if toks.len() != 2 {
        return "bad-request".into();
    }
    let bytes = match from_hex(toks[1]) {
        Some(b) => b,
        None => return "bad-request".into(),
    };
    let g = Guarded::new(&bytes, false);
    let buf = g.as_slice();
    let (mi, n0) = measure(|| MessageIterator::new(buf));
    let mi = match mi {
        Ok(m) => m,
        Err(e) => return format!("err {}{}", show_err(&e), if n0 > 0 { format!("!A{}", n0) } else { String::new() }),
    };
    let mut outs: Vec<String> = Vec::new();
    outs.push(if n0 > 0 { format!("new!A{}", n0) } else { "new".into() });
    let (r, n) = measure(|| mi.question());
    outs.push(format!("{}{}", status(&r), if n > 0 { format!("!A{}", n) } else { String::new() }));
    let (cnt, n) = measure(|| {
        let mut ok = 0usize;
        let mut err = 0usize;
        for q in mi.questions() {
            if q.is_ok() {
                ok += 1
            } else {
                err += 1
            }
        }
        (ok, err)
    });
    outs.push(format!("qs:{}:{}{}", cnt.0, cnt.1, if n > 0 { format!("!A{}", n) } else { String::new() }));
    // records: stop measuring at the first record that is not A / AAAA (those may allocate by design)
    let mut it = mi.records();
    let mut seen = 0usize;
    loop {
        let (item, n) = measure(|| it.next());
        match item {
            None => break,
            Some(Ok((_, rec))) => {
                let t = rec.rtype.value();
                if t != 1 && t != 28 {
                    outs.push(format!("stop:{}", t));
                    break;
                }
                seen += 1;
                if n > 0 {
                    outs.push(format!("rec{}!A{}", seen, n));
                }
            }
            Some(Err(e)) => {
                // an error item: allowed to be anything, but must not have allocated unless a
                // non-A/AAAA record was being decoded — the model tells which; report the count
                outs.push(format!("E:{}{}", show_err(&e), if n > 0 { format!("?A{}", n) } else { String::new() }));
                break;
            }
        }
    }
    outs.push(format!("recs:{}", seen));
    outs.join(" ")
}

/// stream `noalloc`: conforming histories restricted to the allocation-free API
pub fn gen_noalloc(r: &mut Rng, _i: u64) -> String {
    if r.chance(1, 5) {
        // iterator variant: messages with only A / AAAA records (and the usual mutations)
        let mut m = gen_msg(r, true);
        for s in 0..3 {
            for rec in m.sections[s].iter_mut() {
                if r.chance(9, 10) {
                    rec.rtype = if r.chance(1, 2) { T_A } else { T_AAAA };
                    rec.rclass = 1;
                    rec.data = gen_data(r, rec.rtype, true);
                }
            }
        }
        let mode = pick_mode(r);
        let (mut buf, _) = encode(&m, mode, r);
        if r.chance(1, 6) {
            mutate(&mut buf, r);
        }
        return format!("noalloci {}", to_hex(&buf));
    }
    let (buf, m, _) = gen_message_bytes(r);
    let mut ops: Vec<String> = vec!["hd".into()];
    let nq = m.questions.len();
    let mut q_read = 0;
    let n_ops = r.range(2, 30);
    let mut n_markers = 0u64;
    let mut n_refs = 0u64;
    for _ in 0..n_ops {
        if q_read < nq && !r.chance(1, 20) {
            ops.push(r.pick(&["q", "qr", "sq", "q"]).to_string());
            q_read += 1;
            continue;
        }
        match r.below(16) {
            0..=7 => {
                let g1 = if r.chance(1, 10) { "hh" } else { *r.pick(&["mk", "hr", "hi", "hr"]) };
                ops.push(g1.into());
                n_markers += 1;
                if g1 == "hr" {
                    n_refs += 1;
                }
                ops.push(r.pick(&["sk", "db", "dt:A", "dt:AAAA", "op", "sk"]).to_string());
            }
            8 | 9 => ops.push(format!("seek:{}", r.below(3))),
            10 => ops.push(if r.chance(1, 2) { "cq".into() } else { format!("cs:{}", r.below(3)) }),
            11 => ops.push(format!("dba:{}", r.below(n_markers + 1))),
            12 => ops.push(format!("dta:{}:{}", r.below(n_markers + 1), r.pick(&["A", "AAAA"]))),
            13 => ops.push(format!("nra:{}", r.below(n_markers + 1))),
            _ => ops.push(format!("neq:{}:{}", r.below(n_refs + 1), r.below(n_refs + 1))),
        }
    }
    format!("noalloc {} {}", to_hex(&buf), ops.join(" "))
}

// ---------------------------------------------------------------------------------------------
// iterator API, record sets, NameRef::eq
// ---------------------------------------------------------------------------------------------

pub fn eval_iter(toks: &[&str]) -> String {
    if toks.len() != 2 {
        return "bad-request".into();
    }
    let bytes = match from_hex(toks[1]) {
        Some(b) => b,
        None => return "bad-request".into(),
    };
    let g = Guarded::new(&bytes, bytes.len() % 2 == 0);
    let buf = g.as_slice();
    let mi = match MessageIterator::new(buf) {
        Ok(m) => m,
        Err(e) => return format!("err {}", show_err(&e)),
    };
    let h = mi.header();
    let showq = |q: &rsdns::message::Question| {
        format!("Q:{}:{}:{}", to_hex(q.qname.as_str().as_bytes()), q.qtype.value(), q.qclass.value())
    };
    let qs: Vec<String> = mi
        .questions()
        .map(|q| match q {
            Ok(q) => showq(&q),
            Err(e) => format!("E:{}", show_err(&e)),
        })
        .collect();
    let rs: Vec<String> = mi
        .records()
        .map(|r| match r {
            Ok((sec, rec)) => format!(
                "R:{}:{}:{}:{}:{}:{}",
                sec as usize,
                to_hex(rec.name.as_str().as_bytes()),
                rec.rclass.value(),
                rec.rtype.value(),
                rec.ttl,
                show_record_data(&rec.rdata)
            ),
            Err(e) => format!("E:{}", show_err(&e)),
        })
        .collect();
    format!(
        "H:{}:{}:{}:{}:{}:{} | {} | {} | {}",
        h.id,
        u16::from(h.flags),
        h.qd_count,
        h.an_count,
        h.ns_count,
        h.ar_count,
        show_e(&mi.question(), showq),
        qs.join(";"),
        rs.join(";")
    )
}

pub fn eval_rrset(toks: &[&str]) -> String {
    // an optional 4th token `exp=…` carries the generator's ground truth; it is for the oracle only
    if toks.len() != 3 && !(toks.len() == 4 && toks[3].starts_with("exp=")) {
        return "bad-request".into();
    }
    let bytes = match from_hex(toks[2]) {
        Some(b) => b,
        None => return "bad-request".into(),
    };
    let g = Guarded::new(&bytes, bytes.len() % 2 == 1);
    let buf = g.as_slice();
    with_rtype!(
        toks[1],
        D,
        {
            let r = RecordSet::<D>::from_msg(buf);
            show_res(&r, |rs| {
                format!(
                    "{}:{}:{}:{}",
                    nhex(&rs.name),
                    rs.rclass.value(),
                    rs.ttl,
                    rs.rdata.iter().map(|d| d.show()).collect::<Vec<_>>().join(",")
                )
            })
        },
        "bad-request".into()
    )
}

// ---------------------------------------------------------------------------------------------
// all views of one message (C08)
// ---------------------------------------------------------------------------------------------

fn marker_fields(m: &RecordMarker) -> String {
    let s = show_marker(m); // M:off:toff:type:class:ttl:rdlen:sec
    s[2..].to_string()
}

fn typed_at(mr: &MessageReader, m: &RecordMarker) -> String {
    let t = m.rtype().value();
    let name = type_name(t);
    if ALL_TYPES.contains(&t) {
        with_rtype!(name, D, show_e(&mr.record_data_at::<D>(m), |d| d.show()), "?".into())
    } else {
        show_e(&mr.record_data_bytes_at(m), |b| format!("raw:{}", to_hex(b)))
    }
}

pub(super) fn typed_seq(mr: &mut MessageReader, m: &RecordMarker) -> String {
    let t = m.rtype().value();
    let name = type_name(t);
    if ALL_TYPES.contains(&t) {
        with_rtype!(name, D, show_e(&mr.record_data::<D>(m), |d| d.show()), "?".into())
    } else if t == 41 {
        show_e(&mr.opt_record(m), |o| format!("opt:{}:{}:{}", o.udp_payload_size(), o.rcode_extension(), o.version()))
    } else {
        show_e(&mr.record_data_bytes(m), |b| format!("raw:{}", to_hex(b)))
    }
}

/// one sequential pass; `kind`: 0 = markers + skip, 1 = header refs + skip, 2 = owned heap names +
/// typed data, 3 = owned inline names + typed data. Items: `Q…` questions then one item per record.
fn seq_view(buf: &[u8], kind: u8) -> (String, Vec<RecordMarker>) {
    let mut items: Vec<String> = Vec::new();
    let mut markers = Vec::new();
    let mut mr = match MessageReader::new(buf) {
        Ok(m) => m,
        Err(e) => return (format!("!E:{}", show_err(&e)), markers),
    };
    match mr.header() {
        Ok(h) => items.push(format!("H:{}:{}:{}:{}:{}:{}", h.id, u16::from(h.flags), h.qd_count, h.an_count, h.ns_count, h.ar_count)),
        Err(e) => return (format!("!E:{}", show_err(&e)), markers),
    }
    while mr.has_questions() {
        if kind <= 1 {
            match mr.question_ref() {
                Ok(q) => items.push(format!("Q:{}:{}:{}", if kind == 1 { show_name_ref(&q.qname) } else { "-".into() }, q.qtype.value(), q.qclass.value())),
                Err(e) => {
                    items.push(format!("!E:{}", show_err(&e)));
                    return (items.join(";"), markers);
                }
            }
        } else {
            match mr.question() {
                Ok(q) => items.push(format!("Q:{}:{}:{}", to_hex(q.qname.as_str().as_bytes()), q.qtype.value(), q.qclass.value())),
                Err(e) => {
                    items.push(format!("!E:{}", show_err(&e)));
                    return (items.join(";"), markers);
                }
            }
        }
    }
    while mr.has_records() {
        let (m, name): (RecordMarker, String) = match kind {
            0 => match mr.record_marker() {
                Ok(m) => (m, "-".into()),
                Err(e) => {
                    items.push(format!("!E:{}", show_err(&e)));
                    break;
                }
            },
            1 => match mr.record_header_ref() {
                Ok(h) => (h.marker().clone(), show_name_ref(h.name())),
                Err(e) => {
                    items.push(format!("!E:{}", show_err(&e)));
                    break;
                }
            },
            2 => match mr.record_header::<Name>() {
                Ok(h) => (h.marker().clone(), nhex(h.name())),
                Err(e) => {
                    items.push(format!("!E:{}", show_err(&e)));
                    break;
                }
            },
            _ => match mr.record_header::<InlineName>() {
                Ok(h) => (h.marker().clone(), to_hex(h.name().as_str().as_bytes())),
                Err(e) => {
                    items.push(format!("!E:{}", show_err(&e)));
                    break;
                }
            },
        };
        markers.push(m.clone());
        let data = if kind <= 1 {
            show_e(&mr.skip_record_data(&m), |_| "-".into())
        } else {
            typed_seq(&mut mr, &m)
        };
        let failed = data.starts_with("E:");
        items.push(format!("R:{}:{}:{}", marker_fields(&m), name, data));
        if failed {
            break;
        }
    }
    (items.join(";"), markers)
}

/// `views <hex>` -> `M=<…> | R=<…> | HH=<…> | HI=<…> | AT=<…> | I=<…>`
pub fn eval_views(toks: &[&str]) -> String {
    if toks.len() != 2 {
        return "bad-request".into();
    }
    let bytes = match from_hex(toks[1]) {
        Some(b) => b,
        None => return "bad-request".into(),
    };
    let g = Guarded::new(&bytes, true);
    let buf = g.as_slice();
    let (m, markers) = seq_view(buf, 0);
    let (r, _) = seq_view(buf, 1);
    let (hh, _) = seq_view(buf, 2);
    let (hi, _) = seq_view(buf, 3);
    // random access with the markers of the marker view, on a fresh reader
    let at = match MessageReader::new(buf) {
        Ok(mr) => markers
            .iter()
            .map(|m| format!("{}~{}", typed_at(&mr, m), show_e(&mr.record_data_bytes_at(m), |b| to_hex(b))))
            .collect::<Vec<_>>()
            .join(";"),
        Err(e) => format!("!E:{}", show_err(&e)),
    };
    let it = eval_iter(&["iter", toks[1]]);
    format!("M={} | R={} | HH={} | HI={} | AT={} | I={}", m, r, hh, hi, at, it)
}

pub fn gen_views(r: &mut Rng, _i: u64) -> String {
    let (buf, _, _) = gen_message_bytes(r);
    format!("views {}", to_hex(&buf))
}

pub fn eval_nameeq(toks: &[&str]) -> String {
    if toks.len() != 4 {
        return "bad-request".into();
    }
    let (p1, p2) = match (toks[1].parse::<usize>(), toks[2].parse::<usize>()) {
        (Ok(a), Ok(b)) => (a, b),
        _ => return "bad-request".into(),
    };
    let bytes = match from_hex(toks[3]) {
        Some(b) => b,
        None => return "bad-request".into(),
    };
    let g = Guarded::new(&bytes, (p1 + p2) % 2 == 0);
    let buf = g.as_slice();
    let a = vh::name_ref_at(buf, p1);
    let b = vh::name_ref_at(buf, p2);
    let r = a.eq(&b);
    // ne must be the negation
    let rn = a.ne(&b);
    match (&r, &rn) {
        (Ok(x), Ok(y)) if x == y => return "ne-is-not-negation".into(),
        _ => {}
    }
    let n1 = show_name_ref(&a);
    let n2 = show_name_ref(&b);
    format!("{} n1={} n2={}", show_res(&r, |v| format!("{}", v)), n1, n2)
}

// ---------------------------------------------------------------------------------------------
// generators
// ---------------------------------------------------------------------------------------------

/// stream `rdata`: for each of the 17 types a true record body, the announced RDLENGTH off by
/// -3..+3 now and then, preceded by a name that RDATA names may point into, followed by bytes that
/// would parse if they leaked into the value.
pub fn gen_rdata(r: &mut Rng, _i: u64) -> String {
    let rtype = *r.pick(&ALL_TYPES);
    let mode = pick_mode(r);
    let data = gen_data(r, rtype, true);
    // an earlier name that RDATA names may point into
    let pre = GName {
        labels: vec![b"example".to_vec(), b"com".to_vec()],
    };
    let rec = GRec {
        owner: GName::root(),
        rtype,
        rclass: 1,
        ttl: 0,
        data,
        rdlen_delta: 0,
    };
    let (mut buf, start, true_len) = {
        let mut enc = Encoder::new(mode, r);
        enc.name(&pre);
        enc.rec(&rec);
        let (_, _, start, true_len, _) = enc.layout.records[0];
        (enc.buf.clone(), start, true_len)
    };
    // following bytes: a plausible continuation
    let follow: Vec<u8> = match r.below(4) {
        0 => vec![],
        1 => vec![3, b'w', b'w', b'w', 0, 0, 1, 0, 1],
        2 => (0..r.below(12)).map(|_| r.byte()).collect(),
        _ => vec![0; 18],
    };
    buf.extend_from_slice(&follow);
    let delta: i64 = if r.chance(1, 2) {
        0
    } else {
        *r.pick(&[-3i64, -2, -1, 1, 2, 3, 5, 40])
    };
    let rdlen = (true_len as i64 + delta).max(0) as usize;
    if r.chance(1, 12) {
        mutate(&mut buf, r);
    }
    // now and then ask for a different type than encoded
    let ask = if r.chance(1, 10) { *r.pick(&ALL_TYPES) } else { rtype };
    format!("rdata {} {} {} {}", type_name(ask), start, rdlen, to_hex(&buf))
}

pub(super) fn gen_message_bytes(r: &mut Rng) -> (Vec<u8>, GMsg, Layout) {
    let pool = r.chance(2, 3);
    let mut m = gen_msg(r, pool);
    // RDLENGTH and count perturbations
    if r.chance(1, 8) {
        let s = r.below(3) as usize;
        if !m.sections[s].is_empty() {
            let i = r.below(m.sections[s].len() as u64) as usize;
            m.sections[s][i].rdlen_delta = *r.pick(&[-2, -1, 1, 2, 7]);
        }
    }
    if r.chance(1, 10) {
        m.count_delta[r.below(4) as usize] = *r.pick(&[-1, 1, 2]);
    }
    let mode = pick_mode(r);
    let (mut buf, layout) = encode(&m, mode, r);
    match r.below(12) {
        0 | 1 => mutate(&mut buf, r),
        2 => {
            mutate(&mut buf, r);
            mutate(&mut buf, r);
        }
        3 => {
            // trailing garbage
            for _ in 0..r.below(6) {
                buf.push(r.byte());
            }
        }
        _ => {}
    }
    if r.chance(1, 60) {
        // a random blob
        let n = r.below(60) as usize;
        buf = (0..n).map(|_| r.byte()).collect();
    }
    (buf, m, layout)
}

const G1: [&str; 4] = ["mk", "hr", "hh", "hi"];

/// conforming histories: header first, questions while questions remain, (G1, G2) pairs with the
/// marker G1 returned, seeks / counts / random access between pairs.
pub fn gen_reader(r: &mut Rng, _i: u64) -> String {
    let (buf, m, _layout) = gen_message_bytes(r);
    let mut ops: Vec<String> = vec!["hd".into()];
    let recs: Vec<&GRec> = m.sections.iter().flat_map(|s| s.iter()).collect();
    let sec_start = [0usize, m.sections[0].len(), m.sections[0].len() + m.sections[1].len()];
    let nq = m.questions.len();
    let mut q_read = 0usize;
    let mut k = 0usize; // index of the record the reader is (probably) at
    let n_ops = match r.below(10) {
        0 => r.range(20, 60),
        _ => r.range(2, 20),
    };
    let mut n_markers = 0u64;
    for _ in 0..n_ops {
        let choice = r.below(20);
        // questions first (documented order); now and then deliberately not
        if q_read < nq && !r.chance(1, 25) {
            match r.below(6) {
                0 => {
                    ops.push("sq".into());
                    q_read = nq;
                    continue;
                }
                1 => ops.push("qr".into()),
                2 if nq == 1 => ops.push("tq".into()),
                3 if nq == 1 => ops.push("tqr".into()),
                _ => ops.push("q".into()),
            }
            q_read += 1;
            continue;
        }
        // no records left: seek back, query counts / random access, or (rarely) read past the end
        let exhausted = k >= recs.len();
        let choice = if exhausted && choice <= 11 && !r.chance(1, 12) { 12 + r.below(8) } else { choice };
        match choice {
            0..=11 => {
                // a record pair
                ops.push(r.pick(&G1).to_string());
                n_markers += 1;
                let t = if k < recs.len() { recs[k].rtype } else { *r.pick(&ALL_TYPES) };
                let g2 = match r.below(12) {
                    0..=2 => "sk".to_string(),
                    3..=4 => "db".to_string(),
                    5 if t == T_OPT => "op".to_string(),
                    11 => format!("dt:{}", type_name(*r.pick(&ALL_TYPES))),
                    _ => {
                        if ALL_TYPES.contains(&t) {
                            format!("dt:{}", type_name(t))
                        } else if t == T_OPT {
                            "op".to_string()
                        } else {
                            "db".to_string()
                        }
                    }
                };
                ops.push(g2);
                k += 1;
            }
            12..=14 => {
                let s = r.below(3) as usize;
                ops.push(format!("seek:{}", s));
                // where the reader lands if the seek succeeds
                let mut s2 = s;
                while s2 < 3 && m.sections[s2].is_empty() {
                    s2 += 1;
                }
                k = if s2 < 3 { sec_start[s2] } else { recs.len() };
                q_read = nq;
            }
            15 => ops.push("cq".into()),
            16 => ops.push(if r.chance(1, 2) { "cr".into() } else { format!("cs:{}", r.below(3)) }),
            17 => ops.push(format!("dba:{}", r.below(n_markers + 1))),
            18 => {
                let i = r.below(n_markers + 1);
                let t = *r.pick(&ALL_TYPES);
                ops.push(format!("dta:{}:{}", i, type_name(t)));
            }
            _ => ops.push(format!("nra:{}", r.below(n_markers + 1))),
        }
    }
    format!("reader {} {}", to_hex(&buf), ops.join(" "))
}

/// stream `xmark`: markers taken from message A, used on a reader over message B (often much shorter)
pub fn gen_xmark(r: &mut Rng, _i: u64) -> String {
    let (a, _, _) = gen_message_bytes(r);
    let b: Vec<u8> = match r.below(4) {
        0 => vec![0u8; 12],
        1 => {
            let (mut b, _, _) = gen_message_bytes(r);
            let n = r.below(b.len() as u64 + 1) as usize;
            b.truncate(n);
            b
        }
        2 => a[..a.len().min(12 + r.below(20) as usize)].to_vec(),
        _ => gen_message_bytes(r).0,
    };
    let n_ops = r.range(1, 12);
    let mut ops: Vec<String> = vec!["hd".into()];
    for _ in 0..n_ops {
        let i = r.below(8);
        let t = type_name(*r.pick(&ALL_TYPES));
        ops.push(match r.below(10) {
            0 | 1 => format!("dba:{}", i),
            2 | 3 => format!("dta:{}:{}", i, t),
            4 => format!("dta:{}:{}", i, *r.pick(&["NULL", "TXT", "A"])),
            5 => format!("nra:{}", i),
            6 => format!("skx:{}", i),
            7 => format!("dbx:{}", i),
            8 => format!("dtx:{}:{}", i, t),
            _ => r.pick(&G1).to_string(),
        });
    }
    format!("xmark {} {} {}", to_hex(&a), to_hex(&b), ops.join(" "))
}

/// arbitrary call orders (no protocol): any op at any time, G2 calls with stale markers
/// recipe: the marker of a record whose RDATA is cut off by the end of the message is taken without
/// reading the data; later a typed read of another record fails inside its RDATA window (the reader's
/// cursor stays there); then random access with the first marker — whose answer (an error) must be the
/// one a fresh reader gives
fn gen_cut_marker_history(r: &mut Rng) -> Option<String> {
    let mut m = gen_msg(r, true);
    for s in 0..3 {
        m.sections[s].truncate(2);
        for rec in m.sections[s].iter_mut() {
            rec.rdlen_delta = 0;
        }
    }
    let (buf, layout) = encode(&m, pick_mode(r), r);
    let nrec = layout.records.len();
    if nrec < 2 || nrec > 5 {
        return None;
    }
    let (_, _, start, rdlen, _) = layout.records[nrec - 1];
    if rdlen < 2 || start + rdlen != buf.len() {
        return None;
    }
    let cut = start + r.range(1, rdlen as u64 - 1) as usize;
    let first_sec = (0..3).find(|&s| !m.sections[s].is_empty())?;
    let (_, _, _, rdlen0, rtype0) = layout.records[0];
    // a type whose decoder cannot consume record 0's RDATA exactly
    let wrong = if rtype0 == T_A || rdlen0 == 4 { "AAAA" } else { "A" };
    let mut ops: Vec<String> = vec!["hd".into(), "sq".into()];
    for _ in 0..nrec - 1 {
        ops.push(r.pick(&G1).to_string());
        ops.push("sk".into());
    }
    ops.push("mk".into());
    ops.push(format!("seek:{}", first_sec));
    ops.push("mk".into());
    ops.push(format!("dt:{}", wrong));
    let last = nrec - 1;
    for op in [format!("dba:{}", last), format!("dta:{}:A", last), format!("nra:{}", last), "dba:0".to_string(), format!("dba:{}", last)] {
        ops.push(op);
    }
    Some(format!("reader {} {}", to_hex(&buf[..cut]), ops.join(" ")))
}

pub fn gen_readerx(r: &mut Rng, _i: u64) -> String {
    if r.chance(1, 12) {
        if let Some(line) = gen_cut_marker_history(r) {
            return line;
        }
    }
    let (buf, _m, _layout) = gen_message_bytes(r);
    let n_ops = r.range(1, 25);
    let mut ops: Vec<String> = Vec::new();
    for _ in 0..n_ops {
        let i = r.below(6);
        let t = type_name(*r.pick(&ALL_TYPES));
        let op = match r.below(24) {
            0..=2 => "hd".to_string(),
            3 => "q".into(),
            4 => "qr".into(),
            5 => "tq".into(),
            6 => "sq".into(),
            7..=9 => r.pick(&G1).to_string(),
            10 => "sk".into(),
            11 => "db".into(),
            12 => format!("dt:{}", t),
            13 => if r.chance(1, 2) { "op".into() } else { format!("opx:{}", i) },
            14 => format!("seek:{}", r.below(3)),
            15 => "cq".into(),
            16 => "cr".into(),
            17 => format!("cs:{}", r.below(3)),
            18 => format!("dba:{}", i),
            19 => format!("dta:{}:{}", i, t),
            20 => format!("nra:{}", i),
            21 => format!("skx:{}", i),
            22 => format!("dbx:{}", i),
            _ => format!("dtx:{}:{}", i, t),
        };
        ops.push(op);
    }
    format!("reader {} {}", to_hex(&buf), ops.join(" "))
}

pub fn gen_iter(r: &mut Rng, i: u64) -> String {
    if super::truth::big_slot(i, 100) {
        // the iterator API takes buffers of any length: records ending / starting past offset 65535
        if let Some((_, mut buf, _, _)) = super::truth::gen_big(r, &[65535, 65536, 65537, 65600, 66000, 70000]) {
            if r.chance(1, 4) {
                mutate(&mut buf, r);
            }
            return format!("iter {}", to_hex(&buf));
        }
    }
    let (buf, _, _) = gen_message_bytes(r);
    format!("iter {}", to_hex(&buf))
}

pub(super) fn gname_hex(n: &GName) -> String {
    to_hex(&n.text())
}

/// canonical text of generator data — written from the semantic value, never from decoded bytes
pub(super) fn gdata_show(t: u16, d: &GData) -> Option<String> {
    Some(match d {
        GData::A(v) => format!("A:{}", v),
        GData::Aaaa(v) => format!("AAAA:{}", v),
        GData::Dn(n) => format!("{}:{}", type_name(t), gname_hex(n)),
        GData::Soa(m, r, v) => format!("SOA:{}:{}:{}:{}:{}:{}:{}", gname_hex(m), gname_hex(r), v[0], v[1], v[2], v[3], v[4]),
        GData::Null(b) => format!("NULL:{}", to_hex(b)),
        GData::Wks(a, p, b) => format!("WKS:{}:{}:{}", a, p, to_hex(b)),
        GData::Hinfo(c, o) => format!("HINFO:{}:{}", to_hex(c), to_hex(o)),
        GData::Minfo(a, b) => format!("MINFO:{}:{}", gname_hex(a), gname_hex(b)),
        GData::Mx(p, n) => format!("MX:{}:{}", p, gname_hex(n)),
        GData::Txt(ss) => format!("TXT:{}", to_hex(&ss.concat())),
        GData::Raw(_) => return None,
    })
}

fn eq_ci(a: &GName, b: &GName) -> bool {
    a.labels.len() == b.labels.len()
        && a.labels.iter().zip(b.labels.iter()).all(|(x, y)| x.eq_ignore_ascii_case(y))
}

/// the specification of record-set extraction on the SEMANTIC answer section (independent reference):
/// follow CNAMEs from the question name; at each name return the records of the wanted type and class
/// if there are any, else follow the first unused CNAME of that owner and class, else no answer.
fn reference_rrset(answers: &[GRec], qname: &GName, qclass: u16, want: u16) -> String {
    let mut used = vec![false; answers.len()];
    let mut name = qname.clone();
    loop {
        let hits: Vec<&GRec> = answers
            .iter()
            .enumerate()
            .filter(|(i, r)| !used[*i] && eq_ci(&r.owner, &name) && r.rtype == want && r.rclass == qclass)
            .map(|(_, r)| r)
            .collect();
        if !hits.is_empty() {
            let ttl = hits.iter().map(|r| r.ttl).min().unwrap();
            let data: Vec<String> = hits.iter().map(|r| gdata_show(want, &r.data).unwrap_or_else(|| "?".into())).collect();
            return format!("ok:{}:{}:{}:{}", gname_hex(&name), qclass, ttl, data.join(","));
        }
        let next = answers
            .iter()
            .enumerate()
            .find(|(i, r)| !used[*i] && eq_ci(&r.owner, &name) && r.rtype == T_CNAME && r.rclass == qclass);
        match next {
            Some((i, r)) => {
                used[i] = true;
                match &r.data {
                    GData::Dn(t) => name = t.clone(),
                    _ => return "err:NoAnswer".into(),
                }
            }
            None => return "err:NoAnswer".into(),
        }
    }
}

/// stream `rrset`: responses with CNAME graphs (chains, forks, loops, dangling), decoys in other
/// sections / classes / types, case variants, all gate combinations and OPT placements.
pub fn gen_rrset(r: &mut Rng, _i: u64) -> String {
    let want = *r.pick(&[T_A, T_A, T_A, T_AAAA, T_MX, T_TXT, T_NS, T_CNAME, T_SOA, T_NULL, T_HINFO]);
    let want = if r.chance(1, 6) { *r.pick(&ALL_TYPES) } else { want };
    // one case in fifteen is long: up to 40 names in the chain, up to 300 data records
    let long = r.chance(1, 15);
    let pool_n: usize = if long { 41 } else { 5 };
    let names: Vec<GName> = (0..pool_n)
        .map(|i| GName {
            labels: vec![format!("n{}", i).into_bytes(), b"Example".to_vec(), b"org".to_vec()],
        })
        .collect();
    // now and then one name of the pool (the question name and the end of the chain included) is the
    // root or a single label
    let mut names = names;
    if r.chance(1, 8) {
        let k = r.below(pool_n.min(5) as u64) as usize;
        names[k] = GName::root();
    }
    if r.chance(1, 8) {
        let k = r.below(pool_n.min(5) as u64) as usize;
        if !names[k].labels.is_empty() {
            names[k] = GName { labels: vec![b"org".to_vec()] };
        }
    }
    // owners related to `n` as label prefixes / extensions (never equal to it): `n` with labels
    // appended, `n` cut after its first one or two labels, the root
    fn related(r: &mut Rng, n: &GName) -> GName {
        let mut l = n.labels.clone();
        match r.below(4) {
            0 => {
                l.push(b"edge".to_vec());
                l.push(b"net".to_vec());
            }
            1 => l.truncate(1),
            2 => l.truncate(2),
            _ => l.clear(),
        }
        if l.len() == n.labels.len() {
            l.push(b"x".to_vec());
        }
        GName { labels: l }
    }
    let qname = names[0].clone();
    let qclass: u16 = if r.chance(1, 12) { 3 } else { 1 };
    let mut answers: Vec<GRec> = Vec::new();
    // CNAME edges
    let chain_len = if long { r.range(5, 40) as usize } else { r.below(5) as usize };
    let mut order: Vec<usize> = (0..pool_n).collect();
    // shuffle targets a bit
    for i in (1..order.len()).rev() {
        let j = r.range(1, i as u64) as usize;
        order.swap(i, j);
    }
    for i in 0..chain_len.min(pool_n - 1) {
        let from = names[order[i]].clone();
        let to = names[order[i + 1]].clone();
        answers.push(GRec {
            owner: if r.chance(1, 3) { from.flip_case(r) } else { from },
            rtype: T_CNAME,
            rclass: if r.chance(1, 15) { *r.pick(&[3u16, qclass | 0x8000, qclass + 256]) } else { qclass },
            ttl: r.below(500) as u32,
            data: GData::Dn(if r.chance(1, 3) { to.flip_case(r) } else { to }),
            rdlen_delta: 0,
        });
    }
    match r.below(8) {
        0 => {
            // loop back
            if chain_len > 0 {
                let from = names[order[chain_len.min(pool_n - 1)]].clone();
                answers.push(GRec {
                    owner: from,
                    rtype: T_CNAME,
                    rclass: qclass,
                    ttl: 5,
                    data: GData::Dn(names[order[0]].clone()),
                    rdlen_delta: 0,
                });
            }
        }
        1 => {
            // fork: a second CNAME for the question name
            answers.push(GRec {
                owner: qname.clone(),
                rtype: T_CNAME,
                rclass: qclass,
                ttl: 5,
                data: GData::Dn(names[order[3]].clone()),
                rdlen_delta: 0,
            });
        }
        _ => {}
    }
    if r.chance(1, 6) {
        // a CNAME whose owner is only a label prefix / extension of a name on the chain
        let k = r.below(chain_len.min(pool_n - 1) as u64 + 1) as usize;
        let owner = related(r, &names[order[k]]);
        answers.push(GRec {
            owner,
            rtype: T_CNAME,
            rclass: qclass,
            ttl: 7,
            data: GData::Dn(names[order[pool_n - 1]].clone()),
            rdlen_delta: 0,
        });
    }
    // data records for the end of the chain (and decoys elsewhere)
    let end = names[order[chain_len.min(pool_n - 1)]].clone();
    let n_data = if long && r.chance(1, 2) { r.range(250, 300) } else { r.below(4) };
    for _ in 0..n_data {
        let owner = match r.below(8) {
            0 => r.pick(&names).clone(),
            1 => related(r, &end),
            _ => end.clone(),
        };
        answers.push(GRec {
            owner: if r.chance(1, 3) { owner.flip_case(r) } else { owner },
            rtype: if r.chance(7, 8) { want } else { *r.pick(&ALL_TYPES) },
            rclass: if r.chance(9, 10) { qclass } else { *r.pick(&[4u16, qclass | 0x8000, qclass ^ 1, qclass + 256, 255, 254]) },
            ttl: r.below(100000) as u32,
            data: gen_data(r, want, true),
            rdlen_delta: 0,
        });
    }
    // fix data for records whose type is not `want`
    for a in answers.iter_mut() {
        let well_typed = match (&a.data, a.rtype) {
            (GData::Dn(_), t) => DN_TYPES.contains(&t),
            (_, t) => t == want && !DN_TYPES.contains(&t),
        };
        if !well_typed {
            a.data = gen_data(r, a.rtype, true);
        }
    }
    // names inside the data stay within 255 octets (the messages with ground truth are well-formed)
    for a in answers.iter_mut() {
        a.data = super::truth::legalize_data(a.data.clone());
    }
    // shuffle answers sometimes
    if r.chance(1, 2) {
        for i in (1..answers.len()).rev() {
            let j = r.below(i as u64 + 1) as usize;
            answers.swap(i, j);
        }
    }
    let mut sections: [Vec<GRec>; 3] = [answers, vec![], vec![]];
    // decoys in authority / additional with the wanted owner+type
    for s in 1..3 {
        for _ in 0..r.below(3) {
            sections[s].push(GRec {
                owner: end.clone(),
                rtype: want,
                rclass: qclass,
                ttl: 1,
                data: super::truth::legalize_data(gen_data(r, want, true)),
                rdlen_delta: 0,
            });
        }
    }
    // OPT placement
    let ext = *r.pick(&[0u8, 0, 0, 0, 1, 16, 255, 0x10, 0x20, 0x80, 0xf0, 0x11]);
    // the OPT pseudo-record is recognised by its TYPE; its owner is the root as a rule, now and then
    // another name (which the encoder may also write as a compression pointer)
    let opt_owner = match r.below(6) {
        0 => qname.clone(),
        1 => GName { labels: vec![b"x".to_vec()] },
        _ => GName::root(),
    };
    let mk_opt = |ext: u8, r: &mut Rng| GRec {
        owner: opt_owner.clone(),
        rtype: T_OPT,
        rclass: 1232,
        ttl: ((ext as u32) << 24) | (r.below(2) as u32) << 16 | (r.below(2) as u32) << 15,
        data: GData::Raw(vec![]),
        rdlen_delta: 0,
    };
    match r.below(8) {
        0 => sections[1].push(mk_opt(ext, r)),
        1 | 2 | 3 => sections[2].push(mk_opt(ext, r)),
        4 => {
            sections[2].push(mk_opt(ext, r));
            sections[2].push(mk_opt(1, r));
        }
        5 => sections[0].insert(0, mk_opt(ext, r)),
        _ => {}
    }
    let flags: u16 = match r.below(12) {
        0 => 0x0180,                              // a query
        1 => 0x8380,                              // truncated
        2 => 0x8180 | r.range(1, 15) as u16,      // rcode
        3 => r.next() as u16,
        _ => 0x8180,
    };
    let nq = match r.below(12) {
        0 => 0,
        1 => 2,
        _ => 1,
    };
    let questions: Vec<(GName, u16, u16)> = (0..nq).map(|_| (qname.clone(), want, qclass)).collect();
    // over-claimed header counts: NSCOUNT + ARCOUNT reach or pass 65536, so a 16-bit sum of the unread
    // counts wraps; the records present are still read in order, the OPT among them
    let mut count_delta = [0i32; 4];
    let overclaim = r.chance(1, 12);
    if overclaim {
        let (ns, ar) = *r.pick(&[(0x8000i32, 0x8000i32), (0xFFFF, 1), (0xFFFF, 2), (0xFFFE, 3), (2, 0xFFFF), (0xFFFF, 0xFFFF), (0x7FFF, 0x8000)]);
        count_delta[2] = (ns - sections[1].len() as i32).max(0);
        count_delta[3] = (ar - sections[2].len() as i32).max(0);
    }
    let m = GMsg {
        id: r.next() as u16,
        flags,
        questions,
        sections,
        count_delta,
    };
    let mode = pick_mode(r);
    let (mut buf, _) = encode(&m, mode, r);
    let mutated = r.chance(1, 12);
    if mutated {
        mutate(&mut buf, r);
    }
    // ground truth, when the message is a well-formed NOERROR response the property speaks about
    let first_opt_ext = m.sections[1]
        .iter()
        .chain(m.sections[2].iter())
        .find(|x| x.rtype == T_OPT)
        .map(|x| (x.ttl >> 24) as u8);
    let clean = !mutated
        && !overclaim
        && m.flags == 0x8180
        && m.questions.len() == 1
        && first_opt_ext.unwrap_or(0) == 0
        && m.sections[0].iter().all(|x| x.rtype != T_OPT)
        && ALL_TYPES.contains(&want);
    // the gates of C07, read off the semantic message: QR, TC, QDCOUNT and the 12-bit extended RCODE
    // (header RCODE | extension byte of the first OPT behind the answer section << 4)
    let ext_rcode = (m.flags & 0xF) as u32 | ((first_opt_ext.unwrap_or(0) as u32) << 4);
    let gate_closed = !mutated
        && (m.flags & 0x8000 == 0 || m.flags & 0x0200 != 0 || m.questions.len() != 1 || ext_rcode != 0);
    if buf.len() > 65535 {
        return format!("rrset {} {}", type_name(want), to_hex(&buf));
    }
    if clean {
        let exp = reference_rrset(&m.sections[0], &m.questions[0].0, m.questions[0].2, want);
        format!("rrset {} {} exp={}", type_name(want), to_hex(&buf), exp)
    } else if gate_closed {
        format!("rrset {} {} exp=gate", type_name(want), to_hex(&buf))
    } else {
        format!("rrset {} {}", type_name(want), to_hex(&buf))
    }
}

/// stream `nameeq`: all pairs of names inside compressed messages
pub fn gen_nameeq(r: &mut Rng, _i: u64) -> String {
    let m = gen_msg(r, true);
    let (mut buf, layout) = encode(&m, Compress::Suffix, r);
    if r.chance(1, 10) {
        mutate(&mut buf, r);
    }
    let starts = &layout.name_starts;
    let (p1, p2) = if starts.is_empty() || r.chance(1, 15) {
        (r.below(buf.len() as u64 + 2) as usize, r.below(buf.len() as u64 + 2) as usize)
    } else {
        (*r.pick(starts), *r.pick(starts))
    };
    format!("nameeq {} {} {}", p1, p2, to_hex(&buf))
}
