//! request kind `client` (streams `c11`..`c16`): one client object + a history of queries against a
//! scripted loopback server (UDP + TCP on the same 127.0.0.1 port). The exact request / answer
//! formats and the server semantics are specified in `harness/CLIENT_STREAM.md`.

use crate::canon::{from_hex, show_err, to_hex};
use crate::mem::Guarded;
use crate::rng::Rng;
use rsdns::clients::{ClientConfig, EDns, ProtocolStrategy, Recursion};
use rsdns::records::{data::A, Class, RecordSet, Type};
use std::io::{ErrorKind, Read, Write};
use std::net::{Shutdown, SocketAddr, TcpListener, TcpStream, UdpSocket};
use std::os::unix::io::AsRawFd;
use std::sync::atomic::{AtomicBool, Ordering};
use std::sync::{Arc, Mutex};
use std::thread::JoinHandle;
use std::time::{Duration, Instant};

// ------------------------------------------------------------------------------------------------
// request line
// ------------------------------------------------------------------------------------------------

#[derive(Clone, Debug)]
enum Item {
    /// hex template: one datagram (UDP) / one `write_all` (TCP)
    Tmpl(String),
    /// `z`: a zero-length datagram (UDP); nothing on TCP
    Zero,
    /// `p<ms>`
    Pause(u64),
    /// `c` (TCP only)
    Close,
    /// `h` (TCP only)
    Hold,
    /// `b` (TCP only, first item of the first entry): the server host drops the SYNs — the listener's
    /// accept queue is kept full and nothing is accepted for the rest of the line
    BlackHole,
}

type Script = Vec<Vec<Item>>;

struct Hdr {
    rt: String,
    rd: bool,
    edns: Option<(u8, u16)>,
    strat: ProtocolStrategy,
    cfgbuf: usize,
    qt: Option<u64>,
    lt: u64,
    /// which of the equivalent builder sequences `build_cfg` uses (a hash of the header tokens)
    order: u64,
}

struct QSpec {
    rrset: bool,
    qname: String,
    qtype: u16,
    qclass: u16,
    buf: usize,
    drop: Option<u64>,
    udp: Script,
    tcp: Script,
}

fn subst(t: &str, id: u16, prev: u16) -> Option<Vec<u8>> {
    let s = t
        .replace("IIII", &format!("{:04x}", id))
        .replace("JJJJ", &format!("{:04x}", id ^ 0x0100))
        .replace("PPPP", &format!("{:04x}", prev));
    if s.is_empty() || s == "-" {
        return None;
    }
    from_hex(&s)
}

fn parse_item(s: &str) -> Option<Item> {
    match s {
        "c" => return Some(Item::Close),
        "h" => return Some(Item::Hold),
        "b" => return Some(Item::BlackHole),
        "z" => return Some(Item::Zero),
        _ => {}
    }
    if let Some(ms) = s.strip_prefix('p') {
        return ms.parse().ok().map(Item::Pause);
    }
    if s.is_empty()
        || !s
            .bytes()
            .all(|b| b.is_ascii_digit() || (b'a'..=b'f').contains(&b) || b"IJP".contains(&b))
    {
        return None;
    }
    subst(s, 0, 0)?;
    Some(Item::Tmpl(s.to_string()))
}

fn parse_script(s: &str) -> Option<Script> {
    if s == "-" {
        return Some(Vec::new());
    }
    let mut out = Vec::new();
    for e in s.split(';') {
        if e == "." {
            out.push(Vec::new());
            continue;
        }
        let mut items = Vec::new();
        for i in e.split(',') {
            items.push(parse_item(i)?);
        }
        out.push(items);
    }
    Some(out)
}

fn ms_or_none(s: &str) -> Option<Option<u64>> {
    if s == "none" {
        Some(None)
    } else {
        s.parse().ok().map(Some)
    }
}

fn parse_hdr(t: &[&str]) -> Option<Hdr> {
    if t.len() != 7 {
        return None;
    }
    let rt = t[0].strip_prefix("rt=")?;
    if !RTS.contains(&rt) {
        return None;
    }
    let rd = match t[1].strip_prefix("rd=")? {
        "0" => false,
        "1" => true,
        _ => return None,
    };
    let edns = match t[2].strip_prefix("edns=")? {
        "off" => None,
        s => {
            let (v, p) = s.split_once(':')?;
            Some((v.parse().ok()?, p.parse().ok()?))
        }
    };
    let strat = match t[3].strip_prefix("strat=")? {
        "udp" => ProtocolStrategy::Udp,
        "tcp" => ProtocolStrategy::Tcp,
        "notcp" => ProtocolStrategy::NoTcp,
        _ => return None,
    };
    let cfgbuf = t[4].strip_prefix("cfgbuf=")?.parse().ok()?;
    let qt = ms_or_none(t[5].strip_prefix("qt=")?)?;
    let lt = t[6].strip_prefix("lt=")?.parse().ok()?;
    let mut order: u64 = 0xcbf2_9ce4_8422_2325;
    for b in t.iter().flat_map(|x| x.bytes()) {
        order = (order ^ b as u64).wrapping_mul(0x100_0000_01b3);
    }
    Some(Hdr {
        rt: rt.to_string(),
        rd,
        edns,
        strat,
        cfgbuf,
        qt,
        lt,
        order: order >> 20,
    })
}

fn parse_q(t: &[&str]) -> Option<QSpec> {
    if t.len() != 8 {
        return None;
    }
    let rrset = match t[0].strip_prefix("api=")? {
        "raw" => false,
        "rrset" => true,
        _ => return None,
    };
    let qname = String::from_utf8(from_hex(t[1].strip_prefix("qname=")?)?).ok()?;
    Some(QSpec {
        rrset,
        qname,
        qtype: t[2].strip_prefix("qtype=")?.parse().ok()?,
        qclass: t[3].strip_prefix("qclass=")?.parse().ok()?,
        buf: t[4].strip_prefix("buf=")?.parse().ok()?,
        drop: ms_or_none(t[5].strip_prefix("drop=")?)?,
        udp: parse_script(t[6].strip_prefix("udp=")?)?,
        tcp: parse_script(t[7].strip_prefix("tcp=")?)?,
    })
}

// ------------------------------------------------------------------------------------------------
// scripted server
// ------------------------------------------------------------------------------------------------

struct State {
    /// current Q index + 1 (0 = before the first Q: nothing is answered or logged)
    epoch: usize,
    q_start: Instant,
    udp_script: Script,
    tcp_script: Script,
    /// (datagram, ms since q_start) received during the current Q
    udp_log: Vec<(Vec<u8>, u64)>,
    /// everything read on each connection accepted during the current Q
    tcp_log: Vec<Vec<u8>>,
    /// announced lengths (first two bytes written) of the connections of the current Q
    tcp_announced: Vec<usize>,
    /// ID of the last query (UDP or TCP) seen during the current Q
    last_id: Option<u16>,
    /// `PPPP`
    prev_id: u16,
    /// largest UDP datagram sent so far (whole line: leftovers stay queued in the client's socket)
    max_udp_sent: usize,
    workers: Vec<JoinHandle<()>>,
}

struct Shared {
    stop: AtomicBool,
    /// 0 = normal, 1 = black hole requested, 2 = established, 3 = could not be established
    blackhole: std::sync::atomic::AtomicU8,
    /// the server's UDP socket (for `begin_q`: is anything still waiting to be read?)
    udp_fd: std::sync::atomic::AtomicI32,
    st: Mutex<State>,
}

impl Shared {
    fn active(&self, epoch: usize) -> bool {
        !self.stop.load(Ordering::SeqCst) && self.st.lock().unwrap().epoch == epoch
    }

    /// sleep `ms`, giving up early (false) when the Q is over or the server stops
    fn pause(&self, epoch: usize, ms: u64) -> bool {
        let deadline = Instant::now() + Duration::from_millis(ms);
        loop {
            if !self.active(epoch) {
                return false;
            }
            let now = Instant::now();
            if now >= deadline {
                return true;
            }
            std::thread::sleep((deadline - now).min(Duration::from_millis(5)));
        }
    }
}

struct QLog {
    udp: Vec<(Vec<u8>, u64)>,
    tcp: Vec<Vec<u8>>,
    tcp_announced: Vec<usize>,
    max_udp_sent: usize,
}

struct Server {
    sh: Arc<Shared>,
    addr: SocketAddr,
    threads: Vec<JoinHandle<()>>,
}

fn bind_pair() -> (TcpListener, UdpSocket, SocketAddr) {
    let mut last = None;
    for _ in 0..200 {
        let l = match TcpListener::bind("127.0.0.1:0") {
            Ok(l) => l,
            Err(e) => {
                last = Some(e);
                continue;
            }
        };
        let addr = l.local_addr().unwrap();
        match UdpSocket::bind(addr) {
            Ok(u) => return (l, u, addr),
            Err(e) => last = Some(e),
        }
    }
    panic!("harness: cannot bind server sockets: {:?}", last);
}

fn is_timeout(e: &std::io::Error) -> bool {
    matches!(e.kind(), ErrorKind::WouldBlock | ErrorKind::TimedOut | ErrorKind::Interrupted)
}

fn run_udp_items(
    sh: &Shared,
    sock: &UdpSocket,
    to: SocketAddr,
    epoch: usize,
    id: u16,
    prev: u16,
    items: &[Item],
) {
    for it in items {
        match it {
            Item::Tmpl(_) | Item::Zero => {
                let bytes = match it {
                    Item::Tmpl(t) => match subst(t, id, prev) {
                        Some(b) => b,
                        None => continue,
                    },
                    _ => Vec::new(),
                };
                {
                    let mut st = sh.st.lock().unwrap();
                    if st.epoch != epoch || sh.stop.load(Ordering::SeqCst) {
                        return;
                    }
                    st.max_udp_sent = st.max_udp_sent.max(bytes.len());
                }
                let _ = sock.send_to(&bytes, to);
            }
            Item::Pause(ms) => {
                if !sh.pause(epoch, *ms) {
                    return;
                }
            }
            Item::Close | Item::Hold | Item::BlackHole => {}
        }
    }
}

fn udp_thread(sh: Arc<Shared>, sock: UdpSocket) {
    let mut buf = vec![0u8; 65536];
    loop {
        if sh.stop.load(Ordering::SeqCst) {
            break;
        }
        let (n, from) = match sock.recv_from(&mut buf) {
            Ok(v) => v,
            Err(_) => continue,
        };
        if sh.stop.load(Ordering::SeqCst) {
            break;
        }
        let dgram = buf[..n].to_vec();
        let id = if n >= 2 {
            u16::from_be_bytes([dgram[0], dgram[1]])
        } else {
            0
        };
        let (epoch, prev, items) = {
            let mut st = sh.st.lock().unwrap();
            if st.epoch == 0 {
                continue;
            }
            let k = st.udp_log.len();
            let ms = st.q_start.elapsed().as_millis() as u64;
            st.udp_log.push((dgram, ms));
            st.last_id = Some(id);
            let items = st.udp_script.get(k).cloned().unwrap_or_default();
            (st.epoch, st.prev_id, items)
        };
        if items.iter().any(|i| matches!(i, Item::Pause(_))) {
            // an entry with pauses runs on its own thread: its timeline is relative to the arrival of
            // its datagram and later datagrams are still logged when they arrive
            if let Ok(s2) = sock.try_clone() {
                let sh2 = sh.clone();
                let h = std::thread::spawn(move || {
                    run_udp_items(&sh2, &s2, from, epoch, id, prev, &items)
                });
                sh.st.lock().unwrap().workers.push(h);
            }
        } else {
            run_udp_items(&sh, &sock, from, epoch, id, prev, &items);
        }
    }
}

/// read until the client closes (true) or `max` passes / the Q ends (false); bytes read are logged
fn wait_client_close(
    sh: &Shared,
    s: &mut TcpStream,
    epoch: usize,
    idx: usize,
    max: Duration,
) -> bool {
    let deadline = Instant::now() + max;
    let mut tmp = [0u8; 512];
    loop {
        if !sh.active(epoch) || Instant::now() >= deadline {
            return false;
        }
        match s.read(&mut tmp) {
            Ok(0) => return true,
            Ok(n) => {
                let mut st = sh.st.lock().unwrap();
                if st.epoch == epoch {
                    st.tcp_log[idx].extend_from_slice(&tmp[..n]);
                }
            }
            Err(e) if is_timeout(&e) => {}
            Err(_) => return true,
        }
    }
}

fn handle_conn(sh: Arc<Shared>, mut s: TcpStream, epoch: usize, idx: usize, items: Vec<Item>, prev: u16) {
    let _ = s.set_nonblocking(false);
    let _ = s.set_read_timeout(Some(Duration::from_millis(20)));
    let _ = s.set_write_timeout(Some(Duration::from_millis(1000)));
    let _ = s.set_nodelay(true);

    // the whole query: 2-byte length prefix + that many bytes
    let deadline = Instant::now() + Duration::from_secs(2);
    let mut q: Vec<u8> = Vec::new();
    let mut complete = false;
    let mut gone = false;
    loop {
        let need = if q.len() < 2 {
            2
        } else {
            2 + u16::from_be_bytes([q[0], q[1]]) as usize
        };
        if q.len() >= 2 && q.len() >= need {
            complete = true;
            break;
        }
        if !sh.active(epoch) || Instant::now() >= deadline {
            break;
        }
        let mut tmp = vec![0u8; need - q.len()];
        match s.read(&mut tmp) {
            Ok(0) => {
                gone = true;
                break;
            }
            Ok(n) => q.extend_from_slice(&tmp[..n]),
            Err(e) if is_timeout(&e) => {}
            Err(_) => {
                gone = true;
                break;
            }
        }
    }
    let id = if q.len() >= 4 {
        u16::from_be_bytes([q[2], q[3]])
    } else {
        0
    };
    {
        let mut st = sh.st.lock().unwrap();
        if st.epoch == epoch {
            st.tcp_log[idx] = q.clone();
            if q.len() >= 4 {
                st.last_id = Some(id);
            }
        }
    }
    if !complete || gone {
        return;
    }

    let mut first_two: Vec<u8> = Vec::new();
    for it in &items {
        if !sh.active(epoch) {
            return;
        }
        match it {
            Item::Tmpl(t) => {
                let bytes = match subst(t, id, prev) {
                    Some(b) => b,
                    None => continue,
                };
                if first_two.len() < 2 {
                    let take = (2 - first_two.len()).min(bytes.len());
                    first_two.extend_from_slice(&bytes[..take]);
                    if first_two.len() == 2 {
                        let n = u16::from_be_bytes([first_two[0], first_two[1]]) as usize;
                        let mut st = sh.st.lock().unwrap();
                        if st.epoch == epoch {
                            st.tcp_announced.push(n);
                        }
                    }
                }
                if s.write_all(&bytes).is_err() {
                    return;
                }
                std::thread::sleep(Duration::from_millis(3));
            }
            Item::Zero => {}
            Item::Pause(ms) => {
                if !sh.pause(epoch, *ms) {
                    return;
                }
            }
            Item::Close => {
                let _ = s.shutdown(Shutdown::Both);
                return;
            }
            Item::Hold | Item::BlackHole => {
                if wait_client_close(&sh, &mut s, epoch, idx, Duration::from_secs(3)) {
                    return;
                }
            }
        }
    }
    wait_client_close(&sh, &mut s, epoch, idx, Duration::from_secs(1));
}

fn tcp_thread(sh: Arc<Shared>, l: TcpListener) {
    let _ = l.set_nonblocking(true);
    let mut parked: Vec<TcpStream> = Vec::new();
    loop {
        if sh.stop.load(Ordering::SeqCst) {
            break;
        }
        match sh.blackhole.load(Ordering::SeqCst) {
            1 => {
                // shrink the accept queue to its minimum, fill it, and check that a further
                // connection attempt really gets no answer
                let addr = l.local_addr().unwrap();
                unsafe {
                    libc::listen(l.as_raw_fd(), 0);
                }
                for _ in 0..2 {
                    if let Ok(s) = TcpStream::connect_timeout(&addr, Duration::from_millis(200)) {
                        parked.push(s);
                    }
                }
                let real = TcpStream::connect_timeout(&addr, Duration::from_millis(250)).is_err();
                sh.blackhole.store(if real { 2 } else { 3 }, Ordering::SeqCst);
                continue;
            }
            2 | 3 => {
                std::thread::sleep(Duration::from_millis(5));
                continue;
            }
            _ => {}
        }
        match l.accept() {
            Ok((s, _)) => {
                if sh.stop.load(Ordering::SeqCst) {
                    break;
                }
                let mut st = sh.st.lock().unwrap();
                if st.epoch == 0 {
                    continue;
                }
                let idx = st.tcp_log.len();
                st.tcp_log.push(Vec::new());
                // nothing scripted: read the query, then close
                let items = st.tcp_script.get(idx).cloned().unwrap_or_else(|| vec![Item::Close]);
                let (epoch, prev) = (st.epoch, st.prev_id);
                let sh2 = sh.clone();
                let h = std::thread::spawn(move || handle_conn(sh2, s, epoch, idx, items, prev));
                st.workers.push(h);
            }
            Err(e) if e.kind() == ErrorKind::WouldBlock => {
                let mut pfd = libc::pollfd {
                    fd: l.as_raw_fd(),
                    events: libc::POLLIN,
                    revents: 0,
                };
                unsafe {
                    libc::poll(&mut pfd, 1, 20);
                }
            }
            Err(_) => std::thread::sleep(Duration::from_millis(1)),
        }
    }
}

impl Server {
    fn start() -> Server {
        let (l, u, addr) = bind_pair();
        u.set_read_timeout(Some(Duration::from_millis(20))).unwrap();
        let sh = Arc::new(Shared {
            stop: AtomicBool::new(false),
            blackhole: std::sync::atomic::AtomicU8::new(0),
            udp_fd: std::sync::atomic::AtomicI32::new(u.as_raw_fd()),
            st: Mutex::new(State {
                epoch: 0,
                q_start: Instant::now(),
                udp_script: Vec::new(),
                tcp_script: Vec::new(),
                udp_log: Vec::new(),
                tcp_log: Vec::new(),
                tcp_announced: Vec::new(),
                last_id: None,
                prev_id: 0,
                max_udp_sent: 0,
                workers: Vec::new(),
            }),
        });
        let mut threads = Vec::new();
        {
            let sh = sh.clone();
            threads.push(std::thread::spawn(move || udp_thread(sh, u)));
        }
        {
            let sh = sh.clone();
            threads.push(std::thread::spawn(move || tcp_thread(sh, l)));
        }
        Server { sh, addr, threads }
    }

    /// script switch: the next Q starts now
    fn begin_q(&self, q: &QSpec) {
        // what the previous query sent belongs to the previous query: on a starved machine the server
        // thread may not have read it yet — wait (up to 300 ms) until its socket is drained
        let fd = self.sh.udp_fd.load(Ordering::SeqCst);
        for _ in 0..150 {
            let mut pfd = libc::pollfd {
                fd,
                events: libc::POLLIN,
                revents: 0,
            };
            let n = unsafe { libc::poll(&mut pfd, 1, 0) };
            if n <= 0 || pfd.revents & libc::POLLIN == 0 {
                break;
            }
            std::thread::sleep(Duration::from_millis(2));
        }
        let mut st = self.sh.st.lock().unwrap();
        st.epoch += 1;
        st.prev_id = st.last_id.take().unwrap_or(0);
        st.udp_script = q.udp.clone();
        st.tcp_script = q.tcp.clone();
        st.udp_log.clear();
        st.tcp_log.clear();
        st.tcp_announced.clear();
        st.q_start = Instant::now();
    }

    fn end_q(&self) -> QLog {
        let st = self.sh.st.lock().unwrap();
        QLog {
            udp: st.udp_log.clone(),
            tcp: st.tcp_log.clone(),
            tcp_announced: st.tcp_announced.clone(),
            max_udp_sent: st.max_udp_sent,
        }
    }
}

impl Drop for Server {
    fn drop(&mut self) {
        self.sh.stop.store(true, Ordering::SeqCst);
        // wake the two listeners
        if let Ok(s) = UdpSocket::bind("127.0.0.1:0") {
            let _ = s.send_to(&[], self.addr);
        }
        let _ = TcpStream::connect_timeout(&self.addr, Duration::from_millis(50));
        for t in self.threads.drain(..) {
            let _ = t.join();
        }
        loop {
            let ws: Vec<JoinHandle<()>> = {
                let mut st = match self.sh.st.lock() {
                    Ok(g) => g,
                    Err(p) => p.into_inner(),
                };
                st.workers.drain(..).collect()
            };
            if ws.is_empty() {
                break;
            }
            for w in ws {
                let _ = w.join();
            }
        }
    }
}

// ------------------------------------------------------------------------------------------------
// running the history
// ------------------------------------------------------------------------------------------------

/// The configuration the header describes, built by one of several builder sequences that must all
/// give the same client: options before or after the name server, the name server given at
/// construction or set later (also on a configuration first made for a resolver of the other address
/// family, with the wildcard bind address following), explicit or wildcard bind address. Which sequence
/// is used is a function of the header tokens, so a request line replays exactly.
/// may this process bind a socket to the loopback device (`SO_BINDTODEVICE`, needs CAP_NET_RAW)?
fn bind_device_ok() -> bool {
    static OK: std::sync::OnceLock<bool> = std::sync::OnceLock::new();
    *OK.get_or_init(|| unsafe {
        let fd = libc::socket(libc::AF_INET, libc::SOCK_DGRAM, 0);
        if fd < 0 {
            return false;
        }
        let name = b"lo\0";
        let rc = libc::setsockopt(fd, libc::SOL_SOCKET, libc::SO_BINDTODEVICE, name.as_ptr() as *const _, 3);
        libc::close(fd);
        rc == 0
    })
}

fn build_cfg(h: &Hdr, addr: SocketAddr) -> ClientConfig {
    let c = build_cfg_base(h, addr);
    // rsdns' optional `socket2` feature: the tokio client builds its sockets by hand when a bind device
    // is configured (one case in three, where the process is allowed to)
    if h.rt == "tokio" && (h.order / 8) % 3 == 0 && bind_device_ok() {
        return c.set_bind_device(Some("lo")).expect("bind device lo");
    }
    c
}

fn build_cfg_base(h: &Hdr, addr: SocketAddr) -> ClientConfig {
    let opts = |c: ClientConfig, part: u8| -> ClientConfig {
        // part 0: strategy + EDNS + recursion, part 1: buffer size + timers
        if part == 0 {
            c.set_protocol_strategy(h.strat)
                .set_edns(match h.edns {
                    None => EDns::Off,
                    Some((version, udp_payload_size)) => EDns::On {
                        version,
                        udp_payload_size,
                    },
                })
                .set_recursion(if h.rd { Recursion::On } else { Recursion::Off })
        } else {
            c.set_buffer_size(h.cfgbuf)
                .set_query_timeout(h.qt.map(Duration::from_millis))
                .set_query_lifetime(Duration::from_millis(h.lt))
        }
    };
    let local: SocketAddr = "127.0.0.1:0".parse().unwrap();
    let v6: SocketAddr = "[2001:db8::53]:53".parse().unwrap();
    let other4: SocketAddr = "192.0.2.53:53".parse().unwrap();
    match h.order % 8 {
        0 | 1 => opts(opts(ClientConfig::with_nameserver(addr).set_bind_addr(local), 0), 1),
        2 => opts(opts(ClientConfig::with_nameserver(addr), 1), 0),
        3 => opts(opts(ClientConfig::new(), 0), 1).set_nameserver(addr),
        4 => opts(opts(ClientConfig::with_nameserver(v6), 0), 1).set_nameserver(addr),
        5 => opts(opts(ClientConfig::with_nameserver(v6), 0).set_nameserver(addr), 1),
        6 => opts(opts(ClientConfig::with_nameserver(other4), 1), 0).set_nameserver(addr).set_bind_addr(local),
        _ => opts(opts(ClientConfig::with_nameserver(v6).set_bind_addr(local), 0), 1).set_nameserver(addr),
    }
}

fn show_raw(r: &Option<rsdns::Result<usize>>, buf: &[u8]) -> (String, usize) {
    match r {
        None => ("dropped".to_string(), 0),
        Some(Ok(n)) => {
            let m = (*n).min(buf.len());
            (format!("ok:{}:{}", n, to_hex(&buf[..m])), m)
        }
        Some(Err(e)) => (format!("err:{}", show_err(e)), 0),
    }
}

fn show_rrset(r: &Option<rsdns::Result<RecordSet<A>>>) -> String {
    match r {
        None => "dropped".to_string(),
        Some(Ok(rs)) => {
            let addrs: Vec<String> = rs.rdata.iter().map(|a| a.address.to_string()).collect();
            format!(
                "ok:rrset:{}:{}:{}:{}",
                to_hex(rs.name.as_str().as_bytes()),
                rs.rclass.value(),
                rs.ttl,
                addrs.join(",")
            )
        }
        Some(Err(e)) => format!("err:{}", show_err(e)),
    }
}

/// `buf` = Some((caller buffer after the call, len of an ok result)) for api=raw
fn group(res: &str, log: &QLog, buf: Option<(&[u8], usize)>, ms: u128) -> String {
    let nudp = log.udp.len();
    let udp0 = match log.udp.first() {
        Some((d, _)) => {
            let mut d = d.clone();
            for b in d.iter_mut().take(2) {
                *b = 0;
            }
            to_hex(&d)
        }
        None => "-".to_string(),
    };
    let udpsame = log.udp.windows(2).all(|w| w[0].0 == w[1].0);
    let tcp0 = match log.tcp.first() {
        Some(d) => {
            let mut d = d.clone();
            for b in d.iter_mut().skip(2).take(2) {
                *b = 0;
            }
            to_hex(&d)
        }
        None => "-".to_string(),
    };
    let tail = match buf {
        None => true,
        Some((b, len)) => {
            let mut m = len.max(log.max_udp_sent.min(b.len()));
            for a in &log.tcp_announced {
                if *a <= b.len() {
                    m = m.max(*a);
                }
            }
            b[m..].iter().all(|x| *x == 0xEE)
        }
    };
    let t = if log.udp.is_empty() {
        "-".to_string()
    } else {
        log.udp
            .iter()
            .map(|(_, ms)| ms.to_string())
            .collect::<Vec<_>>()
            .join(",")
    };
    format!(
        "res={} nudp={} udp0={} udpsame={} ntcp={} tcp0={} tail={} ms={} t={}",
        res,
        nudp,
        udp0,
        udpsame as u8,
        log.tcp.len(),
        tcp0,
        tail as u8,
        ms,
        t
    )
}

/// answer groups when `Client::new` itself fails: nothing was sent
fn all_failed(qs: &[QSpec], e: &rsdns::Error) -> Vec<String> {
    let log = QLog {
        udp: Vec::new(),
        tcp: Vec::new(),
        tcp_announced: Vec::new(),
        max_udp_sent: 0,
    };
    qs.iter()
        .map(|_| group(&format!("err:{}", show_err(e)), &log, None, 0))
        .collect()
}

macro_rules! aw {
    (sync, $e:expr) => {
        $e
    };
    (asyn, $e:expr) => {
        $e.await
    };
}

/// the call, raced against the `drop=` sleep on async runtimes
macro_rules! race {
    (sync, $call:expr, $drop:expr, $sleep:expr) => {
        Some($call)
    };
    (asyn, $call:expr, $drop:expr, $sleep:expr) => {
        match $drop {
            None => Some($call.await),
            Some(ms) => {
                smol::future::or(async { Some($call.await) }, async {
                    let _ = $sleep(Duration::from_millis(ms)).await;
                    None
                })
                .await
            }
        }
    };
}

/// one client object, all Qs of the line in order; evaluates to `Vec<String>` (one group per Q)
macro_rules! history {
    ($mode:ident, $client:ty, $sleep:expr, $cfg:expr, $qs:expr, $srv:expr) => {{
        let qs: &[QSpec] = $qs;
        let srv: &Server = $srv;
        match aw!($mode, <$client>::new($cfg)) {
            Err(e) => all_failed(qs, &e),
            Ok(mut client) => {
                let mut out: Vec<String> = Vec::new();
                for q in qs {
                    if q.rrset {
                        srv.begin_q(q);
                        let t0 = Instant::now();
                        let r: Option<rsdns::Result<RecordSet<A>>> = race!(
                            $mode,
                            client.query_rrset::<A>(&q.qname, Class::from(q.qclass)),
                            q.drop,
                            $sleep
                        );
                        let ms = t0.elapsed().as_millis();
                        std::thread::sleep(Duration::from_millis(5));
                        let log = srv.end_q();
                        out.push(group(&show_rrset(&r), &log, None, ms));
                    } else {
                        let mut g = Guarded::new(&vec![0xEEu8; q.buf], true);
                        srv.begin_q(q);
                        let t0 = Instant::now();
                        let r: Option<rsdns::Result<usize>> = {
                            let buf = g.as_mut_slice();
                            race!(
                                $mode,
                                client.query_raw(
                                    &q.qname,
                                    Type::from(q.qtype),
                                    Class::from(q.qclass),
                                    buf
                                ),
                                q.drop,
                                $sleep
                            )
                        };
                        let ms = t0.elapsed().as_millis();
                        std::thread::sleep(Duration::from_millis(5));
                        let log = srv.end_q();
                        let (res, len) = show_raw(&r, g.as_slice());
                        out.push(group(&res, &log, Some((g.as_slice(), len)), ms));
                    }
                }
                drop(client);
                out
            }
        }
    }};
}

pub fn eval(toks: &[&str]) -> String {
    // split at the first `api=` token, then at `|`
    let first_q = match toks.iter().position(|t| t.starts_with("api=")) {
        Some(p) => p,
        None => return "bad-request".into(),
    };
    if first_q < 1 {
        return "bad-request".into();
    }
    let hdr = match parse_hdr(&toks[1..first_q]) {
        Some(h) => h,
        None => return "bad-request".into(),
    };
    let mut qs = Vec::new();
    for part in toks[first_q..].split(|t| *t == "|") {
        match parse_q(part) {
            Some(q) => qs.push(q),
            None => return "bad-request".into(),
        }
    }

    let srv = Server::start();
    // a line whose first TCP script starts with `b` runs against a host that drops SYNs
    let wants_blackhole = qs.iter().any(|q| matches!(q.tcp.first().and_then(|e| e.first()), Some(Item::BlackHole)));
    if wants_blackhole {
        srv.sh.blackhole.store(1, Ordering::SeqCst);
        let t0 = Instant::now();
        while srv.sh.blackhole.load(Ordering::SeqCst) == 1 && t0.elapsed() < Duration::from_secs(3) {
            std::thread::sleep(Duration::from_millis(2));
        }
        if srv.sh.blackhole.load(Ordering::SeqCst) != 2 {
            // this environment does not let the accept queue overflow silently: the case says nothing
            drop(srv);
            return "blackhole-unavailable".into();
        }
    }
    let cfg = build_cfg(&hdr, srv.addr);
    let groups: Vec<String> = match hdr.rt.as_str() {
        "std" => history!(sync, rsdns::clients::std::Client, (), cfg, &qs, &srv),
        "tokio" => {
            let rt = tokio::runtime::Builder::new_current_thread()
                .enable_io()
                .enable_time()
                .build()
                .expect("tokio runtime");
            rt.block_on(async {
                history!(asyn, rsdns::clients::tokio::Client, tokio::time::sleep, cfg, &qs, &srv)
            })
        }
        "asyncstd" => async_std::task::block_on(async {
            history!(
                asyn,
                rsdns::clients::async_std::Client,
                async_std::task::sleep,
                cfg,
                &qs,
                &srv
            )
        }),
        "smol" => smol::block_on(async {
            history!(asyn, rsdns::clients::smol::Client, smol::Timer::after, cfg, &qs, &srv)
        }),
        _ => return "bad-request".into(),
    };
    drop(srv);
    groups.join(" | ")
}

// ------------------------------------------------------------------------------------------------
// generators
// ------------------------------------------------------------------------------------------------

const RTS: [&str; 4] = ["std", "tokio", "asyncstd", "smol"];
const CODES: [u16; 11] = [0, 1, 2, 5, 15, 16, 28, 41, 255, 256, 65535];
const LABEL_CHARS: &[u8] = b"abcdefghijklmnopqrstuvwxyzABCDEFGHIJKLMNOPQRSTUVWXYZ0123456789-_";

fn hx(b: &[u8]) -> String {
    let mut s = String::with_capacity(b.len() * 2);
    for x in b {
        s.push_str(&format!("{:02x}", x));
    }
    s
}

fn rand_bytes(r: &mut Rng, n: usize) -> Vec<u8> {
    (0..n).map(|_| r.byte()).collect()
}

fn valid_label(r: &mut Rng, len: usize) -> String {
    let mut l = String::with_capacity(len);
    for i in 0..len {
        let mut c = *r.pick(LABEL_CHARS);
        if (i == 0 || i + 1 == len) && c == b'-' {
            c = b'x';
        }
        l.push(c as char);
    }
    l
}

/// labels joined by dots with a total text length of exactly `content` (no trailing dot)
fn name_of_len(r: &mut Rng, content: usize) -> String {
    let mut labels: Vec<String> = Vec::new();
    let mut left = content;
    loop {
        if left <= 63 {
            labels.push(valid_label(r, left));
            break;
        }
        // leave room for the dot and at least one more character
        let max = (left - 2).min(63);
        let take = if max >= 50 { r.range(50, max as u64) as usize } else { max };
        labels.push(valid_label(r, take));
        left -= take + 1;
    }
    labels.join(".")
}

/// a valid query name: 1-4 labels of 1..63 characters, with or without the trailing dot; the root;
/// or a name of total text length 250..255 (the ones with more than 253 characters before the
/// optional trailing dot exceed the 255-octet wire limit and are rejected by the client)
fn valid_qname(r: &mut Rng) -> String {
    match r.below(12) {
        0 => ".".to_string(),
        1 | 2 => {
            let total = r.range(250, 255) as usize;
            let dot = r.chance(1, 2);
            let mut n = name_of_len(r, total - dot as usize);
            if dot {
                n.push('.');
            }
            n
        }
        _ => plain_qname(r),
    }
}

/// 1-4 labels, short ones mostly, valid, at most 140 characters
fn plain_qname(r: &mut Rng) -> String {
    let n = r.range(1, 4);
    let mut labels = Vec::new();
    for _ in 0..n {
        let len = match r.below(10) {
            0 => 63,
            1 => r.range(1, 63) as usize,
            _ => r.range(1, 12) as usize,
        };
        labels.push(valid_label(r, len));
    }
    let mut s = labels.join(".");
    if r.chance(1, 3) {
        s.push('.');
    }
    s
}

/// a query name with letters in it and nothing exotic (for the decoy / history families)
fn simple_qname(r: &mut Rng) -> String {
    let n = r.range(1, 3);
    let mut labels = Vec::new();
    for _ in 0..n {
        let len = r.range(1, 10) as usize;
        let mut l = valid_label(r, len);
        l.insert(0, *r.pick(b"abcdefghijkmnopqrstuvw") as char);
        labels.push(l);
    }
    let mut s = labels.join(".");
    if r.chance(1, 4) {
        s.push('.');
    }
    s
}

fn invalid_qname(r: &mut Rng) -> String {
    match r.below(13) {
        0 => String::new(),
        11 | 12 => {
            // an otherwise valid name with white space in front of it or behind it
            let base = plain_qname(r);
            let ws = *r.pick(&[" ", "\n", "\t", "\r\n", "\u{3000}", "\u{a0}", "  "]);
            match r.below(3) {
                0 => format!("{}{}", ws, base),
                1 => format!("{}{}", base, ws),
                _ => format!("{}{}{}", ws, base, ws),
            }
        }
        1 => r.pick(&["a..b", "..", ".a", "a..", "a.b..", "x..y.z"]).to_string(),
        2 => {
            let a = valid_label(r, 64);
            let n = r.range(1, 5) as usize;
            let b = valid_label(r, n);
            if r.chance(1, 2) {
                format!("{}.{}", a, b)
            } else {
                format!("{}.{}", b, a)
            }
        }
        3 => {
            let n = r.range(0, 5) as usize;
            format!("-{}.com", valid_label(r, n))
        }
        4 => {
            let n = r.range(0, 5) as usize;
            format!("www.{}-", valid_label(r, n))
        }
        5 => {
            let n = r.range(0, 4) as usize;
            format!("{}\u{e9}{}.org", valid_label(r, n), valid_label(r, n))
        }
        6 => {
            let n = r.range(1, 4) as usize;
            format!("{} {}.org", valid_label(r, n), valid_label(r, n))
        }
        7 => {
            let n = r.range(1, 4) as usize;
            let c = *r.pick(&['\t', '\0', '/', '@', '*', '\u{7f}', '!']);
            format!("{}{}{}", valid_label(r, n), c, valid_label(r, n))
        }
        _ => {
            // too long in total, all labels fine
            let total = r.range(254, 260) as usize;
            let dot = r.chance(1, 2);
            let mut n = name_of_len(r, total);
            if dot {
                n.push('.');
            }
            n
        }
    }
}

/// wire form of the text name, label by label (robust: works for any text)
fn enc_name(name: &str, flip_case: bool) -> Vec<u8> {
    let mut out = Vec::new();
    for l in name.as_bytes().split(|b| *b == b'.') {
        if l.is_empty() {
            continue;
        }
        let l = &l[..l.len().min(63)];
        out.push(l.len() as u8);
        for b in l {
            out.push(if flip_case && b.is_ascii_alphabetic() { b ^ 0x20 } else { *b });
        }
    }
    out.push(0);
    out
}

/// a decoy name must be another name on the wire as well (labels are cut at 63 octets by `enc_name`,
/// case does not count): otherwise the "decoy" is the asked question
fn other_name(candidate: String, asked: &str) -> String {
    let (a, b) = (enc_name(&candidate, false), enc_name(asked, false));
    if a.eq_ignore_ascii_case(&b) {
        "not-the-asked-name.invalid".to_string()
    } else {
        candidate
    }
}

#[derive(Clone)]
struct Qd {
    qname: String,
    qtype: u16,
    qclass: u16,
}

impl Qd {
    fn question(&self, flip_case: bool) -> Vec<u8> {
        let mut q = enc_name(&self.qname, flip_case);
        q.extend_from_slice(&self.qtype.to_be_bytes());
        q.extend_from_slice(&self.qclass.to_be_bytes());
        q
    }
}

/// bytes 2.. of a message: flags, counts, question bytes, the rest
fn msg_tail(flags: u16, qd: u16, an: u16, question: &[u8], rest: &[u8]) -> Vec<u8> {
    let mut m = Vec::new();
    m.extend_from_slice(&flags.to_be_bytes());
    m.extend_from_slice(&qd.to_be_bytes());
    m.extend_from_slice(&an.to_be_bytes());
    m.extend_from_slice(&[0, 0, 0, 0]);
    m.extend_from_slice(question);
    m.extend_from_slice(rest);
    m
}

/// the matching response: `IIII 8180 0001 0000 0000 0000` + the question as asked
fn matching(q: &Qd) -> String {
    format!("IIII{}", hx(&msg_tail(0x8180, 1, 0, &q.question(false), &[])))
}

/// `n` A records for the name at offset 12
fn a_records(r: &mut Rng, n: usize) -> Vec<u8> {
    let mut out = Vec::new();
    for _ in 0..n {
        out.extend_from_slice(&[0xc0, 0x0c, 0, 1, 0, 1]);
        out.extend_from_slice(&(r.below(100_000) as u32).to_be_bytes());
        out.extend_from_slice(&[0, 4]);
        out.extend_from_slice(&rand_bytes(r, 4));
    }
    out
}

/// 2-byte length prefix + message (hex, with the ID placeholder in place)
fn tcp_framed(id: &str, tail: &[u8]) -> String {
    format!("{}{}{}", hx(&((tail.len() + 2) as u16).to_be_bytes()), id, hx(tail))
}

/// one datagram that the receive loop must skip
fn decoy(r: &mut Rng, q: &Qd, buf: usize) -> String {
    decoy_tc(r, q, buf, 1)
}

/// flags of a response: QR set, OPCODE 0, TC as asked, every other bit and the RCODE at random (a
/// truncated answer is truncated whatever its RCODE says)
fn resp_flags(r: &mut Rng, tc: bool) -> u16 {
    let mut fl: u16 = 0x8000;
    if tc {
        fl |= 0x0200;
    }
    for bit in [0x0400u16, 0x0100, 0x0080, 0x0040, 0x0020, 0x0010] {
        if r.chance(1, 2) {
            fl |= bit;
        }
    }
    fl | *r.pick(&[0u16, 0, 0, 1, 2, 3, 4, 5, 9, 15])
}

/// `tc4`/4 of the decoys carry the TC flag (a datagram that is skipped must not influence the
/// fallback decision either)
fn decoy_tc(r: &mut Rng, q: &Qd, buf: usize, tc4: u64) -> String {
    let tc = r.chance(tc4, 4);
    let fl: u16 = if r.chance(1, 2) { resp_flags(r, tc) } else if tc { 0x8380 } else { 0x8180 };
    let right = msg_tail(fl, 1, 0, &q.question(false), &[]);
    match r.below(14) {
        0 => {
            // too short
            let n = r.below(12) as usize;
            if n == 0 {
                "z".to_string()
            } else if n >= 2 && r.chance(1, 2) {
                format!("IIII{}", hx(&right[..n - 2]))
            } else {
                hx(&rand_bytes(r, n))
            }
        }
        1 => {
            let n = r.range(12, 40) as usize;
            hx(&rand_bytes(r, n))
        }
        2 => format!("JJJJ{}", hx(&right)),
        3 => {
            // another name
            let labels: Vec<&str> = q.qname.trim_end_matches('.').split('.').filter(|l| !l.is_empty()).collect();
            let other = if q.qname != "." && r.chance(1, 3) {
                // a name related to the asked one label-wise: its leading labels only, its trailing
                // labels only, or the root (which has no label to differ in)
                match r.below(3) {
                    0 if labels.len() > 1 => labels[..r.range(1, labels.len() as u64 - 1) as usize].join("."),
                    1 if labels.len() > 1 => labels[r.range(1, labels.len() as u64 - 1) as usize..].join("."),
                    _ => ".".to_string(),
                }
            } else if q.qname == "." || r.chance(1, 3) {
                simple_qname(r)
            } else {
                let mut b = q.qname.clone().into_bytes();
                b[0] = if b[0].eq_ignore_ascii_case(&b'x') { b'y' } else { b'x' };
                String::from_utf8(b).unwrap()
            };
            let o = Qd {
                qname: other_name(other, &q.qname),
                ..q.clone()
            };
            format!("IIII{}", hx(&msg_tail(fl, 1, 0, &o.question(false), &[])))
        }
        4 => {
            let o = Qd {
                qtype: match r.below(3) {
                    0 => q.qtype ^ 1,
                    1 => q.qtype.wrapping_add(256),
                    _ => q.qtype ^ 0x8000,
                },
                ..q.clone()
            };
            format!("IIII{}", hx(&msg_tail(fl, 1, 0, &o.question(false), &[])))
        }
        5 => {
            let o = Qd {
                qclass: match r.below(3) {
                    0 => q.qclass ^ 1,
                    1 => q.qclass.wrapping_add(256),
                    _ => q.qclass ^ 0x8000,
                },
                ..q.clone()
            };
            format!("IIII{}", hx(&msg_tail(fl, 1, 0, &o.question(false), &[])))
        }
        6 => {
            // QDCOUNT = 0, with or without question bytes behind the header
            let qb = if r.chance(1, 2) { q.question(false) } else { Vec::new() };
            format!("IIII{}", hx(&msg_tail(fl, 0, 0, &qb, &[])))
        }
        7 => {
            let mut qq = q.question(false);
            qq.extend_from_slice(&q.question(false));
            format!("IIII{}", hx(&msg_tail(fl, 2, 0, &qq, &[])))
        }
        8 => {
            // cut inside the question (name or fixed fields)
            let qlen = q.question(false).len();
            let keep = 10 + r.below(qlen as u64) as usize;
            format!("IIII{}", hx(&right[..keep]))
        }
        9 => {
            // longer than the caller's buffer, wrong ID
            let mut m = right.clone();
            let total = buf + r.range(1, 40) as usize;
            while m.len() + 2 < total {
                m.push(m.len() as u8);
            }
            format!("JJJJ{}", hx(&m))
        }
        10 => {
            // a query with another ID
            format!("JJJJ{}", hx(&msg_tail(0x0100, 1, 0, &q.question(false), &[])))
        }
        12 if q.qname.trim_end_matches('.').contains('.') => {
            // right ID, type and class; the wire name has ONE label that contains a literal dot and
            // spells two adjacent labels of the asked name (`www.example` + `com`): joined with dots
            // its text reads like the asked name, but it is another name (and not a valid one)
            let labels: Vec<&str> = q.qname.trim_end_matches('.').split('.').collect();
            let k = r.below(labels.len() as u64 - 1) as usize;
            let mut qb: Vec<u8> = Vec::new();
            let mut i = 0;
            while i < labels.len() {
                let l = if i == k {
                    i += 1;
                    format!("{}.{}", labels[k], labels[k + 1])
                } else {
                    labels[i].to_string()
                };
                i += 1;
                qb.push(l.len() as u8);
                qb.extend_from_slice(l.as_bytes());
            }
            qb.push(0);
            qb.extend_from_slice(&q.qtype.to_be_bytes());
            qb.extend_from_slice(&q.qclass.to_be_bytes());
            format!("IIII{}", hx(&msg_tail(fl, 1, 0, &qb, &[])))
        }
        11 => {
            // right ID, question name is a pointer to itself / forward
            let mut qb = vec![0xc0, *r.pick(&[0x0c, 0x0d, 0x10, 0xff])];
            qb.extend_from_slice(&q.qtype.to_be_bytes());
            qb.extend_from_slice(&q.qclass.to_be_bytes());
            format!("IIII{}", hx(&msg_tail(fl, 1, 0, &qb, &[])))
        }
        _ if r.chance(1, 3) && q.qname != "." => {
            // right ID, the asked name is a proper textual prefix of the question name:
            // the last label continues (`example.com` -> `example.community`) or more labels follow
            let base = q.qname.trim_end_matches('.').to_string();
            let other = match r.below(3) {
                0 => format!("{}x", base),
                1 => format!("{}munity.", base),
                _ => format!("{}.attacker.net", base),
            };
            let o = Qd {
                qname: other_name(other, &q.qname),
                ..q.clone()
            };
            format!("IIII{}", hx(&msg_tail(fl, 1, 0, &o.question(false), &[])))
        }
        _ => {
            // right ID, one label fewer / one more
            let other = if r.chance(1, 2) || q.qname == "." {
                format!("a.{}", q.qname)
            } else {
                match q.qname.split_once('.') {
                    Some((_, rest)) if !rest.is_empty() => rest.to_string(),
                    _ => format!("b.{}", q.qname),
                }
            };
            let o = Qd {
                qname: other_name(other, &q.qname),
                ..q.clone()
            };
            format!("IIII{}", hx(&msg_tail(fl, 1, 0, &o.question(false), &[])))
        }
    }
}

struct GHdr {
    rt: &'static str,
    rd: u8,
    edns: String,
    strat: &'static str,
    cfgbuf: usize,
    qt: Option<u64>,
    lt: u64,
}

struct GQ {
    api: &'static str,
    q: Qd,
    buf: usize,
    drop: Option<u64>,
    /// entries of items
    udp: Vec<Vec<String>>,
    tcp: Vec<Vec<String>>,
}

fn script(entries: &[Vec<String>]) -> String {
    if entries.is_empty() {
        return "-".to_string();
    }
    entries
        .iter()
        .map(|e| if e.is_empty() { ".".to_string() } else { e.join(",") })
        .collect::<Vec<_>>()
        .join(";")
}

fn opt_ms(v: Option<u64>) -> String {
    match v {
        Some(v) => v.to_string(),
        None => "none".to_string(),
    }
}

fn line(h: &GHdr, qs: &[GQ]) -> String {
    let mut s = format!(
        "client rt={} rd={} edns={} strat={} cfgbuf={} qt={} lt={}",
        h.rt,
        h.rd,
        h.edns,
        h.strat,
        h.cfgbuf,
        opt_ms(h.qt),
        h.lt
    );
    for (i, q) in qs.iter().enumerate() {
        if i > 0 {
            s.push_str(" |");
        }
        s.push_str(&format!(
            " api={} qname={} qtype={} qclass={} buf={} drop={} udp={} tcp={}",
            q.api,
            to_hex(q.q.qname.as_bytes()),
            q.q.qtype,
            q.q.qclass,
            q.buf,
            opt_ms(q.drop),
            script(&q.udp),
            script(&q.tcp)
        ));
    }
    s
}

fn code(r: &mut Rng) -> u16 {
    if r.chance(1, 4) {
        r.next() as u16
    } else {
        *r.pick(&CODES)
    }
}

fn rt_of(index: u64) -> &'static str {
    RTS[(index % 4) as usize]
}

/// c11 — what is sent on the wire. One Q, api=raw, the server answers the first query with the
/// matching response (over UDP for strat udp/notcp, over TCP with a length prefix for strat tcp).
/// Varied: runtime (index mod 4), query name (valid names incl. the root, trailing dot, 63-octet
/// labels and total lengths around the 255-octet limit; one case in five an invalid name: empty,
/// empty label, 64-character label, leading / trailing hyphen, non-ASCII, space and other forbidden
/// characters, too long), qtype / qclass (boundary codes + random), RD, EDNS (off / version x
/// payload size), caller buffer size, protocol strategy. `cfgbuf` is 65535 mostly, sometimes 0 or
/// smaller than the EDNS payload size (then `Client::new` fails with `BadParam`).
fn gen_c11(r: &mut Rng, index: u64) -> String {
    let qname = if r.chance(1, 5) { invalid_qname(r) } else { valid_qname(r) };
    let q = Qd {
        qname,
        qtype: code(r),
        qclass: code(r),
    };
    let edns = if r.chance(1, 3) {
        "off".to_string()
    } else {
        format!("{}:{}", r.pick(&[0u8, 1, 255]), r.pick(&[512u16, 1232, 4096, 65535]))
    };
    let buf = *r.pick(&[512usize, 513, 1231, 1232, 4096, 65535, 65536, 66000, 70000, 131672]);
    let strat = *r.pick(&["udp", "notcp", "tcp"]);
    let cfgbuf = match r.below(10) {
        0 => 0,
        1 | 2 => *r.pick(&[512usize, 1232, 4096]),
        _ => 65535,
    };
    let h = GHdr {
        rt: rt_of(index),
        rd: r.below(2) as u8,
        edns,
        strat,
        cfgbuf,
        qt: Some(400),
        lt: 1500,
    };
    let tail = msg_tail(0x8180, 1, 0, &q.question(false), &[]);
    let (udp, tcp) = if strat == "tcp" {
        (vec![], vec![vec![tcp_framed("IIII", &tail)]])
    } else {
        (vec![vec![matching(&q)]], vec![])
    };
    line(
        &h,
        &[GQ {
            api: "raw",
            q,
            buf,
            drop: None,
            udp,
            tcp,
        }],
    )
}

fn plain_hdr(r: &mut Rng, index: u64, strat: &'static str) -> GHdr {
    GHdr {
        rt: rt_of(index),
        rd: if r.chance(1, 4) { 0 } else { 1 },
        edns: if r.chance(1, 2) { "off".to_string() } else { "0:1232".to_string() },
        strat,
        cfgbuf: 65535,
        qt: Some(400),
        lt: 1500,
    }
}

fn plain_q(r: &mut Rng) -> Qd {
    Qd {
        qname: match r.below(16) {
            0 => ".".to_string(),
            1 | 2 => plain_qname(r),
            _ => simple_qname(r),
        },
        // data types, QTYPE-only codes (IXFR 251, AXFR 252, ANY 255), OPT's code and the ends of the range
        qtype: *r.pick(&[1u16, 1, 1, 2, 5, 15, 16, 28, 255, 252, 251, 41, 0, 65535]),
        qclass: *r.pick(&[1u16, 1, 1, 3, 255]),
    }
}

/// c12 — decoys. One Q, api=raw, strat=udp, valid name, qt=400 lt=1500. The reply to the first
/// query is 0..8 datagrams that the receive loop must skip (too short with / without the right ID,
/// random bytes, wrong ID, right ID with another name / qtype / qclass / label count, QDCOUNT 0 or
/// 2, truncated or self-pointing question, a query with another ID, an oversized datagram with
/// another ID) followed in 4 cases of 5 by a datagram that matches: the plain matching response,
/// the same with the letters' case flipped, a *query* (QR=0) with the right ID and question, or a
/// matching response padded beyond the caller's buffer (returned truncated to `buf`). In the fifth
/// case the matching response is the reply to the second query (sent after `qt`).
fn gen_c12(r: &mut Rng, index: u64) -> String {
    let q = plain_q(r);
    let buf = *r.pick(&[512usize, 513, 1232, 4096]);
    // half of the cases with NoTcp: whatever datagram the receive loop accepts is handed out as is
    let strat12 = *r.pick(&["udp", "notcp"]);
    let h = plain_hdr(r, index, strat12);
    let n = r.below(9);
    let tc4 = if strat12 == "notcp" { 2 } else { 1 };
    let mut e0: Vec<String> = (0..n).map(|_| decoy_tc(r, &q, buf, tc4)).collect();
    let mut udp;
    if r.chance(1, 7) {
        // decoys arriving one millisecond apart while the first attempt's timeout expires: the expiry
        // is noticed right after a datagram was skipped, not by the socket. The query is re-sent and
        // the reply to the second transmission matches.
        let qt = h.qt.unwrap_or(400);
        let mut e0: Vec<String> = vec![format!("p{}", qt.saturating_sub(12))];
        for _ in 0..24 {
            e0.push(decoy_tc(r, &q, buf, tc4));
            e0.push("p1".to_string());
        }
        udp = vec![e0, vec![matching(&q)]];
    } else if r.chance(4, 5) {
        let fin = match r.below(10) {
            0 | 1 => format!("IIII{}", hx(&msg_tail(0x8180, 1, 0, &q.question(true), &[]))),
            2 => format!("IIII{}", hx(&msg_tail(0x0100, 1, 0, &q.question(false), &[]))),
            3 => {
                let mut m = msg_tail(0x8180, 1, 0, &q.question(false), &[]);
                let total = buf + r.range(1, 30) as usize;
                while m.len() + 2 < total {
                    m.push(m.len() as u8);
                }
                format!("IIII{}", hx(&m))
            }
            _ => matching(&q),
        };
        e0.push(fin);
        udp = vec![e0];
        if r.chance(1, 2) {
            // never reached
            udp.push(vec![matching(&q)]);
        }
    } else {
        udp = vec![e0, vec![matching(&q)]];
    }
    line(
        &h,
        &[GQ {
            api: "raw",
            q,
            buf,
            drop: None,
            udp,
            tcp: vec![],
        }],
    )
}

/// c13 — protocol strategy. One Q, api=raw, strat udp / tcp / notcp. The UDP reply to the first
/// query is 0..3 decoys + the matching response with TC set (flags 8380) or clear (8180); the TCP
/// script answers the first connection with the full response (flags 8180, one A record, so that
/// it differs from the UDP one). Expected: udp+TC -> the TCP answer after one datagram and one
/// connection; notcp+TC -> the truncated UDP answer, no connection; tcp -> no datagram at all.
fn gen_c13(r: &mut Rng, index: u64) -> String {
    let q = plain_q(r);
    let strat = *r.pick(&["udp", "udp", "tcp", "notcp"]);
    let h = plain_hdr(r, index, strat);
    let buf = *r.pick(&[512usize, 1232]);
    let n = r.below(4);
    let mut e0: Vec<String> = (0..n).map(|_| decoy_tc(r, &q, buf, 2)).collect();
    let tc = r.chance(2, 3);
    let flags = if r.chance(2, 3) { resp_flags(r, tc) } else if tc { 0x8380 } else { 0x8180 };
    // a truncated answer often keeps the counts of the full answer although the records were dropped
    let an = if tc && r.chance(1, 2) { *r.pick(&[1u16, 25, 300, 65535]) } else { 0 };
    e0.push(format!("IIII{}", hx(&msg_tail(flags, 1, an, &q.question(false), &[]))));
    let ans = a_records(r, 1);
    let tcp_tail = msg_tail(0x8180, 1, 1, &q.question(false), &ans);
    line(
        &h,
        &[GQ {
            api: "raw",
            q,
            buf,
            drop: None,
            udp: vec![e0],
            tcp: vec![if r.chance(1, 4) {
                // the TCP answer takes longer than a per-attempt UDP timeout (and far less than the
                // lifetime): the exchange that is under way must not be abandoned for a retransmission
                vec![format!("p{}", h.qt.unwrap_or(400) + 150), tcp_framed("IIII", &tcp_tail)]
            } else if r.chance(1, 2) {
                vec![tcp_framed("IIII", &tcp_tail)]
            } else {
                // the same answer in two segments with a pause in between (the cut lies behind the ID)
                let full = tcp_framed("IIII", &tcp_tail);
                let cut = 2 * r.range(4, full.len() as u64 / 2 - 1) as usize;
                vec![full[..cut].to_string(), "p30".to_string(), full[cut..].to_string()]
            }],
        }],
    )
}

/// hex of stream[a..b]; the ID (stream offsets 2,3) is the placeholder when the segment holds both
/// of its bytes and the literal `abcd` otherwise (TCP answers are not matched on the ID)
fn seg_hex(stream: &[u8], has_id: bool, a: usize, b: usize) -> String {
    let mut s = String::new();
    let mut i = a;
    while i < b {
        if has_id && i == 2 && b >= 4 {
            s.push_str("IIII");
            i += 2;
        } else {
            s.push_str(&format!("{:02x}", stream[i]));
            i += 1;
        }
    }
    s
}

/// c14 — TCP framing. One Q, api=raw, strat=tcp, caller buffer 512 / 600 / 1024. The server
/// announces a length N from {0,1,2,12,17,511,512,buf-1,buf,buf+1,1000,65535} and sends a body =
/// a valid response padded / truncated to N octets (at most 1100 of them are really sent). The
/// stream (prefix + body) is cut into 1..6 segments at random points, also inside the prefix and
/// with 1-octet segments, optionally with 20 ms pauses in between. Variants: everything sent, then
/// wait for the client to close; everything sent, then close; close early after k octets (k = 0,
/// 1, 2, somewhere in the body, one octet short); extra octets after the body. One case in three
/// gets to TCP through the fallback (strategy Udp + a truncated matching UDP answer).
fn gen_c14(r: &mut Rng, index: u64) -> String {
    let q = plain_q(r);
    // one case in five with a caller's buffer at or beyond the 16-bit range of the prefix: every
    // announced length fits it
    let big = r.chance(1, 5);
    let buf = if big { *r.pick(&[65535usize, 65536, 65537, 66136, 131072]) } else { *r.pick(&[512usize, 600, 1024]) };
    let n = if big {
        *r.pick(&[0usize, 1, 2, 12, 17, 511, 512, 600, 601, 1000, 1100, 65535])
    } else {
        *r.pick(&[0usize, 1, 2, 12, 17, 511, 512, buf - 1, buf, buf + 1, 1000, 65535])
    };
    // one case in three reaches TCP through the fallback: strategy Udp, a truncated matching answer
    let via_udp = r.chance(1, 3);
    let mut h = plain_hdr(r, index, if via_udp { "udp" } else { "tcp" });
    h.edns = "off".to_string();
    // `buffer_size` sizes the buffer of the typed queries only: whatever it is, a raw query is bounded
    // by the caller's buffer alone
    h.cfgbuf = *r.pick(&[65535usize, 65535, 512, 700, 0]);
    let udp_script: Vec<Vec<String>> = if via_udp {
        let fl = if r.chance(1, 2) { resp_flags(r, true) } else { 0x8380 };
        vec![vec![format!("IIII{}", hx(&msg_tail(fl, 1, 0, &q.question(false), &[])))]]
    } else {
        vec![]
    };
    // body
    let ans = a_records(r, 2);
    let mut body: Vec<u8> = vec![0xab, 0xcd];
    body.extend_from_slice(&msg_tail(0x8180, 1, 2, &q.question(false), &ans));
    let sent = n.min(1100);
    while body.len() < sent {
        body.push(body.len() as u8);
    }
    body.truncate(sent);
    let mut stream: Vec<u8> = (n as u16).to_be_bytes().to_vec();
    stream.extend_from_slice(&body);
    let has_id = body.len() >= 2;

    let mut close = false;
    match r.below(10) {
        0..=3 => {}
        4 => close = true,
        5..=7 => {
            // close early
            let full = stream.len();
            let k = match r.below(5) {
                0 => 0,
                1 => 1,
                2 => 2,
                3 => {
                    if full > 3 {
                        r.range(3, full as u64 - 1) as usize
                    } else {
                        full.saturating_sub(1)
                    }
                }
                _ => full.saturating_sub(1),
            };
            stream.truncate(k.min(full));
            close = true;
        }
        _ => {
            let extra = r.range(1, 20) as usize;
            stream.extend_from_slice(&rand_bytes(r, extra));
        }
    }

    // cut points
    let mut cuts: Vec<usize> = Vec::new();
    if stream.len() > 1 {
        let nseg = r.range(1, 6) as usize;
        for _ in 1..nseg {
            let c = match r.below(6) {
                0 => 1,
                1 => 2,
                2 => {
                    // a 1-octet segment
                    let c = r.range(1, stream.len() as u64 - 1) as usize;
                    if c + 1 < stream.len() {
                        cuts.push(c + 1);
                    }
                    c
                }
                _ => r.range(1, stream.len() as u64 - 1) as usize,
            };
            cuts.push(c);
        }
    }
    cuts.sort_unstable();
    cuts.dedup();
    let pauses = r.chance(1, 3);
    let mut items: Vec<String> = Vec::new();
    let mut a = 0;
    for c in cuts.iter().copied().chain(std::iter::once(stream.len())) {
        if c > a {
            if !items.is_empty() && pauses && r.chance(1, 2) {
                items.push("p20".to_string());
            }
            items.push(seg_hex(&stream, has_id, a, c));
            a = c;
        }
    }
    if close {
        items.push("c".to_string());
    }
    line(
        &h,
        &[GQ {
            api: "raw",
            q,
            buf,
            drop: None,
            udp: udp_script,
            tcp: vec![items],
        }],
    )
}

/// c15 — timing. One Q, api=raw, qt in {40,60,none}, lt in {160,240}; strat=udp mostly. Scripts:
/// silence; decoys only, on every query; a decoy delayed by `p<qt-5>` so that it arrives shortly
/// before the per-attempt timeout (a decoy must not restart the attempt's clock); the matching
/// response on query k (k = 0..4), nothing or decoys before; a flood of 60 decoys in one entry,
/// with or without the matching response behind it; a matching response delayed by a pause. With
/// strat=tcp: the server stalls (`h`) right away, after the prefix, or in the middle of the body.
fn gen_c15(r: &mut Rng, index: u64) -> String {
    let q = plain_q(r);
    let qt = *r.pick(&[Some(40u64), Some(60), None]);
    let lt = *r.pick(&[160u64, 240]);
    let tcp_case = r.chance(1, 5);
    let fallback_case = !tcp_case && r.chance(1, 6);
    let mut h = plain_hdr(r, index, if tcp_case { "tcp" } else { "udp" });
    h.qt = qt;
    h.lt = lt;
    let buf = 512;
    let mut udp: Vec<Vec<String>> = Vec::new();
    let mut tcp: Vec<Vec<String>> = Vec::new();
    if fallback_case {
        // late fallback: k UDP attempts are lost, the next one is answered with TC set, and the
        // TCP connection then stalls or drips: the lifetime runs from the start of the *call*,
        // not from the start of the attempt that was answered.
        h.qt = Some(100);
        h.lt = 400;
        let k = r.range(1, 3);
        for _ in 0..k {
            udp.push(if r.chance(1, 3) { vec![decoy(r, &q, buf)] } else { vec![] });
        }
        udp.push(vec![format!("IIII{}", hx(&msg_tail(0x8380, 1, 0, &q.question(false), &[])))]);
        let tail = msg_tail(0x8180, 1, 0, &q.question(false), &[]);
        let framed = tcp_framed("abcd", &tail);
        tcp.push(match r.below(4) {
            0 => vec!["h".to_string()],
            1 => vec![framed[..4].to_string(), "h".to_string()],
            2 => {
                let keep = 8 + 2 * r.below((framed.len() as u64 - 8) / 2) as usize;
                vec![framed[..keep].to_string(), "h".to_string()]
            }
            _ => {
                let mut items = vec![framed[..4].to_string()];
                let body = &framed[4..];
                let mut i = 0;
                while i < body.len() {
                    items.push("p60".to_string());
                    items.push(body[i..i + 2].to_string());
                    i += 2;
                }
                items
            }
        });
    } else if tcp_case {
        let tail = msg_tail(0x8180, 1, 0, &q.question(false), &[]);
        let framed = tcp_framed("IIII", &tail);
        tcp.push(match r.below(7) {
            // the server host drops the SYNs (full accept queue): the connect phase itself must be
            // bounded by what is left of the lifetime
            6 => vec!["b".to_string()],
            4 | 5 => {
                // slow drip: the prefix at once, then one byte of the body every `gap` ms — every
                // single read makes progress, the whole answer takes far longer than the lifetime.
                // (literal ID bytes: a placeholder cannot be split; TCP answers are not matched on ID)
                let lit = framed.replace("IIII", "abcd");
                let gap = *r.pick(&[50u64, 70]);
                let mut items = vec![lit[..4].to_string()];
                let body = &lit[4..];
                let mut i = 0;
                while i < body.len() {
                    items.push(format!("p{}", gap));
                    items.push(body[i..i + 2].to_string());
                    i += 2;
                }
                items
            }
            0 => vec!["h".to_string()],
            1 => vec![framed[..4].to_string(), "h".to_string()],
            2 => {
                // prefix + part of the body (at least the ID)
                let keep = 8 + 2 * r.below((framed.len() as u64 - 8) / 2) as usize;
                vec![framed[..keep].to_string(), "h".to_string()]
            }
            _ => vec![format!("p{}", r.pick(&[20u64, 100])), framed],
        });
    } else {
        // "late" = shortly before the attempt's own timeout; without retries the only deadline is the
        // lifetime, and an answer must not race it (load noise): 60 ms of margin
        let late = qt.map(|t| t - 5).unwrap_or(lt - 60);
        match r.below(9) {
            7 | 8 => {
                // paced flood: a decoy every millisecond across every per-attempt deadline, with or
                // without the matching response on a later query
                let answer_on = if r.chance(1, 2) { Some(r.range(1, 3)) } else { None };
                for k in 0..8u64 {
                    if Some(k) == answer_on {
                        udp.push(vec![matching(&q)]);
                        break;
                    }
                    let d = decoy(r, &q, buf);
                    let mut e: Vec<String> = Vec::new();
                    for _ in 0..qt.unwrap_or(40) * 2 {
                        e.push(d.clone());
                        e.push("p1".to_string());
                    }
                    udp.push(e);
                }
            }
            0 => {}
            1 => {
                for _ in 0..8 {
                    let n = r.range(1, 2);
                    udp.push((0..n).map(|_| decoy(r, &q, buf)).collect());
                }
            }
            2 => {
                let every = r.chance(1, 2);
                for k in 0..8 {
                    if every || k == 0 {
                        udp.push(vec![format!("p{}", late), decoy(r, &q, buf)]);
                    } else {
                        udp.push(vec![]);
                    }
                }
            }
            3 | 4 => {
                let k = r.below(5);
                let with_decoys = r.chance(1, 2);
                for _ in 0..k {
                    udp.push(if with_decoys { vec![decoy(r, &q, buf)] } else { vec![] });
                }
                udp.push(vec![matching(&q)]);
            }
            5 => {
                let mut e: Vec<String> = (0..60).map(|_| decoy(r, &q, buf)).collect();
                if r.chance(1, 2) {
                    e.push(matching(&q));
                    udp.push(e);
                } else {
                    udp.push(e);
                    if r.chance(1, 2) {
                        udp.push(vec![matching(&q)]);
                    }
                }
            }
            _ => {
                // delayed answer to the first query: before / after the attempt's timeout
                // (the matching answer keeps a distance from every attempt deadline: on a busy machine an
                // answer scripted 5 ms before a deadline arrives behind it, and the retransmission that
                // follows is legitimate)
                let p = match qt {
                    None => *r.pick(&[20u64, late]),
                    Some(t) => *r.pick(&[20u64, t * 5 / 8, t + t / 2]),
                };
                udp.push(vec![format!("p{}", p), matching(&q)]);
            }
        }
    }
    line(
        &h,
        &[GQ {
            api: "raw",
            q,
            buf,
            drop: None,
            udp,
            tcp,
        }],
    )
}

/// c16 — histories. 2..5 Qs on one client object (cfgbuf 512 / 1232, one strategy per line),
/// mixing: answered raw; answered rrset (1-3 A records for the asked name, qclass 1); silence
/// (lines with a silent Q use qt=40 lt=120, at most two of them); an invalid name; for api=rrset a
/// response that matches ID and question but has a garbage answer section; with strat=tcp an
/// announced length of buf+1; a late duplicate of the previous Q's answer (`PPPP` + the previous
/// question) in front of the real response; on async runtimes `drop=<ms>` against a silent server
/// (the abandoned query's socket is reused by the next Q). The last Q is always a plain answered
/// query, so that whatever an earlier Q left behind shows up in its result.
/// c16, special history: a query that times out, then a query whose first transmission is not
/// answered while the late answers to the FIRST query arrive one millisecond apart across the expiry
/// of that attempt; the retransmission is answered. A fresh client would get that answer too.
fn gen_c16_late_across_deadline(r: &mut Rng, index: u64) -> String {
    let strat = *r.pick(&["udp", "notcp"]);
    let cfgbuf = *r.pick(&[512usize, 1232]);
    let (qt, lt) = (100u64, 400u64);
    let h = GHdr {
        rt: rt_of(index),
        rd: 1,
        edns: "off".to_string(),
        strat,
        cfgbuf,
        qt: Some(qt),
        lt,
    };
    let q1 = plain_q(r);
    let mut q2 = plain_q(r);
    while q2.qname.eq_ignore_ascii_case(&q1.qname) {
        q2 = plain_q(r);
    }
    let late = format!("PPPP{}", hx(&msg_tail(0x8180, 1, 0, &q1.question(false), &[])));
    let mut e0: Vec<String> = vec![format!("p{}", qt - 12)];
    for _ in 0..24 {
        e0.push(late.clone());
        e0.push("p1".to_string());
    }
    let api2 = if r.chance(1, 2) { "rrset" } else { "raw" };
    if api2 == "rrset" {
        q2.qtype = 1;
        q2.qclass = 1;
    }
    let ans = a_records(r, 1);
    let answer = format!("IIII{}", hx(&msg_tail(0x8180, 1, 1, &q2.question(false), &ans)));
    let q3 = plain_q(r);
    let last = matching(&q3);
    line(
        &h,
        &[
            GQ { api: "raw", q: q1, buf: 512, drop: None, udp: vec![], tcp: vec![] },
            GQ { api: api2, q: q2, buf: 512, drop: None, udp: vec![e0, vec![answer]], tcp: vec![] },
            GQ { api: "raw", q: q3, buf: 512, drop: None, udp: vec![vec![last]], tcp: vec![] },
        ],
    )
}

fn gen_c16(r: &mut Rng, index: u64) -> String {
    if r.chance(1, 10) {
        return gen_c16_late_across_deadline(r, index);
    }
    let rt = rt_of(index);
    let strat = *r.pick(&["udp", "udp", "udp", "udp", "tcp", "tcp", "notcp"]);
    let cfgbuf = *r.pick(&[512usize, 1232]);
    let nq = r.range(2, 5) as usize;
    // 0 raw, 1 rrset, 2 silence, 3 invalid name, 4 malformed (rrset), 5 tcp oversize, 6 late
    // duplicate, 7 drop, 8 tcp response cut short (the server closes inside the announced body),
    // 9 two typed queries for one name: a full answer with three records, then a complete frame /
    // datagram whose header still claims three answers but which carries one (what lies behind it in
    // the client's buffer is the first answer), 10 the same over UDP with a runt datagram
    let mut kinds: Vec<u8> = Vec::new();
    let mut silent = 0;
    for i in 0..nq {
        if i + 1 == nq {
            kinds.push(r.below(2) as u8);
            break;
        }
        let mut k = r.below(11) as u8;
        if k == 10 && strat == "tcp" {
            k = 1;
        }
        if k == 8 && strat != "tcp" {
            k = 0;
        }
        if k == 2 {
            if silent >= 2 {
                k = 0;
            } else {
                silent += 1;
            }
        }
        if k == 5 && strat != "tcp" {
            k = 1;
        }
        if k == 6 && (strat == "tcp" || i == 0) {
            k = 0;
        }
        if k == 7 && rt == "std" {
            k = 3;
        }
        kinds.push(k);
    }
    let short = silent > 0;
    let h = GHdr {
        rt,
        rd: 1,
        edns: match r.below(3) {
            0 => "off".to_string(),
            1 => "0:512".to_string(),
            _ => format!("0:{}", cfgbuf),
        },
        strat,
        cfgbuf,
        qt: Some(if short { 40 } else { 400 }),
        lt: if short { 120 } else { 1500 },
    };
    let mut qs: Vec<GQ> = Vec::new();
    let mut prev: Option<Qd> = None;
    for k in kinds {
        // nothing valid to duplicate yet (only invalid names so far): a plain answered query
        let k = if k == 6 && prev.is_none() { 0 } else { k };
        let mut q = match &prev {
            Some(p) if r.chance(1, 3) => p.clone(),
            _ => plain_q(r),
        };
        let buf = *r.pick(&[512usize, 1232]);
        let mut api = "raw";
        let mut drop = None;
        let mut udp: Vec<Vec<String>> = Vec::new();
        let mut tcp: Vec<Vec<String>> = Vec::new();
        // the reply to the first query / connection
        let reply = |udp: &mut Vec<Vec<String>>,
                         tcp: &mut Vec<Vec<String>>,
                         tail: Vec<u8>,
                         pre: Vec<String>| {
            if strat == "tcp" {
                tcp.push(vec![tcp_framed("IIII", &tail)]);
            } else {
                let mut e = pre;
                e.push(format!("IIII{}", hx(&tail)));
                udp.push(e);
            }
        };
        match k {
            0 => reply(&mut udp, &mut tcp, msg_tail(0x8180, 1, 0, &q.question(false), &[]), vec![]),
            1 => {
                api = "rrset";
                q.qtype = 1;
                q.qclass = 1;
                let n = r.range(1, 3) as usize;
                let ans = a_records(r, n);
                reply(&mut udp, &mut tcp, msg_tail(0x8180, 1, n as u16, &q.question(false), &ans), vec![]);
            }
            2 => {
                if strat == "tcp" {
                    tcp.push(vec!["h".to_string()]);
                }
                if r.chance(1, 3) {
                    api = "rrset";
                    q.qtype = 1;
                    q.qclass = 1;
                }
            }
            3 => {
                q.qname = loop {
                    let n = invalid_qname(r);
                    if n.len() < 200 {
                        break n;
                    }
                };
                if r.chance(1, 3) {
                    api = "rrset";
                    q.qtype = 1;
                    q.qclass = 1;
                }
                reply(&mut udp, &mut tcp, msg_tail(0x8180, 1, 0, &q.question(false), &[]), vec![]);
            }
            4 => {
                api = "rrset";
                q.qtype = 1;
                q.qclass = 1;
                let n = r.range(1, 3);
                let glen = r.range(0, 24) as usize;
                let garbage = match r.below(3) {
                    0 => rand_bytes(r, glen),
                    1 => {
                        // a record cut short
                        let a = a_records(r, 1);
                        a[..r.range(1, a.len() as u64 - 1) as usize].to_vec()
                    }
                    _ => {
                        // rdlength larger than what is left
                        let mut a = a_records(r, 1);
                        a[11] = 200;
                        a
                    }
                };
                reply(&mut udp, &mut tcp, msg_tail(0x8180, 1, n as u16, &q.question(false), &garbage), vec![]);
            }
            5 => {
                // announced length one more than the buffer the client reads into
                let target = if r.chance(1, 3) {
                    api = "rrset";
                    q.qtype = 1;
                    q.qclass = 1;
                    cfgbuf
                } else {
                    buf
                } + 1;
                let mut tail = msg_tail(0x8180, 1, 0, &q.question(false), &[]);
                while tail.len() + 2 < target {
                    tail.push(0);
                }
                tcp.push(vec![tcp_framed("IIII", &tail)]);
            }
            6 => {
                let p = prev.clone().unwrap();
                // the late answer to the previous query may carry any flags, TC included
                let dtc = r.chance(1, 2);
                let dfl = if r.chance(1, 2) { resp_flags(r, dtc) } else { 0x8180 };
                // one case in three: the earlier question's name merely *starts with* the labels of the
                // current one (`example.co.uk` asked first, then `example.co`), and its late answer happens
                // to carry the current ID (a 1-in-65536 collision, which a server on the path can force)
                let plabels: Vec<&str> = p.qname.trim_end_matches('.').split('.').collect();
                let collide = plabels.len() >= 2 && r.chance(1, 3);
                if collide {
                    q.qname = plabels[..r.range(1, plabels.len() as u64 - 1) as usize].join(".");
                    q.qtype = p.qtype;
                    q.qclass = p.qclass;
                }
                let dup = format!("{}{}", if collide { "IIII" } else { "PPPP" }, hx(&msg_tail(dfl, 1, 0, &p.question(false), &[])));
                let n = r.range(1, 2);
                if r.chance(1, 2) {
                    api = "rrset";
                    q.qtype = 1;
                    q.qclass = 1;
                    let na = r.range(1, 3) as usize;
                    let ans = a_records(r, na);
                    reply(
                        &mut udp,
                        &mut tcp,
                        msg_tail(0x8180, 1, na as u16, &q.question(false), &ans),
                        (0..n).map(|_| dup.clone()).collect(),
                    );
                } else {
                    reply(
                        &mut udp,
                        &mut tcp,
                        msg_tail(0x8180, 1, 0, &q.question(false), &[]),
                        (0..n).map(|_| dup.clone()).collect(),
                    );
                }
            }
            10 => {
                // two typed queries for one name over UDP: the first is answered; the reply to the
                // second starts with a runt that carries the current ID but ends inside (or in front
                // of) its question — what follows it in the client's buffer is the first answer
                api = "rrset";
                q.qtype = 1;
                q.qclass = 1;
                let first = a_records(r, 2);
                qs.push(GQ {
                    api,
                    q: q.clone(),
                    buf,
                    drop: None,
                    udp: vec![vec![format!("IIII{}", hx(&msg_tail(0x8180, 1, 2, &q.question(false), &first)))]],
                    tcp: vec![],
                });
                let whole = msg_tail(0x8180, 1, 1, &q.question(false), &a_records(r, 1));
                let qlen = q.question(false).len();
                let keep = match r.below(3) {
                    0 => 10,
                    1 => 10 + qlen - 1,
                    _ => 10 + r.below(qlen as u64) as usize,
                };
                let runt = format!("IIII{}", hx(&whole[..keep]));
                let ans = a_records(r, 1);
                udp.push(vec![runt, format!("IIII{}", hx(&msg_tail(0x8180, 1, 1, &q.question(false), &ans)))]);
            }
            9 => {
                api = "rrset";
                q.qtype = 1;
                q.qclass = 1;
                let full = a_records(r, 3);
                let mut u1: Vec<Vec<String>> = Vec::new();
                let mut t1: Vec<Vec<String>> = Vec::new();
                reply(&mut u1, &mut t1, msg_tail(0x8180, 1, 3, &q.question(false), &full), vec![]);
                qs.push(GQ {
                    api,
                    q: q.clone(),
                    buf,
                    drop: None,
                    udp: u1,
                    tcp: t1,
                });
                let keep = r.range(1, 2) as usize;
                let part = a_records(r, keep);
                reply(&mut udp, &mut tcp, msg_tail(0x8180, 1, 3, &q.question(false), &part), vec![]);
            }
            8 => {
                // the prefix announces the whole response, the server closes after k of its octets: the
                // rest of the client's buffer still holds what earlier exchanges left there
                let na = r.range(1, 3) as usize;
                if r.chance(1, 2) {
                    api = "rrset";
                    q.qtype = 1;
                    q.qclass = 1;
                }
                let ans = a_records(r, na);
                let tail = msg_tail(0x8180, 1, na as u16, &q.question(false), &ans);
                let full = tcp_framed("IIII", &tail);
                let total = full.len() / 2;
                let k = match r.below(3) {
                    0 => total - 1,
                    1 => 2 + 12 + q.question(false).len(),
                    _ => r.range(4, total as u64 - 1) as usize,
                };
                tcp.push(vec![full[..2 * k.clamp(4, total - 1)].to_string(), "c".to_string()]);
            }
            _ => {
                drop = Some(if short { r.range(10, 30) } else { r.range(10, 50) });
                // an abandoned *typed* query takes the client's reusable buffer with it
                if r.chance(1, 2) {
                    api = "rrset";
                    q.qtype = 1;
                    q.qclass = 1;
                }
                if strat == "tcp" {
                    tcp.push(vec!["h".to_string()]);
                }
            }
        }
        if k != 3 {
            // the last valid question (reused now and then, and duplicated by kind 6)
            prev = Some(q.clone());
        }
        qs.push(GQ {
            api,
            q,
            buf,
            drop,
            udp,
            tcp,
        });
    }
    line(&h, &qs)
}

pub fn gen(stream: &str, r: &mut Rng, index: u64) -> String {
    match stream {
        "c11" => gen_c11(r, index),
        "c12" => gen_c12(r, index),
        "c13" => gen_c13(r, index),
        "c14" => gen_c14(r, index),
        "c15" => gen_c15(r, index),
        "c16" => gen_c16(r, index),
        _ => panic!("unknown client stream {}", stream),
    }
}
