//! Guard-paged message buffers: the message's last byte is the last byte of a page that is followed
//! by a PROT_NONE page (`tail`), or its first byte is the first byte of a page preceded by one
//! (`head`). A read of even one byte outside the message faults (SIGSEGV → the case is recorded as
//! `abort(11)`).

pub struct Guarded {
    base: *mut u8,
    map_len: usize,
    data: *mut u8,
    len: usize,
}

const PAGE: usize = 4096;

impl Guarded {
    pub fn new(bytes: &[u8], tail: bool) -> Guarded {
        let len = bytes.len();
        let data_pages = (len + PAGE - 1) / PAGE + 1; // at least one page, also for len = 0
        let map_len = (data_pages + 2) * PAGE;
        unsafe {
            let base = libc::mmap(
                std::ptr::null_mut(),
                map_len,
                libc::PROT_READ | libc::PROT_WRITE,
                libc::MAP_PRIVATE | libc::MAP_ANONYMOUS,
                -1,
                0,
            ) as *mut u8;
            assert!(base as isize != -1, "mmap failed");
            let first = base;
            let last = base.add((data_pages + 1) * PAGE);
            let data = if tail {
                last.sub(len)
            } else {
                base.add(PAGE)
            };
            std::ptr::copy_nonoverlapping(bytes.as_ptr(), data, len);
            assert_eq!(libc::mprotect(first as *mut _, PAGE, libc::PROT_NONE), 0);
            assert_eq!(libc::mprotect(last as *mut _, PAGE, libc::PROT_NONE), 0);
            Guarded {
                base,
                map_len,
                data,
                len,
            }
        }
    }

    pub fn as_slice(&self) -> &[u8] {
        unsafe { std::slice::from_raw_parts(self.data, self.len) }
    }

    #[allow(dead_code)]
    pub fn as_mut_slice(&mut self) -> &mut [u8] {
        unsafe { std::slice::from_raw_parts_mut(self.data, self.len) }
    }

    /// is `s` (pointer range) inside the message? (an empty slice must still point into
    /// [start, end])
    pub fn contains(&self, s: &[u8]) -> bool {
        let a = s.as_ptr() as usize;
        let b = a + s.len();
        let lo = self.data as usize;
        let hi = lo + self.len;
        lo <= a && b <= hi
    }
}

impl Drop for Guarded {
    fn drop(&mut self) {
        unsafe {
            libc::munmap(self.base as *mut _, self.map_len);
        }
    }
}
