//! rsdns correspondence harness (DESIGN.md §5).
//!
//!   harness gen <stream> <seed> <count>     print `count` request lines of `stream`
//!   harness eval                            read request lines from stdin, run the REAL rsdns code on
//!                                           each, print one canonical answer line per request
//!
//! `eval` flushes after every line and runs each case under `catch_unwind`; a watchdog thread aborts
//! the process when one case runs longer than the limit. The orchestrator (`/verif/check`) restarts
//! `eval` after the offending line and records `abort(<signal>)` / `timeout` for it.

mod alloc;
mod canon;
mod mem;
mod rng;
mod streams;

use std::io::{BufRead, Write};
use std::sync::atomic::{AtomicU64, Ordering};
use std::sync::Arc;

#[global_allocator]
static GLOBAL: alloc::Counting = alloc::Counting;

fn now_ms() -> u64 {
    use std::time::{SystemTime, UNIX_EPOCH};
    SystemTime::now()
        .duration_since(UNIX_EPOCH)
        .unwrap()
        .as_millis() as u64
}

fn main() {
    let args: Vec<String> = std::env::args().collect();
    if args.len() < 2 {
        eprintln!("usage: harness gen <stream> <seed> <count> | harness eval");
        std::process::exit(2);
    }
    match args[1].as_str() {
        "gen" => {
            let stream = &args[2];
            let seed: u64 = args[3].parse().expect("seed");
            let count: u64 = args[4].parse().expect("count");
            let out = std::io::stdout();
            let mut out = std::io::BufWriter::new(out.lock());
            for i in 0..count {
                let mut r = rng::Rng::for_case(seed, stream, i);
                let line = streams::gen(stream, &mut r, i);
                writeln!(out, "{}", line).unwrap();
            }
        }
        "eval" => {
            let limit_ms: u64 = std::env::var("HARNESS_CASE_LIMIT_MS")
                .ok()
                .and_then(|s| s.parse().ok())
                .unwrap_or(5000);
            // watchdog: abort when a single case exceeds the limit
            let started = Arc::new(AtomicU64::new(0));
            {
                let started = started.clone();
                std::thread::spawn(move || loop {
                    std::thread::sleep(std::time::Duration::from_millis(50));
                    let s = started.load(Ordering::Relaxed);
                    if s != 0 && now_ms().saturating_sub(s) > limit_ms {
                        let _ = writeln!(std::io::stderr(), "WATCHDOG: case exceeded {} ms", limit_ms);
                        std::process::exit(124);
                    }
                });
            }
            std::panic::set_hook(Box::new(|_| {}));
            let stdin = std::io::stdin();
            let out = std::io::stdout();
            let mut out = out.lock();
            for line in stdin.lock().lines() {
                let line = line.unwrap();
                started.store(now_ms(), Ordering::Relaxed);
                let res = std::panic::catch_unwind(|| streams::eval(&line));
                started.store(0, Ordering::Relaxed);
                let ans = match res {
                    Ok(s) => s,
                    Err(p) => {
                        let msg = if let Some(s) = p.downcast_ref::<&str>() {
                            s.to_string()
                        } else if let Some(s) = p.downcast_ref::<String>() {
                            s.clone()
                        } else {
                            "?".to_string()
                        };
                        format!("panic {}", msg.replace('\n', " "))
                    }
                };
                writeln!(out, "{}", ans).unwrap();
                out.flush().unwrap();
            }
        }
        _ => {
            eprintln!("unknown command");
            std::process::exit(2);
        }
    }
}
