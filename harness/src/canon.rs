//! Canonical text forms shared with the Lean driver (lean/Rsdns/Driver.lean).

use rsdns::Error;

pub fn to_hex(b: &[u8]) -> String {
    if b.is_empty() {
        return "-".to_string();
    }
    let mut s = String::with_capacity(b.len() * 2);
    for x in b {
        s.push_str(&format!("{:02x}", x));
    }
    s
}

pub fn from_hex(s: &str) -> Option<Vec<u8>> {
    if s == "-" {
        return Some(vec![]);
    }
    if s.len() % 2 != 0 {
        return None;
    }
    let b = s.as_bytes();
    let mut out = Vec::with_capacity(s.len() / 2);
    for i in (0..b.len()).step_by(2) {
        let h = (b[i] as char).to_digit(16)?;
        let l = (b[i + 1] as char).to_digit(16)?;
        out.push((h * 16 + l) as u8);
    }
    Some(out)
}

fn label_why(s: &str) -> u32 {
    if s.contains("first") {
        1
    } else if s.contains("last") {
        2
    } else {
        0
    }
}

pub fn show_err(e: &Error) -> String {
    match e {
        Error::IoError(io) => format!("IoError({:?})", io.kind()),
        Error::UnknownType(t) => format!("UnknownType({})", t.value()),
        Error::UnexpectedType(t) => format!("UnexpectedType({})", t.value()),
        Error::UnknownClass(c) => format!("UnknownClass({})", c.value()),
        Error::UnknownOpCode(o) => format!("UnknownOpCode({})", o.value()),
        Error::UnknownRCode(r) => format!("UnknownRCode({})", r.value()),
        Error::DomainNameLabelInvalidChar(s, b) => {
            format!("DomainNameLabelInvalidChar({},{})", label_why(s), b)
        }
        Error::DomainNameLabelTooLong(n) => format!("DomainNameLabelTooLong({})", n),
        Error::DomainNameLabelIsEmpty => "DomainNameLabelIsEmpty".into(),
        Error::DomainNameTooLong(n) => format!("DomainNameTooLong({})", n),
        Error::DomainNameTooMuchPointers => "DomainNameTooMuchPointers".into(),
        Error::DomainNameBadLabelType(b) => format!("DomainNameBadLabelType({})", b),
        Error::DomainNameBadPointer {
            pointer,
            max_offset,
        } => format!("DomainNameBadPointer({},{})", pointer, max_offset),
        Error::EndOfBuffer => "EndOfBuffer".into(),
        Error::EndOfWindow => "EndOfWindow".into(),
        Error::CursorAlreadyInWindow => "CursorAlreadyInWindow".into(),
        Error::CursorNotInWindow => "CursorNotInWindow".into(),
        Error::CursorWindowError { window_end, pos } => {
            format!("CursorWindowError({},{})", window_end, pos)
        }
        Error::BufferTooShort(n) => format!("BufferTooShort({})", n),
        Error::BadQuestionsCount(n) => format!("BadQuestionsCount({})", n),
        Error::BadMessageType(t) => format!("BadMessageType({})", t.as_str()),
        Error::BadResponseCode(r) => format!("BadResponseCode({})", r.value()),
        Error::MessageTruncated => "MessageTruncated".into(),
        Error::MessageTooLong(n) => format!("MessageTooLong({})", n),
        Error::RecordsSectionOffsetUnknown(s) => {
            format!("RecordsSectionOffsetUnknown({})", *s as usize)
        }
        Error::NoAnswer => "NoAnswer".into(),
        Error::UnsupportedType(t) => format!("UnsupportedType({})", t.value()),
        Error::UnsupportedClass(c) => format!("UnsupportedClass({})", c.value()),
        Error::Timeout => "Timeout".into(),
        Error::BadParam(_) => "BadParam".into(),
        Error::InternalError(_) => "InternalError".into(),
        Error::ReaderDone => "ReaderDone".into(),
    }
}

pub fn show_res<T>(r: &Result<T, Error>, f: impl Fn(&T) -> String) -> String {
    match r {
        Ok(v) => format!("ok {}", f(v)),
        Err(e) => format!("err {}", show_err(e)),
    }
}
