//! Counting global allocator: thread-local counters, armed around a single API call (C20).

use std::alloc::{GlobalAlloc, Layout, System};
use std::cell::Cell;

pub struct Counting;

thread_local! {
    static COUNT: Cell<u64> = const { Cell::new(0) };
    static ARMED: Cell<bool> = const { Cell::new(false) };
}

#[inline]
fn bump() {
    // try_with: the allocator may be called while the thread's TLS is being torn down
    let _ = ARMED.try_with(|a| {
        if a.get() {
            let _ = COUNT.try_with(|c| c.set(c.get() + 1));
        }
    });
}

unsafe impl GlobalAlloc for Counting {
    unsafe fn alloc(&self, l: Layout) -> *mut u8 {
        bump();
        System.alloc(l)
    }
    unsafe fn dealloc(&self, p: *mut u8, l: Layout) {
        System.dealloc(p, l)
    }
    unsafe fn alloc_zeroed(&self, l: Layout) -> *mut u8 {
        bump();
        System.alloc_zeroed(l)
    }
    unsafe fn realloc(&self, p: *mut u8, l: Layout, n: usize) -> *mut u8 {
        bump();
        System.realloc(p, l, n)
    }
}

/// run `f` with the counter armed; returns its result and the number of allocator calls it made
#[inline(never)]
pub fn measure<T>(f: impl FnOnce() -> T) -> (T, u64) {
    let before = COUNT.with(|c| c.get());
    ARMED.with(|a| a.set(true));
    let r = f();
    ARMED.with(|a| a.set(false));
    let after = COUNT.with(|c| c.get());
    (r, after - before)
}
