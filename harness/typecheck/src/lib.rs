//! Compile-time decision of C19: this crate type-checks iff every client type is `Send + Sync` and
//! every future returned by the async clients' constructor and query methods is `Send`, for all 17
//! record-data types — each of them, and generically in `D: RData` — and non-'static borrowed arguments. It is only ever `cargo check`ed.
#![allow(dead_code, clippy::all)]

use rsdns::clients::ClientConfig;
use rsdns::records::data::*;
use rsdns::records::{Class, Type};

fn send<T: Send>(_: T) {}
fn is_send<T: Send>() {}
fn is_sync<T: Sync>() {}

macro_rules! async_client_checks {
    ($m:ident) => {
        mod $m {
            use super::*;
            use rsdns::clients::$m::Client;

            pub fn object() {
                is_send::<Client>();
                is_sync::<Client>();
            }

            pub fn constructor(cfg: ClientConfig) {
                send(Client::new(cfg));
            }

            pub fn raw<'a>(c: &'a mut Client, name: &'a str, buf: &'a mut [u8]) {
                send(c.query_raw(name, Type::A, Class::IN, buf));
            }

            pub fn typed<'a>(c: &'a mut Client, name: &'a str) {
                send(c.query_rrset::<A>(name, Class::IN));
                send(c.query_rrset::<Aaaa>(name, Class::IN));
                send(c.query_rrset::<Ns>(name, Class::IN));
                send(c.query_rrset::<Md>(name, Class::IN));
                send(c.query_rrset::<Mf>(name, Class::IN));
                send(c.query_rrset::<Cname>(name, Class::IN));
                send(c.query_rrset::<Soa>(name, Class::IN));
                send(c.query_rrset::<Mb>(name, Class::IN));
                send(c.query_rrset::<Mg>(name, Class::IN));
                send(c.query_rrset::<Mr>(name, Class::IN));
                send(c.query_rrset::<Null>(name, Class::IN));
                send(c.query_rrset::<Wks>(name, Class::IN));
                send(c.query_rrset::<Ptr>(name, Class::IN));
                send(c.query_rrset::<Hinfo>(name, Class::IN));
                send(c.query_rrset::<Minfo>(name, Class::IN));
                send(c.query_rrset::<Mx>(name, Class::IN));
                send(c.query_rrset::<Txt>(name, Class::IN));
            }

            /// "for all record-data types", stated once and for all: a caller generic over the data
            /// type (bounded by the sealed marker `RData` only — nothing says `D: Send`) gets a `Send`
            /// future, and can run the whole lookup inside a spawned task as long as no `D` leaves it
            pub fn typed_generic<'a, D: RData>(c: &'a mut Client, name: &'a str) {
                send(c.query_rrset::<D>(name, Class::IN));
            }

            pub fn spawnable_generic<D: RData + 'static>(mut c: Client, name: String) -> impl std::future::Future<Output = usize> + Send + 'static {
                async move { c.query_rrset::<D>(&name, Class::IN).await.map(|s| s.rdata.len()).unwrap_or(0) }
            }

            /// the use case release 0.19.0 was made for: a query inside a task spawned on a
            /// multithreaded executor needs a `Send + 'static` future owning the client
            pub fn spawnable(mut c: Client, name: String) -> impl std::future::Future<Output = ()> + Send + 'static {
                async move {
                    let mut buf = vec![0u8; 512];
                    let _ = c.query_raw(&name, Type::A, Class::IN, &mut buf).await;
                    let _ = c.query_rrset::<A>(&name, Class::IN).await;
                    let _ = c.query_rrset::<Txt>(&name, Class::IN).await;
                }
            }
        }
    };
}

async_client_checks!(tokio);
async_client_checks!(async_std);
async_client_checks!(smol);

/// the configuration is stored by value in every client and borrowed by every pending future
pub fn config() {
    is_send::<ClientConfig>();
    is_sync::<ClientConfig>();
}

mod blocking {
    use super::*;
    use rsdns::clients::std::Client;

    pub fn object() {
        is_send::<Client>();
        is_sync::<Client>();
    }

    /// a blocking client can be moved into a thread and used there
    pub fn movable(mut c: Client, name: String) {
        std::thread::spawn(move || {
            let mut buf = vec![0u8; 512];
            let _ = c.query_raw(&name, Type::A, Class::IN, &mut buf);
            let _ = c.query_rrset::<A>(&name, Class::IN);
        });
    }
}
