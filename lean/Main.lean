/-
  Main — the line-protocol driver (DESIGN.md §5.4).  One request per input line, one canonical
  answer per output line.  Imports the model and the executable specifications only (no proofs,
  no Mathlib), so it links as a native executable:  `lake build driver`.
-/
import Rsdns.Driver

partial def loop (h : IO.FS.Stream) (out : IO.FS.Stream) : IO Unit := do
  let line ← h.getLine
  if line.isEmpty then return ()
  out.putStrLn (Rsdns.Driver.answer line)
  loop h out

def main : IO Unit := do
  let stdin ← IO.getStdin
  let stdout ← IO.getStdout
  loop stdin stdout
  stdout.flush
