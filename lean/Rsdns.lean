-- Root of the `Rsdns` library: model, specifications, lemmas and property theorems.
import Rsdns.Generated
import Rsdns.Model.Basic
import Rsdns.Model.Cursor
import Rsdns.Model.Names
import Rsdns.Model.Labels
import Rsdns.Spec.Expand
import Rsdns.Lemmas.Bits
import Rsdns.Lemmas.Labels
import Rsdns.Props.C03
import Rsdns.Model.RData
import Rsdns.Model.Reader
import Rsdns.Model.RecordSet
import Rsdns.Model.NameText
import Rsdns.Lemmas.Safety
import Rsdns.Lemmas.Hoare
