/-
  Rsdns.Model.Config — `ClientConfig` (src/clients/config/client_config.rs): the two constructors, the
  builder-style setters and the getters.  Durations are in milliseconds.  A socket address is its
  family, the IP address as a number and the port (IPv6 flow info and scope id are zero in everything
  the builder itself makes, and in every address the harness passes).
-/
import Rsdns.Model.Client

namespace Rsdns

open Generated

structure Addr where
  v6 : Bool
  ip : Nat
  port : Nat
deriving Repr, DecidableEq, Inhabited

/-- `ClientConfig::ipv4_unspecified()` = `0.0.0.0:0` -/
def Addr.unspec4 : Addr := { v6 := false, ip := 0, port := 0 }
/-- `ClientConfig::ipv6_unspecified()` = `[::]:0` -/
def Addr.unspec6 : Addr := { v6 := true, ip := 0, port := 0 }

structure Config where
  ns : Addr
  bind : Addr
  /-- `query_lifetime_` (ms) -/
  lt : Nat
  /-- `query_timeout_` (ms) -/
  qt : Option Nat
  /-- `ProtocolStrategy`: 0 = Udp, 1 = Tcp, 2 = NoTcp -/
  strat : Nat
  /-- `Recursion::On` -/
  rd : Bool
  buf : Nat
  /-- `EDns::On { version, udp_payload_size }` -/
  edns : Option (Nat × Nat)
deriving Repr, DecidableEq, Inhabited

/-- `impl Default for ClientConfig` / `ClientConfig::new()` -/
def Config.new : Config :=
  { ns := .unspec4, bind := .unspec4, lt := 10000, qt := some 2000, strat := 0, rd := true,
    buf := DNS_MESSAGE_MAX_LENGTH, edns := some (0, 1232) }

/-- `ClientConfig::with_nameserver(a)` -/
def Config.withNameserver (a : Addr) : Config :=
  { Config.new with ns := a, bind := if a.v6 then .unspec6 else .unspec4 }

/-- one builder call -/
inductive CfgOp where
  | setNs (a : Addr)
  | setBind (a : Addr)
  | setLt (ms : Nat)
  | setQt (ms : Option Nat)
  | setStrat (s : Nat)
  | setRd (b : Bool)
  | setBuf (n : Nat)
  | setEdns (e : Option (Nat × Nat))
deriving Repr, DecidableEq, Inhabited

/-- `set_nameserver`: the wildcard bind address follows the family of the name server, an explicit
    one is kept -/
def Config.setNs (c : Config) (a : Addr) : Config :=
  let c1 := { c with ns := a }
  let c2 := if a.v6 && c1.bind == Addr.unspec4 then { c1 with bind := Addr.unspec6 } else c1
  if !a.v6 && c2.bind == Addr.unspec6 then { c2 with bind := Addr.unspec4 } else c2

/-- `set_buffer_size`: 0 = allocate per call, otherwise at least 512 -/
def Config.setBuf (c : Config) (n : Nat) : Config :=
  { c with buf := if n > 0 then Nat.max n DNS_MESSAGE_BUFFER_MIN_LENGTH else 0 }

def Config.apply (c : Config) : CfgOp → Config
  | .setNs a => c.setNs a
  | .setBind a => { c with bind := a }
  | .setLt ms => { c with lt := ms }
  | .setQt q => { c with qt := q }
  | .setStrat s => { c with strat := s }
  | .setRd b => { c with rd := b }
  | .setBuf n => c.setBuf n
  | .setEdns e => { c with edns := e }

def Config.build (c : Config) (ops : List CfgOp) : Config := ops.foldl Config.apply c

/-- `has_nameserver()` -/
def Config.hasNameserver (c : Config) : Bool := c.ns != Addr.unspec4 && c.ns != Addr.unspec6

/-- what a client made from this configuration runs with (`Rsdns.Cfg`, the configuration of the client
    model) -/
def Config.toCfg (c : Config) (async : Bool) : Cfg :=
  { async, rd := c.rd, edns := c.edns, strat := c.strat, cfgbuf := c.buf, qt := c.qt, lt := c.lt }

/-- `ClientConfig::check()` -/
def Config.check (c : Config) : Res Unit :=
  if !c.hasNameserver then .err .badParam else (c.toCfg false).check

end Rsdns
