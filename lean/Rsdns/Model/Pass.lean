/-
  Rsdns.Model.Pass — ONE LINEAR PASS over a message with the `MessageReader` API, written as the caller
  the documentation describes: `new`, `header`, `question` while questions remain, then for every
  record `record_header::<Name>` followed by the data call that fits its type (`record_data::<D>` for
  the 17 data types, `opt_record` for OPT, `record_data_bytes` otherwise).  The driver prints this
  function's result for the `truth` stream; `Rsdns.Props.C02.decode_wellformed` is about it.
-/
import Rsdns.Model.ReaderOps
import Rsdns.Model.RecordSet

set_option linter.unusedVariables false

namespace Rsdns

/-- what the data call of one record returned -/
inductive RecVal where
  | typed (v : RData)
  | opt (o : Opt)
  | raw (b : Bytes)
deriving Repr, DecidableEq, Inhabited

/-- one record as the pass reports it -/
structure PassRec where
  name : Bytes
  marker : Marker
  val : RecVal
deriving Repr, DecidableEq, Inhabited

/-- header call + the data call that fits the record's type -/
def Reader.readRecord (msg : Bytes) (r : Reader) : Res PassRec × Reader :=
  match r.recordHeader msg (.owned .heap) with
  | (.ok (hn, m), r1) =>
    let name := match hn with
      | .owned t => t
      | _ => #[]
    match RType.ofCode m.rtype with
    | some t =>
      match r1.data msg t m with
      | (.ok v, r2) => (.ok { name, marker := m, val := .typed v }, r2)
      | (.err e, r2) => (.err e, r2)
      | (.panic p, r2) => (.panic p, r2)
      | (.ub, r2) => (.ub, r2)
    | none =>
      if m.rtype = Generated.TYPE_OPT then
        match r1.optRecord m with
        | (.ok o, r2) => (.ok { name, marker := m, val := .opt o }, r2)
        | (.err e, r2) => (.err e, r2)
        | (.panic p, r2) => (.panic p, r2)
        | (.ub, r2) => (.ub, r2)
      else
        match r1.dataBytes msg m with
        | (.ok b, r2) => (.ok { name, marker := m, val := .raw b }, r2)
        | (.err e, r2) => (.err e, r2)
        | (.panic p, r2) => (.panic p, r2)
        | (.ub, r2) => (.ub, r2)
  | (.err e, r1) => (.err e, r1)
  | (.panic p, r1) => (.panic p, r1)
  | (.ub, r1) => (.ub, r1)

/-- `while mr.has_records() { … }`: `fuel` bounds the loop (the caller passes the header's total + 1);
    the items read so far are returned together with the outcome that ended the loop -/
def Reader.readRecords (msg : Bytes) : Nat → Reader → List PassRec → List PassRec × Res Unit × Reader
  | 0, r, acc => (acc.reverse, .ok (), r)
  | fuel + 1, r, acc =>
    match r.recordsCount with
    | .ok n =>
      if n = 0 then (acc.reverse, .ok (), r)
      else
        match r.readRecord msg with
        | (.ok item, r') => Reader.readRecords msg fuel r' (item :: acc)
        | (.err e, r') => (acc.reverse, .err e, r')
        | (.panic p, r') => (acc.reverse, .panic p, r')
        | (.ub, r') => (acc.reverse, .ub, r')
    | .err e => (acc.reverse, .err e, r)
    | .panic p => (acc.reverse, .panic p, r)
    | .ub => (acc.reverse, .ub, r)

/-- `while mr.has_questions() { mr.question()? }` -/
def Reader.readQuestions (msg : Bytes) : Nat → Reader → List Question → List Question × Res Unit × Reader
  | 0, r, acc => (acc.reverse, .ok (), r)
  | fuel + 1, r, acc =>
    match r.questionsCount with
    | .ok n =>
      if n = 0 then (acc.reverse, .ok (), r)
      else
        match r.question msg .question with
        | (.ok (.owned q), r') => Reader.readQuestions msg fuel r' (q :: acc)
        | (.ok (.ref _), r') => (acc.reverse, .ub, r')   -- `question()` returns an owned question
        | (.err e, r') => (acc.reverse, .err e, r')
        | (.panic p, r') => (acc.reverse, .panic p, r')
        | (.ub, r') => (acc.reverse, .ub, r')
    | .err e => (acc.reverse, .err e, r)
    | .panic p => (acc.reverse, .panic p, r)
    | .ub => (acc.reverse, .ub, r)

/-- the transcript of one linear pass: header, questions, records, and how the pass ended -/
structure PassOut where
  header : Option Header
  questions : List Question
  records : List PassRec
  ending : Res Unit
deriving Repr, DecidableEq, Inhabited

def Reader.pass (msg : Bytes) : PassOut × Option Reader :=
  match Reader.new msg with
  | .ok r0 =>
    match r0.header msg with
    | (.ok h, r1) =>
      match Reader.readQuestions msg (h.qd + 1) r1 [] with
      | (qs, .ok (), r2) =>
        match Reader.readRecords msg (h.an + h.ns + h.ar + 1) r2 [] with
        | (rs, e, r3) => ({ header := some h, questions := qs, records := rs, ending := e }, some r3)
      | (qs, e, r2) => ({ header := some h, questions := qs, records := [], ending := e }, some r2)
    | (.err e, r1) => ({ header := none, questions := [], records := [], ending := .err e }, some r1)
    | (.panic p, r1) => ({ header := none, questions := [], records := [], ending := .panic p }, some r1)
    | (.ub, r1) => ({ header := none, questions := [], records := [], ending := .ub }, some r1)
  | .err e => ({ header := none, questions := [], records := [], ending := .err e }, none)
  | .panic p => ({ header := none, questions := [], records := [], ending := .panic p }, none)
  | .ub => ({ header := none, questions := [], records := [], ending := .ub }, none)

end Rsdns
