/-
  Rsdns.Model.RecordSet — `src/message/reader/message_iterator.rs`, `questions.rs`, `records.rs`
  (the iterator API) and `src/records/record_set.rs` (`RecordSet::<D>::from_msg`).
-/
import Rsdns.Model.Reader

set_option linter.unusedVariables false

namespace Rsdns

open Generated

/-- thread an outcome: continue only on `ok` -/
@[inline] def Res.andThen {α β} (x : Res α) (f : α → Res β) : Res β := x >>= f

/-! ### MessageIterator -/

/-- `for _ in 0..n { c.skip_question()? }` / `skip_rr` -/
def skipN (f : CurM Unit) : Nat → CurM Unit
  | 0 => pure ()
  | n + 1 => do f; skipN f n

structure MsgIter where
  header : Header
  answersOffset : Nat
deriving Repr, DecidableEq, Inhabited

/-- `MessageIterator::new(buf)` — no length cap -/
def MsgIter.new (msg : Bytes) : Res MsgIter :=
  match readHeader msg (Cur.new msg) with
  | (.ok h, _) =>
    -- `section_offset(Answer)`
    match skipN (skipQuestion msg) h.qd (Cur.withPos msg HEADER_LENGTH) with
    | (.ok (), c) => .ok { header := h, answersOffset := c.pos }
    | (.err e, _) => .err e
    | (.panic p, _) => .panic p
    | (.ub, _) => .ub
  | (.err e, _) => .err e
  | (.panic p, _) => .panic p
  | (.ub, _) => .ub

/-- `Questions` drained: the list of items `next()` yields (an `Err` item is the last one) -/
def questionsDrain (msg : Bytes) (c : Cur) : Nat → List (Except Err Question) → Res (List (Except Err Question))
  | 0, acc => .ok acc.reverse
  | n + 1, acc =>
    match readQuestion msg c with
    | (.ok q, c') => questionsDrain msg c' n (.ok q :: acc)
    | (.err e, _) => .ok ((.error e :: acc).reverse)
    | (.panic p, _) => .panic p
    | (.ub, _) => .ub

/-- `mi.questions().collect()` -/
def MsgIter.questions (msg : Bytes) (mi : MsgIter) : Res (List (Except Err Question)) :=
  questionsDrain msg (Cur.withPos msg HEADER_LENGTH) mi.header.qd []

/-- `mi.question()` -/
def MsgIter.question (msg : Bytes) (mi : MsgIter) : Res Question :=
  if mi.header.qd = 0 then .err (.badQuestionsCount 0)
  else (readQuestion msg (Cur.withPos msg HEADER_LENGTH)).1

/-- a decoded `ResourceRecord` with its section -/
structure Record where
  section_ : Nat
  name : Bytes
  rclass : Nat
  rtype : Nat
  ttl : Nat
  rdata : RData
deriving Repr, DecidableEq, Inhabited

def isDefined (table : Array Nat) (v : Nat) : Bool :=
  if h : v < table.size then table[v] != 0 else false

def RType.ofCode (v : Nat) : Option RType := RType.all.find? (fun t => t.code == v)

structure Records where
  cur : Cur
  tr : Tracker
  err : Bool

/-- `Records::read_impl`: the `loop` skips records of undefined type/class -/
def Records.readImpl (msg : Bytes) (cur : Cur) (tr : Tracker) : Nat → Res (Option Record) × Cur × Tracker
  | 0 => (.ok none, cur, tr)
  | fuel + 1 =>
    match tr.nextSection cur.pos with
    | (none, tr1) => (.ok none, cur, tr1)
    | (some section_, tr1) =>
      let domainNamePos := cur.pos
      let hdr : Res (Nat × Nat × Nat × Nat) × Cur :=
        (do
          let _ ← CurM.skipName msg
          let rtype ← CurM.u16be msg
          let rclass ← CurM.u16be msg
          let ttl ← CurM.u32be msg
          let rdlen ← CurM.u16be msg
          pure (rtype, rclass, ttl, rdlen)) cur
      match hdr with
      | (.err e, c1) => (.err e, c1, tr1)
      | (.panic p, c1) => (.panic p, c1, tr1)
      | (.ub, c1) => (.ub, c1, tr1)
      | (.ok (rtype, rclass, ttl, rdlen), c1) =>
        -- `rtype == Type::OPT ||` since the `fix:` commit for C02 (the CLASS field of OPT is a payload size)
        if rtype == TYPE_OPT || !(isDefined CLASS_KNOWN rclass) || !(isDefined TYPE_KNOWN rtype) then
          match CurM.skip rdlen c1 with
          | (.ok (), c2) =>
            match tr1.sectionRead section_ c2.pos with
            | .ok tr2 => Records.readImpl msg c2 tr2 fuel
            | .panic p => (.panic p, c2, tr1)
            | .err e => (.err e, c2, tr1)
            | .ub => (.ub, c2, tr1)
          | (.err e, c2) => (.err e, c2, tr1)
          | (.panic p, c2) => (.panic p, c2, tr1)
          | (.ub, c2) => (.ub, c2, tr1)
        else
          match RType.ofCode rtype with
          | none => (.err (.unexpectedType rtype), c1, tr1)
          | some t =>
            -- `rrr!`: name first (from a clone positioned at the owner name), then the data
            match Rsdns.readName .inline msg (c1.cloneWithPos domainNamePos) with
            | .err e => (.err e, c1, tr1)
            | .panic p => (.panic p, c1, tr1)
            | .ub => (.ub, c1, tr1)
            | .ok (name, _) =>
              match readRData t msg rdlen c1 with
              | (.ok rdata, c2) =>
                match tr1.sectionRead section_ c2.pos with
                | .ok tr2 => (.ok (some { section_, name, rclass, rtype, ttl, rdata }), c2, tr2)
                | .panic p => (.panic p, c2, tr1)
                | .err e => (.err e, c2, tr1)
                | .ub => (.ub, c2, tr1)
              | (.err e, c2) => (.err e, c2, tr1)
              | (.panic p, c2) => (.panic p, c2, tr1)
              | (.ub, c2) => (.ub, c2, tr1)

def trackerLeft (tr : Tracker) : Nat :=
  ((tr.sec 0).total - (tr.sec 0).read) + ((tr.sec 1).total - (tr.sec 1).read) +
    ((tr.sec 2).total - (tr.sec 2).read)

/-- `mi.records().collect()`: items until `None`; an `Err` item is the last one -/
def recordsDrain (msg : Bytes) (cur : Cur) (tr : Tracker) : Nat → List (Except Err Record) →
    Res (List (Except Err Record))
  | 0, acc => .ok acc.reverse
  | fuel + 1, acc =>
    match Records.readImpl msg cur tr (trackerLeft tr + 1) with
    | (.ok none, _, _) => .ok acc.reverse
    | (.ok (some r), c, t) => recordsDrain msg c t fuel (.ok r :: acc)
    | (.err e, _, _) => .ok ((.error e :: acc).reverse)
    | (.panic p, _, _) => .panic p
    | (.ub, _, _) => .ub

def MsgIter.records (msg : Bytes) (mi : MsgIter) : Res (List (Except Err Record)) :=
  let tr := Tracker.new mi.header
  recordsDrain msg (Cur.withPos msg mi.answersOffset) tr (trackerLeft tr + 1) []

/-! ### RecordSet::from_msg -/

structure RRSet where
  name : Bytes
  rclass : Nat
  ttl : Nat
  rdata : List RData
deriving Repr, DecidableEq, Inhabited

/-- `Name::try_from(name_ref)` / `InlineName::try_from` -/
def nameRefToName (k : NameKind) (msg : Bytes) (c : Cur) : Res Bytes :=
  match Rsdns.readName k msg c with
  | .ok (t, _) => .ok t
  | .err e => .err e
  | .panic p => .panic p
  | .ub => .ub

/-- `h.name().eq(name)?` flattened: an `Err` of `NameRef::eq` is an `Err` of the caller -/
def nameRefEqQ (msg : Bytes) (a b : Cur) : Res Bool :=
  match nameRefEq msg msg a b with
  | .ok (.ok v) => .ok v
  | .ok (.error e) => .err e
  | .err e => .err e
  | .panic p => .panic p
  | .ub => .ub

abbrev HdrRef := Cur × Marker

/-- `read_answer_headers` -/
def readAnswerHeaders (msg : Bytes) (r : Reader) : Nat → List HdrRef → Res (List HdrRef) × Reader
  | 0, acc => (.ok acc.reverse, r)
  | fuel + 1, acc =>
    match r.recordsCountIn 0 with
    | .panic p => (.panic p, r)
    | .err e => (.err e, r)
    | .ub => (.ub, r)
    | .ok left =>
      if left > 0 then
        match r.recordHeader msg .ref with
        | (.ok (.ref nc, m), r1) =>
          match r1.skipData m with
          | (.ok (), r2) => readAnswerHeaders msg r2 fuel ((nc, m) :: acc)
          | (.err e, r2) => (.err e, r2)
          | (.panic p, r2) => (.panic p, r2)
          | (.ub, r2) => (.ub, r2)
        | (.ok _, r1) => (.ub, r1)   -- unreachable: `.ref` headers carry a reference
        | (.err e, r1) => (.err e, r1)
        | (.panic p, r1) => (.panic p, r1)
        | (.ub, r1) => (.ub, r1)
      else (.ok acc.reverse, r)

/-- `read_opt` -/
def readOpt (msg : Bytes) (r : Reader) : Nat → Res (Option Opt) × Reader
  | 0 => (.ok none, r)
  | fuel + 1 =>
    match r.recordsCount with
    | .panic p => (.panic p, r)
    | .err e => (.err e, r)
    | .ub => (.ub, r)
    | .ok left =>
      if left > 0 then
        match r.recordHeader msg .marker with
        | (.ok (_, m), r1) =>
          if m.rtype = TYPE_OPT then
            match r1.optRecord m with
            | (.ok o, r2) => (.ok (some o), r2)
            | (.err e, r2) => (.err e, r2)
            | (.panic p, r2) => (.panic p, r2)
            | (.ub, r2) => (.ub, r2)
          else
            match r1.skipData m with
            | (.ok (), r2) => readOpt msg r2 fuel
            | (.err e, r2) => (.err e, r2)
            | (.panic p, r2) => (.panic p, r2)
            | (.ub, r2) => (.ub, r2)
        | (.err e, r1) => (.err e, r1)
        | (.panic p, r1) => (.panic p, r1)
        | (.ub, r1) => (.ub, r1)
      else (.ok none, r)

/-- `extract_rrset`: one pass over the remaining headers; returns `(ttl, rdata, remaining headers)` -/
def extractRRSet (msg : Bytes) (t : RType) (r : Reader) (name : Cur) (rclass : Nat) :
    List (Option HdrRef) → Nat → List RData → List (Option HdrRef) → Res (Nat × List RData × List (Option HdrRef))
  | [], ttl, rd, out => .ok (ttl, rd.reverse, out.reverse)
  | none :: rest, ttl, rd, out => extractRRSet msg t r name rclass rest ttl rd (none :: out)
  | some (hn, m) :: rest, ttl, rd, out =>
    match nameRefEqQ msg hn name with
    | .err e => .err e
    | .panic p => .panic p
    | .ub => .ub
    | .ok eq =>
      if eq && m.rtype == t.code && m.rclass == rclass then
        match r.dataAt msg t m with
        | .ok d => extractRRSet msg t r name rclass rest (Nat.min ttl m.ttl) (d :: rd) (none :: out)
        | .err e => .err e
        | .panic p => .panic p
        | .ub => .ub
      else extractRRSet msg t r name rclass rest ttl rd (some (hn, m) :: out)

/-- `extract_cname`: the first remaining CNAME record owned by `name` -/
def extractCname (msg : Bytes) (r : Reader) (name : Cur) (rclass : Nat) :
    List (Option HdrRef) → List (Option HdrRef) → Res (Option (Cur × List (Option HdrRef)))
  | [], _ => .ok none
  | none :: rest, out => extractCname msg r name rclass rest (none :: out)
  | some (hn, m) :: rest, out =>
    match nameRefEqQ msg hn name with
    | .err e => .err e
    | .panic p => .panic p
    | .ub => .ub
    | .ok eq =>
      if eq && m.rtype == TYPE_CNAME && m.rclass == rclass then
        .ok (some (r.nameRefAt m, out.reverse ++ (none :: rest)))
      else extractCname msg r name rclass rest (some (hn, m) :: out)

/-- the `loop` of `from_msg`; `rounds` counts iterations (ghost, for the work bound) -/
def flattenLoop (msg : Bytes) (t : RType) (r : Reader) (rclass : Nat) :
    Nat → Cur → List (Option HdrRef) → Nat → Res (Cur × Nat × List RData × Nat)
  | 0, _, _, _ => .err .noAnswer   -- unreachable with fuel = headers.length + 1
  | fuel + 1, name, headers, rounds =>
    match extractRRSet msg t r name rclass headers 4294967295 [] [] with
    | .err e => .err e
    | .panic p => .panic p
    | .ub => .ub
    | .ok (ttl, rdata, headers') =>
      if !rdata.isEmpty then .ok (name, ttl, rdata, rounds + 1)
      else
        match extractCname msg r name rclass headers' [] with
        | .err e => .err e
        | .panic p => .panic p
        | .ub => .ub
        | .ok none => .err .noAnswer
        | .ok (some (n, headers'')) => flattenLoop msg t r rclass fuel n headers'' (rounds + 1)

/-- everything `from_msg` has read when it reaches the response-code test -/
structure Prefix where
  header : Header
  question : QuestionRef
  headers : List HdrRef
  opt : Option Opt
  reader : Reader

/-- the response code `from_msg` tests: the header RCODE, extended by the first OPT record found
    after the answer section -/
def Prefix.rcode (p : Prefix) : Nat :=
  match p.opt with
  | some o => rcode_extended (flags_rcode p.header.flags) o.rcodeExtension
  | none => flags_rcode p.header.flags

/-- the straight-line prefix of `from_msg`: reader, header, the two flag gates, the single question,
    the answer headers, the OPT search -/
def fromMsgPrefix (msg : Bytes) : Res Prefix :=
  match Reader.new msg with
  | .err e => .err e
  | .panic p => .panic p
  | .ub => .ub
  | .ok mr =>
    match mr.header msg with
    | (.err e, _) => .err e
    | (.panic p, _) => .panic p
    | (.ub, _) => .ub
    | (.ok header, mr1) =>
      if !(flags_qr header.flags) then .err (.badMessageType (flags_qr header.flags))
      else if flags_tc header.flags then .err .messageTruncated
      else
        match mr1.question msg .theQuestionRef with
        | (.err e, _) => .err e
        | (.panic p, _) => .panic p
        | (.ub, _) => .ub
        | (.ok (.owned _), _) => .ub  -- unreachable
        | (.ok (.ref question), mr2) =>
          match readAnswerHeaders msg mr2 (mr2.sFuel 0) [] with
          | (.err e, _) => .err e
          | (.panic p, _) => .panic p
          | (.ub, _) => .ub
          | (.ok headers, mr3) =>
            match readOpt msg mr3 (mr3.sFuel 0) with
            | (.err e, _) => .err e
            | (.panic p, _) => .panic p
            | (.ub, _) => .ub
            | (.ok opt, mr4) => .ok { header, question, headers, opt, reader := mr4 }

/-- `RecordSet::<D>::from_msg(msg)`; also returns the number of rounds of the flattening loop -/
def fromMsgR (t : RType) (msg : Bytes) : Res (RRSet × Nat) :=
  match fromMsgPrefix msg with
  | .err e => .err e
  | .panic p => .panic p
  | .ub => .ub
  | .ok p =>
    if p.rcode ≠ 0 then .err (.badResponseCode p.rcode)
    else
      match flattenLoop msg t p.reader p.question.qclass (p.headers.length + 1) p.question.qname
              (p.headers.map some) 0 with
      | .err e => .err e
      | .panic pk => .panic pk
      | .ub => .ub
      | .ok (name, ttl, rdata, rounds) =>
        match nameRefToName .heap msg name with
        | .ok text => .ok ({ name := text, rclass := p.question.qclass, ttl, rdata }, rounds)
        | .err e => .err e
        | .panic pk => .panic pk
        | .ub => .ub

def fromMsg (t : RType) (msg : Bytes) : Res RRSet :=
  match fromMsgR t msg with
  | .ok (rs, _) => .ok rs
  | .err e => .err e
  | .panic p => .panic p
  | .ub => .ub

end Rsdns
