/-
  Rsdns.Model.Alloc — allocation accounting for the allocation-free part of the API (C20).

  `Generated.allocSites` (translator, every run) counts the allocating constructs in the body of every
  Rust function of the decoding path.  This file adds the hand-written *call graph*: which of those
  functions each allocation-free public entry point can reach.  A function that disappears from the
  source removes its constructor from `Generated.RustFn` and this file stops compiling; a new
  allocating construct in a reachable function falsifies `Props/C20.lean`.
  What the table cannot see (a call to a new helper that allocates, an allocation inside a
  dependency) is what the harness's counting allocator measures on the real code.
-/
import Rsdns.Generated

namespace Rsdns.Alloc

open Rsdns.Generated RustFn

/-- the allocation-free entry points the README / crate documentation advertise -/
inductive Entry where
  | readerNew | header | question | questionRef | skipQuestions
  | recordMarker | recordHeaderRef | recordHeaderInline
  | skipRecordData | recordDataBytes | recordDataA | recordDataAaaa | optRecord
  | seek | counts
  | recordDataBytesAt | recordDataAtA | recordDataAtAaaa | nameRefAt
  | nameRefEq | labelsIter
  | iterNew | iterQuestions | iterRecordsAandAaaa
deriving DecidableEq, Repr

def Entry.all : List Entry :=
  [.readerNew, .header, .question, .questionRef, .skipQuestions, .recordMarker, .recordHeaderRef, .recordHeaderInline,
   .skipRecordData, .recordDataBytes, .recordDataA, .recordDataAaaa, .optRecord, .seek, .counts, .recordDataBytesAt,
   .recordDataAtA, .recordDataAtAaaa, .nameRefAt, .nameRefEq, .labelsIter, .iterNew, .iterQuestions, .iterRecordsAandAaaa]

def cursorFns : List RustFn :=
  [cursor_new, cursor_with_pos, cursor_clone_with_pos, cursor_window, cursor_close_window, cursor_set_pos, cursor_skip,
   cursor_len, cursor_u16_be, cursor_u32_be, cursor_u128_be, cursor_u8, cursor_slice, cursor_bound_error, bytes_macros]

def trackerFns : List RustFn :=
  [section_tracker_set, section_tracker_next_section, section_tracker_section_offset, section_tracker_seek,
   section_tracker_section_read, section_tracker_question_read, section_tracker_records_left,
   section_tracker_records_left_in, section_tracker_questions_left]

/-- skipping a name: the loop with `check_label` -/
def skipNameFns : List RustFn := [labels_skip_domain_name, labels_macros, utils_check_label_bytes] ++ cursorFns
/-- reading an `InlineName` -/
def inlineNameFns : List RustFn :=
  [labels_read_domain_name, labels_macros, utils_check_label_bytes, inline_name_append_label_bytes, inline_name_set_root] ++ cursorFns
def markerFns : List RustFn := [reader_calc_section, reader_raw_marker_impl] ++ trackerFns ++ cursorFns

/-- the Rust functions an entry point can reach -/
def reach : Entry → List RustFn
  | .readerNew => [reader_new, cursor_new]
  | .header => [reader_header, reader_header_impl, header_read, reader_read] ++ trackerFns ++ cursorFns
  | .question => [reader_question, reader_the_question, message_reader_macros, question_read, reader_read] ++
      inlineNameFns ++ trackerFns
  | .questionRef => [reader_question_ref, reader_the_question_ref, message_reader_macros, question_ref_read, reader_read] ++
      skipNameFns ++ trackerFns
  | .skipQuestions => [reader_skip_questions, reader_skip_questions_impl, labels_skip_question] ++ skipNameFns ++ trackerFns
  | .recordMarker => [reader_record_marker, reader_marker_impl] ++ markerFns ++ skipNameFns
  | .recordHeaderRef => [reader_record_header_ref, reader_record_header_ref_impl] ++ markerFns ++ skipNameFns
  | .recordHeaderInline => [reader_record_header, reader_record_header_impl] ++ markerFns ++ inlineNameFns
  | .skipRecordData => [reader_skip_record_data, reader_skip_record_data_impl] ++ trackerFns ++ cursorFns
  | .recordDataBytes => [reader_record_data_bytes] ++ trackerFns ++ cursorFns
  | .recordDataA => [reader_record_data, rdata_A, reader_read] ++ trackerFns ++ cursorFns
  | .recordDataAaaa => [reader_record_data, rdata_Aaaa, reader_read] ++ trackerFns ++ cursorFns
  | .optRecord => [reader_opt_record, reader_opt_record_impl, opt_from_msg] ++ trackerFns ++ cursorFns
  | .seek => [reader_seek, reader_seek_impl, reader_skip_section_impl, reader_skip_questions_impl, labels_skip_question,
      reader_marker_impl, reader_skip_record_data_impl] ++ markerFns ++ skipNameFns
  | .counts => [reader_questions_count, reader_records_count, reader_records_count_in] ++ trackerFns
  | .recordDataBytesAt => [reader_record_data_bytes_at] ++ cursorFns
  | .recordDataAtA => [reader_record_data_at, rdata_A, reader_read] ++ cursorFns
  | .recordDataAtAaaa => [reader_record_data_at, rdata_Aaaa, reader_read] ++ cursorFns
  | .nameRefAt => [reader_name_ref_at] ++ cursorFns
  | .nameRefEq => [name_ref_eq, name_ref_ne, name_ref_labels, labels_next_label, labels_next_impl, labels_macros,
      utils_check_label_bytes] ++ cursorFns
  | .labelsIter => [name_ref_labels, labels_next_label, labels_skip_next_label, labels_next_impl, labels_skip_impl,
      labels_macros, utils_check_label_bytes] ++ cursorFns
  | .iterNew => [message_iterator_new, message_iterator_section_offset, header_read, reader_read, labels_skip_question,
      labels_skip_rr] ++ skipNameFns
  | .iterQuestions => [message_iterator_question, message_iterator_questions, questions_read, question_read, reader_read] ++
      inlineNameFns
  | .iterRecordsAandAaaa => [message_iterator_records, records_read, records_read_impl, rdata_A, rdata_Aaaa, reader_read] ++
      inlineNameFns ++ skipNameFns ++ trackerFns

/-- allocating constructs reachable from an entry point -/
def allocCount (e : Entry) : Nat := ((reach e).map allocSites).sum

end Rsdns.Alloc
