/-
  Rsdns.Model.AutoTrait — the structural rules of Rust's `Send` / `Sync` auto traits over the type
  shapes the translator extracts from the client sources (`Generated.STD_CLIENT_IMPL`, …).
  A type text the translator does not know becomes `Ty.unknown` and is neither Send nor Sync here:
  an unknown field makes the obligation fail, it never defaults to "fine".
-/
import Rsdns.Generated

namespace Rsdns.AutoTrait

open Rsdns.Generated

/-- `UdpSocket` (std / tokio / async-std / smol), `TcpStream`, `Vec<u8>`, `ArrayVec<u8, N>`, `str`, `[u8]`,
    and the plain scalars / plain-data enums (socket addresses, durations, `ProtocolStrategy`, `Recursion`,
    `EDns`, `ArrayString<N>`) are all `Send + Sync`; `ClientConfig` itself is a struct whose fields are
    extracted (`Generated.CLIENT_CONFIG`, the feature-gated `interface_` field included) -/
def leafSend : Leaf → Bool := fun _ => true
def leafSync : Leaf → Bool := fun _ => true

/-- `auto _ false` = `T: Send`, `auto _ true` = `T: Sync`; `fuel` bounds the nesting depth -/
def auto (env : SName → List Ty) : Nat → Bool → Ty → Bool
  | 0, _, _ => false
  | fuel + 1, s, t =>
    match s, t with
    | false, .leaf l => leafSend l
    | true, .leaf l => leafSync l
    | false, .ref false t' => auto env fuel true t'        -- `&T: Send ⇔ T: Sync`
    | false, .ref true t' => auto env fuel false t'        -- `&mut T: Send ⇔ T: Send`
    | true, .ref _ t' => auto env fuel true t'             -- `&T`, `&mut T`: Sync ⇔ T: Sync
    | s, .named n => (env n).all (auto env fuel s)         -- a struct has the trait iff all its fields do
    | _, .unknown _ => false

def isSend (env : SName → List Ty) (fuel : Nat) (t : Ty) : Bool := auto env fuel false t
def isSync (env : SName → List Ty) (fuel : Nat) (t : Ty) : Bool := auto env fuel true t

def stdEnv : SName → List Ty
  | .clientImpl => STD_CLIENT_IMPL
  | .clientCtx => STD_CLIENT_CTX
  | .client => CLIENT
  | .clientConfig => CLIENT_CONFIG

def asyncEnv : SName → List Ty
  | .clientImpl => ASYNC_CLIENT_IMPL
  | .clientCtx => ASYNC_CLIENT_CTX
  | .client => CLIENT
  | .clientConfig => CLIENT_CONFIG

/-- what the future of `query_raw` holds across its await points: `&ClientImpl` (through `&mut Client`),
    the borrowed arguments, the `ClientCtx` local and (TCP path) a `TcpStream` -/
def queryRawFuture : List Ty :=
  [.ref true (.named .client), .ref false (.leaf .str), .leaf .plain, .leaf .plain, .ref true (.leaf .sliceU8),
   .named .clientCtx, .leaf .tcpStream]

/-- `query_rrset::<D>` additionally holds the lent `Vec<u8>` (and returns `RecordSet<D>`: names, integers,
    `Vec<D>` of plain data) -/
def queryRRSetFuture : List Ty := queryRawFuture ++ [.leaf .vecU8]

end Rsdns.AutoTrait
