/-
  Rsdns.Model.Client — `src/clients/std/client_impl.rs` and `templates/async_client_impl.rs` (rendered
  for tokio / async-std / smol), `templates/client.rs`, `clients/config/client_config.rs`.

  The outside world is a parameter:
  * UDP: the client's connected socket holds a queue of datagrams with arrival times (ms since the
    query started); a scripted server answers the k-th query datagram with a list of items;
  * TCP: a connection delivers a list of segments with arrival times and then closes, or stalls;
  * time: attempt k of a query starts at `k · query_timeout`; `timeout(d, fut)` fires at `d` whenever
    `fut` is still pending (the assumption on the runtimes, resp. on `SO_RCVTIMEO` for the blocking
    client).
  Everything the clients decide — the bytes they send, which datagram they accept, when they fall
  back to TCP, how they frame the TCP answer, what they hand to `from_msg`, what happens to their
  internal buffer — is modelled literally.
-/
import Rsdns.Model.NameText
import Rsdns.Model.RecordSet

set_option linter.unusedVariables false

namespace Rsdns

open Generated

structure Cfg where
  /-- false: `clients::std`, true: the async template (tokio / async-std / smol) -/
  async : Bool
  rd : Bool
  /-- `EDns::On { version, udp_payload_size }` -/
  edns : Option (Nat × Nat)
  /-- `ProtocolStrategy`: 0 = Udp, 1 = Tcp, 2 = NoTcp -/
  strat : Nat
  /-- `buffer_size_` -/
  cfgbuf : Nat
  /-- `query_timeout_` in ms -/
  qt : Option Nat
  /-- `query_lifetime_` in ms -/
  lt : Nat
deriving Repr, DecidableEq, Inhabited

/-- `ClientConfig::check()` (the nameserver is always set by the harness) -/
def Cfg.check (c : Cfg) : Res Unit :=
  match c.edns with
  | some (_, payload) =>
    -- both conditions are regenerated from `ClientConfig::check` on every run
    if cfg_payload_too_small payload then .err .badParam
    else if cfg_payload_exceeds_buffer payload c.cfgbuf then .err .badParam
    else .ok ()
  | none => .ok ()

def Cfg.udpFirst (c : Cfg) : Bool := if c.async then async_udp_first c.strat else std_udp_first c.strat
def Cfg.tcpAllowed (c : Cfg) : Bool := if c.async then async_tcp_allowed c.strat else std_tcp_allowed c.strat
def Cfg.queryBufferSize (c : Cfg) : Nat := if c.async then ASYNC_QUERY_BUFFER_SIZE else STD_QUERY_BUFFER_SIZE

/-! decision expressions regenerated from the source of the client that `c` stands for -/
def Cfg.bufTooShort (c : Cfg) (buflen : Nat) : Bool := if c.async then async_buf_too_short buflen else std_buf_too_short buflen
def Cfg.udpBranch (c : Cfg) : Bool := if c.async then async_udp_branch c.udpFirst else std_udp_branch c.udpFirst
def Cfg.tcpFallback (c : Cfg) (tc : Bool) : Bool :=
  if c.async then async_tcp_fallback tc c.tcpAllowed else std_tcp_fallback tc c.tcpAllowed
def Cfg.rrsetNoBuffer (c : Cfg) : Bool := if c.async then async_rrset_no_buffer c.cfgbuf else std_rrset_no_buffer c.cfgbuf
def Cfg.rrsetBadClass (c : Cfg) (isData : Bool) : Bool :=
  if c.async then async_rrset_bad_class isData else std_rrset_bad_class isData
def Cfg.ups (c : Cfg) (payload buflen : Nat) : Nat :=
  if c.async then async_ups_field (async_ups payload buflen) else std_ups_field (std_ups payload buflen)

/-- the OPT record `prepare_message()` asks for: `Opt::new(version, min(udp_payload_size, buf.len()))` -/
def clientOpt (c : Cfg) (buflen : Nat) : Option (Nat × Nat) :=
  match c.edns with
  | some (version, payload) =>
    -- `let ups = …; Opt::new(version, ups as u16)`, both expressions regenerated from the source
    some (version, c.ups payload buflen)
  | none => none

/-- `prepare_message()`: the query bytes (2-byte length prefix included), for message id `id` -/
def prepareMessage (c : Cfg) (id : Nat) (qname : Bytes) (qtype qclass buflen : Nat) : Res Bytes :=
  match writeQuery c.queryBufferSize id qname qtype qclass c.rd (clientOpt c buflen) with
  | .ok (buf, len) => .ok (buf.extract 0 len)
  | .err e => .err e
  | .panic p => .panic p
  | .ub => .ub

/-- the filter of `udp_receive_loop` on the bytes `recv` put into the buffer: `some flags` = accepted -/
def udpAccept (id : Nat) (qname : Bytes) (qtype qclass : Nat) (d : Bytes) : Option Nat :=
  match Reader.new d with
  | .ok mr =>
    match mr.header d with
    | (.ok h, mr1) =>
      -- the two decision expressions of the loop are regenerated from the source on every run
      -- (`Generated.std_udp_id_reject`, `std_udp_question_match`; `C12.async_filter_is_std` pins the
      -- template's copies to the same functions)
      if std_udp_id_reject h.id id then none
      else
        match mr1.question d .theQuestion with
        | (.ok (.owned q), _) =>
          if std_udp_question_match (q.qtype == qtype) (q.qclass == qclass) (nameEqStr q.qname qname) then some h.flags
          else none
        | _ => none
    | _ => none
  | _ => none

/-- `recv(buf)`: a datagram longer than the buffer is truncated by the kernel -/
def recvInto (buflen : Nat) (d : Bytes) : Bytes := d.extract 0 (Nat.min d.size buflen)

/-- `udp_receive_loop` over the datagrams that arrive while it runs: index, size and flags of the
    first accepted one -/
def recvLoop (id : Nat) (qname : Bytes) (qtype qclass buflen : Nat) : List Bytes → Nat → Option (Nat × Bytes × Nat)
  | [], _ => none
  | d :: ds, i =>
    match udpAccept id qname qtype qclass (recvInto buflen d) with
    | some flags => some (i, recvInto buflen d, flags)
    | none => recvLoop id qname qtype qclass buflen ds (i + 1)

/-! ### timed world -/

structure Dgram where
  /-- arrival time at the client's socket, ms since the query started -/
  at_ : Nat
  bytes : Bytes
deriving Repr, DecidableEq, Inhabited

/-- a server script item -/
inductive Item where
  | send (bytes : Bytes)
  | pause (ms : Nat)
  | close
  | hold
deriving Repr, DecidableEq, Inhabited

/-- datagrams produced by a UDP entry that starts at `t0` -/
def entryDgrams : List Item → Nat → List Dgram
  | [], _ => []
  | .send b :: rest, t => { at_ := t, bytes := b } :: entryDgrams rest t
  | .pause ms :: rest, t => entryDgrams rest (t + ms)
  | _ :: rest, t => entryDgrams rest t

/-- stable insertion by arrival time -/
def insertDgram (d : Dgram) : List Dgram → List Dgram
  | [] => [d]
  | x :: xs => if d.at_ < x.at_ then d :: x :: xs else x :: insertDgram d xs

def mergeDgrams (new old : List Dgram) : List Dgram := new.foldl (fun acc d => insertDgram d acc) old

inductive UdpOutcome where
  | accepted (bytes : Bytes) (flags : Nat) (at_ : Nat)
  | timeout (at_ : Nat)
  | dropped (at_ : Nat)
deriving Repr, DecidableEq, Inhabited

structure UdpRun where
  outcome : UdpOutcome
  /-- times at which a query datagram was sent -/
  sends : List Nat
  /-- datagrams still queued in the socket when the exchange ended -/
  queue : List Dgram
deriving Repr, Inhabited

/-- scan the queue for datagrams that arrive before `windowEnd`; stop at the first accepted one -/
def scanWindow (id : Nat) (qname : Bytes) (qtype qclass buflen windowEnd : Nat) :
    List Dgram → Option (Dgram × Bytes × Nat) × List Dgram
  | [] => (none, [])
  | d :: ds =>
    if d.at_ < windowEnd then
      match udpAccept id qname qtype qclass (recvInto buflen d.bytes) with
      | some flags => (some (d, recvInto buflen d.bytes, flags), ds)
      | none => scanWindow id qname qtype qclass buflen windowEnd ds
    else
      match scanWindow id qname qtype qclass buflen windowEnd ds with
      | (r, rest) => (r, d :: rest)

/-- `udp_exchange` / `udp_exchange_loop`: attempts at `k · qt`, each with its own receive window, all
    before `stop` (the end of the lifetime, or the moment the caller abandons the future);
    `atStop` is the outcome when `stop` is reached -/
def udpLoop (c : Cfg) (id : Nat) (qname : Bytes) (qtype qclass buflen : Nat) (script : List (List Item))
    (stop : Nat) (atStop : UdpOutcome) : (fuel : Nat) → (k : Nat) → (queue : List Dgram) → (sends : List Nat) → UdpRun
  | 0, _, queue, sends => { outcome := atStop, sends := sends.reverse, queue := queue }
  | fuel + 1, k, queue, sends =>
    let step := c.qt.getD c.lt
    let tk := k * step
    if tk ≥ stop then { outcome := atStop, sends := sends.reverse, queue := queue }
    else
      let q1 := mergeDgrams (entryDgrams (script.getD k []) tk) queue
      match scanWindow id qname qtype qclass buflen (Nat.min (tk + step) stop) q1 with
      | (some (d, bytes, flags), rest) =>
        { outcome := .accepted bytes flags d.at_, sends := (tk :: sends).reverse, queue := rest }
      | (none, rest) =>
        if c.qt.isNone then { outcome := atStop, sends := (tk :: sends).reverse, queue := rest }
        else udpLoop c id qname qtype qclass buflen script stop atStop fuel (k + 1) rest (tk :: sends)

/-- where the exchange stops when nothing is accepted, and with what -/
def udpStop (c : Cfg) (dropAt : Option Nat) : Nat × UdpOutcome :=
  match dropAt with
  | some d => if d < c.lt then (d, .dropped d) else (c.lt, .timeout c.lt)
  | none => (c.lt, .timeout c.lt)

def udpExchange (c : Cfg) (id : Nat) (qname : Bytes) (qtype qclass buflen : Nat) (script : List (List Item))
    (dropAt : Option Nat) (fuel k : Nat) (queue : List Dgram) (sends : List Nat) : UdpRun :=
  udpLoop c id qname qtype qclass buflen script (udpStop c dropAt).1 (udpStop c dropAt).2 fuel k queue sends

/-! ### TCP framing -/

/-- what the byte stream of one TCP connection looks like to the client -/
structure Stream where
  /-- segments in arrival order -/
  segs : List Bytes
  /-- the peer closes after the last segment (`false`: it stalls) -/
  closed : Bool
deriving Repr, DecidableEq, Inhabited

inductive ReadOutcome where
  | ok (bytes : Bytes) (rest : Stream)
  | eof
  | stalled
deriving Repr, DecidableEq, Inhabited

/-- `read_exact(n)` across segments: take whole segments while they fit, split the one that does not -/
def readExactSegs : List Bytes → Nat → Bool → Bytes → ReadOutcome
  | [], n, closed, acc => if n = 0 then .ok acc ⟨[], closed⟩ else if closed then .eof else .stalled
  | seg :: rest, n, closed, acc =>
    if n = 0 then .ok acc ⟨seg :: rest, closed⟩
    else if seg.size ≤ n then readExactSegs rest (n - seg.size) closed (acc ++ seg)
    else .ok (acc ++ seg.extract 0 n) ⟨seg.extract n seg.size :: rest, closed⟩

def readExact (n : Nat) (s : Stream) (acc : Bytes) : ReadOutcome := readExactSegs s.segs n s.closed acc

inductive TcpOutcome where
  | ok (n : Nat) (bytes : Bytes)
  | bufferTooShort (n : Nat)
  | eof
  | timeout
deriving Repr, DecidableEq, Inhabited

/-- `tcp_exchange` after the query was written: 2-byte prefix, bound check, body -/
def tcpFraming (buflen : Nat) (s : Stream) : TcpOutcome :=
  match readExact 2 s #[] with
  | .eof => .eof
  | .stalled => .timeout
  | .ok pfx rest =>
    -- prefix value and bound test regenerated from `tcp_exchange` (`C14.async_framing_is_std` pins the
    -- template's copies to the same functions)
    let n := std_tcp_prefix (pfx.getD 0 0).toNat (pfx.getD 1 0).toNat
    if std_tcp_too_big n buflen then .bufferTooShort n
    else
      match readExact n rest #[] with
      | .eof => .eof
      | .stalled => .timeout
      | .ok body _ => .ok n body

/-- the timed stream a scripted connection produces, starting at `t`: segments with their arrival
    times and the time at which the server closes (`none`: it holds the connection open longer than any
    lifetime the harness uses). The server sleeps 3 ms after every write and closes one second after
    the end of its script. -/
def entryTimed : List Item → Nat → List (Nat × Bytes) → List (Nat × Bytes) × Option Nat
  | [], t, acc => (acc.reverse, some (t + 1000))
  | .send b :: rest, t, acc => entryTimed rest (t + 3) ((t, b) :: acc)
  | .pause ms :: rest, t, acc => entryTimed rest (t + ms) acc
  | .close :: _, t, acc => (acc.reverse, some t)
  | .hold :: _, _, acc => (acc.reverse, none)

/-- what the client can have seen of a timed stream strictly before `deadline` -/
def streamBefore (timed : List (Nat × Bytes) × Option Nat) (deadline : Nat) : Stream :=
  { segs := (timed.1.filter (fun s => s.1 < deadline)).map (·.2),
    closed := (timed.1.all (fun s => s.1 < deadline)) && (match timed.2 with | some t => t < deadline | none => false) }

/-! ### one query -/

inductive QueryResult where
  | ok (n : Nat) (bytes : Bytes)
  | err (e : Err)
  | dropped
deriving Repr, DecidableEq, Inhabited

/-- what the scripted server saw during one query -/
structure Seen where
  udp : List Nat          -- send times of the query datagrams
  tcp : Nat               -- connections accepted
deriving Repr, Inhabited

structure RawRun where
  result : QueryResult
  seen : Seen
  queue : List Dgram
  /-- the query message (prefix included); `none` when it could not be built -/
  msg : Option Bytes
deriving Repr, Inhabited

/-- the error `query_raw` reports for a TCP exchange outcome -/
def tcpResult (o : TcpOutcome) : QueryResult :=
  match o with
  | .ok n b => .ok n b
  | .bufferTooShort n => .err (.bufferTooShort n)
  | .eof => .err (.io 0)        -- IoError(UnexpectedEof)
  | .timeout => .err .timeout

/-- `query_raw(qname, qtype, qclass, buf)`: `tcpScript` is the list of per-connection scripts, the
    one second a server waits at the end of a script counts as a stall only when it exceeds what is
    left of the lifetime -/
def queryRaw (c : Cfg) (id : Nat) (qname : Bytes) (qtype qclass buflen : Nat) (udpScript tcpScript : List (List Item))
    (queue : List Dgram) (dropAt : Option Nat) : RawRun :=
  if c.bufTooShort buflen then
    { result := .err (.bufferTooShort DNS_MESSAGE_BUFFER_MIN_LENGTH), seen := ⟨[], 0⟩, queue, msg := none }
  else
    match prepareMessage c id qname qtype qclass buflen with
    | .err e => { result := .err e, seen := ⟨[], 0⟩, queue, msg := none }
    | .panic _ => { result := .err .badParam, seen := ⟨[], 0⟩, queue, msg := none }
    | .ub => { result := .err .badParam, seen := ⟨[], 0⟩, queue, msg := none }
    | .ok msg =>
      let tcp (sends : List Nat) (startAt : Nat) (queue : List Dgram) : RawRun :=
        match dropAt with
        | some d =>
          if d < c.lt then { result := .dropped, seen := ⟨sends, 1⟩, queue, msg := some msg }
          else { result := .err .timeout, seen := ⟨sends, 1⟩, queue, msg := some msg }
        | none =>
          -- everything that arrives before the lifetime ends is visible; after that: `Timeout`
          let stream := streamBefore (entryTimed (tcpScript.getD 0 [.close]) startAt []) c.lt
          { result := tcpResult (tcpFraming buflen stream), seen := ⟨sends, 1⟩, queue, msg := some msg }
      if c.udpBranch then
        let steps := c.lt / (c.qt.getD c.lt).max 1 + 2
        let run := udpExchange c id qname qtype qclass buflen udpScript dropAt steps 0 queue []
        match run.outcome with
        | .accepted bytes flags at_ =>
          if c.tcpFallback (flags_tc flags) then tcp run.sends at_ run.queue
          else { result := .ok bytes.size bytes, seen := ⟨run.sends, 0⟩, queue := run.queue, msg := some msg }
        | .timeout _ => { result := .err .timeout, seen := ⟨run.sends, 0⟩, queue := run.queue, msg := some msg }
        | .dropped _ => { result := .dropped, seen := ⟨run.sends, 0⟩, queue := run.queue, msg := some msg }
      else tcp [] 0 queue

/-- `query_rrset::<A>(qname, qclass)`: parameter checks, the internal buffer, `from_msg` on exactly
    the bytes `query_raw` returned -/
def queryRRSet (c : Cfg) (id : Nat) (qname : Bytes) (qclass : Nat) (udpScript tcpScript : List (List Item))
    (queue : List Dgram) (dropAt : Option Nat) : Res RRSet × RawRun :=
  if c.rrsetNoBuffer then (.err .badParam, { result := .err .badParam, seen := ⟨[], 0⟩, queue, msg := none })
  else if c.rrsetBadClass (class_is_data qclass) then
    (.err (.unsupportedClass qclass), { result := .err (.unsupportedClass qclass), seen := ⟨[], 0⟩, queue, msg := none })
  else
    let run := queryRaw c id qname TYPE_A qclass c.cfgbuf udpScript tcpScript queue dropAt
    match run.result with
    | .ok n bytes => (fromMsg .a (bytes.extract 0 n), run)
    | .err e => (.err e, run)
    | .dropped => (.err .timeout, run)


/-! ### the blocking client's timeout arithmetic (`clients/std/client_impl.rs`) -/

/-- `lifetime_left()`: `elapsed` = ms since `start`; `none` = `Err(Error::Timeout)` -/
def lifetimeLeft (c : Cfg) (elapsed : Nat) : Option Nat :=
  if std_lifetime_over elapsed c.lt then none else some (std_lifetime_left elapsed c.lt)

/-- outcome of `query_left()` -/
inductive QueryLeft where
  /-- `Err(Error::Timeout)`: the query lifetime is over -/
  | lifetimeOver
  /-- the per-attempt timeout is over: reported like an expired socket timeout (`IoError(TimedOut)`),
      which `udp_exchange` answers with the next attempt (after the `fix:` commit for C15; before it a
      zero `Duration` was returned, `set_read_timeout(Some(0))` failed with InvalidInput and the query
      died) -/
  | attemptOver
  /-- the socket timeout to set -/
  | left (ms : Nat)
deriving Repr, DecidableEq, Inhabited

/-- `query_left()`: `sinceStart` / `sinceQueryStart` are the two `Instant::elapsed()` readings -/
def queryLeft (c : Cfg) (sinceStart sinceQueryStart : Nat) : QueryLeft :=
  match lifetimeLeft c sinceStart with
  | none => .lifetimeOver
  | some ll =>
    let timeout := c.qt.getD c.lt
    if std_attempt_over sinceQueryStart timeout then .attemptOver else .left (std_query_left sinceQueryStart timeout ll)

/-! ### the clients' internal buffer (`ClientImpl::buf`, `take_buf`, `query_rrset`) -/

/-- a `Vec<u8>`: capacity and (possibly uninitialised, i.e. arbitrary) contents -/
structure VecBuf where
  cap : Nat
  bytes : Bytes
deriving Repr, DecidableEq, Inhabited

/-- `ClientImpl::new`: `Vec::new()` or `Vec::with_capacity(bs)` -/
def VecBuf.initial (cfgbuf : Nat) : VecBuf := { cap := cfgbuf, bytes := #[] }

/-- `take_buf()`: `mem::take`, `reserve` up to `buffer_size`, `set_len(buffer_size)`. `junk` is whatever
    the memory between the old length and `buffer_size` holds. `set_len(n)` requires `n ≤ capacity`. -/
def takeBuf (cfgbuf : Nat) (b : VecBuf) (junk : Bytes) : Res (VecBuf × VecBuf) :=
  let cap' := if b.cap < cfgbuf then cfgbuf else b.cap   -- `reserve` guarantees at least this much
  if cfgbuf ≤ cap' then
    let content := (b.bytes ++ junk).extract 0 cfgbuf
    let content := content ++ Array.replicate (cfgbuf - content.size) 0
    .ok ({ cap := 0, bytes := #[] }, { cap := cap', bytes := content })
  else .ub

/-- what `recv` / `read_exact` do to the lent buffer: overwrite a prefix -/
def overwritePrefix (buf d : Bytes) : Bytes := d ++ buf.extract d.size buf.size

/-- the tail of `query_rrset` after a successful `query_raw` that wrote `d` (`d.size ≤ buf.len()`):
    `set_len(response_len)`, `from_msg(&buf)`, swap the buffer back -/
def finishRRSet (t : RType) (lent : VecBuf) (d : Bytes) : Res (Res RRSet × VecBuf) :=
  let written := overwritePrefix lent.bytes d
  if d.size ≤ lent.cap then
    let view := written.extract 0 d.size
    .ok (fromMsg t view, { cap := lent.cap, bytes := view })
  else .ub

end Rsdns
