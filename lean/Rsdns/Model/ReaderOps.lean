/-
  Rsdns.Model.ReaderOps — the public `MessageReader` API as one step function over an operation type,
  so that call histories are lists and "every reachable state" is an induction.
-/
import Rsdns.Model.Reader

set_option linter.unusedVariables false

namespace Rsdns

/-- one public call on a `MessageReader` (markers are arguments: callers may pass any marker) -/
inductive Op where
  | header
  | question (k : QKind)
  | skipQuestions
  | recordHeader (k : HKind)
  | skipData (m : Marker)
  | dataBytes (m : Marker)
  | data (t : RType) (m : Marker)
  | optRecord (m : Marker)
  | seek (s : Nat)
  | questionsCount
  | recordsCount
  | recordsCountIn (s : Nat)
  | dataBytesAt (m : Marker)
  | dataAt (t : RType) (m : Marker)
  | nameRefAt (m : Marker)
deriving Repr, DecidableEq, Inhabited

/-- what a call returned -/
inductive Val where
  | unit
  | header (h : Header)
  | question (q : QOut)
  | hdr (n : HName) (m : Marker)
  | bytes (b : Bytes)
  | rdata (d : RData)
  | opt (o : Opt)
  | count (n : Nat)
  | nameRef (c : Cur)
deriving Repr, DecidableEq, Inhabited

@[inline] def mapVal {α} (f : α → Val) (x : Res α × Reader) : Res Val × Reader :=
  match x with
  | (.ok a, r) => (.ok (f a), r)
  | (.err e, r) => (.err e, r)
  | (.panic p, r) => (.panic p, r)
  | (.ub, r) => (.ub, r)

@[inline] def mapRes {α} (f : α → Val) (x : Res α) : Res Val :=
  match x with
  | .ok a => .ok (f a)
  | .err e => .err e
  | .panic p => .panic p
  | .ub => .ub

/-- the reader's transition function -/
def Reader.step (msg : Bytes) (r : Reader) : Op → Res Val × Reader
  | .header => mapVal .header (r.header msg)
  | .question k => mapVal .question (r.question msg k)
  | .skipQuestions => mapVal (fun _ => .unit) (r.skipQuestions msg)
  | .recordHeader k => mapVal (fun (n, m) => .hdr n m) (r.recordHeader msg k)
  | .skipData m => mapVal (fun _ => .unit) (r.skipData m)
  | .dataBytes m => mapVal .bytes (r.dataBytes msg m)
  | .data t m => mapVal .rdata (r.data msg t m)
  | .optRecord m => mapVal .opt (r.optRecord m)
  | .seek s => mapVal (fun _ => .unit) (r.seek msg s)
  | .questionsCount => (mapRes .count r.questionsCount, r)
  | .recordsCount => (mapRes .count r.recordsCount, r)
  | .recordsCountIn s => (mapRes .count (r.recordsCountIn s), r)
  | .dataBytesAt m => (mapRes .bytes (r.dataBytesAt msg m), r)
  | .dataAt t m => (mapRes .rdata (r.dataAt msg t m), r)
  | .nameRefAt m => (.ok (.nameRef (r.nameRefAt m)), r)

/-- run a history; outputs in call order. (A panic/UB outcome is recorded and the run continues on
    the returned state — the theorems show those outcomes do not occur / which ones may.) -/
def Reader.run (msg : Bytes) (r : Reader) : List Op → List (Res Val) × Reader
  | [] => ([], r)
  | op :: ops =>
    let x := r.step msg op
    let y := Reader.run msg x.2 ops
    (x.1 :: y.1, y.2)

/-- states reachable from `MessageReader::new(msg)` by any call history -/
def Reader.Reach (msg : Bytes) (r : Reader) : Prop :=
  ∃ r0 ops, Reader.new msg = .ok r0 ∧ (Reader.run msg r0 ops).2 = r

end Rsdns
