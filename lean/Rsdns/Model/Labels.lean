/-
  Rsdns.Model.Labels — `src/message/reader/labels.rs` + `labels/macros.rs` + `name_ref.rs`.

  `labels_loop!` is one `loop { … }` whose body is instantiated four times.  The body is modelled
  once, literally, as `iterStep`; the four instantiations are the loops `walk (.read heap)`,
  `walk (.read inline)`, `walk .skip` (read_domain_name / skip_domain_name) and `nextImpl`
  (`Labels::next_impl`; `skip_impl` differs only in discarding the label).

  Termination is by the lexicographic measure `(MAX_POINTERS + 1 − n_pointers, buf.len() − pos)`:
  a label step keeps `n_pointers` and advances `pos`, a pointer step consumes budget.  Lean accepts
  the definitions only with that argument — it is the "compression pointers can never make it loop"
  half of C01/C03.
-/
import Rsdns.Model.Cursor
import Rsdns.Model.Names

set_option linter.unusedVariables false

namespace Rsdns

open Generated

/-- loop state of `labels_loop!`: `$cursor`, `$max_pos`, `$n_pointers` -/
structure LSt where
  cur : Cur
  maxPos : Nat
  nptr : Nat
deriving Repr, DecidableEq, Inhabited

/-- what one iteration of the macro body did -/
inductive Step where
  /-- the terminating zero was consumed (`$done = true; $f!()`) -/
  | zero (s : LSt)
  /-- a length-prefixed label was sliced; `$l!(bytes, pos, dn)` runs next -/
  | label (bytes : Bytes) (pos : Nat) (s : LSt)
  /-- a compression pointer was followed (`$cursor.set_pos(offset)`) -/
  | jump (s : LSt)
deriving Repr, Inhabited

/-- one iteration of the body of `labels_loop!` -/
def iterStep (msg : Bytes) (s : LSt) : Res Step :=
  let pos := s.cur.pos
  match s.cur.u8 msg with
  | .err e => .err e
  | .panic p => .panic p
  | .ub => .ub
  | .ok (label, c1) =>
    if label == 0 then
      .ok (.zero { s with cur := c1, maxPos := if s.maxPos = 0 then c1.pos else s.maxPos })
    else if is_length label.toNat then
      match c1.slice msg label.toNat with
      | .err e => .err e
      | .panic p => .panic p
      | .ub => .ub
      | .ok (bytes, c2) => .ok (.label bytes pos { s with cur := c2 })
    else if is_pointer label.toNat then
      match c1.u8 msg with
      | .err e => .err e
      | .panic p => .panic p
      | .ub => .ub
      | .ok (o2, c2) =>
        let offset := pointer_to_offset label.toNat o2.toNat
        let maxPos := if s.maxPos = 0 then c2.pos else s.maxPos
        -- `offset as usize >= $max_pos - 2` : `usize` subtraction, panics on underflow when checked
        if maxPos < 2 then .panic .overflow
        else if offset ≥ maxPos - 2 then .err (.badPointer offset maxPos)
        else if s.nptr + 1 > DOMAIN_NAME_MAX_POINTERS then .err .tooMuchPointers
        else .ok (.jump { cur := c2.setPos offset, maxPos := maxPos, nptr := s.nptr + 1 })
    else .err (.badLabelType label)

/-! ### facts needed for termination -/

theorem Cur.u8_ok {msg : Bytes} {c : Cur} {v : UInt8} {c1 : Cur} (h : c.u8 msg = .ok (v, c1)) :
    c1.lim = c.lim ∧ c1.pos = c.pos + 1 ∧ c1.orig = c.orig ∧ c.pos < c.lim ∧ c.pos < msg.size ∧
      msg[c.pos]? = some v := by
  unfold Cur.u8 at h
  split at h
  · split at h
    · rename_i hh
      simp at h
      obtain ⟨rfl, rfl⟩ := h
      simp [hh.2, hh.1]
    · simp at h
  · simp at h

theorem Cur.slice_ok {msg : Bytes} {c : Cur} {n : Nat} {b : Bytes} {c1 : Cur}
    (h : c.slice msg n = .ok (b, c1)) :
    c1.lim = c.lim ∧ c1.pos = c.pos + n ∧ c1.orig = c.orig ∧ c.pos + n ≤ c.lim ∧ c.lim ≤ msg.size ∧
      b = msg.extract c.pos (c.pos + n) := by
  unfold Cur.slice at h
  split at h
  · split at h
    · rename_i hh
      simp at h
      obtain ⟨rfl, rfl⟩ := h
      simp [hh.1, hh.2]
    · simp at h
  · simp at h

/-- the termination measure of every instantiation of the loop -/
def LSt.measure (s : LSt) : Nat × Nat := (DOMAIN_NAME_MAX_POINTERS + 1 - s.nptr, s.cur.lim - s.cur.pos)

theorem UInt8.toNat_pos_of_ne_zero {b : UInt8} (h : ¬ (b == 0) = true) : 0 < b.toNat := by
  rcases Nat.eq_zero_or_pos b.toNat with h0 | h0
  · exfalso
    apply h
    have : b = 0 := UInt8.toNat_inj.mp (by simpa using h0)
    simp [this]
  · exact h0

theorem iterStep_label {msg : Bytes} {s s' : LSt} {b : Bytes} {p : Nat}
    (h : iterStep msg s = .ok (.label b p s')) :
    s'.nptr = s.nptr ∧ s'.maxPos = s.maxPos ∧ s'.cur.lim = s.cur.lim ∧ s'.cur.orig = s.cur.orig ∧
      p = s.cur.pos ∧ s.cur.pos < s.cur.lim ∧ s'.cur.pos ≤ s.cur.lim ∧
      s'.cur.pos = s.cur.pos + 1 + b.size ∧ 0 < b.size ∧ s.cur.lim ≤ msg.size := by
  unfold iterStep at h
  simp only at h
  repeat' split at h
  all_goals try (simp at h; done)
  rename_i label c1 hu hz hl _ bytes c2 hs
  have h1 := Cur.u8_ok hu
  have h2 := Cur.slice_ok hs
  simp only [Res.ok.injEq, Step.label.injEq] at h
  obtain ⟨rfl, rfl, rfl⟩ := h
  have hpos := UInt8.toNat_pos_of_ne_zero hz
  have hsz : bytes.size = label.toNat := by
    rw [h2.2.2.2.2.2]; simp only [Array.size_extract]; omega
  refine ⟨rfl, rfl, ?_, ?_, rfl, ?_, ?_, ?_, ?_, ?_⟩
  · simp only; omega
  · simp only; rw [h2.2.2.1, h1.2.2.1]
  all_goals (first | omega | (simp only; omega))

theorem iterStep_jump {msg : Bytes} {s s' : LSt} (h : iterStep msg s = .ok (.jump s')) :
    s'.nptr = s.nptr + 1 ∧ s'.nptr ≤ DOMAIN_NAME_MAX_POINTERS ∧ s'.cur.lim = s.cur.lim ∧
      s'.cur.orig = s.cur.orig := by
  unfold iterStep at h
  simp only at h
  repeat' split at h
  all_goals try (simp at h; done)
  all_goals
    rename_i label c1 hu _ _ _ _ o2 c2 hu2 _ _ _ hn
    have h1 := Cur.u8_ok hu
    have h2 := Cur.u8_ok hu2
    simp only [Res.ok.injEq, Step.jump.injEq] at h
    subst h
    refine ⟨rfl, ?_, ?_, ?_⟩
    · simp only; omega
    · simp only [Cur.setPos]; omega
    · simp only [Cur.setPos]; rw [h2.2.2.1, h1.2.2.1]

/-! ### the loops -/

inductive Mode where
  /-- `read_domain_name::<N>`: `$l = append_label` -/
  | read (k : NameKind)
  /-- `skip_domain_name`: `$l = check_label` -/
  | skip
deriving Repr, DecidableEq, Inhabited

/-- the `$l!` instantiation of a mode applied to the accumulator -/
def Mode.onLabel (m : Mode) (acc : Bytes) (bytes : Bytes) : Res Bytes :=
  match m with
  | .read k => appendLabelBytes k acc bytes
  | .skip => match checkLabel bytes with
    | .ok () => .ok acc
    | .err e => .err e
    | .panic p => .panic p
    | .ub => .ub

/-- result of a completed loop: accumulated text, the labels met (ghost, for the specification),
    `max_pos`, and the number of iterations executed (ghost, for the work bound) -/
structure WalkOut where
  text : Bytes
  labels : List Bytes
  maxPos : Nat
  steps : Nat
deriving Repr, Inhabited

/-- `labels_loop!` with `$f = break_loop` (read / skip instantiations) -/
def walk (msg : Bytes) (m : Mode) (s : LSt) (acc : Bytes) (ls : List Bytes) (n : Nat) : Res WalkOut :=
  match h : iterStep msg s with
  | .err e => .err e
  | .panic p => .panic p
  | .ub => .ub
  | .ok (.zero s') => .ok { text := acc, labels := ls.reverse, maxPos := s'.maxPos, steps := n + 1 }
  | .ok (.label bytes _ s') =>
    match m.onLabel acc bytes with
    | .err e => .err e
    | .panic p => .panic p
    | .ub => .ub
    | .ok acc' => walk msg m s' acc' (bytes :: ls) (n + 1)
  | .ok (.jump s') => walk msg m s' acc ls (n + 1)
termination_by (DOMAIN_NAME_MAX_POINTERS + 1 - s.nptr, s.cur.lim - s.cur.pos)
decreasing_by
  · have := iterStep_label h
    simp_wf
    rw [Prod.lex_def]
    simp only
    omega
  · have := iterStep_jump h
    simp_wf
    rw [Prod.lex_def]
    simp only
    omega

/-- `read_domain_name::<N>(c)`: returns the name text and the advanced cursor -/
def readName (k : NameKind) (msg : Bytes) (c : Cur) : Res (Bytes × Cur) :=
  match walk msg (.read k) { cur := c, maxPos := 0, nptr := 0 } #[] [] 0 with
  | .err e => .err e
  | .panic p => .panic p
  | .ub => .ub
  | .ok o =>
    -- `if dn.is_empty() { dn.set_root() }`
    let text := if o.text.size = 0 then rootName else o.text
    .ok (text, c.setPos o.maxPos)

/-- `skip_domain_name(c)`: returns the advanced cursor and `c.pos() - start` -/
def skipName (msg : Bytes) (c : Cur) : Res (Nat × Cur) :=
  match walk msg .skip { cur := c, maxPos := 0, nptr := 0 } #[] [] 0 with
  | .err e => .err e
  | .panic p => .panic p
  | .ub => .ub
  | .ok o =>
    -- `c.pos() - start` on `usize`
    if o.maxPos < c.pos then .panic .overflow
    else .ok (o.maxPos - c.pos, c.setPos o.maxPos)

/-! ### `Labels` iterator -/

/-- `Labels { cursor, n_pointers, max_pos, done }` -/
structure Labels where
  st : LSt
  done : Bool
deriving Repr, DecidableEq, Inhabited

/-- `Labels::new(c)` -/
def Labels.new (c : Cur) : Labels := { st := { cur := c, maxPos := 0, nptr := 0 }, done := false }

/-- a `LabelRef { bytes, pos }` -/
structure LabelRef where
  bytes : Bytes
  pos : Nat
deriving Repr, DecidableEq, Inhabited

/-- `Labels::next_impl` = `labels_loop!` with `$f = return_none`, `$l = return_label`.
    Returns the label (or `none` at the terminating zero) and the loop state. -/
def nextImpl (msg : Bytes) (s : LSt) : Res (Option LabelRef × LSt) :=
  match h : iterStep msg s with
  | .err e => .err e
  | .panic p => .panic p
  | .ub => .ub
  | .ok (.zero s') => .ok (none, s')
  | .ok (.label bytes pos s') =>
    match checkLabel bytes with
    | .err e => .err e
    | .panic p => .panic p
    | .ub => .ub
    | .ok () => .ok (some { bytes := bytes, pos := pos }, s')
  | .ok (.jump s') => nextImpl msg s'
termination_by DOMAIN_NAME_MAX_POINTERS + 1 - s.nptr
decreasing_by
  have := iterStep_jump h
  omega

/-- result of one `Iterator::next` call on `Labels` -/
inductive NextOut where
  | none
  | label (l : LabelRef)
  | fail (e : Err)
deriving Repr, DecidableEq, Inhabited

/-- `Labels::next_label` (and `Iterator::next`). A panic/ub of the loop is propagated in `Res`. -/
def Labels.next (msg : Bytes) (l : Labels) : Res (NextOut × Labels) :=
  if l.done then .ok (.none, l)
  else
    match nextImpl msg l.st with
    | .ok (some lab, s') => .ok (.label lab, { st := s', done := false })
    | .ok (none, s') => .ok (.none, { st := s', done := true })   -- `$done = true` at the zero label
    | .err e => .ok (.fail e, { l with done := true })
    | .panic p => .panic p
    | .ub => .ub

theorem nextImpl_some {msg : Bytes} {s s' : LSt} {lab : LabelRef}
    (h : nextImpl msg s = .ok (some lab, s')) :
    s.nptr ≤ s'.nptr ∧ (s'.nptr = s.nptr ∨ s'.nptr ≤ DOMAIN_NAME_MAX_POINTERS) ∧ s'.cur.lim = s.cur.lim ∧
      s'.cur.pos ≤ s'.cur.lim ∧ lab.pos < s'.cur.pos ∧
      (s'.nptr = s.nptr → s.cur.pos < s'.cur.pos) := by
  fun_induction nextImpl msg s with
  | case1 => simp at h
  | case2 => simp at h
  | case3 => simp at h
  | case4 => simp at h
  | case5 => simp at h
  | case6 => simp at h
  | case7 => simp at h
  | case8 s bytes pos s1 hst hck =>
    have := iterStep_label hst
    simp at h
    obtain ⟨rfl, rfl⟩ := h
    simp
    omega
  | case9 s s1 hst ih =>
    have hj := iterStep_jump hst
    have := ih h
    omega

/-- drain a `Labels` iterator: the sequence `for l in labels { l? }` — stops at the first error -/
def Labels.drain (msg : Bytes) (l : Labels) (acc : List LabelRef) : Res (Except Err (List LabelRef)) :=
  if hd : l.done then .ok (.ok acc.reverse)
  else
    match h : nextImpl msg l.st with
    | .ok (some lab, s') => Labels.drain msg { st := s', done := false } (lab :: acc)
    | .ok (none, _) => .ok (.ok acc.reverse)
    | .err e => .ok (.error e)
    | .panic p => .panic p
    | .ub => .ub
termination_by (DOMAIN_NAME_MAX_POINTERS + 1 - l.st.nptr, l.st.cur.lim - l.st.cur.pos)
decreasing_by
  have := nextImpl_some h
  simp_wf
  rw [Prod.lex_def]
  simp only
  by_cases hn : s'.nptr = l.st.nptr
  · have := this.2.2.2.2.2 hn
    omega
  · omega

/-! ### `NameRef` -/

/-- ASCII lower-casing of one byte (`u8::to_ascii_lowercase`) -/
def lowerByte (b : UInt8) : UInt8 := if 65 ≤ b.toNat ∧ b.toNat ≤ 90 then b + 32 else b

/-- `<[u8]>::eq_ignore_ascii_case` -/
def eqIgnoreCase (a b : Bytes) : Bool :=
  a.size == b.size && (a.toList.map lowerByte == b.toList.map lowerByte)

/-- `NameRef::eq(&self, other)`: `ma`/`mb` are the messages the two `NameRef`s point into (the same
    one in every intended use; C17 also quantifies over different ones). -/
def nameRefEqLoop (ma mb : Bytes) (a b : Labels) : Res (Except Err Bool) :=
  -- `let mo = my_labels.next(); let oo = other_labels.next();`
  if hd : a.done then
    -- `mo = None`
    match Labels.next mb b with
    | .panic p => .panic p
    | .ub => .ub
    | .err e => .err e
    | .ok (.none, _) => .ok (.ok true)
    | .ok (_, _) => .ok (.ok false)
  else
    match h : nextImpl ma a.st with
    | .panic p => .panic p
    | .ub => .ub
    | .err e =>
      -- `mo = Some(Err(e))`
      match Labels.next mb b with
      | .panic p => .panic p
      | .ub => .ub
      | .err e' => .err e'
      | .ok (.none, _) => .ok (.ok false)          -- `_ => break Ok(false)`
      | .ok (_, _) => .ok (.error e)               -- `let ml = mr?;`
    | .ok (none, _) =>
      match Labels.next mb b with
      | .panic p => .panic p
      | .ub => .ub
      | .err e' => .err e'
      | .ok (.none, _) => .ok (.ok true)
      | .ok (_, _) => .ok (.ok false)
    | .ok (some ml, sa) =>
      match Labels.next mb b with
      | .panic p => .panic p
      | .ub => .ub
      | .err e' => .err e'
      | .ok (.none, _) => .ok (.ok false)
      | .ok (.fail e, _) => .ok (.error e)          -- `let ol = or?;`
      | .ok (.label ol, b') =>
        if ml.pos = ol.pos then .ok (.ok true)
        else if !(eqIgnoreCase ml.bytes ol.bytes) then .ok (.ok false)
        else nameRefEqLoop ma mb { st := sa, done := false } b'
termination_by (DOMAIN_NAME_MAX_POINTERS + 1 - a.st.nptr, a.st.cur.lim - a.st.cur.pos)
decreasing_by
  have := nextImpl_some h
  simp_wf
  rw [Prod.lex_def]
  simp only
  by_cases hn : sa.nptr = a.st.nptr
  · have := this.2.2.2.2.2 hn
    omega
  · omega

/-- `NameRef::eq` on two cursors -/
def nameRefEq (ma mb : Bytes) (ca cb : Cur) : Res (Except Err Bool) :=
  nameRefEqLoop ma mb (Labels.new ca) (Labels.new cb)

end Rsdns
