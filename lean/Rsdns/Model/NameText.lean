/-
  Rsdns.Model.NameText — text-side name code:
  `check_name_bytes` (names/utils.rs), `Name::from` / `InlineName::from` (parsers), `Eq`, `Ord`, `Hash`,
  `PartialEq<&str>`, conversions (names/name.rs, names/inline_name.rs), and the wire encoder
  `WCursor::write_label` / `write_domain_name_bytes` (names/writer.rs) with `WCursor` (bytes/wcursor.rs),
  `Writer<Header>`, `write_opt`, `QueryWriter::write` (message/query_writer.rs).

  `check_name_bytes` and `write_domain_name_bytes` contain the same hand-written splitting loop
  (`for j in 0..len { if byte == b'.' { label = name[i..j]; …; i = j + 1; domain_start = Some(i) } }`);
  it is modelled once, generic in the per-label action and its state.
-/
import Rsdns.Model.Names
import Rsdns.Model.Labels

set_option linter.unusedVariables false

namespace Rsdns

open Generated

/-! ### the label-splitting loop -/

/-- the `for j in 0..len` loop: state `σ`, `i` = start of the current label, `ds` = `domain_start`.
    `name.get_unchecked(i..j)` requires `i ≤ j ≤ len`. -/
def splitLoop {σ : Type} (name : Bytes) (act : σ → Bytes → Res σ) :
    (fuel : Nat) → (j i : Nat) → (ds : Option Nat) → σ → Res (σ × Option Nat)
  | 0, _, _, ds, st => .ok (st, ds)
  | fuel + 1, j, i, ds, st =>
    if j < name.size then
      if name.getD j 0 == DOT then
        if i ≤ j then
          match act st (name.extract i j) with
          | .ok st' => splitLoop name act fuel (j + 1) (j + 1) (some (j + 1)) st'
          | .err e => .err e
          | .panic p => .panic p
          | .ub => .ub
        else .ub
      else splitLoop name act fuel (j + 1) i ds st
    else .ok (st, ds)

/-- loop + the `match domain_start { Some(ds) if len - ds > 0 => …, None => …, _ => () }` tail -/
def splitLabels {σ : Type} (name : Bytes) (act : σ → Bytes → Res σ) (st : σ) : Res σ :=
  match splitLoop name act name.size 0 0 none st with
  | .err e => .err e
  | .panic p => .panic p
  | .ub => .ub
  | .ok (st1, ds) =>
    match ds with
    | some d =>
      -- `len - ds` : usize subtraction; ds ≤ len always
      if name.size < d then .panic .overflow
      else if name.size - d > 0 then act st1 (name.extract d name.size)
      else .ok st1
    | none => act st1 name

/-- `check_name_bytes` -/
def checkNameBytes (name : Bytes) : Res Unit :=
  if name.size = 0 then .err .labelEmpty
  else if name == #[DOT] then .ok ()
  else
    match splitLabels name (fun (_ : Unit) l => checkLabel l) () with
    | .err e => .err e
    | .panic p => .panic p
    | .ub => .ub
    | .ok () =>
      let last := name.getD (name.size - 1) 0
      let full := if last == DOT then name.size + 1 else name.size + 2
      if full > DOMAIN_NAME_MAX_LENGTH then .err (.nameTooLong full) else .ok ()

/-- `Name::from(s)` / `InlineName::from(s)` (`FromStr`, `TryFrom<&str>`) -/
def parseName (k : NameKind) (s : Bytes) : Res Bytes :=
  match checkNameBytes s with
  | .err e => .err e
  | .panic p => .panic p
  | .ub => .ub
  | .ok () =>
    -- `ArrayType::from_str(s).unwrap()` for the inline type
    if k == .inline ∧ s.size > INLINE_CAP then .panic .unwrap
    else if s.size = 0 then .ub  -- `bytes.get_unchecked(bytes.len() - 1)` on an empty string
    else
      let last := s.getD (s.size - 1) 0
      if last != DOT then
        -- `dn.arr.push('.')` panics when full
        if k == .inline ∧ s.size + 1 > INLINE_CAP then .panic .unwrap
        else .ok (s.push DOT)
      else .ok s

/-! ### Eq / Ord / Hash -/

/-- `PartialEq`: `as_bytes().eq_ignore_ascii_case(other.as_bytes())` (same code in both types and
    across them) -/
def nameEq (a b : Bytes) : Bool := eqIgnoreCase a b

/-- `Ord::cmp`: byte-wise on lower-cased bytes over the common prefix, then by length -/
def nameCmpFrom (a b : Bytes) : Nat → Nat → Ordering
  | 0, _ => compare a.size b.size
  | fuel + 1, i =>
    if i < min a.size b.size then
      let l := (lowerByte (a.getD i 0)).toNat
      let r := (lowerByte (b.getD i 0)).toNat
      if l < r then .lt else if l > r then .gt else nameCmpFrom a b fuel (i + 1)
    else compare a.size b.size

def nameCmp (a b : Bytes) : Ordering := nameCmpFrom a b (min a.size b.size + 1) 0

/-- `Ord::cmp` with its two unchecked accesses made explicit: iteration `i` of
    `for i in 0..self.len().min(other.len())` performs `self.name.as_bytes().get_unchecked(i)` and
    `other.name.as_bytes().get_unchecked(i)`; each is undefined behaviour unless `i` is in range of its own
    operand.  This is what the driver runs for the `cmp` stream; `C17.name_cmp_no_ub` shows the `ub`
    outcome is unreachable and that the value is `nameCmp`. -/
def nameCmpUFrom (a b : Bytes) : Nat → Nat → Res Ordering
  | 0, _ => .ok (compare a.size b.size)
  | fuel + 1, i =>
    if i < min a.size b.size then
      if i < a.size then
        if i < b.size then
          let l := (lowerByte (a.getD i 0)).toNat
          let r := (lowerByte (b.getD i 0)).toNat
          if l < r then .ok .lt else if l > r then .ok .gt else nameCmpUFrom a b fuel (i + 1)
        else .ub
      else .ub
    else .ok (compare a.size b.size)

def nameCmpU (a b : Bytes) : Res Ordering := nameCmpUFrom a b (min a.size b.size + 1) 0

/-- `Hash::hash`: the exact byte sequence fed to the hasher (`write_u8` per byte) -/
def nameHashFeed (a : Bytes) : List UInt8 := a.toList.map lowerByte

/-- `PartialEq<&str>`: `name == s` -/
def nameEqStr (name s : Bytes) : Bool :=
  let lRoot := name == #[DOT]
  let rRoot := s == #[DOT]
  if lRoot && rRoot then true
  else if lRoot != rRoot then false
  else
    let endsDot := s.size > 0 && s.getD (s.size - 1) 0 == DOT
    let bytes := if name.size ≠ 0 && !endsDot then name.extract 0 (name.size - 1) else name
    eqIgnoreCase bytes s

/-- `From<Name> for InlineName`: `ArrayType::from(name.as_str()).unwrap()` -/
def toInline (name : Bytes) : Res Bytes := if name.size > INLINE_CAP then .panic .unwrap else .ok name
/-- `From<InlineName> for Name` -/
def toHeap (name : Bytes) : Res Bytes := .ok name

/-! ### WCursor and the encoders -/

structure WCur where
  buf : Bytes
  pos : Nat
deriving Repr, DecidableEq, Inhabited

namespace WCur

def new (cap : Nat) : WCur := { buf := Array.replicate cap 0xFF, pos := 0 }
@[inline] def capacity (w : WCur) : Nat := w.buf.size
@[inline] def len (w : WCur) : Nat := w.buf.size - w.pos

/-- write `bs` at `pos` (requires `pos + bs.size ≤ capacity`, else the unchecked write is UB) -/
def put (w : WCur) (bs : Bytes) : Res WCur :=
  if w.pos + bs.size ≤ w.buf.size then
    .ok { buf := (w.buf.extract 0 w.pos ++ bs) ++ w.buf.extract (w.pos + bs.size) w.buf.size, pos := w.pos + bs.size }
  else .ub

def be (v n : Nat) : Bytes :=
  match n with
  | 0 => #[]
  | k + 1 => #[UInt8.ofNat (v / 256 ^ k % 256)] ++ be v k

/-- `u8(val)`: `*self.slice(1)?.get_unchecked_mut(0) = val; self.pos += 1` -/
def u8 (w : WCur) (v : Nat) : Res WCur :=
  if w.len ≥ 1 then w.put #[UInt8.ofNat (v % 256)] else .err (.bufferTooShort (w.pos + 1))

/-- `w_be!(self, T, val)` with `size_of::<T>() = n` -/
def wBe (w : WCur) (v n : Nat) : Res WCur :=
  if w.len ≥ n then w.put (be v n) else .err (.bufferTooShort n)

def u16be (w : WCur) (v : Nat) : Res WCur := w.wBe v 2
def u32be (w : WCur) (v : Nat) : Res WCur := w.wBe v 4

/-- `wu_be!` / `u16_be_unchecked`: debug assertion, then the unchecked write -/
def u16beUnchecked (w : WCur) (v : Nat) : Res WCur :=
  if w.len ≥ 2 then w.put (be v 2) else .panic .debugAssert

/-- `write_label` -/
def writeLabel (w : WCur) (label : Bytes) : Res WCur :=
  match checkLabel label with
  | .err e => .err e
  | .panic p => .panic p
  | .ub => .ub
  | .ok () =>
    if w.len > label.size then
      -- `u8_unchecked(label.len() as u8)` then `bytes_unchecked(label)`
      match w.put #[UInt8.ofNat (label.size % 256)] with
      | .ok w1 => w1.put label
      | other => other
    else .err (.bufferTooShort (w.pos + label.size + 1))

/-- `write_domain_name_bytes(name)`: returns the cursor and the number of bytes written -/
def writeDomainName (w : WCur) (name : Bytes) : Res (WCur × Nat) :=
  if name.size = 0 then .err .labelEmpty
  else if name == #[DOT] then
    match w.u8 0 with
    | .ok w1 => .ok (w1, 1)
    | .err e => .err e
    | .panic p => .panic p
    | .ub => .ub
  else
    let start := w.pos
    match splitLabels name (fun (st : WCur) l => st.writeLabel l) w with
    | .err e => .err e
    | .panic p => .panic p
    | .ub => .ub
    | .ok w1 =>
      match w1.u8 0 with
      | .err e => .err e
      | .panic p => .panic p
      | .ub => .ub
      | .ok w2 =>
        if w2.pos < start then .panic .overflow
        else
          let length := w2.pos - start
          if length > DOMAIN_NAME_MAX_LENGTH then .err (.nameTooLong length) else .ok (w2, length)

end WCur

/-- `Writer<Header> for WCursor` -/
def writeHeader (w : WCur) (id flags qd an ns ar : Nat) : Res WCur :=
  if w.len ≥ HEADER_LENGTH then do
    let w ← w.u16beUnchecked id
    let w ← w.u16beUnchecked flags
    let w ← w.u16beUnchecked qd
    let w ← w.u16beUnchecked an
    let w ← w.u16beUnchecked ns
    w.u16beUnchecked ar
  else .err .endOfBuffer

/-- `write_opt(&Opt::new(version, udp_payload_size))` -/
def writeOpt (w : WCur) (version payload : Nat) : Res WCur := do
  let w ← w.u8 0
  let w ← w.u16be TYPE_OPT
  let w ← w.u16be payload
  let w ← w.u32be (opt_ttl 0 version 0)
  w.u16be 0

/-- `QueryWriter::write`, the part that appends: prefix placeholder, header, question, optional OPT -/
def queryBody (w : WCur) (id : Nat) (qname : Bytes) (qtype qclass : Nat) (rd : Bool) (opt : Option (Nat × Nat)) :
    Res WCur := do
  -- `*Flags::new().set_recursion_desired(rd)` : bit 8
  let w ← w.u16be 0
  let w ← writeHeader w id (if rd then 256 else 0) 1 0 0 (if opt.isSome then 1 else 0)
  let w ← (w.writeDomainName qname).bind (fun x => .ok x.1)
  let w ← w.u16be qtype
  let w ← w.u16be qclass
  match opt with
  | some (version, payload) => writeOpt w version payload
  | none => pure w

/-- `let pos = self.wcursor.reset_pos(); self.wcursor.u16_be((pos - 2) as u16)?; Ok(pos)` -/
def finishQuery (w : WCur) : Res (Bytes × Nat) :=
  let pos := w.pos
  if pos < 2 then .panic .overflow
  else
    match ({ w with pos := 0 } : WCur).u16be ((pos - 2) % 65536) with
    | .ok w' => .ok (w'.buf, pos)
    | .err e => .err e
    | .panic p => .panic p
    | .ub => .ub

/-- `QueryWriter::write(qname, qtype, qclass, recursion_desired, opt)` on a buffer of `cap` bytes with
    message id `id`; returns the final buffer and the message length (prefix included) -/
def writeQuery (cap id : Nat) (qname : Bytes) (qtype qclass : Nat) (rd : Bool) (opt : Option (Nat × Nat)) :
    Res (Bytes × Nat) :=
  match queryBody (WCur.new cap) id qname qtype qclass rd opt with
  | .ok w => finishQuery w
  | .err e => .err e
  | .panic p => .panic p
  | .ub => .ub

end Rsdns
