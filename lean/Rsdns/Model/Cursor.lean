/-
  Rsdns.Model.Cursor — `src/bytes/cursor.rs` + `src/bytes/macros.rs`, method by method.

  A Rust `Cursor<'a> { buf: &'a [u8], pos: usize, orig: Option<&'a [u8]> }` over a message `msg`
  is modelled by `Cur { lim, pos, orig }` where `lim = buf.len()` and `orig = orig.map(len)`:
  every `buf` the code ever builds is a prefix of the message it started from, so the length
  determines the view.  That `lim ≤ msg.size` always holds is *proved* (`Cur.OK`), not assumed:
  the model's `ub` outcome fires when an unchecked access would leave `buf`, and additionally
  when it would leave `msg`.

  Unchecked sites and their preconditions (the Rust reference semantics):
    get_unchecked(i)        : i < len
    get_unchecked(a..b)     : a ≤ b ∧ b ≤ len
    get_unchecked(a..)      : a ≤ len
    get_unchecked(..b)      : b ≤ len
    read_unaligned::<T>(p)  : the size_of::<T>() bytes at p lie inside the allocation
-/
import Rsdns.Model.Basic

namespace Rsdns

structure Cur where
  /-- `self.buf.len()` -/
  lim : Nat
  pos : Nat
  /-- `self.orig.map(|b| b.len())` -/
  orig : Option Nat
deriving Repr, DecidableEq, Inhabited

namespace Cur

/-- `Cursor::new(buf)` -/
def new (msg : Bytes) : Cur := { lim := msg.size, pos := 0, orig := none }

/-- `Cursor::with_pos(buf, pos)` -/
def withPos (msg : Bytes) (pos : Nat) : Cur := { lim := msg.size, pos := pos, orig := none }

/-- `clone_with_pos`: a fresh cursor at `pos` over the *whole* message: when a window is open the
    saved full view is used (after the `fix:` commit for C10; before it, `self.buf` — the possibly
    windowed view — was copied). -/
def cloneWithPos (c : Cur) (pos : Nat) : Cur :=
  { lim := c.orig.getD c.lim, pos := pos, orig := none }

/-- `capacity()` -/
@[inline] def capacity (c : Cur) : Nat := c.lim

/-- `len()` = `capacity().saturating_sub(pos)` — `Nat` subtraction saturates exactly like it. -/
@[inline] def len (c : Cur) : Nat := c.lim - c.pos

@[inline] def isEmpty (c : Cur) : Bool := c.len == 0

/-- `bound_error()` -/
@[inline] def boundError (c : Cur) : Err :=
  if c.orig.isNone then .endOfBuffer else .endOfWindow

/-- `set_pos` -/
@[inline] def setPos (c : Cur) (pos : Nat) : Cur := { c with pos := pos }

/-- The bounds test of `slice` and `window` after the `fix:` commit for C17:
    `self.pos <= self.buf.len() && self.len() >= size`.  (Before the fix the test was only
    `len() >= size` with the saturating `len()`, which a cursor positioned past the end passes for
    `size = 0` — and then `get_unchecked(pos..pos)` / `get_unchecked(..pos)` is out of range.) -/
@[inline] def fits (c : Cur) (size : Nat) : Bool := decide (c.pos ≤ c.lim) && decide (c.len ≥ size)

/-- `window(size)` -/
def window (msg : Bytes) (c : Cur) (size : Nat) : Res Cur :=
  if c.orig.isNone then
    if c.fits size then
      -- `self.buf.get_unchecked(..self.pos + size)`
      if c.pos + size ≤ c.lim ∧ c.lim ≤ msg.size then
        .ok { lim := c.pos + size, pos := c.pos, orig := some c.lim }
      else .ub
    else .err .endOfBuffer
  else .err .cursorAlreadyInWindow

/-- `close_window()` -/
def closeWindow (c : Cur) : Res Cur :=
  match c.orig with
  | some o =>
    if c.pos = c.lim then .ok { lim := o, pos := c.pos, orig := none }
    else .err (.cursorWindowError c.lim c.pos)
  | none => .err .cursorNotInWindow

/-- `skip(distance)` -/
def skip (c : Cur) (distance : Nat) : Res Cur :=
  if c.len ≥ distance then .ok { c with pos := c.pos + distance }
  else .err c.boundError

/-- `u8()` -/
def u8 (msg : Bytes) (c : Cur) : Res (UInt8 × Cur) :=
  if !c.isEmpty then
    -- `*self.buf.get_unchecked(self.pos)`
    if h : c.pos < c.lim ∧ c.pos < msg.size then .ok (msg[c.pos], { c with pos := c.pos + 1 })
    else .ub
  else .err c.boundError

/-- big-endian value of `msg[pos .. pos+n)`; total (missing bytes read as 0, never used on them) -/
def beNat (msg : Bytes) (pos n : Nat) : Nat :=
  match n with
  | 0 => 0
  | k + 1 => (msg.getD pos 0).toNat * 256 ^ k + beNat msg (pos + 1) k

/-- `r_be!(self, T)` with `size_of::<T>() = n` -/
def rBe (msg : Bytes) (c : Cur) (n : Nat) : Res (Nat × Cur) :=
  if c.len ≥ n then
    -- `get_unchecked(self.pos..)` then `read_unaligned` of n bytes
    if c.pos ≤ c.lim ∧ c.pos + n ≤ msg.size then .ok (beNat msg c.pos n, { c with pos := c.pos + n })
    else .ub
  else .err c.boundError

def u16be (msg : Bytes) (c : Cur) : Res (Nat × Cur) := rBe msg c 2
def u32be (msg : Bytes) (c : Cur) : Res (Nat × Cur) := rBe msg c 4
def u128be (msg : Bytes) (c : Cur) : Res (Nat × Cur) := rBe msg c 16

/-- `ru_be!(self, u16)` — `u16_be_unchecked`: `debug_assert!(len ≥ 2)` then the unchecked read. -/
def u16beUnchecked (msg : Bytes) (c : Cur) : Res (Nat × Cur) :=
  if c.len ≥ 2 then
    if c.pos ≤ c.lim ∧ c.pos + 2 ≤ msg.size then .ok (beNat msg c.pos 2, { c with pos := c.pos + 2 })
    else .ub
  else .panic .debugAssert

/-- `slice(size)`; the result is `(start, size)` describing `msg[start .. start+size)` plus the bytes. -/
def slice (msg : Bytes) (c : Cur) (size : Nat) : Res (Bytes × Cur) :=
  if c.fits size then
    -- `self.buf.get_unchecked(pos..pos + size)`
    if c.pos + size ≤ c.lim ∧ c.lim ≤ msg.size then
      .ok (msg.extract c.pos (c.pos + size), { c with pos := c.pos + size })
    else .ub
  else .err c.boundError

/-- the full view a cursor was created over (`orig` when a window is open) -/
def full (c : Cur) : Nat := c.orig.getD c.lim

/-- Representation invariant: the view is a prefix of the message; an open window lies inside the
    saved view. No constraint on `pos` (callers may `set_pos` anywhere). -/
structure OK (msg : Bytes) (c : Cur) : Prop where
  lim_le : c.lim ≤ msg.size
  orig_le : ∀ o, c.orig = some o → c.lim ≤ o ∧ o ≤ msg.size

end Cur

end Rsdns
