/-
  Rsdns.Model.Names — `src/names/utils.rs` (`check_label_bytes`, `check_name_bytes`),
  `append_label_bytes` / `append_label` / `from` / `set_root` / `Eq` / `Ord` / `Hash` / `PartialEq<&str>`
  of `src/names/name.rs` and `src/names/inline_name.rs`.

  A name value (`Name { name: String }`, `InlineName { arr: ArrayString<255> }`) is modelled by its
  text bytes (`Bytes`); the two Rust types are kept apart by `NameKind` wherever their code differs.
-/
import Rsdns.Generated
import Rsdns.Model.Basic

namespace Rsdns

open Generated

inductive NameKind where
  | heap    -- `Name`       (String)
  | inline  -- `InlineName` (ArrayString<255>)
deriving Repr, DecidableEq, Inhabited

/-- `check_label_bytes` -/
def checkLabel (l : Bytes) : Res Unit :=
  if h : l.size = 0 then .err .labelEmpty
  else if l.size > DOMAIN_NAME_LABEL_MAX_LENGTH then .err (.labelTooLong l.size)
  else
    match l.toList.find? (fun b => !(label_char_ok b.toNat)) with
    | some b => .err (.labelInvalidChar 0 b)
    | none =>
      -- `label.get_unchecked(0)` / `label.get_unchecked(len - 1)`: in range because `l.size ≠ 0`
      let fc := l[0]'(Nat.pos_of_ne_zero h)
      if label_first_bad fc.toNat then .err (.labelInvalidChar 1 fc)
      else
        let lc := l[l.size - 1]'(Nat.sub_lt (Nat.pos_of_ne_zero h) Nat.one_pos)
        if label_last_bad lc.toNat then .err (.labelInvalidChar 2 lc)
        else .ok ()

/-- byte of '.' -/
def DOT : UInt8 := 46

/-- `ArrayString<DOMAIN_NAME_MAX_LENGTH>` capacity -/
def INLINE_CAP : Nat := DOMAIN_NAME_MAX_LENGTH

/-- `append_label_bytes` (decode path) for both name types.
    After the `fix:` commit for C05 both first reject a label that would make the *wire* form exceed
    `DOMAIN_NAME_MAX_LENGTH` octets (text length + 1); the remaining `ArrayString` push checks of
    `InlineName` are kept as in the source. `from_utf8_unchecked(label)` requires ASCII. -/
def appendLabelBytes (k : NameKind) (name label : Bytes) : Res Bytes :=
  match checkLabel label with
  | .err e => .err e
  | .panic p => .panic p
  | .ub => .ub
  | .ok () =>
    if ¬ label.all (fun b => b.toNat < 128) then .ub   -- from_utf8_unchecked on non-UTF-8
    else
      let newLen := name.size + label.size + 1
      if newLen ≥ DOMAIN_NAME_MAX_LENGTH then .err (.nameTooLong (newLen + 1))
      else
        match k with
        | .heap => .ok ((name ++ label).push DOT)
        | .inline =>
          if name.size + label.size > INLINE_CAP then .err (.nameTooLong (name.size + label.size + 1))
          else
            let n1 := name ++ label
            if n1.size + 1 > INLINE_CAP then .err (.nameTooLong (n1.size + 1))
            else .ok (n1.push DOT)

/-- `append_label` (text API, only used by tests and by nothing in the decode path): cap 255 on the
    text. Kept so that the unit tests' expectations are represented. -/
def appendLabelText (k : NameKind) (name label : Bytes) : Res Bytes :=
  match checkLabel label with
  | .err e => .err e
  | .panic p => .panic p
  | .ub => .ub
  | .ok () =>
    match k with
    | .heap =>
      let newLen := name.size + label.size + 1
      if newLen > DOMAIN_NAME_MAX_LENGTH then .err (.nameTooLong newLen)
      else .ok ((name ++ label).push DOT)
    | .inline =>
      if name.size + label.size > INLINE_CAP then .err (.nameTooLong (name.size + label.size + 1))
      else
        let n1 := name ++ label
        if n1.size + 1 > INLINE_CAP then .err (.nameTooLong (n1.size + 1))
        else .ok (n1.push DOT)

/-- root name `"."` -/
def rootName : Bytes := #[DOT]

end Rsdns
