/-
  Rsdns.Model.Reader — `src/message/header.rs`, `question.rs`, `reader/question_ref.rs`,
  `reader/section_tracker.rs`, `reader/message_reader/{reader,macros,record_marker}.rs`, `records/opt.rs`.

  `MessageReader` is a state machine: `Reader = (cursor, section_tracker, done)`; every public method
  is a function `Reader → Out × Reader` (the receiver is `&mut self`, so the state is returned
  whatever the outcome). `u16` counters are `Nat` with explicit overflow/underflow panics (the
  checked-build semantics) and explicit `as u16` truncation (`% 65536`).
-/
import Rsdns.Model.RData

set_option linter.unusedVariables false

namespace Rsdns

open Generated

/-! ### Header, Question, Opt -/

structure Header where
  id : Nat
  flags : Nat
  qd : Nat
  an : Nat
  ns : Nat
  ar : Nat
deriving Repr, DecidableEq, Inhabited

/-- `Reader<Header> for Cursor`: one length test, then six unchecked big-endian reads -/
def readHeader (msg : Bytes) : CurM Header := fun c =>
  if c.len ≥ HEADER_LENGTH then
    (do
      let id ← CurM.lift (Cur.u16beUnchecked msg)
      let flags ← CurM.lift (Cur.u16beUnchecked msg)
      let qd ← CurM.lift (Cur.u16beUnchecked msg)
      let an ← CurM.lift (Cur.u16beUnchecked msg)
      let ns ← CurM.lift (Cur.u16beUnchecked msg)
      let ar ← CurM.lift (Cur.u16beUnchecked msg)
      pure { id, flags, qd, an, ns, ar : Header }) c
  else (.err .endOfBuffer, c)

/-- a decoded `Question` (qname: `InlineName`) -/
structure Question where
  qname : Bytes
  qtype : Nat
  qclass : Nat
deriving Repr, DecidableEq, Inhabited

/-- `Reader<Question> for Cursor` -/
def readQuestion (msg : Bytes) : CurM Question := do
  let qname ← CurM.readName .inline msg
  let qtype ← CurM.u16be msg
  let qclass ← CurM.u16be msg
  pure { qname, qtype, qclass }

/-- a `QuestionRef`: the `NameRef` is a clone of the cursor, i.e. a position (plus the view) -/
structure QuestionRef where
  qname : Cur
  qtype : Nat
  qclass : Nat
deriving Repr, DecidableEq, Inhabited

/-- `Reader<QuestionRef> for Cursor` -/
def readQuestionRef (msg : Bytes) : CurM QuestionRef := fun c =>
  (do
    let _ ← CurM.skipName msg
    let qtype ← CurM.u16be msg
    let qclass ← CurM.u16be msg
    pure { qname := c, qtype, qclass : QuestionRef }) c

/-- `Cursor::skip_question` -/
def skipQuestion (msg : Bytes) : CurM Unit := do
  let _ ← CurM.skipName msg
  CurM.skip 4

/-- `Cursor::skip_rr` -/
def skipRr (msg : Bytes) : CurM Unit := do
  let _ ← CurM.skipName msg
  CurM.skip 8
  let rdLen ← CurM.u16be msg
  CurM.skip rdLen

structure Opt where
  udpPayloadSize : Nat
  rcodeExtension : Nat
  version : Nat
  flags : Nat
deriving Repr, DecidableEq, Inhabited

/-- `Opt::from_msg(rclass, ttl)` — field expressions from `Rsdns.Generated` -/
def Opt.fromMsg (rclass ttl : Nat) : Opt :=
  { udpPayloadSize := opt_udp_payload_size rclass ttl, rcodeExtension := opt_rcode_extension rclass ttl,
    version := opt_version rclass ttl, flags := opt_flags rclass ttl }

/-! ### SectionTracker -/

structure Counts where
  total : Nat
  read : Nat
deriving Repr, DecidableEq, Inhabited

/-- `SectionTracker { qd, sections: [Counts; 3], offsets: [u16; 3] }`; sections are indexed 0,1,2 -/
structure Tracker where
  qd : Counts
  sec : Nat → Counts
  off : Nat → Nat

instance : Inhabited Tracker := ⟨{ qd := ⟨0, 0⟩, sec := fun _ => ⟨0, 0⟩, off := fun _ => 0 }⟩

def Tracker.default : Tracker := { qd := ⟨0, 0⟩, sec := fun _ => ⟨0, 0⟩, off := fun _ => 0 }

@[inline] def upd {α} (f : Nat → α) (i : Nat) (v : α) : Nat → α := fun j => if j = i then v else f j

/-- `SectionTracker::new(header)` (used by `Records`) -/
def Tracker.new (h : Header) : Tracker :=
  { qd := ⟨h.qd, 0⟩,
    sec := fun i => if i = 0 then ⟨h.an, 0⟩ else if i = 1 then ⟨h.ns, 0⟩ else if i = 2 then ⟨h.ar, 0⟩ else ⟨0, 0⟩,
    off := fun _ => 0 }

/-- `SectionTracker::set(header)` -/
def Tracker.set (t : Tracker) (h : Header) : Tracker :=
  { t with qd := { t.qd with total := h.qd },
           sec := upd (upd (upd t.sec 0 { t.sec 0 with total := h.an }) 1 { t.sec 1 with total := h.ns })
                   2 { t.sec 2 with total := h.ar } }

/-- `pos as u16` -/
@[inline] def asU16 (n : Nat) : Nat := n % 65536

/-- the back-filling loop of `next_section`: `for p in (0..s_num).rev()` -/
def backFill (t : Tracker) (pos : Nat) : Nat → Tracker
  | 0 => t
  | p + 1 =>
    if t.off p = 0 ∧ (t.sec p).total = 0 then backFill { t with off := upd t.off p (asU16 pos) } pos p
    else t

/-- `next_section(pos)`: the first section with records left, recording/back-filling offsets -/
def Tracker.nextSectionFrom (t : Tracker) (pos : Nat) : Nat → Option Nat × Tracker
  | 0 => (none, t)
  | k + 1 =>
    let s := 3 - (k + 1)
    let counts := t.sec s
    if counts.read < counts.total then
      let t1 := if counts.read = 0 ∧ t.off s = 0 then { t with off := upd t.off s (asU16 pos) } else t
      (some s, backFill t1 pos s)
    else Tracker.nextSectionFrom t pos k

def Tracker.nextSection (t : Tracker) (pos : Nat) : Option Nat × Tracker := t.nextSectionFrom pos 3

/-- `section_offset(section)` -/
def Tracker.sectionOffset (t : Tracker) (s : Nat) : Option Nat :=
  if t.off s ≠ 0 then some (t.off s) else none

/-- `seek(section)` -/
def Tracker.seek (t : Tracker) (section_ : Nat) : Tracker :=
  { t with sec := fun s =>
      if s < 3 then
        if s < section_ then { (t.sec s) with read := (t.sec s).total } else { (t.sec s) with read := 0 }
      else t.sec s }

/-- the forward-filling loop shared by `section_read` and `question_read`: `for n in from..3` -/
def fwdFill (t : Tracker) (pos : Nat) (n : Nat) : Nat → Tracker
  | 0 => t
  | fuel + 1 =>
    if n < 3 then
      if t.off n = 0 then
        let t1 := { t with off := upd t.off n (asU16 pos) }
        if (t1.sec n).total ≠ 0 then t1 else fwdFill t1 pos (n + 1) fuel
      else t
    else t

/-- `section_read(section, pos)`; `counts.read += 1` is checked `u16` arithmetic -/
def Tracker.sectionRead (t : Tracker) (s : Nat) (pos : Nat) : Res Tracker :=
  let counts := t.sec s
  if counts.read + 1 > 65535 then .panic .overflow
  else
    let t1 := { t with sec := upd t.sec s { counts with read := counts.read + 1 } }
    if counts.total = counts.read + 1 then .ok (fwdFill t1 pos (s + 1) 3) else .ok t1

/-- `question_read(pos)` -/
def Tracker.questionRead (t : Tracker) (pos : Nat) : Res Tracker :=
  if t.qd.read + 1 > 65535 then .panic .overflow
  else
    let t1 := { t with qd := { t.qd with read := t.qd.read + 1 } }
    if t1.qd.total = t1.qd.read then .ok (fwdFill t1 pos 0 3) else .ok t1

/-- `(counts.total - counts.read) as usize` — checked `u16` subtraction -/
def Counts.left (c : Counts) : Res Nat :=
  if c.read > c.total then .panic .overflow else .ok (c.total - c.read)

def Tracker.recordsLeftIn (t : Tracker) (s : Nat) : Res Nat := (t.sec s).left

def Tracker.recordsLeft (t : Tracker) : Res Nat :=
  match (t.sec 0).left, (t.sec 1).left, (t.sec 2).left with
  | .ok a, .ok b, .ok c => .ok (a + b + c)
  | .panic p, _, _ => .panic p
  | _, .panic p, _ => .panic p
  | _, _, .panic p => .panic p
  | _, _, _ => .ub  -- unreachable: `left` only returns ok or panic

def Tracker.questionsLeft (t : Tracker) : Res Nat := t.qd.left

/-! ### RecordMarker -/

structure Marker where
  offset : Nat
  typeOffset : Nat
  rtype : Nat
  rclass : Nat
  ttl : Nat
  rdlen : Nat
  section_ : Nat
deriving Repr, DecidableEq, Inhabited

/-- `RecordMarker::rdata_pos()` -/
def Marker.rdataPos (m : Marker) : Nat := m.typeOffset + TYPE_TO_RDATA_OFFSET

/-! ### MessageReader -/

structure Reader where
  cur : Cur
  tr : Tracker
  done : Bool

instance : Inhabited Reader := ⟨{ cur := default, tr := default, done := false }⟩

/-- `MessageReader::new(msg)` -/
def Reader.new (msg : Bytes) : Res Reader :=
  if msg.size > 65535 then .err (.messageTooLong msg.size)
  else .ok { cur := Cur.new msg, tr := Tracker.default, done := false }

/-- run a cursor computation on the reader's cursor -/
@[inline] def Reader.onCur {α} (r : Reader) (f : CurM α) : Res α × Reader :=
  match f r.cur with
  | (res, c) => (res, { r with cur := c })

/-- mark the reader done when the result is an error (`if res.is_err() { self.done = true }`).
    A panic or UB outcome aborts the call; the state is irrelevant then. -/
@[inline] def markDone {α} (x : Res α × Reader) : Res α × Reader :=
  match x with
  | (.err e, r) => (.err e, { r with done := true })
  | other => other

/-- `header()` — NOT gated by `done` -/
def Reader.header (msg : Bytes) (r : Reader) : Res Header × Reader :=
  markDone <|
    match r.onCur (readHeader msg) with
    | (.ok h, r1) => (.ok h, { r1 with tr := r1.tr.set h })
    | (.err e, r1) => (.err e, r1)
    | (.panic p, r1) => (.panic p, r1)
    | (.ub, r1) => (.ub, r1)

/-- which of the four `question!` instantiations -/
inductive QKind where
  | question | questionRef | theQuestion | theQuestionRef
deriving Repr, DecidableEq, Inhabited

inductive QOut where
  | owned (q : Question)
  | ref (q : QuestionRef)
deriving Repr, DecidableEq, Inhabited

/-- `$self.cursor.read()` of the `question!` macro: an owned `Question` or a `QuestionRef` -/
def Reader.readQ (msg : Bytes) (owned : Bool) (r : Reader) : Res QOut × Reader :=
  if owned then
    match r.onCur (readQuestion msg) with
    | (.ok q, r1) => (.ok (.owned q), r1)
    | (.err e, r1) => (.err e, r1)
    | (.panic p, r1) => (.panic p, r1)
    | (.ub, r1) => (.ub, r1)
  else
    match r.onCur (readQuestionRef msg) with
    | (.ok q, r1) => (.ok (.ref q), r1)
    | (.err e, r1) => (.err e, r1)
    | (.panic p, r1) => (.panic p, r1)
    | (.ub, r1) => (.ub, r1)

/-- `if res.is_ok() { question_read(pos) } else { done = true }` -/
def Reader.afterQ (x : Res QOut × Reader) : Res QOut × Reader :=
  match x with
  | (.ok q, r1) =>
    match r1.tr.questionRead r1.cur.pos with
    | .ok t => (.ok q, { r1 with tr := t })
    | .panic p => (.panic p, r1)
    | .err e => (.err e, r1)
    | .ub => (.ub, r1)
  | (.err e, r1) => (.err e, { r1 with done := true })
  | other => other

/-- the `question!` macro -/
def Reader.question (msg : Bytes) (k : QKind) (r : Reader) : Res QOut × Reader :=
  if r.done then (.err .readerDone, r)
  else
    match r.tr.questionsLeft with
    | .panic p => (.panic p, r)
    | .err e => (.err e, r)
    | .ub => (.ub, r)
    | .ok left =>
      let single := k == .theQuestion || k == .theQuestionRef
      if !single && left == 0 then (.err .readerDone, { r with done := true })
      else if single && left != 1 then (.err (.badQuestionsCount left), { r with done := true })
      else Reader.afterQ (r.readQ msg (k == .question || k == .theQuestion))

/-- `skip_questions_impl`: `while questions_left() > 0 { skip_question()?; question_read(pos) }` -/
def Reader.skipQuestionsImpl (msg : Bytes) (r : Reader) : Nat → Res Unit × Reader
  | 0 => (.ok (), r)   -- fuel: at most 65535 questions; the driver passes qd.total - qd.read + 1
  | fuel + 1 =>
    match r.tr.questionsLeft with
    | .panic p => (.panic p, r)
    | .err e => (.err e, r)
    | .ub => (.ub, r)
    | .ok left =>
      if left > 0 then
        match r.onCur (skipQuestion msg) with
        | (.ok (), r1) =>
          match r1.tr.questionRead r1.cur.pos with
          | .ok t => Reader.skipQuestionsImpl msg { r1 with tr := t } fuel
          | .panic p => (.panic p, r1)
          | .err e => (.err e, r1)
          | .ub => (.ub, r1)
        | (.err e, r1) => (.err e, r1)
        | (.panic p, r1) => (.panic p, r1)
        | (.ub, r1) => (.ub, r1)
      else (.ok (), r)

/-- fuel that always suffices for the question loop -/
def Reader.qFuel (r : Reader) : Nat := r.tr.qd.total - r.tr.qd.read + 1

/-- `skip_questions()` -/
def Reader.skipQuestions (msg : Bytes) (r : Reader) : Res Unit × Reader :=
  if r.done then (.err .readerDone, r)
  else markDone (r.skipQuestionsImpl msg r.qFuel)

/-- `calc_section()` -/
def Reader.calcSection (r : Reader) : Res Nat × Reader :=
  match r.tr.nextSection r.cur.pos with
  | (some s, t) => (.ok s, { r with tr := t })
  | (none, t) => (.err .readerDone, { r with tr := t })

/-- `raw_marker_impl(pos, section)` -/
def Reader.rawMarker (msg : Bytes) (r : Reader) (pos section_ : Nat) : Res Marker × Reader :=
  let typeOffset := r.cur.pos
  r.onCur (do
    let rtype ← CurM.u16be msg
    let rclass ← CurM.u16be msg
    let ttl ← CurM.u32be msg
    let rdlen ← CurM.u16be msg
    pure { offset := pos, typeOffset, rtype, rclass, ttl, rdlen, section_ : Marker })

/-- how the owner name of a record header is consumed -/
inductive HKind where
  | marker            -- `record_marker`: skip
  | ref               -- `record_header_ref`: clone cursor, skip
  | owned (k : NameKind)  -- `record_header::<N>`: read
deriving Repr, DecidableEq, Inhabited

inductive HName where
  | none
  | ref (c : Cur)
  | owned (text : Bytes)
deriving Repr, DecidableEq, Inhabited

/-- `marker_impl` / `record_header_ref_impl` / `record_header_impl::<N>` -/
def Reader.headerImpl (msg : Bytes) (k : HKind) (r : Reader) : Res (HName × Marker) × Reader :=
  let pos := r.cur.pos
  match r.calcSection with
  | (.err e, r1) => (.err e, r1)
  | (.panic p, r1) => (.panic p, r1)
  | (.ub, r1) => (.ub, r1)
  | (.ok section_, r1) =>
    let nameRef := r1.cur
    let nm : Res HName × Reader :=
      match k with
      | .marker => match r1.onCur (CurM.skipName msg) with
        | (.ok _, r2) => (.ok .none, r2)
        | (.err e, r2) => (.err e, r2)
        | (.panic p, r2) => (.panic p, r2)
        | (.ub, r2) => (.ub, r2)
      | .ref => match r1.onCur (CurM.skipName msg) with
        | (.ok _, r2) => (.ok (.ref nameRef), r2)
        | (.err e, r2) => (.err e, r2)
        | (.panic p, r2) => (.panic p, r2)
        | (.ub, r2) => (.ub, r2)
      | .owned nk => match r1.onCur (CurM.readName nk msg) with
        | (.ok t, r2) => (.ok (.owned t), r2)
        | (.err e, r2) => (.err e, r2)
        | (.panic p, r2) => (.panic p, r2)
        | (.ub, r2) => (.ub, r2)
    match nm with
    | (.ok hn, r2) =>
      match r2.rawMarker msg pos section_ with
      | (.ok m, r3) => (.ok (hn, m), r3)
      | (.err e, r3) => (.err e, r3)
      | (.panic p, r3) => (.panic p, r3)
      | (.ub, r3) => (.ub, r3)
    | (.err e, r2) => (.err e, r2)
    | (.panic p, r2) => (.panic p, r2)
    | (.ub, r2) => (.ub, r2)

/-- `record_marker()` / `record_header_ref()` / `record_header::<N>()` -/
def Reader.recordHeader (msg : Bytes) (k : HKind) (r : Reader) : Res (HName × Marker) × Reader :=
  if r.done then (.err .readerDone, r)
  else markDone (r.headerImpl msg k)

/-- after a successful G2 body: `section_read(marker.section, cursor.pos())`, else `done = true` -/
def Reader.finishData {α} (m : Marker) (x : Res α × Reader) : Res α × Reader :=
  match x with
  | (.ok v, r1) =>
    match r1.tr.sectionRead m.section_ r1.cur.pos with
    | .ok t => (.ok v, { r1 with tr := t })
    | .panic p => (.panic p, r1)
    | .err e => (.err e, r1)
    | .ub => (.ub, r1)
  | (.err e, r1) => (.err e, { r1 with done := true })
  | other => other

/-- `skip_record_data_impl(marker)` -/
def Reader.skipDataImpl (r : Reader) (m : Marker) : Res Unit × Reader :=
  Reader.finishData m (r.onCur (CurM.skip m.rdlen))

/-- `debug_assert!(self.cursor.pos() == marker.rdata_pos())` -/
@[inline] def Reader.assertAt {α} (r : Reader) (m : Marker) (k : Res α × Reader) : Res α × Reader :=
  if r.cur.pos = m.rdataPos then k else (.panic .debugAssert, r)

/-- `skip_record_data(marker)` -/
def Reader.skipData (r : Reader) (m : Marker) : Res Unit × Reader :=
  r.assertAt m (if r.done then (.err .readerDone, r) else r.skipDataImpl m)

/-- `record_data_bytes(marker)` -/
def Reader.dataBytes (msg : Bytes) (r : Reader) (m : Marker) : Res Bytes × Reader :=
  r.assertAt m (if r.done then (.err .readerDone, r)
    else Reader.finishData m (r.onCur (CurM.slice msg m.rdlen)))

/-- `record_data::<D>(marker)` -/
def Reader.data (msg : Bytes) (t : RType) (r : Reader) (m : Marker) : Res RData × Reader :=
  r.assertAt m (if r.done then (.err .readerDone, r)
    else Reader.finishData m (r.onCur (readRData t msg m.rdlen)))

/-- `opt_record(marker)`: `done` is tested before the debug assertions here -/
def Reader.optRecord (r : Reader) (m : Marker) : Res Opt × Reader :=
  if r.done then (.err .readerDone, r)
  else r.assertAt m (
    if m.rtype ≠ TYPE_OPT then (.panic .debugAssert, r)
    else Reader.finishData m (
      match r.onCur (CurM.skip m.rdlen) with
      | (.ok (), r1) => (.ok (Opt.fromMsg m.rclass m.ttl), r1)
      | (.err e, r1) => (.err e, r1)
      | (.panic p, r1) => (.panic p, r1)
      | (.ub, r1) => (.ub, r1)))

/-- `skip_section_impl(section)`: `while records_left_in(section) > 0 { marker_impl()?; skip_record_data_impl()? }` -/
def Reader.skipSectionImpl (msg : Bytes) (s : Nat) (r : Reader) : Nat → Res Unit × Reader
  | 0 => (.ok (), r)
  | fuel + 1 =>
    match r.tr.recordsLeftIn s with
    | .panic p => (.panic p, r)
    | .err e => (.err e, r)
    | .ub => (.ub, r)
    | .ok left =>
      if left > 0 then
        match r.headerImpl msg .marker with
        | (.ok (_, m), r1) =>
          match r1.skipDataImpl m with
          | (.ok (), r2) => Reader.skipSectionImpl msg s r2 fuel
          | (.err e, r2) => (.err e, r2)
          | (.panic p, r2) => (.panic p, r2)
          | (.ub, r2) => (.ub, r2)
        | (.err e, r1) => (.err e, r1)
        | (.panic p, r1) => (.panic p, r1)
        | (.ub, r1) => (.ub, r1)
      else (.ok (), r)

/-- fuel for the record loops: every iteration reads one record of the lowest non-exhausted section
    (so the total number of records left decreases) or stops -/
def Reader.sFuel (r : Reader) (_s : Nat) : Nat :=
  ((r.tr.sec 0).total - (r.tr.sec 0).read) + ((r.tr.sec 1).total - (r.tr.sec 1).read) +
    ((r.tr.sec 2).total - (r.tr.sec 2).read) + 1

/-- `seek_impl(section)` -/
def Reader.seekImpl (msg : Bytes) (s : Nat) (r : Reader) : Res Unit × Reader :=
  match r.skipQuestionsImpl msg r.qFuel with
  | (.ok (), r1) =>
    if s = 0 then (.ok (), r1)
    else
      match r1.skipSectionImpl msg 0 (r1.sFuel 0) with
      | (.ok (), r2) =>
        if s = 1 then (.ok (), r2)
        else r2.skipSectionImpl msg 1 (r2.sFuel 1)
      | other => other
  | other => other

/-- `seek(section)` -/
def Reader.seek (msg : Bytes) (s : Nat) (r : Reader) : Res Unit × Reader :=
  if r.done then (.err .readerDone, r)
  else
    match r.tr.sectionOffset s with
    | some offset => (.ok (), { r with cur := r.cur.setPos offset, tr := r.tr.seek s })
    | none =>
      if r.cur.pos ≠ HEADER_LENGTH then (.err (.offsetUnknown s), r)
      else markDone (r.seekImpl msg s)

/-- `questions_count()` -/
def Reader.questionsCount (r : Reader) : Res Nat := if !r.done then r.tr.questionsLeft else .ok 0
/-- `records_count()` -/
def Reader.recordsCount (r : Reader) : Res Nat := if !r.done then r.tr.recordsLeft else .ok 0
/-- `records_count_in(section)` -/
def Reader.recordsCountIn (r : Reader) (s : Nat) : Res Nat := if !r.done then r.tr.recordsLeftIn s else .ok 0

/-! ### marker-based random access (`&self`) -/

/-- `record_data_bytes_at(marker)` -/
def Reader.dataBytesAt (msg : Bytes) (r : Reader) (m : Marker) : Res Bytes :=
  (CurM.slice msg m.rdlen (r.cur.cloneWithPos m.rdataPos)).1

/-- `record_data_at::<D>(marker)` -/
def Reader.dataAt (msg : Bytes) (t : RType) (r : Reader) (m : Marker) : Res RData :=
  (readRData t msg m.rdlen (r.cur.cloneWithPos m.rdataPos)).1

/-- `name_ref_at(marker)` -/
def Reader.nameRefAt (r : Reader) (m : Marker) : Cur := r.cur.cloneWithPos m.rdataPos

end Rsdns
