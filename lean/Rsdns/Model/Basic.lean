/-
  Rsdns.Model.Basic — outcome type, error type and byte buffers shared by every model file.

  Conventions (DESIGN.md §4):
  * `Res.ok`    — the Rust call returned `Ok(v)`;
  * `Res.err`   — it returned `Err(Error::…)`;
  * `Res.panic` — it panicked (unwrap, `debug_assert!`, checked integer overflow, slice indexing);
  * `Res.ub`    — the model's copy of an *unchecked* site (`get_unchecked`, `read_unaligned`,
                  `from_utf8_unchecked`, `set_len`) was reached with its precondition violated.
  Model files import nothing outside core Lean, so the driver links as a native executable.
-/
namespace Rsdns

abbrev Bytes := Array UInt8

/-- `crate::Error`, restricted to the variants the modelled code can produce. Payloads are kept. -/
inductive Err where
  | endOfBuffer
  | endOfWindow
  | cursorAlreadyInWindow
  | cursorNotInWindow
  | cursorWindowError (windowEnd pos : Nat)
  | badPointer (pointer maxOffset : Nat)
  | tooMuchPointers
  | badLabelType (b : UInt8)
  | labelEmpty
  | labelTooLong (n : Nat)
  /-- `why`: 0 = invalid character, 1 = first character is '-', 2 = last character is '-' -/
  | labelInvalidChar (why : Nat) (b : UInt8)
  | nameTooLong (n : Nat)
  | bufferTooShort (n : Nat)
  | badQuestionsCount (n : Nat)
  /-- payload: the message type found (`true` = Response, `false` = Query) -/
  | badMessageType (isResponse : Bool)
  | badResponseCode (rc : Nat)
  | messageTruncated
  | messageTooLong (n : Nat)
  | offsetUnknown (sec : Nat)
  | noAnswer
  | unexpectedType (t : Nat)
  | readerDone
  | unsupportedClass (c : Nat)
  | badParam
  | timeout
  /-- an `std::io::Error` of the given kind (client models only) -/
  | io (kind : Nat)
deriving Repr, DecidableEq, Inhabited

/-- Why a panic happened; C17 distinguishes documented debug assertions from the rest. -/
inductive PanicKind where
  | debugAssert | overflow | unwrap | index
deriving Repr, DecidableEq, Inhabited

inductive Res (α : Type) where
  | ok (a : α)
  | err (e : Err)
  | panic (k : PanicKind)
  | ub
deriving Repr, Inhabited, DecidableEq

namespace Res

@[inline] def bind {α β : Type} (x : Res α) (f : α → Res β) : Res β :=
  match x with
  | .ok a => f a
  | .err e => .err e
  | .panic k => .panic k
  | .ub => .ub

instance : Monad Res where
  pure := .ok
  bind := Res.bind

def isOk {α} : Res α → Bool
  | .ok _ => true
  | _ => false

def isErr {α} : Res α → Bool
  | .err _ => true
  | _ => false

/-- "returned a value or an error": neither panic nor undefined behaviour. -/
def safe {α} : Res α → Prop
  | .ok _ => True
  | .err _ => True
  | .panic _ => False
  | .ub => False

/-- no undefined behaviour (panics tolerated) — the C17 notion. -/
def noUB {α} : Res α → Prop
  | .ub => False
  | _ => True

instance {α} (r : Res α) : Decidable r.safe := by
  cases r <;> simp [safe] <;> infer_instance

instance {α} (r : Res α) : Decidable r.noUB := by
  cases r <;> simp [noUB] <;> infer_instance

@[simp] theorem bind_ok {α β} (a : α) (f : α → Res β) : (Res.ok a >>= f) = f a := rfl
@[simp] theorem bind_err {α β} (e : Err) (f : α → Res β) : (Res.err e >>= f) = .err e := rfl
@[simp] theorem bind_panic {α β} (k) (f : α → Res β) : (Res.panic k >>= f) = .panic k := rfl
@[simp] theorem bind_ub {α β} (f : α → Res β) : (Res.ub >>= f) = .ub := rfl
@[simp] theorem pure_eq {α} (a : α) : (pure a : Res α) = .ok a := rfl

@[simp] theorem safe_ok {α} (a : α) : (Res.ok a).safe := trivial
@[simp] theorem safe_err {α} (e : Err) : (Res.err e : Res α).safe := trivial
@[simp] theorem not_safe_panic {α} (k) : ¬ (Res.panic k : Res α).safe := id
@[simp] theorem not_safe_ub {α} : ¬ (Res.ub : Res α).safe := id
@[simp] theorem noUB_ok {α} (a : α) : (Res.ok a).noUB := trivial
@[simp] theorem noUB_err {α} (e : Err) : (Res.err e : Res α).noUB := trivial
@[simp] theorem noUB_panic {α} (k) : (Res.panic k : Res α).noUB := trivial
@[simp] theorem not_noUB_ub {α} : ¬ (Res.ub : Res α).noUB := id

theorem safe_noUB {α} {r : Res α} (h : r.safe) : r.noUB := by
  cases r <;> simp_all [safe, noUB]

end Res

/-! Constants that the translator also extracts from `/repo` (`Rsdns.Generated`); the model uses the
generated values, these are only the fall-back names used in documentation. -/

end Rsdns
