/-
  Rsdns.Model.RData — `src/records/data/rfc1035.rs`, `rfc3596.rs`, `data/macros.rs`,
  `src/message/character_string.rs`: the 17 `read_rr_data` implementations and the window discipline.

  Stateful cursor code is written in `CurM`, a state-and-outcome monad: `c ↦ (outcome, cursor after
  the call)`.  The cursor is returned *whatever the outcome* — a Rust `?` leaves `&mut self` as it was
  at the failing call, e.g. with the RDLENGTH window still open; later calls see that state.
-/
import Rsdns.Model.Cursor
import Rsdns.Model.Labels

set_option linter.unusedVariables false

namespace Rsdns

/-- a computation on `&mut Cursor` -/
def CurM (α : Type) := Cur → Res α × Cur

namespace CurM

@[inline] def pure {α} (a : α) : CurM α := fun c => (.ok a, c)

@[inline] def bind {α β} (x : CurM α) (f : α → CurM β) : CurM β := fun c =>
  match x c with
  | (.ok a, c') => f a c'
  | (.err e, c') => (.err e, c')
  | (.panic p, c') => (.panic p, c')
  | (.ub, c') => (.ub, c')

instance : Monad CurM where
  pure := CurM.pure
  bind := CurM.bind

/-- lift a cursor method that returns the advanced cursor only on success -/
@[inline] def lift {α} (f : Cur → Res (α × Cur)) : CurM α := fun c =>
  match f c with
  | .ok (a, c') => (.ok a, c')
  | .err e => (.err e, c)
  | .panic p => (.panic p, c)
  | .ub => (.ub, c)

@[inline] def lift0 (f : Cur → Res Cur) : CurM Unit := fun c =>
  match f c with
  | .ok c' => (.ok (), c')
  | .err e => (.err e, c)
  | .panic p => (.panic p, c)
  | .ub => (.ub, c)

@[inline] def fail {α} (e : Err) : CurM α := fun c => (.err e, c)
@[inline] def panic {α} (k : PanicKind) : CurM α := fun c => (.panic k, c)

def u8 (msg : Bytes) : CurM UInt8 := lift (Cur.u8 msg)
def u16be (msg : Bytes) : CurM Nat := lift (Cur.u16be msg)
def u32be (msg : Bytes) : CurM Nat := lift (Cur.u32be msg)
def u128be (msg : Bytes) : CurM Nat := lift (Cur.u128be msg)
def slice (msg : Bytes) (n : Nat) : CurM Bytes := lift (fun c => Cur.slice msg c n)
def skip (n : Nat) : CurM Unit := lift0 (fun c => Cur.skip c n)
def window (msg : Bytes) (n : Nat) : CurM Unit := lift0 (fun c => Cur.window msg c n)
def closeWindow : CurM Unit := lift0 Cur.closeWindow
def readName (k : NameKind) (msg : Bytes) : CurM Bytes := lift (Rsdns.readName k msg)
def skipName (msg : Bytes) : CurM Nat := lift (Rsdns.skipName msg)

end CurM

/-- the 17 typed RDATA formats (`RData::RTYPE`) -/
inductive RType where
  | a | ns | md | mf | cname | soa | mb | mg | mr | null | wks | ptr | hinfo | minfo | mx | txt | aaaa
deriving Repr, DecidableEq, Inhabited

def RType.all : List RType :=
  [.a, .ns, .md, .mf, .cname, .soa, .mb, .mg, .mr, .null, .wks, .ptr, .hinfo, .minfo, .mx, .txt, .aaaa]

open Generated in
/-- `D::RTYPE.value()` -/
def RType.code : RType → Nat
  | .a => TYPE_A | .ns => TYPE_NS | .md => TYPE_MD | .mf => TYPE_MF | .cname => TYPE_CNAME
  | .soa => TYPE_SOA | .mb => TYPE_MB | .mg => TYPE_MG | .mr => TYPE_MR | .null => TYPE_NULL
  | .wks => TYPE_WKS | .ptr => TYPE_PTR | .hinfo => TYPE_HINFO | .minfo => TYPE_MINFO
  | .mx => TYPE_MX | .txt => TYPE_TXT | .aaaa => TYPE_AAAA

/-- decoded record data; names are their text bytes, addresses and integers are numbers -/
inductive RData where
  | a (address : Nat)
  | aaaa (address : Nat)
  /-- the single-name types of `rr_dn_data!`: NS MD MF CNAME MB MG MR PTR -/
  | dn (t : RType) (name : Bytes)
  | soa (mname rname : Bytes) (serial refresh retry expire minimum : Nat)
  | null (anything : Bytes)
  | wks (address : Nat) (protocol : UInt8) (bitmap : Bytes)
  | hinfo (cpu os : Bytes)
  | minfo (rmailbx emailbx : Bytes)
  | mx (preference : Nat) (exchange : Bytes)
  | txt (text : Bytes)
deriving Repr, DecidableEq, Inhabited

/-- `read_character_string`: `let len = self.u8()?; Vec::from(self.slice(len)?)` -/
def readCharString (msg : Bytes) : CurM Bytes := do
  let len ← CurM.u8 msg
  CurM.slice msg len.toNat

/-- the `while rd_len > 0` loop of `Txt`; `rd_len -= len + 1` is `usize` arithmetic -/
def txtLoop (msg : Bytes) (rdLen : Nat) (text : Bytes) : CurM Bytes := fun c =>
  if h : rdLen > 0 then
    match hu : CurM.u8 msg c with
    | (.err e, c1) => (.err e, c1)
    | (.panic p, c1) => (.panic p, c1)
    | (.ub, c1) => (.ub, c1)
    | (.ok len, c1) =>
      let step : Res Bytes × Cur :=
        if len.toNat > 0 then
          match CurM.slice msg len.toNat c1 with
          | (.ok s, c2) => (.ok (text ++ s), c2)
          | (.err e, c2) => (.err e, c2)
          | (.panic p, c2) => (.panic p, c2)
          | (.ub, c2) => (.ub, c2)
        else (.ok text, c1)
      match step with
      | (.err e, c2) => (.err e, c2)
      | (.panic p, c2) => (.panic p, c2)
      | (.ub, c2) => (.ub, c2)
      | (.ok text', c2) =>
        if hlt : rdLen < len.toNat + 1 then (.panic .overflow, c2)
        else txtLoop msg (rdLen - (len.toNat + 1)) text' c2
  else (.ok text, c)
termination_by rdLen
decreasing_by omega

/-- the field-reading part of `read_rr_data` (between `window` and `close_window`) -/
def readRDataBody (t : RType) (msg : Bytes) (rdLen : Nat) : CurM RData :=
  match t with
  | .a => do let v ← CurM.u32be msg; pure (.a v)
  | .aaaa => do let v ← CurM.u128be msg; pure (.aaaa v)
  | .ns | .md | .mf | .cname | .mb | .mg | .mr | .ptr => do
      let n ← CurM.readName .heap msg; pure (.dn t n)
  | .soa => do
      let mname ← CurM.readName .heap msg
      let rname ← CurM.readName .heap msg
      let serial ← CurM.u32be msg
      let refresh ← CurM.u32be msg
      let retry ← CurM.u32be msg
      let expire ← CurM.u32be msg
      let minimum ← CurM.u32be msg
      pure (.soa mname rname serial refresh retry expire minimum)
  | .null => do let b ← CurM.slice msg rdLen; pure (.null b)
  | .wks => do
      let address ← CurM.u32be msg
      let protocol ← CurM.u8 msg
      -- `self.slice(rd_len - 5)` : usize subtraction
      if rdLen < 5 then CurM.panic .overflow
      else do
        let bitmap ← CurM.slice msg (rdLen - 5)
        pure (.wks address protocol bitmap)
  | .hinfo => do
      let cpu ← readCharString msg
      let os ← readCharString msg
      pure (.hinfo cpu os)
  | .minfo => do
      let r ← CurM.readName .heap msg
      let e ← CurM.readName .heap msg
      pure (.minfo r e)
  | .mx => do
      let p ← CurM.u16be msg
      let ex ← CurM.readName .heap msg
      pure (.mx p ex)
  | .txt => do
      -- `Vec::with_capacity(rd_len)` then the loop; `close_window` follows in `readRData`
      let text ← txtLoop msg rdLen #[]
      pure (.txt text)

/-- `RrDataReader::<D>::read_rr_data(rd_len)` = `D::from_cursor(c, rdlen)`:
    `self.window(rd_len)?; let rr = Ok(D { … ? … }); self.close_window()?; rr` -/
def readRData (t : RType) (msg : Bytes) (rdLen : Nat) : CurM RData := do
  CurM.window msg rdLen
  let rr ← readRDataBody t msg rdLen
  CurM.closeWindow
  pure rr

end Rsdns
