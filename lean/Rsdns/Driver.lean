/-
  Rsdns.Driver — request parsing and canonical printing for the line protocol.
  Every request kind evaluates *the same definitions the theorems are about*.
-/
import Rsdns.Model.Basic
import Rsdns.Model.Cursor
import Rsdns.Model.Names
import Rsdns.Model.Labels

namespace Rsdns.Driver

open Rsdns

def hexVal (c : Char) : Option Nat :=
  if '0' ≤ c ∧ c ≤ '9' then some (c.toNat - '0'.toNat)
  else if 'a' ≤ c ∧ c ≤ 'f' then some (c.toNat - 'a'.toNat + 10)
  else if 'A' ≤ c ∧ c ≤ 'F' then some (c.toNat - 'A'.toNat + 10)
  else none

/-- parse a hex string ("-" = empty) -/
def parseHex (s : String) : Option Bytes :=
  if s == "-" then some #[] else
  let rec go (cs : List Char) (acc : Bytes) : Option Bytes :=
    match cs with
    | [] => some acc
    | [_] => none
    | a :: b :: rest =>
      match hexVal a, hexVal b with
      | some x, some y => go rest (acc.push (UInt8.ofNat (x * 16 + y)))
      | _, _ => none
  go s.toList (Array.mkEmpty (s.length / 2))

def hexDigit (n : Nat) : Char :=
  if n < 10 then Char.ofNat (48 + n) else Char.ofNat (87 + n)

def toHex (b : Bytes) : String :=
  if b.size = 0 then "-" else
  String.ofList (b.toList.flatMap (fun x => [hexDigit (x.toNat / 16), hexDigit (x.toNat % 16)]))

def showErr : Err → String
  | .endOfBuffer => "EndOfBuffer"
  | .endOfWindow => "EndOfWindow"
  | .cursorAlreadyInWindow => "CursorAlreadyInWindow"
  | .cursorNotInWindow => "CursorNotInWindow"
  | .cursorWindowError w p => s!"CursorWindowError({w},{p})"
  | .badPointer p m => s!"DomainNameBadPointer({p},{m})"
  | .tooMuchPointers => "DomainNameTooMuchPointers"
  | .badLabelType b => s!"DomainNameBadLabelType({b.toNat})"
  | .labelEmpty => "DomainNameLabelIsEmpty"
  | .labelTooLong n => s!"DomainNameLabelTooLong({n})"
  | .labelInvalidChar w b => s!"DomainNameLabelInvalidChar({w},{b.toNat})"
  | .nameTooLong n => s!"DomainNameTooLong({n})"
  | .bufferTooShort n => s!"BufferTooShort({n})"
  | .badQuestionsCount n => s!"BadQuestionsCount({n})"
  | .badMessageType r => if r then "BadMessageType(Response)" else "BadMessageType(Query)"
  | .badResponseCode n => s!"BadResponseCode({n})"
  | .messageTruncated => "MessageTruncated"
  | .messageTooLong n => s!"MessageTooLong({n})"
  | .offsetUnknown s => s!"RecordsSectionOffsetUnknown({s})"
  | .noAnswer => "NoAnswer"
  | .unexpectedType t => s!"UnexpectedType({t})"
  | .readerDone => "ReaderDone"
  | .unsupportedClass c => s!"UnsupportedClass({c})"
  | .badParam => "BadParam"
  | .timeout => "Timeout"
  | .io k => s!"IoError({k})"

def showPanic : PanicKind → String
  | .debugAssert => "panic(debug_assert)"
  | .overflow => "panic(overflow)"
  | .unwrap => "panic(unwrap)"
  | .index => "panic(index)"

def showRes {α} (f : α → String) : Res α → String
  | .ok a => "ok " ++ f a
  | .err e => "err " ++ showErr e
  | .panic k => showPanic k
  | .ub => "ub"

/-- `name <mode> <pos> <hex>` -/
def answerName (mode : String) (pos : Nat) (msg : Bytes) : String :=
  let c := Cur.withPos msg pos
  match mode with
  | "heap" => showRes (fun (t, c') => s!"{toHex t} next={c'.pos}") (readName .heap msg c)
  | "inline" => showRes (fun (t, c') => s!"{toHex t} next={c'.pos}") (readName .inline msg c)
  | "skip" => showRes (fun (n, c') => s!"n={n} next={c'.pos}") (skipName msg c)
  | "iter" =>
    match Labels.drain msg (Labels.new c) [] with
    | .ok (.ok ls) => "ok " ++ String.intercalate "," (ls.map (fun l => s!"{toHex l.bytes}@{l.pos}"))
    | .ok (.error e) => "err " ++ showErr e
    | .err e => "err " ++ showErr e
    | .panic k => showPanic k
    | .ub => "ub"
  | _ => "bad-request"

def answer (line : String) : String :=
  match line.trimAscii.toString.splitOn " " with
  | ["name", mode, pos, hex] =>
    match pos.toNat?, parseHex hex with
    | some p, some msg => answerName mode p msg
    | _, _ => "bad-request"
  | _ => "bad-request"

end Rsdns.Driver
