/-
  Rsdns.Driver — request parsing and canonical printing for the line protocol.
  Every request kind evaluates *the same definitions the theorems are about*.
-/
import Rsdns.Model.Basic
import Rsdns.Model.Cursor
import Rsdns.Model.Names
import Rsdns.Model.Labels
import Rsdns.Model.RData
import Rsdns.Model.Reader
import Rsdns.Model.RecordSet
import Rsdns.Model.NameText
import Rsdns.Model.Client
import Rsdns.Model.Pass
import Rsdns.Model.Config

namespace Rsdns.Driver

open Rsdns

def hexVal (c : Char) : Option Nat :=
  if '0' ≤ c ∧ c ≤ '9' then some (c.toNat - '0'.toNat)
  else if 'a' ≤ c ∧ c ≤ 'f' then some (c.toNat - 'a'.toNat + 10)
  else if 'A' ≤ c ∧ c ≤ 'F' then some (c.toNat - 'A'.toNat + 10)
  else none

/-- parse a hex string ("-" = empty) -/
def parseHex (s : String) : Option Bytes :=
  if s == "-" then some #[] else
  let rec go (cs : List Char) (acc : Bytes) : Option Bytes :=
    match cs with
    | [] => some acc
    | [_] => none
    | a :: b :: rest =>
      match hexVal a, hexVal b with
      | some x, some y => go rest (acc.push (UInt8.ofNat (x * 16 + y)))
      | _, _ => none
  go s.toList (Array.mkEmpty (s.length / 2))

def hexDigit (n : Nat) : Char :=
  if n < 10 then Char.ofNat (48 + n) else Char.ofNat (87 + n)

def toHex (b : Bytes) : String :=
  if b.size = 0 then "-" else
  String.ofList (b.toList.flatMap (fun x => [hexDigit (x.toNat / 16), hexDigit (x.toNat % 16)]))

def showErr : Err → String
  | .endOfBuffer => "EndOfBuffer"
  | .endOfWindow => "EndOfWindow"
  | .cursorAlreadyInWindow => "CursorAlreadyInWindow"
  | .cursorNotInWindow => "CursorNotInWindow"
  | .cursorWindowError w p => s!"CursorWindowError({w},{p})"
  | .badPointer p m => s!"DomainNameBadPointer({p},{m})"
  | .tooMuchPointers => "DomainNameTooMuchPointers"
  | .badLabelType b => s!"DomainNameBadLabelType({b.toNat})"
  | .labelEmpty => "DomainNameLabelIsEmpty"
  | .labelTooLong n => s!"DomainNameLabelTooLong({n})"
  | .labelInvalidChar w b => s!"DomainNameLabelInvalidChar({w},{b.toNat})"
  | .nameTooLong n => s!"DomainNameTooLong({n})"
  | .bufferTooShort n => s!"BufferTooShort({n})"
  | .badQuestionsCount n => s!"BadQuestionsCount({n})"
  | .badMessageType r => if r then "BadMessageType(Response)" else "BadMessageType(Query)"
  | .badResponseCode n => s!"BadResponseCode({n})"
  | .messageTruncated => "MessageTruncated"
  | .messageTooLong n => s!"MessageTooLong({n})"
  | .offsetUnknown s => s!"RecordsSectionOffsetUnknown({s})"
  | .noAnswer => "NoAnswer"
  | .unexpectedType t => s!"UnexpectedType({t})"
  | .readerDone => "ReaderDone"
  | .unsupportedClass c => s!"UnsupportedClass({c})"
  | .badParam => "BadParam"
  | .timeout => "Timeout"
  | .io k => s!"IoError({k})"

def showPanic : PanicKind → String
  | .debugAssert => "panic(debug_assert)"
  | .overflow => "panic(overflow)"
  | .unwrap => "panic(unwrap)"
  | .index => "panic(index)"

def showRes {α} (f : α → String) : Res α → String
  | .ok a => "ok " ++ f a
  | .err e => "err " ++ showErr e
  | .panic k => showPanic k
  | .ub => "ub"

/-- `name <mode> <pos> <hex>` -/
def answerName (mode : String) (pos : Nat) (msg : Bytes) : String :=
  let c := Cur.withPos msg pos
  match mode with
  | "heap" => showRes (fun (t, c') => s!"{toHex t} next={c'.pos}") (readName .heap msg c)
  | "inline" => showRes (fun (t, c') => s!"{toHex t} next={c'.pos}") (readName .inline msg c)
  | "skip" => showRes (fun (n, c') => s!"n={n} next={c'.pos}") (skipName msg c)
  | "iter" =>
    match Labels.drain msg (Labels.new c) [] with
    | .ok (.ok ls) => "ok " ++ String.intercalate "," (ls.map (fun l => s!"{toHex l.bytes}@{l.pos}"))
    | .ok (.error e) => "err " ++ showErr e
    | .err e => "err " ++ showErr e
    | .panic k => showPanic k
    | .ub => "ub"
  | _ => "bad-request"

/-! ### record data -/

def rtypeOfString : String → Option RType
  | "A" => some .a | "NS" => some .ns | "MD" => some .md | "MF" => some .mf | "CNAME" => some .cname
  | "SOA" => some .soa | "MB" => some .mb | "MG" => some .mg | "MR" => some .mr | "NULL" => some .null
  | "WKS" => some .wks | "PTR" => some .ptr | "HINFO" => some .hinfo | "MINFO" => some .minfo
  | "MX" => some .mx | "TXT" => some .txt | "AAAA" => some .aaaa
  | _ => none

def rtypeName : RType → String
  | .a => "A" | .ns => "NS" | .md => "MD" | .mf => "MF" | .cname => "CNAME" | .soa => "SOA" | .mb => "MB"
  | .mg => "MG" | .mr => "MR" | .null => "NULL" | .wks => "WKS" | .ptr => "PTR" | .hinfo => "HINFO"
  | .minfo => "MINFO" | .mx => "MX" | .txt => "TXT" | .aaaa => "AAAA"

def showRData : RData → String
  | .a v => s!"A:{v}"
  | .aaaa v => s!"AAAA:{v}"
  | .dn t n => s!"{rtypeName t}:{toHex n}"
  | .soa m r a b c d e => s!"SOA:{toHex m}:{toHex r}:{a}:{b}:{c}:{d}:{e}"
  | .null b => s!"NULL:{toHex b}"
  | .wks a p b => s!"WKS:{a}:{p.toNat}:{toHex b}"
  | .hinfo c o => s!"HINFO:{toHex c}:{toHex o}"
  | .minfo r e => s!"MINFO:{toHex r}:{toHex e}"
  | .mx p e => s!"MX:{p}:{toHex e}"
  | .txt t => s!"TXT:{toHex t}"

/-- `rdata <TYPE> <pos> <rdlen> <hex>` -/
def answerRData (t : RType) (pos rdlen : Nat) (msg : Bytes) : String :=
  let (r, c) := readRData t msg rdlen (Cur.withPos msg pos)
  showRes showRData r ++ s!" pos={c.pos} cap={c.lim}"

/-! ### MessageReader histories -/

def showQuestionOwned (q : Question) : String := s!"Q:{toHex q.qname}:{q.qtype}:{q.qclass}"

def showNameRef (msg : Bytes) (c : Cur) : String :=
  match nameRefToName .heap msg c with
  | .ok t => toHex t
  | .err e => "!" ++ showErr e
  | .panic k => showPanic k
  | .ub => "ub"

def showMarker (m : Marker) : String :=
  s!"M:{m.offset}:{m.typeOffset}:{m.rtype}:{m.rclass}:{m.ttl}:{m.rdlen}:{m.section_}"

def showE {α} (f : α → String) : Res α → String
  | .ok a => f a
  | .err e => "E:" ++ showErr e
  | .panic _ => "P"
  | .ub => "UB"

def isAbort {α} : Res α → Bool
  | .panic _ => true
  | .ub => true
  | _ => false

structure Hist where
  r : Reader
  markers : Array Marker
  /-- marker returned by the last successful G1 call, not yet consumed by a G2 call -/
  pending : Option Marker := none
  outs : Array String
  stopped : Bool

def sectionOfString (s : String) : Option Nat := match s with
  | "0" => some 0 | "1" => some 1 | "2" => some 2 | _ => none

def histOp (msg : Bytes) (h : Hist) (op : String) : Hist :=
  if h.stopped then h else
  let push (h : Hist) (s : String) (abort : Bool) (r : Reader) : Hist :=
    { h with outs := h.outs.push s, stopped := abort, r := r }
  let head := (op.splitOn ":").headD ""
  let isG2 := head == "sk" || head == "db" || head == "dt" || head == "op"
  let moves := ["mk", "hr", "hh", "hi", "seek", "hd", "q", "qr", "tq", "tqr", "sq", "skx", "dbx", "dtx", "opx"].contains head
  let last : Option Marker := if isG2 then h.pending else none
  let h : Hist := if isG2 || moves then { h with pending := none } else h
  match op.splitOn ":" with
  | ["hd"] =>
    let (o, r) := h.r.header msg
    push h (showE (fun x => s!"H:{x.id}:{x.flags}:{x.qd}:{x.an}:{x.ns}:{x.ar}") o) (isAbort o) r
  | [q] =>
    let qk : Option QKind := match q with
      | "q" => some .question | "qr" => some .questionRef | "tq" => some .theQuestion
      | "tqr" => some .theQuestionRef | _ => none
    match qk with
    | some k =>
      let (o, r) := h.r.question msg k
      push h (showE (fun x => match x with
        | .owned q => showQuestionOwned q
        | .ref q => s!"Q:{showNameRef msg q.qname}:{q.qtype}:{q.qclass}") o) (isAbort o) r
    | none =>
      match q with
      | "sq" => let (o, r) := h.r.skipQuestions msg; push h (showE (fun _ => "ok") o) (isAbort o) r
      | "mk" | "hr" | "hh" | "hi" =>
        let k : HKind := match q with
          | "mk" => .marker | "hr" => .ref | "hh" => .owned .heap | _ => .owned .inline
        let (o, r) := h.r.recordHeader msg k
        let h' := match o with
          | .ok (_, m) => { h with markers := h.markers.push m, pending := some m }
          | _ => h
        push h' (showE (fun (hn, m) => showMarker m ++ (match hn with
          | .none => ""
          | .ref c => ":" ++ showNameRef msg c
          | .owned t => ":" ++ toHex t)) o) (isAbort o) r
      | "sk" => match last with
        | some m => let (o, r) := h.r.skipData m; push h (showE (fun _ => "ok") o) (isAbort o) r
        | none => push h "nomarker" false h.r
      | "db" => match last with
        | some m => let (o, r) := h.r.dataBytes msg m; push h (showE (fun b => "B:" ++ toHex b) o) (isAbort o) r
        | none => push h "nomarker" false h.r
      | "op" => match last with
        | some m =>
          if m.rtype != 41 then push h "notopt" false h.r else
          let (o, r) := h.r.optRecord m
          push h (showE (fun x => s!"O:{x.udpPayloadSize}:{x.rcodeExtension}:{x.version}:{x.flags}") o) (isAbort o) r
        | none => push h "nomarker" false h.r
      | "cq" => let o := h.r.questionsCount; push h (showE (fun n => s!"N:{n}") o) (isAbort o) h.r
      | "cr" => let o := h.r.recordsCount; push h (showE (fun n => s!"N:{n}") o) (isAbort o) h.r
      | _ => push h "badop" false h.r
  | ["dt", ty] =>
    match rtypeOfString ty, last with
    | some t, some m =>
      let (o, r) := h.r.data msg t m
      push h (showE (fun d => "D:" ++ showRData d) o) (isAbort o) r
    | _, _ => push h "nomarker" false h.r
  | ["seek", s] =>
    match sectionOfString s with
    | some sec => let (o, r) := h.r.seek msg sec; push h (showE (fun _ => "ok") o) (isAbort o) r
    | none => push h "badop" false h.r
  | ["cs", s] =>
    match sectionOfString s with
    | some sec => let o := h.r.recordsCountIn sec; push h (showE (fun n => s!"N:{n}") o) (isAbort o) h.r
    | none => push h "badop" false h.r
  | ["dba", i] =>
    match i.toNat? >>= (h.markers[·]?) with
    | some m => let o := h.r.dataBytesAt msg m; push h (showE (fun b => "B:" ++ toHex b) o) (isAbort o) h.r
    | none => push h "nomarker" false h.r
  | ["dta", i, ty] =>
    match i.toNat? >>= (h.markers[·]?), rtypeOfString ty with
    | some m, some t => let o := h.r.dataAt msg t m; push h (showE (fun d => "D:" ++ showRData d) o) (isAbort o) h.r
    | _, _ => push h "nomarker" false h.r
  | ["nra", i] =>
    match i.toNat? >>= (h.markers[·]?) with
    | some m => push h ("R:" ++ showNameRef msg (h.r.nameRefAt m)) false h.r
    | none => push h "nomarker" false h.r
  -- G2 calls with an arbitrary earlier marker (C17: out-of-order use)
  | ["opx", i] =>
    match i.toNat? >>= (h.markers[·]?) with
    | some m =>
      let (o, r) := h.r.optRecord m
      push h (showE (fun x => s!"O:{x.udpPayloadSize}:{x.rcodeExtension}:{x.version}") o) (isAbort o) r
    | none => push h "nomarker" false h.r
  | ["skx", i] =>
    match i.toNat? >>= (h.markers[·]?) with
    | some m => let (o, r) := h.r.skipData m; push h (showE (fun _ => "ok") o) (isAbort o) r
    | none => push h "nomarker" false h.r
  | ["dbx", i] =>
    match i.toNat? >>= (h.markers[·]?) with
    | some m => let (o, r) := h.r.dataBytes msg m; push h (showE (fun b => "B:" ++ toHex b) o) (isAbort o) r
    | none => push h "nomarker" false h.r
  | ["dtx", i, ty] =>
    match i.toNat? >>= (h.markers[·]?), rtypeOfString ty with
    | some m, some t =>
      let (o, r) := h.r.data msg t m
      push h (showE (fun d => "D:" ++ showRData d) o) (isAbort o) r
    | _, _ => push h "nomarker" false h.r
  | _ => push h "badop" false h.r

/-- `reader <hex> <op>…` -/
def answerReader (msg : Bytes) (ops : List String) : String :=
  match Reader.new msg with
  | .err e => "err " ++ showErr e
  | .panic k => showPanic k
  | .ub => "ub"
  | .ok r =>
    let h := ops.foldl (histOp msg) { r := r, markers := #[], outs := #[], stopped := false }
    String.intercalate " " h.outs.toList

/-- markers of a message collected by one sequential pass (`record_marker` + `skip_record_data`) -/
def collectMarkers (msg : Bytes) : Array Marker :=
  match Reader.new msg with
  | .ok r0 =>
    match r0.header msg with
    | (.ok _, r1) =>
      match r1.skipQuestions msg with
      | (.ok (), r2) =>
        let rec go (fuel : Nat) (r : Reader) (acc : Array Marker) : Array Marker :=
          match fuel with
          | 0 => acc
          | fuel + 1 =>
            match r.recordHeader msg .marker with
            | (.ok (_, m), r') =>
              match r'.skipData m with
              | (.ok (), r'') => go fuel r'' (acc.push m)
              | _ => acc.push m
            | _ => acc
        go (r2.sFuel 0 + 1) r2 #[]
      | _ => #[]
    | _ => #[]
  | _ => #[]

/-- `xmark <hexA> <hexB> <op>…` -/
def answerXMark (a b : Bytes) (ops : List String) : String :=
  match Reader.new b with
  | .err e => "err " ++ showErr e
  | .panic k => showPanic k
  | .ub => "ub"
  | .ok r =>
    let h := ops.foldl (histOp b) { r := r, markers := collectMarkers a, outs := #[], stopped := false }
    String.intercalate " " h.outs.toList

/-! ### the allocation-free API (C20): status tokens only -/

def statusOf {α} (r : Res α) : String × Bool :=
  match r with
  | .ok _ => ("ok", false)
  | .err e => ("E:" ++ showErr e, false)
  | .panic _ => ("P", true)
  | .ub => ("UB", true)

structure NaHist where
  r : Reader
  markers : Array Marker := #[]
  refs : Array Cur := #[]
  pending : Option Marker := none
  outs : Array String := #[]
  stopped : Bool := false

def naOp (msg : Bytes) (h : NaHist) (op : String) : NaHist :=
  if h.stopped then h else
  let parts := op.splitOn ":"
  let head := parts.headD ""
  let isG2 := head == "sk" || head == "db" || head == "dt" || head == "op"
  let last : Option Marker := if isG2 then h.pending else none
  let h : NaHist := if isG2 || ["mk", "hr", "hi", "hh", "seek", "hd", "q", "qr", "sq"].contains head
    then { h with pending := none } else h
  let full := h.markers.size ≥ 250 || h.refs.size ≥ 250
  let emit (h : NaHist) (st : String × Bool) (r : Reader) : NaHist :=
    { h with outs := h.outs.push st.1, stopped := st.2, r := r }
  let marker (i : String) : Option Marker := i.toNat? >>= (h.markers[·]?)
  match parts with
  | ["hd"] => let (o, r) := h.r.header msg; emit h (statusOf o) r
  | ["q"] => let (o, r) := h.r.question msg .question; emit h (statusOf o) r
  | ["qr"] => let (o, r) := h.r.question msg .questionRef; emit h (statusOf o) r
  | ["sq"] => let (o, r) := h.r.skipQuestions msg; emit h (statusOf o) r
  | [g1] =>
    if g1 == "mk" || g1 == "hr" || g1 == "hi" || g1 == "hh" then
      if full then emit h ("badop", false) h.r else
      let k : HKind := if g1 == "mk" then .marker else if g1 == "hr" then .ref else if g1 == "hi" then .owned .inline else .owned .heap
      let (o, r) := h.r.recordHeader msg k
      let h' := match o with
        | .ok (hn, m) =>
          let h1 := { h with markers := h.markers.push m, pending := some m }
          match hn with
          | .ref c => { h1 with refs := h1.refs.push c }
          | _ => h1
        | _ => h
      let st := statusOf o
      let st := if g1 == "hh" then (st.1 ++ (if st.1 == "ok" then ":ctl:1" else ":ctl:0"), st.2) else st
      emit h' st r
    else if g1 == "sk" then
      match last with
      | some m => let (o, r) := h.r.skipData m; emit h (statusOf o) r
      | none => emit h ("nomarker", false) h.r
    else if g1 == "db" then
      match last with
      | some m => let (o, r) := h.r.dataBytes msg m; emit h (statusOf o) r
      | none => emit h ("nomarker", false) h.r
    else if g1 == "op" then
      match last with
      | some m => if m.rtype != 41 then emit h ("notopt", false) h.r else
          let (o, r) := h.r.optRecord m; emit h (statusOf o) r
      | none => emit h ("nomarker", false) h.r
    else if g1 == "cq" then
      match h.r.questionsCount, h.r.recordsCount with
      | .panic _, _ => emit h ("P", true) h.r
      | _, .panic _ => emit h ("P", true) h.r
      | _, _ => emit h ("ok", false) h.r
    else emit h ("badop", false) h.r
  | ["dt", ty] =>
    match rtypeOfString ty, last with
    | some t, some m => let (o, r) := h.r.data msg t m; emit h (statusOf o) r
    | _, _ => emit h ("nomarker", false) h.r
  | ["seek", s] =>
    match sectionOfString s with
    | some sec => let (o, r) := h.r.seek msg sec; emit h (statusOf o) r
    | none => emit h ("badop", false) h.r
  | ["cs", s] =>
    match sectionOfString s with
    | some sec => emit h (match h.r.recordsCountIn sec with | .panic _ => ("P", true) | _ => ("ok", false)) h.r
    | none => emit h ("badop", false) h.r
  | ["dba", i] =>
    match marker i with
    | some m => emit h (statusOf (h.r.dataBytesAt msg m)) h.r
    | none => emit h ("nomarker", false) h.r
  | ["dta", i, ty] =>
    match marker i, rtypeOfString ty with
    | some m, some t => emit h (statusOf (h.r.dataAt msg t m)) h.r
    | _, _ => emit h ("nomarker", false) h.r
  | ["nra", i] =>
    match marker i with
    | some m =>
      let st : String × Bool := match Labels.drain msg (Labels.new (h.r.nameRefAt m)) [] with
        | .ok (.ok _) => ("ok", false)
        | .ok (.error e) => ("E:" ++ showErr e, false)
        | .err e => ("E:" ++ showErr e, false)
        | .panic _ => ("P", true)
        | .ub => ("UB", true)
      emit h st h.r
    | none => emit h ("nomarker", false) h.r
  | ["neq", i, j] =>
    match i.toNat? >>= (h.refs[·]?), j.toNat? >>= (h.refs[·]?) with
    | some a, some b =>
      -- `a.eq(b)` then `b.ne(a)`: the first error wins
      let st : String × Bool := match nameRefEq msg msg a b with
        | .ok (.ok v) =>
          match nameRefEq msg msg b a with
          | .ok (.ok _) => (s!"ok:{v}", false)
          | .ok (.error e) => ("E:" ++ showErr e, false)
          | .err e => ("E:" ++ showErr e, false)
          | .panic _ => ("P", true)
          | .ub => ("UB", true)
        | .ok (.error e) => ("E:" ++ showErr e, false)
        | .err e => ("E:" ++ showErr e, false)
        | .panic _ => ("P", true)
        | .ub => ("UB", true)
      emit h st h.r
    | _, _ => emit h ("nomarker", false) h.r
  | _ => emit h ("badop", false) h.r

/-- `noalloc <hex> <op>…` -/
def answerNoAlloc (msg : Bytes) (ops : List String) : String :=
  match Reader.new msg with
  | .err e => "err " ++ showErr e
  | .panic k => showPanic k
  | .ub => "ub"
  | .ok r =>
    let h := ops.foldl (naOp msg) { r := r }
    String.intercalate " " h.outs.toList

/-- `noalloci <hex>` -/
def answerNoAllocIter (msg : Bytes) : String :=
  match MsgIter.new msg with
  | .err e => "err " ++ showErr e
  | .panic k => showPanic k
  | .ub => "ub"
  | .ok mi =>
    let q := (statusOf (mi.question msg)).1
    let qs : String := match mi.questions msg with
      | .ok l => s!"qs:{(l.filter (fun x => match x with | .ok _ => true | _ => false)).length}:{(l.filter (fun x => match x with | .ok _ => false | _ => true)).length}"
      | _ => "P"
    let recs : List String := match mi.records msg with
      | .ok l =>
        let rec go (l : List (Except Err Record)) (seen : Nat) : List String :=
          match l with
          | [] => [s!"recs:{seen}"]
          | .ok r :: rest => if r.rtype != 1 && r.rtype != 28 then [s!"stop:{r.rtype}", s!"recs:{seen}"] else go rest (seen + 1)
          | .error e :: _ => ["E:" ++ showErr e, s!"recs:{seen}"]
        go l 0
      | _ => ["P"]
    String.intercalate " " (["new", q, qs] ++ recs)

/-! ### all views of one message (C08) -/

def markerFields (m : Marker) : String :=
  s!"{m.offset}:{m.typeOffset}:{m.rtype}:{m.rclass}:{m.ttl}:{m.rdlen}:{m.section_}"

def typedAt (msg : Bytes) (r : Reader) (m : Marker) : String :=
  match RType.ofCode m.rtype with
  | some t => showE showRData (r.dataAt msg t m)
  | none => showE (fun b => "raw:" ++ toHex b) (r.dataBytesAt msg m)

def typedSeq (msg : Bytes) (r : Reader) (m : Marker) : String × Reader :=
  match RType.ofCode m.rtype with
  | some t => let (o, r') := r.data msg t m; (showE showRData o, r')
  | none =>
    if m.rtype == 41 then
      let (o, r') := r.optRecord m
      (showE (fun x => s!"opt:{x.udpPayloadSize}:{x.rcodeExtension}:{x.version}") o, r')
    else
      let (o, r') := r.dataBytes msg m
      (showE (fun b => "raw:" ++ toHex b) o, r')

/-- the record loop of a sequential view -/
def seqRecords (msg : Bytes) (kind : Nat) : Nat → Reader → Array String → Array Marker → Array String × Array Marker
  | 0, _, items, ms => (items, ms)
  | fuel + 1, r, items, ms =>
    match r.recordsCount with
    | .ok n =>
      if n == 0 then (items, ms) else
      let hk : HKind := if kind == 0 then .marker else if kind == 1 then .ref else if kind == 2 then .owned .heap else .owned .inline
      match r.recordHeader msg hk with
      | (.ok (hn, m), r1) =>
        let name := match hn with
          | .none => "-"
          | .ref c => showNameRef msg c
          | .owned t => toHex t
        let (data, r2) : String × Reader :=
          if kind ≤ 1 then
            let (o, r') := r1.skipData m
            (showE (fun _ => "-") o, r')
          else typedSeq msg r1 m
        let items' := items.push s!"R:{markerFields m}:{name}:{data}"
        if data.startsWith "E:" then (items', ms.push m) else seqRecords msg kind fuel r2 items' (ms.push m)
      | (.err e, _) => (items.push ("!E:" ++ showErr e), ms)
      | (.panic _, _) => (items.push "P", ms)
      | (.ub, _) => (items.push "UB", ms)
    | _ => (items.push "P", ms)

def seqQuestions (msg : Bytes) (kind : Nat) : Nat → Reader → Array String → Option (Reader × Array String) × Array String
  | 0, r, items => (some (r, items), items)
  | fuel + 1, r, items =>
    match r.questionsCount with
    | .ok n =>
      if n == 0 then (some (r, items), items) else
      let (o, r1) := r.question msg (if kind ≤ 1 then .questionRef else .question)
      match o with
      | .ok (.ref q) =>
        seqQuestions msg kind fuel r1 (items.push s!"Q:{if kind == 1 then showNameRef msg q.qname else "-"}:{q.qtype}:{q.qclass}")
      | .ok (.owned q) => seqQuestions msg kind fuel r1 (items.push (showQuestionOwned q))
      | .err e => (none, items.push ("!E:" ++ showErr e))
      | .panic _ => (none, items.push "P")
      | .ub => (none, items.push "UB")
    | _ => (none, items.push "P")

def seqView (msg : Bytes) (kind : Nat) : String × Array Marker :=
  match Reader.new msg with
  | .err e => ("!E:" ++ showErr e, #[])
  | .panic _ => ("P", #[])
  | .ub => ("UB", #[])
  | .ok r0 =>
    match r0.header msg with
    | (.ok h, r1) =>
      let items := #[s!"H:{h.id}:{h.flags}:{h.qd}:{h.an}:{h.ns}:{h.ar}"]
      match seqQuestions msg kind (h.qd + 1) r1 items with
      | (some (r2, items2), _) =>
        let (items3, ms) := seqRecords msg kind (h.an + h.ns + h.ar + 1) r2 items2 #[]
        (String.intercalate ";" items3.toList, ms)
      | (none, items2) => (String.intercalate ";" items2.toList, #[])
    | (.err e, _) => ("!E:" ++ showErr e, #[])
    | (.panic _, _) => ("P", #[])
    | (.ub, _) => ("UB", #[])

/-! ### iterator API, record sets, NameRef::eq -/

def showRecord (r : Record) : String :=
  s!"R:{r.section_}:{toHex r.name}:{r.rclass}:{r.rtype}:{r.ttl}:{showRData r.rdata}"

def showItems {α} (f : α → String) : Res (List (Except Err α)) → String
  | .ok l => String.intercalate ";" (l.map (fun x => match x with | .ok a => f a | .error e => "E:" ++ showErr e))
  | .err e => "E:" ++ showErr e
  | .panic _ => "P"
  | .ub => "UB"

/-- `iter <hex>` -/
def answerIter (msg : Bytes) : String :=
  match MsgIter.new msg with
  | .err e => "err " ++ showErr e
  | .panic k => showPanic k
  | .ub => "ub"
  | .ok mi =>
    let h := mi.header
    s!"H:{h.id}:{h.flags}:{h.qd}:{h.an}:{h.ns}:{h.ar} | " ++
      showE showQuestionOwned (mi.question msg) ++ " | " ++
      showItems showQuestionOwned (mi.questions msg) ++ " | " ++
      showItems showRecord (mi.records msg)

/-- `rrset <TYPE> <hex>` -/
def answerRRSet (t : RType) (msg : Bytes) : String :=
  showRes (fun rs => s!"{toHex rs.name}:{rs.rclass}:{rs.ttl}:" ++
      String.intercalate "," (rs.rdata.map showRData)) (fromMsg t msg)

/-- `nameeq <p1> <p2> <hex>` -/
def answerNameEq (p1 p2 : Nat) (msg : Bytes) : String :=
  let r := match nameRefEq msg msg (Cur.withPos msg p1) (Cur.withPos msg p2) with
    | .ok (.ok b) => s!"ok {b}"
    | .ok (.error e) => "err " ++ showErr e
    | .err e => "err " ++ showErr e
    | .panic k => showPanic k
    | .ub => "ub"
  s!"{r} n1={showNameRef msg (Cur.withPos msg p1)} n2={showNameRef msg (Cur.withPos msg p2)}"

/-- `views <hex>` -/
def answerViews (msg : Bytes) : String :=
  let (m, markers) := seqView msg 0
  let (r, _) := seqView msg 1
  let (hh, _) := seqView msg 2
  let (hi, _) := seqView msg 3
  let at_ := match Reader.new msg with
    | .ok rd => String.intercalate ";" (markers.toList.map (fun mk =>
        s!"{typedAt msg rd mk}~{showE toHex (rd.dataBytesAt msg mk)}"))
    | .err e => "!E:" ++ showErr e
    | .panic _ => "P"
    | .ub => "UB"
  s!"M={m} | R={r} | HH={hh} | HI={hi} | AT={at_} | I={answerIter msg}"


/-! ### ground-truth transcript (C02) and seek histories (C09) -/

def b01 (b : Bool) : String := if b then "1" else "0"

def showRecVal : RecVal → String
  | .typed v => showRData v
  | .opt x => s!"opt:{x.udpPayloadSize}:{x.rcodeExtension}:{x.version}:{b01 (Generated.opt_dnssec_ok x.flags)}"
  | .raw b => "raw:" ++ toHex b

def showPassRec (p : PassRec) : String :=
  let m := p.marker
  s!"R:{m.section_}:{m.offset}:{m.typeOffset}:{m.rdlen}:{toHex p.name}:{m.rtype}:{m.rclass}:{m.ttl}:{showRecVal p.val}"

/-- `truth <hex>`: the transcript of `Reader.pass` (the function `C02.decode_wellformed` is about) -/
def answerTruth (msg : Bytes) : String :=
  let (out, ro) := Reader.pass msg
  let (f, s) : String × String :=
    match out.header with
    | none => ("-", match out.ending with
        | .err e => "!E:" ++ showErr e
        | .panic _ => "P"
        | .ub => "UB"
        | .ok _ => "?")
    | some h =>
      let w := h.flags
      let f := s!"{b01 (Generated.flags_qr w)}:{Generated.flags_opcode w}:{b01 (Generated.flags_aa w)}:{b01 (Generated.flags_tc w)}:{b01 (Generated.flags_rd w)}:{b01 (Generated.flags_ra w)}:{Generated.flags_rcode w}"
      let items : List String := [s!"H:{h.id}:{h.flags}:{h.qd}:{h.an}:{h.ns}:{h.ar}"] ++
        out.questions.map showQuestionOwned ++ out.records.map showPassRec
      let tail : String := match out.ending, ro with
        | .ok _, some r3 =>
          let (o, r4) := r3.recordHeader msg .marker
          let extra := showE (fun _ => "a-record-that-was-not-encoded") o
          let cq := showE (fun n => s!"{n}") r4.questionsCount
          let cr := showE (fun n => s!"{n}") r4.recordsCount
          s!"END:{extra}:{cq}:{cr}"
        | .err e, _ => "!E:" ++ showErr e
        | .panic _, _ => "P"
        | .ub, _ => "UB"
        | .ok _, none => "?"
      (f, String.intercalate ";" (items ++ [tail]))
  s!"F={f} | S={s} | I={answerIter msg}"

/-- the op list of one linear pass, from the header counts (capped) -/
def linearOps (msg : Bytes) : List String :=
  let c (i : Nat) : Nat := (msg.getD i 0).toNat * 256 + (msg.getD (i + 1) 0).toNat
  let body : List String :=
    if msg.size ≥ 12 then
      let qd := min (c 4) 64
      let n := min (c 6 + c 8 + c 10) 64
      List.replicate qd "qr" ++ (List.replicate n ["hr", "db"]).flatten
    else []
  ["hd"] ++ body ++ ["hr"]

/-- `seekhist <hex> <op>…` -/
def answerSeekhist (msg : Bytes) (ops : List String) : String :=
  answerReader msg ops ++ " #L# " ++ answerReader msg (linearOps msg)

/-! ### text names, encoder -/

def showOrdering : Ordering → String
  | .lt => "lt" | .eq => "eq" | .gt => "gt"

/-- the verdict of `Ord::cmp` as the harness prints it; the `ub` outcome (an out-of-range unchecked
    access) prints as `ub` and can never match the implementation's line -/
def showCmp : Res Ordering → String
  | .ok o => showOrdering o
  | .err e => "err " ++ showErr e
  | .panic k => showPanic k
  | .ub => "ub"

def kindOfString : String → Option NameKind
  | "heap" => some .heap | "inline" => some .inline | _ => none

/-- `cmp <hexA> <hexB>`: both strings are parsed first (as `Name` and as `InlineName`) -/
def answerCmp (a b : Bytes) : String :=
  match parseName .heap a, parseName .heap b, parseName .inline a, parseName .inline b with
  | .ok na, .ok nb, .ok ia, .ok ib =>
    let feed (x : Bytes) := toHex (nameHashFeed x).toArray
    s!"eq={nameEq na nb} cmp={showCmp (nameCmpU na nb)} ieq={nameEq ia ib} icmp={showCmp (nameCmpU ia ib)} " ++
      s!"xeq={nameEq ia nb} ha={feed na} hb={feed nb} iha={feed ia} " ++
      s!"conv={toHex na}:{showRes toHex (toInline na)}:{showRes toHex (toHeap ia)}"
  | _, _, _, _ => "badname"

/-! ### clients -/

def hex4 (n : Nat) : String :=
  String.ofList [hexDigit (n / 4096 % 16), hexDigit (n / 256 % 16), hexDigit (n / 16 % 16), hexDigit (n % 16)]

/-- substitute the ID placeholders of a template, then hex-decode -/
def parseTemplate (id prev : Nat) (t : String) : Option Bytes :=
  let t := t.replace "IIII" (hex4 id)
  let t := t.replace "JJJJ" (hex4 (id ^^^ 0x0100))
  let t := t.replace "PPPP" (hex4 prev)
  parseHex t

def parseItem (id prev : Nat) (t : String) : Option Item :=
  if t == "z" then some (.send #[])
  else if t == "c" then some .close
  else if t == "h" then some .hold
  -- `b`: the server host drops the SYNs (full accept queue). To the client this is a connection that
  -- never makes progress — the model's `hold` —; what the SERVER sees differs (nothing), see `fmtSeen`.
  else if t == "b" then some .hold
  else if t.startsWith "p" then (t.drop 1).toString.toNat?.map .pause
  else (parseTemplate id prev t).map .send

def parseScript (id prev : Nat) (s : String) : Option (List (List Item)) :=
  if s == "-" then some []
  else (s.splitOn ";").mapM (fun e =>
    if e == "." || e == "" then some [] else (e.splitOn ",").mapM (parseItem id prev))

def kv (toks : List String) (key : String) : Option String :=
  toks.findSome? (fun t => if t.startsWith (key ++ "=") then some (t.drop (key.length + 1)).toString else none)

def showIp (a : Nat) : String := s!"{a / 16777216 % 256}.{a / 65536 % 256}.{a / 256 % 256}.{a % 256}"

def showClientErr (e : Err) : String :=
  match e with
  | .io 0 => "IoError(UnexpectedEof)"
  | .io 1 => "IoError(InvalidInput)"
  | e => showErr e

def splitQs (toks : List String) : List (List String) :=
  let rec go (ts : List String) (cur : List String) (acc : List (List String)) : List (List String) :=
    match ts with
    | [] => (cur.reverse :: acc).reverse
    | "|" :: rest => go rest [] (cur.reverse :: acc)
    | t :: rest => go rest (t :: cur) acc
  go toks [] []

structure ClientState where
  queue : List Dgram
  prevId : Nat
  outs : List String

structure QSpec where
  api : String
  qname : Bytes
  qtype : Nat
  qclass : Nat
  buf : Nat
  dropAt : Option Nat
  udp : List (List Item)
  tcp : List (List Item)
  /-- the TCP script is `b`: connection attempts are black-holed, the server sees none of them -/
  blackhole : Bool := false

def parseQ (cfg : Cfg) (id prev : Nat) (q : List String) : Option QSpec := do
  let api ← kv q "api"
  let qname ← parseHex (← kv q "qname")
  let qtype ← (← kv q "qtype").toNat?
  let qclass ← (← kv q "qclass").toNat?
  let buf ← (← kv q "buf").toNat?
  let drop ← kv q "drop"
  let dropAt : Option Nat ← if drop == "none" || !cfg.async then some none else drop.toNat?.map some
  let udp ← parseScript id prev (← kv q "udp")
  let tcpText ← kv q "tcp"
  let tcp ← parseScript id prev tcpText
  some { api, qname, qtype, qclass, buf, dropAt, udp, tcp, blackhole := tcpText.startsWith "b" }

def zeroId (b : Bytes) (off : Nat) : Bytes :=
  if b.size ≥ off + 2 then (b.set! off 0).set! (off + 1) 0 else b

def fmtSeen (run : RawRun) (blackhole : Bool := false) : String :=
  let udp0 := match run.msg, run.seen.udp with
    | some m, _ :: _ => toHex (zeroId (m.extract 2 m.size) 0)
    | _, _ => "-"
  let ntcp := if blackhole then 0 else run.seen.tcp
  let tcp0 := match run.msg, ntcp with
    | some m, _ + 1 => toHex (zeroId m 2)
    | _, _ => "-"
  s!"nudp={run.seen.udp.length} udp0={udp0} udpsame=1 ntcp={ntcp} tcp0={tcp0} tail=1"

/-- run one query of a history: answer group, socket queue afterwards, id seen by the server (0 if none) -/
def runQ (cfg : Cfg) (id : Nat) (queue : List Dgram) (q : QSpec) : String × List Dgram × Nat :=
  let sent (run : RawRun) : Bool := !run.seen.udp.isEmpty || (run.seen.tcp > 0 && !q.blackhole)
  if q.api == "raw" then
    let run := queryRaw cfg id q.qname q.qtype q.qclass q.buf q.udp q.tcp queue q.dropAt
    let res : String := match run.result with
      | .ok n b => s!"ok:{n}:{toHex b}"
      | .err e => "err:" ++ showClientErr e
      | .dropped => "dropped"
    (s!"res={res} " ++ fmtSeen run q.blackhole, run.queue, if sent run then id else 0)
  else
    let (r, run) := queryRRSet cfg id q.qname q.qclass q.udp q.tcp queue q.dropAt
    let res : String := match run.result, r with
      | .dropped, _ => "dropped"
      | _, .ok rs =>
        let addrs := rs.rdata.map (fun d => match d with | .a v => showIp v | _ => "?")
        s!"ok:rrset:{toHex rs.name}:{rs.rclass}:{rs.ttl}:" ++ String.intercalate "," addrs
      | _, .err e => "err:" ++ showClientErr e
      | _, .panic k => showPanic k
      | _, .ub => "ub"
    (s!"res={res} " ++ fmtSeen run q.blackhole, run.queue, if sent run then id else 0)

/-- `client …` -/
def answerClient (toks : List String) : String :=
  let cfgToks := toks.takeWhile (fun t => !t.startsWith "api=")
  let qToks := toks.dropWhile (fun t => !t.startsWith "api=")
  let parsed : Option Cfg := do
    let rt ← kv cfgToks "rt"
    let rd ← kv cfgToks "rd"
    let edns ← kv cfgToks "edns"
    let strat ← kv cfgToks "strat"
    let cfgbuf ← (← kv cfgToks "cfgbuf").toNat?
    let qt ← kv cfgToks "qt"
    let lt ← (← kv cfgToks "lt").toNat?
    let ednsV : Option (Nat × Nat) ← if edns == "off" then some none else
      match edns.splitOn ":" with
      | [v, p] => do some (some ((← v.toNat?), (← p.toNat?)))
      | _ => none
    let stratN ← match strat with | "udp" => some 0 | "tcp" => some 1 | "notcp" => some 2 | _ => none
    let qtV : Option Nat ← if qt == "none" then some none else qt.toNat?.map some
    some { async := rt != "std", rd := rd == "1", edns := ednsV, strat := stratN, cfgbuf := cfgbuf, qt := qtV, lt := lt }
  match parsed with
  | none => "bad-request"
  | some cfg =>
    let qs := splitQs qToks
    let failAll (e : Err) : String :=
      String.intercalate " | " (qs.map (fun _ => s!"res=err:{showClientErr e} nudp=0 udp0=- udpsame=1 ntcp=0 tcp0=- tail=1"))
    match cfg.check with
    | .err e => failAll e
    | .panic _ => "bad-request"
    | .ub => "bad-request"
    | .ok () =>
      let step (st : ClientState × Nat) (q : List String) : ClientState × Nat :=
        let (st, idx) := st
        let id := idx + 1
        match parseQ cfg id st.prevId q with
        | some spec =>
          let (line, queue, pid) := runQ cfg id st.queue spec
          -- datagrams that had already arrived stay queued in the socket for the next query
          ({ queue := queue.map (fun d => { d with at_ := 0 }), prevId := pid, outs := line :: st.outs }, idx + 1)
        | none => ({ st with outs := "bad-request" :: st.outs }, idx + 1)
      let (st, _) := qs.foldl step ({ queue := [], prevId := 0, outs := [] }, 0)
      String.intercalate " | " st.outs.reverse

/-! ### `cfg`: builder sequences on `ClientConfig` -/

def parseAddr (s : String) : Option Addr :=
  match s.splitOn "-" with
  | [f, ip, port] =>
    match ip.toNat?, port.toNat? with
    | some i, some p =>
      if f == "4" then some { v6 := false, ip := i, port := p }
      else if f == "6" then some { v6 := true, ip := i, port := p }
      else none
    | _, _ => none
  | _ => none

def showAddr (a : Addr) : String := s!"{if a.v6 then "6" else "4"}-{a.ip}-{a.port}"

def parseCfgCtor (s : String) : Option Config :=
  if s == "new" then some Config.new
  else match s.splitOn ":" with
    | ["with", a] => (parseAddr a).map Config.withNameserver
    | _ => none

def parseCfgOp (s : String) : Option CfgOp :=
  match s.splitOn ":" with
  | ["ns", a] => (parseAddr a).map CfgOp.setNs
  | ["bind", a] => (parseAddr a).map CfgOp.setBind
  | ["lt", n] => n.toNat?.map CfgOp.setLt
  | ["qt", n] => if n == "none" then some (.setQt none) else n.toNat?.map (fun k => CfgOp.setQt (some k))
  | ["st", n] => match n.toNat? with
    | some k => if k < 3 then some (.setStrat k) else none
    | none => none
  | ["rd", n] => if n == "1" then some (.setRd true) else if n == "0" then some (.setRd false) else none
  | ["buf", n] => n.toNat?.map CfgOp.setBuf
  | ["edns", e] =>
    if e == "off" then some (.setEdns none)
    else match e.splitOn "-" with
      | [v, p] => match v.toNat?, p.toNat? with
        | some v, some p => if v < 256 ∧ p < 65536 then some (.setEdns (some (v, p))) else none
        | _, _ => none
      | _ => none
  | _ => none

def showConfig (c : Config) : String :=
  let qt := match c.qt with | some n => toString n | none => "none"
  let ed := match c.edns with | some (v, p) => s!"{v}-{p}" | none => "off"
  s!"ns={showAddr c.ns} bind={showAddr c.bind} lt={c.lt} qt={qt} st={c.strat} rd={b01 c.rd} buf={c.buf} edns={ed} has={b01 c.hasNameserver}"

def answerCfg (ctor : String) (ops : List String) : String :=
  match parseCfgCtor ctor, ops.mapM parseCfgOp with
  | some c0, some os => showConfig (c0.build os)
  | _, _ => "bad-request"

/-- the public text APIs take `&str`: non-UTF-8 input cannot be expressed through them -/
def isUtf8 (b : Bytes) : Bool := (String.fromUTF8? (ByteArray.mk b)).isSome

def answer (line : String) : String :=
  match line.trimAscii.toString.splitOn " " with
  | ["name", mode, pos, hex] =>
    match pos.toNat?, parseHex hex with
    | some p, some msg => answerName mode p msg
    | _, _ => "bad-request"
  | ["names", pos, hex] =>
    match pos.toNat?, parseHex hex with
    | some p, some msg =>
      String.intercalate " | " (["heap", "inline", "skip", "iter"].map (fun m => s!"{m}={answerName m p msg}"))
    | _, _ => "bad-request"
  | ["rdata", ty, pos, rdlen, hex] =>
    match rtypeOfString ty, pos.toNat?, rdlen.toNat?, parseHex hex with
    | some t, some p, some n, some msg => answerRData t p n msg
    | _, _, _, _ => "bad-request"
  | "reader" :: hex :: ops =>
    match parseHex hex with
    | some msg => answerReader msg ops
    | none => "bad-request"
  | "xmark" :: ha :: hb :: ops =>
    match parseHex ha, parseHex hb with
    | some a, some b => answerXMark a b ops
    | _, _ => "bad-request"
  | "client" :: rest => answerClient rest
  | "noalloc" :: hex :: ops =>
    match parseHex hex with
    | some msg => answerNoAlloc msg ops
    | none => "bad-request"
  | ["noalloci", hex] =>
    match parseHex hex with
    | some msg => answerNoAllocIter msg
    | none => "bad-request"
  | ["iter", hex] =>
    match parseHex hex with
    | some msg => answerIter msg
    | none => "bad-request"
  | ["views", hex] =>
    match parseHex hex with
    | some msg => answerViews msg
    | none => "bad-request"
  | ["truth", hex] =>
    match parseHex hex with
    | some msg => answerTruth msg
    | none => "bad-request"
  | ["truth", hex, _exp] =>
    match parseHex hex with
    | some msg => answerTruth msg
    | none => "bad-request"
  | "seekhist" :: hex :: ops =>
    match parseHex hex with
    | some msg => answerSeekhist msg ops
    | none => "bad-request"
  | ["rrset", ty, hex] =>
    match rtypeOfString ty, parseHex hex with
    | some t, some msg => answerRRSet t msg
    | _, _ => "bad-request"
  | ["rrset", ty, hex, _exp] =>
    match rtypeOfString ty, parseHex hex with
    | some t, some msg => answerRRSet t msg
    | _, _ => "bad-request"
  | ["nameeq", p1, p2, hex] =>
    match p1.toNat?, p2.toNat?, parseHex hex with
    | some a, some b, some msg => answerNameEq a b msg
    | _, _, _ => "bad-request"
  | ["check", hex] =>
    match parseHex hex with
    | some s => showRes (fun _ => "") (checkNameBytes s)
    | none => "bad-request"
  | ["checklabel", hex] =>
    match parseHex hex with
    | some s => showRes (fun _ => "") (checkLabel s)
    | none => "bad-request"
  | ["parse", kind, hex] =>
    match kindOfString kind, parseHex hex with
    | some k, some s => if isUtf8 s then showRes toHex (parseName k s) else "not-utf8"
    | _, _ => "bad-request"
  | ["wname", cap, hex] =>
    match cap.toNat?, parseHex hex with
    | some c, some s =>
      showRes (fun (w, n) => s!"{n} {toHex (w.buf.extract 0 w.pos)} rest={(w.buf.extract w.pos w.buf.size).all (· == 0xFF)}")
        ((WCur.new c).writeDomainName s)
    | _, _ => "bad-request"
  | ["rt", pos, hex] =>
    match pos.toNat?, parseHex hex with
    | some p, some msg =>
      match readName .heap msg (Cur.withPos msg p), readName .inline msg (Cur.withPos msg p) with
      | .ok (t, _), .ok (t2, _) =>
        if t != t2 then "heap-inline-disagree" else
        let sh (r : Res Bytes) : String := match r with
          | .ok _ => "ok" | .err e => "err:" ++ showErr e | .panic k => showPanic k | .ub => "ub"
        let shu (r : Res Unit) : String := match r with
          | .ok _ => "ok" | .err e => "err:" ++ showErr e | .panic k => showPanic k | .ub => "ub"
        let p1 := parseName .heap t
        let p2 := parseName .inline t
        let same := (match p1 with | .ok m => m == t && nameEq m t | _ => false) &&
                    (match p2 with | .ok m => m == t | _ => false)
        s!"ok {toHex t} heap={sh p1} inline={sh p2} check={shu (checkNameBytes t)} same={same}"
      | .err e, .err _ => "err " ++ showErr e
      | .panic k, _ => showPanic k
      | .ub, _ => "ub"
      | _, _ => "heap-inline-disagree"
    | _, _ => "bad-request"
  | ["enc", hex] =>
    match parseHex hex with
    | some s =>
      let b2n (b : Bool) : String := if b then "1" else "0"
      let pstr := if isUtf8 s then b2n (parseName .heap s).isOk ++ b2n (parseName .inline s).isOk else "--"
      let chk := b2n (checkNameBytes s).isOk
      match (WCur.new 600).writeDomainName s with
      | .ok (w, n) =>
        let wire := w.buf.extract 0 n
        match readName .heap wire (Cur.withPos wire 0) with
        | .ok (t, c) => s!"ok {n} dec={toHex t} next={c.pos} parse={pstr} check={chk}"
        | .err e => s!"ok {n} dec=!{showErr e} parse={pstr} check={chk}"
        | .panic k => showPanic k
        | .ub => "ub"
      | .err e => s!"err {showErr e} parse={pstr} check={chk}"
      | .panic k => showPanic k
      | .ub => "ub"
    | none => "bad-request"
  | ["cmp", ha, hb] =>
    match parseHex ha, parseHex hb with
    | some a, some b => if isUtf8 a && isUtf8 b then answerCmp a b else "badname"
    | _, _ => "bad-request"
  | ["eqstr", kind, hn, hs] =>
    match kindOfString kind, parseHex hn, parseHex hs with
    | some k, some n, some s =>
      if !(isUtf8 n && isUtf8 s) then "badname" else
      match parseName k n with
      | .ok nm => s!"ok {nameEqStr nm s}"
      | _ => "badname"
    | _, _, _ => "bad-request"
  | ["query", cap, ty, cl, rd, opt, hex] =>
    match cap.toNat?, ty.toNat?, cl.toNat?, parseHex hex with
    | some c, some t, some k, some n =>
      let o : Option (Option (Nat × Nat)) :=
        if opt == "-" then some none
        else match opt.splitOn ":" with
          | [v, p] => match v.toNat?, p.toNat? with
            | some v, some p => some (some (v, p))
            | _, _ => none
          | _ => none
      match o with
      | some o =>
        if !isUtf8 n then "not-utf8" else
        showRes (fun (buf, len) => s!"{len} {toHex (buf.extract 0 len)} rest={(buf.extract len buf.size).all (· == 0xFF)}")
          (writeQuery c 0 n t k (rd == "1") o)
      | none => "bad-request"
    | _, _, _, _ => "bad-request"
  | "cfg" :: ctor :: ops => answerCfg ctor ops
  | ["rtype", name] =>
    match rtypeOfString name with
    | some t => s!"ok {t.code}"
    | none => "bad-request"
  | _ => "bad-request"

end Rsdns.Driver
