/-
  Rsdns.Spec.ChainSpec — what "follow the CNAME chain to the right records" MEANS on a decoded
  message, independent of `RecordSet::from_msg`: plain list functions over the answer-section records
  (`RecSpec`, Spec/Wire.lean) with names as decoded text compared like `Name ==` (ASCII case folded).
-/
import Rsdns.Spec.Wire
import Rsdns.Model.NameText
import Rsdns.Model.RecordSet

set_option linter.unusedVariables false

namespace Rsdns.C06

open Rsdns Generated Spec C02

/-- remove the first element satisfying `P` -/
def removeFirst {α : Type} (P : α → Bool) : List α → Option (α × List α)
  | [] => none
  | h :: rest =>
    if P h then some (h, rest)
    else match removeFirst P rest with
      | none => none
      | some (x, r) => some (x, h :: r)

/-- the record is owned by `name` and has the requested type and class -/
def selS (t : RType) (name : Bytes) (rclass : Nat) (x : RecSpec) : Bool :=
  nameEq (nameText x.labels) name && x.rtype == t.code && x.rclass == rclass

/-- the record is a CNAME of `name` in the requested class -/
def cnS (name : Bytes) (rclass : Nat) (x : RecSpec) : Bool :=
  nameEq (nameText x.labels) name && x.rtype == TYPE_CNAME && x.rclass == rclass

/-- the canonical name a CNAME record points to -/
def targetS (x : RecSpec) : Option Bytes :=
  match x.body with
  | .typed _ (.dn _ text) => some text
  | _ => none

/-- the typed value of a record -/
def valS (x : RecSpec) : Option RData :=
  match x.body with
  | .typed _ v => some v
  | _ => none

/-- **the CNAME-chain specification on the decoded message**: `name` is a name text, `xs` the
    answer-section records still available, in wire order.  If some record is owned by `name` with the
    requested type and class, the answer is `name` with all such records, in order.  Otherwise the
    first CNAME of `name` is consumed and the chain continues at its target; with no such CNAME there
    is no answer.  `fuel` bounds the number of hops (each consumes a record). -/
def chainS (t : RType) (rclass : Nat) : Nat → Bytes → List RecSpec → Option (Bytes × List RecSpec)
  | 0, _, _ => none
  | fuel + 1, name, xs =>
    let s := xs.filter (selS t name rclass)
    if s ≠ [] then some (name, s)
    else
      match removeFirst (cnS name rclass) xs with
      | none => none
      | some (x, xs') =>
        match targetS x with
        | some target => chainS t rclass fuel target xs'
        | none => none

/-- the TTL of a record set: the minimum, starting from `u32::MAX` -/
def ttlS (s : List RecSpec) : Nat := s.foldl (fun a x => Nat.min a x.ttl) 4294967295

/-- the OPT pseudo-record `read_opt` finds among `xs` -/
def optOf (xs : List RecSpec) : Option Opt :=
  (xs.find? (fun x => x.rtype == TYPE_OPT)).map (fun x => Opt.fromMsg x.rclass x.ttl)

/-- the response code `from_msg` tests, read off the decoded message: the header RCODE extended by the
    first OPT record behind the answer section -/
def rcodeS (h : Header) (rs : List RecSpec) : Nat :=
  match optOf (rs.drop h.an) with
  | some o => rcode_extended (flags_rcode h.flags) o.rcodeExtension
  | none => flags_rcode h.flags

end Rsdns.C06
