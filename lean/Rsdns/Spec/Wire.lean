/-
  Rsdns.Spec.Wire — what well-formed wire data MEANS, independent of any decoder:
  `LegalName` (a name in any legal compression layout), `CharStrings`, `RDataAt` (the 17 RDATA formats).
-/
import Rsdns.Spec.Expand
import Rsdns.Model.RData
import Rsdns.Model.Pass

set_option linter.unusedVariables false

namespace Rsdns.C02

open Rsdns Generated Spec

/-- a name the encoder may legally emit at `pos`, seen through a view that ends at `lim`: labels `ls`
    (each a valid label), any mix of in-place labels and backward pointers with at most
    `DOMAIN_NAME_MAX_POINTERS` hops, in-place part ending at `nxt`, total length within 255 octets -/
def LegalName (msg : Bytes) (lim pos : Nat) (ls : List Bytes) (nxt : Nat) : Prop :=
  ∃ hops, NameAt msg lim pos pos ls nxt hops ∧ hops ≤ DOMAIN_NAME_MAX_POINTERS ∧
    (∀ l ∈ ls, checkLabel l = .ok ()) ∧ (textOf ls).size < DOMAIN_NAME_MAX_LENGTH

/-- the single-name record types of `rr_dn_data!` -/
def RType.isDn : RType → Bool
  | .ns | .md | .mf | .cname | .mb | .mg | .mr | .ptr => true
  | _ => false

/-- a run of `<character-string>`s filling `[p, q)` exactly; `ss` are their contents -/
inductive CharStrings (msg : Bytes) : Nat → List Bytes → Nat → Prop
  | nil (p : Nat) : CharStrings msg p [] p
  | cons (p : Nat) (s : Bytes) (ss : List Bytes) (q : Nat) :
      s = msg.extract (p + 1) (p + 1 + (msg.getD p 0).toNat) →
      CharStrings msg (p + 1 + (msg.getD p 0).toNat) ss q → CharStrings msg p (s :: ss) q

def concatBytes : List Bytes → Bytes
  | [] => #[]
  | s :: ss => s ++ concatBytes ss

/-- **what the RDATA bytes mean** (RFC 1035 §3.3, §3.4.2, RFC 3596 §2.2): the `n` bytes at `p` encode
    the value `v` of type `t`.  Names may be compressed in any legal way (`LegalName` relative to the
    end of the RDATA, `p + n`); every format must fill its `n` bytes exactly. -/
inductive RDataAt (msg : Bytes) : RType → Nat → Nat → RData → Prop
  | a (p : Nat) : RDataAt msg .a p 4 (.a (Cur.beNat msg p 4))
  | aaaa (p : Nat) : RDataAt msg .aaaa p 16 (.aaaa (Cur.beNat msg p 16))
  | dn (t : RType) (p n : Nat) (ls : List Bytes) : RType.isDn t = true →
      LegalName msg (p + n) p ls (p + n) → RDataAt msg t p n (.dn t (nameText ls))
  | soa (p n : Nat) (l1 l2 : List Bytes) (n1 n2 : Nat) :
      LegalName msg (p + n) p l1 n1 → LegalName msg (p + n) n1 l2 n2 → n2 + 20 = p + n →
      RDataAt msg .soa p n (.soa (nameText l1) (nameText l2) (Cur.beNat msg n2 4) (Cur.beNat msg (n2 + 4) 4)
        (Cur.beNat msg (n2 + 8) 4) (Cur.beNat msg (n2 + 12) 4) (Cur.beNat msg (n2 + 16) 4))
  | null (p n : Nat) : RDataAt msg .null p n (.null (msg.extract p (p + n)))
  | wks (p n : Nat) : 5 ≤ n →
      RDataAt msg .wks p n (.wks (Cur.beNat msg p 4) (msg.getD (p + 4) 0) (msg.extract (p + 5) (p + n)))
  | hinfo (p n : Nat) : p + 2 + (msg.getD p 0).toNat + (msg.getD (p + 1 + (msg.getD p 0).toNat) 0).toNat = p + n →
      RDataAt msg .hinfo p n
        (.hinfo (msg.extract (p + 1) (p + 1 + (msg.getD p 0).toNat))
          (msg.extract (p + 2 + (msg.getD p 0).toNat)
            (p + 2 + (msg.getD p 0).toNat + (msg.getD (p + 1 + (msg.getD p 0).toNat) 0).toNat)))
  | minfo (p n : Nat) (l1 l2 : List Bytes) (n1 : Nat) :
      LegalName msg (p + n) p l1 n1 → LegalName msg (p + n) n1 l2 (p + n) →
      RDataAt msg .minfo p n (.minfo (nameText l1) (nameText l2))
  | mx (p n : Nat) (ls : List Bytes) : LegalName msg (p + n) (p + 2) ls (p + n) →
      RDataAt msg .mx p n (.mx (Cur.beNat msg p 2) (nameText ls))
  | txt (p n : Nat) (ss : List Bytes) : CharStrings msg p ss (p + n) →
      RDataAt msg .txt p n (.txt (concatBytes ss))


/-! ### a whole message: items in wire order, each with its layout and its meaning -/

/-- a question as laid out in the message: where it starts, where the in-place part of QNAME ends
    (= where QTYPE starts), and what it says -/
structure QSpec where
  off : Nat
  nxt : Nat
  labels : List Bytes
  qtype : Nat
  qclass : Nat

def QSpec.endp (q : QSpec) : Nat := q.nxt + 4

def QSpec.WF (msg : Bytes) (q : QSpec) : Prop :=
  LegalName msg msg.size q.off q.labels q.nxt ∧ q.nxt + 4 ≤ msg.size ∧
    q.qtype = Cur.beNat msg q.nxt 2 ∧ q.qclass = Cur.beNat msg (q.nxt + 2) 2

/-- what the RDATA of a record means, by the kind of its TYPE -/
inductive BodySpec where
  | typed (t : RType) (v : RData)
  | opt
  | raw

/-- a resource record as laid out in the message -/
structure RecSpec where
  off : Nat
  nxt : Nat
  rdlen : Nat
  labels : List Bytes
  rtype : Nat
  rclass : Nat
  ttl : Nat
  body : BodySpec

def RecSpec.endp (x : RecSpec) : Nat := x.nxt + 10 + x.rdlen

def RecSpec.WF (msg : Bytes) (x : RecSpec) : Prop :=
  LegalName msg msg.size x.off x.labels x.nxt ∧ x.nxt + 10 + x.rdlen ≤ msg.size ∧
    x.rtype = Cur.beNat msg x.nxt 2 ∧ x.rclass = Cur.beNat msg (x.nxt + 2) 2 ∧
    x.ttl = Cur.beNat msg (x.nxt + 4) 4 ∧ x.rdlen = Cur.beNat msg (x.nxt + 8) 2 ∧
    (match x.body with
     | .typed t v => RType.ofCode x.rtype = some t ∧ RDataAt msg t (x.nxt + 10) x.rdlen v
     | .opt => x.rtype = TYPE_OPT
     | .raw => RType.ofCode x.rtype = none ∧ x.rtype ≠ TYPE_OPT)

/-- what the data call of a linear pass must return for this record -/
def RecSpec.val (msg : Bytes) (x : RecSpec) : RecVal :=
  match x.body with
  | .typed _ v => .typed v
  | .opt => .opt (Opt.fromMsg x.rclass x.ttl)
  | .raw => .raw (msg.extract (x.nxt + 10) (x.nxt + 10 + x.rdlen))

/-- questions back to back from `p`, ending at `e` -/
inductive QsAt (msg : Bytes) : Nat → List QSpec → Nat → Prop
  | nil (p : Nat) : QsAt msg p [] p
  | cons (q : QSpec) (qs : List QSpec) (e : Nat) : q.WF msg → QsAt msg q.endp qs e → QsAt msg q.off (q :: qs) e

/-- records back to back from `p`, ending at `e` -/
inductive RecsAt (msg : Bytes) : Nat → List RecSpec → Nat → Prop
  | nil (p : Nat) : RecsAt msg p [] p
  | cons (x : RecSpec) (xs : List RecSpec) (e : Nat) : x.WF msg → RecsAt msg x.endp xs e →
      RecsAt msg x.off (x :: xs) e

/-- **a well-formed message**: twelve header bytes whose counts match what follows; `qs.length`
    questions from offset 12; `rs.length` records right behind them, distributed over the three
    sections by the header counts; at most 65535 bytes. -/
structure MsgAt (msg : Bytes) (h : Header) (qs : List QSpec) (rs : List RecSpec) : Prop where
  size : msg.size ≤ 65535
  hlen : 12 ≤ msg.size
  id : h.id = Cur.beNat msg 0 2
  flags : h.flags = Cur.beNat msg 2 2
  qd : h.qd = Cur.beNat msg 4 2
  an : h.an = Cur.beNat msg 6 2
  ns : h.ns = Cur.beNat msg 8 2
  ar : h.ar = Cur.beNat msg 10 2
  nq : h.qd = qs.length
  nr : h.an + h.ns + h.ar = rs.length
  layout : ∃ qe e, QsAt msg 12 qs qe ∧ RecsAt msg qe rs e

/-- the section of the `i`-th record (wire order) under the header counts -/
def sectionOf (h : Header) (i : Nat) : Nat :=
  if i < h.an then 0 else if i < h.an + h.ns then 1 else 2
