/-
  Rsdns.Spec.Expand — RFC 1035 §4.1.4 ("Message compression"), followed literally.

  `Expand msg pos labels next` : the domain name encoded at offset `pos` of `msg` denotes the label
  sequence `labels`, and `next` is the offset just after the name's *in-place* bytes — after the
  terminating zero octet, or after the first pointer (two octets).

  No hop bound, no direction constraint, no label-content rule: this is what the wire format *means*.
  The constants 64 / 192 / 256 are the RFC's (two high bits 00 = label, 11 = pointer, 14-bit offset);
  they are deliberately independent of the masks in `Rsdns.Generated`.
-/
import Rsdns.Model.Basic

namespace Rsdns.Spec

open Rsdns

/-- 14-bit offset carried by a pointer whose octets are `b1 b2` (`b1 ≥ 192`) -/
def ptrTarget (b1 b2 : UInt8) : Nat := (b1.toNat - 192) * 256 + b2.toNat

inductive Expand (msg : Bytes) : Nat → List Bytes → Nat → Prop where
  | zero (pos : Nat) :
      msg[pos]? = some 0 → Expand msg pos [] (pos + 1)
  | label (pos : Nat) (n : UInt8) (l : Bytes) (ls : List Bytes) (nxt : Nat) :
      msg[pos]? = some n → 0 < n.toNat → n.toNat < 64 →
      pos + 1 + n.toNat ≤ msg.size → l = msg.extract (pos + 1) (pos + 1 + n.toNat) →
      Expand msg (pos + 1 + n.toNat) ls nxt → Expand msg pos (l :: ls) nxt
  | ptr (pos : Nat) (b1 b2 : UInt8) (ls : List Bytes) (nxt' : Nat) :
      msg[pos]? = some b1 → 192 ≤ b1.toNat → msg[pos + 1]? = some b2 →
      Expand msg (ptrTarget b1 b2) ls nxt' → Expand msg pos ls (pos + 2)

theorem Expand.lt_next {msg : Bytes} {pos : Nat} {ls : List Bytes} {nxt : Nat} (h : Expand msg pos ls nxt) :
    pos < nxt := by
  induction h with
  | zero pos _ => omega
  | label pos n l ls nxt _ _ _ _ _ _ ih => omega
  | ptr pos b1 b2 ls nxt' _ _ _ _ _ => omega

/-- the canonical text of a label sequence: `"."` for the root, otherwise every label followed by `.` -/
def textOf : List Bytes → Bytes
  | [] => #[]
  | l :: ls => (l.push 46) ++ textOf ls

def nameText (ls : List Bytes) : Bytes := if ls.isEmpty then #[46] else textOf ls

/-- Conforming (encoder-emittable) layout: `NameAt msg lim s pos ls next hops` — like `Expand`, but
    every pointer targets a position strictly before the start `s` of the in-place segment that
    contains it (a pointer to an earlier name or to a suffix of one), `hops` pointers are followed in
    total, and every octet of the name lies below `lim` (the end of the message, or of the RDATA
    window the name is read in). -/
inductive NameAt (msg : Bytes) (lim : Nat) : Nat → Nat → List Bytes → Nat → Nat → Prop where
  | zero (s pos : Nat) : msg[pos]? = some 0 → pos < lim → NameAt msg lim s pos [] (pos + 1) 0
  | label (s pos : Nat) (n : UInt8) (l : Bytes) (ls : List Bytes) (nxt h : Nat) :
      msg[pos]? = some n → 0 < n.toNat → n.toNat < 64 →
      pos + 1 + n.toNat ≤ lim → lim ≤ msg.size → l = msg.extract (pos + 1) (pos + 1 + n.toNat) →
      NameAt msg lim s (pos + 1 + n.toNat) ls nxt h → NameAt msg lim s pos (l :: ls) nxt h
  | ptr (s pos : Nat) (b1 b2 : UInt8) (ls : List Bytes) (nxt' h : Nat) :
      msg[pos]? = some b1 → 192 ≤ b1.toNat → msg[pos + 1]? = some b2 → pos + 2 ≤ lim →
      ptrTarget b1 b2 < s →
      NameAt msg lim (ptrTarget b1 b2) (ptrTarget b1 b2) ls nxt' h →
      NameAt msg lim s pos ls (pos + 2) (h + 1)

theorem NameAt.expand {msg lim s pos ls nxt h} (hn : NameAt msg lim s pos ls nxt h) : Expand msg pos ls nxt := by
  induction hn with
  | zero s pos h0 _ => exact .zero pos h0
  | label s pos n l ls nxt h hb hp hl hs hm he _ ih =>
    exact .label pos n l ls nxt hb hp hl (by omega) he ih
  | ptr s pos b1 b2 ls nxt' h hb hge hb2 _ _ _ ih => exact .ptr pos b1 b2 ls nxt' hb hge hb2 ih

end Rsdns.Spec
