/-
  Rsdns.Spec.Views — how the iterator API presents the records that a linear pass with the
  cursor-style reader reports (`iterView`): OPT and records of an undefined class or type are passed
  over, every other record appears with the same section, owner, class, type, TTL and data.
-/
import Rsdns.Model.Pass
import Rsdns.Model.RecordSet

set_option linter.unusedVariables false

namespace Rsdns.C08

open Rsdns Generated

/-- the iterator passes such a record over in silence -/
def skippedRec (p : PassRec) : Bool :=
  p.marker.rtype == TYPE_OPT || !(isDefined CLASS_KNOWN p.marker.rclass) || !(isDefined TYPE_KNOWN p.marker.rtype)

def toRecord (p : PassRec) (v : RData) : Record :=
  { section_ := p.marker.section_, name := p.name, rclass := p.marker.rclass, rtype := p.marker.rtype,
    ttl := p.marker.ttl, rdata := v }

/-- what the iterator yields for the records a linear pass reported -/
def iterView : List PassRec → List (Except Err Record)
  | [] => []
  | p :: ps =>
    if skippedRec p then iterView ps
    else match p.val with
      | .typed v => .ok (toRecord p v) :: iterView ps
      | _ => [.error (.unexpectedType p.marker.rtype)]

end Rsdns.C08
