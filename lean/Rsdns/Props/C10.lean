/-
  Rsdns.Props.C10 — "Random access is a pure function of message and marker".
-/
import Rsdns.Lemmas.Reader

namespace Rsdns.C10

open Rsdns

/-- **C10.** In every state reachable by ANY call history (including histories that end in a failed
    typed read, i.e. with the reader in its error state and a window left open on its cursor), the
    three marker-based accessors are the same functions of `(msg, marker)`: they equal the decoder
    run on a fresh whole-message cursor positioned at the marker's RDATA. -/
theorem at_closed_form (msg : Bytes) (r : Reader) (h : Reader.Reach msg r) (m : Marker) (t : RType) :
    r.dataAt msg t m = (readRData t msg m.rdlen (Cur.withPos msg m.rdataPos)).1 ∧
    r.dataBytesAt msg m = (CurM.slice msg m.rdlen (Cur.withPos msg m.rdataPos)).1 ∧
    r.nameRefAt m = Cur.withPos msg m.rdataPos := by
  have hi := Reach.inv h
  unfold Reader.dataAt Reader.dataBytesAt Reader.nameRefAt
  rw [cloneWithPos_eq hi]
  exact ⟨rfl, rfl, rfl⟩

theorem at_pure (msg : Bytes) (r₁ r₂ : Reader) (h₁ : Reader.Reach msg r₁) (h₂ : Reader.Reach msg r₂)
    (m : Marker) (t : RType) :
    r₁.dataAt msg t m = r₂.dataAt msg t m ∧ r₁.dataBytesAt msg m = r₂.dataBytesAt msg m ∧
      r₁.nameRefAt m = r₂.nameRefAt m := by
  have a := at_closed_form msg r₁ h₁ m t
  have b := at_closed_form msg r₂ h₂ m t
  exact ⟨a.1.trans b.1.symm, a.2.1.trans b.2.1.symm, a.2.2.trans b.2.2.symm⟩

/-- the step function itself: random-access operations leave the reader untouched -/
theorem at_ops_do_not_move (msg : Bytes) (r : Reader) (m : Marker) (t : RType) :
    (r.step msg (.dataAt t m)).2 = r ∧ (r.step msg (.dataBytesAt m)).2 = r ∧ (r.step msg (.nameRefAt m)).2 = r :=
  ⟨rfl, rfl, rfl⟩

/-! non-vacuity: a reader in its error state with a window left open on its cursor is reachable.
    13 zero bytes: `header()` succeeds; a typed MX read announced with RDLENGTH 1 at offset 12 opens a
    1-byte window and fails inside it. -/
def sample : Bytes := Array.replicate 13 0

def badMarker : Marker :=
  { offset := 0, typeOffset := 2, rtype := 15, rclass := 1, ttl := 0, rdlen := 1, section_ := 0 }

example : ∃ r, Reader.Reach sample r ∧ r.done = true ∧ r.cur.orig = some 13 := by
  refine ⟨((Reader.run sample { cur := Cur.new sample, tr := Tracker.default, done := false }
      [.header, .data .mx badMarker])).2, ⟨_, _, rfl, rfl⟩, ?_, ?_⟩ <;> decide +kernel

end Rsdns.C10
