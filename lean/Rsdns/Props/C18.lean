/-
  Rsdns.Props.C18 — "Name equality, ordering and hashing are case-insensitive and coherent".

  Both name types run the same code on their text bytes (the harness checks `Name` against
  `InlineName` and across the two); the model is `nameEq`, `nameCmp`, `nameHashFeed`, `nameEqStr`.
  `fold a` = the ASCII-lower-cased text.

  `eqstr_parse : valid n → (nameEqStr n s ↔ ∃ m, parseName k s = ok m ∧ nameEq n m)` is proved in
  Props/C18Str.lean (it needs the parser theorems of C05).
-/
import Rsdns.Model.NameText

set_option linter.unusedVariables false

namespace Rsdns.C18

open Rsdns

/-- case-folded text -/
def fold (a : Bytes) : List UInt8 := a.toList.map lowerByte

/-- lexicographic comparison of byte lists, shorter-is-smaller on a common prefix -/
def lexCmp : List UInt8 → List UInt8 → Ordering
  | [], [] => .eq
  | [], _ :: _ => .lt
  | _ :: _, [] => .gt
  | x :: xs, y :: ys => if x.toNat < y.toNat then .lt else if x.toNat > y.toNat then .gt else lexCmp xs ys

theorem fold_length (a : Bytes) : (fold a).length = a.size := by simp [fold]

/-- **equality is equality of the case-folded text** -/
theorem eq_iff_fold (a b : Bytes) : nameEq a b = true ↔ fold a = fold b := by
  unfold nameEq eqIgnoreCase fold
  constructor
  · intro h
    simp only [Bool.and_eq_true, beq_iff_eq] at h
    exact h.2
  · intro h
    simp only [Bool.and_eq_true, beq_iff_eq]
    refine ⟨?_, h⟩
    have := congrArg List.length h
    simpa using this

theorem eq_refl (a : Bytes) : nameEq a a = true := (eq_iff_fold a a).mpr rfl
theorem eq_symm (a b : Bytes) (h : nameEq a b = true) : nameEq b a = true :=
  (eq_iff_fold b a).mpr ((eq_iff_fold a b).mp h).symm
theorem eq_trans (a b c : Bytes) (h1 : nameEq a b = true) (h2 : nameEq b c = true) : nameEq a c = true :=
  (eq_iff_fold a c).mpr (((eq_iff_fold a b).mp h1).trans ((eq_iff_fold b c).mp h2))

/-- **equal names hash alike**: the byte sequence fed to the hasher is the folded text -/
theorem hash_congr (a b : Bytes) (h : nameEq a b = true) : nameHashFeed a = nameHashFeed b :=
  (eq_iff_fold a b).mp h

theorem hash_is_fold (a : Bytes) : nameHashFeed a = fold a := rfl

/-- the index loop of `Ord::cmp` computes the lexicographic order of the folded suffixes -/
theorem cmpFrom_eq (a b : Bytes) (fuel i : Nat) (hf : min a.size b.size + 1 ≤ fuel + i) (hi : i ≤ min a.size b.size) :
    nameCmpFrom a b fuel i = lexCmp ((fold a).drop i) ((fold b).drop i) := by
  induction fuel generalizing i with
  | zero =>
    have : i = min a.size b.size + 1 := by omega
    omega
  | succ fuel ih =>
    unfold nameCmpFrom
    by_cases hlt : i < min a.size b.size
    · simp only [hlt, if_true]
      have ha : i < a.size := by omega
      have hb : i < b.size := by omega
      have hda : (fold a).drop i = lowerByte a[i] :: (fold a).drop (i + 1) := by
        unfold fold
        rw [← List.map_drop, ← List.map_drop, List.drop_eq_getElem_cons (by simpa using ha)]
        simp
      have hdb : (fold b).drop i = lowerByte b[i] :: (fold b).drop (i + 1) := by
        unfold fold
        rw [← List.map_drop, ← List.map_drop, List.drop_eq_getElem_cons (by simpa using hb)]
        simp
      rw [hda, hdb]
      simp only [lexCmp]
      have ga : a.getD i 0 = a[i] := by simp [Array.getD, ha]
      have gb : b.getD i 0 = b[i] := by simp [Array.getD, hb]
      rw [ga, gb]
      split
      · rfl
      · split
        · rfl
        · exact ih (i + 1) (by omega) (by omega)
    · simp only [hlt, if_false]
      have hi' : i = min a.size b.size := by omega
      -- one of the two suffixes is empty
      by_cases hab : a.size ≤ b.size
      · have hia : i = a.size := by omega
        have hda : (fold a).drop i = [] := by
          apply List.drop_eq_nil_of_le; rw [fold_length]; omega
        rw [hda]
        by_cases heq : a.size = b.size
        · have hdb : (fold b).drop i = [] := by
            apply List.drop_eq_nil_of_le; rw [fold_length]; omega
          rw [hdb]
          simp [lexCmp, heq]
        · have hb : i < b.size := by omega
          have hdb : (fold b).drop i = lowerByte b[i] :: (fold b).drop (i + 1) := by
            unfold fold
            rw [← List.map_drop, ← List.map_drop, List.drop_eq_getElem_cons (by simpa using hb)]
            simp
          rw [hdb]
          simp only [lexCmp]
          have : a.size < b.size := by omega
          simp [compare, compareOfLessAndEq, this]
      · have hib : i = b.size := by omega
        have hdb : (fold b).drop i = [] := by
          apply List.drop_eq_nil_of_le; rw [fold_length]; omega
        have ha : i < a.size := by omega
        have hda : (fold a).drop i = lowerByte a[i] :: (fold a).drop (i + 1) := by
          unfold fold
          rw [← List.map_drop, ← List.map_drop, List.drop_eq_getElem_cons (by simpa using ha)]
          simp
        rw [hda, hdb]
        simp only [lexCmp]
        have h1 : ¬ a.size < b.size := by omega
        have h2 : ¬ a.size = b.size := by omega
        simp [compare, compareOfLessAndEq, h1, h2]

/-- **ordering is the lexicographic order of the case-folded text** -/
theorem cmp_is_lex (a b : Bytes) : nameCmp a b = lexCmp (fold a) (fold b) := by
  unfold nameCmp
  rw [cmpFrom_eq a b _ 0 (by omega) (by omega)]
  simp

theorem lexCmp_eq_iff (x y : List UInt8) : lexCmp x y = .eq ↔ x = y := by
  induction x generalizing y with
  | nil => cases y <;> simp [lexCmp]
  | cons a xs ih =>
    cases y with
    | nil => simp [lexCmp]
    | cons b ys =>
      simp only [lexCmp]
      split
      · rename_i h
        simp only [reduceCtorEq, List.cons.injEq, false_iff, not_and]
        intro hab; subst hab; omega
      · split
        · rename_i h
          simp only [reduceCtorEq, List.cons.injEq, false_iff, not_and]
          intro hab; subst hab; omega
        · rename_i h1 h2
          rw [ih ys]
          have : a = b := UInt8.toNat_inj.mp (by omega)
          simp [this]

/-- **equal exactly when they compare Equal** -/
theorem eq_iff_cmp (a b : Bytes) : nameEq a b = true ↔ nameCmp a b = .eq := by
  rw [cmp_is_lex, lexCmp_eq_iff, eq_iff_fold]

theorem lexCmp_swap (x y : List UInt8) : lexCmp y x = (lexCmp x y).swap := by
  induction x generalizing y with
  | nil => cases y <;> simp [lexCmp, Ordering.swap]
  | cons a xs ih =>
    cases y with
    | nil => simp [lexCmp, Ordering.swap]
    | cons b ys =>
      simp only [lexCmp]
      by_cases h1 : a.toNat < b.toNat
      · have h2 : ¬ b.toNat < a.toNat := by omega
        have h3 : b.toNat > a.toNat := h1
        simp [h1, h2, h3, Ordering.swap]
      · by_cases h2 : a.toNat > b.toNat
        · have h3 : b.toNat < a.toNat := h2
          simp [h1, h2, h3, Ordering.swap]
        · have h3 : ¬ b.toNat < a.toNat := h2
          have h4 : ¬ b.toNat > a.toNat := h1
          simp [h1, h2, h3, h4, ih ys]

/-- **antisymmetry / totality**: `cmp b a` is the reverse of `cmp a b` -/
theorem cmp_swap (a b : Bytes) : nameCmp b a = (nameCmp a b).swap := by
  rw [cmp_is_lex, cmp_is_lex, lexCmp_swap]

theorem lexCmp_trans (x y z : List UInt8) (h1 : lexCmp x y = .lt) (h2 : lexCmp y z = .lt) : lexCmp x z = .lt := by
  induction x generalizing y z with
  | nil =>
    cases y with
    | nil => simp [lexCmp] at h1
    | cons b ys => cases z with
      | nil => simp [lexCmp] at h2
      | cons c zs => simp [lexCmp]
  | cons a xs ih =>
    cases y with
    | nil => simp [lexCmp] at h1
    | cons b ys =>
      cases z with
      | nil => simp [lexCmp] at h2
      | cons c zs =>
        simp only [lexCmp] at h1 h2 ⊢
        by_cases hab : a.toNat < b.toNat
        · by_cases hbc : b.toNat < c.toNat
          · have : a.toNat < c.toNat := by omega
            simp [this]
          · by_cases hbc' : b.toNat > c.toNat
            · simp [hbc, hbc'] at h2
            · have : a.toNat < c.toNat := by omega
              simp [this]
        · by_cases hab' : a.toNat > b.toNat
          · simp [hab, hab'] at h1
          · simp only [hab, hab', if_false] at h1
            by_cases hbc : b.toNat < c.toNat
            · have : a.toNat < c.toNat := by omega
              simp [this]
            · by_cases hbc' : b.toNat > c.toNat
              · simp [hbc, hbc'] at h2
              · simp only [hbc, hbc', if_false] at h2
                have e1 : ¬ a.toNat < c.toNat := by omega
                have e2 : ¬ a.toNat > c.toNat := by omega
                simp only [e1, e2, if_false]
                exact ih ys zs h1 h2

/-- **transitivity** of the strict order -/
theorem cmp_trans (a b c : Bytes) (h1 : nameCmp a b = .lt) (h2 : nameCmp b c = .lt) : nameCmp a c = .lt := by
  rw [cmp_is_lex] at *
  exact lexCmp_trans _ _ _ h1 h2

/-- the order respects equality: equal names compare alike against any third name -/
theorem cmp_congr (a a' b : Bytes) (h : nameEq a a' = true) : nameCmp a b = nameCmp a' b := by
  rw [cmp_is_lex, cmp_is_lex, (eq_iff_fold a a').mp h]

/-- **conversions between the two types preserve the text** -/
theorem conv_text (n t : Bytes) : (toInline n = .ok t → t = n) ∧ (toHeap n = .ok t → t = n) := by
  constructor
  · unfold toInline; split <;> simp; intro h; exact h.symm
  · unfold toHeap; simp; intro h; exact h.symm

/-! non-vacuity: "Example.COM." and "eXAMPLE.com." are equal, compare Equal and hash alike -/
example : nameEq "Example.COM.".toUTF8.data "eXAMPLE.com.".toUTF8.data = true := by decide
example : nameCmp "a.b.".toUTF8.data "A.c.".toUTF8.data = .lt := by decide

end Rsdns.C18
