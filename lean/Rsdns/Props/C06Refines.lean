/-
  Rsdns.Props.C06Refines — C06 at full strength: `RecordSet::<D>::from_msg` EQUALS the CNAME-chain
  specification (`Rsdns/Spec/ChainSpec.lean`) on every well-formed NOERROR response.
  Helper lemmas: Lemmas/Chain.lean (the loops are a filter / a remove-first / the chain),
  Lemmas/RRSetDecode.lean (what the prefix of `from_msg` reads), Lemmas/RRSetSemantic.lean (owner
  references vs. decoded names).
-/
import Rsdns.Lemmas.RRSetSemantic
import Rsdns.Props.C02Message
set_option linter.unusedVariables false
namespace Rsdns.C06
open Rsdns Generated Spec C09 C02

/-- **C06, full statement.**  For every well-formed response (`MsgAt`: any legal compression layout,
    any letter case, any records in the three sections) with QR set, TC clear, one question `q` and
    response code NOERROR, and for every record type `D`:

    `RecordSet::<D>::from_msg` returns exactly what the CNAME-chain specification `chainS` yields on
    the decoded answer section — the final canonical name as the set's name, the question's class,
    the minimum TTL, and the data of exactly the answer records whose owner equals that name
    (ASCII-case-insensitively) and whose type and class are the requested ones, in message order —
    and `NoAnswer` exactly when the chain ends without such records (dangling or looping CNAMEs
    included: each hop consumes the CNAME record it follows).  Authority and additional records never
    take part (`rs.take h.an`). -/
theorem rrset_refines (t : RType) (msg : Bytes) (h : Header) (q : QSpec) (rs : List RecSpec)
    (hm : MsgAt msg h [q] rs) (hqr : flags_qr h.flags = true) (htc : flags_tc h.flags = false)
    (hrc : rcodeS h rs = 0) :
    fromMsg t msg =
      match chainS t q.qclass ((rs.take h.an).length + 1) (nameText q.labels) (rs.take h.an) with
      | some (name, S) => .ok { name := name, rclass := q.qclass, ttl := ttlS S, rdata := S.filterMap valS }
      | none => .err .noAnswer := by
  obtain ⟨r, hpre, hinv⟩ := fromMsgPrefix_decode msg h q rs hm hqr htc
  obtain ⟨qe, e, hqs, hrs⟩ := hm.layout
  obtain ⟨_, _, _, hqall⟩ := hqs.chain
  obtain ⟨_, _, _, hrall, _⟩ := hrs.chain
  -- every answer record is well-formed
  have hwf : ∀ x ∈ rs.take h.an, x.WF msg := by
    intro x hx
    have hx' : x ∈ rs := List.mem_of_mem_take hx
    obtain ⟨i, hi, hget⟩ := List.mem_iff_getElem.mp hx'
    obtain ⟨y, hy, hw, _, _⟩ := hrall i hi
    rw [List.getElem?_eq_getElem hi, hget] at hy
    simp only [Option.some.injEq] at hy
    rw [hy]; exact hw
  -- the question name
  obtain ⟨q0, hq0, hqw, hqo, _⟩ := hqall 0 (by simp)
  simp only [List.getElem?_cons_zero, Option.some.injEq] at hq0
  subst hq0
  have hq12 : q.off = 12 := hqo
  have hc0 : NameIs msg (Cur.mk msg.size 12 none) (nameText q.labels) := by
    have := NameIs.withPos (msg := msg) (p := q.off) hqw.1
    rw [hq12] at this
    exact this
  let A := rs.take h.an
  let hs0 : List (Option HdrRef) := (A.map (hdrOf msg)).map some
  have hmem0 : ∀ hd, some hd ∈ hs0 → ∃ x ∈ A, hd = hdrOf msg x := by
    intro hd hh
    simp only [hs0, List.mem_map, Option.some.injEq] at hh
    obtain ⟨a, ⟨x, hx, rfl⟩, rfl⟩ := hh
    exact ⟨x, hx, rfl⟩
  have hfl := flatten_refines msg t r q.qclass hs0 (fun c => ∃ text, NameIs msg c text)
    (by
      intro n ⟨text, hn⟩ hd hh
      obtain ⟨x, hx, rfl⟩ := hmem0 hd hh
      exact ⟨_, (hdrOf_nameIs (hwf x hx)).eq hn⟩)
    (by
      intro n hd _ hh hty
      obtain ⟨x, hx, rfl⟩ := hmem0 hd hh
      obtain ⟨text, _, hn⟩ := cname_target hinv (hwf x hx) (by simpa [hdrOf] using hty)
      exact ⟨text, hn⟩)
    (by
      intro hd hh hty
      obtain ⟨x, hx, rfl⟩ := hmem0 hd hh
      obtain ⟨v, _, hv⟩ := typed_data hinv (hwf x hx) t (by simpa [hdrOf] using hty)
      exact ⟨v, hv⟩)
    (A.length + 1) (Cur.mk msg.size 12 none) hs0 0 ⟨_, hc0⟩ (fun x hx => hx)
    (by simp only [hs0, alive_map_some, List.length_map]; omega)
  have hsem := chain_semantic msg t r hinv q.qclass (A.length + 1) (Cur.mk msg.size 12 none) (nameText q.labels) A hwf hc0
  simp only [hs0, alive_map_some] at hfl
  unfold fromMsg fromMsgR
  simp only [hpre]
  have hrc' : (Prefix.mk h (QuestionRef.mk (Cur.mk msg.size 12 none) q.qtype q.qclass)
      ((rs.take h.an).map (hdrOf msg)) (optOf (rs.drop h.an)) r).rcode = 0 := by
    unfold rcodeS at hrc
    unfold Prefix.rcode
    cases ho : optOf (rs.drop h.an) with
    | none => rw [ho] at hrc; exact hrc
    | some o => rw [ho] at hrc; exact hrc
  simp only [hrc', ne_eq, not_true_eq_false, if_false, List.length_map]
  show (match (match flattenLoop msg t r q.qclass (A.length + 1) (Cur.mk msg.size 12 none) ((A.map (hdrOf msg)).map some) 0 with
    | .err e => Res.err e
    | .panic pk => .panic pk
    | .ub => .ub
    | .ok (name, ttl, rdata, rounds) =>
      match nameRefToName .heap msg name with
      | .ok text => .ok (({ name := text, rclass := q.qclass, ttl, rdata } : RRSet), rounds)
      | .err e => .err e
      | .panic pk => .panic pk
      | .ub => .ub) with
    | .ok (rs, _) => Res.ok rs
    | .err e => .err e
    | .panic p => .panic p
    | .ub => .ub) = _
  cases hcs : chainS t q.qclass (A.length + 1) (nameText q.labels) A with
  | none =>
    rw [hcs] at hsem
    rw [hsem] at hfl
    simp only at hfl
    rw [hfl]
  | some w =>
    obtain ⟨text', S⟩ := w
    rw [hcs] at hsem
    obtain ⟨c', hch, hn', hS⟩ := hsem
    rw [hch] at hfl
    obtain ⟨ds, rounds', hflat, hdat⟩ := hfl
    obtain ⟨c'', hread⟩ := hn'.read .heap
    have hds : ds = S.filterMap valS := data_of_sel S ds (fun x hx => by
      obtain ⟨v, hv, hd⟩ := typed_data hinv (hwf x (hS x hx).1) t (hS x hx).2
      exact ⟨v, hv, hd⟩) hdat
    rw [hflat]
    simp only [nameRefToName, hread, ttlOf_hdrOf, hds, ttlS]

/-- non-vacuity: the 35-byte response of `C02.sample` meets every hypothesis, and the specification
    evaluates to the one answer record -/
example : fromMsg .a sample = .ok { name := #[97, 46], rclass := 1, ttl := 60, rdata := [.a 0x01020304] } := by
  rw [rrset_refines .a sample _ sampleQ [sampleR] sample_msgAt (by decide) (by decide) (by decide)]
  decide

/-- the specification on a chain with a fork, a loop and case differences (texts: `a.` → `B.` → `c.`):
    the first CNAME of a name is followed, a consumed CNAME is not followed twice -/
example :
    let rec1 : RecSpec := { off := 0, nxt := 0, rdlen := 0, labels := [#[97]], rtype := 5, rclass := 1, ttl := 300,
                            body := .typed .cname (.dn .cname #[66, 46]) }
    let rec2 : RecSpec := { off := 0, nxt := 0, rdlen := 0, labels := [#[98]], rtype := 5, rclass := 1, ttl := 200,
                            body := .typed .cname (.dn .cname #[97, 46]) }
    let rec3 : RecSpec := { off := 0, nxt := 0, rdlen := 0, labels := [#[98]], rtype := 5, rclass := 1, ttl := 100,
                            body := .typed .cname (.dn .cname #[99, 46]) }
    let rec4 : RecSpec := { off := 0, nxt := 0, rdlen := 0, labels := [#[67]], rtype := 1, rclass := 1, ttl := 50,
                            body := .typed .a (.a 7) }
    (chainS .a 1 5 #[97, 46] [rec1, rec3, rec2, rec4]).map (fun v => (v.1, ttlS v.2, v.2.filterMap valS)) =
      some (#[99, 46], 50, [.a 7]) ∧
    -- a pure loop ends with no answer; so does a fork whose first branch loops (the first CNAME is the one followed)
    chainS .a 1 3 #[97, 46] [rec1, rec2] = none ∧ chainS .a 1 5 #[97, 46] [rec1, rec2, rec3, rec4] = none := by
  decide

end Rsdns.C06
