/-
  Rsdns.Props.C05 — "One notion of a valid name; text and wire forms round-trip".

  FULL STATEMENT (kept visible; parts proved so far are the theorems below, the rest is covered by the
  `roundtrip` / `text` correspondence streams and their impl-vs-spec oracle):
    (1) parse_agree   : (parseName heap s).isOk = (parseName inline s).isOk = (checkNameBytes s).isOk
                        = (∃ cap, (writeDomainName (new cap) s).isOk)
    (2) encode_decode : writeDomainName w s = ok (w', n) → n ≤ 255 ∧ readName k (written bytes) 0 = ok (canon s, _)
    (3) decode_valid  : readName k msg c = ok (t, _) → parseName k t = ok t
-/
import Rsdns.Lemmas.NameText
import Rsdns.Props.C03

set_option linter.unusedVariables false

namespace Rsdns.C05

open Rsdns Generated Spec

/-- an accepted text name is short enough for both name types (so the `unwrap`/`push` in the two
    `from` functions cannot panic): at most 253 characters, 254 with the root dot -/
theorem check_len (s : Bytes) (h : checkNameBytes s = .ok ()) :
    s.size ≠ 0 ∧ (if s.getD (s.size - 1) 0 == DOT then s.size + 1 else s.size + 2) ≤ DOMAIN_NAME_MAX_LENGTH := by
  obtain ⟨h0, hc⟩ := checkNameBytes_ok h
  refine ⟨h0, ?_⟩
  rcases hc with rfl | ⟨_, hlen⟩
  · decide
  · exact hlen

/-- **C05 (1), parser half.** The two name types and the validator accept exactly the same strings,
    never panic, and both produce the canonical spelling (the string itself, plus the root dot when it
    is missing). -/
theorem parse_agree (s : Bytes) :
    (parseName .heap s).isOk = (checkNameBytes s).isOk ∧
    (parseName .inline s).isOk = (checkNameBytes s).isOk ∧
    (∀ k t, parseName k s = .ok t → t = (if s.getD (s.size - 1) 0 != DOT then s.push DOT else s)) ∧
    (parseName .heap s).safe ∧ (parseName .inline s).safe := by
  have key : ∀ k, (parseName k s).isOk = (checkNameBytes s).isOk ∧ (parseName k s).safe ∧
      (∀ t, parseName k s = .ok t → t = (if s.getD (s.size - 1) 0 != DOT then s.push DOT else s)) := by
    intro k
    have hsafe := checkNameBytes_safe s
    unfold parseName
    cases hc : checkNameBytes s with
    | err e => simp [Res.isOk]
    | panic p => rw [hc] at hsafe; simp at hsafe
    | ub => rw [hc] at hsafe; simp at hsafe
    | ok u =>
      obtain ⟨hne, hlen⟩ := check_len s hc
      have hcap : INLINE_CAP = DOMAIN_NAME_MAX_LENGTH := rfl
      have hsz : s.size + 1 ≤ DOMAIN_NAME_MAX_LENGTH := by split at hlen <;> omega
      have h1 : ¬ (k = NameKind.inline ∧ s.size > INLINE_CAP) := by rw [hcap]; omega
      simp only [beq_iff_eq, h1, if_false, hne]
      by_cases hd : (s.getD (s.size - 1) 0 != DOT) = true
      · have hd' : (s.getD (s.size - 1) 0 == DOT) = false := by simpa using hd
        have h2 : ¬ (k = NameKind.inline ∧ s.size + 1 > INLINE_CAP) := by
          rw [hcap]
          simp only [hd', Bool.false_eq_true, if_false] at hlen
          omega
        simp only [hd, if_true, h2, if_false, Res.isOk, Res.safe_ok, true_and]
        intro t ht
        simp only [Res.ok.injEq] at ht
        exact ht.symm
      · simp only [hd, Bool.false_eq_true, if_false, Res.isOk, Res.safe_ok, true_and]
        intro t ht
        simp only [Res.ok.injEq] at ht
        exact ht.symm
  exact ⟨(key .heap).1, (key .inline).1, fun k t ht => (key k).2.2 t ht, (key .heap).2.1, (key .inline).2.1⟩

/-- the validator itself never panics or leaves the string (its three `get_unchecked` sites are in range) -/
theorem check_total (s : Bytes) : (checkNameBytes s).safe := checkNameBytes_safe s

/-- **C05 (3), length half.** A decoded name is never longer than the wire limit allows: its text has
    at most 254 characters (wire form ≤ 255 octets), so it fits both name types and passes the
    validator's length test; every label of it passed `check_label_bytes`. -/
theorem decoded_len (k : NameKind) (msg : Bytes) (c c' : Cur) (text : Bytes)
    (h : readName k msg c = .ok (text, c')) : text.size + 1 ≤ DOMAIN_NAME_MAX_LENGTH ∧ text.size ≠ 0 := by
  unfold readName at h
  split at h <;> try (simp at h; done)
  rename_i o hw
  simp only [Res.ok.injEq, Prod.mk.injEq] at h
  obtain ⟨ht, _⟩ := h
  have hb := walk_text_len msg k _ #[] [] 0 o hw (by decide)
  subst ht
  split
  · exact ⟨by decide, by decide⟩
  · rename_i hz
    exact ⟨hb, hz⟩

end Rsdns.C05
