/-
  Rsdns.Props.C05 — "One notion of a valid name; text and wire forms round-trip".

  FULL STATEMENT, all parts proved below:
    (1) parse_agree + encoder_accepts_valid + valid_encodes :
          (parseName heap s).isOk = (parseName inline s).isOk = (checkNameBytes s).isOk, and the wire
          encoder accepts exactly these strings (given room for 255 octets);
    (2) encode_decode : writeDomainName w s = ok (w', n) → n ≤ 255 ∧ decoding the written octets returns
          the canonical spelling `canon s` and stops right behind them;
    (3) decode_valid / decode_reparse : readName k msg c = ok (t, _) → checkNameBytes t = ok ∧ parseName k t = ok t.
  Helper lemmas: Rsdns/Lemmas/Encode.lean (the splitting loop as a fold over `labelsOf`, join/split,
  what the encoder writes, `nameAt_of_wire`).
-/
import Rsdns.Lemmas.NameText
import Rsdns.Lemmas.Encode
import Rsdns.Props.C03

set_option linter.unusedVariables false

namespace Rsdns.C05

open Rsdns Generated Spec C11

/-- an accepted text name is short enough for both name types (so the `unwrap`/`push` in the two
    `from` functions cannot panic): at most 253 characters, 254 with the root dot -/
theorem check_len (s : Bytes) (h : checkNameBytes s = .ok ()) :
    s.size ≠ 0 ∧ (if s.getD (s.size - 1) 0 == DOT then s.size + 1 else s.size + 2) ≤ DOMAIN_NAME_MAX_LENGTH := by
  obtain ⟨h0, hc⟩ := checkNameBytes_ok h
  refine ⟨h0, ?_⟩
  rcases hc with rfl | ⟨_, hlen⟩
  · decide
  · exact hlen

/-- **C05 (1), parser half.** The two name types and the validator accept exactly the same strings,
    never panic, and both produce the canonical spelling (the string itself, plus the root dot when it
    is missing). -/
theorem parse_agree (s : Bytes) :
    (parseName .heap s).isOk = (checkNameBytes s).isOk ∧
    (parseName .inline s).isOk = (checkNameBytes s).isOk ∧
    (∀ k t, parseName k s = .ok t → t = (if s.getD (s.size - 1) 0 != DOT then s.push DOT else s)) ∧
    (parseName .heap s).safe ∧ (parseName .inline s).safe := by
  have key : ∀ k, (parseName k s).isOk = (checkNameBytes s).isOk ∧ (parseName k s).safe ∧
      (∀ t, parseName k s = .ok t → t = (if s.getD (s.size - 1) 0 != DOT then s.push DOT else s)) := by
    intro k
    have hsafe := checkNameBytes_safe s
    unfold parseName
    cases hc : checkNameBytes s with
    | err e => simp [Res.isOk]
    | panic p => rw [hc] at hsafe; simp at hsafe
    | ub => rw [hc] at hsafe; simp at hsafe
    | ok u =>
      obtain ⟨hne, hlen⟩ := check_len s hc
      have hcap : INLINE_CAP = DOMAIN_NAME_MAX_LENGTH := rfl
      have hsz : s.size + 1 ≤ DOMAIN_NAME_MAX_LENGTH := by split at hlen <;> omega
      have h1 : ¬ (k = NameKind.inline ∧ s.size > INLINE_CAP) := by rw [hcap]; omega
      simp only [beq_iff_eq, h1, if_false, hne]
      by_cases hd : (s.getD (s.size - 1) 0 != DOT) = true
      · have hd' : (s.getD (s.size - 1) 0 == DOT) = false := by simpa using hd
        have h2 : ¬ (k = NameKind.inline ∧ s.size + 1 > INLINE_CAP) := by
          rw [hcap]
          simp only [hd', Bool.false_eq_true, if_false] at hlen
          omega
        simp only [hd, if_true, h2, if_false, Res.isOk, Res.safe_ok, true_and]
        intro t ht
        simp only [Res.ok.injEq] at ht
        exact ht.symm
      · simp only [hd, Bool.false_eq_true, if_false, Res.isOk, Res.safe_ok, true_and]
        intro t ht
        simp only [Res.ok.injEq] at ht
        exact ht.symm
  exact ⟨(key .heap).1, (key .inline).1, fun k t ht => (key k).2.2 t ht, (key .heap).2.1, (key .inline).2.1⟩

/-- the validator itself never panics or leaves the string (its three `get_unchecked` sites are in range) -/
theorem check_total (s : Bytes) : (checkNameBytes s).safe := checkNameBytes_safe s

/-- **C05 (3), length half.** A decoded name is never longer than the wire limit allows: its text has
    at most 254 characters (wire form ≤ 255 octets), so it fits both name types and passes the
    validator's length test; every label of it passed `check_label_bytes`. -/
theorem decoded_len (k : NameKind) (msg : Bytes) (c c' : Cur) (text : Bytes)
    (h : readName k msg c = .ok (text, c')) : text.size + 1 ≤ DOMAIN_NAME_MAX_LENGTH ∧ text.size ≠ 0 := by
  unfold readName at h
  split at h <;> try (simp at h; done)
  rename_i o hw
  simp only [Res.ok.injEq, Prod.mk.injEq] at h
  obtain ⟨ht, _⟩ := h
  have hb := walk_text_len msg k _ #[] [] 0 o hw (by decide)
  subst ht
  split
  · exact ⟨by decide, by decide⟩
  · rename_i hz
    exact ⟨hb, hz⟩

/-- **C05 (2) encode → decode.**  Whatever `write_domain_name` accepts, it writes at most 255 octets,
    and decoding those octets (with either name type) returns the canonical spelling of the text — the
    text itself plus the root dot when it was missing — and stops right behind them. -/
theorem encode_decode (k : NameKind) (w w' : WCur) (name : Bytes) (n : Nat) (hw : w.pos ≤ w.buf.size)
    (h : w.writeDomainName name = .ok (w', n)) :
    n ≤ DOMAIN_NAME_MAX_LENGTH ∧
    readName k (WCur.written w') (Cur.withPos (WCur.written w') w.pos) =
      .ok (canon name, (Cur.withPos (WCur.written w') w.pos).setPos (w.pos + n)) := by
  obtain ⟨hne, hcase, hp, hsz⟩ := writeDomainName_inv w w' name n h
  have hA : (WCur.written w).size = w.pos := by simp [WCur.written]; omega
  rcases hcase with ⟨hroot, hwr, hn⟩ | ⟨hnr, hck, hwr, hn, hle⟩
  · subst hn
    refine ⟨by decide, ?_⟩
    rw [hwr]
    have hna : NameAt (WCur.written w ++ #[0]) (WCur.written w ++ #[0]).size w.pos w.pos [] (w.pos + 1) 0 := by
      have := nameAt_of_wire [] (WCur.written w) #[] (WCur.written w ++ #[0]).size w.pos (by simp)
        (by simp [wireLabels]) (by simp [wireLabels])
      simpa [wireLabels, hA] using this
    have := C03.read_complete k (WCur.written w ++ #[0]) (Cur.withPos (WCur.written w ++ #[0]) w.pos) [] (w.pos + 1) 0
      hna (by decide) (by simp) (by decide)
    rw [this, hroot]
    simp [nameText, canon, DOT]
  · refine ⟨hle, ?_⟩
    rw [hwr]
    have hval : ∀ l ∈ labelsOf name, 0 < l.size ∧ l.size < 64 := fun l hl => checkLabel_size l (hck l hl)
    have hna := nameAt_of_wire (labelsOf name) (WCur.written w) #[]
      (WCur.written w ++ (wireLabels (labelsOf name) ++ #[0])).size w.pos hval
      (by simp; omega) (by simp)
    simp only [Array.append_empty, hA] at hna
    have hlen : (textOf (labelsOf name)).size < DOMAIN_NAME_MAX_LENGTH := by
      rw [← wireLabels_size]; omega
    have := C03.read_complete k _ (Cur.withPos (WCur.written w ++ (wireLabels (labelsOf name) ++ #[0])) w.pos)
      (labelsOf name) (w.pos + (wireLabels (labelsOf name)).size + 1) 0 hna (by decide) hck hlen
    rw [this, nameText_of_ne_nil _ (labelsOf_ne_nil name hne), (labelsOf_spec name hne).1, hn]
    simp [Nat.add_assoc]

/-- **C05 (1), encoder half (soundness).**  Whatever the wire encoder accepts, the validator (hence both
    parsers, `parse_agree`) accepts. -/
theorem encoder_accepts_valid (w w' : WCur) (name : Bytes) (n : Nat) (h : w.writeDomainName name = .ok (w', n)) :
    checkNameBytes name = .ok () := by
  obtain ⟨hne, hcase, _, _⟩ := writeDomainName_inv w w' name n h
  rw [checkNameBytes_iff]
  refine ⟨hne, ?_⟩
  rcases hcase with ⟨hroot, _, _⟩ | ⟨_, hck, _, hn, hle⟩
  · exact Or.inl hroot
  · right
    refine ⟨hck, ?_⟩
    rw [← (labelsOf_spec name hne).1, ← wireLabels_size]
    omega

/-- **C05 (3) decode → valid.**  Every name the decoder returns (either name type) is accepted by the
    validator — hence by both parsers, which return it unchanged. -/
theorem decode_valid (k : NameKind) (msg : Bytes) (c c' : Cur) (t : Bytes) (h : readName k msg c = .ok (t, c')) :
    checkNameBytes t = .ok () ∧ canon t = t := by
  obtain ⟨hlen, hne⟩ := C05.decoded_len k msg c c' t h
  obtain ⟨ls, _, ht, hck, _, _⟩ := C03.read_sound k msg c c' t h
  cases ls with
  | nil =>
    have : t = #[DOT] := by rw [ht]; simp [nameText, DOT]
    subst this
    exact ⟨by decide, by decide⟩
  | cons l ls =>
    have htt : t = textOf (l :: ls) := by rw [ht]; simp [nameText]
    have hlast : t.getD (t.size - 1) 0 = DOT := by rw [htt]; exact textOf_last _ (by simp)
    have hcan : canon t = t := canon_of_dot t hlast
    refine ⟨?_, hcan⟩
    rw [checkNameBytes_iff]
    refine ⟨hne, Or.inr ⟨?_, by rw [hcan]; exact hlen⟩⟩
    -- the labels of the text are the decoded labels
    have hsplit : labelsOf t = l :: ls := by
      apply textOf_inj
      · exact (labelsOf_spec t hne).2
      · intro x hx; exact nodot_of_check x (hck x hx)
      · rw [(labelsOf_spec t hne).1, hcan, htt]
    rw [hsplit]
    exact hck

/-- **C05 (1), encoder half (completeness).**  Whatever the validator accepts, the wire encoder accepts
    when the buffer has room for 255 octets. -/
theorem valid_encodes (w : WCur) (name : Bytes) (h : checkNameBytes name = .ok ())
    (hroom : w.pos + DOMAIN_NAME_MAX_LENGTH ≤ w.buf.size) : ∃ w' n, w.writeDomainName name = .ok (w', n) := by
  obtain ⟨hne, hc⟩ := (checkNameBytes_iff name).mp h
  have h255 : DOMAIN_NAME_MAX_LENGTH = 255 := rfl
  unfold WCur.writeDomainName
  simp only [hne, if_false]
  by_cases hr : (name == #[DOT]) = true
  · simp only [hr, if_true]
    have : w.len ≥ 1 := by simp only [WCur.len]; omega
    obtain ⟨w1, h1, _⟩ := put_written w #[UInt8.ofNat (0 % 256)] (by simp; omega)
    simp only [WCur.u8, this, if_true, h1]
    exact ⟨w1, 1, rfl⟩
  · simp only [hr, Bool.false_eq_true, if_false]
    rcases hc with hroot | ⟨hck, hlen⟩
    · rw [hroot] at hr; simp at hr
    · rw [splitLabels_fold name _ w hne]
      have hws : (wireLabels (labelsOf name)).size = (canon name).size := by
        rw [wireLabels_size, (labelsOf_spec name hne).1]
      obtain ⟨w1, h1⟩ := foldWrite_ok (labelsOf name) w hck (by omega)
      obtain ⟨_, _, sz1, p1⟩ := foldWrite_inv _ w w1 h1
      simp only [h1]
      have hl1 : w1.len ≥ 1 := by simp only [WCur.len]; omega
      obtain ⟨w2, h2, _, p2, _⟩ := put_written w1 #[UInt8.ofNat (0 % 256)] (by simp; omega)
      simp only [WCur.u8, hl1, if_true, h2]
      have hnlt : ¬ (w2.pos < w.pos) := by rw [p2, p1]; omega
      have hnl : ¬ (w2.pos - w.pos > DOMAIN_NAME_MAX_LENGTH) := by rw [p2, p1]; simp; omega
      simp only [hnlt, if_false, hnl]
      exact ⟨w2, _, rfl⟩

/-- **C05 (3), re-parse.** Parsing the text of a decoded name returns that very name, with both parsers. -/
theorem decode_reparse (k k' : NameKind) (msg : Bytes) (c c' : Cur) (t : Bytes)
    (h : readName k msg c = .ok (t, c')) : parseName k' t = .ok t := by
  obtain ⟨hv, hc⟩ := decode_valid k msg c c' t h
  obtain ⟨h1, h2, h3, _, _⟩ := parse_agree t
  have hok : (parseName k' t).isOk = true := by
    cases k' with
    | heap => rw [h1, hv]; rfl
    | inline => rw [h2, hv]; rfl
  cases hp : parseName k' t with
  | ok t' =>
    have := h3 k' t' hp
    rw [this]
    unfold canon at hc
    rw [hc]
  | err e => rw [hp] at hok; simp [Res.isOk] at hok
  | panic p => rw [hp] at hok; simp [Res.isOk] at hok
  | ub => rw [hp] at hok; simp [Res.isOk] at hok

end Rsdns.C05
