/-
  Rsdns.Props.C17 — "Safe API calls can never corrupt memory, in any order".

  No protocol hypothesis anywhere in this file: call histories are arbitrary lists of `Op`, markers are
  arbitrary values (any offsets, lengths, sections — in particular markers obtained from a different
  message), cursors handed to the name code are arbitrary positions of arbitrary views.
  `Res.noUB` = the outcome is a value, an error or a panic (documented debug assertion / checked
  counter arithmetic) — never the `ub` outcome, which the model produces exactly when an unchecked
  access (`get_unchecked`, `read_unaligned`, `from_utf8_unchecked`) would violate its precondition.
-/
import Rsdns.Lemmas.Reader
import Rsdns.Lemmas.Encode
import Rsdns.Props.C05

namespace Rsdns.C17

open Rsdns

/-- **C17.** Any history of public `MessageReader` calls, with any markers, on any message: no call
    performs an out-of-bounds or otherwise undefined access. -/
theorem api_no_ub (msg : Bytes) (r0 : Reader) (ops : List Op) (h0 : Reader.new msg = .ok r0) :
    ∀ o ∈ (Reader.run msg r0 ops).1, o.noUB :=
  (run_ok ops (RInv.new h0)).1

/-- in every reachable state the cursor's view is a prefix of the message and the full view is the
    whole message — the representation invariant all bounds tests rely on -/
theorem reach_inv (msg : Bytes) (r : Reader) (h : Reader.Reach msg r) :
    r.cur.lim ≤ msg.size ∧ r.cur.full = msg.size :=
  ⟨(Reach.inv h).1.lim_le, (Reach.inv h).2⟩

/-- cursor primitives from ANY position (also past the end of the view): a value or an error -/
theorem cursor_any_pos (msg : Bytes) (c : Cur) (h : Cur.OK msg c) (n : Nat) :
    (c.u8 msg).safe ∧ (c.slice msg n).safe ∧ (c.skip n).safe ∧ (c.window msg n).safe ∧ c.closeWindow.safe ∧
      (0 < n → (c.rBe msg n).safe) := by
  refine ⟨?_, ?_, ?_, ?_, ?_, ?_⟩
  · rcases Cur.u8_spec h with ⟨v, hu, _⟩ | ⟨hu, _⟩ <;> simp [hu]
  · rcases Cur.slice_spec h n with ⟨hu, _⟩ | ⟨hu, _⟩ | ⟨hu, _⟩ <;> simp [hu]
  · rcases Cur.skip_spec c n with ⟨hu, _⟩ | hu <;> simp [hu]
  · rcases Cur.window_spec h n with ⟨hu, _⟩ | ⟨e, hu⟩ <;> simp [hu]
  · rcases Cur.closeWindow_spec c with ⟨o, _, _, hu⟩ | ⟨e, hu⟩ <;> simp [hu]
  · intro hn
    rcases Cur.rBe_spec h n hn with ⟨hu, _⟩ | ⟨hu, _⟩ <;> simp [hu]

/-- a slice handed out by `slice` lies inside the message -/
theorem slice_inside (msg : Bytes) (c c' : Cur) (n : Nat) (b : Bytes) (h : Cur.OK msg c)
    (hs : c.slice msg n = .ok (b, c')) : b = msg.extract c.pos (c.pos + n) ∧ c.pos + n ≤ msg.size := by
  have := Cur.slice_ok hs
  exact ⟨this.2.2.2.2.2, by have := h.lim_le; omega⟩

/-- names and labels read through a cursor over ANY view of ANY message (e.g. a `NameRef` that
    belongs to another message): a value or an error -/
theorem names_any_cursor (msg : Bytes) (c : Cur) (h : Cur.OK msg c) (k : NameKind) :
    (readName k msg c).safe ∧ (skipName msg c).safe ∧ (Labels.drain msg (Labels.new c) []).safe :=
  ⟨readName_safe k msg c h, skipName_safe msg c h, drain_safe msg _ _ (Labels.Inv.new h)⟩

/-- `NameRef::eq` between names of two DIFFERENT messages is still memory-safe (its verdict is not
    meaningful then, as the documentation says) -/
theorem nameref_eq_foreign (ma mb : Bytes) (ca cb : Cur) (ha : Cur.OK ma ca) (hb : Cur.OK mb cb) :
    (nameRefEq ma mb ca cb).safe :=
  nameRefEqLoop_safe ma mb _ _ (Labels.Inv.new ha) (Labels.Inv.new hb)

/-- typed record data through a cursor at any position with any announced length -/
theorem rdata_any (t : RType) (msg : Bytes) (c : Cur) (h : Cur.OK msg c) (rdLen : Nat) :
    (readRData t msg rdLen c).1.safe := by
  have := readRData_spec t msg rdLen c h
  cases hr : readRData t msg rdLen c with
  | mk res c' => rw [hr] at this; cases res <;> simp_all

/-- **C17, write side.**  The only unchecked stores outside the readers are those of the query encoder
    (`WCursor::u8_unchecked` / `bytes_unchecked`, behind every client's `query_raw` / `query_rrset`): for
    every buffer size — the clients' own 288-byte buffer (`Generated.STD_QUERY_BUFFER_SIZE`,
    `ASYNC_QUERY_BUFFER_SIZE`) in particular — and every caller-supplied name, type, class and option the
    encoder returns a value or an error, never the `ub` outcome and never a panic. -/
theorem query_writer_no_ub (cap id : Nat) (qname : Bytes) (qtype qclass : Nat) (rd : Bool) (opt : Option (Nat × Nat)) :
    (writeQuery cap id qname qtype qclass rd opt).noUB := by
  have h := (C11.writeQuery_safe cap id qname qtype qclass rd opt).1
  cases hw : writeQuery cap id qname qtype qclass rd opt <;> simp_all [Res.safe, Res.noUB]

/-- what the clients call: `prepare_message` on their fixed buffer -/
theorem prepare_message_no_ub (c : Cfg) (id : Nat) (qname : Bytes) (qtype qclass buflen : Nat) :
    (prepareMessage c id qname qtype qclass buflen).noUB := by
  have h := query_writer_no_ub c.queryBufferSize id qname qtype qclass c.rd (clientOpt c buflen)
  unfold prepareMessage
  cases hw : writeQuery c.queryBufferSize id qname qtype qclass c.rd (clientOpt c buflen) <;> simp_all [Res.noUB]

/-- helper: along the loop the unchecked comparison agrees with the total one and never reaches `ub` -/
theorem nameCmpUFrom_eq (a b : Bytes) (fuel i : Nat) :
    nameCmpUFrom a b fuel i = .ok (nameCmpFrom a b fuel i) := by
  induction fuel generalizing i with
  | zero => simp [nameCmpUFrom, nameCmpFrom]
  | succ f ih =>
    unfold nameCmpUFrom nameCmpFrom
    by_cases hi : i < min a.size b.size
    · have ha : i < a.size := by omega
      have hb : i < b.size := by omega
      simp only [hi, ha, hb, if_true, ih, apply_ite Res.ok]
    · simp only [hi, if_false]

/-- **C17, ordering of names.**  `Ord::cmp` of `Name` and of `InlineName` indexes both operands with
    `get_unchecked(i)` for `i` below the SHORTER length; for any two byte strings — in particular for names
    of different lengths, the empty name and names at the 255-octet capacity — neither access is out of
    range, and the verdict is the total function `nameCmp` the C18 theorems are about. -/
theorem name_cmp_no_ub (a b : Bytes) : nameCmpU a b = .ok (nameCmp a b) :=
  nameCmpUFrom_eq a b _ 0

theorem name_cmp_noUB (a b : Bytes) : (nameCmpU a b).noUB := by
  rw [name_cmp_no_ub]; trivial

/-- text-side entry points (`Name::from`, `InlineName::from`, `check_name`, the label-splitting loop with
    its `get_unchecked(i..j)`): a value, an error or the documented capacity panic — never `ub` -/
theorem parse_no_ub (k : NameKind) (s : Bytes) : (parseName k s).noUB ∧ (checkNameBytes s).noUB := by
  have hc := C05.check_total s
  refine ⟨?_, ?_⟩
  · unfold parseName
    cases hcs : checkNameBytes s with
    | err e => trivial
    | panic p => rw [hcs] at hc; exact absurd hc (by simp [Res.safe])
    | ub => rw [hcs] at hc; exact absurd hc (by simp [Res.safe])
    | ok u =>
      simp only
      have hne : s.size ≠ 0 := by
        intro h0
        unfold checkNameBytes at hcs
        simp [h0] at hcs
      simp only [hne, if_false]
      split
      · trivial
      · split
        · split <;> trivial
        · trivial
  · cases hcs : checkNameBytes s <;> simp_all [Res.safe, Res.noUB]

/-! non-vacuity: the reader over a 12-byte message exists, and a marker taken elsewhere (offset 38,
    zero length) is an admissible argument -/
example : ∃ r0, Reader.new (Array.replicate 12 (0 : UInt8)) = .ok r0 := ⟨_, rfl⟩

end Rsdns.C17
