/-
  Rsdns.Props.C20 — "Reading fixed-size records allocates nothing".

  Level `other`: heap allocation is a fact about the compiled program; what a Lean model can carry is
  the accounting below, re-derived from the source on every run, and the harness's counting allocator
  measures every call of the allocation-free API on the real code (exact on every sampled input,
  errors included).
-/
import Rsdns.Model.Alloc

namespace Rsdns.C20

open Rsdns.Alloc Rsdns.Generated

/-- **C20.** No function reachable from an allocation-free entry point contains an allocating construct -/
theorem alloc_free_subset : ∀ e ∈ Entry.all, allocCount e = 0 := by decide

/-- …and the error type carries no heap-owning field on these paths (`&'static str`, integers, enums) -/
theorem errors_carry_no_heap_data : allocSites .errors_Error_heap_fields = 0 := by decide

/-- non-vacuity of the accounting: the same inventory does see the allocating paths — heap names,
    character strings, NULL / WKS / TXT data, record-set extraction -/
theorem allocating_paths_are_seen :
    0 < allocSites .name_append_label_bytes ∧ 0 < allocSites .character_string_read_character_string ∧
    0 < allocSites .rdata_Null ∧ 0 < allocSites .rdata_Wks ∧ 0 < allocSites .rdata_Txt ∧
    0 < allocSites .record_set_read_answer_headers := by decide

/-- every entry point of the list is covered by the call graph (no entry reaches nothing) -/
theorem call_graph_nonempty : ∀ e ∈ Entry.all, (reach e).length ≠ 0 := by decide

end Rsdns.C20
