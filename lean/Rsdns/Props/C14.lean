/-
  Rsdns.Props.C14 — "TCP responses are framed by their length prefix".

  The byte stream of a connection is a list of segments (`Stream.segs`) followed by a close or a stall.
  `readExact` is `read_exact` across segments; `tcpFraming` is the part of `tcp_exchange` after the
  query was written: `read_exact(2)`, bound check against the caller's buffer, `read_exact(N)`.
  Assumed, not verified: the runtimes' `read_exact` fills the buffer from consecutive stream bytes and
  fails with UnexpectedEof when the stream ends first (their documented contract).
-/
import Rsdns.Model.Client
import Rsdns.Lemmas.Guards

set_option linter.unusedVariables false

namespace Rsdns.C14

open Rsdns

/-- all bytes a list of segments delivers, as one list -/
def flatSegs (segs : List Bytes) : List UInt8 := (segs.map Array.toList).flatten

def flat (s : Stream) : List UInt8 := flatSegs s.segs

theorem readExactSegs_spec (segs : List Bytes) (n : Nat) (closed : Bool) (acc : Bytes) :
    (n ≤ (flatSegs segs).length →
      ∃ rest, readExactSegs segs n closed acc = .ok (acc ++ ((flatSegs segs).take n).toArray) rest ∧
        flat rest = (flatSegs segs).drop n ∧ rest.closed = closed) ∧
    ((flatSegs segs).length < n → readExactSegs segs n closed acc = (if closed then .eof else .stalled)) := by
  induction segs generalizing n acc with
  | nil =>
    constructor
    · intro h
      have : n = 0 := by simpa [flatSegs] using h
      subst this
      exact ⟨⟨[], closed⟩, by simp [readExactSegs, flatSegs], by simp [flat, flatSegs], rfl⟩
    · intro h
      have : n ≠ 0 := by simp [flatSegs] at h; omega
      simp [readExactSegs, this]
  | cons seg rest ih =>
    have hf : flatSegs (seg :: rest) = seg.toList ++ flatSegs rest := by simp [flatSegs]
    have hlen : seg.toList.length = seg.size := by simp
    by_cases hn : n = 0
    · subst hn
      constructor
      · intro _
        exact ⟨⟨seg :: rest, closed⟩, by simp [readExactSegs], by simp [flat], rfl⟩
      · intro h; omega
    · by_cases hle : seg.size ≤ n
      · have hstep : readExactSegs (seg :: rest) n closed acc = readExactSegs rest (n - seg.size) closed (acc ++ seg) := by
          simp [readExactSegs, hn, hle]
        rw [hstep, hf]
        constructor
        · intro h
          simp only [List.length_append, hlen] at h
          obtain ⟨rest', hr, hfl, hc⟩ := (ih (n - seg.size) (acc ++ seg)).1 (by omega)
          refine ⟨rest', ?_, ?_, hc⟩
          · rw [hr]
            congr 1
            rw [List.take_append, hlen]
            have h1' : seg.toList.take n = seg.toList := List.take_of_length_le (by omega)
            rw [h1']
            apply Array.ext'
            simp
          · rw [hfl, List.drop_append, hlen]
            have : seg.toList.drop n = [] := List.drop_eq_nil_of_le (by omega)
            rw [this]
            simp
        · intro h
          simp only [List.length_append, hlen] at h
          exact (ih (n - seg.size) (acc ++ seg)).2 (by omega)
      · have hstep : readExactSegs (seg :: rest) n closed acc =
            .ok (acc ++ seg.extract 0 n) ⟨seg.extract n seg.size :: rest, closed⟩ := by
          simp [readExactSegs, hn, hle]
        rw [hstep, hf]
        have hlt : n < seg.size := by omega
        constructor
        · intro _
          refine ⟨⟨seg.extract n seg.size :: rest, closed⟩, ?_, ?_, rfl⟩
          · congr 2
            rw [List.take_append, hlen]
            have : n - seg.size = 0 := by omega
            rw [this]
            apply Array.ext'
            simp [Array.toList_extract, List.take_of_length_le]
          · simp only [flat, flatSegs, List.map_cons, List.flatten_cons]
            rw [List.drop_append, hlen]
            have : n - seg.size = 0 := by omega
            rw [this]
            simp [Array.toList_extract, flatSegs]
            apply List.take_of_length_le
            simp
        · intro h
          simp only [List.length_append, hlen] at h
          omega

/-- **C14 / segmentation.** `read_exact(n)` depends on the stream only through its concatenated bytes
    and its ending -/
theorem readExact_spec (n : Nat) (s : Stream) (acc : Bytes) :
    (n ≤ (flat s).length →
      ∃ rest, readExact n s acc = .ok (acc ++ ((flat s).take n).toArray) rest ∧ flat rest = (flat s).drop n ∧
        rest.closed = s.closed) ∧
    ((flat s).length < n → readExact n s acc = (if s.closed then .eof else .stalled)) :=
  readExactSegs_spec s.segs n s.closed acc

/-- the announced length -/
def announced (bytes : List UInt8) : Nat := (bytes.getD 0 0).toNat * 256 + (bytes.getD 1 0).toNat

/-- **C14.** What `tcp_exchange` returns is a function of the concatenated bytes and of whether the
    peer closed or stalled — not of how the bytes were split into segments:
    * fewer than 2 bytes: EOF (closed) / timeout (stalled);
    * announced `N` larger than the caller's buffer: `BufferTooShort(N)`, nothing is read further;
    * at least `2 + N` bytes: exactly the `N` bytes after the prefix, nothing beyond them;
    * otherwise EOF / timeout — never a short success. -/
theorem tcp_closed_form (buflen : Nat) (s : Stream) :
    tcpFraming buflen s =
      (if (flat s).length < 2 then (if s.closed then .eof else .timeout)
       else if announced (flat s) > buflen then .bufferTooShort (announced (flat s))
       else if (flat s).length < 2 + announced (flat s) then (if s.closed then .eof else .timeout)
       else .ok (announced (flat s)) (((flat s).drop 2).take (announced (flat s))).toArray) := by
  unfold tcpFraming
  by_cases h2 : (flat s).length < 2
  · rw [(readExact_spec 2 s #[]).2 h2]
    simp only [h2, if_true]
    cases s.closed <;> rfl
  · obtain ⟨rest, hr, hfl, hc⟩ := (readExact_spec 2 s #[]).1 (by omega)
    rw [hr]
    simp only [h2, if_false]
    have hpfx : ((#[] : Bytes) ++ ((flat s).take 2).toArray) = ((flat s).take 2).toArray := by simp
    have hn : Generated.std_tcp_prefix ((#[] ++ ((flat s).take 2).toArray : Bytes).getD 0 0).toNat
        ((#[] ++ ((flat s).take 2).toArray : Bytes).getD 1 0).toNat = announced (flat s) := by
      rw [std_tcp_prefix_eq _ _ (UInt8.toNat_lt _) (UInt8.toNat_lt _)]
      unfold announced
      rw [hpfx]
      have hl : 2 ≤ (flat s).length := by omega
      rcases hfs : flat s with _ | ⟨a, _ | ⟨b, tl⟩⟩
      · rw [hfs] at hl; simp at hl
      · rw [hfs] at hl; simp at hl
      · simp [Array.getD]
    simp only [hn]
    simp only [std_tcp_too_big_eq, decide_eq_true_eq]
    by_cases hbig : announced (flat s) > buflen
    · simp [hbig]
    · simp only [hbig, if_false]
      by_cases hshort : (flat s).length < 2 + announced (flat s)
      · have : (flat rest).length < announced (flat s) := by rw [hfl]; simp; omega
        rw [(readExact_spec _ rest #[]).2 this, hc]
        simp only [hshort, if_true]
        cases s.closed <;> rfl
      · have : announced (flat s) ≤ (flat rest).length := by rw [hfl]; simp; omega
        obtain ⟨rest2, hr2, _, _⟩ := (readExact_spec _ rest #[]).1 this
        rw [hr2, hfl]
        simp [hshort]

/-- **any two segmentations of the same bytes give the same result** -/
theorem tcp_split_invariant (buflen : Nat) (s s' : Stream) (hb : flat s = flat s') (hc : s.closed = s'.closed) :
    tcpFraming buflen s = tcpFraming buflen s' := by
  rw [tcp_closed_form, tcp_closed_form, hb, hc]

/-- exactly the announced bytes, whatever follows them -/
theorem tcp_exact (buflen : Nat) (s : Stream) (n : Nat) (body extra : List UInt8) (hn : n < 65536)
    (hs : flat s = [UInt8.ofNat (n / 256), UInt8.ofNat (n % 256)] ++ body ++ extra) (hb : body.length = n)
    (hfit : n ≤ buflen) : tcpFraming buflen s = .ok n body.toArray := by
  rw [tcp_closed_form, hs]
  have ha : announced ([UInt8.ofNat (n / 256), UInt8.ofNat (n % 256)] ++ body ++ extra) = n := by
    simp only [announced, List.cons_append, List.nil_append, List.getD_cons_zero, List.getD_cons_succ]
    have h1 : (UInt8.ofNat (n / 256)).toNat = n / 256 := by
      simp [UInt8.toNat_ofNat']; omega
    have h2 : (UInt8.ofNat (n % 256)).toNat = n % 256 := by
      simp [UInt8.toNat_ofNat']
    rw [h1, h2]
    omega
  rw [ha]
  have h1 : ¬ (([UInt8.ofNat (n / 256), UInt8.ofNat (n % 256)] ++ body ++ extra).length < 2) := by simp
  have h2 : ¬ (n > buflen) := by omega
  have h3 : ¬ (([UInt8.ofNat (n / 256), UInt8.ofNat (n % 256)] ++ body ++ extra).length < 2 + n) := by
    simp; omega
  simp only [h1, h2, h3, if_false]
  congr 1
  simp [← hb]

/-- an announced length beyond the buffer is reported with that length; the body is not read -/
theorem tcp_short_buffer (buflen : Nat) (s : Stream) (h2 : 2 ≤ (flat s).length)
    (hbig : announced (flat s) > buflen) : tcpFraming buflen s = .bufferTooShort (announced (flat s)) := by
  rw [tcp_closed_form]
  have : ¬ ((flat s).length < 2) := by omega
  simp [this, hbig]

/-- a stream that ends early is an error, never a short success -/
theorem tcp_early_close (buflen : Nat) (s : Stream) (hc : s.closed = true)
    (hshort : (flat s).length < 2 ∨ (flat s).length < 2 + announced (flat s)) :
    tcpFraming buflen s = .eof ∨ ∃ n, tcpFraming buflen s = .bufferTooShort n := by
  rw [tcp_closed_form]
  by_cases h2 : (flat s).length < 2
  · left; simp [h2, hc]
  · simp only [h2, if_false]
    by_cases hbig : announced (flat s) > buflen
    · right; exact ⟨announced (flat s), by simp [hbig]⟩
    · left
      have : (flat s).length < 2 + announced (flat s) := by
        rcases hshort with h | h
        · omega
        · exact h
      simp [hbig, this, hc]

/-! non-vacuity: "00 03 | aa bb | cc dd" split in three segments, one trailing byte -/
example : tcpFraming 512 ⟨[#[0], #[3, 0xaa], #[0xbb, 0xcc, 0xdd]], true⟩ = .ok 3 #[0xaa, 0xbb, 0xcc] := by decide

/-! ### the framing expressions regenerated from the sources (`tcp_exchange` of both clients) -/

/-- the async template frames with the same prefix value and the same bound test as the blocking client -/
theorem async_framing_is_std :
    (∀ b0 b1, Generated.async_tcp_prefix b0 b1 = Generated.std_tcp_prefix b0 b1) ∧
    (∀ n b, Generated.async_tcp_too_big n b = Generated.std_tcp_too_big n b) :=
  ⟨fun b0 b1 => by unfold Generated.async_tcp_prefix Generated.std_tcp_prefix; guard_closed,
   fun n b => by rw [async_tcp_too_big_eq, std_tcp_too_big_eq]⟩

/-- `u16::from_be_bytes(prefix) as usize` is the big-endian value of the two octets, and the answer is
    refused exactly when that value exceeds the caller's buffer -/
theorem framing_closed_form (b0 b1 : UInt8) (n buflen : Nat) :
    Generated.std_tcp_prefix b0.toNat b1.toNat = b0.toNat * 256 + b1.toNat ∧
    (Generated.std_tcp_too_big n buflen = true ↔ n > buflen) := by
  constructor
  · exact std_tcp_prefix_eq _ _ (UInt8.toNat_lt _) (UInt8.toNat_lt _)
  · rw [std_tcp_too_big_eq]; simp

end Rsdns.C14
