/-
  Rsdns.Props.PinCursor — the bounds tests of `src/bytes/cursor.rs` and `src/bytes/macros.rs`, as
  `tools/extract.py` reads them from the source on every run (`Generated.cur_*`), are the tests the
  cursor model (`Rsdns.Model.Cursor`) performs.

  Every C01 / C04 / C10 / C17 theorem rests on these seven comparisons; the correspondence streams
  compare behaviour, these theorems compare the comparisons themselves: a flipped `>=`, a dropped
  conjunct (the pre-fix form of `slice` / `window` lacked `self.pos <= self.buf.len()`), or `len()`
  computed without saturation changes `Generated.lean` and one of the equations below stops checking.
-/
import Rsdns.Generated
import Rsdns.Model.Cursor

namespace Rsdns.PinCursor

open Rsdns Generated

/-- `slice`: `self.pos <= self.buf.len() && self.len() >= size` is `Cur.fits` -/
theorem slice_guard (c : Cur) (size : Nat) : cur_slice_fits c.pos c.lim c.len size = c.fits size := by
  unfold cur_slice_fits Cur.fits
  by_cases h1 : c.pos ≤ c.lim <;> by_cases h2 : c.len ≥ size <;> simp [h1, h2] <;> omega

/-- `window` performs the same test as `slice` -/
theorem window_guard (c : Cur) (size : Nat) : cur_window_fits c.pos c.lim c.len size = c.fits size := by
  unfold cur_window_fits Cur.fits
  by_cases h1 : c.pos ≤ c.lim <;> by_cases h2 : c.len ≥ size <;> simp [h1, h2] <;> omega

/-- `len()` is `capacity().saturating_sub(pos)` -/
theorem len_is_model (c : Cur) : cur_len c.capacity c.pos = c.len := by
  unfold cur_len Cur.len Cur.capacity; omega

/-- `is_empty()` is `len() == 0` -/
theorem is_empty_is_model (c : Cur) : cur_is_empty c.len = c.isEmpty := by
  unfold cur_is_empty Cur.isEmpty
  by_cases h : c.len = 0 <;> simp [h]

/-- `u8()` reads exactly when the view is not empty -/
theorem u8_guard (c : Cur) : cur_u8_ok (cur_is_empty (cur_len c.capacity c.pos)) = !c.isEmpty := by
  rw [len_is_model, is_empty_is_model]
  unfold cur_u8_ok
  cases c.isEmpty <;> rfl

/-- `skip(distance)` moves exactly when `len() >= distance` -/
theorem skip_guard (c : Cur) (distance : Nat) :
    c.skip distance = if cur_skip_fits c.len distance then .ok { c with pos := c.pos + distance } else .err c.boundError := by
  unfold Cur.skip cur_skip_fits
  by_cases h : c.len ≥ distance <;> simp [h]

/-- `close_window()` succeeds exactly when the cursor stands at the end of the window -/
theorem close_guard (c : Cur) (o : Nat) (h : c.orig = some o) :
    c.closeWindow = if cur_close_ok c.pos c.lim then .ok { lim := o, pos := c.pos, orig := none }
      else .err (.cursorWindowError c.lim c.pos) := by
  unfold Cur.closeWindow cur_close_ok
  rw [h]
  by_cases hp : c.pos = c.lim
  · simp [hp]
  · have hp' : ¬ c.lim = c.pos := fun h => hp h.symm
    simp [hp, hp']

/-- `r_be!`: the fixed-width reads test `len() >= size_of::<T>()` -/
theorem rbe_guard (msg : Bytes) (c : Cur) (n : Nat) :
    c.rBe msg n = if cur_rbe_fits c.len n then
        (if c.pos ≤ c.lim ∧ c.pos + n ≤ msg.size then .ok (Cur.beNat msg c.pos n, { c with pos := c.pos + n }) else .ub)
      else .err c.boundError := by
  unfold Cur.rBe cur_rbe_fits
  by_cases h : c.len ≥ n <;> simp [h]

end Rsdns.PinCursor
