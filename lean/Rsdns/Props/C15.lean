/-
  Rsdns.Props.C15 — "Unanswered queries are retried and end within the query lifetime".

  Level: theorems about the clients' deadline logic over an idealised clock; the runtimes are assumed.
  * `udpExchange` (Model/Client.lean) is `udp_exchange_loop` of the async template and `udp_exchange` of
    the blocking client: attempt `k` starts at `k · query_timeout`, its receive loop sees the datagrams
    that arrive before the attempt's deadline, everything is cut off at the query lifetime.
    ASSUMED: `timeout(d, fut)` (tokio / async-std / smol-timeout) fires at `d` while `fut` is pending;
    `SO_RCVTIMEO` makes a blocking `recv` return by its deadline; clocks are monotone. Not exhibited by
    the model: executor starvation, kernel socket-buffer overflow, timer granularity (the harness
    compares real timings with tolerances and re-runs a failing timing case twice before believing it).
  * `queryLeft` is the blocking client's timeout arithmetic (`lifetime_left`, `query_left`).
-/
import Rsdns.Model.Client
import Rsdns.Lemmas.Guards

set_option linter.unusedVariables false

namespace Rsdns.C15

open Rsdns

/-- when the exchange ended, in ms since the query started -/
def UdpOutcome.endsAt : UdpOutcome → Nat
  | .accepted _ _ t => t
  | .timeout t => t
  | .dropped t => t

theorem scan_accepted_in_window (id : Nat) (qname : Bytes) (qtype qclass buflen : Nat) (q : List Dgram) (w : Nat)
    (d : Dgram) (b : Bytes) (f : Nat) (r : List Dgram)
    (h : scanWindow id qname qtype qclass buflen w q = (some (d, b, f), r)) : d.at_ < w := by
  induction q generalizing r with
  | nil => simp [scanWindow] at h
  | cons x xs ihq =>
    unfold scanWindow at h
    split at h
    · rename_i hx
      split at h
      · simp only [Prod.mk.injEq, Option.some.injEq] at h
        obtain ⟨⟨rfl, _, _⟩, _⟩ := h
        exact hx
      · exact ihq r h
    · cases hsx : scanWindow id qname qtype qclass buflen w xs with
      | mk r' rest' =>
        simp only [hsx, Prod.mk.injEq] at h
        obtain ⟨rfl, _⟩ := h
        exact ihq rest' hsx

theorem loop_ends_by (c : Cfg) (id : Nat) (qname : Bytes) (qtype qclass buflen : Nat) (script : List (List Item))
    (stop : Nat) (atStop : UdpOutcome) (hstop : stop ≤ c.lt) (hat : UdpOutcome.endsAt atStop ≤ c.lt)
    (fuel k : Nat) (queue : List Dgram) (sends : List Nat) :
    UdpOutcome.endsAt (udpLoop c id qname qtype qclass buflen script stop atStop fuel k queue sends).outcome ≤ c.lt := by
  induction fuel generalizing k queue sends with
  | zero => simpa [udpLoop] using hat
  | succ fuel ih =>
    unfold udpLoop
    simp only
    split
    · exact hat
    · split
      · rename_i d bytes flags rest hs
        have := scan_accepted_in_window _ _ _ _ _ _ _ _ _ _ _ hs
        simp only [UdpOutcome.endsAt]
        have : d.at_ < stop := Nat.lt_of_lt_of_le this (Nat.min_le_right _ _)
        omega
      · split
        · exact hat
        · exact ih _ _ _

/-- **ends within the lifetime**: whatever datagrams arrive, whenever, the UDP exchange is over by
    `query_lifetime` -/
theorem ends_by (c : Cfg) (id : Nat) (qname : Bytes) (qtype qclass buflen : Nat) (script : List (List Item))
    (dropAt : Option Nat) (fuel k : Nat) (queue : List Dgram) (sends : List Nat) :
    UdpOutcome.endsAt (udpExchange c id qname qtype qclass buflen script dropAt fuel k queue sends).outcome ≤ c.lt := by
  unfold udpExchange
  apply loop_ends_by
  · unfold udpStop; cases dropAt with
    | none => simp
    | some d => simp only; split <;> simp <;> omega
  · unfold udpStop; cases dropAt with
    | none => simp [UdpOutcome.endsAt]
    | some d => simp only; split <;> simp [UdpOutcome.endsAt] <;> omega

/-- **retransmission schedule**: the query datagram is (re-)sent at `0, T, 2T, …` — one per expired
    per-attempt timeout, as long as the lifetime (and the caller's patience) lasts -/
theorem sends_schedule (c : Cfg) (id : Nat) (qname : Bytes) (qtype qclass buflen : Nat) (script : List (List Item))
    (stop : Nat) (atStop : UdpOutcome) (fuel k : Nat) (queue : List Dgram) (sends : List Nat)
    (hs : sends.reverse = (List.range k).map (· * c.qt.getD c.lt)) :
    ∃ n, (udpLoop c id qname qtype qclass buflen script stop atStop fuel k queue sends).sends =
      (List.range n).map (· * c.qt.getD c.lt) ∧ k ≤ n := by
  induction fuel generalizing k queue sends with
  | zero => exact ⟨k, by simp [udpLoop, hs], Nat.le_refl _⟩
  | succ fuel ih =>
    unfold udpLoop
    simp only
    have hnext : (k * c.qt.getD c.lt :: sends).reverse = (List.range (k + 1)).map (· * c.qt.getD c.lt) := by
      rw [List.reverse_cons, hs, List.range_succ, List.map_append]
      simp
    split
    · exact ⟨k, hs, Nat.le_refl _⟩
    · split
      · exact ⟨k + 1, hnext, by omega⟩
      · split
        · exact ⟨k + 1, hnext, by omega⟩
        · obtain ⟨n, hn, hk⟩ := ih (k + 1) _ _ hnext
          exact ⟨n, hn, by omega⟩

/-- **retries disabled** (`query_timeout = None`): at most one datagram is sent -/
theorem no_retries (c : Cfg) (hq : c.qt = none) (id : Nat) (qname : Bytes) (qtype qclass buflen : Nat)
    (script : List (List Item)) (dropAt : Option Nat) (fuel : Nat) (queue : List Dgram) :
    (udpExchange c id qname qtype qclass buflen script dropAt fuel 0 queue []).sends.length ≤ 1 := by
  unfold udpExchange
  cases fuel with
  | zero => simp [udpLoop]
  | succ fuel =>
    unfold udpLoop
    simp only [hq, Option.isNone_none, if_true]
    split
    · simp
    · split <;> simp

/-- the receive window skips every datagram that does not pass the filter: junk neither ends the
    attempt nor is it returned -/
theorem scan_skips_junk (id : Nat) (qname : Bytes) (qtype qclass buflen w : Nat) (q : List Dgram)
    (hj : ∀ d ∈ q, udpAccept id qname qtype qclass (recvInto buflen d.bytes) = none) :
    (scanWindow id qname qtype qclass buflen w q).1 = none := by
  induction q with
  | nil => simp [scanWindow]
  | cons x xs ih =>
    unfold scanWindow
    have hx := hj x (by simp)
    have hxs := ih (fun d hd => hj d (by simp [hd]))
    split
    · simp only [hx]; exact hxs
    · cases hs : scanWindow id qname qtype qclass buflen w xs with
      | mk r rest => rw [hs] at hxs; simpa using hxs

theorem mem_insertDgram (x : Dgram) (l : List Dgram) (y : Dgram) (hy : y ∈ insertDgram x l) : y = x ∨ y ∈ l := by
  induction l with
  | nil => simp [insertDgram] at hy; exact Or.inl hy
  | cons z zs ihz =>
    unfold insertDgram at hy
    split at hy
    · simp at hy; rcases hy with h | h | h <;> simp [h]
    · simp at hy
      rcases hy with h | h
      · right; simp [h]
      · rcases ihz h with h' | h'
        · left; exact h'
        · right; simp [h']

theorem mem_mergeDgrams (new old : List Dgram) (y : Dgram) (hy : y ∈ mergeDgrams new old) : y ∈ new ∨ y ∈ old := by
  induction new generalizing old with
  | nil => right; simpa [mergeDgrams] using hy
  | cons x xs ihn =>
    simp only [mergeDgrams, List.foldl_cons] at hy
    rcases ihn (insertDgram x old) hy with h | h
    · left; simp [h]
    · rcases mem_insertDgram x old y h with rfl | h'
      · left; simp
      · right; exact h'

theorem scan_rest_subset (id : Nat) (qname : Bytes) (qtype qclass buflen w : Nat) (q : List Dgram) (d : Dgram)
    (hd : d ∈ (scanWindow id qname qtype qclass buflen w q).2) : d ∈ q := by
  induction q with
  | nil => simp [scanWindow] at hd
  | cons x xs ihq =>
    unfold scanWindow at hd
    split at hd
    · split at hd
      · simp at hd; simp [hd]
      · simp [ihq hd]
    · cases hsx : scanWindow id qname qtype qclass buflen w xs with
      | mk r rest =>
        simp only [hsx, List.mem_cons] at hd
        rcases hd with rfl | hd
        · simp
        · have := ihq (by rw [hsx]; exact hd)
          simp [this]

/-- **junk is neutral**: if nothing that arrives passes the filter, the exchange ends with the
    stop outcome (`Timeout`, or the caller's drop) — never with a datagram, never with another error -/
theorem junk_only_times_out (c : Cfg) (id : Nat) (qname : Bytes) (qtype qclass buflen : Nat)
    (script : List (List Item)) (stop : Nat) (atStop : UdpOutcome) (fuel k : Nat) (queue : List Dgram) (sends : List Nat)
    (hq : ∀ d ∈ queue, udpAccept id qname qtype qclass (recvInto buflen d.bytes) = none)
    (hs : ∀ e ∈ script, ∀ t, ∀ d ∈ entryDgrams e t, udpAccept id qname qtype qclass (recvInto buflen d.bytes) = none) :
    (udpLoop c id qname qtype qclass buflen script stop atStop fuel k queue sends).outcome = atStop := by
  induction fuel generalizing k queue sends with
  | zero => rfl
  | succ fuel ih =>
    unfold udpLoop
    simp only
    split
    · rfl
    · have hentry : ∀ d ∈ entryDgrams (script.getD k []) (k * c.qt.getD c.lt),
          udpAccept id qname qtype qclass (recvInto buflen d.bytes) = none := by
        intro d hd
        by_cases hk : k < script.length
        · have : script.getD k [] ∈ script := by
            simp [List.getD, List.getElem?_eq_getElem hk]
          exact hs _ this _ d hd
        · have : script.getD k [] = [] := by
            simp [List.getD, List.getElem?_eq_none (Nat.le_of_not_lt hk)]
          rw [this] at hd
          simp [entryDgrams] at hd
      have hall : ∀ d ∈ mergeDgrams (entryDgrams (script.getD k []) (k * c.qt.getD c.lt)) queue,
          udpAccept id qname qtype qclass (recvInto buflen d.bytes) = none := by
        intro d hd
        rcases mem_mergeDgrams _ _ d hd with h | h
        · exact hentry d h
        · exact hq d h
      have hscan := scan_skips_junk id qname qtype qclass buflen
        (Nat.min (k * c.qt.getD c.lt + c.qt.getD c.lt) stop) _ hall
      cases hsc : scanWindow id qname qtype qclass buflen (Nat.min (k * c.qt.getD c.lt + c.qt.getD c.lt) stop)
          (mergeDgrams (entryDgrams (script.getD k []) (k * c.qt.getD c.lt)) queue) with
      | mk r rest =>
        rw [hsc] at hscan
        simp only at hscan
        subst hscan
        simp only
        split
        · rfl
        · apply ih
          intro d hd
          apply hall
          have := scan_rest_subset id qname qtype qclass buflen
            (Nat.min (k * c.qt.getD c.lt + c.qt.getD c.lt) stop) _ d (by rw [hsc]; exact hd)
          exact this

/-- **the blocking client never asks the socket for a zero timeout**: `query_left` yields a strictly
    positive socket timeout, "this attempt is over" (→ next attempt) or "the lifetime is over"
    (→ `Error::Timeout`) — nothing else. `set_read_timeout(Some(0))` is an InvalidInput error in std. -/
theorem std_timeout_never_zero (c : Cfg) (a b : Nat) :
    match queryLeft c a b with
    | .left ms => 0 < ms ∧ ms ≤ c.lt - a ∧ ms ≤ c.qt.getD c.lt - b
    | .attemptOver => c.qt.getD c.lt ≤ b ∧ a < c.lt
    | .lifetimeOver => c.lt ≤ a := by
  unfold queryLeft lifetimeLeft
  simp only [std_lifetime_over_eq, std_lifetime_left_eq, std_attempt_over_eq, std_query_left_eq, decide_eq_true_eq]
  by_cases h1 : a ≥ c.lt
  · simp [h1]
  · simp only [h1, if_false]
    by_cases h2 : b ≥ c.qt.getD c.lt
    · simp only [h2, if_true]
      exact ⟨trivial, by omega⟩
    · simp only [h2, if_false]
      refine ⟨?_, ?_, ?_⟩
      · simp only [Nat.min_def]; split <;> omega
      · exact Nat.min_le_right _ _
      · exact Nat.min_le_left _ _

/-! ### the blocking client's clock expressions regenerated from `time_left` / `query_left` -/

theorem std_clock_expressions (e l t ll : Nat) :
    (Generated.std_lifetime_over e l = true ↔ e ≥ l) ∧ Generated.std_lifetime_left e l = l - e ∧
    (Generated.std_attempt_over e t = true ↔ e ≥ t) ∧ Generated.std_query_left e t ll = Nat.min (t - e) ll := by
  refine ⟨?_, std_lifetime_left_eq e l, ?_, std_query_left_eq e t ll⟩
  · rw [std_lifetime_over_eq]; simp
  · rw [std_attempt_over_eq]; simp

end Rsdns.C15
