/-
  Rsdns.Props.C04 — "Record data is decoded strictly inside its RDLENGTH".
-/
import Rsdns.Lemmas.Reader

namespace Rsdns.C04

open Rsdns

/-- **C04 / exactness.** For each of the 17 typed formats: a successful `read_rr_data(rd_len)` consumed
    exactly `rd_len` bytes — the cursor stands at `pos + rd_len`, the RDLENGTH window is closed and the
    view restored.  (A record whose fields need more bytes fails inside the window with `EndOfWindow` /
    a name error; one that leaves bytes unused fails at `close_window` with `CursorWindowError`: both
    are the `err` outcome, which is all that remains when the result is not `ok`.) -/
theorem rdata_exact (t : RType) (msg : Bytes) (c c' : Cur) (n : Nat) (v : RData) (h : Cur.OK msg c)
    (hr : readRData t msg n c = (.ok v, c')) :
    c'.pos = c.pos + n ∧ c'.lim = c.lim ∧ c'.orig = none ∧ c.orig = none ∧ c.pos + n ≤ c.lim := by
  have := readRData_spec t msg n c h
  rw [hr] at this
  exact ⟨this.2.1, this.2.2.1, this.2.2.2.1, this.1, this.2.2.2.2⟩

/-- never a panic or an out-of-window access, whatever RDLENGTH announces -/
theorem rdata_total (t : RType) (msg : Bytes) (c : Cur) (n : Nat) (h : Cur.OK msg c) :
    (readRData t msg n c).1.safe := by
  have := readRData_spec t msg n c h
  cases hr : readRData t msg n c with
  | mk res c' => rw [hr] at this; cases res <;> simp_all

/-- **C04 / raw.** `record_data_bytes` returns exactly `msg[p .. p + rdlen)` and advances to `p + rdlen` -/
theorem raw_exact (msg : Bytes) (r r' : Reader) (m : Marker) (b : Bytes) (hr : RInv msg r)
    (h : r.dataBytes msg m = (.ok b, r')) :
    b = msg.extract m.rdataPos (m.rdataPos + m.rdlen) ∧ r'.cur.pos = m.rdataPos + m.rdlen ∧
      m.rdataPos + m.rdlen ≤ msg.size := by
  unfold Reader.dataBytes Reader.assertAt at h
  split at h
  · rename_i hpos
    split at h
    · simp at h
    · unfold Reader.finishData Reader.onCur CurM.slice CurM.lift at h
      rcases Cur.slice_spec hr.1 m.rdlen with ⟨hs, hle⟩ | ⟨hs, _⟩ | ⟨hs, _⟩
      · simp only [hs] at h
        split at h <;> simp only [Prod.mk.injEq, Res.ok.injEq] at h <;> try (exact absurd h.1 (by simp))
        obtain ⟨rfl, rfl⟩ := h
        have := hr.1.lim_le
        refine ⟨by rw [hpos], by simp only; omega, by omega⟩
      · simp [hs] at h
      · simp [hs] at h
  · simp at h

/-- **C04 / next.** after a successful typed read on marker `m` the next record header starts at the
    byte that follows the RDLENGTH bytes -/
theorem next_after_data (msg : Bytes) (t : RType) (r r' : Reader) (m : Marker) (v : RData) (hr : RInv msg r)
    (h : r.data msg t m = (.ok v, r')) : r'.cur.pos = m.rdataPos + m.rdlen ∧ r'.cur.orig = none := by
  unfold Reader.data Reader.assertAt at h
  split at h
  · rename_i hpos
    split at h
    · simp at h
    · unfold Reader.finishData Reader.onCur at h
      have hs := readRData_spec t msg m.rdlen r.cur hr.1
      cases hd : readRData t msg m.rdlen r.cur with
      | mk res c1 =>
        rw [hd] at hs
        simp only [hd] at h
        cases res with
        | ok d =>
          simp only at h
          split at h <;> simp only [Prod.mk.injEq, Res.ok.injEq] at h <;> try (exact absurd h.1 (by simp))
          obtain ⟨_, rfl⟩ := h
          exact ⟨by simp only; rw [hs.2.1, hpos], hs.2.2.2.1⟩
        | err e => simp at h
        | panic p => simp at h
        | ub => simp at h
  · simp at h

end Rsdns.C04
