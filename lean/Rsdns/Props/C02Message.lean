/-
  Rsdns.Props.C02Message — C02 at full strength for the `MessageReader` API: a well-formed message
  (`Rsdns.Spec.Wire.MsgAt`: header, questions and records back to back, names in any legal compression
  layout, the 17 RDATA formats / OPT / unknown types) decodes, in one linear pass (`Rsdns.Model.Pass`,
  the function the driver prints for the `truth` stream), to exactly what it encodes — and to nothing
  else.  Helper lemmas: Rsdns/Lemmas/PassDecode.lean.

  `iter_decode_wellformed` is the same statement for the `MessageIterator` API (`new`, `question`,
  `questions`, `records`): exactly the records of the 17 data types with a defined CLASS are yielded,
  OPT and unknown types/classes are passed over in silence, nothing else is reported.
  Both theorems are about messages of at most 65535 bytes (`MessageReader::new` refuses larger ones; the
  section offsets are `u16`).
-/
import Rsdns.Lemmas.PassDecode
import Rsdns.Lemmas.IterDecode

set_option linter.unusedVariables false

namespace Rsdns.C02

open Rsdns Generated Spec C09

/-- **C02, whole message, `MessageReader` API.**  For every well-formed message — any header id, flags
    and counts; any number of questions; records of the 17 data types, OPT and unknown types/classes in
    any of the three sections; every name compressed in any legal way — one linear pass returns exactly
    the encoded header, the encoded questions and the encoded records (owner, TYPE, CLASS, TTL, RDLENGTH,
    offsets, section, and every RDATA field / the OPT fields / the raw bytes) in wire order, ends without
    error, and reports nothing else: afterwards no question and no record is left and a further record
    call answers `ReaderDone`. -/
theorem decode_wellformed (msg : Bytes) (h : Header) (qs : List QSpec) (rs : List RecSpec)
    (hm : MsgAt msg h qs rs) :
    ∃ r, Reader.pass msg =
        ({ header := some h, questions := qs.map QSpec.question, records := expRecords h msg 0 rs,
           ending := .ok () }, some r) ∧
      r.questionsCount = .ok 0 ∧ r.recordsCount = .ok 0 ∧
      ∀ k, (r.recordHeader msg k).1 = .err .readerDone := by
  obtain ⟨qe, e, hqs, hrs⟩ := hm.layout
  have hL := layOf_wf msg h qs rs hm qe e hqs hrs
  obtain ⟨hqend, _, _, hqall⟩ := hqs.chain
  obtain ⟨hr0, _, _, hrall, _⟩ := hrs.chain
  -- new + header
  have hnew : Reader.new msg = .ok { cur := Cur.new msg, tr := Tracker.default, done := false } := by
    have : ¬ msg.size > 65535 := by have := hm.size; omega
    simp [Reader.new, this]
  have hok : Cur.OK msg (Cur.new msg) := Cur.OK.new msg
  have hhf := header_fields msg (Cur.new msg) hok (by simp only [Cur.new]; have := hm.hlen; omega)
  have hhf' : readHeader msg (Cur.new msg) = (.ok h, { lim := msg.size, pos := 12, orig := none }) := by
    rw [hhf]
    have e1 := hm.id; have e2 := hm.flags; have e3 := hm.qd; have e4 := hm.an; have e5 := hm.ns; have e6 := hm.ar
    obtain ⟨id, fl, qd, an, ns, ar⟩ := h
    simp only at e1 e2 e3 e4 e5 e6
    simp only [Cur.new, Nat.zero_add, e1, e2, e3, e4, e5, e6]
  let r0 : Reader := { cur := Cur.new msg, tr := Tracker.default, done := false }
  let r1 : Reader := { cur := { lim := msg.size, pos := 12, orig := none }, tr := Tracker.default.set h, done := false }
  have hr0inv : RInv msg r0 := RInv.new hnew
  have hhead : r0.header msg = (.ok h, r1) := by
    simp only [Reader.header, Reader.onCur, hhf', markDone, r0, r1]
  have hr1inv : RInv msg r1 := by
    have := header_ok (msg := msg) hr0inv; rw [hhead] at this; exact this.2
  let L := layOf h qs rs e
  have hT1 : TInv L r1.tr := by
    apply TInv.init L r1.tr
    · rfl
    · simp [r1, Tracker.set, upd, L, layOf]
    · simp [r1, Tracker.set, upd, L, layOf]
    · simp [r1, Tracker.set, upd, L, layOf]
    · intro j; simp only [r1, Tracker.set, Tracker.default, upd]; split <;> (try split) <;> (try split) <;> rfl
    · intro j; rfl
  have hQ1 : QIndex msg L r1 :=
    ⟨hr1inv, rfl, rfl, hT1, by simp [idx, r1, Tracker.set, Tracker.default, upd], rfl, Nat.zero_le _⟩
  -- questions
  obtain ⟨r2, hqsd, hQ2, hrd2⟩ := readQuestions_decode msg L hL qs r1 [] (h.qd + 1) hQ1
    (by show 0 + qs.length = h.qd; rw [hm.nq]; omega) (by rw [hm.nq]; omega) (by
      intro j hj
      obtain ⟨q, hq, hw, ho, he⟩ := hqall j hj
      refine ⟨q, hq, hw, ?_, ?_⟩
      · show q.off = qEndFn 12 qs (0 + j); rw [Nat.zero_add]; exact ho
      · show q.endp = qEndFn 12 qs (0 + j + 1); rw [Nat.zero_add]; exact he)
  -- records
  have hA2 : AtIndex msg L r2 := by
    refine ⟨hQ2.inv, hQ2.orig, ?_, hQ2.tinv, hQ2.live⟩
    rw [hQ2.pos, hrd2, hQ2.idx0]
    exact hL.q0.symm
  obtain ⟨r3, hrsd, hA3, hi3, hq3⟩ := readRecords_decode msg L hL rs r2 [] (h.an + h.ns + h.ar + 1) hA2
    (by rw [hQ2.idx0, Nat.zero_add, ← hm.nr]; rfl) (by rw [hm.nr]; omega) (by
      intro j hj
      obtain ⟨x, hx, hw, ho, he⟩ := hrall j hj
      refine ⟨x, hx, hw, ?_, ?_⟩
      · rw [hQ2.idx0, Nat.zero_add]; exact ho
      · rw [hQ2.idx0, Nat.zero_add]; exact he)
  refine ⟨r3, ?_, ?_, ?_, ?_⟩
  · have hhead' : Reader.header msg { cur := Cur.new msg, tr := Tracker.default, done := false } = (.ok h, r1) := hhead
    have hi2 : idx r2.tr = 0 := hQ2.idx0
    unfold Reader.pass
    simp only [hnew, hhead', hqsd, hrsd, List.reverse_nil, List.nil_append, hi2]
    rw [expItems_eq]
  · have htq := hA3.tinv.tq
    have hrd3 : r3.tr.qd.read = L.qd := by rw [hq3]; exact hrd2
    have hng : ¬ L.qd > L.qd := by omega
    simp only [Reader.questionsCount, hA3.live, Bool.not_false, if_true, Tracker.questionsLeft, Counts.left, htq, hrd3,
      hng, if_false, Nat.sub_self]
  · simp only [Reader.recordsCount, hA3.live, Bool.not_false, if_true, recordsLeft_eq hA3.tinv, hi3, Nat.sub_self]
  · intro k
    have hex := C09.exhausted_reports_done msg r3 k hA3.live (by
      intro j hj
      have l0 := hA3.tinv.le0; have l1 := hA3.tinv.le1; have l2 := hA3.tinv.le2
      have t0 := hA3.tinv.t0; have t1 := hA3.tinv.t1; have t2 := hA3.tinv.t2
      have := hi3
      simp only [idx, Lay.n] at this
      have : j = 0 ∨ j = 1 ∨ j = 2 := by omega
      rcases this with rfl | rfl | rfl <;> omega)
    exact hex.1


/-! non-vacuity: a 35-byte response — header, the question `a. A IN`, one answer `a. A IN 60 1.2.3.4`
    whose owner is a compression pointer to the question name — satisfies `MsgAt`. -/
def sample : Bytes :=
  #[0x12, 0x34, 0x81, 0x80, 0, 1, 0, 1, 0, 0, 0, 0,
    1, 97, 0, 0, 1, 0, 1,
    0xC0, 12, 0, 1, 0, 1, 0, 0, 0, 60, 0, 4, 1, 2, 3, 4]

def sampleQ : QSpec := { off := 12, nxt := 15, labels := [#[97]], qtype := 1, qclass := 1 }
def sampleR : RecSpec :=
  { off := 19, nxt := 21, rdlen := 4, labels := [#[97]], rtype := 1, rclass := 1, ttl := 60,
    body := .typed .a (.a 0x01020304) }

theorem sample_name12 : NameAt sample 35 12 12 [#[97]] 15 0 := by
  refine NameAt.label 12 12 1 #[97] _ 15 0 (by decide) (by decide) (by decide) (by decide) (by decide) (by decide) ?_
  exact NameAt.zero 12 14 (by decide) (by decide)

theorem sample_msgAt : MsgAt sample { id := 0x1234, flags := 0x8180, qd := 1, an := 1, ns := 0, ar := 0 }
    [sampleQ] [sampleR] := by
  have hq : LegalName sample sample.size 12 [#[97]] 15 :=
    ⟨0, sample_name12, by decide, by decide, by decide⟩
  have hr : LegalName sample sample.size 19 [#[97]] 21 := by
    refine ⟨1, ?_, by decide, by decide, by decide⟩
    exact NameAt.ptr 19 19 0xC0 12 _ 15 0 (by decide) (by decide) (by decide) (by decide) (by decide) sample_name12
  refine ⟨by decide, by decide, by decide, by decide, by decide, by decide, by decide, by decide, rfl, rfl,
    ⟨19, 35, ?_, ?_⟩⟩
  · exact QsAt.cons sampleQ [] 19 ⟨hq, by decide, by decide, by decide⟩ (QsAt.nil 19)
  · refine RecsAt.cons sampleR [] 35 ⟨hr, by decide, by decide, by decide, by decide, by decide, ?_⟩ (RecsAt.nil 35)
    exact ⟨by decide, RDataAt.a 31⟩

example : ∃ r, Reader.pass sample =
    ({ header := some { id := 0x1234, flags := 0x8180, qd := 1, an := 1, ns := 0, ar := 0 },
       questions := [{ qname := #[97, 46], qtype := 1, qclass := 1 }],
       records := [{ name := #[97, 46],
                     marker := { offset := 19, typeOffset := 21, rtype := 1, rclass := 1, ttl := 60, rdlen := 4,
                                 section_ := 0 },
                     val := .typed (.a 0x01020304) }],
       ending := .ok () }, some r) := by
  obtain ⟨r, h, _⟩ := decode_wellformed sample _ _ _ sample_msgAt
  exact ⟨r, h⟩


/-- **C02, whole message, `MessageIterator` API.**  For every well-formed message (`MsgAt`) in which
    QTYPE-only codes do not occur as record types: `MessageIterator::new` succeeds with the encoded
    header; `questions()` yields exactly the encoded questions; `question()` the first of them;
    `records()` yields exactly the encoded records of the 17 data types whose CLASS is a defined one —
    owner, class, type, TTL, every RDATA field, and the section by the header counts — in wire order,
    passes over OPT and unknown types/classes in silence, and reports no error. -/
theorem iter_decode_wellformed (msg : Bytes) (h : Header) (qs : List QSpec) (rs : List RecSpec)
    (hm : MsgAt msg h qs rs) (hraw : ∀ x ∈ rs, x.body = .raw → isDefined TYPE_KNOWN x.rtype = false) :
    ∃ mi, MsgIter.new msg = .ok mi ∧ mi.header = h ∧
      mi.questions msg = .ok (qs.map (fun q => .ok q.question)) ∧
      mi.question msg = (match qs with
        | [] => .err (.badQuestionsCount 0)
        | q :: _ => .ok q.question) ∧
      mi.records msg = .ok ((keptRecords h 0 rs).map .ok) := by
  obtain ⟨qe, e, hqs, hrs⟩ := hm.layout
  have hL := layOf_wf msg h qs rs hm qe e hqs hrs
  obtain ⟨hr0, _, _, hrall, _⟩ := hrs.chain
  have hok : Cur.OK msg (Cur.new msg) := Cur.OK.new msg
  have hhf := header_fields msg (Cur.new msg) hok (by simp only [Cur.new]; have := hm.hlen; omega)
  have hhf' : readHeader msg (Cur.new msg) = (.ok h, { lim := msg.size, pos := 12, orig := none }) := by
    rw [hhf]
    have e1 := hm.id; have e2 := hm.flags; have e3 := hm.qd; have e4 := hm.an; have e5 := hm.ns; have e6 := hm.ar
    obtain ⟨id, fl, qd, an, ns, ar⟩ := h
    simp only at e1 e2 e3 e4 e5 e6
    simp only [Cur.new, Nat.zero_add, e1, e2, e3, e4, e5, e6]
  have hsk := skipN_questions msg qs 12 qe hqs
  rw [← hm.nq] at hsk
  have hnew : MsgIter.new msg = .ok { header := h, answersOffset := qe } := by
    simp only [MsgIter.new, hhf', Cur.withPos, HEADER_LENGTH, hsk]
  refine ⟨_, hnew, rfl, ?_, ?_, ?_⟩
  · have := questionsDrain_decode msg qs 12 qe [] hqs
    simp only [MsgIter.questions, Cur.withPos, HEADER_LENGTH, hm.nq]
    simpa using this
  · cases qs with
    | nil =>
      have : h.qd = 0 := by rw [hm.nq]; rfl
      simp [MsgIter.question, this]
    | cons q qs' =>
      have hne : ¬ h.qd = 0 := by rw [hm.nq]; simp
      obtain ⟨hoff, hw, _⟩ := QsAt_cons_inv hqs
      obtain ⟨hname, hfit, hty, hcl⟩ := hw
      have hd := (question_decode msg { lim := msg.size, pos := q.off, orig := none } (Nat.le_refl _) q.labels q.nxt
        hname hfit).1
      rw [hoff] at hd
      simp only [MsgIter.question, hne, if_false, Cur.withPos, HEADER_LENGTH, hd, QSpec.question, ← hty, ← hcl]
  · -- records
    let L := layOf h qs rs e
    have hT : TInv L (Tracker.new h) := by
      apply TInv.init L (Tracker.new h)
      · rfl
      · simp [Tracker.new, L, layOf]
      · simp [Tracker.new, L, layOf]
      · simp [Tracker.new, L, layOf]
      · intro j; simp only [Tracker.new]; split <;> (try split) <;> (try split) <;> rfl
      · intro j; rfl
    have hidx0 : idx (Tracker.new h) = 0 := by simp [idx, Tracker.new]
    have hA : AtIdx msg L (Cur.withPos msg qe) (Tracker.new h) := by
      refine ⟨?_, hT⟩
      rw [hidx0]
      show Cur.withPos msg qe = Cur.withPos msg (rOffFn rs e 0)
      rw [hr0]
    have hn : idx (Tracker.new h) + rs.length = L.n := by
      rw [hidx0, Nat.zero_add, ← hm.nr]; rfl
    have hc : ChainAt msg L (idx (Tracker.new h)) rs := by
      rw [hidx0]
      apply chainAt_of_get
      intro j hj
      obtain ⟨x, hx, hw, ho, he⟩ := hrall j hj
      refine ⟨x, hx, hw, by rw [Nat.zero_add]; exact ho, by rw [Nat.zero_add]; exact he, hraw x ?_⟩
      exact List.mem_of_getElem? hx
    have hleft : trackerLeft (Tracker.new h) = rs.length := by rw [trackerLeft_eq hT]; omega
    have := recordsDrain_decode msg L hL rs.length rs (Cur.withPos msg qe) (Tracker.new h) []
      (trackerLeft (Tracker.new h) + 1) (Nat.le_refl _) hA hn (by omega) hc
    simp only [MsgIter.records, this, List.reverse_nil, List.nil_append, hidx0]
    rw [keptFrom_eq]


example : ∃ mi, MsgIter.new sample = .ok mi ∧
    mi.records sample = .ok [.ok { section_ := 0, name := #[97, 46], rclass := 1, rtype := 1, ttl := 60,
                                   rdata := .a 0x01020304 }] := by
  obtain ⟨mi, h1, _, _, _, h5⟩ := iter_decode_wellformed sample _ _ _ sample_msgAt (by
    intro x hx hb
    simp only [List.mem_singleton] at hx
    subst hx
    cases hb)
  have hk : keptRecords { id := 0x1234, flags := 0x8180, qd := 1, an := 1, ns := 0, ar := 0 } 0 [sampleR] =
      [{ section_ := 0, name := #[97, 46], rclass := 1, rtype := 1, ttl := 60, rdata := .a 0x01020304 }] := by
    decide +kernel
  rw [hk] at h5
  exact ⟨mi, h1, h5⟩

/-- closes `g n = decide (n > 65535)` for the usual spellings of a length gate -/
macro "gate_tac" : tactic => `(tactic|
  first
  | rfl
  | (rw [Bool.eq_iff_iff]
     simp only [Bool.not_eq_true', Bool.not_eq_true, decide_eq_true_eq, decide_eq_false_iff_not, Bool.and_eq_true,
       Bool.or_eq_true]
     try simp only [DNS_MESSAGE_MAX_LENGTH]
     omega))

/-- **The size limit of `MessageReader::new`, pinned to the source.**  The condition extracted from
    `reader.rs` (`Generated.reader_new_too_long`, regenerated on every run) refuses exactly the buffers
    of more than 65535 bytes: a well-formed message of exactly 65535 bytes — the largest the two-octet
    TCP length prefix can announce — is accepted, 65536 is not. -/
theorem reader_gate_pinned (n : Nat) : reader_new_too_long n = decide (n > 65535) := by
  unfold reader_new_too_long
  gate_tac

/-- the model's `Reader.new` is the source's gate followed by the initial state -/
theorem reader_new_agrees (msg : Bytes) :
    Reader.new msg = if reader_new_too_long msg.size then .err (.messageTooLong msg.size)
      else .ok { cur := Cur.new msg, tr := Tracker.default, done := false } := by
  rw [reader_gate_pinned]; unfold Reader.new; by_cases h : msg.size > 65535 <;> simp [h]

end Rsdns.C02
