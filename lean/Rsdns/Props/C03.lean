/-
  Rsdns.Props.C03 — "Name compression is expanded faithfully and only when legal".

  Property theorems only (helper lemmas: Rsdns/Lemmas/Labels.lean).  Statement shapes:
    * soundness      : whatever read / skip / iterate accept is the RFC 1035 §4.1.4 expansion, and the
                       cursor resumes right after the in-place bytes;
    * rejection      : forward/self pointers, reserved label types, a 33rd hop and invalid label bytes
                       produce their specific error, in every instantiation of the loop (errors met on
                       the way are never swallowed);
    * completeness   : every conforming (backward-only, ≤ 32 hops, valid labels) layout is accepted.
-/
import Rsdns.Lemmas.Labels

set_option linter.unusedVariables false

namespace Rsdns.C03

open Rsdns Generated Spec

/-! ## Soundness -/

/-- The loop of `read_domain_name` / `skip_domain_name`: the labels it met are an RFC expansion of
    the name at the start position; `max_pos` is the resume position fixed by the first pointer or
    by the terminating zero. -/
theorem walk_sound (msg : Bytes) (m : Mode) (s : LSt) (acc : Bytes) (ls : List Bytes) (n : Nat)
    (o : WalkOut) (h : walk msg m s acc ls n = .ok o) :
    ∃ tail nxt, o.labels = ls.reverse ++ tail ∧ Expand msg s.cur.pos tail nxt ∧
      (s.maxPos = 0 → o.maxPos = nxt) ∧ (s.maxPos ≠ 0 → o.maxPos = s.maxPos) := by
  fun_induction walk msg m s acc ls n with
  | case1 => simp at h
  | case2 => simp at h
  | case3 => simp at h
  | case4 s acc ls n s' hst =>
    have hz := iterStep_zero hst
    simp only [Res.ok.injEq] at h
    subst h
    refine ⟨[], s.cur.pos + 1, by simp, Expand.zero _ hz.1, ?_, ?_⟩
    · intro hm; simp [hz.2.2.2.1, hm]
    · intro hm; simp [hz.2.2.2.1, hm]
  | case5 => simp at h
  | case6 => simp at h
  | case7 => simp at h
  | case8 s acc ls n bytes p s' hst acc' hon ih =>
    obtain ⟨nb, hb, hpos, hlt, hsz, hbe, hp', _, hnp, hmp, _, _⟩ := iterStep_label_spec hst
    obtain ⟨tail, nxt, hl, hex, hm0, hm1⟩ := ih h
    refine ⟨bytes :: tail, nxt, by simp [hl], ?_, ?_, ?_⟩
    · refine Expand.label s.cur.pos nb bytes tail nxt hb hpos hlt hsz hbe ?_
      rw [← hp']; exact hex
    · intro hm; exact hm0 (by rw [hmp]; exact hm)
    · intro hm; rw [hm1 (by rw [hmp]; exact hm), hmp]
  | case9 s acc ls n s' hst ih =>
    obtain ⟨b1, b2, hb1, hge, hb2, hp', hnp, _, hmp, hm2, _, _, _⟩ := iterStep_jump_spec hst
    obtain ⟨tail, nxt, hl, hex, hm0, hm1⟩ := ih h
    refine ⟨tail, s.cur.pos + 2, hl, ?_, ?_, ?_⟩
    · refine Expand.ptr s.cur.pos b1 b2 tail nxt hb1 hge hb2 ?_
      rw [← hp']; exact hex
    · intro hm
      have hne : s'.maxPos ≠ 0 := by omega
      rw [hm1 hne, hmp]; simp [hm]
    · intro hm
      have hne : s'.maxPos ≠ 0 := by omega
      rw [hm1 hne, hmp]; simp [hm]


/-- The text accumulated by `read_domain_name` is the canonical text of those labels; `skip` leaves
    its (unit) accumulator alone; every label met passed `check_label_bytes`. -/
theorem walk_text (msg : Bytes) (m : Mode) (s : LSt) (acc : Bytes) (ls : List Bytes) (n : Nat)
    (o : WalkOut) (h : walk msg m s acc ls n = .ok o) :
    ∃ tail, o.labels = ls.reverse ++ tail ∧ (∀ l ∈ tail, checkLabel l = .ok ()) ∧
      (∀ k, m = .read k → o.text = acc ++ textOf tail) ∧ (m = .skip → o.text = acc) := by
  fun_induction walk msg m s acc ls n with
  | case1 => simp at h
  | case2 => simp at h
  | case3 => simp at h
  | case4 s acc ls n s' hst =>
    simp only [Res.ok.injEq] at h
    subst h
    exact ⟨[], by simp, by simp, by intro k _; simp [textOf], by intro _; rfl⟩
  | case5 => simp at h
  | case6 => simp at h
  | case7 => simp at h
  | case8 s acc ls n bytes p s' hst acc' hon ih =>
    obtain ⟨tail, hl, hck, hr, hs⟩ := ih h
    refine ⟨bytes :: tail, by simp [hl], ?_, ?_, ?_⟩
    · intro l hl'
      rcases List.mem_cons.mp hl' with rfl | hl'
      · exact Mode.onLabel_ok_check hon
      · exact hck l hl'
    · intro k hk
      subst hk
      rw [hr k rfl, (Mode.onLabel_read_ok hon).1, textOf_cons_assoc]
    · intro hk
      subst hk
      rw [hs rfl, (Mode.onLabel_skip_ok hon).1]
  | case9 s acc ls n s' hst ih => exact ih h

/-- **C03 / read.** A name accepted by `read_domain_name::<Name | InlineName>` is the RFC expansion of
    the bytes at the cursor, its text is the canonical spelling of those labels, every label is valid,
    and the cursor resumes immediately after the name's in-place bytes. -/
theorem read_sound (k : NameKind) (msg : Bytes) (c c' : Cur) (text : Bytes)
    (h : readName k msg c = .ok (text, c')) :
    ∃ ls, Expand msg c.pos ls c'.pos ∧ text = nameText ls ∧ (∀ l ∈ ls, checkLabel l = .ok ()) ∧
      c'.lim = c.lim ∧ c'.orig = c.orig := by
  unfold readName at h
  split at h <;> try (simp at h; done)
  rename_i o hw
  simp only [Res.ok.injEq, Prod.mk.injEq] at h
  obtain ⟨ht, hc⟩ := h
  obtain ⟨tail, nxt, hl, hex, hm0, _⟩ := walk_sound _ _ _ _ _ _ _ hw
  obtain ⟨tail', hl', hck, hr, _⟩ := walk_text _ _ _ _ _ _ _ hw
  have : tail' = tail := by simpa [hl] using hl'.symm
  subst this
  refine ⟨tail', ?_, ?_, hck, by subst hc; rfl, by subst hc; rfl⟩
  · subst hc
    simp only [Cur.setPos]
    rw [hm0 rfl]
    exact hex
  · rw [← ht, hr k rfl]
    cases tail' with
    | nil => simp [nameText, textOf, rootName, DOT]
    | cons l ls =>
      have hp : 0 < (textOf (l :: ls)).size := textOf_size_pos
      have : ¬ ((textOf (l :: ls)).size = 0) := by omega
      simp only [Array.empty_append, this, if_false, nameText, List.isEmpty_cons, Bool.false_eq_true]

/-- **C03 / skip.** `skip_domain_name` accepts only RFC expansions with valid labels, resumes at the
    same place as `read`, and reports the number of in-place bytes skipped. -/
theorem skip_sound (msg : Bytes) (c c' : Cur) (n : Nat) (h : skipName msg c = .ok (n, c')) :
    ∃ ls, Expand msg c.pos ls c'.pos ∧ (∀ l ∈ ls, checkLabel l = .ok ()) ∧ n = c'.pos - c.pos ∧
      c'.lim = c.lim ∧ c'.orig = c.orig := by
  unfold skipName at h
  split at h <;> try (simp at h; done)
  rename_i o hw
  split at h
  · simp at h
  · simp only [Res.ok.injEq, Prod.mk.injEq] at h
    obtain ⟨hn, hc⟩ := h
    obtain ⟨tail, nxt, hl, hex, hm0, _⟩ := walk_sound _ _ _ _ _ _ _ hw
    obtain ⟨tail', hl', hck, _, _⟩ := walk_text _ _ _ _ _ _ _ hw
    have : tail' = tail := by simpa [hl] using hl'.symm
    subst this
    subst hc
    refine ⟨tail', ?_, hck, by simp only [Cur.setPos]; omega, rfl, rfl⟩
    simp only [Cur.setPos]
    rw [hm0 rfl]
    exact hex


/-! ### iterator -/

/-- one `Labels::next_impl` call: follows pointers until a label (prepended to whatever the rest of
    the name expands to) or the terminating zero -/
theorem nextImpl_sound (msg : Bytes) (s : LSt) :
    (∀ lab s', nextImpl msg s = .ok (some lab, s') →
        checkLabel lab.bytes = .ok () ∧
        (∃ n : UInt8, msg[lab.pos]? = some n ∧ n.toNat = lab.bytes.size) ∧
        ∀ ls nxt, Expand msg s'.cur.pos ls nxt → ∃ nxt', Expand msg s.cur.pos (lab.bytes :: ls) nxt') ∧
    (∀ s', nextImpl msg s = .ok (none, s') → ∃ nxt, Expand msg s.cur.pos [] nxt) := by
  fun_induction nextImpl msg s with
  | case1 => simp
  | case2 => simp
  | case3 => simp
  | case4 s s1 hst =>
    have hz := iterStep_zero hst
    refine ⟨by simp, ?_⟩
    intro s' _
    exact ⟨_, Expand.zero _ hz.1⟩
  | case5 => simp
  | case6 => simp
  | case7 => simp
  | case8 s bytes pos s1 hst hck =>
    obtain ⟨nb, hb, hpos, hlt, hsz, hbe, hp', hp, _⟩ := iterStep_label_spec hst
    refine ⟨?_, by simp⟩
    intro lab s' h
    simp only [Res.ok.injEq, Prod.mk.injEq, Option.some.injEq] at h
    obtain ⟨rfl, rfl⟩ := h
    refine ⟨hck, ⟨nb, by rw [hp]; exact hb, ?_⟩, ?_⟩
    · simp only [hbe, Array.size_extract]; omega
    · intro ls nxt hex
      exact ⟨nxt, Expand.label s.cur.pos nb bytes ls nxt hb hpos hlt hsz hbe (by rw [← hp']; exact hex)⟩
  | case9 s s1 hst ih =>
    obtain ⟨b1, b2, hb1, hge, hb2, hp', _⟩ := iterStep_jump_spec hst
    refine ⟨?_, ?_⟩
    · intro lab s' h
      obtain ⟨hck, hpos, hex⟩ := ih.1 lab s' h
      refine ⟨hck, hpos, ?_⟩
      intro ls nxt he
      obtain ⟨nxt', he'⟩ := hex ls nxt he
      exact ⟨_, Expand.ptr s.cur.pos b1 b2 _ nxt' hb1 hge hb2 (by rw [← hp']; exact he')⟩
    · intro s' h
      obtain ⟨nxt, he⟩ := ih.2 s' h
      exact ⟨_, Expand.ptr s.cur.pos b1 b2 _ nxt hb1 hge hb2 (by rw [← hp']; exact he)⟩

theorem drain_sound (msg : Bytes) (l : Labels) (acc : List LabelRef) (refs : List LabelRef)
    (hd : l.done = false) (h : Labels.drain msg l acc = .ok (.ok refs)) :
    ∃ tail nxt, refs = acc.reverse ++ tail ∧ Expand msg l.st.cur.pos (tail.map (·.bytes)) nxt ∧
      ∀ r ∈ tail, checkLabel r.bytes = .ok () ∧ ∃ n : UInt8, msg[r.pos]? = some n ∧ n.toNat = r.bytes.size := by
  fun_induction Labels.drain msg l acc with
  | case1 l acc hdone => simp [hd] at hdone
  | case2 l acc hdone lab s' hn ih =>
    obtain ⟨tail, nxt, hr, hex, hall⟩ := ih rfl h
    obtain ⟨hck, hpos, hx⟩ := (nextImpl_sound msg l.st).1 lab s' hn
    obtain ⟨nxt', hex'⟩ := hx _ _ hex
    refine ⟨lab :: tail, nxt', by simp [hr], by simpa using hex', ?_⟩
    intro r hr'
    rcases List.mem_cons.mp hr' with rfl | hr'
    · exact ⟨hck, hpos⟩
    · exact hall r hr'
  | case3 l acc hdone s' hn =>
    obtain ⟨nxt, hex⟩ := (nextImpl_sound msg l.st).2 s' hn
    simp only [Res.ok.injEq, Except.ok.injEq] at h
    subst h
    exact ⟨[], nxt, by simp, by simpa using hex, by simp⟩
  | case4 => simp at h
  | case5 => simp at h
  | case6 => simp at h

/-- **C03 / iterate.** The labels yielded by a `Labels` iterator that ends without an error are the
    RFC expansion of the name at its cursor; each `LabelRef` sits on its length octet; each label is
    valid. -/
theorem iter_sound (msg : Bytes) (c : Cur) (refs : List LabelRef)
    (h : Labels.drain msg (Labels.new c) [] = .ok (.ok refs)) :
    ∃ nxt, Expand msg c.pos (refs.map (·.bytes)) nxt ∧
      ∀ r ∈ refs, checkLabel r.bytes = .ok () ∧ ∃ n : UInt8, msg[r.pos]? = some n ∧ n.toNat = r.bytes.size := by
  obtain ⟨tail, nxt, hr, hex, hall⟩ := drain_sound msg (Labels.new c) [] refs rfl h
  simp only [List.reverse_nil, List.nil_append] at hr
  subst hr
  exact ⟨nxt, hex, hall⟩

/-! ## Rejection -/

/-- a reserved label type (`01…` / `10…` in the two high bits) is rejected on sight -/
theorem reject_label_type (msg : Bytes) (s : LSt) (b : UInt8) (hb : msg[s.cur.pos]? = some b)
    (hl : s.cur.pos < s.cur.lim) (h64 : 64 ≤ b.toNat) (h192 : b.toNat < 192) :
    iterStep msg s = .err (.badLabelType b) := by
  unfold iterStep
  have hne : (b == 0) = false := by
    simp only [beq_eq_false_iff_ne, ne_eq]
    intro h0; subst h0; simp at h64
  have hlen : is_length b.toNat = false := by
    rw [is_length_iff b.toNat b.toNat_lt]; simp; omega
  have hptr : is_pointer b.toNat = false := by
    rw [is_pointer_iff b.toNat b.toNat_lt]; simp; omega
  simp only [Cur.u8_eq hl hb, hne, Bool.false_eq_true, if_false, hlen, hptr]

/-- forward and self pointers: the first pointer of a name (at `P0`) and every later one must target
    strictly below `P0`; a target `≥ P0` is `DomainNameBadPointer`. `P0 = max_pos − 2`, with
    `max_pos` fixed when the first pointer is met. -/
theorem reject_pointer_target (msg : Bytes) (s : LSt) (b1 b2 : UInt8) (hb1 : msg[s.cur.pos]? = some b1)
    (hge : 192 ≤ b1.toNat) (hb2 : msg[s.cur.pos + 1]? = some b2) (hl : s.cur.pos + 2 ≤ s.cur.lim)
    (hmp : s.maxPos = 0 ∨ 2 ≤ s.maxPos)
    (ht : ptrTarget b1 b2 ≥ (if s.maxPos = 0 then s.cur.pos else s.maxPos - 2)) :
    iterStep msg s = .err (.badPointer (ptrTarget b1 b2) (if s.maxPos = 0 then s.cur.pos + 2 else s.maxPos)) := by
  rw [iterStep_jump_eq hb1 hge hb2 hl]
  simp only
  by_cases h0 : s.maxPos = 0
  · simp only [h0, if_true] at ht ⊢
    have h1 : ¬ (s.cur.pos + 2 < 2) := by omega
    have h2 : ptrTarget b1 b2 ≥ s.cur.pos + 2 - 2 := by omega
    simp only [h1, if_false, h2, if_true]
  · simp only [h0, if_false] at ht ⊢
    have h1 : ¬ (s.maxPos < 2) := by omega
    simp only [h1, if_false, ht, if_true]

/-- the 33rd hop: with `DOMAIN_NAME_MAX_POINTERS` pointers already followed, a further (otherwise
    legal) pointer is `DomainNameTooMuchPointers` -/
theorem reject_hops (msg : Bytes) (s : LSt) (b1 b2 : UInt8) (hb1 : msg[s.cur.pos]? = some b1)
    (hge : 192 ≤ b1.toNat) (hb2 : msg[s.cur.pos + 1]? = some b2) (hl : s.cur.pos + 2 ≤ s.cur.lim)
    (hmp : s.maxPos = 0 ∨ 2 ≤ s.maxPos)
    (ht : ptrTarget b1 b2 < (if s.maxPos = 0 then s.cur.pos else s.maxPos - 2))
    (hn : s.nptr ≥ DOMAIN_NAME_MAX_POINTERS) :
    iterStep msg s = .err .tooMuchPointers := by
  rw [iterStep_jump_eq hb1 hge hb2 hl]
  simp only
  by_cases h0 : s.maxPos = 0
  · simp only [h0, if_true] at ht ⊢
    have h1 : ¬ (s.cur.pos + 2 < 2) := by omega
    have h2 : ¬ (ptrTarget b1 b2 ≥ s.cur.pos + 2 - 2) := by omega
    have h3 : s.nptr + 1 > DOMAIN_NAME_MAX_POINTERS := by omega
    simp only [h1, if_false, h2, h3, if_true]
  · simp only [h0, if_false] at ht ⊢
    have h1 : ¬ (s.maxPos < 2) := by omega
    have h2 : ¬ (ptrTarget b1 b2 ≥ s.maxPos - 2) := by omega
    have h3 : s.nptr + 1 > DOMAIN_NAME_MAX_POINTERS := by omega
    simp only [h1, if_false, h2, h3, if_true]

/-- `Reach msg m s acc s' acc'`: the read/skip loop, started in `(s, acc)`, is in `(s', acc')` after
    some number of successful iterations. -/
inductive Reach (msg : Bytes) (m : Mode) : LSt → Bytes → LSt → Bytes → Prop where
  | refl (s : LSt) (acc : Bytes) : Reach msg m s acc s acc
  | label {s s1 s' : LSt} {acc acc1 acc' b : Bytes} {p : Nat} :
      iterStep msg s = .ok (.label b p s1) → m.onLabel acc b = .ok acc1 →
      Reach msg m s1 acc1 s' acc' → Reach msg m s acc s' acc'
  | jump {s s1 s' : LSt} {acc acc' : Bytes} :
      iterStep msg s = .ok (.jump s1) → Reach msg m s1 acc s' acc' → Reach msg m s acc s' acc'

/-- errors are never swallowed: whatever error an iteration produces anywhere along the way is the
    result of the whole read / skip -/
theorem walk_step_error (msg : Bytes) (m : Mode) {s s' : LSt} {acc acc' : Bytes} (e : Err)
    (hr : Reach msg m s acc s' acc') (he : iterStep msg s' = .err e) :
    ∀ ls n, walk msg m s acc ls n = .err e := by
  induction hr with
  | refl s acc =>
    intro ls n
    rw [walk]
    split <;> simp_all
  | label hst hon _ ih =>
    intro ls n
    rw [walk]
    split <;> simp_all
  | jump hst _ ih =>
    intro ls n
    rw [walk]
    split <;> simp_all

/-- invalid label bytes are rejected with `check_label_bytes`' own error, in read, skip … -/
theorem walk_label_error (msg : Bytes) (m : Mode) {s s' s'' : LSt} {acc acc' b : Bytes} {p : Nat} (e : Err)
    (hr : Reach msg m s acc s' acc') (hst : iterStep msg s' = .ok (.label b p s''))
    (hck : checkLabel b = .err e) :
    ∀ ls n, walk msg m s acc ls n = .err e := by
  have hon : m.onLabel acc' b = .err e := by
    cases m with
    | read k => simp [Mode.onLabel, appendLabelBytes, hck]
    | skip => simp [Mode.onLabel, hck]
  induction hr with
  | refl s acc =>
    intro ls n
    rw [walk]
    split <;> simp_all
  | label hst' hon' _ ih =>
    intro ls n
    rw [walk]
    split <;> simp_all
  | jump hst' _ ih =>
    intro ls n
    rw [walk]
    split <;> simp_all

/-- … and in the iterator -/
theorem nextImpl_label_error (msg : Bytes) {s s' : LSt} {b : Bytes} {p : Nat} (e : Err)
    (hst : iterStep msg s = .ok (.label b p s')) (hck : checkLabel b = .err e) :
    nextImpl msg s = .err e := by
  rw [nextImpl]
  split <;> simp_all


/-! ## Completeness: every conforming layout is accepted -/

/-- Backward-only layouts (`NameAt`) with valid labels and at most `DOMAIN_NAME_MAX_POINTERS` hops are
    accepted by the read and skip loops; the result is exactly the encoded label list and the resume
    position is the end of the in-place bytes.  For `read`, the text must fit: wire length ≤ 255. -/
theorem walk_complete (msg : Bytes) (lim s pos : Nat) (ls : List Bytes) (nxt hops : Nat)
    (hn : NameAt msg lim s pos ls nxt hops) (m : Mode) :
    ∀ (st : LSt) (acc : Bytes) (lacc : List Bytes) (n : Nat),
      st.cur.pos = pos → st.cur.lim = lim → s ≤ pos → hops + st.nptr ≤ DOMAIN_NAME_MAX_POINTERS →
      (st.maxPos ≠ 0 → s + 2 ≤ st.maxPos) → (∀ l ∈ ls, checkLabel l = .ok ()) →
      (∀ k, m = .read k → acc.size + (textOf ls).size < DOMAIN_NAME_MAX_LENGTH) →
      ∃ o, walk msg m st acc lacc n = .ok o ∧ o.labels = lacc.reverse ++ ls ∧
        o.maxPos = (if st.maxPos = 0 then nxt else st.maxPos) ∧
        (∀ k, m = .read k → o.text = acc ++ textOf ls) := by
  induction hn with
  | zero s pos h0 hlim =>
    intro st acc lacc n hp hl _ _ _ _ _
    subst hp
    rw [walk]
    have := iterStep_zero_eq (s := st) (by omega) h0
    split <;> simp_all [textOf]
  | label s pos nb l ls nxt h hb hpos hlt hsz hmsz hl' _ ih =>
    intro st acc lacc n hp hl hs hh hm hck htxt
    subst hp
    have hstep := iterStep_label_eq (s := st) hb hpos hlt (by omega) (by omega)
    rw [← hl'] at hstep
    have hckl : checkLabel l = .ok () := hck l (by simp)
    have hon : ∃ acc', m.onLabel acc l = .ok acc' ∧ (∀ k, m = .read k → acc' = (acc ++ l).push DOT) := by
      cases m with
      | read k =>
        have hlen : acc.size + l.size + 1 < DOMAIN_NAME_MAX_LENGTH := by
          have := htxt k rfl
          simp only [textOf, Array.size_append, Array.size_push] at this
          omega
        exact ⟨_, appendLabelBytes_eq hckl hlen, by intro k' _; rfl⟩
      | skip => exact ⟨acc, by simp [Mode.onLabel, hckl], by intro k hk; cases hk⟩
    obtain ⟨acc', hon, hacc'⟩ := hon
    obtain ⟨o, hw, hlab, hmp, htx⟩ := ih
      { cur := { lim := st.cur.lim, pos := st.cur.pos + 1 + nb.toNat, orig := st.cur.orig },
        maxPos := st.maxPos, nptr := st.nptr } acc' (l :: lacc) (n + 1) rfl hl (by omega) hh hm
      (fun x hx => hck x (by simp [hx]))
      (by
        intro k hk
        have := htxt k hk
        rw [hacc' k hk]
        simp only [textOf, Array.size_append, Array.size_push] at this ⊢
        omega)
    refine ⟨o, ?_, by simp [hlab], hmp, ?_⟩
    · rw [walk]
      split <;> simp_all
    · intro k hk
      rw [htx k hk, hacc' k hk, textOf_cons_assoc]
  | ptr s pos b1 b2 ls nxt' h hb hge hb2 hlim hlt _ ih =>
    intro st acc lacc n hp hl hs hh hm hck htxt
    subst hp
    have hstep := iterStep_jump_eq (s := st) hb hge hb2 (by omega)
    by_cases hmz : st.maxPos = 0
    · have h1 : ¬ (st.cur.pos + 2 < 2) := by omega
      have h2 : ¬ (ptrTarget b1 b2 ≥ st.cur.pos + 2 - 2) := by omega
      have h3 : ¬ (st.nptr + 1 > DOMAIN_NAME_MAX_POINTERS) := by omega
      simp only [hmz, if_true, h1, if_false, h2, h3] at hstep
      obtain ⟨o, hw, hlab, hmp, htx⟩ := ih
        { cur := { lim := st.cur.lim, pos := ptrTarget b1 b2, orig := st.cur.orig },
          maxPos := st.cur.pos + 2, nptr := st.nptr + 1 } acc lacc (n + 1) rfl hl (Nat.le_refl _)
        (by simp only; omega) (by intro _; simp only; omega) hck htxt
      refine ⟨o, ?_, hlab, ?_, htx⟩
      · rw [walk]
        split <;> simp_all
      · have hne : ¬ (st.cur.pos + 2 = 0) := by omega
        simp only [hne, if_false] at hmp
        simp [hmz, hmp]
    · have hm' := hm hmz
      have h1 : ¬ (st.maxPos < 2) := by omega
      have h2 : ¬ (ptrTarget b1 b2 ≥ st.maxPos - 2) := by omega
      have h3 : ¬ (st.nptr + 1 > DOMAIN_NAME_MAX_POINTERS) := by omega
      simp only [hmz, if_false, h1, h2, h3] at hstep
      obtain ⟨o, hw, hlab, hmp, htx⟩ := ih
        { cur := { lim := st.cur.lim, pos := ptrTarget b1 b2, orig := st.cur.orig },
          maxPos := st.maxPos, nptr := st.nptr + 1 } acc lacc (n + 1) rfl hl (Nat.le_refl _)
        (by simp only; omega) (by intro _; simp only; omega) hck htxt
      refine ⟨o, ?_, hlab, ?_, htx⟩
      · rw [walk]
        split <;> simp_all
      · simp only [hmz, if_false] at hmp ⊢
        exact hmp

/-- **C03 / accept.** `read_domain_name` accepts every conforming layout whose wire form has at most
    255 octets (text ≤ 254), and returns exactly its canonical text. -/
theorem read_complete (k : NameKind) (msg : Bytes) (c : Cur) (ls : List Bytes) (nxt hops : Nat)
    (hn : NameAt msg c.lim c.pos c.pos ls nxt hops) (hh : hops ≤ DOMAIN_NAME_MAX_POINTERS)
    (hck : ∀ l ∈ ls, checkLabel l = .ok ()) (hlen : (textOf ls).size < DOMAIN_NAME_MAX_LENGTH) :
    readName k msg c = .ok (nameText ls, c.setPos nxt) := by
  obtain ⟨o, hw, hlab, hmp, htx⟩ := walk_complete msg c.lim c.pos c.pos ls nxt hops hn (.read k)
    { cur := c, maxPos := 0, nptr := 0 } #[] [] 0 rfl rfl (Nat.le_refl _) (by simpa using hh) (by simp) hck
    (by intro _ _; simpa using hlen)
  unfold readName
  rw [hw]
  simp only [if_true] at hmp
  simp only [hmp, htx k rfl, Array.empty_append, Res.ok.injEq, Prod.mk.injEq, and_true]
  cases ls with
  | nil => simp [nameText, textOf, rootName, DOT]
  | cons l ls' =>
    have hp : 0 < (textOf (l :: ls')).size := textOf_size_pos
    have : ¬ ((textOf (l :: ls')).size = 0) := by omega
    simp only [this, if_false, nameText, List.isEmpty_cons, Bool.false_eq_true]

/-- `skip_domain_name` accepts every conforming layout, whatever its length -/
theorem skip_complete (msg : Bytes) (c : Cur) (ls : List Bytes) (nxt hops : Nat)
    (hn : NameAt msg c.lim c.pos c.pos ls nxt hops) (hh : hops ≤ DOMAIN_NAME_MAX_POINTERS)
    (hck : ∀ l ∈ ls, checkLabel l = .ok ()) :
    ∃ n, skipName msg c = .ok (n, c.setPos nxt) := by
  obtain ⟨o, hw, hlab, hmp, _⟩ := walk_complete msg c.lim c.pos c.pos ls nxt hops hn .skip
    { cur := c, maxPos := 0, nptr := 0 } #[] [] 0 rfl rfl (Nat.le_refl _) (by simpa using hh) (by simp) hck
    (by intro k hk; cases hk)
  have hge : c.pos < nxt := Expand.lt_next (NameAt.expand hn)
  unfold skipName
  rw [hw]
  simp only [if_true] at hmp
  have : ¬ (nxt < c.pos) := by omega
  simp only [hmp, this, if_false]
  exact ⟨_, rfl⟩

/-! ## Non-vacuity: a concrete compressed message satisfies the hypotheses -/

/-- `03 'w' 'w' 'w' 00` at 0 and, at 5, `01 'a' C0 00` (= "a" + pointer to offset 0) -/
def sample : Bytes := #[3, 119, 119, 119, 0, 1, 97, 192, 0]

theorem sample_nameAt : NameAt sample 9 5 5 [#[97], #[119, 119, 119]] 9 1 := by
  refine NameAt.label 5 5 1 #[97] _ 9 1 (by decide) (by decide) (by decide) (by decide) (by decide) (by decide) ?_
  refine NameAt.ptr 5 7 192 0 _ 5 0 (by decide) (by decide) (by decide) (by decide) (by decide) ?_
  refine NameAt.label 0 0 3 #[119, 119, 119] _ 5 0 (by decide) (by decide) (by decide) (by decide) (by decide)
    (by decide) ?_
  exact NameAt.zero 0 4 (by decide) (by decide)

example : readName .heap sample (Cur.withPos sample 5) =
    .ok (#[97, 46, 119, 119, 119, 46], { lim := 9, pos := 9, orig := none }) :=
  read_complete .heap sample (Cur.withPos sample 5) _ 9 1 sample_nameAt (by decide) (by decide) (by decide)

end Rsdns.C03
