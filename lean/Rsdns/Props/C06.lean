/-
  Rsdns.Props.C06 — "Record-set extraction follows the CNAME chain to the right records".

  Proved here for ARBITRARY messages (no well-formedness needed): whatever `from_msg` returns was
  selected by the rules of the property —
    * every returned datum is the typed data of an *answer-section* record whose owner equals
      (`NameRef::eq`) the final name, whose type is `D::RTYPE` and whose class is the question's class;
    * the set's TTL is a lower bound of those records' TTLs and is one of them; its class is the question's;
    * a CNAME step consumes exactly one answer-section CNAME record of the current name and class, so the
      chain takes at most (#answers + 1) rounds — CNAME loops end with `NoAnswer`.
  The FULL STATEMENT — `rrset_refines`: on every well-formed NOERROR response `from_msg` equals the
  CNAME-chain specification `chainS` on the decoded message, order of records included — is proved in
  Props/C06Refines.lean.  On the implementation an independent reference computed by the generator on the
  semantic message (harness: `reference_rrset`, oracle `rrset_truth_oracle`) is the ground truth, tied to
  the model by the `rrset` correspondence stream.
-/
import Rsdns.Model.RecordSet

set_option linter.unusedVariables false

namespace Rsdns.C06

open Rsdns Generated

/-- a header that `extract_rrset` selects for `(name, D, rclass)` -/
def Selected (msg : Bytes) (t : RType) (name : Cur) (rclass : Nat) (h : HdrRef) : Prop :=
  nameRefEqQ msg h.1 name = .ok true ∧ h.2.rtype = t.code ∧ h.2.rclass = rclass

/-- one pass of `extract_rrset`: every new datum is the random-access data of a selected header; the
    TTL only goes down, and never below a selected header's TTL … -/
theorem extractRRSet_sound (msg : Bytes) (t : RType) (r : Reader) (name : Cur) (rclass : Nat)
    (hs : List (Option HdrRef)) (ttl : Nat) (rd : List RData) (out : List (Option HdrRef))
    (ttl' : Nat) (rd' : List RData) (hs' : List (Option HdrRef))
    (h : extractRRSet msg t r name rclass hs ttl rd out = .ok (ttl', rd', hs')) :
    (∀ d ∈ rd', d ∈ rd ∨ ∃ hd, some hd ∈ hs ∧ Selected msg t name rclass hd ∧ r.dataAt msg t hd.2 = .ok d) ∧
    ttl' ≤ ttl ∧
    (∀ hd, some hd ∈ hs → Selected msg t name rclass hd → ttl' ≤ hd.2.ttl) ∧
    (ttl' = ttl ∨ ∃ hd, some hd ∈ hs ∧ Selected msg t name rclass hd ∧ ttl' = hd.2.ttl) ∧
    (∀ x, some x ∈ hs' → some x ∈ out ∨ some x ∈ hs) ∧
    rd'.length ≥ rd.length := by
  induction hs generalizing ttl rd out with
  | nil =>
    simp only [extractRRSet, Res.ok.injEq, Prod.mk.injEq] at h
    obtain ⟨rfl, rfl, rfl⟩ := h
    exact ⟨by intro d hd; left; simpa using hd, Nat.le_refl _, by simp, Or.inl rfl,
      by intro x hx; left; simpa using hx, by simp⟩
  | cons x xs ih =>
    cases x with
    | none =>
      simp only [extractRRSet] at h
      obtain ⟨h1, h2, h3, h4, h5, h6⟩ := ih ttl rd (none :: out) h
      refine ⟨?_, h2, ?_, ?_, ?_, h6⟩
      · intro d hd
        rcases h1 d hd with h | ⟨hdr, hm, hsel, hdat⟩
        · exact Or.inl h
        · exact Or.inr ⟨hdr, by simp [hm], hsel, hdat⟩
      · intro hd hm hsel
        exact h3 hd (by simpa using hm) hsel
      · rcases h4 with h | ⟨hdr, hm, hsel, he⟩
        · exact Or.inl h
        · exact Or.inr ⟨hdr, by simp [hm], hsel, he⟩
      · intro y hy
        rcases h5 y hy with h | h
        · left; simpa using h
        · right; simp [h]
    | some hm =>
      obtain ⟨hn, m⟩ := hm
      simp only [extractRRSet] at h
      cases he : nameRefEqQ msg hn name with
      | err e => simp [he] at h
      | panic p => simp [he] at h
      | ub => simp [he] at h
      | ok eq =>
        simp only [he] at h
        by_cases hc : (eq && m.rtype == t.code && m.rclass == rclass) = true
        · simp only [hc, if_true] at h
          have hsel : Selected msg t name rclass (hn, m) := by
            simp only [Bool.and_eq_true, beq_iff_eq] at hc
            exact ⟨by rw [he, hc.1.1], hc.1.2, hc.2⟩
          cases hd : r.dataAt msg t m with
          | err e => simp [hd] at h
          | panic p => simp [hd] at h
          | ub => simp [hd] at h
          | ok d0 =>
            simp only [hd] at h
            obtain ⟨h1, h2, h3, h4, h5, h6⟩ := ih (Nat.min ttl m.ttl) (d0 :: rd) (none :: out) h
            have hmin1 : Nat.min ttl m.ttl ≤ ttl := Nat.min_le_left _ _
            have hmin2 : Nat.min ttl m.ttl ≤ m.ttl := Nat.min_le_right _ _
            refine ⟨?_, by omega, ?_, ?_, ?_, by simp at h6; omega⟩
            · intro d hdm
              rcases h1 d hdm with h | ⟨hdr, hmem, hs2, hdat⟩
              · rcases List.mem_cons.mp h with rfl | h
                · exact Or.inr ⟨(hn, m), by simp, hsel, hd⟩
                · exact Or.inl h
              · exact Or.inr ⟨hdr, by simp [hmem], hs2, hdat⟩
            · intro hdr hmem hs2
              rcases List.mem_cons.mp hmem with heq | hmem
              · simp only [Option.some.injEq] at heq
                subst heq
                simp only at h2 ⊢
                omega
              · exact h3 hdr hmem hs2
            · rcases h4 with h | ⟨hdr, hmem, hs2, he2⟩
              · rcases Nat.le_total ttl m.ttl with hle | hle
                · left; rw [h]; exact Nat.min_eq_left hle
                · right; exact ⟨(hn, m), by simp, hsel, by rw [h]; exact Nat.min_eq_right hle⟩
              · exact Or.inr ⟨hdr, by simp [hmem], hs2, he2⟩
            · intro y hy
              rcases h5 y hy with h | h
              · left; simpa using h
              · right; simp [h]
        · have hc' : (eq && m.rtype == t.code && m.rclass == rclass) = false := by simpa using hc
          simp only [hc', Bool.false_eq_true, if_false] at h
          obtain ⟨h1, h2, h3, h4, h5, h6⟩ := ih ttl rd (some (hn, m) :: out) h
          have hnot : ¬ Selected msg t name rclass (hn, m) := by
            intro ⟨s1, s2, s3⟩
            simp only [he, Res.ok.injEq] at s1
            simp only at s2 s3
            simp [s1, s2, s3] at hc'
          refine ⟨?_, h2, ?_, ?_, ?_, h6⟩
          · intro d hdm
            rcases h1 d hdm with h | ⟨hdr, hmem, hs2, hdat⟩
            · exact Or.inl h
            · exact Or.inr ⟨hdr, by simp [hmem], hs2, hdat⟩
          · intro hdr hmem hs2
            rcases List.mem_cons.mp hmem with heq | hmem
            · simp only [Option.some.injEq] at heq
              subst heq
              exact absurd hs2 hnot
            · exact h3 hdr hmem hs2
          · rcases h4 with h | ⟨hdr, hmem, hs2, he2⟩
            · exact Or.inl h
            · exact Or.inr ⟨hdr, by simp [hmem], hs2, he2⟩
          · intro y hy
            rcases h5 y hy with h | h
            · rcases List.mem_cons.mp h with h | h
              · right; simp [h]
              · left; exact h
            · right; simp [h]

/-- `extract_cname` consumes exactly one header: a CNAME record owned by the current name in the
    question's class; the next name is the name stored in that record's RDATA -/
theorem extractCname_sound (msg : Bytes) (r : Reader) (name : Cur) (rclass : Nat)
    (hs : List (Option HdrRef)) (out : List (Option HdrRef)) (n : Cur) (hs' : List (Option HdrRef))
    (h : extractCname msg r name rclass hs out = .ok (some (n, hs'))) :
    ∃ hd, some hd ∈ hs ∧ nameRefEqQ msg hd.1 name = .ok true ∧ hd.2.rtype = TYPE_CNAME ∧ hd.2.rclass = rclass ∧
      n = r.nameRefAt hd.2 ∧
      (hs'.filter Option.isSome).length + 1 = (out.filter Option.isSome).length + (hs.filter Option.isSome).length ∧
      (∀ x, some x ∈ hs' → some x ∈ out ∨ some x ∈ hs) := by
  induction hs generalizing out with
  | nil => simp [extractCname] at h
  | cons x xs ih =>
    cases x with
    | none =>
      simp only [extractCname] at h
      obtain ⟨hd, hm, h1, h2, h3, h4, h5, h6⟩ := ih (none :: out) h
      refine ⟨hd, by simp [hm], h1, h2, h3, h4, by simpa using h5, ?_⟩
      intro y hy
      rcases h6 y hy with h | h
      · left; simpa using h
      · right; simp [h]
    | some hm =>
      obtain ⟨hn, m⟩ := hm
      simp only [extractCname] at h
      cases he : nameRefEqQ msg hn name with
      | err e => simp [he] at h
      | panic p => simp [he] at h
      | ub => simp [he] at h
      | ok eq =>
        simp only [he] at h
        by_cases hc : (eq && m.rtype == TYPE_CNAME && m.rclass == rclass) = true
        · simp only [hc, if_true, Res.ok.injEq, Option.some.injEq, Prod.mk.injEq] at h
          obtain ⟨rfl, rfl⟩ := h
          simp only [Bool.and_eq_true, beq_iff_eq] at hc
          refine ⟨(hn, m), by simp, by rw [he, hc.1.1], hc.1.2, hc.2, rfl, ?_, ?_⟩
          · simp [List.filter_append, List.filter_reverse]
            omega
          · intro y hy
            simp only [List.mem_append, List.mem_reverse, List.mem_cons] at hy
            rcases hy with h | h | h
            · left; exact h
            · cases h
            · right; simp [h]
        · have hc' : (eq && m.rtype == TYPE_CNAME && m.rclass == rclass) = false := by simpa using hc
          simp only [hc', Bool.false_eq_true, if_false] at h
          obtain ⟨hd, hmem, h1, h2, h3, h4, h5, h6⟩ := ih (some (hn, m) :: out) h
          refine ⟨hd, by simp [hmem], h1, h2, h3, h4, by simp at h5 ⊢; omega, ?_⟩
          intro y hy
          rcases h6 y hy with h | h
          · rcases List.mem_cons.mp h with h | h
            · right; simp [h]
            · left; exact h
          · right; simp [h]


/-- when a pass selects nothing, it leaves the header list as it was -/
theorem extractRRSet_nomatch (msg : Bytes) (t : RType) (r : Reader) (name : Cur) (rclass : Nat)
    (hs : List (Option HdrRef)) (ttl : Nat) (rd : List RData) (out : List (Option HdrRef))
    (ttl' : Nat) (rd' : List RData) (hs' : List (Option HdrRef))
    (h : extractRRSet msg t r name rclass hs ttl rd out = .ok (ttl', rd', hs')) (hlen : rd'.length = rd.length) :
    hs' = out.reverse ++ hs := by
  induction hs generalizing ttl rd out with
  | nil =>
    simp only [extractRRSet, Res.ok.injEq, Prod.mk.injEq] at h
    simp [h.2.2]
  | cons x xs ih =>
    cases x with
    | none =>
      simp only [extractRRSet] at h
      have := ih ttl rd (none :: out) h hlen
      simp [this]
    | some hm =>
      obtain ⟨hn, m⟩ := hm
      simp only [extractRRSet] at h
      cases he : nameRefEqQ msg hn name with
      | err e => simp [he] at h
      | panic p => simp [he] at h
      | ub => simp [he] at h
      | ok eq =>
        simp only [he] at h
        by_cases hc : (eq && m.rtype == t.code && m.rclass == rclass) = true
        · simp only [hc, if_true] at h
          cases hd : r.dataAt msg t m with
          | err e => simp [hd] at h
          | panic p => simp [hd] at h
          | ub => simp [hd] at h
          | ok d0 =>
            simp only [hd] at h
            have := (extractRRSet_sound msg t r name rclass xs _ _ _ _ _ _ h).2.2.2.2.2
            simp at this
            omega
        · have hc' : (eq && m.rtype == t.code && m.rclass == rclass) = false := by simpa using hc
          simp only [hc', Bool.false_eq_true, if_false] at h
          have := ih ttl rd (some (hn, m) :: out) h hlen
          simp [this]

/-- number of unconsumed headers -/
def live (hs : List (Option HdrRef)) : Nat := (hs.filter Option.isSome).length

/-- **the flattening loop**: the records it returns were all selected for the FINAL name, type `D` and
    the question's class among the headers it was given; the TTL is the minimum over a non-empty
    selection; and it ran at most (#headers + 1) rounds — a CNAME loop cannot keep it going -/
theorem flatten_sound (msg : Bytes) (t : RType) (r : Reader) (rclass : Nat) (fuel : Nat) (name : Cur)
    (headers : List (Option HdrRef)) (rounds : Nat) (name' : Cur) (ttl : Nat) (rdata : List RData) (rounds' : Nat)
    (h : flattenLoop msg t r rclass fuel name headers rounds = .ok (name', ttl, rdata, rounds')) :
    rdata ≠ [] ∧
    (∀ d ∈ rdata, ∃ hd, some hd ∈ headers ∧ Selected msg t name' rclass hd ∧ r.dataAt msg t hd.2 = .ok d) ∧
    (ttl = 4294967295 ∨ ∃ hd, some hd ∈ headers ∧ Selected msg t name' rclass hd ∧ ttl = hd.2.ttl) ∧
    rounds' ≤ rounds + live headers + 1 := by
  induction fuel generalizing name headers rounds with
  | zero => simp [flattenLoop] at h
  | succ fuel ih =>
    unfold flattenLoop at h
    cases hx : extractRRSet msg t r name rclass headers 4294967295 [] [] with
    | err e => simp [hx] at h
    | panic p => simp [hx] at h
    | ub => simp [hx] at h
    | ok v =>
      obtain ⟨ttl1, rd1, hs1⟩ := v
      simp only [hx] at h
      obtain ⟨s1, s2, s3, s4, s5, s6⟩ := extractRRSet_sound msg t r name rclass headers _ _ _ _ _ _ hx
      by_cases hne : rd1.isEmpty = false
      · simp only [hne, Bool.not_false, if_true, Res.ok.injEq, Prod.mk.injEq] at h
        obtain ⟨rfl, rfl, rfl, rfl⟩ := h
        refine ⟨by intro he; simp [he] at hne, ?_, ?_, by omega⟩
        · intro d hd
          rcases s1 d hd with h | h
          · simp at h
          · exact h
        · rcases s4 with h | h
          · exact Or.inl h   -- still `u32::MAX`: every selected record carries that TTL (`s3`)
          · exact Or.inr h
      · have he : rd1.isEmpty = true := by simpa using hne
        simp only [he, Bool.not_true, Bool.false_eq_true, if_false] at h
        have hrd : rd1 = [] := by simpa using he
        have hsame : hs1 = headers := by
          have := extractRRSet_nomatch msg t r name rclass headers _ _ _ _ _ _ hx (by simp [hrd])
          simpa using this
        cases hc : extractCname msg r name rclass hs1 [] with
        | err e => simp [hc] at h
        | panic p => simp [hc] at h
        | ub => simp [hc] at h
        | ok o =>
          cases o with
          | none => simp [hc] at h
          | some v =>
            obtain ⟨n, hs2⟩ := v
            simp only [hc] at h
            obtain ⟨hd, hm, _, _, _, _, hcount, hsub⟩ := extractCname_sound msg r name rclass hs1 [] n hs2 hc
            obtain ⟨i1, i2, i3, i4⟩ := ih n hs2 (rounds + 1) h
            have hlive : live hs2 + 1 = live headers := by
              unfold live; rw [← hsame]; simpa using hcount
            have hsub' : ∀ x, some x ∈ hs2 → some x ∈ headers := by
              intro x hx2
              rcases hsub x hx2 with h | h
              · simp at h
              · rw [← hsame]; exact h
            refine ⟨i1, ?_, ?_, by omega⟩
            · intro d hd2
              obtain ⟨hdr, hmem, hsel, hdat⟩ := i2 d hd2
              exact ⟨hdr, hsub' hdr hmem, hsel, hdat⟩
            · rcases i3 with h3 | ⟨hdr, hmem, hsel, httl⟩
              · exact Or.inl h3
              · exact Or.inr ⟨hdr, hsub' hdr hmem, hsel, httl⟩


/-! ### only the answer section contributes -/

theorem nextSection_answer (t : Tracker) (pos : Nat) (h : (t.sec 0).read < (t.sec 0).total) :
    (t.nextSection pos).1 = some 0 := by
  unfold Tracker.nextSection Tracker.nextSectionFrom
  simp [h]

theorem headerImpl_answer_section (msg : Bytes) (k : HKind) (r r' : Reader) (hn : HName) (m : Marker)
    (hleft : (r.tr.sec 0).read < (r.tr.sec 0).total) (h : r.headerImpl msg k = (.ok (hn, m), r')) :
    m.section_ = 0 := by
  unfold Reader.headerImpl at h
  have hs := nextSection_answer r.tr r.cur.pos hleft
  unfold Reader.calcSection at h
  cases hn2 : r.tr.nextSection r.cur.pos with
  | mk so tr1 =>
    rw [hn2] at hs
    simp only at hs
    subst hs
    simp only [hn2] at h
    -- whatever the name step does, the marker is built by `raw_marker_impl(pos, 0)`
    have key : ∀ (r2 r3 : Reader) (mk : Marker), r2.rawMarker msg r.cur.pos 0 = (.ok mk, r3) → mk.section_ = 0 := by
      intro r2 r3 mk hr
      unfold Reader.rawMarker Reader.onCur at hr
      simp only [bind, CurM.bind, pure, CurM.pure] at hr
      cases h1 : CurM.u16be msg r2.cur with
      | mk a c1 =>
        simp only [h1] at hr
        cases a <;> try (simp at hr; done)
        rename_i v1
        simp only at hr
        cases h2 : CurM.u16be msg c1 with
        | mk a2 c2 =>
          simp only [h2] at hr
          cases a2 <;> try (simp at hr; done)
          simp only at hr
          cases h3 : CurM.u32be msg c2 with
          | mk a3 c3 =>
            simp only [h3] at hr
            cases a3 <;> try (simp at hr; done)
            simp only at hr
            cases h4 : CurM.u16be msg c3 with
            | mk a4 c4 =>
              simp only [h4] at hr
              cases a4 <;> try (simp at hr; done)
              simp only [Prod.mk.injEq, Res.ok.injEq] at hr
              rw [← hr.1]
    cases k with
    | marker =>
      simp only at h
      cases hsk : Reader.onCur { r with tr := tr1 } (CurM.skipName msg) with
      | mk res r2 =>
        simp only [hsk] at h
        cases res <;> try (simp at h; done)
        simp only at h
        cases hrm : r2.rawMarker msg r.cur.pos 0 with
        | mk res3 r3 =>
          simp only [hrm] at h
          cases res3 <;> try (simp at h; done)
          simp only [Prod.mk.injEq, Res.ok.injEq] at h
          rw [← h.1.2]
          exact key _ _ _ hrm
    | ref =>
      simp only at h
      cases hsk : Reader.onCur { r with tr := tr1 } (CurM.skipName msg) with
      | mk res r2 =>
        simp only [hsk] at h
        cases res <;> try (simp at h; done)
        simp only at h
        cases hrm : r2.rawMarker msg r.cur.pos 0 with
        | mk res3 r3 =>
          simp only [hrm] at h
          cases res3 <;> try (simp at h; done)
          simp only [Prod.mk.injEq, Res.ok.injEq] at h
          rw [← h.1.2]
          exact key _ _ _ hrm
    | owned nk =>
      simp only at h
      cases hsk : Reader.onCur { r with tr := tr1 } (CurM.readName nk msg) with
      | mk res r2 =>
        simp only [hsk] at h
        cases res <;> try (simp at h; done)
        simp only at h
        cases hrm : r2.rawMarker msg r.cur.pos 0 with
        | mk res3 r3 =>
          simp only [hrm] at h
          cases res3 <;> try (simp at h; done)
          simp only [Prod.mk.injEq, Res.ok.injEq] at h
          rw [← h.1.2]
          exact key _ _ _ hrm

/-- every header `read_answer_headers` collects belongs to the answer section -/
theorem readAnswerHeaders_section (msg : Bytes) (fuel : Nat) (r r' : Reader) (acc hs : List HdrRef)
    (hacc : ∀ x ∈ acc, x.2.section_ = 0) (h : readAnswerHeaders msg r fuel acc = (.ok hs, r')) :
    ∀ x ∈ hs, x.2.section_ = 0 := by
  induction fuel generalizing r acc with
  | zero =>
    simp only [readAnswerHeaders, Prod.mk.injEq, Res.ok.injEq] at h
    intro x hx
    rw [← h.1] at hx
    exact hacc x (by simpa using hx)
  | succ fuel ih =>
    unfold readAnswerHeaders at h
    cases hc : r.recordsCountIn 0 with
    | err e => simp [hc] at h
    | panic p => simp [hc] at h
    | ub => simp [hc] at h
    | ok left =>
      simp only [hc] at h
      by_cases hl : left > 0
      · simp only [hl, if_true] at h
        -- records are left in the answer section and the reader is not done
        have hleft : r.done = false ∧ (r.tr.sec 0).read < (r.tr.sec 0).total := by
          unfold Reader.recordsCountIn at hc
          by_cases hd : r.done = true
          · simp [hd] at hc; omega
          · have hd' : r.done = false := by simpa using hd
            simp only [hd', Bool.not_false, if_true, Tracker.recordsLeftIn, Counts.left] at hc
            split at hc
            · simp at hc
            · simp only [Res.ok.injEq] at hc
              exact ⟨hd', by omega⟩
        cases hh : r.recordHeader msg .ref with
        | mk res r1 =>
          simp only [hh] at h
          cases res with
          | err e => simp at h
          | panic p => simp at h
          | ub => simp at h
          | ok v =>
            obtain ⟨hn, m⟩ := v
            cases hn with
            | none => simp at h
            | owned t => simp at h
            | ref nc =>
              simp only at h
              have hsec : m.section_ = 0 := by
                unfold Reader.recordHeader at hh
                simp only [hleft.1, Bool.false_eq_true, if_false] at hh
                unfold markDone at hh
                cases hi : r.headerImpl msg .ref with
                | mk res2 r2 =>
                  simp only [hi] at hh
                  cases res2 with
                  | ok v2 =>
                    simp only [Prod.mk.injEq, Res.ok.injEq] at hh
                    obtain ⟨hv, _⟩ := hh
                    subst hv
                    exact headerImpl_answer_section msg .ref r r2 _ m hleft.2 hi
                  | err e => simp at hh
                  | panic p => simp at hh
                  | ub => simp at hh
              cases hsk : r1.skipData m with
              | mk res3 r3 =>
                simp only [hsk] at h
                cases res3 with
                | ok u =>
                  exact ih r3 ((nc, m) :: acc) (by
                    intro x hx
                    rcases List.mem_cons.mp hx with rfl | hx
                    · exact hsec
                    · exact hacc x hx) h
                | err e => simp at h
                | panic p => simp at h
                | ub => simp at h
      · simp only [hl, if_false, Prod.mk.injEq, Res.ok.injEq] at h
        intro x hx
        rw [← h.1] at hx
        exact hacc x (by simpa using hx)

/-- **C06.** Whatever `from_msg` returns: a non-empty list of typed data, each the data of an
    ANSWER-section record (section index 0) of type `D::RTYPE` and of the question's class whose owner
    `NameRef::eq`-equals the final name; the set's class is the question's class and its name is the
    decoded final name. Records of the authority / additional sections never contribute. -/
theorem rrset_from_answers (t : RType) (msg : Bytes) (rs : RRSet) (h : fromMsg t msg = .ok rs) :
    ∃ p finalName, fromMsgPrefix msg = .ok p ∧ rs.rclass = p.question.qclass ∧ rs.rdata ≠ [] ∧
      nameRefToName .heap msg finalName = .ok rs.name ∧
      (∀ x ∈ p.headers, x.2.section_ = 0) ∧
      ∀ d ∈ rs.rdata, ∃ hd ∈ p.headers, Selected msg t finalName p.question.qclass hd ∧
        p.reader.dataAt msg t hd.2 = .ok d := by
  unfold fromMsg fromMsgR at h
  cases hp : fromMsgPrefix msg with
  | err e => simp [hp] at h
  | panic pk => simp [hp] at h
  | ub => simp [hp] at h
  | ok p =>
    simp only [hp] at h
    by_cases hrc : p.rcode ≠ 0
    · simp [hrc] at h
    · simp only [hrc, if_false] at h
      cases hf : flattenLoop msg t p.reader p.question.qclass (p.headers.length + 1) p.question.qname
          (p.headers.map some) 0 with
      | err e => simp [hf] at h
      | panic pk => simp [hf] at h
      | ub => simp [hf] at h
      | ok v =>
        obtain ⟨name, ttl, rdata, rounds⟩ := v
        simp only [hf] at h
        cases hn : nameRefToName .heap msg name with
        | err e => simp [hn] at h
        | panic pk => simp [hn] at h
        | ub => simp [hn] at h
        | ok text =>
          simp only [hn, Res.ok.injEq] at h
          subst h
          obtain ⟨f1, f2, _, _⟩ := flatten_sound msg t p.reader p.question.qclass _ _ _ _ _ _ _ _ hf
          refine ⟨p, name, rfl, rfl, f1, hn, ?_, ?_⟩
          · -- the headers come from `read_answer_headers`
            unfold fromMsgPrefix at hp
            cases hnew : Reader.new msg with
            | err e => simp [hnew] at hp
            | panic pk => simp [hnew] at hp
            | ub => simp [hnew] at hp
            | ok mr =>
              simp only [hnew] at hp
              cases hh : mr.header msg with
              | mk res mr1 =>
                simp only [hh] at hp
                cases res <;> try (simp at hp; done)
                rename_i header
                simp only at hp
                split at hp
                · simp at hp
                · split at hp
                  · simp at hp
                  · cases hq : mr1.question msg .theQuestionRef with
                    | mk resq mr2 =>
                      simp only [hq] at hp
                      cases resq <;> try (simp at hp; done)
                      rename_i qo
                      cases qo with
                      | owned q => simp at hp
                      | ref question =>
                        simp only at hp
                        cases ha : readAnswerHeaders msg mr2 (mr2.sFuel 0) [] with
                        | mk resa mr3 =>
                          simp only [ha] at hp
                          cases resa <;> try (simp at hp; done)
                          rename_i headers
                          simp only at hp
                          cases ho : readOpt msg mr3 (mr3.sFuel 0) with
                          | mk reso mr4 =>
                            simp only [ho] at hp
                            cases reso <;> try (simp at hp; done)
                            simp only [Res.ok.injEq] at hp
                            subst hp
                            exact readAnswerHeaders_section msg _ mr2 mr3 [] headers (by simp) ha
          · intro d hd
            obtain ⟨hdr, hmem, hsel, hdat⟩ := f2 d hd
            refine ⟨hdr, ?_, hsel, hdat⟩
            simpa using hmem

end Rsdns.C06
