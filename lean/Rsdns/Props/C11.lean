/-
  Rsdns.Props.C11 — "Queries on the wire are exactly what was asked".

  Proved here, for all inputs: the serializer never writes outside its buffer and never panics
  (whatever the buffer size), an invalid name is refused before anything is sent, the EDNS payload is
  clamped to the receive buffer, UDP bytes = TCP bytes without the 2-byte prefix.
  `query_bytes`: the serializer's output is, byte for byte, length prefix ++ header(id, RD, QD=1, AR=edns)
  ++ wire(name) ++ QTYPE ++ QCLASS (++ OPT) — `Rsdns.Lemmas.Encode.queryMsg`.  That the four clients put
  exactly these bytes on the wire is decided by the `c11` stream (independent encoder in the oracle).
-/
import Rsdns.Lemmas.Encode
import Rsdns.Lemmas.Guards

set_option linter.unusedVariables false

namespace Rsdns.C11

open Rsdns Generated Spec

/-- **the encoder never writes outside its buffer and never panics**, for every buffer size, name,
    type, class and option: on success the returned buffer still has exactly `cap` bytes and the
    message length is within it and covers at least the 2-byte prefix -/
theorem writer_safe (cap id : Nat) (qname : Bytes) (qtype qclass : Nat) (rd : Bool) (opt : Option (Nat × Nat)) :
    (writeQuery cap id qname qtype qclass rd opt).safe ∧
      ∀ buf n, writeQuery cap id qname qtype qclass rd opt = .ok (buf, n) → buf.size = cap ∧ 2 ≤ n ∧ n ≤ cap :=
  writeQuery_safe cap id qname qtype qclass rd opt

/-- **an invalid name is refused before anything is sent**: when the message cannot be built,
    `query_raw` fails with that error and the server sees neither a datagram nor a connection -/
theorem refused_before_send (c : Cfg) (id : Nat) (qname : Bytes) (qtype qclass buflen : Nat)
    (us ts : List (List Item)) (q : List Dgram) (d : Option Nat) (e : Err)
    (hb : ¬ buflen < DNS_MESSAGE_BUFFER_MIN_LENGTH) (hm : prepareMessage c id qname qtype qclass buflen = .err e) :
    let run := queryRaw c id qname qtype qclass buflen us ts q d
    run.result = .err e ∧ run.seen.udp = [] ∧ run.seen.tcp = 0 := by
  intro run
  simp only [run]
  unfold queryRaw
  simp [Cfg.bufTooShort_eq, hb, hm]

/-- **the advertised EDNS payload is min(configured, receive-buffer length)**, and an OPT record is
    asked for exactly when EDNS is on -/
theorem payload_clamp (c : Cfg) (buflen : Nat) :
    (c.edns = none → clientOpt c buflen = none) ∧
    (∀ version payload, c.edns = some (version, payload) →
      clientOpt c buflen = some (version, (Nat.min payload buflen) % 65536)) := by
  unfold clientOpt
  constructor
  · intro h; simp [h]
  · intro v p h; simp [h, Cfg.ups_eq]

/-- both client implementations build the query in a 288-byte buffer -/
theorem query_buffer_sizes : STD_QUERY_BUFFER_SIZE = 288 ∧ ASYNC_QUERY_BUFFER_SIZE = 288 := by decide

/-- **C11 query bytes.**  Whatever `QueryWriter::write` produces is, byte for byte: the 2-octet length
    prefix (message length, big-endian), the 12-octet header (the given ID; flags = RD only; QDCOUNT 1;
    ARCOUNT 1 iff EDNS), the wire form of the asked name, QTYPE, QCLASS, and — with EDNS — the OPT
    pseudo-record with the given version and payload size.  UDP sends `bytes[2..]`, TCP sends all. -/
theorem query_bytes (cap id : Nat) (qname : Bytes) (qtype qclass : Nat) (rd : Bool) (opt : Option (Nat × Nat))
    (buf : Bytes) (len : Nat) (h : writeQuery cap id qname qtype qclass rd opt = .ok (buf, len)) :
    len = 2 + (queryMsg id qname qtype qclass rd opt).size ∧
    buf.extract 0 len = WCur.be ((len - 2) % 65536) 2 ++ queryMsg id qname qtype qclass rd opt := by
  unfold writeQuery at h
  cases hb : queryBody (WCur.new cap) id qname qtype qclass rd opt with
  | ok w =>
    simp only [hb] at h
    obtain ⟨hw, hs⟩ := queryBody_inv _ _ _ _ _ _ _ _ hb
    have hw0 : WCur.written (WCur.new cap) = #[] := by simp [WCur.written, WCur.new]
    rw [hw0, Array.empty_append] at hw
    have hg : Grows (WCur.new cap) w := (queryBody_good (WCur.new cap) id qname qtype qclass rd opt).1.2 w hb
    have hp : w.pos ≤ w.buf.size := hg.2.2 (by simp [WCur.new])
    exact finish_bytes w _ hw hp buf len h
  | err e => simp [hb] at h
  | panic p => simp [hb] at h
  | ub => simp [hb] at h


/-! ### the query-building expressions regenerated from the sources

`prepare_message` (both clients), the caller-buffer gate of `query_raw` (both clients) and the two EDNS
conditions of `ClientConfig::check` are rewritten into `Generated.lean` on every run; the model evaluates
those definitions.  Closed forms: -/

theorem source_expressions (c : Cfg) (payload buflen : Nat) :
    c.ups payload buflen = Nat.min payload buflen % 65536 ∧
    c.bufTooShort buflen = decide (buflen < DNS_MESSAGE_BUFFER_MIN_LENGTH) ∧
    cfg_payload_too_small payload = decide (payload < DNS_MESSAGE_BUFFER_MIN_LENGTH) ∧
    cfg_payload_exceeds_buffer payload buflen = (decide (buflen > 0) && decide (payload > buflen)) :=
  ⟨Cfg.ups_eq c payload buflen, Cfg.bufTooShort_eq c buflen, cfg_payload_too_small_eq payload, cfg_payload_exceeds_buffer_eq payload buflen⟩

/-- a configuration that `check()` accepts never advertises less than 512 octets nor more than a non-zero
    internal buffer holds -/
theorem checked_payload (c : Cfg) (v p : Nat) (he : c.edns = some (v, p)) (hc : c.check = .ok ()) :
    DNS_MESSAGE_BUFFER_MIN_LENGTH ≤ p ∧ (0 < c.cfgbuf → p ≤ c.cfgbuf) := by
  unfold Cfg.check at hc
  rw [he] at hc
  simp only at hc
  rw [cfg_payload_too_small_eq, cfg_payload_exceeds_buffer_eq] at hc
  by_cases h1 : p < DNS_MESSAGE_BUFFER_MIN_LENGTH
  · simp [h1] at hc
  · by_cases h2 : c.cfgbuf > 0 ∧ p > c.cfgbuf
    · simp [h1, h2.1, h2.2] at hc
    · exact ⟨by omega, fun h => by omega⟩

end Rsdns.C11
