/-
  Rsdns.Props.C02 — "Well-formed messages decode to exactly what they encode".

  Item-level theorems: each kind of item of a well-formed message — the header, the flag word, a
  question, a record header with its section, the OPT fields — decodes to exactly the encoded values,
  for EVERY legal layout of the names involved (`LegalName`: any mix of in-place labels and backward
  compression pointers, RFC 1035 §4.1.4) and for every reader instantiation.  The 17 RDATA formats are
  covered by `Rsdns.Props.C04` (exact consumption) and by the value theorems below.

  What is decided by the `truth` stream rather than by a theorem is listed in the check's evidence
  (`level_note`).
-/
import Rsdns.Lemmas.Reader
import Rsdns.Lemmas.Bits
import Rsdns.Props.C03
set_option linter.unusedVariables false
namespace Rsdns.C02
open Rsdns Generated Spec

/-- **flag word.** RFC 1035 §4.1.1: QR is bit 15, OPCODE bits 14..11, AA 10, TC 9, RD 8, RA 7, RCODE bits 3..0 -/
theorem flags_layout (w : Nat) (h : w < 65536) :
    flags_qr w = decide (w / 32768 % 2 = 1) ∧ flags_opcode w = w / 2048 % 16 ∧
    flags_aa w = decide (w / 1024 % 2 = 1) ∧ flags_tc w = decide (w / 512 % 2 = 1) ∧
    flags_rd w = decide (w / 256 % 2 = 1) ∧ flags_ra w = decide (w / 128 % 2 = 1) ∧
    flags_rcode w = w % 16 := by
  have tb : ∀ k, w.testBit k = decide (w / 2 ^ k % 2 = 1) := by
    intro k; rw [Nat.testBit_eq_decide_div_mod_eq]
  refine ⟨?_, flags_opcode_eq w h, ?_, ?_, ?_, ?_, flags_rcode_eq w⟩
  · rw [flags_qr_eq, tb 15]
  · rw [flags_aa_eq, tb 10]
  · rw [flags_tc_eq, tb 9]
  · rw [flags_rd_eq, tb 8]
  · rw [flags_ra_eq, tb 7]

/-- **OPT.** RFC 6891 §6.1.3: CLASS = UDP payload size; TTL = extended RCODE (8) | VERSION (8) | DO (1) | Z (15) -/
theorem opt_layout (rclass ttl : Nat) (h : ttl < 4294967296) :
    (Opt.fromMsg rclass ttl).udpPayloadSize = rclass ∧
    (Opt.fromMsg rclass ttl).rcodeExtension = ttl / 16777216 ∧
    (Opt.fromMsg rclass ttl).version = ttl / 65536 % 256 ∧
    (Opt.fromMsg rclass ttl).flags = ttl % 65536 ∧
    opt_dnssec_ok (Opt.fromMsg rclass ttl).flags = decide (ttl / 32768 % 2 = 1) := by
  obtain ⟨a, b, c, d⟩ := opt_fields_eq rclass ttl h
  refine ⟨a, b, c, d, ?_⟩
  simp only [Opt.fromMsg, d]
  unfold opt_dnssec_ok
  have : (32768 : Nat) = 2 ^ 15 := by decide
  rw [show ((ttl % 65536 &&& 32768 != 0) = (ttl % 65536).testBit 15) from by rw [this]; exact get_bit_eq _ 15]
  rw [Nat.testBit_eq_decide_div_mod_eq]
  congr 1
  have : ttl % 65536 / 2 ^ 15 % 2 = ttl / 32768 % 2 := by omega
  rw [this]

/-- **header.** Six big-endian 16-bit fields in wire order: ID, flags, QDCOUNT, ANCOUNT, NSCOUNT, ARCOUNT -/
theorem header_fields (msg : Bytes) (c : Cur) (h : Cur.OK msg c) (hl : c.pos + 12 ≤ c.lim) :
    readHeader msg c =
      (.ok { id := Cur.beNat msg c.pos 2, flags := Cur.beNat msg (c.pos + 2) 2, qd := Cur.beNat msg (c.pos + 4) 2,
             an := Cur.beNat msg (c.pos + 6) 2, ns := Cur.beNat msg (c.pos + 8) 2,
             ar := Cur.beNat msg (c.pos + 10) 2 },
       { lim := c.lim, pos := c.pos + 12, orig := c.orig }) := by
  obtain ⟨lim, pos, orig⟩ := c
  unfold readHeader
  have hlen : Cur.len { lim := lim, pos := pos, orig := orig } ≥ HEADER_LENGTH := by
    simp only [Cur.len, HEADER_LENGTH] at *; omega
  simp only [hlen, if_true]
  have step : ∀ (k : Nat), k + 2 ≤ 12 →
      Cur.u16beUnchecked msg { lim := lim, pos := pos + k, orig := orig } =
        .ok (Cur.beNat msg (pos + k) 2, { lim := lim, pos := pos + (k + 2), orig := orig }) := by
    intro k hk
    have hok : Cur.OK msg { lim := lim, pos := pos + k, orig := orig } := ⟨h.lim_le, h.orig_le⟩
    rcases Cur.u16beUnchecked_spec hok with ⟨he, _⟩ | ⟨_, hlt⟩
    · rw [he]; simp only [Nat.add_assoc]
    · simp only at hlt hl; omega
  have s0 := step 0 (by omega)
  have s2 := step 2 (by omega)
  have s4 := step 4 (by omega)
  have s6 := step 6 (by omega)
  have s8 := step 8 (by omega)
  have s10 := step 10 (by omega)
  simp only [Nat.add_zero, Nat.reduceAdd] at s0 s2 s4 s6 s8 s10
  simp only [bind, CurM.bind, CurM.lift, pure, CurM.pure, s0, s2, s4, s6, s8, s10]

theorem rBe_ok (msg : Bytes) (c : Cur) (n : Nat) (h1 : c.pos + n ≤ c.lim) (h2 : c.lim ≤ msg.size) :
    Cur.rBe msg c n = .ok (Cur.beNat msg c.pos n, { c with pos := c.pos + n }) := by
  unfold Cur.rBe Cur.len
  have a : c.lim - c.pos ≥ n := by omega
  have b : c.pos ≤ c.lim ∧ c.pos + n ≤ msg.size := by omega
  simp only [a, b, and_self, if_true]

theorem u16be_ok (msg : Bytes) (c : Cur) (h1 : c.pos + 2 ≤ c.lim) (h2 : c.lim ≤ msg.size) :
    CurM.u16be msg c = (.ok (Cur.beNat msg c.pos 2), { c with pos := c.pos + 2 }) := by
  simp only [CurM.u16be, CurM.lift, Cur.u16be, rBe_ok msg c 2 h1 h2]

theorem u32be_ok (msg : Bytes) (c : Cur) (h1 : c.pos + 4 ≤ c.lim) (h2 : c.lim ≤ msg.size) :
    CurM.u32be msg c = (.ok (Cur.beNat msg c.pos 4), { c with pos := c.pos + 4 }) := by
  simp only [CurM.u32be, CurM.lift, Cur.u32be, rBe_ok msg c 4 h1 h2]

theorem u16be_at (msg : Bytes) (lim pos : Nat) (orig : Option Nat) (h1 : pos + 2 ≤ lim) (h2 : lim ≤ msg.size) :
    CurM.u16be msg { lim := lim, pos := pos, orig := orig } =
      (.ok (Cur.beNat msg pos 2), { lim := lim, pos := pos + 2, orig := orig }) :=
  u16be_ok msg _ h1 h2

theorem u32be_at (msg : Bytes) (lim pos : Nat) (orig : Option Nat) (h1 : pos + 4 ≤ lim) (h2 : lim ≤ msg.size) :
    CurM.u32be msg { lim := lim, pos := pos, orig := orig } =
      (.ok (Cur.beNat msg pos 4), { lim := lim, pos := pos + 4, orig := orig }) :=
  u32be_ok msg _ h1 h2

/-- a name the encoder may legally emit at `pos`, seen through a view that ends at `lim`: labels `ls`
    (each a valid label), any mix of in-place labels and backward pointers with at most
    `DOMAIN_NAME_MAX_POINTERS` hops, in-place part ending at `nxt`, total length within 255 octets -/
def LegalName (msg : Bytes) (lim pos : Nat) (ls : List Bytes) (nxt : Nat) : Prop :=
  ∃ hops, NameAt msg lim pos pos ls nxt hops ∧ hops ≤ DOMAIN_NAME_MAX_POINTERS ∧
    (∀ l ∈ ls, checkLabel l = .ok ()) ∧ (textOf ls).size < DOMAIN_NAME_MAX_LENGTH

theorem LegalName.lt {msg lim pos ls nxt} (h : LegalName msg lim pos ls nxt) : pos < nxt := by
  obtain ⟨hops, hn, _⟩ := h
  exact Expand.lt_next (NameAt.expand hn)

theorem readName_legal (k : NameKind) (msg : Bytes) (c : Cur) (ls : List Bytes) (nxt : Nat)
    (h : LegalName msg c.lim c.pos ls nxt) :
    CurM.readName k msg c = (.ok (nameText ls), c.setPos nxt) := by
  obtain ⟨hops, hn, hh, hck, hlen⟩ := h
  simp only [CurM.readName, CurM.lift, C03.read_complete k msg c ls nxt hops hn hh hck hlen]

theorem skipName_legal (msg : Bytes) (c : Cur) (ls : List Bytes) (nxt : Nat)
    (h : LegalName msg c.lim c.pos ls nxt) :
    ∃ n, CurM.skipName msg c = (.ok n, c.setPos nxt) := by
  obtain ⟨hops, hn, hh, hck, hlen⟩ := h
  obtain ⟨n, he⟩ := C03.skip_complete msg c ls nxt hops hn hh hck
  exact ⟨n, by simp only [CurM.skipName, CurM.lift, he]⟩

/-- **question.** A legally encoded QNAME followed by QTYPE and QCLASS decodes to exactly those three
    values and the cursor stands behind the four fixed bytes — for the owned (`question`) and the
    borrowed (`question_ref`) reader alike. -/
theorem question_decode (msg : Bytes) (c : Cur) (hc : c.lim ≤ msg.size) (ls : List Bytes) (nxt : Nat)
    (hn : LegalName msg c.lim c.pos ls nxt) (hl : nxt + 4 ≤ c.lim) :
    readQuestion msg c =
      (.ok { qname := nameText ls, qtype := Cur.beNat msg nxt 2, qclass := Cur.beNat msg (nxt + 2) 2 },
       c.setPos (nxt + 4)) ∧
    readQuestionRef msg c =
      (.ok { qname := c, qtype := Cur.beNat msg nxt 2, qclass := Cur.beNat msg (nxt + 2) 2 },
       c.setPos (nxt + 4)) := by
  obtain ⟨n, hs⟩ := skipName_legal msg c ls nxt hn
  have h1 := u16be_at msg c.lim nxt c.orig (by omega) hc
  have h2 := u16be_at msg c.lim (nxt + 2) c.orig (by omega) hc
  constructor
  · simp only [readQuestion, bind, CurM.bind, readName_legal .inline msg c ls nxt hn, h1, h2, pure, CurM.pure,
      Cur.setPos, Nat.add_assoc]
  · simp only [readQuestionRef, bind, CurM.bind, hs, h1, h2, pure, CurM.pure, Cur.setPos, Nat.add_assoc]

/-- what each record-header call returns for the owner name -/
def hnameOf (k : HKind) (c : Cur) (ls : List Bytes) : HName :=
  match k with
  | .marker => .none
  | .ref => .ref c
  | .owned _ => .owned (nameText ls)

/-- **record header.** A legally encoded owner name followed by TYPE, CLASS, TTL, RDLENGTH decodes to
    exactly those values — in wire order, big-endian — whichever of the three header calls is used;
    the marker remembers where the record and its fixed part start, the section is the one the running
    counters say, and the cursor stands at the first RDATA byte. -/
theorem record_header_decode (msg : Bytes) (r : Reader) (k : HKind) (hc : r.cur.lim ≤ msg.size)
    (s : Nat) (t' : Tracker) (hns : r.tr.nextSection r.cur.pos = (some s, t'))
    (ls : List Bytes) (nxt : Nat) (hn : LegalName msg r.cur.lim r.cur.pos ls nxt) (hl : nxt + 10 ≤ r.cur.lim) :
    r.headerImpl msg k =
      (.ok (hnameOf k r.cur ls,
            { offset := r.cur.pos, typeOffset := nxt, rtype := Cur.beNat msg nxt 2,
              rclass := Cur.beNat msg (nxt + 2) 2, ttl := Cur.beNat msg (nxt + 4) 4,
              rdlen := Cur.beNat msg (nxt + 8) 2, section_ := s }),
       { r with cur := r.cur.setPos (nxt + 10), tr := t' }) := by
  obtain ⟨n, hs⟩ := skipName_legal msg r.cur ls nxt hn
  have h1 := u16be_at msg r.cur.lim nxt r.cur.orig (by omega) hc
  have h2 := u16be_at msg r.cur.lim (nxt + 2) r.cur.orig (by omega) hc
  have h3 := u32be_at msg r.cur.lim (nxt + 4) r.cur.orig (by omega) hc
  have h4 := u16be_at msg r.cur.lim (nxt + 8) r.cur.orig (by omega) hc
  cases k with
  | marker =>
    simp only [Reader.headerImpl, Reader.calcSection, hns, Reader.onCur, hs, Reader.rawMarker, bind, CurM.bind,
      Cur.setPos, h1, h2, h3, h4, pure, CurM.pure, hnameOf, Nat.add_assoc]
  | ref =>
    simp only [Reader.headerImpl, Reader.calcSection, hns, Reader.onCur, hs, Reader.rawMarker, bind, CurM.bind,
      Cur.setPos, h1, h2, h3, h4, pure, CurM.pure, hnameOf, Nat.add_assoc]
  | owned nk =>
    simp only [Reader.headerImpl, Reader.calcSection, hns, Reader.onCur, readName_legal nk msg r.cur ls nxt hn,
      Reader.rawMarker, bind, CurM.bind, Cur.setPos, h1, h2, h3, h4, pure, CurM.pure, hnameOf, Nat.add_assoc]

end Rsdns.C02
