/-
  Rsdns.Props.C02 — "Well-formed messages decode to exactly what they encode".

  Item-level theorems: each kind of item of a well-formed message — the header, the flag word, a
  question, a record header with its section, the OPT fields — decodes to exactly the encoded values,
  for EVERY legal layout of the names involved (`LegalName`: any mix of in-place labels and backward
  compression pointers, RFC 1035 §4.1.4) and for every reader instantiation.  The 17 RDATA formats are
  covered by `Rsdns.Props.C04` (exact consumption) and by the value theorems below.

  What is decided by the `truth` stream rather than by a theorem is listed in the check's evidence
  (`level_note`).
-/
import Rsdns.Lemmas.Decode
import Rsdns.Lemmas.Bits
set_option linter.unusedVariables false
namespace Rsdns.C02
open Rsdns Generated Spec

/-- **flag word.** RFC 1035 §4.1.1: QR is bit 15, OPCODE bits 14..11, AA 10, TC 9, RD 8, RA 7, RCODE bits 3..0 -/
theorem flags_layout (w : Nat) (h : w < 65536) :
    flags_qr w = decide (w / 32768 % 2 = 1) ∧ flags_opcode w = w / 2048 % 16 ∧
    flags_aa w = decide (w / 1024 % 2 = 1) ∧ flags_tc w = decide (w / 512 % 2 = 1) ∧
    flags_rd w = decide (w / 256 % 2 = 1) ∧ flags_ra w = decide (w / 128 % 2 = 1) ∧
    flags_rcode w = w % 16 := by
  have tb : ∀ k, w.testBit k = decide (w / 2 ^ k % 2 = 1) := by
    intro k; rw [Nat.testBit_eq_decide_div_mod_eq]
  refine ⟨?_, flags_opcode_eq w h, ?_, ?_, ?_, ?_, flags_rcode_eq w⟩
  · rw [flags_qr_eq, tb 15]
  · rw [flags_aa_eq, tb 10]
  · rw [flags_tc_eq, tb 9]
  · rw [flags_rd_eq, tb 8]
  · rw [flags_ra_eq, tb 7]

/-- **OPT.** RFC 6891 §6.1.3: CLASS = UDP payload size; TTL = extended RCODE (8) | VERSION (8) | DO (1) | Z (15) -/
theorem opt_layout (rclass ttl : Nat) (h : ttl < 4294967296) :
    (Opt.fromMsg rclass ttl).udpPayloadSize = rclass ∧
    (Opt.fromMsg rclass ttl).rcodeExtension = ttl / 16777216 ∧
    (Opt.fromMsg rclass ttl).version = ttl / 65536 % 256 ∧
    (Opt.fromMsg rclass ttl).flags = ttl % 65536 ∧
    opt_dnssec_ok (Opt.fromMsg rclass ttl).flags = decide (ttl / 32768 % 2 = 1) := by
  obtain ⟨a, b, c, d⟩ := opt_fields_eq rclass ttl h
  refine ⟨a, b, c, d, ?_⟩
  simp only [Opt.fromMsg, d]
  unfold opt_dnssec_ok
  have : (32768 : Nat) = 2 ^ 15 := by decide
  rw [show ((ttl % 65536 &&& 32768 != 0) = (ttl % 65536).testBit 15) from by rw [this]; exact get_bit_eq _ 15]
  rw [Nat.testBit_eq_decide_div_mod_eq]
  congr 1
  have : ttl % 65536 / 2 ^ 15 % 2 = ttl / 32768 % 2 := by omega
  rw [this]

/-- **header.** Six big-endian 16-bit fields in wire order: ID, flags, QDCOUNT, ANCOUNT, NSCOUNT, ARCOUNT -/
theorem header_fields (msg : Bytes) (c : Cur) (h : Cur.OK msg c) (hl : c.pos + 12 ≤ c.lim) :
    readHeader msg c =
      (.ok { id := Cur.beNat msg c.pos 2, flags := Cur.beNat msg (c.pos + 2) 2, qd := Cur.beNat msg (c.pos + 4) 2,
             an := Cur.beNat msg (c.pos + 6) 2, ns := Cur.beNat msg (c.pos + 8) 2,
             ar := Cur.beNat msg (c.pos + 10) 2 },
       { lim := c.lim, pos := c.pos + 12, orig := c.orig }) := by
  obtain ⟨lim, pos, orig⟩ := c
  unfold readHeader
  have hlen : Cur.len { lim := lim, pos := pos, orig := orig } ≥ HEADER_LENGTH := by
    simp only [Cur.len, HEADER_LENGTH] at *; omega
  simp only [hlen, if_true]
  have step : ∀ (k : Nat), k + 2 ≤ 12 →
      Cur.u16beUnchecked msg { lim := lim, pos := pos + k, orig := orig } =
        .ok (Cur.beNat msg (pos + k) 2, { lim := lim, pos := pos + (k + 2), orig := orig }) := by
    intro k hk
    have hok : Cur.OK msg { lim := lim, pos := pos + k, orig := orig } := ⟨h.lim_le, h.orig_le⟩
    rcases Cur.u16beUnchecked_spec hok with ⟨he, _⟩ | ⟨_, hlt⟩
    · rw [he]; simp only [Nat.add_assoc]
    · simp only at hlt hl; omega
  have s0 := step 0 (by omega)
  have s2 := step 2 (by omega)
  have s4 := step 4 (by omega)
  have s6 := step 6 (by omega)
  have s8 := step 8 (by omega)
  have s10 := step 10 (by omega)
  simp only [Nat.add_zero, Nat.reduceAdd] at s0 s2 s4 s6 s8 s10
  simp only [bind, CurM.bind, CurM.lift, pure, CurM.pure, s0, s2, s4, s6, s8, s10]

/-- **question.** A legally encoded QNAME followed by QTYPE and QCLASS decodes to exactly those three
    values and the cursor stands behind the four fixed bytes — for the owned (`question`) and the
    borrowed (`question_ref`) reader alike. -/
theorem question_decode (msg : Bytes) (c : Cur) (hc : c.lim ≤ msg.size) (ls : List Bytes) (nxt : Nat)
    (hn : LegalName msg c.lim c.pos ls nxt) (hl : nxt + 4 ≤ c.lim) :
    readQuestion msg c =
      (.ok { qname := nameText ls, qtype := Cur.beNat msg nxt 2, qclass := Cur.beNat msg (nxt + 2) 2 },
       c.setPos (nxt + 4)) ∧
    readQuestionRef msg c =
      (.ok { qname := c, qtype := Cur.beNat msg nxt 2, qclass := Cur.beNat msg (nxt + 2) 2 },
       c.setPos (nxt + 4)) := by
  obtain ⟨n, hs⟩ := skipName_legal msg c ls nxt hn
  have h1 := u16be_at msg c.lim nxt c.orig (by omega) hc
  have h2 := u16be_at msg c.lim (nxt + 2) c.orig (by omega) hc
  constructor
  · simp only [readQuestion, bind, CurM.bind, readName_legal .inline msg c ls nxt hn, h1, h2, pure, CurM.pure,
      Cur.setPos, Nat.add_assoc]
  · simp only [readQuestionRef, bind, CurM.bind, hs, h1, h2, pure, CurM.pure, Cur.setPos, Nat.add_assoc]

/-- what each record-header call returns for the owner name -/
def hnameOf (k : HKind) (c : Cur) (ls : List Bytes) : HName :=
  match k with
  | .marker => .none
  | .ref => .ref c
  | .owned _ => .owned (nameText ls)

/-- **record header.** A legally encoded owner name followed by TYPE, CLASS, TTL, RDLENGTH decodes to
    exactly those values — in wire order, big-endian — whichever of the three header calls is used;
    the marker remembers where the record and its fixed part start, the section is the one the running
    counters say, and the cursor stands at the first RDATA byte. -/
theorem record_header_decode (msg : Bytes) (r : Reader) (k : HKind) (hc : r.cur.lim ≤ msg.size)
    (s : Nat) (t' : Tracker) (hns : r.tr.nextSection r.cur.pos = (some s, t'))
    (ls : List Bytes) (nxt : Nat) (hn : LegalName msg r.cur.lim r.cur.pos ls nxt) (hl : nxt + 10 ≤ r.cur.lim) :
    r.headerImpl msg k =
      (.ok (hnameOf k r.cur ls,
            { offset := r.cur.pos, typeOffset := nxt, rtype := Cur.beNat msg nxt 2,
              rclass := Cur.beNat msg (nxt + 2) 2, ttl := Cur.beNat msg (nxt + 4) 4,
              rdlen := Cur.beNat msg (nxt + 8) 2, section_ := s }),
       { r with cur := r.cur.setPos (nxt + 10), tr := t' }) := by
  obtain ⟨n, hs⟩ := skipName_legal msg r.cur ls nxt hn
  have h1 := u16be_at msg r.cur.lim nxt r.cur.orig (by omega) hc
  have h2 := u16be_at msg r.cur.lim (nxt + 2) r.cur.orig (by omega) hc
  have h3 := u32be_at msg r.cur.lim (nxt + 4) r.cur.orig (by omega) hc
  have h4 := u16be_at msg r.cur.lim (nxt + 8) r.cur.orig (by omega) hc
  cases k with
  | marker =>
    simp only [Reader.headerImpl, Reader.calcSection, hns, Reader.onCur, hs, Reader.rawMarker, bind, CurM.bind,
      Cur.setPos, h1, h2, h3, h4, pure, CurM.pure, hnameOf, Nat.add_assoc]
  | ref =>
    simp only [Reader.headerImpl, Reader.calcSection, hns, Reader.onCur, hs, Reader.rawMarker, bind, CurM.bind,
      Cur.setPos, h1, h2, h3, h4, pure, CurM.pure, hnameOf, Nat.add_assoc]
  | owned nk =>
    simp only [Reader.headerImpl, Reader.calcSection, hns, Reader.onCur, readName_legal nk msg r.cur ls nxt hn,
      Reader.rawMarker, bind, CurM.bind, Cur.setPos, h1, h2, h3, h4, pure, CurM.pure, hnameOf, Nat.add_assoc]

/-- **RDATA.** For each of the 17 typed formats: RDATA bytes that encode `v` (`RDataAt`), announced with
    their exact length, decode to `v`, and the cursor stands right behind them with the window closed. -/
theorem rdata_decode (msg : Bytes) (t : RType) (p n : Nat) (v : RData) (lim : Nat) (h : RDataAt msg t p n v)
    (h1 : p + n ≤ lim) (h2 : lim ≤ msg.size) :
    readRData t msg n { lim := lim, pos := p, orig := none } = (.ok v, { lim := lim, pos := p + n, orig := none }) := by
  apply readRData_of_body t msg lim p n v h1 h2
  have hW : p + n ≤ msg.size := by omega
  cases h with
  | a =>
    simp only [readRDataBody, bind, CurM.bind, u32be_at msg (p + 4) p (some lim) (by omega) hW, pure, CurM.pure]
  | aaaa =>
    simp only [readRDataBody, bind, CurM.bind, u128be_at msg (p + 16) p (some lim) (by omega) hW, pure, CurM.pure]
  | dn _ _ _ ls hdn hn =>
    have hr := readName_at .heap msg (p + n) p (some lim) ls (p + n) hn
    cases t <;> simp only [RType.isDn] at hdn <;> try (exact absurd hdn (by decide))
    all_goals simp only [readRDataBody, bind, CurM.bind, hr, pure, CurM.pure]
  | soa _ _ l1 l2 n1 n2 hn1 hn2 he =>
    have hr1 := readName_at .heap msg (p + n) p (some lim) l1 n1 hn1
    have hr2 := readName_at .heap msg (p + n) n1 (some lim) l2 n2 hn2
    have u0 := u32be_at msg (p + n) n2 (some lim) (by omega) hW
    have u1 := u32be_at msg (p + n) (n2 + 4) (some lim) (by omega) hW
    have u2 := u32be_at msg (p + n) (n2 + 8) (some lim) (by omega) hW
    have u3 := u32be_at msg (p + n) (n2 + 12) (some lim) (by omega) hW
    have u4 := u32be_at msg (p + n) (n2 + 16) (some lim) (by omega) hW
    have e20 : n2 + 16 + 4 = p + n := by omega
    simp only [readRDataBody, bind, CurM.bind, hr1, hr2, u0, u1, u2, u3, u4, pure, CurM.pure, Nat.add_assoc,
      Nat.reduceAdd] at *
    simp only [e20, he]
  | null =>
    simp only [readRDataBody, bind, CurM.bind, slice_at msg (p + n) p n (some lim) (Nat.le_refl _) hW, pure,
      CurM.pure]
  | wks _ _ h5 =>
    have u0 := u32be_at msg (p + n) p (some lim) (by omega) hW
    have b0 := u8_at msg (p + n) (p + 4) (some lim) (by omega) hW
    have s0 := slice_at msg (p + n) (p + 4 + 1) (n - 5) (some lim) (by omega) hW
    have hlt : ¬ n < 5 := by omega
    have e : p + 4 + 1 + (n - 5) = p + n := by omega
    simp only [readRDataBody, bind, CurM.bind, u0, b0, hlt, if_false, s0, pure, CurM.pure, e, Nat.add_assoc,
      Nat.reduceAdd]
  | hinfo _ _ he =>
    have b0 := u8_at msg (p + n) p (some lim) (by omega) hW
    have s0 := slice_at msg (p + n) (p + 1) (msg.getD p 0).toNat (some lim) (by omega) hW
    have b1 := u8_at msg (p + n) (p + 1 + (msg.getD p 0).toNat) (some lim) (by omega) hW
    have s1 := slice_at msg (p + n) (p + 1 + (msg.getD p 0).toNat + 1)
      (msg.getD (p + 1 + (msg.getD p 0).toNat) 0).toNat (some lim) (by omega) hW
    have e1 : p + 1 + (msg.getD p 0).toNat + 1 = p + 2 + (msg.getD p 0).toNat := by omega
    rw [e1] at s1
    simp only [readRDataBody, readCharString, bind, CurM.bind, b0, s0, b1, e1, s1, pure, CurM.pure, he]
  | minfo _ _ l1 l2 n1 hn1 hn2 =>
    have hr1 := readName_at .heap msg (p + n) p (some lim) l1 n1 hn1
    have hr2 := readName_at .heap msg (p + n) n1 (some lim) l2 (p + n) hn2
    simp only [readRDataBody, bind, CurM.bind, hr1, hr2, pure, CurM.pure]
  | mx _ _ ls hn =>
    have hlt := hn.lt
    have u0 := u16be_at msg (p + n) p (some lim) (by omega) hW
    have hr := readName_at .heap msg (p + n) (p + 2) (some lim) ls (p + n) hn
    simp only [readRDataBody, bind, CurM.bind, u0, hr, pure, CurM.pure]
  | txt _ _ ss hcs =>
    have := txtLoop_strings msg (p + n) (some lim) hW ss p #[] hcs
    have e : p + n - p = n := by omega
    rw [e] at this
    simp only [readRDataBody, bind, CurM.bind, this, pure, CurM.pure, Array.empty_append]


end Rsdns.C02
