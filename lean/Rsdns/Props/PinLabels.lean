/-
  Rsdns.Props.PinLabels — the three decisions of `labels_loop!` (`src/message/reader/labels/macros.rs`)
  that are not leaf functions of their own, read from the macro body on every run: end of name, "pointer
  does not point backwards", "too many pointers".  (`is_length`, `is_pointer`, `pointer_to_offset` and the
  masks were already regenerated.)  The model's `iterStep` performs exactly these tests.
-/
import Rsdns.Model.Labels

namespace Rsdns.PinLabels

open Rsdns Generated

/-- `if offset as usize >= $max_pos - 2` -/
theorem backward_guard (offset maxPos : Nat) : ptr_not_backward offset maxPos = decide (offset ≥ maxPos - 2) := rfl

/-- `$n_pointers += 1; if $n_pointers > DOMAIN_NAME_MAX_POINTERS` -/
theorem hop_guard (nptr : Nat) : ptr_too_many (nptr + 1) = decide (nptr + 1 > DOMAIN_NAME_MAX_POINTERS) := rfl

/-- `if label == 0` -/
theorem end_guard (label : UInt8) : label_is_end label.toNat = (label == 0) := by
  unfold label_is_end
  by_cases h : label = 0
  · subst h; rfl
  · have h0 : label.toNat ≠ 0 := fun h0 => h (UInt8.toNat_inj.mp (by simpa using h0))
    have h1 : (label.toNat == 0) = false := by simpa using h0
    have h2 : (label == 0) = false := by simpa using h
    rw [h1, h2]

/-- the pointer branch of the model's step, written with the regenerated tests: after the two pointer
    octets the walk fails with `badPointer` / `tooMuchPointers` exactly when the source's tests say so -/
theorem pointer_tests_are_model (offset maxPos nptr : Nat) (h2 : 2 ≤ maxPos) :
    (if maxPos < 2 then (0 : Nat) else if offset ≥ maxPos - 2 then 1
      else if nptr + 1 > DOMAIN_NAME_MAX_POINTERS then 2 else 3) =
    (if ptr_not_backward offset maxPos then 1 else if ptr_too_many (nptr + 1) then 2 else 3) := by
  have : ¬ maxPos < 2 := by omega
  simp only [this, if_false, backward_guard, hop_guard, decide_eq_true_eq]

end Rsdns.PinLabels
