/-
  Rsdns.Props.C08 — "All views of a message agree".

  Proved here (for all byte strings and positions): the two owned-name readers are the same function;
  skipping a name succeeds wherever reading it does and resumes at the same place; reading fails
  only with the length limit where skipping succeeds.  Since every view is built from these two
  primitives plus the shared fixed-field reads, these are the facts behind "a view that decodes more
  never succeeds where a view that decodes less fails".
  `nameref_eq_decoded`: NameRef::eq — same-offset shortcut included — answers exactly what `==` answers on
  the decoded names, whenever both can be decoded (helper lemmas: Rsdns/Lemmas/NameRef.lean).
  Open items, decided on the implementation by the `views` oracle (tools/props.py: views_oracle) and tied to
  the model by correspondence:
    * at_eq_seq   : sequential typed/raw data = marker-based random access on the same marker
                    (for typed data this is C10.at_closed_form + C04; not restated here);
    * iter_vs_hd  : MessageIterator's records = the cursor reader's records restricted to defined types/classes.
-/
import Rsdns.Lemmas.Safety
import Rsdns.Lemmas.NameRef

set_option linter.unusedVariables false

namespace Rsdns.C08

open Rsdns Generated Spec

/-- the decode-path `append_label_bytes` of `Name` and of `InlineName` are the same function: both
    reject exactly the labels that would push the wire form beyond 255 octets, with the same payload;
    the `ArrayString` capacity tests of `InlineName` can never fire after that test -/
theorem append_kinds_agree (name l : Bytes) : appendLabelBytes .heap name l = appendLabelBytes .inline name l := by
  unfold appendLabelBytes
  cases hck : checkLabel l with
  | err e => rfl
  | panic p => rfl
  | ub => rfl
  | ok u =>
    simp only
    by_cases hascii : (l.all fun b => decide (b.toNat < 128)) = true
    · simp only [hascii, not_true_eq_false, if_false]
      by_cases hlen : name.size + l.size + 1 ≥ DOMAIN_NAME_MAX_LENGTH
      · simp only [hlen, if_true]
      · have h1 : ¬ (name.size + l.size > INLINE_CAP) := by unfold INLINE_CAP; omega
        have h2 : ¬ ((name ++ l).size + 1 > INLINE_CAP) := by
          unfold INLINE_CAP; simp only [Array.size_append]; omega
        simp only [hlen, h1, h2, if_false]
    · have : (l.all fun b => decide (b.toNat < 128)) = false := by simpa using hascii
      simp only [this]
      rfl

/-- the loop depends on its mode only through the per-label action -/
theorem walk_congr_mode (msg : Bytes) (m1 m2 : Mode) (hm : ∀ a b, m1.onLabel a b = m2.onLabel a b)
    (s : LSt) (acc : Bytes) (ls : List Bytes) (n : Nat) :
    walk msg m1 s acc ls n = walk msg m2 s acc ls n := by
  fun_induction walk msg m1 s acc ls n with
  | case1 s acc ls n e hst =>
    conv => rhs; rw [walk]
    split <;> simp_all
  | case2 s acc ls n p hst =>
    conv => rhs; rw [walk]
    split <;> simp_all
  | case3 s acc ls n hst =>
    conv => rhs; rw [walk]
    split <;> simp_all
  | case4 s acc ls n s' hst =>
    conv => rhs; rw [walk]
    split <;> simp_all
  | case5 s acc ls n bytes p s' hst e hon =>
    conv => rhs; rw [walk]
    rw [hm] at hon
    split <;> simp_all
  | case6 s acc ls n bytes p s' hst pk hon =>
    conv => rhs; rw [walk]
    rw [hm] at hon
    split <;> simp_all
  | case7 s acc ls n bytes p s' hst hon =>
    conv => rhs; rw [walk]
    rw [hm] at hon
    split <;> simp_all
  | case8 s acc ls n bytes p s' hst acc' hon ih =>
    conv => rhs; rw [walk]
    rw [hm] at hon
    split <;> simp_all
  | case9 s acc ls n s' hst ih =>
    conv => rhs; rw [walk]
    split <;> simp_all

theorem walk_kinds_agree (msg : Bytes) (s : LSt) (acc : Bytes) (ls : List Bytes) (n : Nat) :
    walk msg (.read .heap) s acc ls n = walk msg (.read .inline) s acc ls n :=
  walk_congr_mode msg _ _ (fun a b => by simp only [Mode.onLabel]; exact append_kinds_agree a b) s acc ls n

/-- **owned names of either type**: `read_domain_name::<Name>` and `read_domain_name::<InlineName>`
    return the same text and the same resume position, or the same error, on every input -/
theorem read_kinds_agree (msg : Bytes) (c : Cur) : readName .heap msg c = readName .inline msg c := by
  unfold readName
  rw [walk_kinds_agree]

/-- the read loop and the skip loop walk the same path: same resume position, same labels, as long as
    the read loop's length test does not fire -/
theorem walk_skip_of_read (msg : Bytes) (k : NameKind) (s : LSt) (acc : Bytes) (ls : List Bytes) (n : Nat)
    (o : WalkOut) (h : walk msg (.read k) s acc ls n = .ok o) :
    ∀ acc2, ∃ o2, walk msg .skip s acc2 ls n = .ok o2 ∧ o2.maxPos = o.maxPos ∧ o2.labels = o.labels := by
  generalize hm : Mode.read k = m at h
  fun_induction walk msg m s acc ls n with
  | case1 => simp at h
  | case2 => simp at h
  | case3 => simp at h
  | case4 s acc ls n s' hst =>
    intro acc2
    simp only [Res.ok.injEq] at h
    subst h
    refine ⟨{ text := acc2, labels := ls.reverse, maxPos := s'.maxPos, steps := n + 1 }, ?_, rfl, rfl⟩
    rw [walk]
    split <;> simp_all
  | case5 => simp at h
  | case6 => simp at h
  | case7 => simp at h
  | case8 s acc ls n bytes p s' hst acc' hon ih =>
    intro acc2
    subst hm
    have hck := (Mode.onLabel_read_ok hon).2.1
    obtain ⟨o2, h2, hmp, hl⟩ := ih h acc2
    refine ⟨o2, ?_, hmp, hl⟩
    rw [walk]
    split <;> simp_all [Mode.onLabel]
  | case9 s acc ls n s' hst ih =>
    intro acc2
    obtain ⟨o2, h2, hmp, hl⟩ := ih h acc2
    refine ⟨o2, ?_, hmp, hl⟩
    rw [walk]
    split <;> simp_all

/-- **decoding less never fails where decoding more succeeds**: wherever an owned name can be read, the
    name can be skipped, and the cursor resumes at the same position -/
theorem skip_of_read (k : NameKind) (msg : Bytes) (c c' : Cur) (text : Bytes) (h : readName k msg c = .ok (text, c')) :
    ∃ n, skipName msg c = .ok (n, c') := by
  unfold readName at h
  split at h <;> try (simp at h; done)
  rename_i o hw
  simp only [Res.ok.injEq, Prod.mk.injEq] at h
  obtain ⟨o2, h2, hmp, _⟩ := walk_skip_of_read msg k _ #[] [] 0 o hw #[]
  obtain ⟨ls, hex, _, _, _, _⟩ := C03.read_sound k msg c c' text (by
    unfold readName; rw [hw]; simp only [Res.ok.injEq, Prod.mk.injEq]; exact h)
  have hlt := Expand.lt_next hex
  unfold skipName
  rw [h2]
  have hc' : c'.pos = o.maxPos := by rw [← h.2]; rfl
  have : ¬ (o2.maxPos < c.pos) := by rw [hmp, ← hc']; omega
  simp only [this, if_false]
  exact ⟨_, by rw [hmp, h.2]⟩

/-- **NameRef::eq.** When both names can be iterated without error, `NameRef::eq` answers whether their
    label sequences are equal label by label, ASCII-case-insensitively — the same-offset shortcut
    included. -/
theorem nameRefEqLoop_spec (msg : Bytes) (a b : Labels) (ra rb : List LabelRef)
    (ha : Yields msg a ra) (hb : Yields msg b rb) :
    nameRefEqLoop msg msg a b = .ok (.ok (eqLabels (ra.map (·.bytes)) (rb.map (·.bytes)))) := by
  induction ha generalizing b rb with
  | done a hd =>
    rw [nameRefEqLoop]
    simp only [hd, dite_true]
    rcases hb.next with ⟨rfl, l', hn⟩ | ⟨lab, s', rest, rfl, hn, _, _⟩
    · simp [hn, eqLabels]
    · simp [hn, eqLabels]
  | none a s' hd hn =>
    rw [nameRefEqLoop]
    simp only [hd, Bool.false_eq_true, dite_false]
    split
    · rename_i h; rw [hn] at h; cases h
    · rename_i h; rw [hn] at h; cases h
    · rename_i h; rw [hn] at h; cases h
    · rcases hb.next with ⟨rfl, l', hnb⟩ | ⟨lab, sb, rest, rfl, hnb, _, _⟩
      · simp [hnb, eqLabels]
      · simp [hnb, eqLabels]
    · rename_i ml sa h; rw [hn] at h; cases h
  | cons a ml sa rest hd hn hy ih =>
    rw [nameRefEqLoop]
    simp only [hd, Bool.false_eq_true, dite_false]
    split
    · rename_i h; rw [hn] at h; cases h
    · rename_i h; rw [hn] at h; cases h
    · rename_i h; rw [hn] at h; cases h
    · rename_i h; rw [hn] at h; cases h
    · rename_i ml' sa' h
      rw [hn] at h
      simp only [Res.ok.injEq, Prod.mk.injEq, Option.some.injEq] at h
      obtain ⟨rfl, rfl⟩ := h
      rcases hb.next with ⟨rfl, l', hnb⟩ | ⟨ol, sb, restb, rfl, hnb, hnb', hyb⟩
      · simp [hnb, eqLabels]
      · simp only [hnb]
        by_cases hp : ml.pos = ol.pos
        · obtain ⟨e1, e2⟩ := same_pos_same_rest hn hnb' hy hyb hp
          simp only [hp, if_true, List.map_cons, e1, e2, eqLabels_refl]
        · simp only [hp, if_false]
          by_cases he : eqIgnoreCase ml.bytes ol.bytes = true
          · simp only [he, Bool.not_true, Bool.false_eq_true, if_false, List.map_cons, eqLabels, Bool.true_and]
            exact ih _ _ hyb
          · have he' : eqIgnoreCase ml.bytes ol.bytes = false := by simpa using he
            simp [he', eqLabels]

/-- **label-wise equality is equality of the decoded names.**  For label sequences whose labels are
    non-empty and dot-free (every label that passes `check_label_bytes` is), comparing label by label,
    ASCII-case-insensitively, gives the same verdict as `==` on the decoded `Name`/`InlineName` values. -/
theorem eqLabels_iff_nameEq (la lb : List Bytes) (ha : ∀ l ∈ la, NoDot l ∧ 0 < l.size)
    (hb : ∀ l ∈ lb, NoDot l ∧ 0 < l.size) :
    eqLabels la lb = nameEq (nameText la) (nameText lb) := by
  have key := eqLabels_textOf la lb (fun l hl => (ha l hl).1) (fun l hl => (hb l hl).1)
  have hiff : eqLabels la lb = true ↔ nameEq (nameText la) (nameText lb) = true := by
    unfold nameEq
    rw [eqIgnoreCase_iff]
    cases la with
    | nil =>
      cases lb with
      | nil => simp [eqLabels, nameText]
      | cons b bs =>
        have hb0 := hb b (by simp)
        simp only [eqLabels, nameText, List.isEmpty_nil, if_true, List.isEmpty_cons, Bool.false_eq_true, if_false,
          false_iff]
        intro h
        rw [textOf_toList] at h
        have h' : lowerL ([] ++ 46 :: []) = lowerL (b.toList ++ 46 :: (textOf bs).toList) := h
        rw [lower_split [] b.toList [] _ (by simp) hb0.1] at h'
        have hlen := congrArg List.length h'.1
        simp only [lowerL, List.length_map, List.length_nil, Array.length_toList] at hlen
        omega
    | cons a as =>
      cases lb with
      | nil =>
        have ha0 := ha a (by simp)
        simp only [eqLabels, nameText, List.isEmpty_nil, if_true, List.isEmpty_cons, Bool.false_eq_true, if_false,
          false_iff]
        intro h
        rw [textOf_toList] at h
        have h' : lowerL (a.toList ++ 46 :: (textOf as).toList) = lowerL ([] ++ 46 :: []) := h
        rw [lower_split a.toList [] _ [] ha0.1 (by simp)] at h'
        have hlen := congrArg List.length h'.1
        simp only [lowerL, List.length_map, List.length_nil, Array.length_toList] at hlen
        omega
      | cons b bs =>
        simp only [nameText, List.isEmpty_cons, Bool.false_eq_true, if_false]
        exact key
  cases h1 : eqLabels la lb <;> cases h2 : nameEq (nameText la) (nameText lb) <;> simp_all


/-- **NameRef::eq, on cursors.** -/
theorem nameref_eq (msg : Bytes) (ca cb : Cur) (ra rb : List LabelRef)
    (ha : Yields msg (Labels.new ca) ra) (hb : Yields msg (Labels.new cb) rb) :
    nameRefEq msg msg ca cb = .ok (.ok (eqLabels (ra.map (·.bytes)) (rb.map (·.bytes)))) :=
  nameRefEqLoop_spec msg _ _ ra rb ha hb

/-- **borrowed-name equality = equality of the decoded names.**  Whenever both names can be decoded
    into owned names (of either type), `NameRef::eq` on the two borrowed names — with its same-offset
    shortcut — answers exactly what `==` answers on the decoded values. -/
theorem nameref_eq_decoded (k : NameKind) (msg : Bytes) (ca cb ca' cb' : Cur) (ta tb : Bytes)
    (ha : readName k msg ca = .ok (ta, ca')) (hb : readName k msg cb = .ok (tb, cb')) :
    nameRefEq msg msg ca cb = .ok (.ok (nameEq ta tb)) := by
  have key : ∀ (c c' : Cur) (t : Bytes), readName k msg c = .ok (t, c') →
      ∃ refs, Yields msg (Labels.new c) refs ∧ t = nameText (refs.map (·.bytes)) ∧
        ∀ l ∈ refs.map (·.bytes), NoDot l ∧ 0 < l.size := by
    intro c c' t h
    unfold readName at h
    split at h <;> try (simp at h; done)
    rename_i o hw
    simp only [Res.ok.injEq, Prod.mk.injEq] at h
    obtain ⟨tail, hl, hck, hr, _⟩ := C03.walk_text _ _ _ _ _ _ _ hw
    obtain ⟨refs, hy, hl2⟩ := yields_of_walk msg k _ #[] [] 0 o hw
    simp only [List.reverse_nil, List.nil_append] at hl hl2
    have htail : tail = refs.map (·.bytes) := by rw [← hl, hl2]
    refine ⟨refs, hy, ?_, ?_⟩
    · rw [← h.1, hr k rfl, Array.empty_append, ← htail]
      cases tail with
      | nil => simp [nameText, textOf, rootName, DOT]
      | cons x xs =>
        have hne : (textOf (x :: xs)).size ≠ 0 := by simp [textOf]
        simp [nameText, hne]
    · intro l hl'
      rw [← htail] at hl'
      exact checkLabel_nodot l (hck l hl')
  obtain ⟨ra, hya, hta, hna⟩ := key ca ca' ta ha
  obtain ⟨rb, hyb, htb, hnb⟩ := key cb cb' tb hb
  rw [nameref_eq msg ca cb ra rb hya hyb, hta, htb, eqLabels_iff_nameEq _ _ hna hnb]

end Rsdns.C08
