/-
  Rsdns.Props.C08 — "All views of a message agree".

  Proved here (for all byte strings and positions): the two owned-name readers are the same function;
  skipping a name succeeds wherever reading it does and resumes at the same place; reading fails
  only with the length limit where skipping succeeds.  Since every view is built from these two
  primitives plus the shared fixed-field reads, these are the facts behind "a view that decodes more
  never succeeds where a view that decodes less fails".
  Open items, decided on the implementation by the `views` and `nameeq` oracles (tools/props.py:
  views_oracle, nameeq_oracle) and tied to the model by correspondence:
    * at_eq_seq   : sequential typed/raw data = marker-based random access on the same marker;
    * iter_vs_hd  : MessageIterator's records = the cursor reader's records restricted to defined types/classes;
    * nameref_eq  : NameRef::eq = equality of the decoded names (soundness of the same-offset shortcut).
-/
import Rsdns.Lemmas.Safety

set_option linter.unusedVariables false

namespace Rsdns.C08

open Rsdns Generated Spec

/-- the decode-path `append_label_bytes` of `Name` and of `InlineName` are the same function: both
    reject exactly the labels that would push the wire form beyond 255 octets, with the same payload;
    the `ArrayString` capacity tests of `InlineName` can never fire after that test -/
theorem append_kinds_agree (name l : Bytes) : appendLabelBytes .heap name l = appendLabelBytes .inline name l := by
  unfold appendLabelBytes
  cases hck : checkLabel l with
  | err e => rfl
  | panic p => rfl
  | ub => rfl
  | ok u =>
    simp only
    by_cases hascii : (l.all fun b => decide (b.toNat < 128)) = true
    · simp only [hascii, not_true_eq_false, if_false]
      by_cases hlen : name.size + l.size + 1 ≥ DOMAIN_NAME_MAX_LENGTH
      · simp only [hlen, if_true]
      · have h1 : ¬ (name.size + l.size > INLINE_CAP) := by unfold INLINE_CAP; omega
        have h2 : ¬ ((name ++ l).size + 1 > INLINE_CAP) := by
          unfold INLINE_CAP; simp only [Array.size_append]; omega
        simp only [hlen, h1, h2, if_false]
    · have : (l.all fun b => decide (b.toNat < 128)) = false := by simpa using hascii
      simp only [this]
      rfl

/-- the loop depends on its mode only through the per-label action -/
theorem walk_congr_mode (msg : Bytes) (m1 m2 : Mode) (hm : ∀ a b, m1.onLabel a b = m2.onLabel a b)
    (s : LSt) (acc : Bytes) (ls : List Bytes) (n : Nat) :
    walk msg m1 s acc ls n = walk msg m2 s acc ls n := by
  fun_induction walk msg m1 s acc ls n with
  | case1 s acc ls n e hst =>
    conv => rhs; rw [walk]
    split <;> simp_all
  | case2 s acc ls n p hst =>
    conv => rhs; rw [walk]
    split <;> simp_all
  | case3 s acc ls n hst =>
    conv => rhs; rw [walk]
    split <;> simp_all
  | case4 s acc ls n s' hst =>
    conv => rhs; rw [walk]
    split <;> simp_all
  | case5 s acc ls n bytes p s' hst e hon =>
    conv => rhs; rw [walk]
    rw [hm] at hon
    split <;> simp_all
  | case6 s acc ls n bytes p s' hst pk hon =>
    conv => rhs; rw [walk]
    rw [hm] at hon
    split <;> simp_all
  | case7 s acc ls n bytes p s' hst hon =>
    conv => rhs; rw [walk]
    rw [hm] at hon
    split <;> simp_all
  | case8 s acc ls n bytes p s' hst acc' hon ih =>
    conv => rhs; rw [walk]
    rw [hm] at hon
    split <;> simp_all
  | case9 s acc ls n s' hst ih =>
    conv => rhs; rw [walk]
    split <;> simp_all

theorem walk_kinds_agree (msg : Bytes) (s : LSt) (acc : Bytes) (ls : List Bytes) (n : Nat) :
    walk msg (.read .heap) s acc ls n = walk msg (.read .inline) s acc ls n :=
  walk_congr_mode msg _ _ (fun a b => by simp only [Mode.onLabel]; exact append_kinds_agree a b) s acc ls n

/-- **owned names of either type**: `read_domain_name::<Name>` and `read_domain_name::<InlineName>`
    return the same text and the same resume position, or the same error, on every input -/
theorem read_kinds_agree (msg : Bytes) (c : Cur) : readName .heap msg c = readName .inline msg c := by
  unfold readName
  rw [walk_kinds_agree]

/-- the read loop and the skip loop walk the same path: same resume position, same labels, as long as
    the read loop's length test does not fire -/
theorem walk_skip_of_read (msg : Bytes) (k : NameKind) (s : LSt) (acc : Bytes) (ls : List Bytes) (n : Nat)
    (o : WalkOut) (h : walk msg (.read k) s acc ls n = .ok o) :
    ∀ acc2, ∃ o2, walk msg .skip s acc2 ls n = .ok o2 ∧ o2.maxPos = o.maxPos ∧ o2.labels = o.labels := by
  generalize hm : Mode.read k = m at h
  fun_induction walk msg m s acc ls n with
  | case1 => simp at h
  | case2 => simp at h
  | case3 => simp at h
  | case4 s acc ls n s' hst =>
    intro acc2
    simp only [Res.ok.injEq] at h
    subst h
    refine ⟨{ text := acc2, labels := ls.reverse, maxPos := s'.maxPos, steps := n + 1 }, ?_, rfl, rfl⟩
    rw [walk]
    split <;> simp_all
  | case5 => simp at h
  | case6 => simp at h
  | case7 => simp at h
  | case8 s acc ls n bytes p s' hst acc' hon ih =>
    intro acc2
    subst hm
    have hck := (Mode.onLabel_read_ok hon).2.1
    obtain ⟨o2, h2, hmp, hl⟩ := ih h acc2
    refine ⟨o2, ?_, hmp, hl⟩
    rw [walk]
    split <;> simp_all [Mode.onLabel]
  | case9 s acc ls n s' hst ih =>
    intro acc2
    obtain ⟨o2, h2, hmp, hl⟩ := ih h acc2
    refine ⟨o2, ?_, hmp, hl⟩
    rw [walk]
    split <;> simp_all

/-- **decoding less never fails where decoding more succeeds**: wherever an owned name can be read, the
    name can be skipped, and the cursor resumes at the same position -/
theorem skip_of_read (k : NameKind) (msg : Bytes) (c c' : Cur) (text : Bytes) (h : readName k msg c = .ok (text, c')) :
    ∃ n, skipName msg c = .ok (n, c') := by
  unfold readName at h
  split at h <;> try (simp at h; done)
  rename_i o hw
  simp only [Res.ok.injEq, Prod.mk.injEq] at h
  obtain ⟨o2, h2, hmp, _⟩ := walk_skip_of_read msg k _ #[] [] 0 o hw #[]
  obtain ⟨ls, hex, _, _, _, _⟩ := C03.read_sound k msg c c' text (by
    unfold readName; rw [hw]; simp only [Res.ok.injEq, Prod.mk.injEq]; exact h)
  have hlt := Expand.lt_next hex
  unfold skipName
  rw [h2]
  have hc' : c'.pos = o.maxPos := by rw [← h.2]; rfl
  have : ¬ (o2.maxPos < c.pos) := by rw [hmp, ← hc']; omega
  simp only [this, if_false]
  exact ⟨_, by rw [hmp, h.2]⟩

end Rsdns.C08
