/-
  Rsdns.Props.C08Views — C08 "All views of a message agree", iterator API vs cursor-style reader, for
  ANY byte string.  (Owned names of either type, borrowed names, bare markers, random access and
  `NameRef::eq` are in Props/C08.lean, Props/C09.lean `pair_follows_pass`, Props/C10.lean.)
  Helper lemmas: Lemmas/Views.lean; `iterView`: Spec/Views.lean.
-/
import Rsdns.Lemmas.Views
set_option linter.unusedVariables false
namespace Rsdns.C08
open Rsdns Generated Spec C09

/-- **C08, the two APIs on ANY byte string.**  Whenever one linear pass with the cursor-style reader
    (`header`, `question` × QDCOUNT, then for every record `record_header::<Name>` and the data call that
    fits its type) runs to the end without an error, the iterator API reports the same content:
    `MessageIterator::new` succeeds with the same header, `questions()` yields exactly the same
    questions, and `records()` yields exactly the iterator's view of the same records (`iterView`: OPT
    and records of undefined class or type are passed over, every other record appears with the same
    section, owner, class, type, TTL and data, in the same order; a defined code without a data type is
    reported as `UnexpectedType`).  So the view that decodes less never fails where the view that decodes
    more succeeds, and nothing the two report differs. -/
theorem iter_agrees_with_pass (msg : Bytes) (h : Header) (qs : List Question) (recs : List PassRec) (r : Reader)
    (hp : Reader.pass msg = ({ header := some h, questions := qs, records := recs, ending := .ok () }, some r)) :
    ∃ mi, MsgIter.new msg = .ok mi ∧ mi.header = h ∧ mi.questions msg = .ok (qs.map .ok) ∧
      mi.records msg = .ok (iterView recs) := by
  unfold Reader.pass at hp
  cases hnew : Reader.new msg with
  | err e => simp [hnew] at hp
  | panic p => simp [hnew] at hp
  | ub => simp [hnew] at hp
  | ok r0 =>
    simp only [hnew] at hp
    have hr0 : r0 = { cur := Cur.new msg, tr := Tracker.default, done := false } := by
      unfold Reader.new at hnew
      split at hnew
      · simp at hnew
      · simp only [Res.ok.injEq] at hnew; exact hnew.symm
    have hinv0 := RInv.new hnew
    cases hhd : r0.header msg with
    | mk res r1 =>
      simp only [hhd] at hp
      cases res with
      | err e => simp at hp
      | panic p => simp at hp
      | ub => simp at hp
      | ok h' =>
        simp only at hp
        -- the header
        have hrh : readHeader msg (Cur.new msg) = (.ok h', { lim := msg.size, pos := 12, orig := none }) ∧
            r1 = { cur := { lim := msg.size, pos := 12, orig := none }, tr := Tracker.default.set h', done := false } := by
          rw [hr0] at hhd
          unfold Reader.header Reader.onCur at hhd
          rcases readHeader_spec msg (Cur.new msg) (Cur.OK.new msg) with ⟨hd, he, _⟩ | he
          · simp only [he, markDone, Prod.mk.injEq, Res.ok.injEq] at hhd
            obtain ⟨rfl, rfl⟩ := hhd
            exact ⟨by rw [he]; rfl, rfl⟩
          · simp [he, markDone] at hhd
        obtain ⟨hrh, hr1⟩ := hrh
        have hinv1 : RInv msg r1 := by have := header_ok (msg := msg) hinv0; rw [hhd] at this; exact this.2
        cases hq : Reader.readQuestions msg (h'.qd + 1) r1 [] with
        | mk qs' rest =>
          obtain ⟨eq, r2⟩ := rest
          simp only [hq] at hp
          cases eq with
          | err e => simp at hp
          | panic p => simp at hp
          | ub => simp at hp
          | ok u =>
            simp only at hp
            cases hrr : Reader.readRecords msg (h'.an + h'.ns + h'.ar + 1) r2 [] with
            | mk rs rest2 =>
              obtain ⟨e, r3⟩ := rest2
              simp only [hrr, Prod.mk.injEq, PassOut.mk.injEq, Option.some.injEq] at hp
              obtain ⟨⟨rfl, rfl, rfl, rfl⟩, _⟩ := hp
              -- questions
              have hqd : r1.tr.qd.total - r1.tr.qd.read = h'.qd := by rw [hr1]; simp [Tracker.set, Tracker.default]
              obtain ⟨items, ho, hdr, hskp, hsec2, hd2, hinv2, horig2⟩ :=
                questions_sim msg (h'.qd + 1) r1 [] hinv1 (by rw [hr1]) (by rw [hr1]) (by rw [hqd]; omega) qs' r2 hq
              simp only [List.reverse_nil, List.nil_append] at ho
              subst ho
              rw [hqd] at hdr hskp
              have hc12 : r1.cur = Cur.withPos msg HEADER_LENGTH := by rw [hr1]; rfl
              rw [hc12] at hdr hskp
              refine ⟨{ header := h', answersOffset := r2.cur.pos }, ?_, rfl, ?_, ?_⟩
              · unfold MsgIter.new
                simp only [hrh, hskp]
              · unfold MsgIter.questions
                simp only
                rw [hdr []]
                simp
              · -- records
                have hsec : ∀ j, r2.tr.sec j = (Tracker.new h').sec j := by
                  intro j
                  rw [hsec2, hr1]
                  exact set_sec_eq_new h' j
                have hcur2 : r2.cur = Cur.withPos msg r2.cur.pos := by
                  have hf := hinv2.2
                  simp only [Cur.full, horig2, Option.getD_none] at hf
                  cases hc : r2.cur with
                  | mk l p o =>
                    rw [hc] at hf horig2
                    simp only at hf horig2
                    subst hf; subst horig2
                    rfl
                have hS : Sim msg r2 (Cur.withPos msg r2.cur.pos) (Tracker.new h') := ⟨hinv2, hcur2, horig2, hd2, hsec⟩
                have hleft : trackerLeft r2.tr = h'.an + h'.ns + h'.ar := by
                  rw [trackerLeft_congr hsec]
                  simp [trackerLeft, Tracker.new]
                obtain ⟨items2, ho2, hch⟩ := chain_of_readRecords msg _ r2 [] hinv2 horig2 (by rw [hleft]; omega) rs (.ok ()) r3 hrr
                simp only [List.reverse_nil, List.nil_append] at ho2
                rw [ho2]
                have hchain := hch rfl
                have hlen : trackerLeft (Tracker.new h') = items2.length := by
                  rw [← trackerLeft_congr hsec]; exact hchain.left hS
                unfold MsgIter.records
                simp only
                rw [recordsDrain_succ, drain_sim msg hchain _ _ hS _ _ [] (by omega) (by omega)]
                simp


/-! ### sequential access vs marker-based random access -/

theorem cur_eq_withPos {msg : Bytes} {r : Reader} (hinv : RInv msg r) (horig : r.cur.orig = none) :
    r.cur = Cur.withPos msg r.cur.pos := by
  have hf := hinv.2
  simp only [Cur.full, horig, Option.getD_none] at hf
  cases hc : r.cur with
  | mk l p o =>
    rw [hc] at hf horig
    simp only at hf horig
    subst hf; subst horig
    rfl

/-- **sequential typed read = random access.**  Whatever `record_data::<D>(marker)` returned when the
    record was read in sequence, `record_data_at::<D>(marker)` returns — from any reader over the same
    message, at any later time. -/
theorem data_eq_dataAt (msg : Bytes) (t : RType) (r r' : Reader) (m : Marker) (v : RData) (hinv : RInv msg r)
    (h : r.data msg t m = (.ok v, r')) (r2 : Reader) (hinv2 : RInv msg r2) : r2.dataAt msg t m = .ok v := by
  obtain ⟨hpos, _, c2, t2, hrd, _, _⟩ := data_inv h
  have horig := (C04.rdata_exact t msg r.cur c2 m.rdlen v hinv.1 hrd).2.2.2.1
  have hc := cur_eq_withPos hinv horig
  rw [hpos] at hc
  unfold Reader.dataAt
  rw [cloneWithPos_eq hinv2, ← hc, hrd]

/-- **sequential raw read = random access** -/
theorem dataBytes_eq_dataBytesAt (msg : Bytes) (r r' : Reader) (m : Marker) (b : Bytes) (hinv : RInv msg r)
    (horig : r.cur.orig = none) (h : r.dataBytes msg m = (.ok b, r')) (r2 : Reader) (hinv2 : RInv msg r2) :
    r2.dataBytesAt msg m = .ok b := by
  obtain ⟨hpos, _, c2, t2, hsl, _, _⟩ := dataBytes_inv h
  have hc := cur_eq_withPos hinv horig
  rw [hpos] at hc
  unfold Reader.dataBytesAt
  rw [cloneWithPos_eq hinv2, ← hc, hsl]


end Rsdns.C08
