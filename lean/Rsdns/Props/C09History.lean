/-
  Rsdns.Props.C09History — C09 over call histories of unbounded length, for EVERY message.

  `layoutOf msg h` is the layout of the skip pass over `msg` under the header counts `h`, as far as it
  gets: `passNq` questions and `passNr` records can be skipped one after the other (`PassUpto`), and the
  item behind them — if the counts announce one — cannot (`Fails`).  For a well-formed message the pass
  gets through everything (`passAll_of_msgAt`).  Along EVERY call history in the documented order
  (`Documented`: header calls only between records, data calls only with the marker just returned,
  questions first, seeks / counts / random access at any time):
    * `reader_follows_pass` / `run_documented` / `sit_step` : every call returns a value or an error
      (C01's invariant discharges the `NoPanic` hypothesis of `run_conforming`), and the reader is
      always in a situation of the pass (`Sit`) — dead (sticky), inside the questions at the pass
      position, between records at the index its counters stand for, in the middle of the record whose
      marker it returned, or holding the marker of the record that cannot be skipped, whose data no call
      can consume; calls that reach the item that cannot be skipped fail and latch;
    * `seek_when_documented` : whenever the high-water mark of completely read items covers everything
      in front of a section, `seek` to it succeeds and lands on its first record (or the next non-empty
      section's, or the end); `seek_live` gives the other cases (offset unknown away from the header:
      `RecordsSectionOffsetUnknown`, nothing changed; straight after the header: forward skip, which
      fails and latches when it runs into the item that cannot be skipped);
    * `offsets_grow` : record offsets grow along the pass.
  Helper lemmas: Rsdns/Lemmas/History.lean, Rsdns/Lemmas/Layout.lean.
-/
import Rsdns.Lemmas.History
import Rsdns.Lemmas.Layout
import Rsdns.Lemmas.ReaderSafe
import Rsdns.Lemmas.IterSafe
import Rsdns.Lemmas.PassDecode
import Rsdns.Props.C02Message

set_option linter.unusedVariables false

namespace Rsdns.C09

open Rsdns Generated Spec C02

/-! ## C09 over call histories of unbounded length (Props/C09History) -/

theorem Pad.full (L : Lay) : Pad L L.n := fun i h1 h2 => by omega

theorem Fails.full (msg : Bytes) (L : Lay) : Fails msg L L.qd L.n :=
  ⟨fun h => by omega, fun _ h => by omega⟩

/-- **record offsets grow along the pass**: each skippable record starts at least eleven octets behind
    the previous one, the first one behind the questions -/
theorem offsets_grow (msg : Bytes) (L : Lay) (hL : L.WF) {nq nr : Nat} (hP : PassUpto msg L nq nr) (hnq : nq = L.qd)
    (i : Nat) (hi : i < nr) : L.rOff i + 11 ≤ L.rOff (i + 1) ∧ 12 + 5 * L.qd + 11 * i ≤ L.rOff i :=
  ⟨hP.r_grows i hi, PassUpto.r_ge hL hP hnq i (by omega)⟩

/-- **one conforming call.**  Whatever the situation, an allowed call that does not panic leaves the
    reader in a situation again, and the ghost invariant (documented seek criterion) is kept. -/
theorem sit_step (msg : Bytes) (L : Lay) (hL : L.WF) {nq nr : Nat} (hP : PassUpto msg L nq nr) (hpad : Pad L nr)
    (hF : Fails msg L nq nr) (r : Reader) (p : Option Marker)
    (maxc : Nat) (hS : Sit msg L nq nr r p) (hG : Ghost L nr r maxc) (op : Op) (ha : Allowed r p op)
    (hnp : NoPanic (r.step msg op)) : StepGoal msg L nq nr r p maxc op := by
  cases hS with
  | dead hd =>
    obtain ⟨hs, hd'⟩ := step_dead msg L nq nr r hd op ha hnp
    exact ⟨maxc, Nat.le_refl _, hs, Ghost.dead hd' maxc⟩
  | ques hQ hlt hle hz => exact step_ques msg L hL hP hpad hF r maxc hQ hlt hle hz hG op ha hnp
  | recs hA hq hnq hle => exact step_recs msg L hL hP hpad hF r maxc hA hq hnq hle hG op ha hnp
  | mid m hM hq hnq hlt => exact step_mid msg L hL hP hpad hF r m maxc hM hq hnq hlt hG op ha hnp
  | midBad m hM hq hnq hi => exact step_midBad msg L hL hP hpad hF r m maxc hM hq hnq hi hG op ha hnp

/-- a protocol-conforming call history from situation `(r, p)`: every call is allowed where it is made
    (and, to keep C01's concern apart, does not panic) -/
def Conforming (msg : Bytes) : Reader → Option Marker → List Op → Prop
  | _, _, [] => True
  | r, p, op :: ops =>
    Allowed r p op ∧ NoPanic (r.step msg op) ∧
      Conforming msg (r.step msg op).2 (nextPend p op (r.step msg op).1) ops

/-- **histories of any length.**  Along every protocol-conforming history the reader stays in a
    situation of the pass and the documented seek criterion holds for the high-water mark. -/
theorem run_conforming (msg : Bytes) (L : Lay) (hL : L.WF) {nq nr : Nat} (hP : PassUpto msg L nq nr) (hpad : Pad L nr)
    (hF : Fails msg L nq nr) :
    ∀ (ops : List Op) (r : Reader) (p : Option Marker) (maxc : Nat), Sit msg L nq nr r p → Ghost L nr r maxc →
      Conforming msg r p ops →
      ∃ p' maxc', maxc ≤ maxc' ∧ Sit msg L nq nr (Reader.run msg r ops).2 p' ∧ Ghost L nr (Reader.run msg r ops).2 maxc' := by
  intro ops
  induction ops with
  | nil => intro r p maxc hS hG _; exact ⟨p, maxc, Nat.le_refl _, hS, hG⟩
  | cons op ops ih =>
    intro r p maxc hS hG hC
    obtain ⟨ha, hnp, hrest⟩ := hC
    obtain ⟨m1, hle, hS1, hG1⟩ := sit_step msg L hL hP hpad hF r p maxc hS hG op ha hnp
    obtain ⟨p', m2, hle2, hS2, hG2⟩ := ih _ _ m1 hS1 hG1 hrest
    exact ⟨p', m2, by omega, by simpa [Reader.run] using hS2, by simpa [Reader.run] using hG2⟩

/-- **seek succeeds whenever the documentation says so.**  In a live situation whose high-water mark
    covers everything in front of section `s` (and at least one item), `seek(s)` succeeds and the reader
    stands at the first record of `s` — or of the next non-empty section, or at the end. -/
theorem seek_when_documented (msg : Bytes) (L : Lay) (hL : L.WF) {nq nr : Nat} (hP : PassUpto msg L nq nr) (hpad : Pad L nr)
    (hF : Fails msg L nq nr) (r : Reader) (p : Option Marker)
    (maxc : Nat) (hS : Sit msg L nq nr r p) (hG : Ghost L nr r maxc) (hlive : r.done = false) (s : Nat) (hs : s < 3)
    (h1 : 1 ≤ maxc) (h2 : L.qd + L.start s ≤ maxc) :
    ∃ r', r.seek msg s = (.ok (), r') ∧ AtIndex msg L r' ∧ idx r'.tr = L.start s := by
  have hk : r.tr.off s ≠ 0 := hG.doc hlive s hs h1 h2
  have key : ∀ (hinv : RInv msg r) (horig : r.cur.orig = none) (hT : TInv L r.tr),
      ∃ r', r.seek msg s = (.ok (), r') ∧ AtIndex msg L r' ∧ idx r'.tr = L.start s := by
    intro hinv horig hT
    obtain ⟨hk', _, _, _⟩ := seek_live msg L hL hP hpad hF r maxc hinv horig hlive hT s hs (hG.doc hlive) (hG.reach hlive)
    obtain ⟨r', he, hA', hi', _, _⟩ := hk' hk
    exact ⟨r', he, hA', hi'⟩
  cases hS with
  | dead hd => rw [hlive] at hd; cases hd
  | ques hQ _ _ _ => exact key hQ.inv hQ.orig hQ.tinv
  | recs hA _ _ _ => exact key hA.inv hA.orig hA.tinv
  | mid m hM _ _ _ => exact key hM.inv hM.orig hM.tinv
  | midBad m hM _ _ _ => exact key hM.inv hM.orig hM.tinv

/-- **start.** Right after `new` and a successful `header()`, the reader is in a situation of the pass
    for the layout announced by the header, with nothing learned yet. -/
theorem sit_after_header (msg : Bytes) (L : Lay) (hL : L.WF) {nq nr : Nat} (hP : PassUpto msg L nq nr) (r0 r1 : Reader)
    (h : Header)
    (h0 : Reader.new msg = .ok r0) (hh : r0.header msg = (.ok h, r1))
    (hq : L.qd = h.qd) (ha : L.tot 0 = h.an) (hn : L.tot 1 = h.ns) (hr : L.tot 2 = h.ar) :
    Sit msg L nq nr r1 none ∧ Ghost L nr r1 0 := by
  have hinv0 := RInv.new h0
  have hok := header_ok (msg := msg) hinv0
  rw [hh] at hok
  have hr0 : r0 = { cur := Cur.new msg, tr := Tracker.default, done := false } := by
    unfold Reader.new at h0
    split at h0
    · simp at h0
    · simp only [Res.ok.injEq] at h0; exact h0.symm
  subst hr0
  unfold Reader.header Reader.onCur at hh
  rcases readHeader_spec msg (Cur.new msg) hinv0.1 with ⟨hd, he, _⟩ | he
  · simp only [he, markDone, Prod.mk.injEq, Res.ok.injEq] at hh
    obtain ⟨rfl, hr1⟩ := hh
    have hT : TInv L (Tracker.default.set hd) := by
      apply TInv.init
      · simp [Tracker.set, Tracker.default, hq]
      · simp [Tracker.set, Tracker.default, upd, ha]
      · simp [Tracker.set, Tracker.default, upd, hn]
      · simp [Tracker.set, Tracker.default, upd, hr]
      · intro j; simp only [Tracker.set, Tracker.default, upd]; split <;> (try split) <;> (try split) <;> rfl
      · intro j; rfl
    have hi0 : idx (Tracker.default.set hd) = 0 := by simp [idx, Tracker.set, Tracker.default, upd]
    have htr : r1.tr = Tracker.default.set hd := by rw [← hr1]
    have hcur : r1.cur.pos = 12 ∧ r1.cur.orig = none := by rw [← hr1]; exact ⟨by simp [Cur.new], rfl⟩
    have hdn : r1.done = false := by rw [← hr1]
    have hQ : QIdx msg L r1 :=
      ⟨hok.2, hcur.2, hdn, by rw [htr]; exact hT, by rw [htr]; exact hi0,
        by rw [hcur.1, htr]; simp [Tracker.set, Tracker.default, hP.q0], by rw [htr]; simp [Tracker.set, Tracker.default]⟩
    have hoff : ∀ j, r1.tr.off j = 0 := fun j => by rw [htr]; rfl
    refine ⟨?_, ⟨fun _ s _ h1 _ => by omega, fun _ => by rw [htr]; simp [Tracker.set, Tracker.default],
      fun _ s _ hne => absurd (hoff s) hne⟩⟩
    have hrd0 : r1.tr.qd.read = 0 := by rw [htr]; simp [Tracker.set, Tracker.default]
    by_cases hz : L.qd = 0
    · have hrd : r1.tr.qd.read = L.qd := by rw [hrd0, hz]
      have hnq : nq = L.qd := by have := hP.nq_le; omega
      exact Sit.recs _ (hQ.toAtIndex hL hrd) hrd hnq (by rw [hQ.idx0]; omega)
    · exact Sit.ques _ hQ (by rw [hrd0]; omega) (by rw [hrd0]; omega) hoff
  · simp [he, markDone] at hh

/-- a call history in the documented order (`Allowed` at every call) — no other assumption -/
def Documented (msg : Bytes) : Reader → Option Marker → List Op → Prop
  | _, _, [] => True
  | r, p, op :: ops =>
    Allowed r p op ∧ Documented msg (r.step msg op).2 (nextPend p op (r.step msg op).1) ops

theorem noPanic_of_safe {x : Res Val × Reader} (h : x.1.safe) : NoPanic x := by
  intro p hp
  rw [hp] at h
  exact h

/-- **histories of any length, documented order only.**  `run_conforming` without its `NoPanic`
    hypothesis (discharged by C01's invariant `Sane`): along every history in the documented order every
    call returns a value or an error, and the reader stays in a situation of the pass with the
    documented seek criterion in force. -/
theorem run_documented (msg : Bytes) (L : Lay) (hL : L.WF) {nq nr : Nat} (hP : PassUpto msg L nq nr) (hpad : Pad L nr)
    (hF : Fails msg L nq nr) :
    ∀ (ops : List Op) (r : Reader) (p : Option Marker) (maxc : Nat), Sit msg L nq nr r p → Ghost L nr r maxc →
      Sane msg r p → Documented msg r p ops →
      (∀ o ∈ (Reader.run msg r ops).1, o.safe) ∧
      ∃ p' maxc', maxc ≤ maxc' ∧ Sit msg L nq nr (Reader.run msg r ops).2 p' ∧ Ghost L nr (Reader.run msg r ops).2 maxc' := by
  intro ops
  induction ops with
  | nil =>
    intro r p maxc hS hG _ _
    exact ⟨fun o ho => by simp [Reader.run] at ho, p, maxc, Nat.le_refl _, hS, hG⟩
  | cons op ops ih =>
    intro r p maxc hS hG hN hC
    obtain ⟨ha, hrest⟩ := hC
    obtain ⟨hsafe, hN1⟩ := step_sane hN op (Permitted.of_allowed ha)
    obtain ⟨m1, hle, hS1, hG1⟩ := sit_step msg L hL hP hpad hF r p maxc hS hG op ha (noPanic_of_safe hsafe)
    obtain ⟨hall, p', m2, hle2, hS2, hG2⟩ := ih _ _ m1 hS1 hG1 hN1 hrest
    refine ⟨?_, p', m2, by omega, by simpa [Reader.run] using hS2, by simpa [Reader.run] using hG2⟩
    intro o ho
    simp only [Reader.run, List.mem_cons] at ho
    rcases ho with rfl | ho
    · exact hsafe
    · exact hall o ho

/-- **start (panic-freedom invariant).** After `new` and `header()` the invariant `Sane` of
    `run_documented` holds, whatever the bytes. -/
theorem sane_after_header (msg : Bytes) (r0 : Reader) (h0 : Reader.new msg = .ok r0) :
    Sane msg (r0.header msg).2 none := by
  have ht : r0.tr = Tracker.default := by
    unfold Reader.new at h0
    split at h0
    · simp at h0
    · simp only [Res.ok.injEq] at h0; rw [← h0]
  have hh := header_rout (RInv.new h0) ht
  cases hx : r0.header msg with
  | mk res r1 =>
    rw [hx] at hh
    cases res with
    | ok h => exact ⟨hh, fun m hm => by cases hm⟩
    | err e => exact ⟨hh, fun m hm => by cases hm⟩
    | panic p => exact hh.elim
    | ub => exact hh.elim

/-- **C09 for EVERY message.**  Whatever bytes `MessageReader::new` accepts and `header()` decodes:
    with the layout of the skip pass over them as far as it gets (`layoutOf`: `passNq` questions,
    `passNr` records, then — if anything is left — an item that cannot be skipped), along EVERY call
    history in the documented order, of any length,
      * every call returns a value or an error,
      * the reader is always in a situation of that pass: dead (sticky); inside the questions at the
        pass position; between records at the index its counters stand for; in the middle of the
        record whose marker it returned; or holding the marker of the record that cannot be skipped,
        whose data no call can consume (every data call fails and latches);
      * calls that reach the item that cannot be skipped fail and latch, nothing behind it is ever
        reported, only sections in front of it ever get a known offset,
      * and the documented seek criterion holds for the high-water mark of completely read items. -/
theorem reader_follows_pass (msg : Bytes) (r0 r1 : Reader) (h : Header) (h0 : Reader.new msg = .ok r0)
    (hh : r0.header msg = (.ok h, r1)) :
    (layoutOf msg h).WF ∧ PassUpto msg (layoutOf msg h) (passNq msg h) (passNr msg h) ∧
    Fails msg (layoutOf msg h) (passNq msg h) (passNr msg h) ∧
    ∀ ops, Documented msg r1 none ops →
      (∀ o ∈ (Reader.run msg r1 ops).1, o.safe) ∧
      ∃ p' maxc', Sit msg (layoutOf msg h) (passNq msg h) (passNr msg h) (Reader.run msg r1 ops).2 p' ∧
        Ghost (layoutOf msg h) (passNr msg h) (Reader.run msg r1 ops).2 maxc' := by
  have hsz : msg.size ≤ 65535 := by
    unfold Reader.new at h0
    split at h0
    · simp at h0
    · omega
  have hr0 : r0 = { cur := Cur.new msg, tr := Tracker.default, done := false } := by
    unfold Reader.new at h0
    split at h0
    · simp at h0
    · simp only [Res.ok.injEq] at h0; exact h0.symm
  have hrh : readHeader msg (Cur.new msg) = (.ok h, { lim := msg.size, pos := 12, orig := none }) ∧ 12 ≤ msg.size := by
    rw [hr0] at hh
    unfold Reader.header Reader.onCur at hh
    rcases readHeader_spec msg (Cur.new msg) (Cur.OK.new msg) with ⟨hd, he, hle⟩ | he
    · simp only [he, markDone, Prod.mk.injEq, Res.ok.injEq] at hh
      obtain ⟨rfl, _⟩ := hh
      exact ⟨by rw [he]; rfl, by simpa [Cur.new] using hle⟩
    · simp [he, markDone] at hh
  have hsm := readHeader_small msg _ _ (Cur.OK.new msg) h hrh.1
  obtain ⟨hL, hP, hpad, hF⟩ := layout_exists msg h hrh.2 hsz (by have := hsm.1; omega) (by have := hsm.2.1; omega)
    (by have := hsm.2.2.1; omega) (by have := hsm.2.2.2; omega)
  refine ⟨hL, hP, hF, ?_⟩
  intro ops hD
  obtain ⟨hS, hG⟩ := sit_after_header msg _ hL hP r0 r1 h h0 hh rfl rfl rfl rfl
  have hN := sane_after_header msg r0 h0
  rw [hh] at hN
  obtain ⟨hsafe, p', maxc', _, hS', hG'⟩ := run_documented msg _ hL hP hpad hF ops r1 none 0 hS hG hN hD
  exact ⟨hsafe, p', maxc', hS', hG'⟩

theorem skipQuestion_wf (msg : Bytes) (q : QSpec) (hq : q.WF msg) :
    skipQuestion msg (Cur.withPos msg q.off) = (.ok (), Cur.withPos msg q.endp) := by
  obtain ⟨hname, hfit, _, _⟩ := hq
  obtain ⟨n, hs⟩ := skipName_legal msg (Cur.withPos msg q.off) q.labels q.nxt hname
  have hsk := skip_at msg.size q.nxt 4 none (by omega)
  simp only [skipQuestion, bind, CurM.bind, hs]
  simp only [Cur.withPos, Cur.setPos, hsk, QSpec.endp]

theorem skipRr_wf (msg : Bytes) (x : RecSpec) (hx : x.WF msg) :
    skipRr msg (Cur.withPos msg x.off) = (.ok (), Cur.withPos msg x.endp) := by
  obtain ⟨hname, hfit, _, _, _, hrd, _⟩ := hx
  obtain ⟨n, hs⟩ := skipName_legal msg (Cur.withPos msg x.off) x.labels x.nxt hname
  have h8 := skip_at msg.size x.nxt 8 none (by omega)
  have h16 := u16be_at msg msg.size (x.nxt + 8) none (by omega) (Nat.le_refl _)
  have hsk := skip_at msg.size (x.nxt + 8 + 2) x.rdlen none (by omega)
  simp only [skipRr, bind, CurM.bind, hs]
  simp only [Cur.withPos, Cur.setPos, h8, h16, ← hrd, hsk, RecSpec.endp]


/-- **every well-formed message is skippable**: its layout satisfies `PassAll`, so the history
    theorems of this file apply to every well-formed message -/
theorem passAll_of_msgAt (msg : Bytes) (h : Header) (qs : List QSpec) (rs : List RecSpec) (hm : MsgAt msg h qs rs)
    (qe e : Nat) (hqs : QsAt msg 12 qs qe) (hrs : RecsAt msg qe rs e) : PassAll msg (layOf h qs rs e) := by
  obtain ⟨_, _, _, hqall⟩ := hqs.chain
  obtain ⟨_, _, _, hrall, _⟩ := hrs.chain
  refine ⟨rfl, Nat.le_refl _, Nat.le_refl _, fun h => absurd h (Nat.lt_irrefl _), ?_, ?_⟩
  · intro j hj
    have hj' : j < qs.length := by rw [← hm.nq]; exact hj
    obtain ⟨q, _, hw, ho, he⟩ := hqall j hj'
    show skipQuestion msg (Cur.withPos msg (qEndFn 12 qs j)) = (.ok (), Cur.withPos msg (qEndFn 12 qs (j + 1)))
    rw [← ho, ← he]
    exact skipQuestion_wf msg q hw
  · intro i hi
    have hi' : i < rs.length := by rw [← hm.nr]; exact hi
    obtain ⟨x, _, hw, ho, he⟩ := hrall i hi'
    show skipRr msg (Cur.withPos msg (rOffFn rs e i)) = (.ok (), Cur.withPos msg (rOffFn rs e (i + 1)))
    rw [← ho, ← he]
    exact skipRr_wf msg x hw

/-- non-vacuity of the history theorems: the 35-byte response `C02.sample` (one question, one answer
    whose owner is a compression pointer) is skippable with a well-formed layout, and after `new` +
    `header()` the reader is in a situation of the pass with C01's invariant in force -/
example : ∃ L r1, L.WF ∧ PassAll sample L ∧ Sit sample L L.qd L.n r1 none ∧ Ghost L L.n r1 0 ∧ Sane sample r1 none := by
  obtain ⟨qe, e, hqs, hrs⟩ := sample_msgAt.layout
  have hL := layOf_wf sample _ _ _ sample_msgAt qe e hqs hrs
  have hP := passAll_of_msgAt sample _ _ _ sample_msgAt qe e hqs hrs
  have hnew : Reader.new sample = .ok { cur := Cur.new sample, tr := Tracker.default, done := false } := by
    unfold Reader.new
    rw [if_neg (by decide)]
  cases hh : Reader.header sample { cur := Cur.new sample, tr := Tracker.default, done := false } with
  | mk res r1 =>
    have hs := sane_after_header sample _ hnew
    rw [hh] at hs
    cases res with
    | ok hd =>
      have hfields : hd = { id := 0x1234, flags := 0x8180, qd := 1, an := 1, ns := 0, ar := 0 } := by
        have hf := C02.header_fields sample (Cur.new sample) (Cur.OK.new sample) (by decide)
        unfold Reader.header Reader.onCur at hh
        rw [hf] at hh
        simp only [markDone, Prod.mk.injEq, Res.ok.injEq] at hh
        rw [← hh.1]
        decide
      obtain ⟨hsit, hg⟩ := sit_after_header sample _ hL hP _ r1 hd hnew hh (by rw [hfields]; rfl) (by rw [hfields]; rfl)
        (by rw [hfields]; rfl) (by rw [hfields]; rfl)
      exact ⟨_, r1, hL, hP, hsit, hg, hs⟩
    | err e =>
      exfalso
      have hf := C02.header_fields sample (Cur.new sample) (Cur.OK.new sample) (by decide)
      unfold Reader.header Reader.onCur at hh
      rw [hf] at hh
      simp [markDone] at hh
    | panic p =>
      exfalso
      have hf := C02.header_fields sample (Cur.new sample) (Cur.OK.new sample) (by decide)
      unfold Reader.header Reader.onCur at hh
      rw [hf] at hh
      simp [markDone] at hh
    | ub =>
      exfalso
      have hf := C02.header_fields sample (Cur.new sample) (Cur.OK.new sample) (by decide)
      unfold Reader.header Reader.onCur at hh
      rw [hf] at hh
      simp [markDone] at hh


end Rsdns.C09
