/-
  Rsdns.Props.C09History — C09 over call histories of unbounded length.

  For a message whose skip pass succeeds (`PassAll`: questions and records can be skipped one after the
  other — every well-formed message, and every message whose only defects are inside typed RDATA), and
  for EVERY protocol-conforming call history (`Conforming`: header calls only between records, data
  calls only with the marker just returned, questions first, seeks / counts / random access at any
  time):
    * `sit_step` / `run_conforming` : the reader is always in a situation of the pass — dead (sticky),
      inside the questions at the pass position, between records at the index its counters stand for,
      or in the middle of the record whose marker it returned; so every returned marker is the marker
      of the pass record at that index (`header_step`), every successful data call advances by exactly
      one record (`data_step`), every failure latches (`*_error_latches`);
    * `seek_when_documented` : whenever the high-water mark of completely read items covers everything
      in front of a section, `seek` to it succeeds and lands on its first record (or the next non-empty
      section's, or the end) — the documented criterion; `seek_live` gives the other two cases (offset
      unknown away from the header: `RecordsSectionOffsetUnknown`, nothing changed; straight after the
      header: forward skip);
    * `offsets_grow` : record offsets grow along the pass.
  `run_conforming` excludes panics by hypothesis (`NoPanic`); `run_documented` discharges that
  hypothesis with C01's invariant (`Sane`, Rsdns/Lemmas/ReaderSafe.lean): along a history that follows
  the documented order no call panics, so the conclusion holds for the documented protocol alone.
  Helper lemmas: Rsdns/Lemmas/History.lean.
-/
import Rsdns.Lemmas.History
import Rsdns.Lemmas.ReaderSafe

set_option linter.unusedVariables false

namespace Rsdns.C09

open Rsdns Generated

/-- **record offsets grow along the pass**: each record starts at least eleven octets behind the
    previous one, the first one behind the questions -/
theorem offsets_grow (msg : Bytes) (L : Lay) (hL : L.WF) (hP : PassAll msg L) (i : Nat) (hi : i < L.n) :
    L.rOff i + 11 ≤ L.rOff (i + 1) ∧ 12 + 5 * L.qd + 11 * i ≤ L.rOff i :=
  ⟨hP.r_grows i hi, PassAll.r_ge hL hP i (by omega)⟩

/-- **one conforming call.**  Whatever the situation, an allowed call that does not panic leaves the
    reader in a situation again, and the ghost invariant (documented seek criterion) is kept. -/
theorem sit_step (msg : Bytes) (L : Lay) (hL : L.WF) (hP : PassAll msg L) (r : Reader) (p : Option Marker)
    (maxc : Nat) (hS : Sit msg L r p) (hG : Ghost L r maxc) (op : Op) (ha : Allowed r p op)
    (hnp : NoPanic (r.step msg op)) : StepGoal msg L r p maxc op := by
  cases hS with
  | dead hd =>
    obtain ⟨hs, hd'⟩ := step_dead msg L r hd op ha hnp
    exact ⟨maxc, Nat.le_refl _, hs, Ghost.dead hd' maxc⟩
  | ques hQ hlt hz => exact step_ques msg L hL hP r maxc hQ hlt hz hG op ha hnp
  | recs hA hq => exact step_recs msg L hL hP r maxc hA hq hG op ha hnp
  | mid m hM hq => exact step_mid msg L hL hP r m maxc hM hq hG op ha hnp

/-- a protocol-conforming call history from situation `(r, p)`: every call is allowed where it is made
    (and, to keep C01's concern apart, does not panic) -/
def Conforming (msg : Bytes) : Reader → Option Marker → List Op → Prop
  | _, _, [] => True
  | r, p, op :: ops =>
    Allowed r p op ∧ NoPanic (r.step msg op) ∧
      Conforming msg (r.step msg op).2 (nextPend p op (r.step msg op).1) ops

/-- **histories of any length.**  Along every protocol-conforming history over a skippable message the
    reader stays in a situation of the pass (dead; inside the questions at the position of the pass;
    between records at the index its counters stand for; in the middle of the record whose marker it
    returned) and the documented seek criterion holds for the high-water mark. -/
theorem run_conforming (msg : Bytes) (L : Lay) (hL : L.WF) (hP : PassAll msg L) :
    ∀ (ops : List Op) (r : Reader) (p : Option Marker) (maxc : Nat), Sit msg L r p → Ghost L r maxc →
      Conforming msg r p ops →
      ∃ p' maxc', maxc ≤ maxc' ∧ Sit msg L (Reader.run msg r ops).2 p' ∧ Ghost L (Reader.run msg r ops).2 maxc' := by
  intro ops
  induction ops with
  | nil => intro r p maxc hS hG _; exact ⟨p, maxc, Nat.le_refl _, hS, hG⟩
  | cons op ops ih =>
    intro r p maxc hS hG hC
    obtain ⟨ha, hnp, hrest⟩ := hC
    obtain ⟨m1, hle, hS1, hG1⟩ := sit_step msg L hL hP r p maxc hS hG op ha hnp
    obtain ⟨p', m2, hle2, hS2, hG2⟩ := ih _ _ m1 hS1 hG1 hrest
    exact ⟨p', m2, by omega, by simpa [Reader.run] using hS2, by simpa [Reader.run] using hG2⟩

/-- a call history in the documented order (`Allowed` at every call) — no other assumption -/
def Documented (msg : Bytes) : Reader → Option Marker → List Op → Prop
  | _, _, [] => True
  | r, p, op :: ops =>
    Allowed r p op ∧ Documented msg (r.step msg op).2 (nextPend p op (r.step msg op).1) ops

theorem noPanic_of_safe {x : Res Val × Reader} (h : x.1.safe) : NoPanic x := by
  intro p hp
  rw [hp] at h
  exact h

/-- **histories of any length, documented order only.**  `run_conforming` without its `NoPanic`
    hypothesis: along every history in the documented order over a skippable message every call
    returns a value or an error, and the reader stays in a situation of the pass with the documented
    seek criterion in force. -/
theorem run_documented (msg : Bytes) (L : Lay) (hL : L.WF) (hP : PassAll msg L) :
    ∀ (ops : List Op) (r : Reader) (p : Option Marker) (maxc : Nat), Sit msg L r p → Ghost L r maxc →
      Sane msg r p → Documented msg r p ops →
      (∀ o ∈ (Reader.run msg r ops).1, o.safe) ∧
      ∃ p' maxc', maxc ≤ maxc' ∧ Sit msg L (Reader.run msg r ops).2 p' ∧ Ghost L (Reader.run msg r ops).2 maxc' := by
  intro ops
  induction ops with
  | nil =>
    intro r p maxc hS hG _ _
    exact ⟨fun o ho => by simp [Reader.run] at ho, p, maxc, Nat.le_refl _, hS, hG⟩
  | cons op ops ih =>
    intro r p maxc hS hG hN hC
    obtain ⟨ha, hrest⟩ := hC
    obtain ⟨hsafe, hN1⟩ := step_sane hN op (Permitted.of_allowed ha)
    obtain ⟨m1, hle, hS1, hG1⟩ := sit_step msg L hL hP r p maxc hS hG op ha (noPanic_of_safe hsafe)
    obtain ⟨hall, p', m2, hle2, hS2, hG2⟩ := ih _ _ m1 hS1 hG1 hN1 hrest
    refine ⟨?_, p', m2, by omega, by simpa [Reader.run] using hS2, by simpa [Reader.run] using hG2⟩
    intro o ho
    simp only [Reader.run, List.mem_cons] at ho
    rcases ho with rfl | ho
    · exact hsafe
    · exact hall o ho

/-- **seek succeeds whenever the documentation says so.**  In a live situation whose high-water mark
    covers everything in front of section `s` (and at least one item), `seek(s)` succeeds and the reader
    stands at the first record of `s` — or of the next non-empty section, or at the end. -/
theorem seek_when_documented (msg : Bytes) (L : Lay) (hL : L.WF) (hP : PassAll msg L) (r : Reader) (p : Option Marker)
    (maxc : Nat) (hS : Sit msg L r p) (hG : Ghost L r maxc) (hlive : r.done = false) (s : Nat) (hs : s < 3)
    (h1 : 1 ≤ maxc) (h2 : L.qd + L.start s ≤ maxc) :
    ∃ r', r.seek msg s = (.ok (), r') ∧ AtIndex msg L r' ∧ idx r'.tr = L.start s := by
  have hk : r.tr.off s ≠ 0 := hG.doc hlive s hs h1 h2
  have key : ∀ (hinv : RInv msg r) (horig : r.cur.orig = none) (hT : TInv L r.tr),
      ∃ r', r.seek msg s = (.ok (), r') ∧ AtIndex msg L r' ∧ idx r'.tr = L.start s := by
    intro hinv horig hT
    obtain ⟨hk', _, _⟩ := seek_live msg L hL hP r maxc hinv horig hlive hT s hs (hG.doc hlive)
    obtain ⟨r', he, hA', hi', _, _⟩ := hk' hk
    exact ⟨r', he, hA', hi'⟩
  cases hS with
  | dead hd => rw [hlive] at hd; cases hd
  | ques hQ _ _ => exact key hQ.inv hQ.orig hQ.tinv
  | recs hA _ => exact key hA.inv hA.orig hA.tinv
  | mid m hM _ => exact key hM.inv hM.orig hM.tinv

/-- **start.** Right after `new` and a successful `header()`, the reader is in a situation of the pass
    for the layout announced by the header, with nothing learned yet. -/
theorem sit_after_header (msg : Bytes) (L : Lay) (hL : L.WF) (hP : PassAll msg L) (r0 r1 : Reader) (h : Header)
    (h0 : Reader.new msg = .ok r0) (hh : r0.header msg = (.ok h, r1))
    (hq : L.qd = h.qd) (ha : L.tot 0 = h.an) (hn : L.tot 1 = h.ns) (hr : L.tot 2 = h.ar) :
    Sit msg L r1 none ∧ Ghost L r1 0 := by
  have hinv0 := RInv.new h0
  have hok := header_ok (msg := msg) hinv0
  rw [hh] at hok
  have hr0 : r0 = { cur := Cur.new msg, tr := Tracker.default, done := false } := by
    unfold Reader.new at h0
    split at h0
    · simp at h0
    · simp only [Res.ok.injEq] at h0; exact h0.symm
  subst hr0
  unfold Reader.header Reader.onCur at hh
  rcases readHeader_spec msg (Cur.new msg) hinv0.1 with ⟨hd, he, _⟩ | he
  · simp only [he, markDone, Prod.mk.injEq, Res.ok.injEq] at hh
    obtain ⟨rfl, hr1⟩ := hh
    have hT : TInv L (Tracker.default.set hd) := by
      apply TInv.init
      · simp [Tracker.set, Tracker.default, hq]
      · simp [Tracker.set, Tracker.default, upd, ha]
      · simp [Tracker.set, Tracker.default, upd, hn]
      · simp [Tracker.set, Tracker.default, upd, hr]
      · intro j; simp only [Tracker.set, Tracker.default, upd]; split <;> (try split) <;> (try split) <;> rfl
      · intro j; rfl
    have hi0 : idx (Tracker.default.set hd) = 0 := by simp [idx, Tracker.set, Tracker.default, upd]
    have htr : r1.tr = Tracker.default.set hd := by rw [← hr1]
    have hcur : r1.cur.pos = 12 ∧ r1.cur.orig = none := by rw [← hr1]; exact ⟨by simp [Cur.new], rfl⟩
    have hdn : r1.done = false := by rw [← hr1]
    have hQ : QIdx msg L r1 :=
      ⟨hok.2, hcur.2, hdn, by rw [htr]; exact hT, by rw [htr]; exact hi0,
        by rw [hcur.1, htr]; simp [Tracker.set, Tracker.default, hP.q0], by rw [htr]; simp [Tracker.set, Tracker.default]⟩
    refine ⟨?_, ⟨fun _ s _ h1 _ => by omega, fun _ => by rw [htr]; simp [Tracker.set, Tracker.default]⟩⟩
    by_cases hz : L.qd = 0
    · have hrd : r1.tr.qd.read = L.qd := by rw [htr]; simp [Tracker.set, Tracker.default, hz]
      exact Sit.recs _ (hQ.toAtIndex hL hrd) hrd
    · exact Sit.ques _ hQ (by rw [htr]; simp [Tracker.set, Tracker.default]; omega) (fun j => by rw [htr]; rfl)
  · simp [he, markDone] at hh

/-- **start (panic-freedom invariant).** After `new` and `header()` the invariant `Sane` of
    `run_documented` holds, whatever the bytes. -/
theorem sane_after_header (msg : Bytes) (r0 : Reader) (h0 : Reader.new msg = .ok r0) :
    Sane msg (r0.header msg).2 none := by
  have ht : r0.tr = Tracker.default := by
    unfold Reader.new at h0
    split at h0
    · simp at h0
    · simp only [Res.ok.injEq] at h0; rw [← h0]
  have hh := header_rout (RInv.new h0) ht
  cases hx : r0.header msg with
  | mk res r1 =>
    rw [hx] at hh
    cases res with
    | ok h => exact ⟨hh, fun m hm => by cases hm⟩
    | err e => exact ⟨hh, fun m hm => by cases hm⟩
    | panic p => exact hh.elim
    | ub => exact hh.elim

end Rsdns.C09
