/-
  Rsdns.Props.C13 — "Transport strategy and truncation fallback are honoured".

  `queryRaw` mirrors `query_raw_impl`: `udp_first()` / `tcp_allowed()` come from `Rsdns.Generated`, i.e.
  from the Rust source of the blocking client and of the async template on every run.
-/
import Rsdns.Model.Client
import Rsdns.Lemmas.Bits
import Rsdns.Lemmas.Guards

set_option linter.unusedVariables false

namespace Rsdns.C13

open Rsdns Generated

/-- the two strategy predicates, for the blocking client and for the async template: `Udp` and
    `NoTcp` start over UDP, only `NoTcp` forbids TCP (strategy numbering Udp = 0, Tcp = 1, NoTcp = 2) -/
theorem strategy_table :
    (std_udp_first 0 = true ∧ std_udp_first 1 = false ∧ std_udp_first 2 = true) ∧
    (std_tcp_allowed 0 = true ∧ std_tcp_allowed 1 = true ∧ std_tcp_allowed 2 = false) ∧
    (async_udp_first 0 = true ∧ async_udp_first 1 = false ∧ async_udp_first 2 = true) ∧
    (async_tcp_allowed 0 = true ∧ async_tcp_allowed 1 = true ∧ async_tcp_allowed 2 = false) := by
  decide

theorem udpFirst_eq (c : Cfg) (h : c.strat < 3) : c.udpFirst = (c.strat != 1) := by
  unfold Cfg.udpFirst
  have := strategy_table
  rcases c with ⟨a, rd, e, st, cb, qt, lt⟩
  simp only at h ⊢
  have h3 : st = 0 ∨ st = 1 ∨ st = 2 := by omega
  rcases h3 with rfl | rfl | rfl <;> cases a <;> simp_all

theorem tcpAllowed_eq (c : Cfg) (h : c.strat < 3) : c.tcpAllowed = (c.strat != 2) := by
  unfold Cfg.tcpAllowed
  have := strategy_table
  rcases c with ⟨a, rd, e, st, cb, qt, lt⟩
  simp only at h ⊢
  have h3 : st = 0 ∨ st = 1 ∨ st = 2 := by omega
  rcases h3 with rfl | rfl | rfl <;> cases a <;> simp_all

/-- **TCP-only: no datagram is ever sent** -/
theorem tcp_only_sends_no_datagram (c : Cfg) (hs : c.strat = 1) (id : Nat) (qname : Bytes)
    (qtype qclass buflen : Nat) (us ts : List (List Item)) (q : List Dgram) (d : Option Nat) :
    (queryRaw c id qname qtype qclass buflen us ts q d).seen.udp = [] := by
  have hu : c.udpFirst = false := by rw [udpFirst_eq c (by omega), hs]; rfl
  unfold queryRaw
  split
  · rfl
  · split <;> try rfl
    simp only [Cfg.udpBranch_eq, hu, Bool.false_eq_true, if_false]
    split <;> (try split) <;> rfl

/-- **UDP-only: no TCP connection is ever opened**, and a truncated response is returned as it is -/
theorem notcp_never_connects (c : Cfg) (hs : c.strat = 2) (id : Nat) (qname : Bytes)
    (qtype qclass buflen : Nat) (us ts : List (List Item)) (q : List Dgram) (d : Option Nat) :
    (queryRaw c id qname qtype qclass buflen us ts q d).seen.tcp = 0 := by
  have hu : c.udpFirst = true := by rw [udpFirst_eq c (by omega), hs]; rfl
  have ht : c.tcpAllowed = false := by rw [tcpAllowed_eq c (by omega), hs]; rfl
  unfold queryRaw
  split
  · rfl
  · split <;> try rfl
    simp only [Cfg.udpBranch_eq, Cfg.tcpFallback_eq, hu, if_true, ht, Bool.and_false, Bool.false_eq_true, if_false]
    split <;> rfl

/-- **default strategy**: a truncated UDP response makes the same question go out over TCP (one
    connection) and the TCP result is what the caller receives; an untruncated one is returned
    directly and no connection is made -/
theorem udp_fallback (c : Cfg) (hs : c.strat = 0) (id : Nat) (qname : Bytes) (qtype qclass buflen : Nat)
    (us ts : List (List Item)) (q : List Dgram) (msg : Bytes) (hb : ¬ buflen < DNS_MESSAGE_BUFFER_MIN_LENGTH)
    (hm : prepareMessage c id qname qtype qclass buflen = .ok msg) (bytes : Bytes) (flags at_ : Nat)
    (hx : (udpExchange c id qname qtype qclass buflen us none (c.lt / (c.qt.getD c.lt).max 1 + 2) 0 q []).outcome =
      .accepted bytes flags at_) :
    let run := queryRaw c id qname qtype qclass buflen us ts q none
    (flags_tc flags = true →
        run.seen.tcp = 1 ∧
        run.result = tcpResult (tcpFraming buflen (streamBefore (entryTimed (ts.getD 0 [.close]) at_ []) c.lt))) ∧
    (flags_tc flags = false → run.seen.tcp = 0 ∧ run.result = .ok bytes.size bytes) := by
  have hu : c.udpFirst = true := by rw [udpFirst_eq c (by omega), hs]; rfl
  have ht : c.tcpAllowed = true := by rw [tcpAllowed_eq c (by omega), hs]; rfl
  intro run
  constructor
  · intro htc
    simp only [run]
    unfold queryRaw
    simp only [Cfg.bufTooShort_eq, Cfg.udpBranch_eq, Cfg.tcpFallback_eq, decide_eq_true_eq, hb, if_false, hm, hu, if_true, hx, htc, ht, Bool.and_self]
    constructor <;> first | rfl | trivial
  · intro htc
    simp only [run]
    unfold queryRaw
    simp only [Cfg.bufTooShort_eq, Cfg.udpBranch_eq, Cfg.tcpFallback_eq, decide_eq_true_eq, hb, if_false, hm, hu, if_true, hx, htc, Bool.false_and, Bool.false_eq_true]
    constructor <;> first | rfl | trivial

/-- the truncation bit the clients look at is bit 9 of the flags word of the accepted response -/
theorem tc_bit (flags : Nat) : flags_tc flags = flags.testBit 9 := flags_tc_eq flags

/-! ### the transport decisions regenerated from `query_raw_impl` of both clients -/

/-- for the blocking client and for the async template alike: UDP is tried exactly when `udp_first()`
    says so, and the TCP re-ask happens exactly when the accepted answer has TC set and `tcp_allowed()` -/
theorem transport_decisions (c : Cfg) (tc : Bool) :
    c.udpBranch = c.udpFirst ∧ c.tcpFallback tc = (tc && c.tcpAllowed) :=
  ⟨Cfg.udpBranch_eq c, Cfg.tcpFallback_eq c tc⟩

end Rsdns.C13
