/-
  Rsdns.Props.PinRRSet — the gates and the matching tests of `RecordSet::from_msg`
  (`src/records/record_set.rs`), read from the source on every run (`Generated.rrset_*`,
  `message_type_is_response`, `RCODE_NOERROR`), are the tests the model (`Rsdns.Model.RecordSet`) performs.

  C07 ("non-answers are never turned into answers") is about exactly these three gates, C06 about the two
  matching tests and the TTL fold: a gate weakened, a conjunct of the match dropped (owner, type or class),
  `max` for `min`, or the OPT search keyed on another type changes `Generated.lean`, and the equation
  below that mentions it stops checking.  Proofs are by cases on the Booleans, so a reordering of the
  conjuncts still checks.
-/
import Rsdns.Model.RecordSet

namespace Rsdns.PinRRSet

open Rsdns Generated

/-- gate 1: `flags.message_type() != MessageType::Response`, with `message_type()` made from the QR bit
    (`flags_qr`, regenerated separately) by `From<bool>`: the model's `!(flags_qr flags)` -/
theorem response_gate (flags : Nat) :
    rrset_not_response (message_type_is_response (flags_qr flags)) = !(flags_qr flags) := by
  unfold rrset_not_response message_type_is_response
  cases flags_qr flags <;> rfl

/-- gate 2: `flags.truncated()` -/
theorem truncation_gate (flags : Nat) : rrset_truncated (flags_tc flags) = flags_tc flags := by
  unfold rrset_truncated
  cases flags_tc flags <;> rfl

/-- gate 3: `response_code != RCode::NOERROR` on the (possibly OPT-extended) code: the model's `rcode ≠ 0` -/
theorem rcode_gate (p : Prefix) : (rrset_bad_rcode p.rcode = true) ↔ p.rcode ≠ 0 := by
  unfold rrset_bad_rcode RCODE_NOERROR
  generalize p.rcode = r
  constructor <;> intro h <;> simp_all <;> omega

/-- a data record joins the set iff owner, type AND class match — the test of `extractRRSet` -/
theorem record_match (eq : Bool) (rtype code rclass qclass : Nat) :
    rrset_record_matches eq (rtype == code) (rclass == qclass) = (eq && rtype == code && rclass == qclass) := by
  unfold rrset_record_matches
  cases eq <;> cases (rtype == code) <;> cases (rclass == qclass) <;> rfl

/-- a CNAME is followed iff owner, type (CNAME) AND class match — the test of `extractCname` -/
theorem cname_match (eq : Bool) (rtype rclass qclass : Nat) :
    rrset_cname_matches eq (rtype == TYPE_CNAME) (rclass == qclass) = (eq && rtype == TYPE_CNAME && rclass == qclass) := by
  unfold rrset_cname_matches
  cases eq <;> cases (rtype == TYPE_CNAME) <;> cases (rclass == qclass) <;> rfl

/-- the set's TTL is the running minimum, and the set counts as found iff it holds data -/
theorem ttl_and_found (ttl rttl : Nat) (rd : List RData) :
    rrset_ttl_step ttl rttl = Nat.min ttl rttl ∧ rrset_found rd.isEmpty = !rd.isEmpty := by
  constructor
  · unfold rrset_ttl_step
    simp only [Nat.min_def]
  · unfold rrset_found; rfl

/-- the OPT search stops at TYPE 41 -/
theorem opt_test (rtype : Nat) : (rrset_is_opt rtype = true) ↔ rtype = TYPE_OPT := by
  unfold rrset_is_opt
  constructor <;> intro h <;> simp_all <;> omega

/-- one step of the model's `extractRRSet`, written with the regenerated tests -/
theorem extract_step_is_model (msg : Bytes) (t : RType) (r : Reader) (name hn : Cur) (m : Marker) (rclass : Nat)
    (rest out : List (Option HdrRef)) (ttl : Nat) (rd : List RData) (eq : Bool)
    (he : nameRefEqQ msg hn name = .ok eq)
    (hm : rrset_record_matches eq (m.rtype == t.code) (m.rclass == rclass) = false) :
    extractRRSet msg t r name rclass (some (hn, m) :: rest) ttl rd out =
      extractRRSet msg t r name rclass rest ttl rd (some (hn, m) :: out) := by
  rw [record_match] at hm
  rw [extractRRSet, he]
  simp only [hm, Bool.false_eq_true, if_false]

end Rsdns.PinRRSet
