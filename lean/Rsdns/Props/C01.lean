/-
  Rsdns.Props.C01 — "Hostile bytes never crash, hang or over-read the decoder".

  `Res.safe` = the call returned a value or an error: neither `panic` nor `ub`.
  Termination is not a theorem but a precondition of these definitions existing at all: `walk`,
  `nextImpl`, `Labels.drain`, `nameRefEqLoop`, `txtLoop` are accepted by Lean only with the
  well-founded measures given next to them (Rsdns/Model/Labels.lean, RData.lean) — the pointer budget
  strictly decreases on every jump, the remaining view on every label. `walk_steps` makes the
  resulting work bound explicit.
-/
import Rsdns.Lemmas.Reader
import Rsdns.Lemmas.ReaderSafe
import Rsdns.Lemmas.RecordSetSafe
import Rsdns.Lemmas.IterSafe
import Rsdns.Model.RecordSet

set_option linter.unusedVariables false

namespace Rsdns.C01

open Rsdns Generated

/-- names: `read_domain_name::<Name|InlineName>`, `skip_domain_name`, the `Labels` iterator — from any
    cursor whose view lies inside the buffer, on any bytes -/
theorem names_safe (msg : Bytes) (c : Cur) (h : Cur.OK msg c) (k : NameKind) :
    (readName k msg c).safe ∧ (skipName msg c).safe ∧ (Labels.drain msg (Labels.new c) []).safe :=
  ⟨readName_safe k msg c h, skipName_safe msg c h, drain_safe msg _ _ (Labels.Inv.new h)⟩

/-- borrowed names: `NameRef::eq` / `ne` and `TryFrom<NameRef>` -/
theorem nameref_safe (msg : Bytes) (a b : Cur) (ha : Cur.OK msg a) (hb : Cur.OK msg b) :
    (nameRefEq msg msg a b).safe ∧ (nameRefToName .heap msg a).safe ∧ (nameRefToName .inline msg a).safe := by
  refine ⟨nameRefEqLoop_safe msg msg _ _ (Labels.Inv.new ha) (Labels.Inv.new hb), ?_, ?_⟩
  · have := readName_safe .heap msg a ha
    unfold nameRefToName
    cases h : readName .heap msg a <;> simp_all
  · have := readName_safe .inline msg a ha
    unfold nameRefToName
    cases h : readName .inline msg a <;> simp_all

/-- typed record data, all 17 types, any announced RDLENGTH: in particular WKS' `rd_len - 5` and TXT's
    `rd_len -= len + 1` never underflow -/
theorem rdata_safe (t : RType) (msg : Bytes) (c : Cur) (h : Cur.OK msg c) (rdLen : Nat) :
    (readRData t msg rdLen c).1.safe := by
  have := readRData_spec t msg rdLen c h
  cases hr : readRData t msg rdLen c with
  | mk res c' => rw [hr] at this; cases res <;> simp_all

/-- the cursor-style reader, ANY call history with ANY markers: no undefined behaviour, i.e. no memory
    outside the supplied buffer is ever touched (panics are excluded under the documented call
    order by `reader_safe` below; off the protocol they do occur: a data call with a foreign marker
    trips a debug assertion) -/
theorem reader_no_over_read (msg : Bytes) (r0 : Reader) (ops : List Op) (h0 : Reader.new msg = .ok r0) :
    ∀ o ∈ (Reader.run msg r0 ops).1, o.noUB :=
  (run_ok ops (RInv.new h0)).1

/-- **the cursor-style reader never panics on a conforming history, whatever the bytes.**
    For every byte string `msg` that `MessageReader::new` accepts and every call history that calls
    `header()` first and once, makes each data call (`skip_record_data`, `record_data_bytes`,
    `record_data::<D>` for any of the 17 types — also a type that is not the record's —, `opt_record`
    for an OPT marker) with the marker the preceding record-header call returned, and is otherwise
    arbitrary (questions and record headers in any order, `seek`s, counts, marker-based random access
    with any marker): every call returns a value or an error.  No debug assertion fires, no checked
    counter arithmetic overflows or underflows, no unchecked read leaves the buffer.
    `Conforms` / `Permitted`: Rsdns/Lemmas/ReaderSafe.lean; `C09.Allowed` (the documented order) implies
    `Permitted` (`Permitted.of_allowed`). -/
theorem reader_safe (msg : Bytes) (r0 : Reader) (ops : List Op) (h0 : Reader.new msg = .ok r0)
    (hC : Conforms msg (r0.header msg).2 none ops) :
    (r0.header msg).1.safe ∧ ∀ o ∈ (Reader.run msg (r0.header msg).2 ops).1, o.safe := by
  have hinv := RInv.new h0
  have ht : r0.tr = Tracker.default := by
    unfold Reader.new at h0
    split at h0
    · simp at h0
    · simp only [Res.ok.injEq] at h0; rw [← h0]
  have hh := header_rout hinv ht
  refine ⟨hh.safe, ?_⟩
  have hS : Sane msg (r0.header msg).2 none := by
    cases hx : r0.header msg with
    | mk res r1 =>
      rw [hx] at hh
      cases res with
      | ok h => exact ⟨hh, fun m hm => by cases hm⟩
      | err e => exact ⟨hh, fun m hm => by cases hm⟩
      | panic p => exact hh.elim
      | ub => exact hh.elim
  exact run_sane ops _ none hS hC

/-- non-vacuity: calls that are permitted in every state, on every message -/
example (msg : Bytes) (r : Reader) (p : Option Marker) :
    Conforms msg r p [.question .question, .skipQuestions, .recordHeader .marker, .seek 2, .recordsCount,
      .recordHeader (.owned .heap), .questionsCount] := by
  simp [Conforms, Permitted]

/-- non-vacuity: a data call with the marker that the record-header call just returned is permitted -/
example (msg : Bytes) (r : Reader) (p : Option Marker) (k : HKind) (n : HName) (m : Marker) (t : RType)
    (h : (r.step msg (.recordHeader k)).1 = .ok (.hdr n m)) :
    Conforms msg r p [.recordHeader k, .nameRefAt m, .data t m] := by
  simp only [Conforms, h, C09.nextPend, Permitted, and_true, true_and]

/-- **`RecordSet::<D>::from_msg`, every byte string, every record type:** a record set or an error -/
theorem rrset_safe (t : RType) (msg : Bytes) : (fromMsg t msg).safe := fromMsg_safe t msg

/-- **the iterator API, every byte string:** `MessageIterator::new`, and on the iterator it returns
    `questions()` and `records()` drained to the end (an `Err` item is an item, not a crash) and
    `question()` -/
theorem iter_safe (msg : Bytes) :
    (MsgIter.new msg).safe ∧ ∀ mi, MsgIter.new msg = .ok mi →
      (mi.questions msg).safe ∧ (mi.question msg).safe ∧ (mi.records msg).safe :=
  ⟨(MsgIter.new_safe msg).1, fun mi h => ⟨MsgIter.questions_safe msg mi, MsgIter.question_safe msg mi,
    MsgIter.records_safe msg mi h⟩⟩

/-- messages longer than 65535 bytes are refused by the cursor-style reader, nothing else is -/
theorem reader_new_total (msg : Bytes) :
    (∃ r, Reader.new msg = .ok r) ∨ (Reader.new msg = .err (.messageTooLong msg.size) ∧ msg.size > 65535) := by
  unfold Reader.new
  split
  · right; exact ⟨rfl, by assumption⟩
  · left; exact ⟨_, rfl⟩

/-- work bound of the label loop: the number of iterations is at most
    `(MAX_POINTERS + 1) · (view length + 1)` — compression pointers cannot make it loop -/
theorem walk_steps (msg : Bytes) (m : Mode) (s : LSt) (acc : Bytes) (ls : List Bytes) (n : Nat) (o : WalkOut)
    (h : walk msg m s acc ls n = .ok o) (hn : s.nptr ≤ DOMAIN_NAME_MAX_POINTERS) :
    o.steps ≤ n + (DOMAIN_NAME_MAX_POINTERS - s.nptr) * (s.cur.lim + 1) + (s.cur.lim - s.cur.pos) + 1 := by
  fun_induction walk msg m s acc ls n with
  | case1 => simp at h
  | case2 => simp at h
  | case3 => simp at h
  | case4 s acc ls n s' hst =>
    simp only [Res.ok.injEq] at h
    subst h
    simp only
    omega
  | case5 => simp at h
  | case6 => simp at h
  | case7 => simp at h
  | case8 s acc ls n bytes p s' hst acc' hon ih =>
    have hl := iterStep_label hst
    have := ih h (by omega)
    rw [hl.1, hl.2.2.1] at this
    omega
  | case9 s acc ls n s' hst ih =>
    have hj := iterStep_jump hst
    have := ih h hj.2.1
    rw [hj.2.2.1] at this
    have hmul : (DOMAIN_NAME_MAX_POINTERS - s'.nptr) * (s.cur.lim + 1) + (s.cur.lim + 1) =
        (DOMAIN_NAME_MAX_POINTERS - s.nptr) * (s.cur.lim + 1) := by
      have : DOMAIN_NAME_MAX_POINTERS - s.nptr = (DOMAIN_NAME_MAX_POINTERS - s'.nptr) + 1 := by omega
      rw [this, Nat.add_mul, Nat.one_mul]
    omega

end Rsdns.C01
