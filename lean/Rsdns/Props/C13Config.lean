/-
  Rsdns.Props.C13Config — from the builder calls to the configuration a client runs with.

  C13 (and C11) speak about "the strategy / recursion / EDNS *as configured*".  A configuration is made
  by one of two constructors and any sequence of builder-style setters (Rsdns/Model/Config.lean, validated
  against the real `ClientConfig` by the `cfg` stream).  Proved here, for every sequence of calls: each
  field holds the argument of the LAST call that sets it (`strat_last_set`, `rd_last_set`, `edns_last_set`,
  `qt_last_set`, `lt_last_set`, `buf_last_set`, `ns_last_set`) — in particular changing the name server,
  to either address family, changes nothing but the name server and a wildcard bind address
  (`setNs_frame`, `setNs_bind`) — and the C13 theorems about the client then hold for the configuration
  built (`built_notcp_never_connects`, `built_tcp_only`).
-/
import Rsdns.Props.C13
import Rsdns.Model.Config

set_option linter.unusedVariables false

namespace Rsdns.C13

open Rsdns Generated

/-- the value a builder sequence leaves in a field: the argument of the last call that sets it, the
    initial value if there is none (`f op` = what `op` writes into the field, if it does) -/
def lastOf {α} (f : CfgOp → Option α) : α → List CfgOp → α
  | a, [] => a
  | a, op :: ops => lastOf f ((f op).getD a) ops

/-- a field that every builder call either sets to its argument or leaves alone has, after any
    sequence of calls, the value of the last call that sets it -/
theorem build_field {α} (π : Config → α) (f : CfgOp → Option α)
    (hstep : ∀ c op, π (c.apply op) = (f op).getD (π c)) (c : Config) (ops : List CfgOp) :
    π (c.build ops) = lastOf f (π c) ops := by
  unfold Config.build
  induction ops generalizing c with
  | nil => rfl
  | cons op ops ih => simp only [List.foldl_cons, lastOf]; rw [ih, hstep]

def stratOf : CfgOp → Option Nat | .setStrat s => some s | _ => none
def rdOf : CfgOp → Option Bool | .setRd b => some b | _ => none
def ednsOf : CfgOp → Option (Option (Nat × Nat)) | .setEdns e => some e | _ => none
def qtOf : CfgOp → Option (Option Nat) | .setQt q => some q | _ => none
def ltOf : CfgOp → Option Nat | .setLt n => some n | _ => none
def nsOf : CfgOp → Option Addr | .setNs a => some a | _ => none
/-- `set_buffer_size` stores 0 for 0 and at least 512 otherwise -/
def bufOf : CfgOp → Option Nat
  | .setBuf n => some (if n > 0 then Nat.max n DNS_MESSAGE_BUFFER_MIN_LENGTH else 0)
  | _ => none

theorem setNs_frame (c : Config) (a : Addr) :
    (c.setNs a).ns = a ∧ (c.setNs a).lt = c.lt ∧ (c.setNs a).qt = c.qt ∧ (c.setNs a).strat = c.strat ∧
    (c.setNs a).rd = c.rd ∧ (c.setNs a).buf = c.buf ∧ (c.setNs a).edns = c.edns := by
  unfold Config.setNs
  simp only
  split <;> split <;> simp

/-- **The strategy a configuration carries is the last one set** — whatever else is set before or
    after it, the name server (of either address family) included; `Udp` if none is ever set. -/
theorem strat_last_set (c : Config) (ops : List CfgOp) : (c.build ops).strat = lastOf stratOf c.strat ops :=
  build_field Config.strat stratOf (by
    intro c op; cases op <;> simp [Config.apply, stratOf, (setNs_frame c _).2.2.2.1, Config.setBuf]) c ops

theorem rd_last_set (c : Config) (ops : List CfgOp) : (c.build ops).rd = lastOf rdOf c.rd ops :=
  build_field Config.rd rdOf (by
    intro c op; cases op <;> simp [Config.apply, rdOf, (setNs_frame c _).2.2.2.2.1, Config.setBuf]) c ops

theorem edns_last_set (c : Config) (ops : List CfgOp) : (c.build ops).edns = lastOf ednsOf c.edns ops :=
  build_field Config.edns ednsOf (by
    intro c op; cases op <;> simp [Config.apply, ednsOf, (setNs_frame c _).2.2.2.2.2.2, Config.setBuf]) c ops

theorem qt_last_set (c : Config) (ops : List CfgOp) : (c.build ops).qt = lastOf qtOf c.qt ops :=
  build_field Config.qt qtOf (by
    intro c op; cases op <;> simp [Config.apply, qtOf, (setNs_frame c _).2.2.1, Config.setBuf]) c ops

theorem lt_last_set (c : Config) (ops : List CfgOp) : (c.build ops).lt = lastOf ltOf c.lt ops :=
  build_field Config.lt ltOf (by
    intro c op; cases op <;> simp [Config.apply, ltOf, (setNs_frame c _).2.1, Config.setBuf]) c ops

theorem ns_last_set (c : Config) (ops : List CfgOp) : (c.build ops).ns = lastOf nsOf c.ns ops :=
  build_field Config.ns nsOf (by
    intro c op; cases op <;> simp [Config.apply, nsOf, (setNs_frame c _).1, Config.setBuf]) c ops

theorem buf_last_set (c : Config) (ops : List CfgOp) : (c.build ops).buf = lastOf bufOf c.buf ops :=
  build_field Config.buf bufOf (by
    intro c op; cases op <;> simp [Config.apply, bufOf, (setNs_frame c _).2.2.2.2.2.1, Config.setBuf]) c ops

/-- `set_nameserver` and the bind address: an explicit one is kept, the wildcard follows the family -/
theorem setNs_bind (c : Config) (a : Addr) :
    (c.setNs a).bind =
      if c.bind = Addr.unspec4 ∨ c.bind = Addr.unspec6 then (if a.v6 then Addr.unspec6 else Addr.unspec4)
      else c.bind := by
  unfold Config.setNs
  rcases c with ⟨ns, b, lt, qt, st, rd, bf, ed⟩
  cases hv : a.v6 <;> by_cases h4 : b = Addr.unspec4 <;> by_cases h6 : b = Addr.unspec6 <;>
    simp_all [Addr.unspec4, Addr.unspec6]

/-- both constructors start with the default strategy `Udp` -/
theorem ctor_strat (a : Addr) : Config.new.strat = 0 ∧ (Config.withNameserver a).strat = 0 := ⟨rfl, rfl⟩

/-- **C13 from the builder to the wire.**  Whatever sequence of builder calls made the configuration:
    if the last strategy set is `NoTcp`, a client made from it never opens a TCP connection; if it is
    `Tcp`, it never sends a datagram. -/
theorem built_notcp_never_connects (c0 : Config) (ops : List CfgOp) (async : Bool)
    (h : lastOf stratOf c0.strat ops = 2) (id : Nat) (qname : Bytes)
    (qtype qclass buflen : Nat) (us ts : List (List Item)) (q : List Dgram) (d : Option Nat) :
    (queryRaw ((c0.build ops).toCfg async) id qname qtype qclass buflen us ts q d).seen.tcp = 0 :=
  notcp_never_connects _ (by simp [Config.toCfg, strat_last_set, h]) id qname qtype qclass buflen us ts q d

theorem built_tcp_only (c0 : Config) (ops : List CfgOp) (async : Bool)
    (h : lastOf stratOf c0.strat ops = 1) (id : Nat) (qname : Bytes)
    (qtype qclass buflen : Nat) (us ts : List (List Item)) (q : List Dgram) (d : Option Nat) :
    (queryRaw ((c0.build ops).toCfg async) id qname qtype qclass buflen us ts q d).seen.udp = [] :=
  tcp_only_sends_no_datagram _ (by simp [Config.toCfg, strat_last_set, h]) id qname qtype qclass buflen us ts q d

/-- non-vacuity: a configuration first made for an IPv6 resolver, set to `NoTcp`, re-targeted at an
    IPv4 one: the strategy survives, the wildcard bind address follows the family -/
example :
    let c := (Config.withNameserver ⟨true, 1, 53⟩).build [.setStrat 2, .setNs ⟨false, 0x7f000001, 53⟩]
    c.strat = 2 ∧ c.bind = Addr.unspec4 ∧ c.ns = ⟨false, 0x7f000001, 53⟩ := by decide

end Rsdns.C13
