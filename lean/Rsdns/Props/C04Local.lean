/-
  Rsdns.Props.C04Local — C04, "no byte of a following record ever appears in a decoded value", stated
  as independence: the typed read is a function of the bytes below `RDATA start + RDLENGTH` alone.
  Helper lemmas: Lemmas/Local.lean.
-/
import Rsdns.Lemmas.Local
import Rsdns.Model.Reader
set_option linter.unusedVariables false
namespace Rsdns.C04
open Rsdns Generated Spec

/-- **C04, locality.**  The outcome of a typed RDATA read — value or error, and the cursor it leaves —
    is a function of the message bytes BELOW the end of the announced RDLENGTH only: two messages that
    agree on their first `pos + RDLENGTH` bytes give the same outcome, whatever follows (the next
    record, other sections, garbage).  Bytes in front of the record may matter (compression pointers
    inside RDATA names point backwards); bytes behind it never do. -/
theorem rdata_local (t : RType) (a b : Bytes) (c : Cur) (n : Nat) (hA : Agree (c.pos + n) a b)
    (hla : c.lim ≤ a.size) (hlb : c.lim ≤ b.size) : readRData t a n c = readRData t b n c := by
  unfold readRData
  show CurM.bind (CurM.window a n) (fun _ => CurM.bind (readRDataBody t a n) (fun rr =>
      CurM.bind CurM.closeWindow (fun _ => CurM.pure rr))) c =
    CurM.bind (CurM.window b n) (fun _ => CurM.bind (readRDataBody t b n) (fun rr =>
      CurM.bind CurM.closeWindow (fun _ => CurM.pure rr))) c
  unfold CurM.bind
  rw [← window_congr a b c n hla hlb]
  cases hw : CurM.window a n c with
  | mk res cw =>
    cases res with
    | ok u =>
      simp only
      have hcw : cw.lim ≤ c.pos + n := by
        simp only [CurM.window, CurM.lift0, Cur.window] at hw
        by_cases ho : c.orig.isNone = true
        · simp only [ho, if_true] at hw
          by_cases hf : c.fits n = true
          · simp only [hf, if_true] at hw
            by_cases hp : c.pos + n ≤ c.lim ∧ c.lim ≤ a.size
            · simp only [hp, and_self, if_true, Prod.mk.injEq, true_and] at hw
              rw [← hw]; exact Nat.le_refl _
            · simp [hp] at hw
          · simp [hf] at hw
        · simp [ho] at hw
      rw [← (CongrM.body hA t n cw hcw).1]
    | err e => rfl
    | panic p => rfl
    | ub => rfl

/-- the same for the reader's typed data call: `record_data::<D>(marker)` on two messages that agree
    up to the end of the marker's RDATA returns the same outcome and leaves the same reader -/
theorem data_local (t : RType) (a b : Bytes) (r : Reader) (m : Marker) (hA : Agree (m.rdataPos + m.rdlen) a b)
    (hla : r.cur.lim ≤ a.size) (hlb : r.cur.lim ≤ b.size) : r.data a t m = r.data b t m := by
  unfold Reader.data Reader.assertAt
  split
  · rename_i hp
    split
    · rfl
    · unfold Reader.onCur
      rw [rdata_local t a b r.cur m.rdlen (by rw [hp]; exact hA) hla hlb]
  · rfl

/-- non-vacuity: appending anything to a message leaves its first bytes as they were -/
theorem Agree.append (a x y : Bytes) : Agree a.size (a ++ x) (a ++ y) := by
  refine ⟨by simp, by simp, ?_⟩
  intro i hi
  rw [Array.getElem?_append_left hi, Array.getElem?_append_left hi]

/-- so: whatever follows a record's RDATA in the message, the typed read of that record is the same -/
example (t : RType) (head x y : Bytes) (p n : Nat) (h : p + n = head.size) :
    readRData t (head ++ x) n { lim := head.size, pos := p, orig := none } =
      readRData t (head ++ y) n { lim := head.size, pos := p, orig := none } :=
  rdata_local t _ _ _ n (by rw [show ({ lim := head.size, pos := p, orig := none } : Cur).pos + n = head.size from h]; exact Agree.append head x y)
    (by simp) (by simp)

end Rsdns.C04
