/-
  Rsdns.Props.PinNames — the length gates of the two name types and of the text validator, read from
  `Name::append_label_bytes`, `InlineName::append_label_bytes` (decode path) and `check_name_bytes` on
  every run.  This is the arithmetic defect F3 sat in (a 256-octet wire name was accepted) and that
  seeded changes keep returning to; the model's `appendLabelBytes` / `checkNameBytes` use these forms.
-/
import Rsdns.Model.NameText

namespace Rsdns.PinNames

open Rsdns Generated

/-- both name types compute the same new text length and apply the same gate -/
theorem inline_gate_is_heap_gate (n l k : Nat) :
    inline_decoded_new_len n l = name_decoded_new_len n l ∧ inline_decoded_too_long k = name_decoded_too_long k :=
  ⟨rfl, rfl⟩

/-- `new_len = len + label.len() + 1`, refused when `new_len >= DOMAIN_NAME_MAX_LENGTH` (text length + the
    terminating zero of the wire form must not exceed 255) — the test `appendLabelBytes` performs -/
theorem decoded_gate (n l : Nat) (h : n + l + 1 < 2 ^ 64) :
    name_decoded_new_len n l = n + l + 1 ∧
    name_decoded_too_long (name_decoded_new_len n l) = decide (n + l + 1 ≥ DOMAIN_NAME_MAX_LENGTH) := by
  have h1 : name_decoded_new_len n l = n + l + 1 := by
    unfold name_decoded_new_len
    have : (n + l) % 18446744073709551616 = n + l := Nat.mod_eq_of_lt (by omega)
    rw [this]
    exact Nat.mod_eq_of_lt (by omega)
  exact ⟨h1, by rw [h1]; rfl⟩

/-- the model's decode-path append refuses exactly when the source's gate does -/
theorem append_gate_is_model (k : NameKind) (name label : Bytes) (hc : checkLabel label = .ok ())
    (ha : label.all (fun b => b.toNat < 128) = true) (hs : name.size + label.size + 1 < 2 ^ 64)
    (hg : name_decoded_too_long (name_decoded_new_len name.size label.size) = true) :
    appendLabelBytes k name label = .err (.nameTooLong (name.size + label.size + 1 + 1)) := by
  have hd := decoded_gate name.size label.size hs
  rw [hd.2] at hg
  have hg' : name.size + label.size + 1 ≥ DOMAIN_NAME_MAX_LENGTH := by simpa using hg
  unfold appendLabelBytes
  simp [hc, ha, hg']

/-- text side: `full_length` is the wire length of the text (`len + 1` with the final dot, `len + 2`
    without), refused above `DOMAIN_NAME_MAX_LENGTH` -/
theorem text_gate (len : Nat) (h : len + 2 < 2 ^ 64) :
    text_too_long (text_full_len_dotted len) = decide (len + 1 > DOMAIN_NAME_MAX_LENGTH) ∧
    text_too_long (text_full_len_undotted len) = decide (len + 2 > DOMAIN_NAME_MAX_LENGTH) := by
  unfold text_full_len_dotted text_full_len_undotted text_too_long
  rw [Nat.mod_eq_of_lt (by omega : len + 1 < 18446744073709551616),
      Nat.mod_eq_of_lt (by omega : len + 2 < 18446744073709551616)]
  exact ⟨rfl, rfl⟩

/-- the longest text the decoders can produce passes the text validator's gate and the shortest refused one
    does not: 254 characters with the dot, i.e. 255 wire octets -/
example : text_too_long (text_full_len_dotted 254) = false ∧ text_too_long (text_full_len_dotted 255) = true ∧
    name_decoded_too_long (name_decoded_new_len 190 63) = false ∧ name_decoded_too_long (name_decoded_new_len 191 63) = true := by
  decide

end Rsdns.PinNames
