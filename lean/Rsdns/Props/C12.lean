/-
  Rsdns.Props.C12 — "Only the matching response is accepted over UDP".

  `udpAccept` is the body of `udp_receive_loop` on the bytes `recv` put into the buffer (`recvInto`: a
  datagram longer than the buffer arrives truncated — kernel behaviour, assumed); `recvLoop` runs it over
  the datagrams that arrive, `scanWindow` over a timed queue.
-/
import Rsdns.Model.Client
import Rsdns.Lemmas.Guards

set_option linter.unusedVariables false

namespace Rsdns.C12

open Rsdns

/-- **C12 / soundness of the filter.** An accepted datagram decodes (as a message of at most 65535
    bytes) to a header with the query's ID and — `the_question` — exactly one question whose type and
    class equal the asked ones and whose name equals the asked name the way `InlineName == &str` compares
    (ASCII-case-insensitively, root dot optional). -/
theorem accept_sound (id : Nat) (qname : Bytes) (qtype qclass : Nat) (d : Bytes) (flags : Nat)
    (h : udpAccept id qname qtype qclass d = some flags) :
    ∃ mr hd mr1 q mr2, Reader.new d = .ok mr ∧ mr.header d = (.ok hd, mr1) ∧ hd.id = id ∧ hd.flags = flags ∧
      mr1.question d .theQuestion = (.ok (.owned q), mr2) ∧ q.qtype = qtype ∧ q.qclass = qclass ∧
      nameEqStr q.qname qname = true := by
  unfold udpAccept at h
  simp only [std_udp_id_reject_eq, std_udp_question_match_eq, bne_iff_ne] at h
  split at h <;> try (simp at h; done)
  rename_i mr hn
  split at h <;> try (simp at h; done)
  rename_i hd mr1 hh
  split at h
  · simp at h
  · rename_i hid
    split at h <;> try (simp at h; done)
    rename_i q mr2 hq
    by_cases hc : (q.qtype == qtype && q.qclass == qclass && nameEqStr q.qname qname) = true
    · rw [if_pos hc] at h
      simp only [Bool.and_eq_true, beq_iff_eq] at hc
      simp only [Option.some.injEq] at h
      exact ⟨mr, hd, mr1, q, mr2, hn, hh, by simpa using hid, h, hq, hc.1.1, hc.1.2, hc.2⟩
    · rw [if_neg hc] at h
      simp at h

/-- **C12 / first match.** The loop returns the first datagram (in arrival order) that passes the
    filter, with exactly its bytes; everything before it was ignored. -/
theorem loop_first (id : Nat) (qname : Bytes) (qtype qclass buflen : Nat) (ds : List Bytes) (i j : Nat)
    (b : Bytes) (f : Nat) (h : recvLoop id qname qtype qclass buflen ds i = some (j, b, f)) :
    ∃ k, j = i + k ∧ k < ds.length ∧ b = recvInto buflen (ds.getD k #[]) ∧
      udpAccept id qname qtype qclass b = some f ∧
      ∀ m, m < k → udpAccept id qname qtype qclass (recvInto buflen (ds.getD m #[])) = none := by
  induction ds generalizing i with
  | nil => simp [recvLoop] at h
  | cons d ds ih =>
    unfold recvLoop at h
    cases ha : udpAccept id qname qtype qclass (recvInto buflen d) with
    | some flags =>
      simp only [ha, Option.some.injEq, Prod.mk.injEq] at h
      obtain ⟨rfl, rfl, rfl⟩ := h
      exact ⟨0, rfl, by simp, by simp, ha, by intro m hm; omega⟩
    | none =>
      simp only [ha] at h
      obtain ⟨k, hj, hk, hb, hacc, hbefore⟩ := ih (i + 1) h
      refine ⟨k + 1, by omega, by simp; omega, by simpa using hb, hacc, ?_⟩
      intro m hm
      cases m with
      | zero => simpa using ha
      | succ m => simpa using hbefore m (by omega)

/-- datagrams that do not pass the filter — too short, unparsable, wrong ID, wrong / missing / extra
    questions — are skipped without ending the loop -/
theorem junk_ignored (id : Nat) (qname : Bytes) (qtype qclass buflen : Nat) (d : Bytes) (ds : List Bytes) (i : Nat)
    (h : udpAccept id qname qtype qclass (recvInto buflen d) = none) :
    recvLoop id qname qtype qclass buflen (d :: ds) i = recvLoop id qname qtype qclass buflen ds (i + 1) := by
  simp [recvLoop, h]

/-- the loop finds a matching datagram whenever one arrives -/
theorem loop_complete (id : Nat) (qname : Bytes) (qtype qclass buflen : Nat) (ds : List Bytes) (i : Nat)
    (h : ∃ d ∈ ds, (udpAccept id qname qtype qclass (recvInto buflen d)).isSome) :
    (recvLoop id qname qtype qclass buflen ds i).isSome := by
  induction ds generalizing i with
  | nil => simp at h
  | cons d ds ih =>
    unfold recvLoop
    cases ha : udpAccept id qname qtype qclass (recvInto buflen d) with
    | some f => simp
    | none =>
      simp only
      apply ih
      obtain ⟨d', hd', hs⟩ := h
      rcases List.mem_cons.mp hd' with rfl | hm
      · simp [ha] at hs
      · exact ⟨d', hm, hs⟩

/-- a header too short to hold 12 bytes, or a wrong ID, is never accepted -/
theorem reject_short (id : Nat) (qname : Bytes) (qtype qclass : Nat) (d : Bytes) (h : d.size < 12) :
    udpAccept id qname qtype qclass d = none := by
  unfold udpAccept
  split <;> try rfl
  rename_i mr hn
  have hcur : mr.cur = Cur.new d := by
    unfold Reader.new at hn
    split at hn
    · simp at hn
    · simp only [Res.ok.injEq] at hn; subst hn; rfl
  have : mr.header d = (.err .endOfBuffer, { mr with done := true }) := by
    unfold Reader.header Reader.onCur readHeader markDone
    have hl : ¬ (mr.cur.len ≥ Generated.HEADER_LENGTH) := by
      rw [hcur]; simp [Cur.len, Cur.new, Generated.HEADER_LENGTH]; omega
    simp [hl]
  simp [this]

/-! ### the filter expressions regenerated from the sources

`udpAccept` evaluates `Generated.std_udp_id_reject` and `Generated.std_udp_question_match`, which
`tools/extract.py` rewrites on every run from the text of `udp_receive_loop` in
`src/clients/std/client_impl.rs`; the copies taken from `templates/async_client_impl.rs` (tokio, async-std,
smol) are `Generated.async_*`.  The two theorems below are therefore obligations on the SOURCE: a conjunct
dropped or weakened in either loop, or a comparison changed in only one of them, stops them (and
`accept_sound`) from checking. -/

/-- the async template filters with the same two expressions as the blocking client -/
theorem async_filter_is_std :
    (∀ hid mid, Generated.async_udp_id_reject hid mid = Generated.std_udp_id_reject hid mid) ∧
    (∀ t c n, Generated.async_udp_question_match t c n = Generated.std_udp_question_match t c n) :=
  ⟨fun a b => by rw [async_udp_id_reject_eq, std_udp_id_reject_eq],
   fun t c n => by rw [async_udp_question_match_eq, std_udp_question_match_eq]⟩

/-- what the source's filter says: a datagram is passed over iff its ID differs; it is accepted iff type,
    class and name all match -/
theorem filter_closed_form (hid mid : Nat) (t c n : Bool) :
    (Generated.std_udp_id_reject hid mid = true ↔ hid ≠ mid) ∧
    (Generated.std_udp_question_match t c n = true ↔ t = true ∧ c = true ∧ n = true) := by
  constructor
  · rw [std_udp_id_reject_eq]; simp
  · rw [std_udp_question_match_eq]; simp [and_assoc]

end Rsdns.C12
