/-
  Rsdns.Props.C09 — "The cursor-style reader is a faithful state machine over the message".

  Part 1 (this section): the latch.  `done` is sticky, every failing sequential call sets it, an
  exhausted reader reports `ReaderDone`, a seek that reports `RecordsSectionOffsetUnknown` changes
  nothing, the count accessors report 0 in the error state.

  Part 2 (`Tracker` refinement, below): the section bookkeeping refines the linear pass — see the
  section header there.
-/
import Rsdns.Lemmas.Reader
import Rsdns.Lemmas.Tracker
import Rsdns.Lemmas.Pass

set_option linter.unusedVariables false

namespace Rsdns.C09

open Rsdns Generated

/-! ## Part 1: the error / exhaustion latch -/

/-- **sticky.** Once `done`, every sequential call that is gated by the flag reports `ReaderDone` and
    leaves the reader exactly as it was; the three count accessors report 0. -/
theorem done_sticky (msg : Bytes) (r : Reader) (h : r.done = true) :
    (∀ k, r.question msg k = (.err .readerDone, r)) ∧
    r.skipQuestions msg = (.err .readerDone, r) ∧
    (∀ k, r.recordHeader msg k = (.err .readerDone, r)) ∧
    (∀ s, r.seek msg s = (.err .readerDone, r)) ∧
    r.questionsCount = .ok 0 ∧ r.recordsCount = .ok 0 ∧ (∀ s, r.recordsCountIn s = .ok 0) := by
  refine ⟨?_, ?_, ?_, ?_, ?_, ?_, ?_⟩
  · intro k; simp [Reader.question, h]
  · simp [Reader.skipQuestions, h]
  · intro k; simp [Reader.recordHeader, h]
  · intro s; simp [Reader.seek, h]
  · simp [Reader.questionsCount, h]
  · simp [Reader.recordsCount, h]
  · intro s; simp [Reader.recordsCountIn, h]

/-- the data calls of a `done` reader: `ReaderDone` (or the documented debug assertion when the marker is
    not the one the reader stands at), state unchanged -/
theorem done_sticky_data (msg : Bytes) (r : Reader) (h : r.done = true) (m : Marker) (t : RType) :
    (r.skipData m = (.err .readerDone, r) ∨ r.skipData m = (.panic .debugAssert, r)) ∧
    (r.dataBytes msg m = (.err .readerDone, r) ∨ r.dataBytes msg m = (.panic .debugAssert, r)) ∧
    (r.data msg t m = (.err .readerDone, r) ∨ r.data msg t m = (.panic .debugAssert, r)) ∧
    r.optRecord m = (.err .readerDone, r) := by
  refine ⟨?_, ?_, ?_, ?_⟩
  · unfold Reader.skipData Reader.assertAt
    by_cases hp : r.cur.pos = m.rdataPos <;> simp [hp, h]
  · unfold Reader.dataBytes Reader.assertAt
    by_cases hp : r.cur.pos = m.rdataPos <;> simp [hp, h]
  · unfold Reader.data Reader.assertAt
    by_cases hp : r.cur.pos = m.rdataPos <;> simp [hp, h]
  · simp [Reader.optRecord, h]

/-- `markDone` latches on every error -/
theorem markDone_latches {α} (x : Res α × Reader) (e : Err) (h : (markDone x).1 = .err e) :
    (markDone x).2.done = true := by
  obtain ⟨res, r⟩ := x
  cases res <;> simp_all [markDone]

theorem questionRead_not_err (t : Tracker) (pos : Nat) (e : Err) : t.questionRead pos ≠ .err e := by
  unfold Tracker.questionRead
  by_cases h1 : t.qd.read + 1 > 65535
  · simp [h1]
  · simp only [h1, if_false]
    by_cases h2 : t.qd.total = t.qd.read + 1 <;> simp [h2]

theorem sectionRead_not_err (t : Tracker) (s pos : Nat) (e : Err) : t.sectionRead s pos ≠ .err e := by
  unfold Tracker.sectionRead
  by_cases h1 : (t.sec s).read + 1 > 65535
  · simp [h1]
  · simp only [h1, if_false]
    by_cases h2 : (t.sec s).total = (t.sec s).read + 1 <;> simp [h2]

/-- **latch.** A failing sequential call leaves the reader in the error state. -/
theorem question_error_latches (msg : Bytes) (r r' : Reader) (k : QKind) (e : Err)
    (h : r.question msg k = (.err e, r')) : r'.done = true := by
  unfold Reader.question at h
  by_cases hd : r.done = true
  · simp only [hd, if_true, Prod.mk.injEq] at h; rw [← h.2]; exact hd
  · simp only [hd, Bool.false_eq_true, if_false] at h
    rcases Counts.left_cases r.tr.qd with ⟨n, hn⟩ | ⟨p, hp⟩
    · simp only [Tracker.questionsLeft, hn] at h
      split at h
      · simp only [Prod.mk.injEq] at h; rw [← h.2]
      · split at h
        · simp only [Prod.mk.injEq] at h; rw [← h.2]
        · generalize Reader.readQ msg (k == QKind.question || k == QKind.theQuestion) r = x at h
          obtain ⟨res, r1⟩ := x
          cases res with
          | ok q =>
            simp only [Reader.afterQ] at h
            rcases hq : r1.tr.questionRead r1.cur.pos with t | e' | p | _
            · simp [hq] at h
            · exact absurd hq (questionRead_not_err _ _ _)
            · simp [hq] at h
            · simp [hq] at h
          | err e' => simp only [Reader.afterQ, Prod.mk.injEq] at h; rw [← h.2]
          | panic p => simp [Reader.afterQ] at h
          | ub => simp [Reader.afterQ] at h
    · simp [Tracker.questionsLeft, hp] at h

theorem skipQuestions_error_latches (msg : Bytes) (r r' : Reader) (e : Err)
    (h : r.skipQuestions msg = (.err e, r')) : r'.done = true := by
  unfold Reader.skipQuestions at h
  by_cases hd : r.done = true
  · simp only [hd, if_true, Prod.mk.injEq] at h; rw [← h.2]; exact hd
  · simp only [hd, Bool.false_eq_true, if_false] at h
    have := markDone_latches (r.skipQuestionsImpl msg r.qFuel) e (by rw [h])
    rw [h] at this; exact this

theorem recordHeader_error_latches (msg : Bytes) (r r' : Reader) (k : HKind) (e : Err)
    (h : r.recordHeader msg k = (.err e, r')) : r'.done = true := by
  unfold Reader.recordHeader at h
  by_cases hd : r.done = true
  · simp only [hd, if_true, Prod.mk.injEq] at h; rw [← h.2]; exact hd
  · simp only [hd, Bool.false_eq_true, if_false] at h
    have := markDone_latches (r.headerImpl msg k) e (by rw [h])
    rw [h] at this; exact this

theorem header_error_latches (msg : Bytes) (r r' : Reader) (e : Err)
    (h : r.header msg = (.err e, r')) : r'.done = true := by
  unfold Reader.header at h
  have := markDone_latches _ e (by rw [h])
  rw [h] at this; exact this

theorem finishData_error_latches {α} (m : Marker) (x : Res α × Reader) (e : Err) (r' : Reader)
    (h : Reader.finishData m x = (.err e, r')) : r'.done = true := by
  obtain ⟨res, r1⟩ := x
  unfold Reader.finishData at h
  cases res with
  | ok v =>
    simp only at h
    rcases hsr : r1.tr.sectionRead m.section_ r1.cur.pos with t | e' | p | _
    · simp [hsr] at h
    · exact absurd hsr (sectionRead_not_err _ _ _ _)
    · simp [hsr] at h
    · simp [hsr] at h
  | err e' => simp only [Prod.mk.injEq] at h; rw [← h.2]
  | panic p => simp at h
  | ub => simp at h

/-- the data calls: an error latches too -/
theorem data_error_latches (msg : Bytes) (r r' : Reader) (m : Marker) (t : RType) (e : Err) :
    (r.skipData m = (.err e, r') → r'.done = true) ∧
    (r.dataBytes msg m = (.err e, r') → r'.done = true) ∧
    (r.data msg t m = (.err e, r') → r'.done = true) ∧
    (r.optRecord m = (.err e, r') → r'.done = true) := by
  refine ⟨?_, ?_, ?_, ?_⟩
  · intro h
    unfold Reader.skipData Reader.assertAt at h
    split at h
    · by_cases hd : r.done = true
      · simp only [hd, if_true, Prod.mk.injEq] at h; rw [← h.2]; exact hd
      · simp only [hd, Bool.false_eq_true, if_false] at h
        exact finishData_error_latches m _ e r' h
    · simp at h
  · intro h
    unfold Reader.dataBytes Reader.assertAt at h
    split at h
    · by_cases hd : r.done = true
      · simp only [hd, if_true, Prod.mk.injEq] at h; rw [← h.2]; exact hd
      · simp only [hd, Bool.false_eq_true, if_false] at h
        exact finishData_error_latches m _ e r' h
    · simp at h
  · intro h
    unfold Reader.data Reader.assertAt at h
    split at h
    · by_cases hd : r.done = true
      · simp only [hd, if_true, Prod.mk.injEq] at h; rw [← h.2]; exact hd
      · simp only [hd, Bool.false_eq_true, if_false] at h
        exact finishData_error_latches m _ e r' h
    · simp at h
  · intro h
    unfold Reader.optRecord at h
    by_cases hd : r.done = true
    · simp only [hd, if_true, Prod.mk.injEq] at h; rw [← h.2]; exact hd
    · simp only [hd, Bool.false_eq_true, if_false] at h
      unfold Reader.assertAt at h
      split at h
      · split at h
        · simp at h
        · exact finishData_error_latches m _ e r' h
      · simp at h

/-- **seek.** A failing seek either is the documented `RecordsSectionOffsetUnknown(section)` — and then
    nothing changed — or it latches the error state. -/
theorem seek_error (msg : Bytes) (r r' : Reader) (s : Nat) (e : Err) (h : r.seek msg s = (.err e, r')) :
    (e = .offsetUnknown s ∧ r' = r) ∨ r'.done = true := by
  unfold Reader.seek at h
  by_cases hd : r.done = true
  · simp only [hd, if_true, Prod.mk.injEq] at h; right; rw [← h.2]; exact hd
  · simp only [hd, Bool.false_eq_true, if_false] at h
    split at h
    · simp at h
    · split at h
      · simp only [Prod.mk.injEq, Res.err.injEq] at h
        left; exact ⟨h.1.symm, h.2.symm⟩
      · right
        have := markDone_latches (r.seekImpl msg s) e (by rw [h])
        rw [h] at this; exact this

/-- **seek to a known section.** When the section's offset has been learned, seek succeeds in constant
    time: the cursor jumps to the stored offset, the counters of earlier sections are exhausted and
    those of the requested and later sections are reset; offsets and the question counter are kept. -/
theorem seek_known (msg : Bytes) (r : Reader) (s : Nat) (hd : r.done = false) (hk : r.tr.off s ≠ 0) :
    r.seek msg s = (.ok (), { r with cur := r.cur.setPos (r.tr.off s), tr := r.tr.seek s }) ∧
    (r.tr.seek s).off = r.tr.off ∧ (r.tr.seek s).qd = r.tr.qd ∧
    (∀ j, j < 3 → j < s → ((r.tr.seek s).sec j).read = (r.tr.sec j).total) ∧
    (∀ j, j < 3 → s ≤ j → ((r.tr.seek s).sec j).read = 0) ∧
    (∀ j, ((r.tr.seek s).sec j).total = (r.tr.sec j).total) := by
  refine ⟨?_, rfl, rfl, ?_, ?_, ?_⟩
  · simp [Reader.seek, hd, Tracker.sectionOffset, hk]
  · intro j h3 hj; simp [Tracker.seek, h3, hj]
  · intro j h3 hj
    have : ¬ j < s := by omega
    simp [Tracker.seek, h3, this]
  · intro j
    unfold Tracker.seek
    simp only
    split
    · split <;> rfl
    · rfl

/-- **exhaustion.** With no record left in any section, a record call reports `ReaderDone`. -/
theorem exhausted_reports_done (msg : Bytes) (r : Reader) (k : HKind) (hd : r.done = false)
    (h : ∀ j, j < 3 → ¬ (r.tr.sec j).read < (r.tr.sec j).total) :
    (r.recordHeader msg k).1 = .err .readerDone ∧ (r.recordHeader msg k).2.done = true := by
  have hns : r.tr.nextSection r.cur.pos = (none, r.tr) := by
    simp [Tracker.nextSection, Tracker.nextSectionFrom, h 0 (by omega), h 1 (by omega), h 2 (by omega)]
  have : r.headerImpl msg k = (.err .readerDone, r) := by
    simp [Reader.headerImpl, Reader.calcSection, hns]
  simp [Reader.recordHeader, hd, this, markDone]

/-! ## Part 2: the section bookkeeping refines the linear pass

  `Lay` (Rsdns/Lemmas/Tracker.lean) is what ONE LINEAR PASS over the message sees: how many questions
  and records per section the header announces, where the pass stands after `j` questions (`qEnd j`)
  and before record `i` (`rOff i`, records numbered in wire order across the three sections).  The
  tracker's three counters are abstracted to the record index `idx = read₀ + read₁ + read₂`.

  `TInv` is the coupling invariant: the counters have the prefix shape a linear pass (or a seek)
  produces; every offset the tracker has learned is the true start of its section
  (`secOff s = rOff (start s)`, `0` = not learned); a section some record of which has been read is
  known; known-ness is closed downwards, and upwards over empty sections.

  One-step theorems (under `TInv`, at the position the linear pass prescribes):
    * `header_attribution` : a record header is attributed to the section its index lies in;
                             `no_record_left`: index at the end ⇒ `None` (`ReaderDone`);
    * `data_advances`      : finishing a record advances the index by one and makes every section
                             that starts right behind it known;
    * `last_question`      : the same for the last question;
    * `seek_index`         : seeking to a known section puts the index at its first record.
  Each re-establishes `TInv`.  `seek_lands` states the last one on the `Reader`.

  History theorem: `PReach` is the set of tracker states reachable by protocol-conforming calls
  (questions, then header/data pairs, seeks to known sections at any time — also between a header
  and its data) issued at the positions of the linear pass, with a ghost high-water mark `maxc` =
  the largest number of items (questions + records) ever completely read.  `doc_known`: once the
  reader has read up to the first record of a section, or beyond, the section's offset is known —
  so `seek` succeeds there (`seek_known`), which is what the documentation promises. -/

/-- **header.** -/
theorem header_attribution (L : Lay) (hL : L.WF) (t : Tracker) (h : TInv L t) (hi : idx t < L.n) :
    ∃ s t', t.nextSection (L.rOff (idx t)) = (some s, t') ∧ SecOf L t s ∧
      L.start s ≤ idx t ∧ idx t < L.start s + L.tot s ∧
      t'.sec = t.sec ∧ t'.qd = t.qd ∧ t'.off s ≠ 0 ∧ TInv L t' ∧ (∀ j, t.off j ≠ 0 → t'.off j ≠ 0) := by
  obtain ⟨s, t', he, hs, h1, h2, h3, h4, h5⟩ := nextSection_some L hL t h hi
  have hb := SecOf.bounds h hs
  exact ⟨s, t', he, hs, hb.1, hb.2, h1, h2, h3, h4, h5⟩

theorem no_record_left (L : Lay) (t : Tracker) (h : TInv L t) (pos : Nat) (hi : idx t = L.n) :
    t.nextSection pos = (none, t) := nextSection_none L t h pos hi

/-- **data.** -/
theorem data_advances (L : Lay) (hL : L.WF) (t : Tracker) (h : TInv L t) (s : Nat) (hs : SecOf L t s)
    (hk : t.off s ≠ 0) :
    ∃ t', t.sectionRead s (L.rOff (idx t + 1)) = .ok t' ∧ TInv L t' ∧ idx t' = idx t + 1 ∧ t'.qd = t.qd ∧
      (∀ j, t.off j ≠ 0 → t'.off j ≠ 0) ∧
      (∀ s', s < s' → s' < 3 → L.start s' = idx t + 1 → t'.off s' ≠ 0) :=
  sectionRead_spec L hL t h s hs hk

/-- **last question.** -/
theorem last_question (L : Lay) (hL : L.WF) (t : Tracker) (h : TInv L t) (hlt : t.qd.read < L.qd) :
    ∃ t', t.questionRead (L.qEnd (t.qd.read + 1)) = .ok t' ∧ TInv L t' ∧ t'.sec = t.sec ∧
      t'.qd.read = t.qd.read + 1 ∧
      (t.qd.read + 1 = L.qd → t'.off 0 ≠ 0 ∧ (L.tot 0 = 0 → t'.off 1 ≠ 0) ∧
        (L.tot 0 = 0 → L.tot 1 = 0 → t'.off 2 ≠ 0)) :=
  questionRead_spec L hL t h hlt

/-- **seek.** -/
theorem seek_index (L : Lay) (t : Tracker) (h : TInv L t) (s : Nat) (hs : s < 3) (hk : t.off s ≠ 0) :
    TInv L (t.seek s) ∧ idx (t.seek s) = L.start s ∧ (t.seek s).off = t.off ∧ (t.seek s).qd = t.qd :=
  seek_spec L t h s hs hk

/-- **seek, on the reader.** A seek to a known section succeeds and lands on the position the linear
    pass has before the first record of that section — which, when the section is empty, is the
    first record of the next non-empty one, or the end. -/
theorem seek_lands (L : Lay) (msg : Bytes) (r : Reader) (h : TInv L r.tr) (s : Nat) (hs : s < 3)
    (hd : r.done = false) (hk : r.tr.off s ≠ 0) :
    ∃ r', r.seek msg s = (.ok (), r') ∧ r'.done = false ∧ TInv L r'.tr ∧ idx r'.tr = L.start s ∧
      r'.cur.pos = L.rOff (idx r'.tr) := by
  obtain ⟨he, _⟩ := seek_known msg r s hd hk
  obtain ⟨hT, hi, _, _⟩ := seek_spec L r.tr h s hs hk
  refine ⟨_, he, hd, hT, hi, ?_⟩
  have ho : r.tr.off s = L.secOff s := by
    have : s = 0 ∨ s = 1 ∨ s = 2 := by omega
    rcases this with rfl | rfl | rfl
    · exact h.o0 hk
    · exact h.o1 hk
    · exact h.o2 hk
  simp only [Cur.setPos, hi, ho, Lay.secOff]

/-! ### histories -/

/-- tracker state of a protocol-conforming reader + the section of a header whose data is still
    unread + the high-water mark of completely read items -/
structure PState where
  t : Tracker
  pend : Option Nat
  maxc : Nat

/-- one protocol-conforming call at the position the linear pass prescribes -/
inductive PStep (L : Lay) : PState → PState → Prop
  | question {σ : PState} {t' : Tracker} (hp : σ.pend = none) (hlt : σ.t.qd.read < L.qd)
      (he : σ.t.questionRead (L.qEnd (σ.t.qd.read + 1)) = .ok t') :
      PStep L σ ⟨t', none, max σ.maxc (σ.t.qd.read + 1)⟩
  | header {σ : PState} {s : Nat} {t' : Tracker} (hp : σ.pend = none) (hq : σ.t.qd.read = L.qd)
      (he : σ.t.nextSection (L.rOff (idx σ.t)) = (some s, t')) :
      PStep L σ ⟨t', some s, σ.maxc⟩
  | data {σ : PState} {s : Nat} {t' : Tracker} (hp : σ.pend = some s)
      (he : σ.t.sectionRead s (L.rOff (idx σ.t + 1)) = .ok t') :
      PStep L σ ⟨t', none, max σ.maxc (L.qd + idx σ.t + 1)⟩
  | seek {σ : PState} {s : Nat} (hs : s < 3) (hk : σ.t.off s ≠ 0) :
      PStep L σ ⟨σ.t.seek s, none, σ.maxc⟩

/-- the tracker `header()` leaves behind: totals from the header, nothing read, nothing known -/
def PInit (L : Lay) (σ : PState) : Prop :=
  σ.pend = none ∧ σ.maxc = 0 ∧ σ.t.qd.total = L.qd ∧ σ.t.qd.read = 0 ∧
  (σ.t.sec 0).total = L.tot 0 ∧ (σ.t.sec 1).total = L.tot 1 ∧ (σ.t.sec 2).total = L.tot 2 ∧
  (∀ j, (σ.t.sec j).read = 0) ∧ (∀ j, σ.t.off j = 0)

inductive PReach (L : Lay) : PState → Prop
  | init {σ} (h : PInit L σ) : PReach L σ
  | step {σ σ'} (h : PReach L σ) (hs : PStep L σ σ') : PReach L σ'

/-- what the documentation promises, as an invariant: a section is known once `maxc` items — at least
    one, and at least everything in front of the section — have been completely read -/
def DocK (L : Lay) (σ : PState) : Prop :=
  ∀ s, s < 3 → 1 ≤ σ.maxc → L.qd + L.start s ≤ σ.maxc → σ.t.off s ≠ 0

structure PInv (L : Lay) (σ : PState) : Prop where
  inv : TInv L σ.t
  pend : ∀ s, σ.pend = some s → SecOf L σ.t s ∧ σ.t.off s ≠ 0
  doc : DocK L σ

theorem PInv.init (L : Lay) (σ : PState) (h : PInit L σ) : PInv L σ := by
  obtain ⟨hp, hm, hq, _, h0, h1, h2, hr, ho⟩ := h
  refine ⟨TInv.init L σ.t hq h0 h1 h2 hr ho, ?_, ?_⟩
  · intro s hs; rw [hp] at hs; cases hs
  · intro s _ h1; rw [hm] at h1; omega

theorem PInv.step (L : Lay) (hL : L.WF) {σ σ' : PState} (h : PInv L σ) (hs : PStep L σ σ') : PInv L σ' := by
  cases hs with
  | question hp hlt he =>
    obtain ⟨t'', he', hT, hsec, hrd, hkn⟩ := questionRead_spec L hL σ.t h.inv hlt
    rw [he] at he'
    simp only [Res.ok.injEq] at he'
    subst he'
    refine ⟨hT, ?_, ?_⟩
    · intro s hs; cases hs
    · intro s hs3 h1 h2
      simp only at h1 h2
      by_cases hold : 1 ≤ σ.maxc ∧ L.qd + L.start s ≤ σ.maxc
      · exact questionRead_mono _ _ _ he s (h.doc s hs3 hold.1 hold.2)
      · have hnew : L.qd + L.start s ≤ σ.t.qd.read + 1 := by omega
        have hlast : σ.t.qd.read + 1 = L.qd := by omega
        have hst : L.start s = 0 := by omega
        obtain ⟨k0, k1, k2⟩ := hkn hlast
        have : s = 0 ∨ s = 1 ∨ s = 2 := by omega
        rcases this with rfl | rfl | rfl
        · exact k0
        · simp only [Lay.start_one] at hst; exact k1 hst
        · simp only [Lay.start_two] at hst; exact k2 (by omega) (by omega)
  | @header s t' hp hq he =>
    have hle : idx σ.t ≤ L.n := by
      have := h.inv.le0; have := h.inv.le1; have := h.inv.le2
      unfold idx Lay.n; omega
    have hi : idx σ.t < L.n := by
      by_cases hx : idx σ.t = L.n
      · rw [nextSection_none L σ.t h.inv _ hx] at he; simp at he
      · omega
    obtain ⟨s2, t2, he2, hsec, h1, h2, h3, h4, h5⟩ := nextSection_some L hL σ.t h.inv hi
    rw [he] at he2
    simp only [Prod.mk.injEq, Option.some.injEq] at he2
    obtain ⟨rfl, rfl⟩ := he2
    refine ⟨h4, ?_, ?_⟩
    · intro s' hs'
      simp only [Option.some.injEq] at hs'
      subst hs'
      refine ⟨⟨hsec.1, ?_, ?_⟩, h3⟩
      · intro j hj; rw [h1]; exact hsec.2.1 j hj
      · rw [h1]; exact hsec.2.2
    · intro s' hs3 ha hb
      exact h5 s' (h.doc s' hs3 ha hb)
  | @data s t' hp he =>
    obtain ⟨hsec, hk⟩ := h.pend s hp
    obtain ⟨t2, he2, hT, hi, hq, hmono, hkn⟩ := sectionRead_spec L hL σ.t h.inv s hsec hk
    rw [he] at he2
    simp only [Res.ok.injEq] at he2
    subst he2
    refine ⟨hT, ?_, ?_⟩
    · intro s' hs'; cases hs'
    · intro s' hs3 h1 h2
      simp only at h1 h2
      by_cases hold : 1 ≤ σ.maxc ∧ L.qd + L.start s' ≤ σ.maxc
      · exact hmono s' (h.doc s' hs3 hold.1 hold.2)
      · have hnew : L.start s' ≤ idx σ.t + 1 := by omega
        have hb := SecOf.bounds h.inv hsec
        by_cases hle : s' ≤ s
        · exact hmono s' (TInv.down h.inv hsec.1 hle hk)
        · have hlt : s < s' := by omega
          have := Lay.start_mono L hlt hs3
          exact hkn s' hlt hs3 (by omega)
  | @seek s hs3 hk =>
    obtain ⟨hT, _, ho, _⟩ := seek_spec L σ.t h.inv s hs3 hk
    refine ⟨hT, ?_, ?_⟩
    · intro s' hs'; cases hs'
    · intro s' hs' h1 h2
      simp only at h1 h2 ⊢
      rw [ho]; exact h.doc s' hs' h1 h2

theorem PReach.inv (L : Lay) (hL : L.WF) {σ : PState} (h : PReach L σ) : PInv L σ := by
  induction h with
  | init h => exact PInv.init L _ h
  | step _ hs ih => exact PInv.step L hL ih hs

/-- **the documented seek criterion holds along every conforming history.**  Whenever the reader has
    completely read at least one item and at least all the `qd + start s` items in front of section
    `s` (that is: up to and including the last record of the first non-empty section preceding `s`,
    or any record beyond), the offset of `s` is known — hence (`seek_known`, `seek_lands`) `seek(s)`
    succeeds and positions at the first record of `s` or of the next non-empty section. -/
theorem doc_known (L : Lay) (hL : L.WF) (σ : PState) (h : PReach L σ) (s : Nat) (hs : s < 3)
    (h1 : 1 ≤ σ.maxc) (h2 : L.qd + L.start s ≤ σ.maxc) : σ.t.off s ≠ 0 :=
  (PReach.inv L hL h).doc s hs h1 h2

/-- every learned offset is the true one, in every reachable state -/
theorem learned_offsets_true (L : Lay) (hL : L.WF) (σ : PState) (h : PReach L σ) (s : Nat) (hs : s < 3)
    (hk : σ.t.off s ≠ 0) : σ.t.off s = L.secOff s := by
  have hi := (PReach.inv L hL h).inv
  have : s = 0 ∨ s = 1 ∨ s = 2 := by omega
  rcases this with rfl | rfl | rfl
  · exact hi.o0 hk
  · exact hi.o1 hk
  · exact hi.o2 hk

/-! ## Part 3: the byte-level reader follows the pass

  Part 2 speaks about the tracker at the positions of the linear pass.  Here those positions are tied
  to the bytes: `PassOf msg L` says that `L.rOff` are the positions `skip_rr` walks through, and
  `pair_follows_pass` shows that every header/data call pair of the real reader, whichever of the
  3 × 20 instantiations is used, moves from index `i` to index `i + 1` of that pass and returns the
  marker of record `i` (helper lemmas: Rsdns/Lemmas/Pass.lean; kind-independence of positions comes
  from `C08.skip_of_read` and `C04.next_after_data` / `raw_exact`). -/

/-- `L` is the layout of `msg`: skipping record `i` from where it starts ends where record `i+1` starts -/
structure PassOf (msg : Bytes) (L : Lay) : Prop where
  recs : ∀ i, i < L.n → skipRr msg (Cur.withPos msg (L.rOff i)) = (.ok (), Cur.withPos msg (L.rOff (i + 1)))

/-- a live reader standing between two records, at the index its counters say -/
structure AtIndex (msg : Bytes) (L : Lay) (r : Reader) : Prop where
  inv : RInv msg r
  orig : r.cur.orig = none
  pos : r.cur.pos = L.rOff (idx r.tr)
  tinv : TInv L r.tr
  live : r.done = false

theorem AtIndex.cur {msg : Bytes} {L : Lay} {r : Reader} (h : AtIndex msg L r) :
    r.cur = Cur.withPos msg (L.rOff (idx r.tr)) := by
  have hf := h.inv.2
  have ho := h.orig
  have hp := h.pos
  obtain ⟨cur, tr, done⟩ := r
  obtain ⟨lim, pos, orig⟩ := cur
  simp only at ho hp hf ⊢
  subst ho
  simp only [Cur.full, Option.getD_none] at hf
  simp only [Cur.withPos, hf, hp]

/-- the four ways to consume the data of the record whose header was just read -/
def DataCall (msg : Bytes) (r1 r2 : Reader) (m : Marker) : Prop :=
  r1.skipData m = (.ok (), r2) ∨ (∃ b, r1.dataBytes msg m = (.ok b, r2)) ∨
    (∃ t v, r1.data msg t m = (.ok v, r2)) ∨ (∃ o, r1.optRecord m = (.ok o, r2))

theorem DataCall.inv {msg : Bytes} {r1 r2 : Reader} {m : Marker} (hr : RInv msg r1) (h : DataCall msg r1 r2 m) :
    RInv msg r2 := by
  rcases h with h | ⟨b, h⟩ | ⟨t, v, h⟩ | ⟨o, h⟩
  · have := skipData_ok hr m; rw [h] at this; exact this.2
  · have := dataBytes_ok (msg := msg) hr m; rw [h] at this; exact this.2
  · have := data_ok (msg := msg) hr t m; rw [h] at this; exact this.2
  · have := optRecord_ok (msg := msg) hr m; rw [h] at this; exact this.2

/-- **the byte-level reader follows the pass.**  From a live reader standing at index `i` of the pass,
    ANY record-header call that succeeds returns the marker of record `i` (its offset is `rOff i`, its
    section is the section `i` lies in), and ANY data call that then succeeds leaves a live reader
    standing at index `i + 1` — with the coupling invariant intact.  By induction this is "every
    returned item is the item of the linear pass at the index the counters stand for". -/
theorem pair_follows_pass (msg : Bytes) (L : Lay) (hL : L.WF) (hP : PassOf msg L) (r : Reader)
    (h : AtIndex msg L r) (hi : idx r.tr < L.n) (k : HKind) (hn : HName) (m : Marker) (r1 r2 : Reader)
    (hh : r.recordHeader msg k = (.ok (hn, m), r1)) (hd : DataCall msg r1 r2 m) :
    m.offset = L.rOff (idx r.tr) ∧ SecOf L r.tr m.section_ ∧ m.rdataPos + m.rdlen = L.rOff (idx r.tr + 1) ∧
      AtIndex msg L r2 ∧ idx r2.tr = idx r.tr + 1 := by
  have hcur := h.cur
  have hrec := hP.recs (idx r.tr) hi
  rw [← hcur] at hrec
  -- the header call
  have hh' : r.headerImpl msg k = (.ok (hn, m), r1) := by
    unfold Reader.recordHeader at hh
    simp only [h.live, Bool.false_eq_true, if_false] at hh
    unfold markDone at hh
    split at hh
    · simp at hh
    · rename_i hne
      exact hh
  have hr1 : RInv msg r1 := by
    have := recordHeader_ok (msg := msg) h.inv k; rw [hh] at this; exact this.2
  obtain ⟨hoff, hp1, hl1, ho1, hend, hdone1, s, hns, hsec⟩ :=
    headerImpl_position msg r k _ hrec hn m r1 hh'
  simp only [Cur.withPos] at hl1 ho1 hend
  -- the tracker step of the header is the one the specification describes
  obtain ⟨s', t', hns', hsecof, hsame, hqd, hk, hT1, _⟩ := nextSection_some L hL r.tr h.tinv hi
  rw [← h.pos, hns] at hns'
  simp only [Prod.mk.injEq, Option.some.injEq] at hns'
  obtain ⟨rfl, rfl⟩ := hns'
  have hidx1 : idx r1.tr = idx r.tr := idx_congr hsame
  have hsecof1 : SecOf L r1.tr m.section_ := by
    rw [hsec]
    refine ⟨hsecof.1, ?_, ?_⟩
    · intro j hj; rw [hsame]; exact hsecof.2.1 j hj
    · rw [hsame]; exact hsecof.2.2
  -- the data call
  obtain ⟨hp2, hl2, ho2, hdone2, t2, hsr, ht2⟩ := data_position msg r1 r2 m hr1 hd
  have hpos2 : r2.cur.pos = L.rOff (idx r.tr + 1) := by rw [hp2, ← hend]
  obtain ⟨t3, hsr3, hT3, hi3, _, _, _⟩ := sectionRead_spec L hL r1.tr hT1 m.section_ hsecof1 (by rw [hsec]; exact hk)
  rw [hidx1, ← hpos2, hsr] at hsr3
  simp only [Res.ok.injEq] at hsr3
  subst hsr3
  refine ⟨by rw [hoff, h.pos], by rw [hsec]; exact hsecof, by rw [← hend], ?_, by rw [ht2, hi3, hidx1]⟩
  exact ⟨DataCall.inv hr1 hd, by rw [ho2, ho1], by rw [hpos2, ht2, hi3, hidx1], by rw [ht2]; exact hT3,
    by rw [hdone2, hdone1]; exact h.live⟩


end Rsdns.C09
