/-
  Rsdns.Props.C18Str — C18, last clause: "comparing a name with a string gives the verdict that parsing
  the string first would give".  Helper lemmas: Lemmas/EqStr.lean.
-/
import Rsdns.Lemmas.EqStr
set_option linter.unusedVariables false
namespace Rsdns.C18
open Rsdns Generated Spec

/-- **C18, `PartialEq<&str>`.**  For a name value `n` (a canonical text: accepted by the validator and
    ending in the root dot — what both parsers and both decoders produce) and ANY string `s`:
    `n == s` holds exactly when `s` parses as a name (of either type) and `n` equals the parsed name.
    In particular `n == s` is false for every string no parser accepts. -/
theorem eqstr_parse (k : NameKind) (n s : Bytes) (hv : checkNameBytes n = .ok ()) (hd : n.getD (n.size - 1) 0 = DOT) :
    nameEqStr n s = true ↔ ∃ m, parseName k s = .ok m ∧ nameEq n m = true := by
  rw [eqstr_core n s hv hd, parse_iff k s (fun m => nameEq n m = true)]

/-- the hypotheses are met by everything a parser returns -/
theorem parsed_is_canonical (k : NameKind) (s m : Bytes) (h : parseName k s = .ok m) :
    checkNameBytes m = .ok () ∧ m.getD (m.size - 1) 0 = DOT := by
  obtain ⟨hc, hm⟩ := (parse_iff k s (fun x => x = m)).mp ⟨m, h, rfl⟩
  subst hm
  have h0 : s.size ≠ 0 := ((C11.checkNameBytes_iff s).mp hc).1
  unfold C11.canon
  by_cases hd : (s.getD (s.size - 1) 0 != DOT) = true
  · rw [if_pos hd]
    have hd' : s.getD (s.size - 1) 0 ≠ DOT := by simpa using hd
    refine ⟨?_, C11.getD_push_last s DOT⟩
    -- valid without the dot, hence valid with it
    rw [C11.checkNameBytes_iff] at hc ⊢
    refine ⟨by simp, Or.inr ?_⟩
    have hp0 : (s.push DOT).size ≠ 0 := by simp
    have hcp : C11.canon (s.push DOT) = s.push DOT := C11.canon_of_dot _ (C11.getD_push_last s DOT)
    have hcs : C11.canon s = s.push DOT := by
      simp only [C11.canon, bne_iff_ne, ne_eq, hd', not_false_eq_true, if_true]
    obtain ⟨t1, n1⟩ := C11.labelsOf_spec (s.push DOT) hp0
    obtain ⟨t2, n2⟩ := C11.labelsOf_spec s h0
    have hlabs : C11.labelsOf (s.push DOT) = C11.labelsOf s :=
      C11.textOf_inj _ _ n1 n2 (by rw [t1, t2, hcp, hcs])
    rcases hc.2 with hr | ⟨hlab, hlen⟩
    · subst hr; exact absurd rfl hd'
    · exact ⟨by rw [hlabs]; exact hlab, by rw [hcp, ← hcs]; exact hlen⟩
  · rw [if_neg hd]
    exact ⟨hc, by simpa using hd⟩

/-- non-vacuity / examples: `"a."` equals `"A"`, `"a"`, `"A."`; not `"a.."`, `""`, `"b"`; the root equals `"."` only -/
example : nameEqStr #[97, 46] #[65] = true ∧ nameEqStr #[97, 46] #[97] = true ∧ nameEqStr #[97, 46] #[65, 46] = true ∧
    nameEqStr #[97, 46] #[97, 46, 46] = false ∧ nameEqStr #[97, 46] #[] = false ∧ nameEqStr #[97, 46] #[98] = false ∧
    nameEqStr #[46] #[46] = true ∧ nameEqStr #[46] #[] = false ∧ checkNameBytes #[97, 46] = .ok () := by decide

end Rsdns.C18
