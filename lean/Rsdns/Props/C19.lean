/-
  Rsdns.Props.C19 — "Clients and the futures they return can cross threads".

  Level `other`. `Send` / `Sync` are facts rustc derives; the exact decision is the `cargo check` of
  /verif/harness/typecheck against the generated code of all four clients (assertions `T: Send`,
  `T: Sync` on `Client`, on `Client::new(cfg)`, on `query_raw(..)` and on `query_rrset::<D>(..)` for all 17
  `D`, with non-'static borrowed arguments).  What the Lean side carries: the structural rules of the two
  auto traits, applied to the struct shapes extracted from the client sources on every run — a field
  of a type the table does not know (an `Rc`, a `RefCell`, a raw pointer …) makes these fail.
-/
import Rsdns.Model.AutoTrait

namespace Rsdns.C19

open Rsdns.AutoTrait Rsdns.Generated

/-- the blocking client object is `Send + Sync` -/
theorem std_client_send_sync :
    isSend stdEnv 8 (.named .client) = true ∧ isSync stdEnv 8 (.named .client) = true := by decide

/-- the async client object (one template for tokio / async-std / smol) is `Send + Sync` -/
theorem async_client_send_sync :
    isSend asyncEnv 8 (.named .client) = true ∧ isSync asyncEnv 8 (.named .client) = true := by decide

/-- everything a pending `query_raw` / `query_rrset` future holds across an await is `Send` -/
theorem async_query_futures_send :
    queryRawFuture.all (isSend asyncEnv 8) = true ∧ queryRRSetFuture.all (isSend asyncEnv 8) = true := by decide

/-- the configuration every client stores by value (and every pending future borrows) is `Send + Sync`,
    whichever feature-gated fields it has -/
theorem config_send_sync :
    isSend stdEnv 8 (.named .clientConfig) = true ∧ isSync stdEnv 8 (.named .clientConfig) = true := by decide

/-- the per-query context is `Send` in both implementations -/
theorem ctx_send : isSend stdEnv 8 (.named .clientCtx) = true ∧ isSend asyncEnv 8 (.named .clientCtx) = true := by
  decide

/-- non-vacuity of the rules: a struct holding a type the table does not know is rejected -/
example : isSend (fun _ => [Ty.unknown "Rc<u8>"]) 8 (.named .clientImpl) = false := by decide

end Rsdns.C19
