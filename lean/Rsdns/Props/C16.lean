/-
  Rsdns.Props.C16 — "A client stays correct across any history of queries".

  Level: theorems about what a client object carries from one query to the next, sockets assumed.
  A client has exactly two pieces of state that outlive a query:
  * its internal receive buffer (`ClientImpl::buf`, lent out by `take_buf` with `set_len` over
    uninitialised memory — modelled by `VecBuf`, whose contents are arbitrary "junk"), and
  * whatever is still queued in its connected UDP socket (late answers to earlier queries).
  ASSUMED: the kernel delivers datagrams unmodified; message IDs of different queries differ (they are
  drawn by `rand`; a collision has probability 2⁻¹⁶ and is outside these statements).
  Not exhibited by the model: dropping an async query future at an arbitrary await point — covered on
  the implementation by the `c16` stream (`drop=<ms>`); the buffer theorem below shows the next
  `take_buf` is sound from ANY buffer state, in particular the emptied one a dropped future leaves.
-/
import Rsdns.Model.Client
import Rsdns.Props.C12
import Rsdns.Lemmas.Guards

set_option linter.unusedVariables false

namespace Rsdns.C16

open Rsdns

/-- **the lent buffer is sound from any state**: whatever the internal buffer is when a query starts
    (fresh, returned by an earlier query, or the empty `Vec` left behind by a dropped future),
    `take_buf` never calls `set_len` beyond the capacity and lends exactly `buffer_size` bytes -/
theorem take_buf_sound (cfgbuf : Nat) (b : VecBuf) (junk : Bytes) :
    ∃ lent, takeBuf cfgbuf b junk = .ok ({ cap := 0, bytes := #[] }, lent) ∧ lent.bytes.size = cfgbuf ∧
      cfgbuf ≤ lent.cap := by
  unfold takeBuf
  by_cases h : b.cap < cfgbuf
  · simp only [h, if_true, Nat.le_refl]
    refine ⟨_, rfl, ?_, Nat.le_refl _⟩
    simp only [Array.size_append, Array.size_extract, Array.size_replicate]
    omega
  · have h' : cfgbuf ≤ b.cap := by omega
    simp only [h, if_false, h', if_true]
    refine ⟨_, rfl, ?_, h'⟩
    simp only [Array.size_append, Array.size_extract, Array.size_replicate]
    omega

/-- **no bytes of earlier responses appear in a result**: what `query_rrset` parses is exactly the
    response `query_raw` wrote — independent of the junk the lent buffer held before — and the buffer
    goes back with its capacity intact (`set_len(response_len)` is within capacity) -/
theorem junk_blind (t : RType) (lent : VecBuf) (d : Bytes) (hd : d.size ≤ lent.bytes.size)
    (hc : lent.bytes.size ≤ lent.cap) :
    ∃ back, finishRRSet t lent d = .ok (fromMsg t d, back) ∧ back.cap = lent.cap := by
  unfold finishRRSet overwritePrefix
  have h : d.size ≤ lent.cap := by omega
  simp only [h, if_true]
  have hv : (d ++ lent.bytes.extract d.size lent.bytes.size).extract 0 d.size = d := by
    apply Array.ext'
    simp [Array.toList_extract, List.take_append_of_le_length]
  rw [hv]
  exact ⟨_, rfl, rfl⟩

theorem junk_blind' (t : RType) (lent lent' : VecBuf) (d : Bytes) (hd : d.size ≤ lent.bytes.size)
    (hd' : d.size ≤ lent'.bytes.size) (hc : lent.bytes.size ≤ lent.cap) (hc' : lent'.bytes.size ≤ lent'.cap) :
    (finishRRSet t lent d).bind (fun x => .ok x.1) = (finishRRSet t lent' d).bind (fun x => .ok x.1) := by
  obtain ⟨b1, h1, _⟩ := junk_blind t lent d hd hc
  obtain ⟨b2, h2, _⟩ := junk_blind t lent' d hd' hc'
  rw [h1, h2]
  rfl

/-- **the typed query is record-set extraction on the raw query's bytes** -/
theorem typed_is_raw (c : Cfg) (id : Nat) (qname : Bytes) (qclass : Nat) (us ts : List (List Item)) (q : List Dgram)
    (d : Option Nat) (hb : c.cfgbuf ≠ 0) (hcl : Generated.class_is_data qclass = true) :
    let raw := queryRaw c id qname Generated.TYPE_A qclass c.cfgbuf us ts q d
    (queryRRSet c id qname qclass us ts q d).2 = raw ∧
    (∀ n bytes, raw.result = .ok n bytes → (queryRRSet c id qname qclass us ts q d).1 = fromMsg .a (bytes.extract 0 n)) ∧
    (∀ e, raw.result = .err e → (queryRRSet c id qname qclass us ts q d).1 = .err e) := by
  intro raw
  have hraw : raw = queryRaw c id qname Generated.TYPE_A qclass c.cfgbuf us ts q d := rfl
  unfold queryRRSet
  simp only [Cfg.rrsetNoBuffer_eq, Cfg.rrsetBadClass_eq, beq_iff_eq, hb, if_false, hcl, Bool.not_true, Bool.false_eq_true]
  rw [← hraw]
  refine ⟨?_, ?_, ?_⟩
  · cases hres : raw.result <;> simp
  · intro n bytes h
    simp [h]
  · intro e h
    simp [h]

/-- **late responses to earlier queries are not returned**: whatever the socket still holds, a
    datagram that the receive window hands out carries the CURRENT query's ID and question -/
theorem stale_ignored (id : Nat) (qname : Bytes) (qtype qclass buflen w : Nat) (q : List Dgram) (d : Dgram)
    (b : Bytes) (f : Nat) (rest : List Dgram)
    (h : scanWindow id qname qtype qclass buflen w q = (some (d, b, f), rest)) :
    udpAccept id qname qtype qclass b = some f ∧ b = recvInto buflen d.bytes ∧ d ∈ q := by
  induction q generalizing rest with
  | nil => simp [scanWindow] at h
  | cons x xs ih =>
    unfold scanWindow at h
    split at h
    · split at h
      · rename_i flags ha
        simp only [Prod.mk.injEq, Option.some.injEq] at h
        obtain ⟨⟨rfl, rfl, rfl⟩, _⟩ := h
        exact ⟨ha, rfl, by simp⟩
      · obtain ⟨h1, h2, h3⟩ := ih rest h
        exact ⟨h1, h2, by simp [h3]⟩
    · cases hs : scanWindow id qname qtype qclass buflen w xs with
      | mk r rest' =>
        simp only [hs, Prod.mk.injEq] at h
        obtain ⟨rfl, _⟩ := h
        obtain ⟨h1, h2, h3⟩ := ih rest' hs
        exact ⟨h1, h2, by simp [h3]⟩

/-- in particular its header ID is the current query's ID: an answer to an earlier query (different
    ID) is never handed to the caller -/
theorem accepted_has_current_id (id : Nat) (qname : Bytes) (qtype qclass buflen w : Nat) (q : List Dgram) (d : Dgram)
    (b : Bytes) (f : Nat) (rest : List Dgram)
    (h : scanWindow id qname qtype qclass buflen w q = (some (d, b, f), rest)) :
    ∃ mr hd mr1, Reader.new b = .ok mr ∧ mr.header b = (.ok hd, mr1) ∧ hd.id = id := by
  obtain ⟨ha, _, _⟩ := stale_ignored id qname qtype qclass buflen w q d b f rest h
  obtain ⟨mr, hd, mr1, _, _, h1, h2, h3, _⟩ := C12.accept_sound id qname qtype qclass b f ha
  exact ⟨mr, hd, mr1, h1, h2, h3⟩

/-! ### the parameter gates of `query_rrset` regenerated from both clients -/

theorem rrset_gates_closed_form (c : Cfg) (isData : Bool) :
    c.rrsetNoBuffer = (c.cfgbuf == 0) ∧ c.rrsetBadClass isData = !isData :=
  ⟨Cfg.rrsetNoBuffer_eq c, Cfg.rrsetBadClass_eq c isData⟩

end Rsdns.C16
