/-
  Rsdns.Props.C07 — "Non-answers are never turned into answers".

  `fromMsgPrefix` is the straight-line prefix of `RecordSet::from_msg` (Rsdns/Model/RecordSet.lean):
  reader, header, the QR and TC gates, `the_question_ref`, the answer headers, the search for the
  first OPT record after the answer section.  `Prefix.rcode` is the response code `from_msg` tests:
  `RCode::extended(header rcode, opt.rcode_extension)` when such an OPT exists, else the header RCODE.
  (An OPT record *inside* the answer section is an ordinary answer record for `from_msg`; the theorem
  follows the code here.)
-/
import Rsdns.Model.RecordSet
import Rsdns.Lemmas.Bits

set_option linter.unusedVariables false

namespace Rsdns.C07

open Rsdns Generated

theorem header_state {msg : Bytes} {r r1 : Reader} {h : Header} (hh : r.header msg = (.ok h, r1)) :
    r1.tr = r.tr.set h ∧ r1.done = r.done := by
  unfold Reader.header markDone Reader.onCur at hh
  cases hr : readHeader msg r.cur with
  | mk res c =>
    simp only [hr] at hh
    cases res with
    | ok h' =>
      simp only [Prod.mk.injEq, Res.ok.injEq] at hh
      obtain ⟨rfl, rfl⟩ := hh
      exact ⟨rfl, rfl⟩
    | err e => simp at hh
    | panic p => simp at hh
    | ub => simp at hh

/-- **C07.** ARBITRARY bytes: whenever `from_msg` returns a record set, the message is a response, is
    not truncated, carries exactly one question, and its (EDNS-extended, 12-bit) response code is
    NOERROR. -/
theorem rrset_gates (t : RType) (msg : Bytes) (rs : RRSet) (h : fromMsg t msg = .ok rs) :
    ∃ p, fromMsgPrefix msg = .ok p ∧ flags_qr p.header.flags = true ∧ flags_tc p.header.flags = false ∧
      p.header.qd = 1 ∧ p.rcode = 0 := by
  unfold fromMsg fromMsgR at h
  cases hp : fromMsgPrefix msg with
  | err e => simp [hp] at h
  | panic pk => simp [hp] at h
  | ub => simp [hp] at h
  | ok p =>
    simp only [hp] at h
    refine ⟨p, rfl, ?_⟩
    have hrc : p.rcode = 0 := by
      by_cases hz : p.rcode = 0
      · exact hz
      · simp [hz] at h
    -- unfold the prefix to read off the gates
    unfold fromMsgPrefix at hp
    cases hn : Reader.new msg with
    | err e => simp [hn] at hp
    | panic pk => simp [hn] at hp
    | ub => simp [hn] at hp
    | ok mr =>
      simp only [hn] at hp
      cases hh : mr.header msg with
      | mk res mr1 =>
        simp only [hh] at hp
        cases res with
        | err e => simp at hp
        | panic pk => simp at hp
        | ub => simp at hp
        | ok header =>
          simp only at hp
          by_cases hqr : flags_qr header.flags = true
          · simp only [hqr, Bool.not_true, Bool.false_eq_true, if_false] at hp
            by_cases htc : flags_tc header.flags = true
            · simp [htc] at hp
            · have htc' : flags_tc header.flags = false := by simpa using htc
              simp only [htc', Bool.false_eq_true, if_false] at hp
              -- exactly one question
              have hst := header_state hh
              have hnew : mr.tr = Tracker.default ∧ mr.done = false := by
                unfold Reader.new at hn
                split at hn
                · simp at hn
                · simp only [Res.ok.injEq] at hn; subst hn; exact ⟨rfl, rfl⟩
              have hqd : header.qd = 1 := by
                cases hq : mr1.question msg .theQuestionRef with
                | mk resq mr2 =>
                  simp only [hq] at hp
                  unfold Reader.question at hq
                  have hd : mr1.done = false := by rw [hst.2, hnew.2]
                  simp only [hd, Bool.false_eq_true, if_false] at hq
                  have hleft : mr1.tr.questionsLeft = .ok header.qd := by
                    unfold Tracker.questionsLeft Counts.left
                    rw [hst.1, hnew.1]
                    simp [Tracker.set, Tracker.default]
                  simp only [hleft] at hq
                  by_cases h1 : header.qd = 1
                  · exact h1
                  · have hne : (header.qd != 1) = true := by simpa using h1
                    simp [hne] at hq
                    obtain ⟨rfl, _⟩ := hq
                    simp at hp
              -- read the header off the final record
              cases hq : mr1.question msg .theQuestionRef with
              | mk resq mr2 =>
                simp only [hq] at hp
                cases resq with
                | err e => simp at hp
                | panic pk => simp at hp
                | ub => simp at hp
                | ok qo =>
                  cases qo with
                  | owned q => simp at hp
                  | ref question =>
                    simp only at hp
                    cases ha : readAnswerHeaders msg mr2 (mr2.sFuel 0) [] with
                    | mk resa mr3 =>
                      simp only [ha] at hp
                      cases resa with
                      | err e => simp at hp
                      | panic pk => simp at hp
                      | ub => simp at hp
                      | ok headers =>
                        simp only at hp
                        cases ho : readOpt msg mr3 (mr3.sFuel 0) with
                        | mk reso mr4 =>
                          simp only [ho] at hp
                          cases reso with
                          | err e => simp at hp
                          | panic pk => simp at hp
                          | ub => simp at hp
                          | ok opt =>
                            simp only [Res.ok.injEq] at hp
                            subst hp
                            exact ⟨hqr, htc', hqd, hrc⟩
          · have : flags_qr header.flags = false := by simpa using hqr
            simp [this] at hp

/-- the gates in RFC terms: QR is bit 15, TC is bit 9 of the flags word; the response code is
    `ext·16 + (flags mod 16)` with `ext` the top byte of the OPT record's TTL -/
theorem gates_bits (bits : Nat) (ext : Nat) (he : ext < 256) :
    flags_qr bits = bits.testBit 15 ∧ flags_tc bits = bits.testBit 9 ∧
      rcode_extended (flags_rcode bits) ext = ext * 16 + bits % 16 := by
  refine ⟨flags_qr_eq bits, flags_tc_eq bits, ?_⟩
  rw [rcode_extended_eq _ _ he, flags_rcode_eq]
  omega

/-- a query is reported as `BadMessageType(Query)` -/
theorem rrset_err_query (t : RType) (msg : Bytes) (mr mr1 : Reader) (hd : Header) (hn : Reader.new msg = .ok mr)
    (hh : mr.header msg = (.ok hd, mr1)) (hq : flags_qr hd.flags = false) :
    fromMsg t msg = .err (.badMessageType false) := by
  unfold fromMsg fromMsgR fromMsgPrefix
  simp [hn, hh, hq]

/-- a truncated response is reported as `MessageTruncated` -/
theorem rrset_err_tc (t : RType) (msg : Bytes) (mr mr1 : Reader) (hd : Header) (hn : Reader.new msg = .ok mr)
    (hh : mr.header msg = (.ok hd, mr1)) (hq : flags_qr hd.flags = true) (htc : flags_tc hd.flags = true) :
    fromMsg t msg = .err .messageTruncated := by
  unfold fromMsg fromMsgR fromMsgPrefix
  simp [hn, hh, hq, htc]

/-- a question count other than one is reported with that count -/
theorem rrset_err_qd (t : RType) (msg : Bytes) (mr mr1 : Reader) (hd : Header) (hn : Reader.new msg = .ok mr)
    (hh : mr.header msg = (.ok hd, mr1)) (hq : flags_qr hd.flags = true) (htc : flags_tc hd.flags = false)
    (hqd : hd.qd ≠ 1) : fromMsg t msg = .err (.badQuestionsCount hd.qd) := by
  have hst := header_state hh
  have hnew : mr.tr = Tracker.default ∧ mr.done = false := by
    unfold Reader.new at hn
    split at hn
    · simp at hn
    · simp only [Res.ok.injEq] at hn; subst hn; exact ⟨rfl, rfl⟩
  have hd' : mr1.done = false := by rw [hst.2, hnew.2]
  have hleft : mr1.tr.questionsLeft = .ok hd.qd := by
    unfold Tracker.questionsLeft Counts.left
    rw [hst.1, hnew.1]
    simp [Tracker.set, Tracker.default]
  have hne : (hd.qd != 1) = true := by simpa using hqd
  have hquestion : mr1.question msg .theQuestionRef = (.err (.badQuestionsCount hd.qd), { mr1 with done := true }) := by
    unfold Reader.question
    simp [hd', hleft, hne]
  unfold fromMsg fromMsgR fromMsgPrefix
  simp [hn, hh, hq, htc, hquestion]

/-- a non-zero (extended) response code is reported with its 12-bit value -/
theorem rrset_err_rcode (t : RType) (msg : Bytes) (p : Prefix) (hp : fromMsgPrefix msg = .ok p) (hrc : p.rcode ≠ 0) :
    fromMsg t msg = .err (.badResponseCode p.rcode) := by
  unfold fromMsg fromMsgR
  simp [hp, hrc]

end Rsdns.C07
