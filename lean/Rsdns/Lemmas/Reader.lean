/-
  Rsdns.Lemmas.Reader — invariants of `MessageReader` that hold in EVERY state reachable by ANY call
  history (no protocol assumed, any markers):
    * the cursor's view is inside the message and its full view is the whole message (`RInv`);
    * no call performs UB (`Res.noUB`): panics are possible only at the debug assertions and the
      checked counter arithmetic.
-/
import Rsdns.Model.ReaderOps
import Rsdns.Lemmas.RData

set_option linter.unusedVariables false

namespace Rsdns

open Generated Spec

/-- a cursor computation that never performs UB and keeps the cursor well-formed over the same full
    view, in every outcome -/
def CurM.Good {α : Type} (msg : Bytes) (f : CurM α) : Prop :=
  ∀ c, Cur.OK msg c → (f c).1.noUB ∧ Cur.OK msg (f c).2 ∧ (f c).2.full = c.full

theorem CurM.Good.of_ftriple {α} {msg : Bytes} {f : CurM α} (h : ∀ L O, FTriple msg L O f) : CurM.Good msg f := by
  intro c hc
  have := h c.lim c.orig c (Frame.of hc)
  cases hfc : f c with
  | mk r c' =>
    rw [hfc] at this
    cases r with
    | ok a => exact ⟨trivial, this.1, by simp only [Cur.full, this.2.1, this.2.2]⟩
    | err e => exact ⟨trivial, this.1, by simp only [Cur.full, this.2.1, this.2.2]⟩
    | panic p => exact this.elim
    | ub => exact this.elim

theorem CurM.Good.readRData (t : RType) (msg : Bytes) (n : Nat) : CurM.Good msg (readRData t msg n) := by
  intro c hc
  have := readRData_spec t msg n c hc
  cases hfc : Rsdns.readRData t msg n c with
  | mk r c' =>
    rw [hfc] at this
    cases r with
    | ok a =>
      refine ⟨trivial, ⟨by rw [this.2.2.1]; exact hc.lim_le, by intro o ho; rw [this.2.2.2.1] at ho; cases ho⟩, ?_⟩
      simp only [Cur.full, this.2.2.2.1, this.2.2.1, this.1, Option.getD_none]
    | err e => exact ⟨trivial, this.1, this.2⟩
    | panic p => exact this.elim
    | ub => exact this.elim

theorem Cur.u16beUnchecked_spec {msg : Bytes} {c : Cur} (h : Cur.OK msg c) :
    (c.u16beUnchecked msg = .ok (Cur.beNat msg c.pos 2, { lim := c.lim, pos := c.pos + 2, orig := c.orig }) ∧
        c.pos + 2 ≤ c.lim) ∨
    (c.u16beUnchecked msg = .panic .debugAssert ∧ c.lim < c.pos + 2) := by
  unfold Cur.u16beUnchecked Cur.len
  have := h.lim_le
  by_cases hl : c.lim - c.pos ≥ 2
  · left
    have h2 : c.pos ≤ c.lim ∧ c.pos + 2 ≤ msg.size := by omega
    simp only [hl, if_true, h2, and_self]
    exact ⟨trivial, by omega⟩
  · right
    simp only [hl, if_false]
    exact ⟨trivial, by omega⟩

/-- `Reader<Header>`: one length test makes the six unchecked reads safe -/
theorem readHeader_spec (msg : Bytes) (c : Cur) (h : Cur.OK msg c) :
    (∃ hd, readHeader msg c = (.ok hd, { lim := c.lim, pos := c.pos + 12, orig := c.orig }) ∧ c.pos + 12 ≤ c.lim) ∨
    (readHeader msg c = (.err .endOfBuffer, c)) := by
  obtain ⟨lim, pos, orig⟩ := c
  unfold readHeader
  by_cases hl : Cur.len { lim := lim, pos := pos, orig := orig } ≥ HEADER_LENGTH
  · left
    have hl' : lim - pos ≥ 12 := hl
    simp only [hl, if_true]
    have step : ∀ (k : Nat), k + 2 ≤ 12 →
        Cur.u16beUnchecked msg { lim := lim, pos := pos + k, orig := orig } =
          .ok (Cur.beNat msg (pos + k) 2, { lim := lim, pos := pos + (k + 2), orig := orig }) := by
      intro k hk
      have hok : Cur.OK msg { lim := lim, pos := pos + k, orig := orig } := ⟨h.lim_le, h.orig_le⟩
      rcases Cur.u16beUnchecked_spec hok with ⟨he, _⟩ | ⟨_, hlt⟩
      · rw [he]; simp only [Nat.add_assoc]
      · simp only at hlt; omega
    have s0 := step 0 (by omega)
    have s2 := step 2 (by omega)
    have s4 := step 4 (by omega)
    have s6 := step 6 (by omega)
    have s8 := step 8 (by omega)
    have s10 := step 10 (by omega)
    simp only [Nat.add_zero, Nat.reduceAdd] at s0 s2 s4 s6 s8 s10
    simp only [bind, CurM.bind, CurM.lift, pure, CurM.pure, s0, s2, s4, s6, s8, s10]
    exact ⟨_, ⟨rfl, by omega⟩⟩
  · right
    simp [hl]

theorem CurM.Good.readHeader (msg : Bytes) : CurM.Good msg (Rsdns.readHeader msg) := by
  intro c hc
  rcases readHeader_spec msg c hc with ⟨hd, he, _⟩ | he
  · rw [he]
    exact ⟨trivial, ⟨hc.lim_le, hc.orig_le⟩, rfl⟩
  · rw [he]
    exact ⟨trivial, hc, rfl⟩

theorem readQuestion_ftriple (msg L O) : FTriple msg L O (readQuestion msg) := by
  unfold readQuestion
  exact FTriple.bind (FTriple.readName .inline msg L O) (fun _ =>
    FTriple.bind (FTriple.u16be msg L O) (fun _ => FTriple.bind (FTriple.u16be msg L O) (fun _ => FTriple.pure _)))

theorem readQuestionRef_ftriple (msg L O) : FTriple msg L O (readQuestionRef msg) := by
  intro c hc
  unfold readQuestionRef
  exact (FTriple.bind (FTriple.skipName msg L O) (fun _ =>
    FTriple.bind (FTriple.u16be msg L O) (fun _ => FTriple.bind (FTriple.u16be msg L O) (fun _ => FTriple.pure _)))) c hc

theorem skipQuestion_ftriple (msg L O) : FTriple msg L O (skipQuestion msg) := by
  unfold skipQuestion
  exact FTriple.bind (FTriple.skipName msg L O) (fun _ => FTriple.skip msg L O 4)

theorem skipRr_ftriple (msg L O) : FTriple msg L O (skipRr msg) := by
  unfold skipRr
  exact FTriple.bind (FTriple.skipName msg L O) (fun _ =>
    FTriple.bind (FTriple.skip msg L O 8) (fun _ =>
    FTriple.bind (FTriple.u16be msg L O) (fun n => FTriple.skip msg L O n)))

theorem rawMarkerM_ftriple (msg L O) (pos typeOffset section_ : Nat) :
    FTriple msg L O (do
      let rtype ← CurM.u16be msg
      let rclass ← CurM.u16be msg
      let ttl ← CurM.u32be msg
      let rdlen ← CurM.u16be msg
      pure { offset := pos, typeOffset, rtype, rclass, ttl, rdlen, section_ : Marker }) :=
  FTriple.bind (FTriple.u16be msg L O) (fun _ =>
    FTriple.bind (FTriple.u16be msg L O) (fun _ =>
    FTriple.bind (FTriple.u32be msg L O) (fun _ =>
    FTriple.bind (FTriple.u16be msg L O) (fun _ => FTriple.pure _))))

/-! ### reader invariant -/

/-- the cursor's view is inside the message, and the full view is the whole message -/
def RInv (msg : Bytes) (r : Reader) : Prop := Cur.OK msg r.cur ∧ r.cur.full = msg.size

/-- a call result: no UB, and the state it leaves satisfies the invariant -/
def StepOK {α : Type} (msg : Bytes) (x : Res α × Reader) : Prop := x.1.noUB ∧ RInv msg x.2

theorem RInv.new {msg : Bytes} {r : Reader} (h : Reader.new msg = .ok r) : RInv msg r := by
  unfold Reader.new at h
  split at h
  · simp at h
  · simp only [Res.ok.injEq] at h
    subst h
    exact ⟨Cur.OK.new msg, rfl⟩

theorem onCur_ok {α} {msg : Bytes} {r : Reader} {f : CurM α} (hr : RInv msg r) (hf : CurM.Good msg f) :
    StepOK msg (r.onCur f) := by
  unfold Reader.onCur
  have := hf r.cur hr.1
  cases hfc : f r.cur with
  | mk res c =>
    rw [hfc] at this
    exact ⟨this.1, this.2.1, by simp only; rw [this.2.2]; exact hr.2⟩

theorem markDone_ok {α} {msg : Bytes} {x : Res α × Reader} (h : StepOK msg x) : StepOK msg (markDone x) := by
  unfold markDone
  obtain ⟨res, r⟩ := x
  cases res <;> exact h

theorem Counts.left_noUB (c : Counts) : c.left.noUB := by
  unfold Counts.left; split <;> trivial

theorem Counts.left_cases (c : Counts) : (∃ n, c.left = .ok n) ∨ (∃ p, c.left = .panic p) := by
  unfold Counts.left; split
  · right; exact ⟨_, rfl⟩
  · left; exact ⟨_, rfl⟩

theorem Tracker.recordsLeft_noUB (t : Tracker) : t.recordsLeft.noUB := by
  unfold Tracker.recordsLeft
  rcases Counts.left_cases (t.sec 0) with ⟨a, ha⟩ | ⟨p, ha⟩ <;>
  rcases Counts.left_cases (t.sec 1) with ⟨b, hb⟩ | ⟨q, hb⟩ <;>
  rcases Counts.left_cases (t.sec 2) with ⟨c, hc⟩ | ⟨s, hc⟩ <;>
  simp [ha, hb, hc]

theorem Tracker.sectionRead_noUB (t : Tracker) (s pos : Nat) : (t.sectionRead s pos).noUB := by
  unfold Tracker.sectionRead
  simp only
  split
  · trivial
  · split <;> trivial

theorem Tracker.questionRead_noUB (t : Tracker) (pos : Nat) : (t.questionRead pos).noUB := by
  unfold Tracker.questionRead
  split
  · trivial
  · simp only; split <;> trivial

theorem finishData_ok {α} {msg : Bytes} (m : Marker) {x : Res α × Reader} (h : StepOK msg x) :
    StepOK msg (Reader.finishData m x) := by
  unfold Reader.finishData
  obtain ⟨res, r⟩ := x
  cases res with
  | ok v =>
    simp only
    have := Tracker.sectionRead_noUB r.tr m.section_ r.cur.pos
    cases hs : r.tr.sectionRead m.section_ r.cur.pos with
    | ok t => exact ⟨trivial, h.2⟩
    | err e => exact ⟨trivial, h.2⟩
    | panic p => exact ⟨trivial, h.2⟩
    | ub => rw [hs] at this; exact this.elim
  | err e => exact ⟨trivial, h.2⟩
  | panic p => exact h
  | ub => exact h

theorem header_ok {msg : Bytes} {r : Reader} (hr : RInv msg r) : StepOK msg (r.header msg) := by
  unfold Reader.header
  apply markDone_ok
  have := onCur_ok hr (CurM.Good.readHeader msg)
  cases hh : r.onCur (readHeader msg) with
  | mk res r1 =>
    rw [hh] at this
    cases res <;> exact this

theorem readQ_ok {msg : Bytes} {r : Reader} (hr : RInv msg r) (owned : Bool) : StepOK msg (r.readQ msg owned) := by
  unfold Reader.readQ
  split
  · have h1 := onCur_ok hr (CurM.Good.of_ftriple (readQuestion_ftriple msg))
    cases hq : r.onCur (readQuestion msg) with
    | mk res r1 => rw [hq] at h1; cases res <;> exact ⟨by first | trivial | exact h1.1, h1.2⟩
  · have h2 := onCur_ok hr (CurM.Good.of_ftriple (readQuestionRef_ftriple msg))
    cases hq : r.onCur (readQuestionRef msg) with
    | mk res r1 => rw [hq] at h2; cases res <;> exact ⟨by first | trivial | exact h2.1, h2.2⟩

theorem afterQ_ok {msg : Bytes} {x : Res QOut × Reader} (h : StepOK msg x) : StepOK msg (Reader.afterQ x) := by
  unfold Reader.afterQ
  obtain ⟨res, r1⟩ := x
  cases res with
  | ok q =>
    simp only
    have := Tracker.questionRead_noUB r1.tr r1.cur.pos
    cases hs : r1.tr.questionRead r1.cur.pos with
    | ok t => exact ⟨trivial, h.2⟩
    | err e => exact ⟨trivial, h.2⟩
    | panic p => exact ⟨trivial, h.2⟩
    | ub => rw [hs] at this; exact this.elim
  | err e => exact ⟨trivial, h.2⟩
  | panic p => exact h
  | ub => exact h

theorem question_ok {msg : Bytes} {r : Reader} (hr : RInv msg r) (k : QKind) : StepOK msg (r.question msg k) := by
  unfold Reader.question
  split
  · exact ⟨trivial, hr⟩
  · unfold Tracker.questionsLeft
    rcases Counts.left_cases r.tr.qd with ⟨left, hl⟩ | ⟨p, hl⟩
    · simp only [hl]
      split
      · exact ⟨trivial, hr⟩
      · split
        · exact ⟨trivial, hr⟩
        · exact afterQ_ok (readQ_ok hr _)
    · simp only [hl]
      exact ⟨trivial, hr⟩

theorem skipQuestionsImpl_ok {msg : Bytes} (fuel : Nat) {r : Reader} (hr : RInv msg r) :
    StepOK msg (r.skipQuestionsImpl msg fuel) := by
  induction fuel generalizing r with
  | zero => exact ⟨trivial, hr⟩
  | succ fuel ih =>
    unfold Reader.skipQuestionsImpl
    unfold Tracker.questionsLeft
    rcases Counts.left_cases r.tr.qd with ⟨left, hl⟩ | ⟨p, hl⟩
    · simp only [hl]
      split
      · have h1 := onCur_ok hr (CurM.Good.of_ftriple (skipQuestion_ftriple msg))
        cases hq : r.onCur (skipQuestion msg) with
        | mk res r1 =>
          rw [hq] at h1
          cases res with
          | ok u =>
            simp only
            have := Tracker.questionRead_noUB r1.tr r1.cur.pos
            cases hs : r1.tr.questionRead r1.cur.pos with
            | ok t => exact ih (r := { r1 with tr := t }) h1.2
            | err e => exact ⟨trivial, h1.2⟩
            | panic p => exact ⟨trivial, h1.2⟩
            | ub => rw [hs] at this; exact this.elim
          | err e => exact ⟨trivial, h1.2⟩
          | panic p => exact h1
          | ub => exact h1
      · exact ⟨trivial, hr⟩
    · simp only [hl]
      exact ⟨trivial, hr⟩

theorem skipQuestions_ok {msg : Bytes} {r : Reader} (hr : RInv msg r) : StepOK msg (r.skipQuestions msg) := by
  unfold Reader.skipQuestions
  split
  · exact ⟨trivial, hr⟩
  · exact markDone_ok (skipQuestionsImpl_ok _ hr)

theorem calcSection_ok {msg : Bytes} {r : Reader} (hr : RInv msg r) : StepOK msg r.calcSection := by
  unfold Reader.calcSection
  split <;> exact ⟨trivial, hr⟩

theorem rawMarker_ok {msg : Bytes} {r : Reader} (hr : RInv msg r) (pos s : Nat) :
    StepOK msg (r.rawMarker msg pos s) := by
  unfold Reader.rawMarker
  exact onCur_ok hr (CurM.Good.of_ftriple (fun L O => rawMarkerM_ftriple msg L O pos r.cur.pos s))

theorem headerImpl_ok {msg : Bytes} {r : Reader} (hr : RInv msg r) (k : HKind) :
    StepOK msg (r.headerImpl msg k) := by
  unfold Reader.headerImpl
  have hc := calcSection_ok hr
  cases hcs : r.calcSection with
  | mk res r1 =>
    rw [hcs] at hc
    cases res with
    | err e => exact ⟨trivial, hc.2⟩
    | panic p => exact hc
    | ub => exact hc
    | ok section_ =>
      simp only
      have hskip := onCur_ok hc.2 (CurM.Good.of_ftriple (FTriple.skipName msg))
      have hread : ∀ nk, StepOK msg (r1.onCur (CurM.readName nk msg)) :=
        fun nk => onCur_ok hc.2 (CurM.Good.of_ftriple (fun L O => FTriple.readName nk msg L O))
      -- the name step, whatever the kind, is a good step
      have hname : ∀ (x : Res HName × Reader), StepOK msg x →
          StepOK msg (match x with
            | (.ok hn, r2) =>
              match r2.rawMarker msg r.cur.pos section_ with
              | (.ok m, r3) => ((.ok (hn, m) : Res (HName × Marker)), r3)
              | (.err e, r3) => (.err e, r3)
              | (.panic p, r3) => (.panic p, r3)
              | (.ub, r3) => (.ub, r3)
            | (.err e, r2) => (.err e, r2)
            | (.panic p, r2) => (.panic p, r2)
            | (.ub, r2) => (.ub, r2)) := by
        intro x hx
        obtain ⟨res, r2⟩ := x
        cases res with
        | ok hn =>
          simp only
          have hm := rawMarker_ok hx.2 r.cur.pos section_
          cases hrm : r2.rawMarker msg r.cur.pos section_ with
          | mk res3 r3 =>
            rw [hrm] at hm
            cases res3 <;> exact ⟨by first | trivial | exact hm.1, hm.2⟩
        | err e => exact ⟨trivial, hx.2⟩
        | panic p => exact hx
        | ub => exact hx
      apply hname
      cases k with
      | marker =>
        simp only
        cases hs : r1.onCur (CurM.skipName msg) with
        | mk res r2 => rw [hs] at hskip; cases res <;> exact ⟨by first | trivial | exact hskip.1, hskip.2⟩
      | ref =>
        simp only
        cases hs : r1.onCur (CurM.skipName msg) with
        | mk res r2 => rw [hs] at hskip; cases res <;> exact ⟨by first | trivial | exact hskip.1, hskip.2⟩
      | owned nk =>
        simp only
        have := hread nk
        cases hs : r1.onCur (CurM.readName nk msg) with
        | mk res r2 => rw [hs] at this; cases res <;> exact ⟨by first | trivial | exact this.1, this.2⟩

theorem recordHeader_ok {msg : Bytes} {r : Reader} (hr : RInv msg r) (k : HKind) :
    StepOK msg (r.recordHeader msg k) := by
  unfold Reader.recordHeader
  split
  · exact ⟨trivial, hr⟩
  · exact markDone_ok (headerImpl_ok hr k)

theorem skipDataImpl_ok {msg : Bytes} {r : Reader} (hr : RInv msg r) (m : Marker) :
    StepOK msg (r.skipDataImpl m) := by
  unfold Reader.skipDataImpl
  exact finishData_ok m (onCur_ok hr (CurM.Good.of_ftriple (fun L O => FTriple.skip msg L O m.rdlen)))

theorem assertAt_ok {α} {msg : Bytes} {r : Reader} (hr : RInv msg r) (m : Marker) {k : Res α × Reader}
    (hk : StepOK msg k) : StepOK msg (r.assertAt m k) := by
  unfold Reader.assertAt
  split
  · exact hk
  · exact ⟨trivial, hr⟩

theorem skipData_ok {msg : Bytes} {r : Reader} (hr : RInv msg r) (m : Marker) : StepOK msg (r.skipData m) := by
  unfold Reader.skipData
  apply assertAt_ok hr
  split
  · exact ⟨trivial, hr⟩
  · exact skipDataImpl_ok hr m

theorem dataBytes_ok {msg : Bytes} {r : Reader} (hr : RInv msg r) (m : Marker) :
    StepOK msg (r.dataBytes msg m) := by
  unfold Reader.dataBytes
  apply assertAt_ok hr
  split
  · exact ⟨trivial, hr⟩
  · exact finishData_ok m (onCur_ok hr (CurM.Good.of_ftriple (fun L O => FTriple.slice msg L O m.rdlen)))

theorem data_ok {msg : Bytes} {r : Reader} (hr : RInv msg r) (t : RType) (m : Marker) :
    StepOK msg (r.data msg t m) := by
  unfold Reader.data
  apply assertAt_ok hr
  split
  · exact ⟨trivial, hr⟩
  · exact finishData_ok m (onCur_ok hr (CurM.Good.readRData t msg m.rdlen))

theorem optRecord_ok {msg : Bytes} {r : Reader} (hr : RInv msg r) (m : Marker) :
    StepOK msg (r.optRecord m) := by
  unfold Reader.optRecord
  split
  · exact ⟨trivial, hr⟩
  · apply assertAt_ok hr
    split
    · exact ⟨trivial, hr⟩
    · apply finishData_ok
      have := onCur_ok hr (CurM.Good.of_ftriple (fun L O => FTriple.skip msg L O m.rdlen))
      cases hs : r.onCur (CurM.skip m.rdlen) with
      | mk res r1 => rw [hs] at this; cases res <;> exact ⟨by first | trivial | exact this.1, this.2⟩

theorem skipSectionImpl_ok {msg : Bytes} (s : Nat) (fuel : Nat) {r : Reader} (hr : RInv msg r) :
    StepOK msg (r.skipSectionImpl msg s fuel) := by
  induction fuel generalizing r with
  | zero => exact ⟨trivial, hr⟩
  | succ fuel ih =>
    unfold Reader.skipSectionImpl
    unfold Tracker.recordsLeftIn
    rcases Counts.left_cases (r.tr.sec s) with ⟨left, hl⟩ | ⟨p, hl⟩
    · simp only [hl]
      split
      · have h1 := headerImpl_ok hr .marker
        cases hh : r.headerImpl msg .marker with
        | mk res r1 =>
          rw [hh] at h1
          cases res with
          | ok v =>
            obtain ⟨hn, m⟩ := v
            simp only
            have h2 := skipDataImpl_ok h1.2 m
            cases hs : r1.skipDataImpl m with
            | mk res2 r2 =>
              rw [hs] at h2
              cases res2 with
              | ok u => exact ih h2.2
              | err e => exact ⟨trivial, h2.2⟩
              | panic p => exact h2
              | ub => exact h2
          | err e => exact ⟨trivial, h1.2⟩
          | panic p => exact h1
          | ub => exact h1
      · exact ⟨trivial, hr⟩
    · simp only [hl]
      exact ⟨trivial, hr⟩

theorem seekImpl_ok {msg : Bytes} {r : Reader} (hr : RInv msg r) (s : Nat) : StepOK msg (r.seekImpl msg s) := by
  unfold Reader.seekImpl
  have h1 := skipQuestionsImpl_ok (msg := msg) r.qFuel hr
  cases hq : r.skipQuestionsImpl msg r.qFuel with
  | mk res r1 =>
    rw [hq] at h1
    cases res with
    | ok u =>
      simp only
      split
      · exact ⟨trivial, h1.2⟩
      · have h2 := skipSectionImpl_ok (msg := msg) 0 (r1.sFuel 0) h1.2
        cases hs : r1.skipSectionImpl msg 0 (r1.sFuel 0) with
        | mk res2 r2 =>
          rw [hs] at h2
          cases res2 with
          | ok u2 =>
            simp only
            split
            · exact ⟨trivial, h2.2⟩
            · exact skipSectionImpl_ok 1 _ h2.2
          | err e => exact ⟨trivial, h2.2⟩
          | panic p => exact h2
          | ub => exact h2
    | err e => exact ⟨trivial, h1.2⟩
    | panic p => exact h1
    | ub => exact h1

theorem seek_ok {msg : Bytes} {r : Reader} (hr : RInv msg r) (s : Nat) : StepOK msg (r.seek msg s) := by
  unfold Reader.seek
  split
  · exact ⟨trivial, hr⟩
  · split
    · refine ⟨trivial, ⟨hr.1.lim_le, hr.1.orig_le⟩, ?_⟩
      simpa [Cur.full, Cur.setPos] using hr.2
    · split
      · exact ⟨trivial, hr⟩
      · exact markDone_ok (seekImpl_ok hr s)

/-! ### random access -/

theorem cloneWithPos_eq {msg : Bytes} {r : Reader} (hr : RInv msg r) (p : Nat) :
    r.cur.cloneWithPos p = Cur.withPos msg p := by
  unfold Cur.cloneWithPos Cur.withPos
  have := hr.2
  unfold Cur.full at this
  rw [this]

theorem mapRes_noUB {α} {f : α → Val} {x : Res α} (h : x.noUB) : (mapRes f x).noUB := by
  cases x <;> first | trivial | exact h

theorem mapVal_ok {α} {msg : Bytes} {f : α → Val} {x : Res α × Reader} (h : StepOK msg x) :
    StepOK msg (mapVal f x) := by
  obtain ⟨res, r⟩ := x
  cases res <;> exact h

theorem dataBytesAt_noUB {msg : Bytes} {r : Reader} (hr : RInv msg r) (m : Marker) :
    (r.dataBytesAt msg m).noUB := by
  unfold Reader.dataBytesAt
  rw [cloneWithPos_eq hr]
  exact ((CurM.Good.of_ftriple (fun L O => FTriple.slice msg L O m.rdlen)) _ (Cur.OK.withPos msg _)).1

theorem dataAt_noUB {msg : Bytes} {r : Reader} (hr : RInv msg r) (t : RType) (m : Marker) :
    (r.dataAt msg t m).noUB := by
  unfold Reader.dataAt
  rw [cloneWithPos_eq hr]
  exact ((CurM.Good.readRData t msg m.rdlen) _ (Cur.OK.withPos msg _)).1

/-- every public call, from any state satisfying the invariant, with any arguments: no UB, and the
    invariant is re-established -/
theorem step_ok {msg : Bytes} {r : Reader} (hr : RInv msg r) (op : Op) : StepOK msg (r.step msg op) := by
  cases op with
  | header => exact mapVal_ok (header_ok hr)
  | question k => exact mapVal_ok (question_ok hr k)
  | skipQuestions => exact mapVal_ok (skipQuestions_ok hr)
  | recordHeader k => exact mapVal_ok (recordHeader_ok hr k)
  | skipData m => exact mapVal_ok (skipData_ok hr m)
  | dataBytes m => exact mapVal_ok (dataBytes_ok hr m)
  | data t m => exact mapVal_ok (data_ok hr t m)
  | optRecord m => exact mapVal_ok (optRecord_ok hr m)
  | seek s => exact mapVal_ok (seek_ok hr s)
  | questionsCount =>
    refine ⟨mapRes_noUB ?_, hr⟩
    unfold Reader.questionsCount Tracker.questionsLeft
    split
    · exact Counts.left_noUB _
    · trivial
  | recordsCount =>
    refine ⟨mapRes_noUB ?_, hr⟩
    unfold Reader.recordsCount
    split
    · exact Tracker.recordsLeft_noUB _
    · trivial
  | recordsCountIn s =>
    refine ⟨mapRes_noUB ?_, hr⟩
    unfold Reader.recordsCountIn Tracker.recordsLeftIn
    split
    · exact Counts.left_noUB _
    · trivial
  | dataBytesAt m => exact ⟨mapRes_noUB (dataBytesAt_noUB hr m), hr⟩
  | dataAt t m => exact ⟨mapRes_noUB (dataAt_noUB hr t m), hr⟩
  | nameRefAt m => exact ⟨trivial, hr⟩

theorem run_ok {msg : Bytes} (ops : List Op) {r : Reader} (hr : RInv msg r) :
    (∀ o ∈ (r.run msg ops).1, o.noUB) ∧ RInv msg (r.run msg ops).2 := by
  induction ops generalizing r with
  | nil => exact ⟨by simp [Reader.run], hr⟩
  | cons op ops ih =>
    have h1 := step_ok hr op
    have h2 := ih h1.2
    simp only [Reader.run]
    refine ⟨?_, h2.2⟩
    intro o' ho'
    rcases List.mem_cons.mp ho' with rfl | hm
    · exact h1.1
    · exact h2.1 o' hm

theorem Reach.inv {msg : Bytes} {r : Reader} (h : Reader.Reach msg r) : RInv msg r := by
  obtain ⟨r0, ops, h0, hrun⟩ := h
  rw [← hrun]
  exact (run_ok ops (RInv.new h0)).2

end Rsdns
