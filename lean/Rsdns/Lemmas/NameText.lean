/-
  Rsdns.Lemmas.NameText — helper lemmas about the label-splitting loop, `check_name_bytes` and the
  two parsers.
-/
import Rsdns.Model.NameText
import Rsdns.Lemmas.Safety

set_option linter.unusedVariables false

namespace Rsdns

open Generated

/-- the splitting loop never reaches its `get_unchecked(i..j)` with `i > j`, and never panics, as long as
    the per-label action does not -/
theorem splitLoop_safe {σ : Type} (name : Bytes) (act : σ → Bytes → Res σ) (hact : ∀ st l, (act st l).safe)
    (fuel j i : Nat) (ds : Option Nat) (st : σ) (hij : i ≤ j) (hds : ∀ d, ds = some d → d ≤ j) :
    (splitLoop name act fuel j i ds st).safe ∧
      ∀ st' ds', splitLoop name act fuel j i ds st = .ok (st', ds') → ∀ d, ds' = some d → d ≤ max j name.size := by
  induction fuel generalizing j i ds st with
  | zero =>
    refine ⟨by simp [splitLoop], ?_⟩
    intro st' ds' h d hd
    simp only [splitLoop, Res.ok.injEq, Prod.mk.injEq] at h
    obtain ⟨_, rfl⟩ := h
    have := hds d hd
    omega
  | succ fuel ih =>
    unfold splitLoop
    by_cases hj : j < name.size
    · simp only [hj, if_true]
      by_cases hdot : (name.getD j 0 == DOT) = true
      · simp only [hdot, if_true, hij]
        have ha := hact st (name.extract i j)
        cases hr : act st (name.extract i j) with
        | ok st1 =>
          simp only
          have := ih (j + 1) (j + 1) (some (j + 1)) st1 (Nat.le_refl _) (by intro d hd; simp at hd; omega)
          refine ⟨this.1, ?_⟩
          intro st' ds' h d hd
          have := this.2 st' ds' h d hd
          omega
        | err e => simp
        | panic p => rw [hr] at ha; simp at ha
        | ub => rw [hr] at ha; simp at ha
      · simp only [hdot, Bool.false_eq_true, if_false]
        have := ih (j + 1) i ds st (by omega) (by intro d hd; have := hds d hd; omega)
        refine ⟨this.1, ?_⟩
        intro st' ds' h d hd
        have := this.2 st' ds' h d hd
        omega
    · simp only [hj, if_false]
      refine ⟨by simp, ?_⟩
      intro st' ds' h d hd
      simp only [Res.ok.injEq, Prod.mk.injEq] at h
      obtain ⟨_, rfl⟩ := h
      have := hds d hd
      omega

theorem splitLabels_safe {σ : Type} (name : Bytes) (act : σ → Bytes → Res σ) (hact : ∀ st l, (act st l).safe)
    (st : σ) : (splitLabels name act st).safe := by
  unfold splitLabels
  have h := splitLoop_safe name act hact name.size 0 0 none st (Nat.le_refl _) (by intro d hd; cases hd)
  cases hr : splitLoop name act name.size 0 0 none st with
  | ok v =>
    obtain ⟨st1, ds⟩ := v
    simp only
    cases ds with
    | none => exact hact st1 name
    | some d =>
      simp only
      have := h.2 st1 (some d) hr d rfl
      have hnot : ¬ (name.size < d) := by omega
      simp only [hnot, if_false]
      split
      · exact hact _ _
      · simp
  | err e => simp
  | panic p => rw [hr] at h; simp at h
  | ub => rw [hr] at h; simp at h

/-- a reflexive, transitive relation respected by every successful action is respected by the loop -/
theorem splitLoop_rel {σ : Type} (name : Bytes) (act : σ → Bytes → Res σ) (R : σ → σ → Prop)
    (hrefl : ∀ s, R s s) (htrans : ∀ a b c, R a b → R b c → R a c)
    (hact : ∀ st l st', act st l = .ok st' → R st st')
    (fuel j i : Nat) (ds : Option Nat) (st : σ) :
    ∀ st' ds', splitLoop name act fuel j i ds st = .ok (st', ds') → R st st' := by
  induction fuel generalizing j i ds st with
  | zero =>
    intro st' ds' h
    simp only [splitLoop, Res.ok.injEq, Prod.mk.injEq] at h
    rw [← h.1]; exact hrefl _
  | succ fuel ih =>
    intro st' ds' h
    unfold splitLoop at h
    by_cases hj : j < name.size
    · simp only [hj, if_true] at h
      by_cases hdot : (name.getD j 0 == DOT) = true
      · simp only [hdot, if_true] at h
        by_cases hij : i ≤ j
        · simp only [hij, if_true] at h
          cases hr : act st (name.extract i j) with
          | ok st1 =>
            simp only [hr] at h
            exact htrans _ _ _ (hact _ _ _ hr) (ih _ _ _ _ _ _ h)
          | err e => simp [hr] at h
          | panic p => simp [hr] at h
          | ub => simp [hr] at h
        · simp [hij] at h
      · simp only [hdot, Bool.false_eq_true, if_false] at h
        exact ih _ _ _ _ _ _ h
    · simp only [hj, if_false, Res.ok.injEq, Prod.mk.injEq] at h
      rw [← h.1]; exact hrefl _

theorem splitLabels_rel {σ : Type} (name : Bytes) (act : σ → Bytes → Res σ) (R : σ → σ → Prop)
    (hrefl : ∀ s, R s s) (htrans : ∀ a b c, R a b → R b c → R a c)
    (hact : ∀ st l st', act st l = .ok st' → R st st') (st st' : σ)
    (h : splitLabels name act st = .ok st') : R st st' := by
  unfold splitLabels at h
  cases hl : splitLoop name act name.size 0 0 none st with
  | ok v =>
    obtain ⟨st1, ds⟩ := v
    have h1 := splitLoop_rel name act R hrefl htrans hact _ _ _ _ _ _ _ hl
    simp only [hl] at h
    cases ds with
    | none => exact htrans _ _ _ h1 (hact _ _ _ h)
    | some d =>
      simp only at h
      split at h
      · simp at h
      · split at h
        · exact htrans _ _ _ h1 (hact _ _ _ h)
        · simp only [Res.ok.injEq] at h; rw [← h]; exact h1
  | err e => simp [hl] at h
  | panic p => simp [hl] at h
  | ub => simp [hl] at h

theorem checkNameBytes_safe (s : Bytes) : (checkNameBytes s).safe := by
  unfold checkNameBytes
  by_cases h0 : s.size = 0
  · simp [h0]
  · simp only [h0, if_false]
    by_cases hr : (s == #[DOT]) = true
    · simp [hr]
    · simp only [hr, Bool.false_eq_true, if_false]
      have := splitLabels_safe s (fun (_ : Unit) l => checkLabel l) (fun _ l => checkLabel_safe l) ()
      cases hs : splitLabels s (fun (_ : Unit) l => checkLabel l) () with
      | ok u => simp only; split <;> split <;> simp
      | err e => simp
      | panic p => rw [hs] at this; simp at this
      | ub => rw [hs] at this; simp at this

/-- what an accepted text name satisfies -/
theorem checkNameBytes_ok {s : Bytes} (h : checkNameBytes s = .ok ()) :
    s.size ≠ 0 ∧ (s = #[DOT] ∨
      (splitLabels s (fun (_ : Unit) l => checkLabel l) () = .ok () ∧
       (if s.getD (s.size - 1) 0 == DOT then s.size + 1 else s.size + 2) ≤ DOMAIN_NAME_MAX_LENGTH)) := by
  unfold checkNameBytes at h
  by_cases h0 : s.size = 0
  · simp [h0] at h
  · refine ⟨h0, ?_⟩
    simp only [h0, if_false] at h
    by_cases hr : (s == #[DOT]) = true
    · left; simpa using hr
    · right
      simp only [hr, Bool.false_eq_true, if_false] at h
      cases hs : splitLabels s (fun (_ : Unit) l => checkLabel l) () with
      | ok u =>
        simp only [hs] at h
        refine ⟨rfl, ?_⟩
        by_cases hlen : (if s.getD (s.size - 1) 0 == DOT then s.size + 1 else s.size + 2) > DOMAIN_NAME_MAX_LENGTH
        · rw [if_pos hlen] at h; simp at h
        · omega
      | err e => simp [hs] at h
      | panic p => simp [hs] at h
      | ub => simp [hs] at h

end Rsdns
