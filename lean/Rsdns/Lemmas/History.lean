/-
  Rsdns.Lemmas.History — the reader along protocol-conforming histories, for ANY message:
  definitions (`PassUpto` / `PassAll`, `Pad`, `Fails`, `Reached`, `MidRec`, `MidBad`, `QIdx`, `Sit`,
  `Ghost`, `DocT`, `Allowed`, `nextPend`) and the per-call lemmas (header / data / question steps, the
  skipping loops of `seek` — succeeding over the skippable prefix, failing at the item that cannot be
  skipped —, `seek_live`, the situation-wise step lemmas) behind `Rsdns.Props.C09History`.
-/
import Rsdns.Props.C09
import Rsdns.Lemmas.Decode
import Rsdns.Lemmas.Inv

set_option linter.unusedVariables false

namespace Rsdns.C09

open Rsdns Generated

/-- `L` is the layout of the skip pass over `msg` as far as it gets: the first `nq` questions (from
    offset 12) and — only when all questions can be skipped — the first `nr` records can be skipped one
    after the other. -/
structure PassUpto (msg : Bytes) (L : Lay) (nq nr : Nat) : Prop where
  q0 : L.qEnd 0 = 12
  nq_le : nq ≤ L.qd
  nr_le : nr ≤ L.n
  gate : nq < L.qd → nr = 0
  ques : ∀ j, j < nq →
    skipQuestion msg (Cur.withPos msg (L.qEnd j)) = (.ok (), Cur.withPos msg (L.qEnd (j + 1)))
  recs : ∀ i, i < nr → skipRr msg (Cur.withPos msg (L.rOff i)) = (.ok (), Cur.withPos msg (L.rOff (i + 1)))

/-- the whole message can be skipped: every question and every record -/
abbrev PassAll (msg : Bytes) (L : Lay) : Prop := PassUpto msg L L.qd L.n

/-! ### which offsets a tracker operation can learn -/

theorem markFirst_off_cases (t : Tracker) (pos s j : Nat) :
    (markFirst t pos s).off j = t.off j ∨ (markFirst t pos s).off j = asU16 pos := by
  unfold markFirst
  split
  · simp only [upd]; split
    · right; rfl
    · left; rfl
  · left; rfl

theorem backFill_off_cases (t : Tracker) (pos : Nat) : ∀ (p j : Nat),
    (backFill t pos p).off j = t.off j ∨ (backFill t pos p).off j = asU16 pos
  | 0, j => Or.inl rfl
  | p + 1, j => by
    unfold backFill
    split
    · rcases backFill_off_cases { t with off := upd t.off p (asU16 pos) } pos p j with h | h
      · rw [h]
        simp only [upd]
        split
        · right; rfl
        · left; rfl
      · right; exact h
    · left; rfl

theorem fwdFill_off_cases (t : Tracker) (pos : Nat) : ∀ (fuel n j : Nat),
    (fwdFill t pos n fuel).off j = t.off j ∨ (fwdFill t pos n fuel).off j = asU16 pos
  | 0, _, _ => Or.inl rfl
  | fuel + 1, n, j => by
    unfold fwdFill
    split
    · split
      · simp only
        split
        · simp only [upd]; split
          · right; rfl
          · left; rfl
        · rcases fwdFill_off_cases { t with off := upd t.off n (asU16 pos) } pos fuel (n + 1) j with h | h
          · rw [h]
            simp only [upd]
            split
            · right; rfl
            · left; rfl
          · right; exact h
      · left; rfl
    · left; rfl

/-- `next_section(pos)` leaves every stored offset as it was or sets it to `pos` -/
theorem nextSection_off_cases (t : Tracker) (pos j : Nat) :
    (t.nextSection pos).2.off j = t.off j ∨ (t.nextSection pos).2.off j = asU16 pos := by
  by_cases h0 : (t.sec 0).read < (t.sec 0).total
  · rw [nextSection_eq0 t pos h0]; exact markFirst_off_cases t pos 0 j
  · by_cases h1 : (t.sec 1).read < (t.sec 1).total
    · rw [nextSection_eq1 t pos h0 h1]
      rcases backFill_off_cases (markFirst t pos 1) pos 1 j with h | h
      · rw [h]; exact markFirst_off_cases t pos 1 j
      · right; exact h
    · by_cases h2 : (t.sec 2).read < (t.sec 2).total
      · rw [nextSection_eq2 t pos h0 h1 h2]
        rcases backFill_off_cases (markFirst t pos 2) pos 2 j with h | h
        · rw [h]; exact markFirst_off_cases t pos 2 j
        · right; exact h
      · left
        rw [Tracker.nextSection, Tracker.nextSectionFrom]
        simp only [Nat.reduceAdd, Nat.sub_self, if_neg h0]
        rw [Tracker.nextSectionFrom]
        simp only [Nat.reduceAdd, Nat.reduceSub, if_neg h1]
        rw [Tracker.nextSectionFrom]
        simp only [Nat.reduceAdd, Nat.reduceSub, if_neg h2]
        rw [Tracker.nextSectionFrom]

theorem sectionRead_off_cases {t t' : Tracker} {s pos : Nat} (h : t.sectionRead s pos = .ok t') (j : Nat) :
    t'.off j = t.off j ∨ t'.off j = asU16 pos := by
  have hov : ¬ ((t.sec s).read + 1 > 65535) := by
    intro hc
    unfold Tracker.sectionRead at h
    simp only [hc, if_true] at h
    cases h
  rw [sectionRead_eq t s pos (by omega)] at h
  simp only [Res.ok.injEq] at h
  rw [← h]
  split
  · exact fwdFill_off_cases (bump t s) pos 3 (s + 1) j
  · left; rfl

theorem questionRead_off_cases {t t' : Tracker} {pos : Nat} (h : t.questionRead pos = .ok t') (j : Nat) :
    t'.off j = t.off j ∨ t'.off j = asU16 pos := by
  have hov : ¬ (t.qd.read + 1 > 65535) := by
    intro hc
    unfold Tracker.questionRead at h
    simp only [hc, if_true] at h
    cases h
  rw [questionRead_eq t pos (by omega)] at h
  simp only [Res.ok.injEq] at h
  rw [← h]
  split
  · exact fwdFill_off_cases (bumpQ t) pos 3 0 j
  · left; rfl


theorem skipName_advances (msg : Bytes) (c c1 : Cur) (n : Nat) (h : skipName msg c = .ok (n, c1)) :
    c.pos < c1.pos ∧ c1.lim = c.lim ∧ c1.orig = c.orig := by
  obtain ⟨ls, hex, _, _, hl, ho⟩ := C03.skip_sound msg c c1 n h
  exact ⟨Spec.Expand.lt_next hex, hl, ho⟩

/-- the RDATA of a record starts at least eleven octets behind its first octet -/
theorem headerImpl_gt (msg : Bytes) (r : Reader) (k : HKind) (hn : HName) (m : Marker) (r1 : Reader)
    (h : r.headerImpl msg k = (.ok (hn, m), r1)) : r.cur.pos + 11 ≤ m.rdataPos := by
  unfold Reader.headerImpl at h
  simp only [Reader.calcSection] at h
  cases hns : r.tr.nextSection r.cur.pos with
  | mk so t' =>
    cases so with
    | none => simp [hns] at h
    | some s =>
      simp only [hns] at h
      split at h
      · rename_i hn' r2 hnm
        obtain ⟨n, c1, hsk, hr2⟩ := headerName_resumes msg k { r with tr := t' } r2 hn' hnm
        have hadv := (skipName_advances msg _ c1 n hsk).1
        split at h
        · rename_i m' r3 hraw
          simp only [Prod.mk.injEq, Res.ok.injEq] at h
          obtain ⟨⟨_, rfl⟩, rfl⟩ := h
          obtain ⟨_, hto, _, _, _⟩ := rawMarker_inv msg r2 r.cur.pos s m' r3 hraw
          subst hr2
          simp only at hto hadv
          simp only [Marker.rdataPos, hto, TYPE_TO_RDATA_OFFSET]
          omega
        · simp at h
        · simp at h
        · simp at h
      · simp at h
      · simp at h
      · simp at h

/-- a live reader that has read the header of record `idx` (marker `m`) and not yet its data -/
structure MidRec (msg : Bytes) (L : Lay) (r : Reader) (m : Marker) : Prop where
  inv : RInv msg r
  orig : r.cur.orig = none
  live : r.done = false
  tinv : TInv L r.tr
  lt : idx r.tr < L.n
  sec : SecOf L r.tr m.section_
  known : r.tr.off m.section_ ≠ 0
  pos : r.cur.pos = m.rdataPos
  endp : m.rdataPos + m.rdlen = L.rOff (idx r.tr + 1)
  off : m.offset = L.rOff (idx r.tr)
  gt : L.rOff (idx r.tr) + 11 ≤ m.rdataPos

/-- **header step.** From a live reader between records, with a record left: any record-header call
    either fails (and latches) or returns the marker of the record at the current index and leaves the
    reader in the middle of that record. -/
theorem header_step (msg : Bytes) (L : Lay) (hL : L.WF) {nq nr : Nat} (hP : PassUpto msg L nq nr) (r : Reader)
    (hA : AtIndex msg L r) (hi : idx r.tr < nr) (k : HKind) :
    (∃ hn m r1, r.recordHeader msg k = (.ok (hn, m), r1) ∧ MidRec msg L r1 m ∧ idx r1.tr = idx r.tr ∧
        r1.tr.qd = r.tr.qd ∧ (∀ j, r.tr.off j ≠ 0 → r1.tr.off j ≠ 0) ∧
        (∀ j, r1.tr.off j = r.tr.off j ∨ r1.tr.off j = asU16 (L.rOff (idx r.tr)))) ∨
    (∃ e r1, r.recordHeader msg k = (.err e, r1) ∧ r1.done = true) ∨
    (∃ p r1, r.recordHeader msg k = (.panic p, r1)) := by
  have hok := recordHeader_ok (msg := msg) hA.inv k
  have hiL : idx r.tr < L.n := Nat.lt_of_lt_of_le hi hP.nr_le
  cases hres : r.recordHeader msg k with
  | mk res r1 =>
    cases res with
    | ok v =>
      obtain ⟨hn, m⟩ := v
      left
      have hh' : r.headerImpl msg k = (.ok (hn, m), r1) := by
        unfold Reader.recordHeader at hres
        simp only [hA.live, Bool.false_eq_true, if_false] at hres
        unfold markDone at hres
        split at hres
        · simp at hres
        · exact hres
      have hcur := hA.cur
      have hrec := hP.recs (idx r.tr) hi
      rw [← hcur] at hrec
      obtain ⟨hoff, hp1, hl1, ho1, hend, hdone1, s, hns, hsec⟩ := headerImpl_position msg r k _ hrec hn m r1 hh'
      simp only [Cur.withPos] at hl1 ho1 hend
      obtain ⟨s', t', hns', hsecof, hsame, hqd, hk, hT1, hmono⟩ := nextSection_some L hL r.tr hA.tinv hiL
      rw [← hA.pos, hns] at hns'
      simp only [Prod.mk.injEq, Option.some.injEq] at hns'
      obtain ⟨rfl, rfl⟩ := hns'
      have hidx1 : idx r1.tr = idx r.tr := idx_congr hsame
      have hr1 : RInv msg r1 := by rw [hres] at hok; exact hok.2
      have hcases : ∀ j, r1.tr.off j = r.tr.off j ∨ r1.tr.off j = asU16 (L.rOff (idx r.tr)) := by
        intro j
        have := nextSection_off_cases r.tr r.cur.pos j
        rw [hns] at this
        rw [← hA.pos]
        exact this
      refine ⟨hn, m, r1, rfl, ?_, hidx1, hqd, hmono, hcases⟩
      refine ⟨hr1, ho1, by rw [hdone1]; exact hA.live, hT1, by rw [hidx1]; exact hiL, ?_, by rw [hsec]; exact hk, hp1,
        by rw [hidx1, ← hend], by rw [hoff, hidx1, hA.pos], ?_⟩
      · rw [hsec]
        exact ⟨hsecof.1, by intro j hj; rw [hsame]; exact hsecof.2.1 j hj, by rw [hsame]; exact hsecof.2.2⟩
      · have := headerImpl_gt msg r k hn m r1 hh'
        rw [hA.pos] at this
        rw [hidx1]; exact this
    | err e =>
      right; left
      exact ⟨e, r1, rfl, recordHeader_error_latches msg r r1 k e hres⟩
    | panic p => right; right; exact ⟨p, r1, rfl⟩
    | ub => rw [hres] at hok; exact absurd hok.1 (by simp [Res.noUB])

/-- **data step.** From the middle of record `idx`, any data call that succeeds leaves a live reader
    between records at `idx + 1`; the tracker has learned what the specification says it learns. -/
theorem data_step (msg : Bytes) (L : Lay) (hL : L.WF) (r1 r2 : Reader) (m : Marker) (hM : MidRec msg L r1 m)
    (hd : DataCall msg r1 r2 m) :
    AtIndex msg L r2 ∧ idx r2.tr = idx r1.tr + 1 ∧ r2.tr.qd = r1.tr.qd ∧ (∀ j, r1.tr.off j ≠ 0 → r2.tr.off j ≠ 0) ∧
      (∀ s', m.section_ < s' → s' < 3 → L.start s' = idx r1.tr + 1 → r2.tr.off s' ≠ 0) ∧
      (∀ j, r2.tr.off j = r1.tr.off j ∨ r2.tr.off j = asU16 (L.rOff (idx r1.tr + 1))) := by
  obtain ⟨hp2, hl2, ho2, hdone2, t2, hsr, ht2⟩ := data_position msg r1 r2 m hM.inv hd
  have hpos2 : r2.cur.pos = L.rOff (idx r1.tr + 1) := by rw [hp2, hM.endp]
  obtain ⟨t3, hsr3, hT3, hi3, hq3, hmono, hkn⟩ := sectionRead_spec L hL r1.tr hM.tinv m.section_ hM.sec hM.known
  rw [← hpos2, hsr] at hsr3
  simp only [Res.ok.injEq] at hsr3
  subst hsr3
  refine ⟨⟨DataCall.inv hM.inv hd, by rw [ho2]; exact hM.orig, by rw [hpos2, ht2, hi3], by rw [ht2]; exact hT3,
    by rw [hdone2]; exact hM.live⟩, by rw [ht2, hi3], by rw [ht2, hq3], ?_, ?_, ?_⟩
  · intro j hj; rw [ht2]; exact hmono j hj
  · intro s' h1 h2 h3; rw [ht2]; exact hkn s' h1 h2 h3
  · intro j
    have := sectionRead_off_cases hsr j
    rw [ht2, ← hpos2]
    exact this

/-- a failing data call latches the error state -/
theorem data_fail (msg : Bytes) (r1 r2 : Reader) (m : Marker) (t : RType) (e : Err) :
    (r1.skipData m = (.err e, r2) ∨ r1.dataBytes msg m = (.err e, r2) ∨ r1.data msg t m = (.err e, r2) ∨
      r1.optRecord m = (.err e, r2)) → r2.done = true := by
  intro h
  obtain ⟨a, b, c, d⟩ := data_error_latches msg r1 r2 m t e
  rcases h with h | h | h | h
  · exact a h
  · exact b h
  · exact c h
  · exact d h

theorem skipM_inv (c c' : Cur) (n : Nat) (h : CurM.skip n c = (.ok (), c')) :
    c' = { c with pos := c.pos + n } := by
  simp only [CurM.skip, CurM.lift0] at h
  cases hs : Cur.skip c n with
  | ok c2 =>
    simp only [hs, Prod.mk.injEq, true_and] at h
    subst h
    rcases skip_inv c n c2 hs with ⟨e, _⟩ | ⟨e, _⟩ <;> exact e
  | err e => simp [hs] at h
  | panic p => simp [hs] at h
  | ub => simp [hs] at h

/-- what a successful `skip_question` did -/
theorem skipQuestion_inv (msg : Bytes) (c c' : Cur) (h : skipQuestion msg c = (.ok (), c')) :
    ∃ n c1, skipName msg c = .ok (n, c1) ∧ c' = { c1 with pos := c1.pos + 4 } := by
  unfold skipQuestion at h
  simp only [bind, CurM.bind, CurM.skipName, CurM.lift] at h
  cases hs : skipName msg c with
  | ok v =>
    obtain ⟨n, c1⟩ := v
    simp only [hs] at h
    exact ⟨n, c1, rfl, skipM_inv c1 c' 4 h⟩
  | err e => simp [hs] at h
  | panic p => simp [hs] at h
  | ub => simp [hs] at h

/-- **positions are kind-independent (questions).** A successful `question()` / `question_ref()` read
    stops where `skip_question` stops. -/
theorem readQ_position (msg : Bytes) (r r1 : Reader) (owned : Bool) (q : QOut) (c' : Cur)
    (hskip : skipQuestion msg r.cur = (.ok (), c')) (h : r.readQ msg owned = (.ok q, r1)) :
    r1 = { r with cur := c' } := by
  obtain ⟨n, c1, hsk, hc'⟩ := skipQuestion_inv msg r.cur c' hskip
  unfold Reader.readQ at h
  cases owned with
  | true =>
    simp only [if_true, Reader.onCur] at h
    cases hq : readQuestion msg r.cur with
    | mk res c2 =>
      simp only [hq] at h
      cases res with
      | ok qq =>
        simp only [Prod.mk.injEq, Res.ok.injEq] at h
        obtain ⟨_, rfl⟩ := h
        -- the name part stops where skipping stops; then two u16
        unfold readQuestion at hq
        simp only [bind, CurM.bind, CurM.readName, CurM.lift] at hq
        cases hn : readName .inline msg r.cur with
        | ok v =>
          obtain ⟨t, cn⟩ := v
          simp only [hn] at hq
          obtain ⟨n', hsk'⟩ := C08.skip_of_read .inline msg r.cur cn t hn
          rw [hsk] at hsk'
          simp only [Res.ok.injEq, Prod.mk.injEq] at hsk'
          obtain ⟨_, rfl⟩ := hsk'
          cases h1 : CurM.u16be msg c1 with
          | mk res1 ca =>
            simp only [h1] at hq
            cases res1 with
            | ok v1 =>
              obtain ⟨_, ea⟩ := u16_inv msg c1 v1 ca h1
              simp only at hq
              cases h2 : CurM.u16be msg ca with
              | mk res2 cb =>
                simp only [h2] at hq
                cases res2 with
                | ok v2 =>
                  obtain ⟨_, eb⟩ := u16_inv msg ca v2 cb h2
                  simp only [pure, CurM.pure, Prod.mk.injEq, Res.ok.injEq] at hq
                  obtain ⟨_, rfl⟩ := hq
                  subst ea; subst eb
                  rw [hc']
                | err e => simp at hq
                | panic p => simp at hq
                | ub => simp at hq
            | err e => simp at hq
            | panic p => simp at hq
            | ub => simp at hq
        | err e => simp [hn] at hq
        | panic p => simp [hn] at hq
        | ub => simp [hn] at hq
      | err e => simp at h
      | panic p => simp at h
      | ub => simp at h
  | false =>
    simp only [Bool.false_eq_true, if_false, Reader.onCur] at h
    cases hq : readQuestionRef msg r.cur with
    | mk res c2 =>
      simp only [hq] at h
      cases res with
      | ok qq =>
        simp only [Prod.mk.injEq, Res.ok.injEq] at h
        obtain ⟨_, rfl⟩ := h
        unfold readQuestionRef at hq
        simp only [bind, CurM.bind, CurM.skipName, CurM.lift, hsk] at hq
        cases h1 : CurM.u16be msg c1 with
        | mk res1 ca =>
          simp only [h1] at hq
          cases res1 with
          | ok v1 =>
            obtain ⟨_, ea⟩ := u16_inv msg c1 v1 ca h1
            simp only at hq
            cases h2 : CurM.u16be msg ca with
            | mk res2 cb =>
              simp only [h2] at hq
              cases res2 with
              | ok v2 =>
                obtain ⟨_, eb⟩ := u16_inv msg ca v2 cb h2
                simp only [pure, CurM.pure, Prod.mk.injEq, Res.ok.injEq] at hq
                obtain ⟨_, rfl⟩ := hq
                subst ea; subst eb
                rw [hc']
              | err e => simp at hq
              | panic p => simp at hq
              | ub => simp at hq
          | err e => simp at hq
          | panic p => simp at hq
          | ub => simp at hq
      | err e => simp at h
      | panic p => simp at h
      | ub => simp at h

/-- a live reader inside the question section, after `qd.read` questions of the pass -/
structure QIdx (msg : Bytes) (L : Lay) (r : Reader) : Prop where
  inv : RInv msg r
  orig : r.cur.orig = none
  live : r.done = false
  tinv : TInv L r.tr
  idx0 : idx r.tr = 0
  pos : r.cur.pos = L.qEnd r.tr.qd.read
  le : r.tr.qd.read ≤ L.qd

theorem QIdx.cur {msg : Bytes} {L : Lay} {r : Reader} (h : QIdx msg L r) :
    r.cur = Cur.withPos msg (L.qEnd r.tr.qd.read) := by
  have hf := h.inv.2
  have ho := h.orig
  have hp := h.pos
  obtain ⟨cur, tr, done⟩ := r
  obtain ⟨lim, pos, orig⟩ := cur
  simp only at ho hp hf ⊢
  subst ho
  simp only [Cur.full, Option.getD_none] at hf
  simp only [Cur.withPos, hf, hp]

/-- **question step.** With a question left, any of the four question calls either fails (and latches)
    or reads the question of the pass and stands behind it; after the last question the Answer section
    (and the empty sections behind it) is known. -/
theorem question_step (msg : Bytes) (L : Lay) (hL : L.WF) {nq nr : Nat} (hP : PassUpto msg L nq nr) (r : Reader)
    (hQ : QIdx msg L r) (hltq : r.tr.qd.read < nq) (k : QKind) :
    (∃ q r1, r.question msg k = (.ok q, r1) ∧ QIdx msg L r1 ∧ r1.tr.qd.read = r.tr.qd.read + 1 ∧
        r1.tr.sec = r.tr.sec ∧ (∀ j, r.tr.off j ≠ 0 → r1.tr.off j ≠ 0) ∧
        (r.tr.qd.read + 1 = L.qd → r1.tr.off 0 ≠ 0 ∧ (L.tot 0 = 0 → r1.tr.off 1 ≠ 0) ∧
          (L.tot 0 = 0 → L.tot 1 = 0 → r1.tr.off 2 ≠ 0)) ∧
        (r.tr.qd.read + 1 < L.qd → r1.tr.off = r.tr.off) ∧
        (∀ j, r1.tr.off j = r.tr.off j ∨ r1.tr.off j = asU16 (L.qEnd (r.tr.qd.read + 1)))) ∨
    (∃ e r1, r.question msg k = (.err e, r1) ∧ r1.done = true) ∨
    (∃ p r1, r.question msg k = (.panic p, r1)) := by
  have hok := question_ok (msg := msg) hQ.inv k
  have hlt : r.tr.qd.read < L.qd := Nat.lt_of_lt_of_le hltq hP.nq_le
  cases hres : r.question msg k with
  | mk res r1 =>
    cases res with
    | ok q =>
      left
      refine ⟨q, r1, rfl, ?_⟩
      have hr1 : RInv msg r1 := by rw [hres] at hok; exact hok.2
      have hskip := hP.ques r.tr.qd.read hltq
      rw [← hQ.cur] at hskip
      -- unfold the call down to `afterQ (readQ …)`
      have hleft : r.tr.questionsLeft = .ok (L.qd - r.tr.qd.read) := by
        have htq := hQ.tinv.tq
        have hng : ¬ r.tr.qd.read > L.qd := by omega
        simp only [Tracker.questionsLeft, Counts.left, htq, hng, if_false]
      unfold Reader.question at hres
      simp only [hQ.live, Bool.false_eq_true, if_false, hleft] at hres
      split at hres
      · simp at hres
      · split at hres
        · simp at hres
        · generalize hrq : Reader.readQ msg (k == QKind.question || k == QKind.theQuestion) r = x at hres
          obtain ⟨resq, rq⟩ := x
          cases resq with
          | ok qq =>
            have hrq' := readQ_position msg r rq _ qq _ hskip hrq
            simp only [Reader.afterQ] at hres
            cases hqr : rq.tr.questionRead rq.cur.pos with
            | ok t' =>
              simp only [hqr, Prod.mk.injEq, Res.ok.injEq] at hres
              obtain ⟨_, hr1eq⟩ := hres
              subst hrq'
              simp only [Cur.withPos] at hqr
              obtain ⟨t2, hqs, hT, hsec, hrd, hkn⟩ := questionRead_spec L hL r.tr hQ.tinv hlt
              rw [hqr] at hqs
              simp only [Res.ok.injEq] at hqs
              subst hqs
              subst hr1eq
              refine ⟨⟨hr1, rfl, hQ.live, hT, by rw [idx_congr hsec]; exact hQ.idx0, ?_, by simp only; omega⟩, hrd, hsec,
                fun j hj => questionRead_mono _ _ _ hqr j hj, hkn, ?_, fun j => questionRead_off_cases hqr j⟩
              · simp only [Cur.withPos, hrd]
              · intro hnl
                have hq65 := hL.qle
                rw [questionRead_eq r.tr _ (by omega)] at hqr
                have hne : ¬ r.tr.qd.total = r.tr.qd.read + 1 := by rw [hQ.tinv.tq]; omega
                simp only [hne, if_false, Res.ok.injEq] at hqr
                rw [← hqr]
                rfl
            | err e => simp [hqr] at hres
            | panic p => simp [hqr] at hres
            | ub => simp [hqr] at hres
          | err e => simp [Reader.afterQ] at hres
          | panic p => simp [Reader.afterQ] at hres
          | ub => simp [Reader.afterQ] at hres
    | err e =>
      right; left
      exact ⟨e, r1, rfl, question_error_latches msg r r1 k e hres⟩
    | panic p => right; right; exact ⟨p, r1, rfl⟩
    | ub => rw [hres] at hok; exact absurd hok.1 (by simp [Res.noUB])

/-! ### positions grow along the pass -/

theorem PassUpto.q_grows {msg : Bytes} {L : Lay} {nq nr : Nat} (hP : PassUpto msg L nq nr) (j : Nat) (hj : j < nq) :
    L.qEnd j + 5 ≤ L.qEnd (j + 1) := by
  obtain ⟨n, c1, hsk, hc'⟩ := skipQuestion_inv msg _ _ (hP.ques j hj)
  have := (skipName_advances msg _ c1 n hsk).1
  have hp := congrArg Cur.pos hc'
  simp only [Cur.withPos] at this hp
  omega

/-- **record offsets grow along the pass**: every record occupies at least eleven octets -/
theorem PassUpto.r_grows {msg : Bytes} {L : Lay} {nq nr : Nat} (hP : PassUpto msg L nq nr) (i : Nat) (hi : i < nr) :
    L.rOff i + 11 ≤ L.rOff (i + 1) := by
  obtain ⟨n, c1, hsk, _, hc'⟩ := skipRr_inv msg _ _ (hP.recs i hi)
  have := (skipName_advances msg _ c1 n hsk).1
  have hp := congrArg Cur.pos hc'
  simp only [Cur.withPos] at this hp
  omega

theorem PassUpto.q_ge {msg : Bytes} {L : Lay} {nq nr : Nat} (hP : PassUpto msg L nq nr) :
    ∀ j, j ≤ nq → 12 + 5 * j ≤ L.qEnd j := by
  intro j
  induction j with
  | zero => intro _; rw [hP.q0]; omega
  | succ j ih =>
    intro hj
    have := ih (by omega)
    have := hP.q_grows j (by omega)
    omega

theorem PassUpto.r_ge {msg : Bytes} {L : Lay} {nq nr : Nat} (hL : L.WF) (hP : PassUpto msg L nq nr) (hnq : nq = L.qd) :
    ∀ i, i ≤ nr → 12 + 5 * L.qd + 11 * i ≤ L.rOff i := by
  intro i
  induction i with
  | zero =>
    intro _
    rw [hL.q0]
    have := hP.q_ge L.qd (by omega)
    omega
  | succ i ih =>
    intro hi
    have := ih (by omega)
    have := hP.r_grows i (by omega)
    omega

/-- offsets of records behind the last skippable one are padding: `1` is no record offset.  (Vacuous
    when the whole message can be skipped.) -/
def Pad (L : Lay) (nr : Nat) : Prop := ∀ i, nr < i → i ≤ L.n → L.rOff i = 1

/-- only sections the pass can reach have a known offset -/
def Reached (L : Lay) (nr : Nat) (t : Tracker) : Prop := ∀ s, s < 3 → t.off s ≠ 0 → L.start s ≤ nr

/-- a tracker that learned offsets only at record positions of the skippable prefix knows only
    reachable sections -/
theorem reached_learn {msg : Bytes} {L : Lay} {nq nr : Nat} (hL : L.WF) (hP : PassUpto msg L nq nr) (hnq : nq = L.qd)
    (hpad : Pad L nr) {t t' : Tracker} (hT' : TInv L t') (hR : Reached L nr t)
    (hc : ∀ j, t'.off j = t.off j ∨ ∃ i, i ≤ nr ∧ t'.off j = asU16 (L.rOff i)) : Reached L nr t' := by
  intro s hs hne
  rcases hc s with h | ⟨i, hi, h⟩
  · rw [h] at hne; exact hR s hs hne
  · have hri := hL.rpos i
    rw [asU16_id hri.2] at h
    have hge := PassUpto.r_ge hL hP hnq i hi
    have hsec : t'.off s = L.secOff s := by
      have : s = 0 ∨ s = 1 ∨ s = 2 := by omega
      rcases this with rfl | rfl | rfl
      · exact hT'.o0 hne
      · exact hT'.o1 hne
      · exact hT'.o2 hne
    by_cases hle : L.start s ≤ nr
    · exact hle
    · have hsn : L.start s ≤ L.n := by
        have : s = 0 ∨ s = 1 ∨ s = 2 := by omega
        rcases this with rfl | rfl | rfl <;> simp [Lay.start, Lay.n] <;> omega
      have hp := hpad (L.start s) (by omega) hsn
      unfold Lay.secOff at hsec
      rw [hp, h] at hsec
      omega

theorem Reached.congr {L : Lay} {nr : Nat} {t t' : Tracker} (h : Reached L nr t) (ho : t'.off = t.off) : Reached L nr t' := by
  intro s hs hne; rw [ho] at hne; exact h s hs hne

/-- learning at the start of record `i` of the skippable prefix keeps `Reached` -/
theorem reached_at {msg : Bytes} {L : Lay} {nq nr : Nat} (hL : L.WF) (hP : PassUpto msg L nq nr) (hnq : nq = L.qd)
    (hpad : Pad L nr) {t t' : Tracker} (hT' : TInv L t') (hR : Reached L nr t) (i : Nat) (hi : i ≤ nr)
    (hc : ∀ j, t'.off j = t.off j ∨ t'.off j = asU16 (L.rOff i)) : Reached L nr t' :=
  reached_learn hL hP hnq hpad hT' hR (fun j => by
    rcases hc j with h | h
    · exact Or.inl h
    · exact Or.inr ⟨i, hi, h⟩)

/-! ### the documented seek criterion as a tracker invariant with a ghost high-water mark -/

/-- `maxc` = the largest number of items (questions + records) ever completely read -/
def DocT (L : Lay) (t : Tracker) (maxc : Nat) : Prop :=
  ∀ s, s < 3 → 1 ≤ maxc → L.qd + L.start s ≤ maxc → t.off s ≠ 0

theorem DocT.mono {L : Lay} {t t' : Tracker} {maxc : Nat} (h : DocT L t maxc)
    (hm : ∀ j, t.off j ≠ 0 → t'.off j ≠ 0) : DocT L t' maxc :=
  fun s hs h1 h2 => hm s (h s hs h1 h2)

theorem DocT.question {L : Lay} {t t' : Tracker} {maxc : Nat} (h : DocT L t maxc) (hlt : t.qd.read < L.qd)
    (hm : ∀ j, t.off j ≠ 0 → t'.off j ≠ 0)
    (hkn : t.qd.read + 1 = L.qd → t'.off 0 ≠ 0 ∧ (L.tot 0 = 0 → t'.off 1 ≠ 0) ∧
      (L.tot 0 = 0 → L.tot 1 = 0 → t'.off 2 ≠ 0)) :
    DocT L t' (max maxc (t.qd.read + 1)) := by
  intro s hs3 h1 h2
  by_cases hold : 1 ≤ maxc ∧ L.qd + L.start s ≤ maxc
  · exact hm s (h s hs3 hold.1 hold.2)
  · have hnew : L.qd + L.start s ≤ t.qd.read + 1 := by omega
    have hlast : t.qd.read + 1 = L.qd := by omega
    have hst : L.start s = 0 := by omega
    obtain ⟨k0, k1, k2⟩ := hkn hlast
    have : s = 0 ∨ s = 1 ∨ s = 2 := by omega
    rcases this with rfl | rfl | rfl
    · exact k0
    · simp only [Lay.start_one] at hst; exact k1 hst
    · simp only [Lay.start_two] at hst; exact k2 (by omega) (by omega)

theorem DocT.data {L : Lay} {t t' : Tracker} {maxc : Nat} (h : DocT L t maxc) (hT : TInv L t) (sec : Nat)
    (hsec : SecOf L t sec) (hk : t.off sec ≠ 0) (hm : ∀ j, t.off j ≠ 0 → t'.off j ≠ 0)
    (hkn : ∀ s', sec < s' → s' < 3 → L.start s' = idx t + 1 → t'.off s' ≠ 0) :
    DocT L t' (max maxc (L.qd + idx t + 1)) := by
  intro s' hs3 h1 h2
  by_cases hold : 1 ≤ maxc ∧ L.qd + L.start s' ≤ maxc
  · exact hm s' (h s' hs3 hold.1 hold.2)
  · have hnew : L.start s' ≤ idx t + 1 := by omega
    have hb := SecOf.bounds hT hsec
    by_cases hle : s' ≤ sec
    · exact hm s' (TInv.down hT hsec.1 hle hk)
    · have hlt : sec < s' := by omega
      have := Lay.start_mono L hlt hs3
      exact hkn s' hlt hs3 (by omega)

theorem DocT.le {L : Lay} {t : Tracker} {a b : Nat} (h : DocT L t b) (hab : a ≤ b) : DocT L t a :=
  fun s hs h1 h2 => h s hs (by omega) (by omega)

/-! ### the skipping loops of `seek` -/

theorem questionsLeft_eq {msg : Bytes} {L : Lay} {r : Reader} (hQ : QIdx msg L r) :
    r.tr.questionsLeft = .ok (L.qd - r.tr.qd.read) := by
  have htq := hQ.tinv.tq
  have hle := hQ.le
  have hng : ¬ r.tr.qd.read > L.qd := by omega
  simp only [Tracker.questionsLeft, Counts.left, htq, hng, if_false]

/-- `skip_questions_impl` from inside the question section of a skippable message always succeeds and
    stands behind the last question -/
theorem skipQuestionsImpl_pass (msg : Bytes) (L : Lay) (hL : L.WF) {nq nr : Nat} (hP : PassUpto msg L nq nr)
    (hnq : nq = L.qd) (hpad : Pad L nr) :
    ∀ (fuel : Nat) (r : Reader) (maxc : Nat), QIdx msg L r → L.qd - r.tr.qd.read < fuel → DocT L r.tr maxc →
      Reached L nr r.tr →
      ∃ r', r.skipQuestionsImpl msg fuel = (.ok (), r') ∧ QIdx msg L r' ∧ r'.tr.qd.read = L.qd ∧
        (∀ j, r.tr.off j ≠ 0 → r'.tr.off j ≠ 0) ∧
        DocT L r'.tr (if r.tr.qd.read < L.qd then max maxc L.qd else maxc) ∧ Reached L nr r'.tr := by
  intro fuel
  induction fuel with
  | zero => intro r maxc _ hf _ _; omega
  | succ fuel ih =>
    intro r maxc hQ hf hD hR
    rw [Reader.skipQuestionsImpl]
    simp only [questionsLeft_eq hQ]
    by_cases hlt : r.tr.qd.read < L.qd
    · have hpos : L.qd - r.tr.qd.read > 0 := by omega
      simp only [hpos, if_true]
      have hskip := hP.ques r.tr.qd.read (by omega)
      rw [← hQ.cur] at hskip
      simp only [Reader.onCur, hskip]
      obtain ⟨t', hqr, hT, hsec, hrd, hkn⟩ := questionRead_spec L hL r.tr hQ.tinv hlt
      simp only [Cur.withPos, hqr]
      have hmono := fun j hj => questionRead_mono _ _ _ hqr j hj
      have hQ1 : QIdx msg L { r with cur := Cur.withPos msg (L.qEnd (r.tr.qd.read + 1)), tr := t' } := by
        refine ⟨⟨⟨Nat.le_refl _, by intro o ho; cases ho⟩, rfl⟩, rfl, hQ.live, hT, by rw [idx_congr hsec]; exact hQ.idx0,
          by simp only [Cur.withPos, hrd], by simp only; omega⟩
      have hD1 := DocT.question hD hlt hmono hkn
      have hR1 : Reached L nr t' := by
        by_cases hlast : r.tr.qd.read + 1 = L.qd
        · refine reached_at hL hP hnq hpad hT hR 0 (Nat.zero_le _) (fun j => ?_)
          have := questionRead_off_cases hqr j
          rw [hlast, ← hL.q0] at this
          exact this
        · have hq65 := hL.qle
          have hqe := questionRead_eq r.tr (L.qEnd (r.tr.qd.read + 1)) (by omega)
          have hne : ¬ r.tr.qd.total = r.tr.qd.read + 1 := by rw [hQ.tinv.tq]; omega
          rw [hqr] at hqe
          simp only [hne, if_false, Res.ok.injEq] at hqe
          exact hR.congr (by rw [hqe]; rfl)
      obtain ⟨r', he, hQ', hrd', hm', hD', hR'⟩ := ih _ (max maxc (r.tr.qd.read + 1)) hQ1 (by simp only; omega) hD1 hR1
      refine ⟨r', he, hQ', hrd', fun j hj => hm' j (hmono j hj), ?_, hR'⟩
      simp only [hlt, if_true]
      simp only [hrd] at hD'
      split at hD'
      · exact DocT.le hD' (by omega)
      · have : r.tr.qd.read + 1 = L.qd := by omega
        exact DocT.le hD' (by omega)
    · have hz : ¬ (L.qd - r.tr.qd.read > 0) := by omega
      simp only [hz, if_false]
      have := hQ.le
      refine ⟨r, rfl, hQ, by omega, fun j hj => hj, ?_, hR⟩
      simp only [hlt, if_false]
      exact hD

theorem skipRr_inv2 (msg : Bytes) (c c' : Cur) (h : skipRr msg c = (.ok (), c')) :
    ∃ n c1, skipName msg c = .ok (n, c1) ∧ c1.pos + 10 ≤ c1.lim ∧
      Cur.skip { c1 with pos := c1.pos + 10 } (Cur.beNat msg (c1.pos + 8) 2) = .ok c' := by
  unfold skipRr at h
  simp only [bind, CurM.bind, CurM.skipName, CurM.lift] at h
  cases hs : skipName msg c with
  | ok v =>
    obtain ⟨n, c1⟩ := v
    simp only [hs] at h
    refine ⟨n, c1, rfl, ?_⟩
    simp only [CurM.skip, CurM.lift0] at h
    cases h8 : Cur.skip c1 8 with
    | ok c2 =>
      simp only [h8] at h
      simp only [CurM.u16be, CurM.lift, Cur.u16be] at h
      cases hr : Cur.rBe msg c2 2 with
      | ok vr =>
        obtain ⟨rd, c3⟩ := vr
        simp only [hr] at h
        obtain ⟨hv, hc3, hle⟩ := rBe_inv msg c2 2 rd c3 hr
        cases hk : Cur.skip c3 rd with
        | ok c4 =>
          simp only [hk, Prod.mk.injEq, true_and] at h
          have e2 : c2 = { c1 with pos := c1.pos + 8 } := by
            rcases skip_inv c1 8 c2 h8 with ⟨e, _⟩ | ⟨e, hz⟩
            · exact e
            · omega
          subst e2
          subst hc3
          subst hv
          subst h
          simp only at hle hk ⊢
          exact ⟨by omega, hk⟩
        | err e => simp [hk] at h
        | panic p => simp [hk] at h
        | ub => simp [hk] at h
      | err e => simp [hr] at h
      | panic p => simp [hr] at h
      | ub => simp [hr] at h
    | err e => simp [h8] at h
    | panic p => simp [h8] at h
    | ub => simp [h8] at h
  | err e => simp [hs] at h
  | panic p => simp [hs] at h
  | ub => simp [hs] at h

/-- on a skippable record, `marker_impl` + `skip_record_data_impl` succeed and stand behind it -/
theorem marker_skip_pass (msg : Bytes) (L : Lay) (hL : L.WF) {nq nr : Nat} (hP : PassUpto msg L nq nr) (hnq : nq = L.qd)
    (hpad : Pad L nr) (r : Reader) (hA : AtIndex msg L r) (hi : idx r.tr < nr) (hR : Reached L nr r.tr) :
    ∃ m r1 r2, r.headerImpl msg .marker = (.ok (.none, m), r1) ∧ r1.skipDataImpl m = (.ok (), r2) ∧
      SecOf L r.tr m.section_ ∧ AtIndex msg L r2 ∧ idx r2.tr = idx r.tr + 1 ∧ r2.tr.qd = r.tr.qd ∧
      (∀ j, r.tr.off j ≠ 0 → r2.tr.off j ≠ 0) ∧
      (∀ s', m.section_ < s' → s' < 3 → L.start s' = idx r.tr + 1 → r2.tr.off s' ≠ 0) ∧ Reached L nr r2.tr := by
  have hcur := hA.cur
  have hiL : idx r.tr < L.n := Nat.lt_of_lt_of_le hi hP.nr_le
  have hrec := hP.recs (idx r.tr) hi
  obtain ⟨n, c1, hsk, hle, hskip⟩ := skipRr_inv2 msg _ _ hrec
  obtain ⟨hadv, hlim1, horig1⟩ := skipName_advances msg _ c1 n hsk
  simp only [Cur.withPos] at hlim1 horig1
  obtain ⟨s, t', hns, hsecof, hsame, hqd, hk, hT1, hmono⟩ := nextSection_some L hL r.tr hA.tinv hiL
  -- the four fixed reads
  have hc1 : c1 = { lim := msg.size, pos := c1.pos, orig := none } := by
    cases c1; simp only at hlim1 horig1; subst hlim1; subst horig1; rfl
  have hlm : c1.pos + 10 ≤ msg.size := by rw [hlim1] at hle; exact hle
  have h1 := C02.u16be_at msg msg.size c1.pos none (by omega) (Nat.le_refl _)
  have h2 := C02.u16be_at msg msg.size (c1.pos + 2) none (by omega) (Nat.le_refl _)
  have h3 := C02.u32be_at msg msg.size (c1.pos + 4) none (by omega) (Nat.le_refl _)
  have h4 := C02.u16be_at msg msg.size (c1.pos + 8) none (by omega) (Nat.le_refl _)
  have hskM : CurM.skipName msg r.cur = (.ok n, { lim := msg.size, pos := c1.pos, orig := none }) := by
    rw [hcur]; simp only [CurM.skipName, CurM.lift, hsk]; rw [← hc1]
  have hidx1 : idx t' = idx r.tr := idx_congr hsame
  have hsecof1 : SecOf L t' s := ⟨hsecof.1, by intro j hj; rw [hsame]; exact hsecof.2.1 j hj, by rw [hsame]; exact hsecof.2.2⟩
  obtain ⟨t2, hsr, hT2, hi2, hq2, hmono2, hkn⟩ := sectionRead_spec L hL t' hT1 s hsecof1 hk
  rw [hidx1] at hsr hkn
  have hpos : r.cur.pos = L.rOff (idx r.tr) := hA.pos
  -- the final skip, on the explicit cursor
  rw [hlim1, horig1] at hskip
  have hskipM : CurM.skip (Cur.beNat msg (c1.pos + 8) 2) { lim := msg.size, pos := c1.pos + 10, orig := none } =
      (.ok (), Cur.withPos msg (L.rOff (idx r.tr + 1))) := by
    simp only [CurM.skip, CurM.lift0, hskip]
  refine ⟨{ offset := r.cur.pos, typeOffset := c1.pos, rtype := Cur.beNat msg c1.pos 2,
            rclass := Cur.beNat msg (c1.pos + 2) 2, ttl := Cur.beNat msg (c1.pos + 4) 4,
            rdlen := Cur.beNat msg (c1.pos + 8) 2, section_ := s },
          { r with cur := { lim := msg.size, pos := c1.pos + 10, orig := none }, tr := t' },
          { r with cur := Cur.withPos msg (L.rOff (idx r.tr + 1)), tr := t2 }, ?_, ?_, hsecof, ?_, by simp only; rw [hi2, hidx1],
          by simp only; rw [hq2, hqd], fun j hj => hmono2 j (hmono j hj), hkn, ?_⟩
  · simp only [Reader.headerImpl, Reader.calcSection, hpos, hns, Reader.onCur, hskM, Reader.rawMarker, bind, CurM.bind,
      h1, h2, h3, h4, pure, CurM.pure, Nat.add_assoc]
  · simp only [Reader.skipDataImpl, Reader.onCur, hskipM, Reader.finishData, Cur.withPos, hsr]
  · exact ⟨⟨⟨Nat.le_refl _, by intro o ho; cases ho⟩, rfl⟩, rfl, by simp only [Cur.withPos]; rw [hi2, hidx1], hT2, hA.live⟩
  · have hR1 : Reached L nr t' := reached_at hL hP hnq hpad hT1 hR (idx r.tr) (by omega) (fun j => by
      have := nextSection_off_cases r.tr (L.rOff (idx r.tr)) j
      rw [hns] at this
      exact this)
    exact reached_at hL hP hnq hpad hT2 hR1 (idx r.tr + 1) (by omega) (fun j => sectionRead_off_cases hsr j)

/-- under the coupling invariant the three counters are determined by the record index -/
theorem reads_of_idx {L : Lay} {t : Tracker} (h : TInv L t) :
    (t.sec 0).read = min (idx t) (L.tot 0) ∧ (t.sec 1).read = min (idx t - L.tot 0) (L.tot 1) ∧
      (t.sec 2).read = idx t - L.tot 0 - L.tot 1 := by
  have l0 := h.le0; have l1 := h.le1; have l2 := h.le2
  unfold idx
  by_cases c0 : (t.sec 0).read < L.tot 0
  · obtain ⟨z1, z2⟩ := h.sh1 c0
    omega
  · by_cases c1 : (t.sec 1).read < L.tot 1
    · have z2 := h.sh2 c1
      omega
    · omega

theorem recordsLeftIn_eq {L : Lay} {t : Tracker} (h : TInv L t) (s : Nat) (hs : s < 3) :
    t.recordsLeftIn s = .ok (L.tot s - (t.sec s).read) := by
  have l0 := h.le0; have l1 := h.le1; have l2 := h.le2
  have t0 := h.t0; have t1 := h.t1; have t2 := h.t2
  have : s = 0 ∨ s = 1 ∨ s = 2 := by omega
  rcases this with rfl | rfl | rfl
  · have hng : ¬ (t.sec 0).read > L.tot 0 := by omega
    simp only [Tracker.recordsLeftIn, Counts.left, t0, hng, if_false]
  · have hng : ¬ (t.sec 1).read > L.tot 1 := by omega
    simp only [Tracker.recordsLeftIn, Counts.left, t1, hng, if_false]
  · have hng : ¬ (t.sec 2).read > L.tot 2 := by omega
    simp only [Tracker.recordsLeftIn, Counts.left, t2, hng, if_false]

/-- records of section `s` that are still to be read when the index is `i` -/
def leftIn (L : Lay) (s i : Nat) : Nat := L.start s + L.tot s - max i (L.start s)

theorem sec_read_of_idx {L : Lay} {t : Tracker} (h : TInv L t) (s : Nat) (hs : s < 3)
    (hlo : L.start s ≤ idx t) (hhi : idx t ≤ L.start s + L.tot s) : (t.sec s).read = idx t - L.start s := by
  obtain ⟨r0, r1, r2⟩ := reads_of_idx h
  have : s = 0 ∨ s = 1 ∨ s = 2 := by omega
  rcases this with rfl | rfl | rfl
  · simp only [Lay.start_zero] at hlo hhi ⊢; omega
  · simp only [Lay.start_one] at hlo hhi ⊢; omega
  · simp only [Lay.start_two] at hlo hhi ⊢; omega

/-- `skip_section_impl(s)` from a live reader standing inside (or right in front of) section `s` of a
    skippable message always succeeds and stands behind the last record of that section -/
theorem skipSectionImpl_pass (msg : Bytes) (L : Lay) (hL : L.WF) {nq nr : Nat} (hP : PassUpto msg L nq nr) (hnq : nq = L.qd)
    (hpad : Pad L nr) (s : Nat) (hs : s < 3) (hend : L.start s + L.tot s ≤ nr) :
    ∀ (fuel : Nat) (r : Reader) (maxc : Nat), AtIndex msg L r → L.start s ≤ idx r.tr →
      idx r.tr ≤ L.start s + L.tot s → L.start s + L.tot s - idx r.tr < fuel → r.tr.qd.read = L.qd → DocT L r.tr maxc →
      Reached L nr r.tr →
      ∃ r', r.skipSectionImpl msg s fuel = (.ok (), r') ∧ AtIndex msg L r' ∧ idx r'.tr = L.start s + L.tot s ∧
        r'.tr.qd = r.tr.qd ∧ (∀ j, r.tr.off j ≠ 0 → r'.tr.off j ≠ 0) ∧
        DocT L r'.tr (if idx r.tr < L.start s + L.tot s then max maxc (L.qd + (L.start s + L.tot s)) else maxc) ∧
        Reached L nr r'.tr := by
  intro fuel
  induction fuel with
  | zero => intro r maxc _ _ _ hf _ _ _; omega
  | succ fuel ih =>
    intro r maxc hA hlo hhi hf hq hD hR
    rw [Reader.skipSectionImpl]
    have hrd := sec_read_of_idx hA.tinv s hs hlo hhi
    simp only [recordsLeftIn_eq hA.tinv s hs, hrd]
    have hn : L.start s + L.tot s ≤ L.n := by
      have : s = 0 ∨ s = 1 ∨ s = 2 := by omega
      rcases this with rfl | rfl | rfl <;> simp [Lay.start, Lay.n] <;> omega
    by_cases hlt : idx r.tr < L.start s + L.tot s
    · have hpos : L.tot s - (idx r.tr - L.start s) > 0 := by omega
      simp only [hpos, if_true]
      obtain ⟨m, r1, r2, hh, hsd, hsec, hA2, hi2, hq2, hmono, hkn, hR2⟩ := marker_skip_pass msg L hL hP hnq hpad r hA (by omega) hR
      simp only [hh, hsd]
      have hk1 : r.tr.off m.section_ ≠ 0 ∨ True := Or.inr trivial
      -- DocT after this record
      have hD2 : DocT L r2.tr (max maxc (L.qd + idx r.tr + 1)) := by
        intro s' hs3 h1 h2
        by_cases hold : 1 ≤ maxc ∧ L.qd + L.start s' ≤ maxc
        · exact hmono s' (hD s' hs3 hold.1 hold.2)
        · have hnew : L.start s' ≤ idx r.tr + 1 := by omega
          have hb := SecOf.bounds hA.tinv hsec
          by_cases hle : s' ≤ m.section_
          · -- known by downward closure in the new tracker: the record just read makes its section known
            have hk2 : r2.tr.off m.section_ ≠ 0 := by
              have hT2 := hA2.tinv
              obtain ⟨q0, q1, q2⟩ := reads_of_idx hT2
              have hsecm := hsec.1
              have hb2 := hb
              have : (r2.tr.sec m.section_).read > 0 := by
                have hms : m.section_ = 0 ∨ m.section_ = 1 ∨ m.section_ = 2 := by omega
                rcases hms with e | e | e <;> rw [e] at hb2 ⊢ <;>
                  simp only [Lay.start_zero, Lay.start_one, Lay.start_two] at hb2 <;> omega
              have hms : m.section_ = 0 ∨ m.section_ = 1 ∨ m.section_ = 2 := by omega
              rcases hms with e | e | e <;> rw [e] at this ⊢
              · exact hT2.k0 this
              · exact hT2.k1 this
              · exact hT2.k2 this
            exact TInv.down hA2.tinv hsec.1 hle hk2
          · have hlt' : m.section_ < s' := by omega
            have := Lay.start_mono L hlt' hs3
            exact hkn s' hlt' hs3 (by omega)
      obtain ⟨r', he, hA', hi', hq', hm', hD', hR'⟩ := ih r2 (max maxc (L.qd + idx r.tr + 1)) hA2 (by omega) (by omega)
        (by omega) (by rw [hq2]; exact hq) hD2 hR2
      refine ⟨r', he, hA', hi', by rw [hq', hq2], fun j hj => hm' j (hmono j hj), ?_, hR'⟩
      simp only [hlt, if_true]
      split at hD'
      · exact DocT.le hD' (by omega)
      · have : idx r2.tr = L.start s + L.tot s := by omega
        exact DocT.le hD' (by omega)
    · have hz : ¬ (L.tot s - (idx r.tr - L.start s) > 0) := by omega
      simp only [hz, if_false]
      refine ⟨r, rfl, hA, by omega, rfl, fun j hj => hj, ?_, hR⟩
      simp only [hlt, if_false]
      exact hD

theorem sFuel_eq {L : Lay} {r : Reader} (h : TInv L r.tr) (s : Nat) : r.sFuel s = L.n - idx r.tr + 1 := by
  have l0 := h.le0; have l1 := h.le1; have l2 := h.le2
  have t0 := h.t0; have t1 := h.t1; have t2 := h.t2
  simp only [Reader.sFuel, Lay.n, idx, t0, t1, t2]
  omega

theorem QIdx.toAtIndex {msg : Bytes} {L : Lay} (hL : L.WF) {r : Reader} (hQ : QIdx msg L r)
    (hrd : r.tr.qd.read = L.qd) : AtIndex msg L r :=
  ⟨hQ.inv, hQ.orig, by rw [hQ.pos, hrd, hQ.idx0]; exact hL.q0.symm, hQ.tinv, hQ.live⟩

/-- **seek, first scenario.** From inside the question section of a skippable message (in particular:
    straight after the header) `seek_impl(s)` skips forward and stands at the first record of section
    `s`; everything in front of it counts as read. -/
theorem seekImpl_pass (msg : Bytes) (L : Lay) (hL : L.WF) {nq nr : Nat} (hP : PassUpto msg L nq nr) (hnq : nq = L.qd)
    (hpad : Pad L nr) (r : Reader) (maxc : Nat) (hQ : QIdx msg L r) (s : Nat) (hs : s < 3) (hsnr : L.start s ≤ nr)
    (hD : DocT L r.tr maxc) (hprog : r.tr.qd.read ≤ maxc) (hR : Reached L nr r.tr) :
    ∃ r', r.seekImpl msg s = (.ok (), r') ∧ AtIndex msg L r' ∧ idx r'.tr = L.start s ∧ r'.tr.qd.read = L.qd ∧
      (∀ j, r.tr.off j ≠ 0 → r'.tr.off j ≠ 0) ∧ DocT L r'.tr (max maxc (L.qd + L.start s)) ∧ Reached L nr r'.tr := by
  have hqf : L.qd - r.tr.qd.read < r.qFuel := by
    have := hQ.tinv.tq
    simp only [Reader.qFuel, this]; omega
  obtain ⟨r1, h1, hQ1, hrd1, hm1, hD1, hR1⟩ := skipQuestionsImpl_pass msg L hL hP hnq hpad r.qFuel r maxc hQ hqf hD hR
  have hA1 := hQ1.toAtIndex hL hrd1
  have hi1 : idx r1.tr = 0 := hQ1.idx0
  -- DocT after the questions, uniformly
  have hD1' : DocT L r1.tr (max maxc L.qd) := by
    split at hD1
    · exact hD1
    · have hle := hQ.le
      have : r.tr.qd.read = L.qd := by omega
      exact DocT.le hD1 (by omega)
  unfold Reader.seekImpl
  simp only [h1]
  by_cases hs0 : s = 0
  · subst hs0
    simp only [if_true]
    exact ⟨r1, rfl, hA1, hi1, hrd1, hm1, by simpa using hD1', hR1⟩
  · simp only [hs0, if_false]
    have hf0 : L.start 0 + L.tot 0 - idx r1.tr < r1.sFuel 0 := by
      rw [sFuel_eq hA1.tinv, hi1]; simp [Lay.start, Lay.n]; omega
    have hend0 : L.start 0 + L.tot 0 ≤ nr := by
      have : s = 1 ∨ s = 2 := by omega
      rcases this with rfl | rfl <;> simp only [Lay.start_zero, Lay.start_one, Lay.start_two] at hsnr ⊢ <;> omega
    obtain ⟨r2, h2, hA2, hi2, hq2, hm2, hD2, hR2⟩ := skipSectionImpl_pass msg L hL hP hnq hpad 0 (by omega) hend0 (r1.sFuel 0) r1 (max maxc L.qd)
      hA1 (by rw [hi1]; simp) (by rw [hi1]; simp) hf0 hrd1 hD1' hR1
    simp only [Lay.start_zero, Nat.zero_add] at hi2 hD2
    simp only [h2]
    have hrd2 : r2.tr.qd.read = L.qd := by rw [hq2]; exact hrd1
    have hD2' : DocT L r2.tr (max maxc (L.qd + L.tot 0)) := by
      rw [hi1] at hD2
      by_cases hc : 0 < L.tot 0
      · simp only [hc, if_true] at hD2
        exact DocT.le hD2 (by omega)
      · simp only [hc, if_false] at hD2
        have : L.tot 0 = 0 := by omega
        rw [this]; exact DocT.le hD2 (by omega)
    by_cases hs1 : s = 1
    · subst hs1
      simp only [if_true]
      exact ⟨r2, rfl, hA2, by rw [hi2]; rfl, hrd2, fun j hj => hm2 j (hm1 j hj), by simpa using hD2', hR2⟩
    · simp only [hs1, if_false]
      have hs2 : s = 2 := by omega
      subst hs2
      have hf1 : L.start 1 + L.tot 1 - idx r2.tr < r2.sFuel 1 := by
        rw [sFuel_eq hA2.tinv, hi2]; simp [Lay.start, Lay.n]; omega
      have hend1 : L.start 1 + L.tot 1 ≤ nr := by
        simp only [Lay.start_one, Lay.start_two] at hsnr ⊢; omega
      obtain ⟨r3, h3, hA3, hi3, hq3, hm3, hD3, hR3⟩ := skipSectionImpl_pass msg L hL hP hnq hpad 1 (by omega) hend1 (r2.sFuel 1) r2
        (max maxc (L.qd + L.tot 0)) hA2 (by rw [hi2]; simp) (by rw [hi2]; simp) hf1 hrd2 hD2' hR2
      simp only [Lay.start_one] at hi3 hD3
      refine ⟨r3, h3, hA3, by rw [hi3]; rfl, by rw [hq3]; exact hrd2, fun j hj => hm3 j (hm2 j (hm1 j hj)), ?_, hR3⟩
      rw [hi2] at hD3
      simp only [Lay.start_two]
      by_cases hc : L.tot 0 < L.tot 0 + L.tot 1
      · simp only [hc, if_true] at hD3
        exact DocT.le hD3 (by omega)
      · simp only [hc, if_false] at hD3
        have : L.tot 1 = 0 := by omega
        rw [this]; exact DocT.le hD3 (by omega)


/-! ### the item behind the skippable prefix -/

/-- a successful question read of either kind ends where `skip_question` ends -/
theorem readQ_skip {msg : Bytes} {r rq : Reader} {owned : Bool} {q : QOut} (h : r.readQ msg owned = (.ok q, rq)) :
    skipQuestion msg r.cur = (.ok (), rq.cur) := by
  unfold Reader.readQ Reader.onCur at h
  cases owned with
  | true =>
    simp only [if_true] at h
    cases hq : readQuestion msg r.cur with
    | mk res c2 =>
      rw [hq] at h
      cases res with
      | ok qq =>
        simp only [Prod.mk.injEq, Res.ok.injEq] at h
        rw [← h.2]
        exact C08.skipQuestion_of_read hq
      | err e => simp at h
      | panic p => simp at h
      | ub => simp at h
  | false =>
    simp only [Bool.false_eq_true, if_false] at h
    cases hq : readQuestionRef msg r.cur with
    | mk res c2 =>
      rw [hq] at h
      cases res with
      | ok qq =>
        simp only [Prod.mk.injEq, Res.ok.injEq] at h
        rw [← h.2]
        exact C08.skipQuestion_of_readRef hq
      | err e => simp at h
      | panic p => simp at h
      | ub => simp at h

/-- **the question that cannot be skipped cannot be read**: every question call on it fails (and
    latches) -/
theorem question_fail (msg : Bytes) (L : Lay) (r : Reader) (hQ : QIdx msg L r)
    (hfail : ∃ e c, skipQuestion msg (Cur.withPos msg (L.qEnd r.tr.qd.read)) = (.err e, c)) (k : QKind) :
    (∃ e r1, r.question msg k = (.err e, r1) ∧ r1.done = true) ∨ (∃ p r1, r.question msg k = (.panic p, r1)) := by
  have hok := question_ok (msg := msg) hQ.inv k
  obtain ⟨e0, c0, hf⟩ := hfail
  rw [← hQ.cur] at hf
  cases hres : r.question msg k with
  | mk res r1 =>
    cases res with
    | ok q =>
      exfalso
      unfold Reader.question at hres
      simp only [hQ.live, Bool.false_eq_true, if_false] at hres
      split at hres
      · simp at hres
      · simp at hres
      · simp at hres
      · try simp only at hres
        split at hres
        · simp at hres
        · split at hres
          · simp at hres
          · generalize hrq : Reader.readQ msg (k == QKind.question || k == QKind.theQuestion) r = x at hres
            obtain ⟨resq, rq⟩ := x
            cases resq with
            | ok qq =>
              have := readQ_skip hrq
              rw [hf] at this
              simp at this
            | err e => simp [Reader.afterQ] at hres
            | panic p => simp [Reader.afterQ] at hres
            | ub => simp [Reader.afterQ] at hres
    | err e => left; exact ⟨e, r1, rfl, question_error_latches msg r r1 k e hres⟩
    | panic p => right; exact ⟨p, r1, rfl⟩
    | ub => rw [hres] at hok; exact absurd hok.1 (by simp [Res.noUB])

/-- `skip_questions_impl` running into the question that cannot be skipped fails -/
theorem skipQuestionsImpl_fail (msg : Bytes) (L : Lay) (hL : L.WF) {nq nr : Nat} (hP : PassUpto msg L nq nr)
    (hnq : nq < L.qd) (hfail : ∃ e c, skipQuestion msg (Cur.withPos msg (L.qEnd nq)) = (.err e, c)) :
    ∀ (fuel : Nat) (r : Reader), QIdx msg L r → r.tr.qd.read ≤ nq → nq - r.tr.qd.read < fuel →
      ∃ e r', r.skipQuestionsImpl msg fuel = (.err e, r') := by
  intro fuel
  induction fuel with
  | zero => intro r _ _ hf; omega
  | succ fuel ih =>
    intro r hQ hle hf
    rw [Reader.skipQuestionsImpl]
    simp only [questionsLeft_eq hQ]
    have hpos : L.qd - r.tr.qd.read > 0 := by omega
    simp only [hpos, if_true]
    by_cases hlt : r.tr.qd.read < nq
    · have hskip := hP.ques r.tr.qd.read hlt
      rw [← hQ.cur] at hskip
      simp only [Reader.onCur, hskip]
      obtain ⟨t', hqr, hT, hsec, hrd, hkn⟩ := questionRead_spec L hL r.tr hQ.tinv (by omega)
      simp only [Cur.withPos, hqr]
      have hQ1 : QIdx msg L { r with cur := Cur.withPos msg (L.qEnd (r.tr.qd.read + 1)), tr := t' } := by
        refine ⟨⟨⟨Nat.le_refl _, by intro o ho; cases ho⟩, rfl⟩, rfl, hQ.live, hT, by rw [idx_congr hsec]; exact hQ.idx0,
          by simp only [Cur.withPos, hrd], by simp only; omega⟩
      exact ih _ hQ1 (by simp only; omega) (by simp only; omega)
    · have he : r.tr.qd.read = nq := by omega
      obtain ⟨e0, c0, hf0⟩ := hfail
      rw [← he, ← hQ.cur] at hf0
      simp only [Reader.onCur, hf0]
      exact ⟨_, _, rfl⟩

theorem skip_at' (lim pos n : Nat) (orig : Option Nat) (h : pos + n ≤ lim) :
    CurM.skip n { lim := lim, pos := pos, orig := orig } = (.ok (), { lim := lim, pos := pos + n, orig := orig }) := by
  have : Cur.len { lim := lim, pos := pos, orig := orig } ≥ n := by simp only [Cur.len]; omega
  simp [CurM.skip, CurM.lift0, Cur.skip, this]

/-- `skip_rr` once the owner name and the ten fixed bytes are there: only the final skip can fail -/
theorem skipRr_of_parts {msg : Bytes} {c c1 : Cur} {n : Nat} (hs : skipName msg c = .ok (n, c1))
    (hfit : c1.pos + 10 ≤ c1.lim) (hlim : c1.lim ≤ msg.size) :
    skipRr msg c = CurM.skip (Cur.beNat msg (c1.pos + 8) 2) { c1 with pos := c1.pos + 10 } := by
  obtain ⟨l, p, o⟩ := c1
  simp only at hfit hlim
  have h8 := skip_at' l p 8 o (by omega)
  have h16 := C02.u16be_at msg l (p + 8) o (by omega) hlim
  simp only [skipRr, bind, CurM.bind, CurM.skipName, CurM.lift, hs, h8, h16, Nat.add_assoc]

/-- what a successful record-header call did, without assuming that the record can be skipped -/
theorem headerImpl_parts (msg : Bytes) (r : Reader) (k : HKind) (hn : HName) (m : Marker) (r1 : Reader)
    (h : r.headerImpl msg k = (.ok (hn, m), r1)) :
    ∃ n c1 s, skipName msg r.cur = .ok (n, c1) ∧ r.tr.nextSection r.cur.pos = (some s, r1.tr) ∧ m.section_ = s ∧
      m.offset = r.cur.pos ∧ m.typeOffset = c1.pos ∧ m.rdlen = Cur.beNat msg (c1.pos + 8) 2 ∧
      r1.cur = { c1 with pos := c1.pos + 10 } ∧ r1.done = r.done ∧ c1.pos + 10 ≤ c1.lim := by
  unfold Reader.headerImpl at h
  simp only [Reader.calcSection] at h
  cases hns : r.tr.nextSection r.cur.pos with
  | mk so t' =>
    cases so with
    | none => simp [hns] at h
    | some s =>
      simp only [hns] at h
      split at h
      · rename_i hn' r2 hnm
        obtain ⟨n, c1, hsk, hr2⟩ := headerName_resumes msg k { r with tr := t' } r2 hn' hnm
        split at h
        · rename_i m' r3 hraw
          simp only [Prod.mk.injEq, Res.ok.injEq] at h
          obtain ⟨⟨_, rfl⟩, rfl⟩ := h
          obtain ⟨ho, hto, hsec, hrd, hr3⟩ := rawMarker_inv msg r2 r.cur.pos s m' r3 hraw
          obtain ⟨c2, c3, c4, _, _, _, h4, _, _, _⟩ := C08.rawMarker_reads hraw
          obtain ⟨e4, b4⟩ := C08.u16_inv' h4
          subst hr2
          simp only at hto hrd hr3 h4 e4 b4
          refine ⟨n, c1, s, hsk, by rw [hr3], hsec, ho, hto, hrd, by rw [hr3], by rw [hr3], ?_⟩
          have hp : r3.cur.pos = c1.pos + 10 := by rw [hr3]
          have hl : r3.cur.lim = c1.lim := by rw [hr3]
          have hp4 : r3.cur.pos = c4.pos + 2 := by rw [e4]
          have hl4 : r3.cur.lim = c4.lim := by rw [e4]
          omega
        · simp at h
        · simp at h
        · simp at h
      · simp at h
      · simp at h
      · simp at h

/-- a live reader that returned the header of the record that cannot be skipped: its announced data
    does not fit into the message -/
structure MidBad (msg : Bytes) (L : Lay) (r : Reader) (m : Marker) : Prop where
  inv : RInv msg r
  orig : r.cur.orig = none
  live : r.done = false
  tinv : TInv L r.tr
  lt : idx r.tr < L.n
  sec : SecOf L r.tr m.section_
  known : r.tr.off m.section_ ≠ 0
  pos : r.cur.pos = m.rdataPos
  off : m.offset = L.rOff (idx r.tr)
  gt : L.rOff (idx r.tr) + 11 ≤ m.rdataPos
  fit : m.rdataPos ≤ r.cur.lim
  bad : r.cur.lim < m.rdataPos + m.rdlen

/-- **the record that cannot be skipped**: a header call on it fails (and latches) or returns a
    marker whose data no call can consume -/
theorem bad_header (msg : Bytes) (L : Lay) (hL : L.WF) (r : Reader) (hA : AtIndex msg L r) (hi : idx r.tr < L.n)
    (hfail : ∃ e c, skipRr msg (Cur.withPos msg (L.rOff (idx r.tr))) = (.err e, c)) (k : HKind) :
    (∃ hn m r1, r.recordHeader msg k = (.ok (hn, m), r1) ∧ MidBad msg L r1 m ∧ idx r1.tr = idx r.tr ∧
        r1.tr.qd = r.tr.qd ∧ (∀ j, r.tr.off j ≠ 0 → r1.tr.off j ≠ 0) ∧
        (∀ j, r1.tr.off j = r.tr.off j ∨ r1.tr.off j = asU16 (L.rOff (idx r.tr)))) ∨
    (∃ e r1, r.recordHeader msg k = (.err e, r1) ∧ r1.done = true) ∨
    (∃ p r1, r.recordHeader msg k = (.panic p, r1)) := by
  have hok := recordHeader_ok (msg := msg) hA.inv k
  cases hres : r.recordHeader msg k with
  | mk res r1 =>
    cases res with
    | ok v =>
      obtain ⟨hn, m⟩ := v
      left
      have hh' : r.headerImpl msg k = (.ok (hn, m), r1) := by
        unfold Reader.recordHeader at hres
        simp only [hA.live, Bool.false_eq_true, if_false] at hres
        unfold markDone at hres
        split at hres
        · simp at hres
        · exact hres
      obtain ⟨n, c1, s, hsk, hns, hsec, hoff, hto, hrd, hc1, hdone1, hfit⟩ := headerImpl_parts msg r k hn m r1 hh'
      obtain ⟨hadv, hl1, ho1⟩ := skipName_advances msg _ c1 n hsk
      obtain ⟨s', t', hns', hsecof, hsame, hqd, hk, hT1, hmono⟩ := nextSection_some L hL r.tr hA.tinv hi
      rw [← hA.pos, hns] at hns'
      simp only [Prod.mk.injEq, Option.some.injEq] at hns'
      obtain ⟨rfl, rfl⟩ := hns'
      have hidx1 : idx r1.tr = idx r.tr := idx_congr hsame
      have hr1 : RInv msg r1 := by rw [hres] at hok; exact hok.2
      have hlim : r.cur.lim = msg.size := by rw [hA.cur]; rfl
      -- the final skip of `skip_rr` is the one that fails
      obtain ⟨e0, c0, hf⟩ := hfail
      rw [← hA.cur, skipRr_of_parts hsk hfit (by rw [hl1, hlim]; exact Nat.le_refl _)] at hf
      have hbad : c1.lim < c1.pos + 10 + Cur.beNat msg (c1.pos + 8) 2 := by
        by_cases hge : c1.lim < c1.pos + 10 + Cur.beNat msg (c1.pos + 8) 2
        · exact hge
        · exfalso
          have hlen : Cur.len { c1 with pos := c1.pos + 10 } ≥ Cur.beNat msg (c1.pos + 8) 2 := by
            simp only [Cur.len]; omega
          simp [CurM.skip, CurM.lift0, Cur.skip, hlen] at hf
      have hrp : m.rdataPos = c1.pos + 10 := by simp only [Marker.rdataPos, hto, TYPE_TO_RDATA_OFFSET]
      refine ⟨hn, m, r1, rfl, ?_, hidx1, hqd, hmono, ?_⟩
      · refine ⟨hr1, by rw [hc1]; exact ho1.trans hA.orig, by rw [hdone1]; exact hA.live, hT1, by rw [hidx1]; exact hi, ?_,
          by rw [hsec]; exact hk, by rw [hc1, hrp], by rw [hoff, hidx1, hA.pos], ?_, by rw [hc1, hrp]; exact hfit,
          by rw [hc1, hrp, hrd]; exact hbad⟩
        · rw [hsec]
          exact ⟨hsecof.1, by intro j hj; rw [hsame]; exact hsecof.2.1 j hj, by rw [hsame]; exact hsecof.2.2⟩
        · rw [hidx1, ← hA.pos, hrp]
          omega
      · intro j
        have := nextSection_off_cases r.tr r.cur.pos j
        rw [hns] at this
        rw [← hA.pos]
        exact this
    | err e =>
      right; left
      exact ⟨e, r1, rfl, recordHeader_error_latches msg r r1 k e hres⟩
    | panic p => right; right; exact ⟨p, r1, rfl⟩
    | ub => rw [hres] at hok; exact absurd hok.1 (by simp [Res.noUB])

/-- no data call can consume a record whose announced data does not fit -/
theorem midBad_data {msg : Bytes} {L : Lay} {r r2 : Reader} {m : Marker} (hM : MidBad msg L r m)
    (hd : DataCall msg r r2 m) : False := by
  have hfit := hM.fit
  have hbad := hM.bad
  have hpos := hM.pos
  have hskip : ∀ c2, CurM.skip m.rdlen r.cur = (.ok (), c2) → False := by
    intro c2 hs
    by_cases hlen : r.cur.len ≥ m.rdlen
    · simp only [Cur.len] at hlen
      omega
    · simp [CurM.skip, CurM.lift0, Cur.skip, hlen] at hs
  rcases hd with h | ⟨b, h⟩ | ⟨t, v, h⟩ | ⟨o, h⟩
  · obtain ⟨_, _, c2, t2, hs, _, _⟩ := C08.skipData_inv h
    exact hskip c2 hs
  · obtain ⟨_, _, c2, t2, hs, _, _⟩ := C08.dataBytes_inv h
    exact hskip c2 (C08.skip_of_slice hs)
  · obtain ⟨_, _, c2, t2, hs, _, _⟩ := C08.data_inv h
    exact hskip c2 (C08.skip_of_rdata hM.inv.1 hs)
  · obtain ⟨_, _, _, c2, t2, hs, _, _⟩ := C08.optRecord_inv h
    exact hskip c2 hs

/-- the item right behind the skippable prefix cannot be skipped -/
structure Fails (msg : Bytes) (L : Lay) (nq nr : Nat) : Prop where
  q : nq < L.qd → ∃ e c, skipQuestion msg (Cur.withPos msg (L.qEnd nq)) = (.err e, c)
  r : nq = L.qd → nr < L.n → ∃ e c, skipRr msg (Cur.withPos msg (L.rOff nr)) = (.err e, c)

theorem headerImpl_of_recordHeader {msg : Bytes} {r : Reader} {k : HKind} (hlive : r.done = false) :
    (∀ x r1, r.recordHeader msg k = (.ok x, r1) → r.headerImpl msg k = (.ok x, r1)) ∧
    (∀ e r1, r.recordHeader msg k = (.err e, r1) → ∃ r1', r.headerImpl msg k = (.err e, r1')) ∧
    (∀ p r1, r.recordHeader msg k = (.panic p, r1) → r.headerImpl msg k = (.panic p, r1)) := by
  unfold Reader.recordHeader
  simp only [hlive, Bool.false_eq_true, if_false]
  unfold markDone
  cases hi : r.headerImpl msg k with
  | mk res r2 =>
    cases res with
    | ok v => simp
    | err e =>
      refine ⟨by intro x r1 h; simp at h, ?_, by intro p r1 h; simp at h⟩
      intro e' r1 h
      simp only [Prod.mk.injEq, Res.err.injEq] at h
      exact ⟨r2, by rw [h.1]⟩
    | panic p => simp
    | ub => simp

/-- `marker_impl` + `skip_record_data_impl` on the record that cannot be skipped: an error, or a panic -/
theorem marker_skip_fail (msg : Bytes) (L : Lay) (hL : L.WF) (r : Reader) (hA : AtIndex msg L r) (hi : idx r.tr < L.n)
    (hfail : ∃ e c, skipRr msg (Cur.withPos msg (L.rOff (idx r.tr))) = (.err e, c)) :
    (∃ e r1, r.headerImpl msg .marker = (.err e, r1)) ∨ (∃ p r1, r.headerImpl msg .marker = (.panic p, r1)) ∨
    (∃ x r1, r.headerImpl msg .marker = (.ok x, r1) ∧
      ((∃ e r2, r1.skipDataImpl x.2 = (.err e, r2)) ∨ (∃ p r2, r1.skipDataImpl x.2 = (.panic p, r2)))) := by
  obtain ⟨hok, herr, hpan⟩ := headerImpl_of_recordHeader (msg := msg) (k := .marker) hA.live
  rcases bad_header msg L hL r hA hi hfail .marker with ⟨hn, m, r1, he, hM, _⟩ | ⟨e, r1, he, _⟩ | ⟨p, r1, he⟩
  · right; right
    refine ⟨(hn, m), r1, hok _ _ he, ?_⟩
    have hs := skipDataImpl_ok (msg := msg) hM.inv m
    cases hsd : r1.skipDataImpl m with
    | mk res r2 =>
      cases res with
      | ok u =>
        exfalso
        have : r1.skipData m = (.ok (), r2) := by
          unfold Reader.skipData Reader.assertAt
          simp only [hM.pos, if_true, hM.live, Bool.false_eq_true, if_false, hsd]
        exact midBad_data hM (Or.inl this)
      | err e => left; exact ⟨e, r2, rfl⟩
      | panic p => right; exact ⟨p, r2, rfl⟩
      | ub => rw [hsd] at hs; exact absurd hs.1 (by simp [Res.noUB])
  · left
    obtain ⟨r1', h⟩ := herr _ _ he
    exact ⟨e, r1', h⟩
  · right; left
    exact ⟨p, r1, hpan _ _ he⟩

/-- `skip_section_impl(s)` running into the record that cannot be skipped does not succeed -/
theorem skipSectionImpl_fail (msg : Bytes) (L : Lay) (hL : L.WF) {nq nr : Nat} (hP : PassUpto msg L nq nr) (hnq : nq = L.qd)
    (hpad : Pad L nr) (s : Nat) (hs : s < 3) (hlo : L.start s ≤ nr) (hhi : nr < L.start s + L.tot s)
    (hfail : ∃ e c, skipRr msg (Cur.withPos msg (L.rOff nr)) = (.err e, c)) :
    ∀ (fuel : Nat) (r : Reader), AtIndex msg L r → L.start s ≤ idx r.tr → idx r.tr ≤ nr → nr - idx r.tr < fuel →
      Reached L nr r.tr →
      (∃ e r', r.skipSectionImpl msg s fuel = (.err e, r')) ∨ (∃ p r', r.skipSectionImpl msg s fuel = (.panic p, r')) := by
  have hn : L.start s + L.tot s ≤ L.n := by
    have : s = 0 ∨ s = 1 ∨ s = 2 := by omega
    rcases this with rfl | rfl | rfl <;> simp [Lay.start, Lay.n] <;> omega
  intro fuel
  induction fuel with
  | zero => intro r _ _ _ hf _; omega
  | succ fuel ih =>
    intro r hA hl hle hf hR
    rw [Reader.skipSectionImpl]
    have hrd := sec_read_of_idx hA.tinv s hs hl (by omega)
    simp only [recordsLeftIn_eq hA.tinv s hs, hrd]
    have hpos : L.tot s - (idx r.tr - L.start s) > 0 := by omega
    simp only [hpos, if_true]
    by_cases hlt : idx r.tr < nr
    · obtain ⟨m, r1, r2, hh, hsd, _, hA2, hi2, _, _, _, hR2⟩ := marker_skip_pass msg L hL hP hnq hpad r hA hlt hR
      simp only [hh, hsd]
      exact ih r2 hA2 (by omega) (by omega) (by omega) hR2
    · have he : idx r.tr = nr := by omega
      rw [← he] at hfail
      rcases marker_skip_fail msg L hL r hA (by omega) hfail with ⟨e, r1, h⟩ | ⟨p, r1, h⟩ | ⟨x, r1, h, h2⟩
      · left; simp only [h]; exact ⟨e, r1, rfl⟩
      · right; simp only [h]; exact ⟨p, r1, rfl⟩
      · obtain ⟨hn', m⟩ := x
        simp only [h]
        rcases h2 with ⟨e, r2, h2⟩ | ⟨p, r2, h2⟩
        · left; simp only [h2]; exact ⟨e, r2, rfl⟩
        · right; simp only [h2]; exact ⟨p, r2, rfl⟩

/-- `seek_impl(s)` from inside the question section when section `s` lies behind the item that cannot
    be skipped: no success -/
theorem seekImpl_fail (msg : Bytes) (L : Lay) (hL : L.WF) {nq nr : Nat} (hP : PassUpto msg L nq nr) (hpad : Pad L nr)
    (hF : Fails msg L nq nr) (r : Reader) (maxc : Nat) (hQ : QIdx msg L r) (hle : r.tr.qd.read ≤ nq) (s : Nat) (hs : s < 3)
    (hbehind : nq < L.qd ∨ nr < L.start s) (hD : DocT L r.tr maxc) (hprog : r.tr.qd.read ≤ maxc)
    (hR : Reached L nr r.tr) :
    (∃ e r', r.seekImpl msg s = (.err e, r')) ∨ (∃ p r', r.seekImpl msg s = (.panic p, r')) := by
  have hqf : L.qd - r.tr.qd.read < r.qFuel := by
    have := hQ.tinv.tq
    simp only [Reader.qFuel, this]; omega
  unfold Reader.seekImpl
  by_cases hnq : nq < L.qd
  · obtain ⟨e, r', h⟩ := skipQuestionsImpl_fail msg L hL hP hnq (hF.q hnq) r.qFuel r hQ hle (by omega)
    left; simp only [h]; exact ⟨e, r', rfl⟩
  · have hnq' : nq = L.qd := by have := hP.nq_le; omega
    have hsn : nr < L.start s := by rcases hbehind with h | h; exact absurd h hnq; exact h
    obtain ⟨r1, h1, hQ1, hrd1, hm1, hD1, hR1⟩ := skipQuestionsImpl_pass msg L hL hP hnq' hpad r.qFuel r maxc hQ hqf hD hR
    have hA1 := hQ1.toAtIndex hL hrd1
    have hi1 : idx r1.tr = 0 := hQ1.idx0
    simp only [h1]
    have hs0 : s ≠ 0 := by intro h; subst h; simp at hsn
    simp only [hs0, if_false]
    have hsle : L.start s ≤ L.n := by
      have : s = 1 ∨ s = 2 := by omega
      rcases this with rfl | rfl <;> simp [Lay.start, Lay.n] <;> omega
    have hrfail := hF.r hnq' (by omega)
    by_cases h0 : nr < L.tot 0
    · -- the failing record is in the Answer section
      rcases skipSectionImpl_fail msg L hL hP hnq' hpad 0 (by omega) (by simp) (by simpa using h0) hrfail (r1.sFuel 0) r1 hA1
          (by simp) (by omega) (by rw [sFuel_eq hA1.tinv, hi1]; have := hP.nr_le; omega) hR1 with ⟨e, r', h⟩ | ⟨p, r', h⟩
      · left; simp only [h]; exact ⟨e, r', rfl⟩
      · right; simp only [h]; exact ⟨p, r', rfl⟩
    · have hs2 : s = 2 := by
        have : s = 1 ∨ s = 2 := by omega
        rcases this with rfl | rfl
        · simp only [Lay.start_one] at hsn; omega
        · rfl
      subst hs2
      simp only [Lay.start_two] at hsn
      have hD1' : DocT L r1.tr (max maxc L.qd) := by
        split at hD1
        · exact hD1
        · have hl := hQ.le
          have : r.tr.qd.read = L.qd := by omega
          exact DocT.le hD1 (by omega)
      obtain ⟨r2, h2, hA2, hi2, hq2, hm2, hD2, hR2⟩ := skipSectionImpl_pass msg L hL hP hnq' hpad 0 (by omega)
        (by simp only [Lay.start_zero]; omega) (r1.sFuel 0) r1 (max maxc L.qd) hA1 (by rw [hi1]; simp) (by rw [hi1]; simp)
        (by rw [sFuel_eq hA1.tinv, hi1]; simp [Lay.start, Lay.n]; omega) hrd1 hD1' hR1
      simp only [Lay.start_zero, Nat.zero_add] at hi2
      simp only [h2, show ¬ (2 = 1) from by decide, if_false]
      rcases skipSectionImpl_fail msg L hL hP hnq' hpad 1 (by omega) (by simp only [Lay.start_one]; omega)
          (by simp only [Lay.start_one]; omega) hrfail (r2.sFuel 1) r2 hA2 (by rw [hi2]; simp) (by omega)
          (by rw [sFuel_eq hA2.tinv, hi2]; have := hP.nr_le; omega) hR2 with ⟨e, r', h⟩ | ⟨p, r', h⟩
      · left; exact ⟨e, r', h⟩
      · right; exact ⟨p, r', h⟩

/-! ### situations, protocol conformance, and the history theorem -/

/-- where a reader stands relative to the pass, with the marker of a header whose data is unread.
    `nq`, `nr`: how many questions / records the skip pass gets through (`L.qd`, `L.n` for a message
    that can be skipped entirely). -/
inductive Sit (msg : Bytes) (L : Lay) (nq nr : Nat) : Reader → Option Marker → Prop
  | dead (r : Reader) : r.done = true → Sit msg L nq nr r none
  | ques (r : Reader) : QIdx msg L r → r.tr.qd.read < L.qd → r.tr.qd.read ≤ nq → (∀ j, r.tr.off j = 0) →
      Sit msg L nq nr r none
  | recs (r : Reader) : AtIndex msg L r → r.tr.qd.read = L.qd → nq = L.qd → idx r.tr ≤ nr → Sit msg L nq nr r none
  | mid (r : Reader) (m : Marker) : MidRec msg L r m → r.tr.qd.read = L.qd → nq = L.qd → idx r.tr < nr →
      Sit msg L nq nr r (some m)
  | midBad (r : Reader) (m : Marker) : MidBad msg L r m → r.tr.qd.read = L.qd → nq = L.qd → idx r.tr = nr →
      Sit msg L nq nr r (some m)

/-- ghost invariant: the documented seek criterion for the high-water mark `maxc`, and: only sections
    the pass can reach are known -/
structure Ghost (L : Lay) (nr : Nat) (r : Reader) (maxc : Nat) : Prop where
  doc : r.done = false → DocT L r.tr maxc
  prog : r.done = false → r.tr.qd.read ≤ maxc
  reach : r.done = false → Reached L nr r.tr

/-- the documented protocol: which call may follow, given the marker of an unconsumed header -/
def Allowed (r : Reader) (p : Option Marker) : Op → Prop
  | .header => False
  | .question _ => p = none ∧ (r.done = true ∨ r.tr.qd.read < r.tr.qd.total)
  | .skipQuestions => p = none ∧ (r.done = true ∨ idx r.tr = 0)
  | .recordHeader _ => p = none ∧ (r.done = true ∨ r.tr.qd.read = r.tr.qd.total)
  | .skipData m => p = some m
  | .dataBytes m => p = some m
  | .data _ m => p = some m
  | .optRecord m => p = some m ∧ m.rtype = TYPE_OPT
  | .seek s => s < 3
  | .questionsCount => True
  | .recordsCount => True
  | .recordsCountIn _ => True
  | .dataBytesAt _ => True
  | .dataAt _ _ => True
  | .nameRefAt _ => True

/-- the unconsumed-header marker after a call -/
def nextPend (p : Option Marker) : Op → Res Val → Option Marker
  | .recordHeader _, .ok (.hdr _ m) => some m
  | .questionsCount, _ => p
  | .recordsCount, _ => p
  | .recordsCountIn _, _ => p
  | .dataBytesAt _, _ => p
  | .dataAt _ _, _ => p
  | .nameRefAt _, _ => p
  | .seek s, .err (.offsetUnknown _) => p
  | _, _ => none

/-- **seek, all cases**, from any live reader whose tracker satisfies the coupling invariant -/
theorem seek_live (msg : Bytes) (L : Lay) (hL : L.WF) {nq nr : Nat} (hP : PassUpto msg L nq nr) (hpad : Pad L nr)
    (hF : Fails msg L nq nr) (r : Reader) (maxc : Nat)
    (hinv : RInv msg r) (horig : r.cur.orig = none) (hlive : r.done = false) (hT : TInv L r.tr) (s : Nat) (hs : s < 3)
    (hD : DocT L r.tr maxc) (hR : Reached L nr r.tr) :
    (r.tr.off s ≠ 0 → ∃ r', r.seek msg s = (.ok (), r') ∧ AtIndex msg L r' ∧ idx r'.tr = L.start s ∧
        r'.tr.qd = r.tr.qd ∧ r'.tr.off = r.tr.off) ∧
    (r.tr.off s = 0 → r.cur.pos ≠ 12 → r.seek msg s = (.err (.offsetUnknown s), r)) ∧
    (r.tr.off s = 0 → r.cur.pos = 12 → QIdx msg L r → r.tr.qd.read ≤ maxc → nq = L.qd → L.start s ≤ nr →
      ∃ r', r.seek msg s = (.ok (), r') ∧ AtIndex msg L r' ∧ idx r'.tr = L.start s ∧ r'.tr.qd.read = L.qd ∧
        (∀ j, r.tr.off j ≠ 0 → r'.tr.off j ≠ 0) ∧ DocT L r'.tr (max maxc (L.qd + L.start s)) ∧ Reached L nr r'.tr) ∧
    (r.tr.off s = 0 → r.cur.pos = 12 → QIdx msg L r → r.tr.qd.read ≤ maxc → r.tr.qd.read ≤ nq →
      (nq < L.qd ∨ nr < L.start s) →
      (∃ e r', r.seek msg s = (.err e, r') ∧ r'.done = true) ∨ (∃ p r', r.seek msg s = (.panic p, r'))) := by
  refine ⟨?_, ?_, ?_, ?_⟩
  · intro hk
    obtain ⟨r', he, hd', hT', hi', hp'⟩ := seek_lands L msg r hT s hs hlive hk
    obtain ⟨he2, ho2, hq2, _⟩ := seek_known msg r s hlive hk
    rw [he2] at he
    simp only [Prod.mk.injEq, true_and] at he
    subst he
    have hok := seek_ok (msg := msg) hinv s
    rw [he2] at hok
    exact ⟨_, he2, ⟨hok.2, horig, hp', hT', hlive⟩, hi', hq2, ho2⟩
  · intro hz hne
    have : r.tr.sectionOffset s = none := by simp [Tracker.sectionOffset, hz]
    simp only [Reader.seek, hlive, Bool.false_eq_true, if_false, this, HEADER_LENGTH, hne, ne_eq, not_false_eq_true, if_true]
  · intro hz h12 hQ hprog hnq hsn
    have hso : r.tr.sectionOffset s = none := by simp [Tracker.sectionOffset, hz]
    obtain ⟨r', he, hA', hi', hrd', hm', hD', hR'⟩ := seekImpl_pass msg L hL hP hnq hpad r maxc hQ s hs hsn hD hprog hR
    refine ⟨r', ?_, hA', hi', hrd', hm', hD', hR'⟩
    simp only [Reader.seek, hlive, Bool.false_eq_true, if_false, hso, HEADER_LENGTH, h12, ne_eq, not_true_eq_false, he,
      markDone]
  · intro hz h12 hQ hprog hle hb
    have hso : r.tr.sectionOffset s = none := by simp [Tracker.sectionOffset, hz]
    rcases seekImpl_fail msg L hL hP hpad hF r maxc hQ hle s hs hb hD hprog hR with ⟨e, r', he⟩ | ⟨p, r', he⟩
    · left
      refine ⟨e, { r' with done := true }, ?_, rfl⟩
      simp only [Reader.seek, hlive, Bool.false_eq_true, if_false, hso, HEADER_LENGTH, h12, ne_eq, not_true_eq_false, he,
        markDone]
    · right
      refine ⟨p, r', ?_⟩
      simp only [Reader.seek, hlive, Bool.false_eq_true, if_false, hso, HEADER_LENGTH, h12, ne_eq, not_true_eq_false, he,
        markDone]

@[simp] theorem mapVal_ok {α} (f : α → Val) (a : α) (r : Reader) : mapVal f (.ok a, r) = (.ok (f a), r) := rfl
@[simp] theorem mapVal_err {α} (f : α → Val) (e : Err) (r : Reader) : mapVal f ((.err e : Res α), r) = (.err e, r) := rfl
@[simp] theorem mapVal_panic {α} (f : α → Val) (p : PanicKind) (r : Reader) :
    mapVal f ((.panic p : Res α), r) = (.panic p, r) := rfl

/-- a step outcome that is not a panic -/
def NoPanic (x : Res Val × Reader) : Prop := ∀ p, x.1 ≠ .panic p

theorem Ghost.dead {L : Lay} {nr : Nat} {r : Reader} (h : r.done = true) (maxc : Nat) : Ghost L nr r maxc :=
  ⟨fun hd => by rw [h] at hd; exact absurd hd (by simp), fun hd => by rw [h] at hd; exact absurd hd (by simp),
    fun hd => by rw [h] at hd; exact absurd hd (by simp)⟩

/-- **dead.** An exhausted / failed reader stays that way under every allowed call. -/
theorem step_dead (msg : Bytes) (L : Lay) (nq nr : Nat) (r : Reader) (hd : r.done = true) (op : Op) (ha : Allowed r none op)
    (hnp : NoPanic (r.step msg op)) :
    Sit msg L nq nr (r.step msg op).2 (nextPend none op (r.step msg op).1) ∧ (r.step msg op).2.done = true := by
  obtain ⟨hq, hsq, hh, hsk, _, _, _⟩ := done_sticky msg r hd
  cases op with
  | header => exact absurd ha (by simp [Allowed])
  | question k => simp only [Reader.step, hq k, mapVal_err, nextPend]; exact ⟨Sit.dead r hd, hd⟩
  | skipQuestions => simp only [Reader.step, hsq, mapVal_err, nextPend]; exact ⟨Sit.dead r hd, hd⟩
  | recordHeader k => simp only [Reader.step, hh k, mapVal_err, nextPend]; exact ⟨Sit.dead r hd, hd⟩
  | skipData m => simp [Allowed] at ha
  | dataBytes m => simp [Allowed] at ha
  | data t m => simp [Allowed] at ha
  | optRecord m => simp [Allowed] at ha
  | seek s => simp only [Reader.step, hsk s, mapVal_err, nextPend]; exact ⟨Sit.dead r hd, hd⟩
  | questionsCount => exact ⟨Sit.dead r hd, hd⟩
  | recordsCount => exact ⟨Sit.dead r hd, hd⟩
  | recordsCountIn s => exact ⟨Sit.dead r hd, hd⟩
  | dataBytesAt m => exact ⟨Sit.dead r hd, hd⟩
  | dataAt t m => exact ⟨Sit.dead r hd, hd⟩
  | nameRefAt m => exact ⟨Sit.dead r hd, hd⟩

/-- what every allowed, non-panicking call must re-establish -/
def StepGoal (msg : Bytes) (L : Lay) (nq nr : Nat) (r : Reader) (p : Option Marker) (maxc : Nat) (op : Op) : Prop :=
  ∃ maxc', maxc ≤ maxc' ∧ Sit msg L nq nr (r.step msg op).2 (nextPend p op (r.step msg op).1) ∧
    Ghost L nr (r.step msg op).2 maxc'

theorem Ghost.mono_off {L : Lay} {nr : Nat} {r r' : Reader} {maxc : Nat} (h : Ghost L nr r maxc) (hl : r.done = false)
    (hm : ∀ j, r.tr.off j ≠ 0 → r'.tr.off j ≠ 0) (hq : r'.tr.qd.read = r.tr.qd.read) (hR : Reached L nr r'.tr) :
    Ghost L nr r' maxc :=
  ⟨fun _ => (h.doc hl).mono hm, fun _ => by rw [hq]; exact h.prog hl, fun _ => hR⟩

theorem noUB_of_stepOK {msg : Bytes} {α : Type} {x : Res α × Reader} (h : StepOK msg x) : ∀ r2, x ≠ (.ub, r2) := by
  intro r2 he
  rw [he] at h
  exact absurd h.1 (by simp [Res.noUB])

/-- the common part of the four data calls from the middle of a skippable record, given the outcome -/
theorem mid_data (msg : Bytes) (L : Lay) (hL : L.WF) {nq nr : Nat} (hP : PassUpto msg L nq nr) (hpad : Pad L nr)
    (r : Reader) (m : Marker) (maxc : Nat) (hM : MidRec msg L r m)
    (hq : r.tr.qd.read = L.qd) (hnq : nq = L.qd) (hlt : idx r.tr < nr) (hG : Ghost L nr r maxc) {α : Type}
    (x : Res α × Reader) (f : α → Val)
    (hok : ∀ v r2, x = (.ok v, r2) → DataCall msg r r2 m) (herr : ∀ e r2, x = (.err e, r2) → r2.done = true)
    (hnp : ∀ p r2, x ≠ (.panic p, r2)) (hub : ∀ r2, x ≠ (.ub, r2)) :
    ∃ maxc', maxc ≤ maxc' ∧ Sit msg L nq nr (mapVal f x).2 none ∧ Ghost L nr (mapVal f x).2 maxc' := by
  obtain ⟨res, r2⟩ := x
  cases res with
  | ok v =>
    obtain ⟨hA2, hi2, hq2, hmono, hkn, hcases⟩ := data_step msg L hL r r2 m hM (hok v r2 rfl)
    refine ⟨max maxc (L.qd + idx r.tr + 1), by omega, Sit.recs r2 hA2 (by rw [hq2]; exact hq) hnq (by omega), ?_, ?_, ?_⟩
    · intro _
      exact DocT.data (hG.doc hM.live) hM.tinv m.section_ hM.sec hM.known hmono hkn
    · intro _
      simp only [mapVal_ok]
      rw [hq2]
      have := hG.prog hM.live
      omega
    · intro _
      exact reached_at hL hP hnq hpad hA2.tinv (hG.reach hM.live) (idx r.tr + 1) (by omega) hcases
  | err e =>
    have := herr e r2 rfl
    exact ⟨maxc, Nat.le_refl _, Sit.dead r2 this, Ghost.dead this maxc⟩
  | panic p => exact absurd rfl (hnp p r2)
  | ub => exact absurd rfl (hub r2)

/-- **mid-record.** After a header call, the allowed calls are the data calls with the returned marker,
    seeks, counts and random access. -/
theorem step_mid (msg : Bytes) (L : Lay) (hL : L.WF) {nq nr : Nat} (hP : PassUpto msg L nq nr) (hpad : Pad L nr)
    (hF : Fails msg L nq nr) (r : Reader) (m : Marker) (maxc : Nat)
    (hM : MidRec msg L r m) (hq : r.tr.qd.read = L.qd) (hnq : nq = L.qd) (hlt : idx r.tr < nr) (hG : Ghost L nr r maxc)
    (op : Op) (ha : Allowed r (some m) op) (hnp : NoPanic (r.step msg op)) : StepGoal msg L nq nr r (some m) maxc op := by
  have hsame : StepGoal msg L nq nr r (some m) maxc .questionsCount :=
    ⟨maxc, Nat.le_refl _, Sit.mid r m hM hq hnq hlt, hG⟩
  cases op with
  | header => exact absurd ha (by simp [Allowed])
  | question k => simp [Allowed] at ha
  | skipQuestions => simp [Allowed] at ha
  | recordHeader k => simp [Allowed] at ha
  | skipData m' =>
    simp only [Allowed, Option.some.injEq] at ha
    subst ha
    unfold StepGoal
    simp only [Reader.step, nextPend]
    exact mid_data msg L hL hP hpad r m maxc hM hq hnq hlt hG (r.skipData m) _ (fun v r2 h => Or.inl (by rw [h]))
      (fun e r2 h => data_fail msg r r2 m .a e (Or.inl h))
      (fun p r2 h => hnp p (by simp [Reader.step, h]))
      (noUB_of_stepOK (skipData_ok hM.inv m))
  | dataBytes m' =>
    simp only [Allowed, Option.some.injEq] at ha
    subst ha
    unfold StepGoal
    simp only [Reader.step, nextPend]
    exact mid_data msg L hL hP hpad r m maxc hM hq hnq hlt hG (r.dataBytes msg m) _ (fun v r2 h => Or.inr (Or.inl ⟨v, h⟩))
      (fun e r2 h => data_fail msg r r2 m .a e (Or.inr (Or.inl h)))
      (fun p r2 h => hnp p (by simp [Reader.step, h]))
      (noUB_of_stepOK (dataBytes_ok hM.inv m))
  | data t m' =>
    simp only [Allowed, Option.some.injEq] at ha
    subst ha
    unfold StepGoal
    simp only [Reader.step, nextPend]
    exact mid_data msg L hL hP hpad r m maxc hM hq hnq hlt hG (r.data msg t m) _
      (fun v r2 h => Or.inr (Or.inr (Or.inl ⟨t, v, h⟩)))
      (fun e r2 h => data_fail msg r r2 m t e (Or.inr (Or.inr (Or.inl h))))
      (fun p r2 h => hnp p (by simp [Reader.step, h]))
      (noUB_of_stepOK (data_ok hM.inv t m))
  | optRecord m' =>
    simp only [Allowed, Option.some.injEq] at ha
    obtain ⟨ha, _⟩ := ha
    subst ha
    unfold StepGoal
    simp only [Reader.step, nextPend]
    exact mid_data msg L hL hP hpad r m maxc hM hq hnq hlt hG (r.optRecord m) _
      (fun v r2 h => Or.inr (Or.inr (Or.inr ⟨v, h⟩)))
      (fun e r2 h => data_fail msg r r2 m .a e (Or.inr (Or.inr (Or.inr h))))
      (fun p r2 h => hnp p (by simp [Reader.step, h]))
      (noUB_of_stepOK (optRecord_ok hM.inv m))
  | seek s =>
    simp only [Allowed] at ha
    obtain ⟨hk, hu, _, _⟩ := seek_live msg L hL hP hpad hF r maxc hM.inv hM.orig hM.live hM.tinv s ha (hG.doc hM.live)
      (hG.reach hM.live)
    by_cases hz : r.tr.off s = 0
    · -- unknown: the reader stands inside a record, far behind offset 12
      have hge := PassUpto.r_ge hL hP hnq (idx r.tr) (by omega)
      have hne : r.cur.pos ≠ 12 := by rw [hM.pos]; have := hM.gt; omega
      have he := hu hz hne
      unfold StepGoal
      simp only [Reader.step, he, mapVal_err, nextPend]
      exact ⟨maxc, Nat.le_refl _, Sit.mid r m hM hq hnq hlt, hG⟩
    · obtain ⟨r', he, hA', hi', hq', ho'⟩ := hk hz
      unfold StepGoal
      simp only [Reader.step, he, mapVal_ok, nextPend]
      have hsn : L.start s ≤ nr := hG.reach hM.live s ha hz
      refine ⟨maxc, Nat.le_refl _, Sit.recs r' hA' (by rw [hq']; exact hq) hnq (by omega), ?_⟩
      exact hG.mono_off hM.live (fun j hj => by rw [ho']; exact hj) (by rw [hq']) ((hG.reach hM.live).congr ho')
  | questionsCount => exact hsame
  | recordsCount => exact hsame
  | recordsCountIn s => exact hsame
  | dataBytesAt m' => exact hsame
  | dataAt t m' => exact hsame
  | nameRefAt m' => exact hsame

/-- the data calls on the record that cannot be skipped: they fail and latch -/
theorem midBad_step_data (msg : Bytes) (L : Lay) {nq nr : Nat} (r : Reader) (m : Marker) (maxc : Nat)
    (hM : MidBad msg L r m) {α : Type} (x : Res α × Reader) (f : α → Val)
    (hok : ∀ v r2, x = (.ok v, r2) → DataCall msg r r2 m) (herr : ∀ e r2, x = (.err e, r2) → r2.done = true)
    (hnp : ∀ p r2, x ≠ (.panic p, r2)) (hub : ∀ r2, x ≠ (.ub, r2)) :
    ∃ maxc', maxc ≤ maxc' ∧ Sit msg L nq nr (mapVal f x).2 none ∧ Ghost L nr (mapVal f x).2 maxc' := by
  obtain ⟨res, r2⟩ := x
  cases res with
  | ok v => exact (midBad_data hM (hok v r2 rfl)).elim
  | err e =>
    have := herr e r2 rfl
    exact ⟨maxc, Nat.le_refl _, Sit.dead r2 this, Ghost.dead this maxc⟩
  | panic p => exact absurd rfl (hnp p r2)
  | ub => exact absurd rfl (hub r2)

/-- **inside the record that cannot be skipped.** Its header was returned; every data call fails and
    latches, seeks and counts behave as inside any record. -/
theorem step_midBad (msg : Bytes) (L : Lay) (hL : L.WF) {nq nr : Nat} (hP : PassUpto msg L nq nr) (hpad : Pad L nr)
    (hF : Fails msg L nq nr) (r : Reader) (m : Marker) (maxc : Nat)
    (hM : MidBad msg L r m) (hq : r.tr.qd.read = L.qd) (hnq : nq = L.qd) (hi : idx r.tr = nr) (hG : Ghost L nr r maxc)
    (op : Op) (ha : Allowed r (some m) op) (hnp : NoPanic (r.step msg op)) : StepGoal msg L nq nr r (some m) maxc op := by
  have hsame : StepGoal msg L nq nr r (some m) maxc .questionsCount :=
    ⟨maxc, Nat.le_refl _, Sit.midBad r m hM hq hnq hi, hG⟩
  cases op with
  | header => exact absurd ha (by simp [Allowed])
  | question k => simp [Allowed] at ha
  | skipQuestions => simp [Allowed] at ha
  | recordHeader k => simp [Allowed] at ha
  | skipData m' =>
    simp only [Allowed, Option.some.injEq] at ha
    subst ha
    unfold StepGoal
    simp only [Reader.step, nextPend]
    exact midBad_step_data msg L r m maxc hM (r.skipData m) _ (fun v r2 h => Or.inl (by rw [h]))
      (fun e r2 h => data_fail msg r r2 m .a e (Or.inl h))
      (fun p r2 h => hnp p (by simp [Reader.step, h]))
      (noUB_of_stepOK (skipData_ok hM.inv m))
  | dataBytes m' =>
    simp only [Allowed, Option.some.injEq] at ha
    subst ha
    unfold StepGoal
    simp only [Reader.step, nextPend]
    exact midBad_step_data msg L r m maxc hM (r.dataBytes msg m) _ (fun v r2 h => Or.inr (Or.inl ⟨v, h⟩))
      (fun e r2 h => data_fail msg r r2 m .a e (Or.inr (Or.inl h)))
      (fun p r2 h => hnp p (by simp [Reader.step, h]))
      (noUB_of_stepOK (dataBytes_ok hM.inv m))
  | data t m' =>
    simp only [Allowed, Option.some.injEq] at ha
    subst ha
    unfold StepGoal
    simp only [Reader.step, nextPend]
    exact midBad_step_data msg L r m maxc hM (r.data msg t m) _
      (fun v r2 h => Or.inr (Or.inr (Or.inl ⟨t, v, h⟩)))
      (fun e r2 h => data_fail msg r r2 m t e (Or.inr (Or.inr (Or.inl h))))
      (fun p r2 h => hnp p (by simp [Reader.step, h]))
      (noUB_of_stepOK (data_ok hM.inv t m))
  | optRecord m' =>
    simp only [Allowed, Option.some.injEq] at ha
    obtain ⟨ha, _⟩ := ha
    subst ha
    unfold StepGoal
    simp only [Reader.step, nextPend]
    exact midBad_step_data msg L r m maxc hM (r.optRecord m) _
      (fun v r2 h => Or.inr (Or.inr (Or.inr ⟨v, h⟩)))
      (fun e r2 h => data_fail msg r r2 m .a e (Or.inr (Or.inr (Or.inr h))))
      (fun p r2 h => hnp p (by simp [Reader.step, h]))
      (noUB_of_stepOK (optRecord_ok hM.inv m))
  | seek s =>
    simp only [Allowed] at ha
    obtain ⟨hk, hu, _, _⟩ := seek_live msg L hL hP hpad hF r maxc hM.inv hM.orig hM.live hM.tinv s ha (hG.doc hM.live)
      (hG.reach hM.live)
    by_cases hz : r.tr.off s = 0
    · have hge := PassUpto.r_ge hL hP hnq (idx r.tr) (by omega)
      have hne : r.cur.pos ≠ 12 := by rw [hM.pos]; have := hM.gt; omega
      have he := hu hz hne
      unfold StepGoal
      simp only [Reader.step, he, mapVal_err, nextPend]
      exact ⟨maxc, Nat.le_refl _, Sit.midBad r m hM hq hnq hi, hG⟩
    · obtain ⟨r', he, hA', hi', hq', ho'⟩ := hk hz
      unfold StepGoal
      simp only [Reader.step, he, mapVal_ok, nextPend]
      have hsn : L.start s ≤ nr := hG.reach hM.live s ha hz
      refine ⟨maxc, Nat.le_refl _, Sit.recs r' hA' (by rw [hq']; exact hq) hnq (by omega), ?_⟩
      exact hG.mono_off hM.live (fun j hj => by rw [ho']; exact hj) (by rw [hq']) ((hG.reach hM.live).congr ho')
  | questionsCount => exact hsame
  | recordsCount => exact hsame
  | recordsCountIn s => exact hsame
  | dataBytesAt m' => exact hsame
  | dataAt t m' => exact hsame
  | nameRefAt m' => exact hsame

theorem AtIndex.toQIdx {msg : Bytes} {L : Lay} (hL : L.WF) {r : Reader} (hA : AtIndex msg L r) (hi : idx r.tr = 0)
    (hq : r.tr.qd.read = L.qd) : QIdx msg L r :=
  ⟨hA.inv, hA.orig, hA.live, hA.tinv, hi, by rw [hA.pos, hi, hq]; exact hL.q0, by omega⟩

theorem idx_le_n {L : Lay} {t : Tracker} (h : TInv L t) : idx t ≤ L.n := by
  have := h.le0; have := h.le1; have := h.le2
  unfold idx Lay.n; omega

/-- **between records.** -/
theorem step_recs (msg : Bytes) (L : Lay) (hL : L.WF) {nq nr : Nat} (hP : PassUpto msg L nq nr) (hpad : Pad L nr)
    (hF : Fails msg L nq nr) (r : Reader) (maxc : Nat)
    (hA : AtIndex msg L r) (hq : r.tr.qd.read = L.qd) (hnq : nq = L.qd) (hle : idx r.tr ≤ nr) (hG : Ghost L nr r maxc)
    (op : Op) (ha : Allowed r none op) (hnp : NoPanic (r.step msg op)) : StepGoal msg L nq nr r none maxc op := by
  have hsame : StepGoal msg L nq nr r none maxc .questionsCount := ⟨maxc, Nat.le_refl _, Sit.recs r hA hq hnq hle, hG⟩
  have htq := hA.tinv.tq
  have hR := hG.reach hA.live
  cases op with
  | header => exact absurd ha (by simp [Allowed])
  | question k =>
    simp only [Allowed, true_and] at ha
    rcases ha with hd | hlt
    · rw [hA.live] at hd; cases hd
    · omega
  | skipQuestions =>
    simp only [Allowed, true_and] at ha
    rcases ha with hd | hi0
    · rw [hA.live] at hd; cases hd
    · have hQ := hA.toQIdx hL hi0 hq
      have hqf : L.qd - r.tr.qd.read < r.qFuel := by simp only [Reader.qFuel, htq]; omega
      obtain ⟨r', he, hQ', hrd', hm', hD', hR'⟩ := skipQuestionsImpl_pass msg L hL hP hnq hpad r.qFuel r maxc hQ hqf
        (hG.doc hA.live) hR
      unfold StepGoal
      simp only [Reader.step, Reader.skipQuestions, hA.live, Bool.false_eq_true, if_false, he, markDone, mapVal_ok,
        nextPend]
      refine ⟨maxc, Nat.le_refl _, Sit.recs r' (hQ'.toAtIndex hL hrd') hrd' hnq (by rw [hQ'.idx0]; omega), ?_⟩
      refine ⟨fun _ => ?_, fun _ => by rw [hrd', ← hq]; exact hG.prog hA.live, fun _ => hR'⟩
      have hnl : ¬ r.tr.qd.read < L.qd := by omega
      simpa [hnl] using hD'
  | recordHeader k =>
    by_cases hi : idx r.tr < nr
    · rcases header_step msg L hL hP r hA hi k with
        ⟨hn, m, r1, he, hM, hi1, hq1, hm1, hc1⟩ | ⟨e, r1, he, hd1⟩ | ⟨p, r1, he⟩
      · unfold StepGoal
        simp only [Reader.step, he, mapVal_ok, nextPend]
        refine ⟨maxc, Nat.le_refl _, Sit.mid r1 m hM (by rw [hq1]; exact hq) hnq (by rw [hi1]; exact hi), ?_⟩
        exact hG.mono_off hA.live hm1 (by rw [hq1]) (reached_at hL hP hnq hpad hM.tinv hR (idx r.tr) hle hc1)
      · unfold StepGoal
        simp only [Reader.step, he, mapVal_err, nextPend]
        exact ⟨maxc, Nat.le_refl _, Sit.dead r1 hd1, Ghost.dead hd1 maxc⟩
      · exact absurd (by simp [Reader.step, he]) (hnp p)
    · have hin : idx r.tr = nr := by omega
      by_cases hlast : nr < L.n
      · -- the record that cannot be skipped
        have hfail := hF.r hnq hlast
        rw [← hin] at hfail
        rcases bad_header msg L hL r hA (by omega) hfail k with
          ⟨hn, m, r1, he, hM, hi1, hq1, hm1, hc1⟩ | ⟨e, r1, he, hd1⟩ | ⟨p, r1, he⟩
        · unfold StepGoal
          simp only [Reader.step, he, mapVal_ok, nextPend]
          refine ⟨maxc, Nat.le_refl _, Sit.midBad r1 m hM (by rw [hq1]; exact hq) hnq (by rw [hi1]; exact hin), ?_⟩
          exact hG.mono_off hA.live hm1 (by rw [hq1]) (reached_at hL hP hnq hpad hM.tinv hR (idx r.tr) hle hc1)
        · unfold StepGoal
          simp only [Reader.step, he, mapVal_err, nextPend]
          exact ⟨maxc, Nat.le_refl _, Sit.dead r1 hd1, Ghost.dead hd1 maxc⟩
        · exact absurd (by simp [Reader.step, he]) (hnp p)
      · have hinL : idx r.tr = L.n := by have := hP.nr_le; omega
        have hex := exhausted_reports_done msg r k hA.live (by
          intro j hj
          have l0 := hA.tinv.le0; have l1 := hA.tinv.le1; have l2 := hA.tinv.le2
          have t0 := hA.tinv.t0; have t1 := hA.tinv.t1; have t2 := hA.tinv.t2
          simp only [idx, Lay.n] at hinL
          have : j = 0 ∨ j = 1 ∨ j = 2 := by omega
          rcases this with rfl | rfl | rfl <;> omega)
        cases hres : r.recordHeader msg k with
        | mk res r1 =>
          rw [hres] at hex
          simp only at hex
          unfold StepGoal
          simp only [Reader.step, hres, hex.1, mapVal_err, nextPend]
          exact ⟨maxc, Nat.le_refl _, Sit.dead r1 hex.2, Ghost.dead hex.2 maxc⟩
  | skipData m' => simp [Allowed] at ha
  | dataBytes m' => simp [Allowed] at ha
  | data t m' => simp [Allowed] at ha
  | optRecord m' => simp [Allowed] at ha
  | seek s =>
    simp only [Allowed] at ha
    obtain ⟨hk, hu, h12, h12f⟩ := seek_live msg L hL hP hpad hF r maxc hA.inv hA.orig hA.live hA.tinv s ha (hG.doc hA.live) hR
    by_cases hz : r.tr.off s = 0
    · by_cases hp12 : r.cur.pos = 12
      · -- offset 12 with everything read in front: no question and no record in front
        have hge := PassUpto.r_ge hL hP hnq (idx r.tr) hle
        rw [← hA.pos, hp12] at hge
        have hqd0 : L.qd = 0 := by omega
        have hi0 : idx r.tr = 0 := by omega
        have hQ := hA.toQIdx hL hi0 hq
        by_cases hsn : L.start s ≤ nr
        · obtain ⟨r', he, hA', hi', hrd', hm', hD', hR'⟩ := h12 hz hp12 hQ (by rw [hq, hqd0]; omega) hnq hsn
          unfold StepGoal
          simp only [Reader.step, he, mapVal_ok, nextPend]
          refine ⟨max maxc (L.qd + L.start s), by omega, Sit.recs r' hA' hrd' hnq (by omega), fun _ => hD', fun _ => ?_,
            fun _ => hR'⟩
          rw [hrd', hqd0]; omega
        · rcases h12f hz hp12 hQ (by rw [hq, hqd0]; omega) (by omega) (Or.inr (by omega)) with ⟨e, r', he, hd'⟩ | ⟨p, r', he⟩
          · unfold StepGoal
            simp only [Reader.step, he, mapVal_err]
            have : nextPend none (.seek s) (.err e) = none := by cases e <;> rfl
            rw [this]
            exact ⟨maxc, Nat.le_refl _, Sit.dead r' hd', Ghost.dead hd' maxc⟩
          · exact absurd (by simp [Reader.step, he]) (hnp p)
      · have he := hu hz hp12
        unfold StepGoal
        simp only [Reader.step, he, mapVal_err, nextPend]
        exact ⟨maxc, Nat.le_refl _, Sit.recs r hA hq hnq hle, hG⟩
    · obtain ⟨r', he, hA', hi', hq', ho'⟩ := hk hz
      unfold StepGoal
      simp only [Reader.step, he, mapVal_ok, nextPend]
      have hsn : L.start s ≤ nr := hR s ha hz
      refine ⟨maxc, Nat.le_refl _, Sit.recs r' hA' (by rw [hq']; exact hq) hnq (by omega), ?_⟩
      exact hG.mono_off hA.live (fun j hj => by rw [ho']; exact hj) (by rw [hq']) (hR.congr ho')
  | questionsCount => exact hsame
  | recordsCount => exact hsame
  | recordsCountIn s => exact hsame
  | dataBytesAt m' => exact hsame
  | dataAt t m' => exact hsame
  | nameRefAt m' => exact hsame

/-- **inside the question section.** -/
theorem step_ques (msg : Bytes) (L : Lay) (hL : L.WF) {nq nr : Nat} (hP : PassUpto msg L nq nr) (hpad : Pad L nr)
    (hF : Fails msg L nq nr) (r : Reader) (maxc : Nat)
    (hQ : QIdx msg L r) (hlt : r.tr.qd.read < L.qd) (hleq : r.tr.qd.read ≤ nq) (hz : ∀ j, r.tr.off j = 0)
    (hG : Ghost L nr r maxc) (op : Op)
    (ha : Allowed r none op) (hnp : NoPanic (r.step msg op)) : StepGoal msg L nq nr r none maxc op := by
  have hsame : StepGoal msg L nq nr r none maxc .questionsCount := ⟨maxc, Nat.le_refl _, Sit.ques r hQ hlt hleq hz, hG⟩
  have htq := hQ.tinv.tq
  have hR := hG.reach hQ.live
  cases op with
  | header => exact absurd ha (by simp [Allowed])
  | question k =>
    by_cases hltq : r.tr.qd.read < nq
    · rcases question_step msg L hL hP r hQ hltq k with
        ⟨q, r1, he, hQ1, hrd1, hsec1, hm1, hkn1, hoff1, hc1⟩ | ⟨e, r1, he, hd1⟩ | ⟨p, r1, he⟩
      · unfold StepGoal
        simp only [Reader.step, he, mapVal_ok, nextPend]
        by_cases hlast : r.tr.qd.read + 1 < L.qd
        · have hR1 : Reached L nr r1.tr := hR.congr (hoff1 hlast)
          have hG1 : Ghost L nr r1 (max maxc (r.tr.qd.read + 1)) :=
            ⟨fun _ => DocT.question (hG.doc hQ.live) hlt hm1 hkn1, fun _ => by rw [hrd1]; omega, fun _ => hR1⟩
          refine ⟨_, by omega, Sit.ques r1 hQ1 (by rw [hrd1]; exact hlast) (by rw [hrd1]; omega) ?_, hG1⟩
          intro j; rw [hoff1 hlast]; exact hz j
        · have hall : r1.tr.qd.read = L.qd := by omega
          have hnq : nq = L.qd := by have := hP.nq_le; omega
          have hR1 : Reached L nr r1.tr := by
            refine reached_at hL hP hnq hpad hQ1.tinv hR 0 (Nat.zero_le _) (fun j => ?_)
            have := hc1 j
            rw [show r.tr.qd.read + 1 = L.qd from by omega, ← hL.q0] at this
            exact this
          have hG1 : Ghost L nr r1 (max maxc (r.tr.qd.read + 1)) :=
            ⟨fun _ => DocT.question (hG.doc hQ.live) hlt hm1 hkn1, fun _ => by rw [hrd1]; omega, fun _ => hR1⟩
          exact ⟨_, by omega, Sit.recs r1 (hQ1.toAtIndex hL hall) hall hnq (by rw [hQ1.idx0]; omega), hG1⟩
      · unfold StepGoal
        simp only [Reader.step, he, mapVal_err, nextPend]
        exact ⟨maxc, Nat.le_refl _, Sit.dead r1 hd1, Ghost.dead hd1 maxc⟩
      · exact absurd (by simp [Reader.step, he]) (hnp p)
    · -- the question that cannot be skipped
      have heq : r.tr.qd.read = nq := by omega
      have hfail := hF.q (by omega)
      rw [← heq] at hfail
      rcases question_fail msg L r hQ hfail k with ⟨e, r1, he, hd1⟩ | ⟨p, r1, he⟩
      · unfold StepGoal
        simp only [Reader.step, he, mapVal_err, nextPend]
        exact ⟨maxc, Nat.le_refl _, Sit.dead r1 hd1, Ghost.dead hd1 maxc⟩
      · exact absurd (by simp [Reader.step, he]) (hnp p)
  | skipQuestions =>
    by_cases hnq : nq = L.qd
    · have hqf : L.qd - r.tr.qd.read < r.qFuel := by simp only [Reader.qFuel, htq]; omega
      obtain ⟨r', he, hQ', hrd', hm', hD', hR'⟩ := skipQuestionsImpl_pass msg L hL hP hnq hpad r.qFuel r maxc hQ hqf
        (hG.doc hQ.live) hR
      unfold StepGoal
      simp only [Reader.step, Reader.skipQuestions, hQ.live, Bool.false_eq_true, if_false, he, markDone, mapVal_ok, nextPend]
      refine ⟨max maxc L.qd, by omega, Sit.recs r' (hQ'.toAtIndex hL hrd') hrd' hnq (by rw [hQ'.idx0]; omega), fun _ => ?_,
        fun _ => by rw [hrd']; omega, fun _ => hR'⟩
      simpa [hlt] using hD'
    · have hnlt : nq < L.qd := by have := hP.nq_le; omega
      have hqf : nq - r.tr.qd.read < r.qFuel := by simp only [Reader.qFuel, htq]; omega
      obtain ⟨e, r', he⟩ := skipQuestionsImpl_fail msg L hL hP hnlt (hF.q hnlt) r.qFuel r hQ hleq hqf
      unfold StepGoal
      simp only [Reader.step, Reader.skipQuestions, hQ.live, Bool.false_eq_true, if_false, he, markDone, mapVal_err, nextPend]
      exact ⟨maxc, Nat.le_refl _, Sit.dead _ rfl, Ghost.dead rfl maxc⟩
  | recordHeader k =>
    simp only [Allowed, true_and] at ha
    rcases ha with hd | he
    · rw [hQ.live] at hd; cases hd
    · omega
  | skipData m' => simp [Allowed] at ha
  | dataBytes m' => simp [Allowed] at ha
  | data t m' => simp [Allowed] at ha
  | optRecord m' => simp [Allowed] at ha
  | seek s =>
    simp only [Allowed] at ha
    obtain ⟨_, hu, h12, h12f⟩ := seek_live msg L hL hP hpad hF r maxc hQ.inv hQ.orig hQ.live hQ.tinv s ha (hG.doc hQ.live) hR
    by_cases hp12 : r.cur.pos = 12
    · by_cases hgo : nq = L.qd ∧ L.start s ≤ nr
      · obtain ⟨r', he, hA', hi', hrd', hm', hD', hR'⟩ := h12 (hz s) hp12 hQ (hG.prog hQ.live) hgo.1 hgo.2
        unfold StepGoal
        simp only [Reader.step, he, mapVal_ok, nextPend]
        exact ⟨max maxc (L.qd + L.start s), by omega, Sit.recs r' hA' hrd' hgo.1 (by omega), fun _ => hD',
          fun _ => by rw [hrd']; omega, fun _ => hR'⟩
      · have hb : nq < L.qd ∨ nr < L.start s := by
          have := hP.nq_le
          by_cases h1 : nq = L.qd
          · right; have := fun h => hgo ⟨h1, h⟩; omega
          · left; omega
        rcases h12f (hz s) hp12 hQ (hG.prog hQ.live) hleq hb with ⟨e, r', he, hd'⟩ | ⟨p, r', he⟩
        · unfold StepGoal
          simp only [Reader.step, he, mapVal_err]
          have hne : ∀ s', e ≠ .offsetUnknown s' ∨ True := fun _ => Or.inr trivial
          by_cases hou : ∃ s', e = .offsetUnknown s'
          · -- a latched error cannot be `RecordsSectionOffsetUnknown` … but the situation is dead either way
            obtain ⟨s', rfl⟩ := hou
            simp only [nextPend]
            exact ⟨maxc, Nat.le_refl _, Sit.dead r' hd', Ghost.dead hd' maxc⟩
          · have : nextPend none (.seek s) (.err e) = none := by
              cases e <;> first | rfl | exact absurd ⟨_, rfl⟩ hou
            rw [this]
            exact ⟨maxc, Nat.le_refl _, Sit.dead r' hd', Ghost.dead hd' maxc⟩
        · exact absurd (by simp [Reader.step, he]) (hnp p)
    · have he := hu (hz s) hp12
      unfold StepGoal
      simp only [Reader.step, he, mapVal_err, nextPend]
      exact ⟨maxc, Nat.le_refl _, Sit.ques r hQ hlt hleq hz, hG⟩
  | questionsCount => exact hsame
  | recordsCount => exact hsame
  | recordsCountIn s => exact hsame
  | dataBytesAt m' => exact hsame
  | dataAt t m' => exact hsame
  | nameRefAt m' => exact hsame

end Rsdns.C09
