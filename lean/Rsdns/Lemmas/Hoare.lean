/-
  Rsdns.Lemmas.Hoare — total-correctness triples for cursor computations (`CurM`), the frame they all
  respect, and the facts about `read_rr_data` that C01 / C04 / C10 / C17 share.
-/
import Rsdns.Model.RData
import Rsdns.Lemmas.Safety

set_option linter.unusedVariables false

namespace Rsdns

open Generated Spec

/-- `triple P f Q E`: from any cursor satisfying `P`, `f` neither panics nor performs UB; on success
    the result and the cursor satisfy `Q`, on error the cursor satisfies `E`. -/
def CurM.triple {α : Type} (P : Cur → Prop) (f : CurM α) (Q : α → Cur → Prop) (E : Cur → Prop) : Prop :=
  ∀ c, P c →
    match f c with
    | (.ok a, c') => Q a c'
    | (.err _, c') => E c'
    | (.panic _, _) => False
    | (.ub, _) => False

namespace CurM

theorem triple_pure {α} {P : Cur → Prop} {E : Cur → Prop} (a : α) :
    triple P (Pure.pure a : CurM α) (fun x c => x = a ∧ P c) E := by
  intro c hc
  exact ⟨rfl, hc⟩

theorem triple_bind {α β} {P : Cur → Prop} {Q : α → Cur → Prop} {R : β → Cur → Prop} {E : Cur → Prop}
    {x : CurM α} {f : α → CurM β} (hx : triple P x Q E) (hf : ∀ a, triple (Q a) (f a) R E) :
    triple P (x >>= f) R E := by
  intro c hc
  have h1 := hx c hc
  show match CurM.bind x f c with
    | (.ok a, c') => R a c' | (.err _, c') => E c' | (.panic _, _) => False | (.ub, _) => False
  unfold CurM.bind
  cases hxc : x c with
  | mk r c' =>
    rw [hxc] at h1
    cases r with
    | ok a => exact hf a c' h1
    | err e => exact h1
    | panic p => exact h1
    | ub => exact h1

theorem triple_weaken {α} {P P' : Cur → Prop} {Q Q' : α → Cur → Prop} {E E' : Cur → Prop} {f : CurM α}
    (h : triple P f Q E) (hp : ∀ c, P' c → P c) (hq : ∀ a c, Q a c → Q' a c) (he : ∀ c, E c → E' c) :
    triple P' f Q' E' := by
  intro c hc
  have := h c (hp c hc)
  cases hfc : f c with
  | mk r c' =>
    rw [hfc] at this
    cases r with
    | ok a => exact hq a c' this
    | err e => exact he c' this
    | panic p => exact this
    | ub => exact this

end CurM

/-- the frame every cursor read respects: the view (`lim`), the saved view (`orig`) and the fact that
    the view lies inside the message. Only `pos` moves. -/
def Frame (msg : Bytes) (L : Nat) (O : Option Nat) (c : Cur) : Prop :=
  Cur.OK msg c ∧ c.lim = L ∧ c.orig = O

theorem Frame.of {msg : Bytes} {c : Cur} (h : Cur.OK msg c) : Frame msg c.lim c.orig c := ⟨h, rfl, rfl⟩

theorem Frame.pos {msg L O} {c : Cur} (h : Frame msg L O c) (p : Nat) :
    Frame msg L O { lim := c.lim, pos := p, orig := c.orig } :=
  ⟨⟨h.1.lim_le, h.1.orig_le⟩, h.2.1, h.2.2⟩

/-! ### primitive triples (frame-preserving, with the position facts needed later) -/

theorem CurM.u8_triple (msg : Bytes) (L : Nat) (O : Option Nat) (p : Nat) :
    CurM.triple (fun c => Frame msg L O c ∧ c.pos = p) (CurM.u8 msg)
      (fun _ c => Frame msg L O c ∧ c.pos = p + 1 ∧ p + 1 ≤ L) (fun c => Frame msg L O c ∧ c.pos = p) := by
  intro c ⟨hf, hp⟩
  unfold CurM.u8 CurM.lift
  rcases Cur.u8_spec hf.1 with ⟨v, hu, hlt⟩ | ⟨hu, _⟩
  · simp only [hu]
    refine ⟨hf.pos _, by simp [hp], ?_⟩
    have := hf.2.1
    omega
  · simp only [hu]
    exact ⟨hf, hp⟩

theorem CurM.rBe_triple (msg : Bytes) (L : Nat) (O : Option Nat) (p n : Nat) (hn : 0 < n) :
    CurM.triple (fun c => Frame msg L O c ∧ c.pos = p) (CurM.lift (fun c => Cur.rBe msg c n))
      (fun _ c => Frame msg L O c ∧ c.pos = p + n ∧ p + n ≤ L) (fun c => Frame msg L O c ∧ c.pos = p) := by
  intro c ⟨hf, hp⟩
  unfold CurM.lift
  rcases Cur.rBe_spec hf.1 n hn with ⟨hu, hlt⟩ | ⟨hu, _⟩
  · simp only [hu]
    refine ⟨hf.pos _, by simp [hp], ?_⟩
    have := hf.2.1
    omega
  · simp only [hu]
    exact ⟨hf, hp⟩

theorem CurM.slice_triple (msg : Bytes) (L : Nat) (O : Option Nat) (p n : Nat) :
    CurM.triple (fun c => Frame msg L O c ∧ c.pos = p) (CurM.slice msg n)
      (fun b c => Frame msg L O c ∧ c.pos = p + n ∧ p + n ≤ L ∧ b = msg.extract p (p + n))
      (fun c => Frame msg L O c ∧ c.pos = p) := by
  intro c ⟨hf, hp⟩
  unfold CurM.slice CurM.lift
  rcases Cur.slice_spec hf.1 n with ⟨hu, hlt⟩ | ⟨hu, _⟩ | ⟨hu, _⟩
  · simp only [hu]
    refine ⟨hf.pos _, by simp [hp], ?_, by rw [hp]⟩
    have := hf.2.1
    omega
  · simp only [hu]
    exact ⟨hf, hp⟩
  · simp only [hu]
    exact ⟨hf, hp⟩

/-- on success `max_pos` lies inside the view (it is a position the loop's cursor actually reached) -/
theorem walk_maxPos_le (msg : Bytes) (m : Mode) (s : LSt) (acc : Bytes) (ls : List Bytes) (n : Nat)
    (o : WalkOut) (h : walk msg m s acc ls n = .ok o) (hm : s.maxPos ≤ s.cur.lim) :
    o.maxPos ≤ s.cur.lim := by
  fun_induction walk msg m s acc ls n with
  | case1 => simp at h
  | case2 => simp at h
  | case3 => simp at h
  | case4 s acc ls n s' hst =>
    have hz := iterStep_zero hst
    simp only [Res.ok.injEq] at h
    subst h
    simp only
    rw [hz.2.2.2.1]
    split <;> omega
  | case5 => simp at h
  | case6 => simp at h
  | case7 => simp at h
  | case8 s acc ls n bytes p s' hst acc' hon ih =>
    obtain ⟨nb, _, _, _, _, _, _, _, _, hmp, hl, _⟩ := iterStep_label_spec hst
    have := ih h (by omega)
    omega
  | case9 s acc ls n s' hst ih =>
    obtain ⟨b1, b2, _, _, _, _, _, _, hmp, _, _, hl, hle⟩ := iterStep_jump_spec hst
    have := ih h (by rw [hmp, hl]; split <;> omega)
    omega

theorem CurM.readName_triple (k : NameKind) (msg : Bytes) (L : Nat) (O : Option Nat) (p : Nat) :
    CurM.triple (fun c => Frame msg L O c ∧ c.pos = p) (CurM.readName k msg)
      (fun _ c => Frame msg L O c ∧ p < c.pos ∧ c.pos ≤ L) (fun c => Frame msg L O c ∧ c.pos = p) := by
  intro c ⟨hf, hp⟩
  unfold CurM.readName CurM.lift
  have hs := readName_safe k msg c hf.1
  cases hr : Rsdns.readName k msg c with
  | ok v =>
    obtain ⟨text, c'⟩ := v
    simp only
    obtain ⟨ls, hex, _, _, hl, ho⟩ := C03.read_sound k msg c c' text hr
    have hlt := Expand.lt_next hex
    have hle : c'.pos ≤ c.lim := by
      unfold Rsdns.readName at hr
      split at hr <;> try (simp at hr; done)
      rename_i o hw
      simp only [Res.ok.injEq, Prod.mk.injEq] at hr
      have := walk_maxPos_le _ _ _ _ _ _ _ hw (by simp)
      rw [← hr.2]
      simpa [Cur.setPos] using this
    refine ⟨⟨⟨by rw [hl]; exact hf.1.lim_le, by rw [ho, hl]; exact hf.1.orig_le⟩, by rw [hl]; exact hf.2.1,
      by rw [ho]; exact hf.2.2⟩, by omega, by rw [← hf.2.1]; exact hle⟩
  | err e => simp only; exact ⟨hf, hp⟩
  | panic pk => rw [hr] at hs; simp at hs
  | ub => rw [hr] at hs; simp at hs

theorem CurM.skipName_triple (msg : Bytes) (L : Nat) (O : Option Nat) (p : Nat) :
    CurM.triple (fun c => Frame msg L O c ∧ c.pos = p) (CurM.skipName msg)
      (fun _ c => Frame msg L O c ∧ p < c.pos ∧ c.pos ≤ L) (fun c => Frame msg L O c ∧ c.pos = p) := by
  intro c ⟨hf, hp⟩
  unfold CurM.skipName CurM.lift
  have hs := skipName_safe msg c hf.1
  cases hr : Rsdns.skipName msg c with
  | ok v =>
    obtain ⟨n, c'⟩ := v
    simp only
    obtain ⟨ls, hex, _, _, hl, ho⟩ := C03.skip_sound msg c c' n hr
    have hlt := Expand.lt_next hex
    have hle : c'.pos ≤ c.lim := by
      unfold Rsdns.skipName at hr
      split at hr <;> try (simp at hr; done)
      rename_i o hw
      split at hr
      · simp at hr
      · simp only [Res.ok.injEq, Prod.mk.injEq] at hr
        have := walk_maxPos_le _ _ _ _ _ _ _ hw (by simp)
        rw [← hr.2]
        simpa [Cur.setPos] using this
    refine ⟨⟨⟨by rw [hl]; exact hf.1.lim_le, by rw [ho, hl]; exact hf.1.orig_le⟩, by rw [hl]; exact hf.2.1,
      by rw [ho]; exact hf.2.2⟩, by omega, by rw [← hf.2.1]; exact hle⟩
  | err e => simp only; exact ⟨hf, hp⟩
  | panic pk => rw [hr] at hs; simp at hs
  | ub => rw [hr] at hs; simp at hs

end Rsdns
