/-
  Rsdns.Lemmas.RData — `read_rr_data` for all 17 types: never panics / UB from a well-formed cursor;
  on success it consumed exactly RDLENGTH bytes and closed its window; on error the cursor still
  has a well-formed view over the same message (possibly with the window left open).
-/
import Rsdns.Lemmas.Hoare

set_option linter.unusedVariables false

namespace Rsdns

open Generated Spec

/-- frame-only triple: `f` keeps the frame in every outcome and never panics / UB -/
def FTriple {α : Type} (msg : Bytes) (L : Nat) (O : Option Nat) (f : CurM α) : Prop :=
  CurM.triple (Frame msg L O) f (fun _ c => Frame msg L O c) (Frame msg L O)

namespace FTriple

theorem of_pos {α} {msg L O} {f : CurM α} {Q : Nat → α → Cur → Prop}
    (h : ∀ p, CurM.triple (fun c => Frame msg L O c ∧ c.pos = p) f (fun a c => Frame msg L O c ∧ Q p a c)
      (fun c => Frame msg L O c ∧ c.pos = p)) : FTriple msg L O f := by
  intro c hc
  have := h c.pos c ⟨hc, rfl⟩
  cases hfc : f c with
  | mk r c' =>
    rw [hfc] at this
    cases r with
    | ok a => exact this.1
    | err e => exact this.1
    | panic p => exact this
    | ub => exact this

theorem pure {α} {msg L O} (a : α) : FTriple msg L O (Pure.pure a : CurM α) := by
  intro c hc
  exact hc

theorem bind {α β} {msg L O} {x : CurM α} {f : α → CurM β} (hx : FTriple msg L O x)
    (hf : ∀ a, FTriple msg L O (f a)) : FTriple msg L O (x >>= f) :=
  CurM.triple_bind hx hf

theorem u8 (msg L O) : FTriple msg L O (CurM.u8 msg) :=
  of_pos (Q := fun p _ c => c.pos = p + 1 ∧ p + 1 ≤ L) (fun p => CurM.u8_triple msg L O p)

theorem u16be (msg L O) : FTriple msg L O (CurM.u16be msg) :=
  of_pos (Q := fun p _ c => c.pos = p + 2 ∧ p + 2 ≤ L) (fun p => CurM.rBe_triple msg L O p 2 (by omega))

theorem u32be (msg L O) : FTriple msg L O (CurM.u32be msg) :=
  of_pos (Q := fun p _ c => c.pos = p + 4 ∧ p + 4 ≤ L) (fun p => CurM.rBe_triple msg L O p 4 (by omega))

theorem u128be (msg L O) : FTriple msg L O (CurM.u128be msg) :=
  of_pos (Q := fun p _ c => c.pos = p + 16 ∧ p + 16 ≤ L) (fun p => CurM.rBe_triple msg L O p 16 (by omega))

theorem slice (msg L O) (n : Nat) : FTriple msg L O (CurM.slice msg n) :=
  of_pos (Q := fun p b c => c.pos = p + n ∧ p + n ≤ L ∧ b = msg.extract p (p + n))
    (fun p => CurM.slice_triple msg L O p n)

theorem readName (k : NameKind) (msg L O) : FTriple msg L O (CurM.readName k msg) :=
  of_pos (Q := fun p _ c => p < c.pos ∧ c.pos ≤ L) (fun p => CurM.readName_triple k msg L O p)

theorem skipName (msg L O) : FTriple msg L O (CurM.skipName msg) :=
  of_pos (Q := fun p _ c => p < c.pos ∧ c.pos ≤ L) (fun p => CurM.skipName_triple msg L O p)

theorem skip (msg L O) (n : Nat) : FTriple msg L O (CurM.skip n) := by
  intro c hc
  unfold CurM.skip CurM.lift0
  rcases Cur.skip_spec c n with ⟨h, _⟩ | h
  · simp only [h]; exact hc.pos _
  · simp only [h]; exact hc

end FTriple

theorem readCharString_ftriple (msg L O) : FTriple msg L O (readCharString msg) := by
  unfold readCharString
  exact FTriple.bind (FTriple.u8 msg L O) (fun len => FTriple.slice msg L O len.toNat)

/-- the TXT loop keeps the frame; `rd_len -= len + 1` never underflows because `rd_len` is exactly
    what is left in the window -/
theorem txtLoop_spec (msg : Bytes) (L : Nat) (O : Option Nat) (rdLen : Nat) (text : Bytes) (c : Cur)
    (hf : Frame msg L O c) (hp : c.pos + rdLen = L) :
    match txtLoop msg rdLen text c with
    | (.ok _, c') => Frame msg L O c' ∧ c'.pos = L
    | (.err _, c') => Frame msg L O c'
    | (.panic _, _) => False
    | (.ub, _) => False := by
  fun_induction txtLoop msg rdLen text c with
  | case1 rdLen text c hpos e c1 hu =>
    have := CurM.u8_triple msg L O c.pos c ⟨hf, rfl⟩
    rw [hu] at this
    exact this.1
  | case2 rdLen text c hpos p c1 hu =>
    have := CurM.u8_triple msg L O c.pos c ⟨hf, rfl⟩
    rw [hu] at this
    exact this
  | case3 rdLen text c hpos c1 hu =>
    have := CurM.u8_triple msg L O c.pos c ⟨hf, rfl⟩
    rw [hu] at this
    exact this
  | case4 rdLen text c hpos len c1 hu step e c2 hstep =>
    have h1 := CurM.u8_triple msg L O c.pos c ⟨hf, rfl⟩
    rw [hu] at h1
    simp only [step] at hstep
    split at hstep
    · have h2 := CurM.slice_triple msg L O c1.pos len.toNat c1 ⟨h1.1, rfl⟩
      split at hstep <;> simp only [Prod.mk.injEq] at hstep
      · simp at hstep
      · rename_i hs; rw [hs] at h2; obtain ⟨_, rfl⟩ := hstep; exact h2.1
      · simp at hstep
      · simp at hstep
    · simp at hstep
  | case5 rdLen text c hpos len c1 hu step p c2 hstep =>
    have h1 := CurM.u8_triple msg L O c.pos c ⟨hf, rfl⟩
    rw [hu] at h1
    simp only [step] at hstep
    split at hstep
    · have h2 := CurM.slice_triple msg L O c1.pos len.toNat c1 ⟨h1.1, rfl⟩
      split at hstep <;> simp only [Prod.mk.injEq] at hstep
      · simp at hstep
      · simp at hstep
      · rename_i hs; rw [hs] at h2; exact h2
      · simp at hstep
    · simp at hstep
  | case6 rdLen text c hpos len c1 hu step c2 hstep =>
    have h1 := CurM.u8_triple msg L O c.pos c ⟨hf, rfl⟩
    rw [hu] at h1
    simp only [step] at hstep
    split at hstep
    · have h2 := CurM.slice_triple msg L O c1.pos len.toNat c1 ⟨h1.1, rfl⟩
      split at hstep <;> simp only [Prod.mk.injEq] at hstep
      · simp at hstep
      · simp at hstep
      · simp at hstep
      · rename_i hs; rw [hs] at h2; exact h2
    · simp at hstep
  | case7 rdLen text c hpos len c1 hu step text' c2 hstep hlt =>
    -- the underflow branch is unreachable
    have h1 := CurM.u8_triple msg L O c.pos c ⟨hf, rfl⟩
    rw [hu] at h1
    simp only [step] at hstep
    split at hstep
    · have h2 := CurM.slice_triple msg L O c1.pos len.toNat c1 ⟨h1.1, rfl⟩
      split at hstep <;> simp only [Prod.mk.injEq] at hstep
      · rename_i hs; rw [hs] at h2
        have := h2.2.2.1
        omega
      · simp at hstep
      · simp at hstep
      · simp at hstep
    · omega
  | case8 rdLen text c hpos len c1 hu step text' c2 hstep hlt ih =>
    have h1 := CurM.u8_triple msg L O c.pos c ⟨hf, rfl⟩
    rw [hu] at h1
    simp only [step] at hstep
    split at hstep
    · have h2 := CurM.slice_triple msg L O c1.pos len.toNat c1 ⟨h1.1, rfl⟩
      split at hstep <;> simp only [Prod.mk.injEq] at hstep
      · rename_i hs; rw [hs] at h2
        obtain ⟨_, rfl⟩ := hstep
        exact ih h2.1 (by omega)
      · simp at hstep
      · simp at hstep
      · simp at hstep
    · rename_i hz
      simp only [Prod.mk.injEq] at hstep
      obtain ⟨_, rfl⟩ := hstep
      exact ih h1.1 (by omega)
  | case9 rdLen text c hpos =>
    exact ⟨hf, by omega⟩

/-- the body of `read_rr_data` inside its window `[p, p + rdLen)`: frame kept, no panic / UB -/
theorem readRDataBody_ftriple (t : RType) (msg : Bytes) (p rdLen : Nat) (O : Option Nat) :
    CurM.triple (fun c => Frame msg (p + rdLen) O c ∧ c.pos = p) (readRDataBody t msg rdLen)
      (fun _ c => Frame msg (p + rdLen) O c) (Frame msg (p + rdLen) O) := by
  have weaken : ∀ {α} {f : CurM α}, FTriple msg (p + rdLen) O f →
      CurM.triple (fun c => Frame msg (p + rdLen) O c ∧ c.pos = p) f (fun _ c => Frame msg (p + rdLen) O c)
        (Frame msg (p + rdLen) O) :=
    fun h => CurM.triple_weaken h (fun c hc => hc.1) (fun _ _ h => h) (fun _ h => h)
  have dn : ∀ t', FTriple msg (p + rdLen) O
      (CurM.readName .heap msg >>= fun n => (Pure.pure (RData.dn t' n) : CurM RData)) :=
    fun t' => FTriple.bind (FTriple.readName .heap msg _ _) (fun _ => FTriple.pure _)
  cases t with
  | a => exact weaken (FTriple.bind (FTriple.u32be msg _ _) (fun _ => FTriple.pure _))
  | aaaa => exact weaken (FTriple.bind (FTriple.u128be msg _ _) (fun _ => FTriple.pure _))
  | ns => exact weaken (dn _)
  | md => exact weaken (dn _)
  | mf => exact weaken (dn _)
  | cname => exact weaken (dn _)
  | mb => exact weaken (dn _)
  | mg => exact weaken (dn _)
  | mr => exact weaken (dn _)
  | ptr => exact weaken (dn _)
  | soa =>
    refine weaken ?_
    unfold readRDataBody
    exact FTriple.bind (FTriple.readName .heap msg _ _) (fun _ =>
      FTriple.bind (FTriple.readName .heap msg _ _) (fun _ =>
      FTriple.bind (FTriple.u32be msg _ _) (fun _ =>
      FTriple.bind (FTriple.u32be msg _ _) (fun _ =>
      FTriple.bind (FTriple.u32be msg _ _) (fun _ =>
      FTriple.bind (FTriple.u32be msg _ _) (fun _ =>
      FTriple.bind (FTriple.u32be msg _ _) (fun _ => FTriple.pure _)))))))
  | null => exact weaken (FTriple.bind (FTriple.slice msg _ _ rdLen) (fun _ => FTriple.pure _))
  | hinfo =>
    exact weaken (FTriple.bind (readCharString_ftriple msg _ _) (fun _ =>
      FTriple.bind (readCharString_ftriple msg _ _) (fun _ => FTriple.pure _)))
  | minfo =>
    exact weaken (FTriple.bind (FTriple.readName .heap msg _ _) (fun _ =>
      FTriple.bind (FTriple.readName .heap msg _ _) (fun _ => FTriple.pure _)))
  | mx =>
    exact weaken (FTriple.bind (FTriple.u16be msg _ _) (fun _ =>
      FTriple.bind (FTriple.readName .heap msg _ _) (fun _ => FTriple.pure _)))
  | wks =>
    -- `rd_len - 5` cannot underflow: five bytes were just read inside a window of `rd_len` bytes
    simp only [readRDataBody]
    refine CurM.triple_bind (Q := fun _ c => Frame msg (p + rdLen) O c ∧ c.pos = p + 4 ∧ p + 4 ≤ p + rdLen)
      (CurM.triple_weaken (f := CurM.u32be msg) (CurM.rBe_triple msg (p + rdLen) O p 4 (by omega))
        (fun c hc => hc) (fun _ c hc => hc) (fun c hc => hc.1)) ?_
    intro address
    refine CurM.triple_bind (Q := fun _ c => Frame msg (p + rdLen) O c ∧ p + 5 ≤ p + rdLen)
      (CurM.triple_weaken (CurM.u8_triple msg (p + rdLen) O (p + 4)) (fun c hc => ⟨hc.1, hc.2.1⟩)
        (fun _ c hc => ⟨hc.1, by omega⟩) (fun c hc => hc.1)) ?_
    intro protocol
    intro c hc
    have hge : ¬ (rdLen < 5) := by omega
    simp only [hge, if_false]
    exact (FTriple.bind (FTriple.slice msg _ _ (rdLen - 5)) (fun _ => FTriple.pure _)) c hc.1
  | txt =>
    simp only [readRDataBody]
    refine CurM.triple_bind (Q := fun _ c => Frame msg (p + rdLen) O c) ?_ (fun _ => FTriple.pure _)
    intro c hc
    have := txtLoop_spec msg (p + rdLen) O rdLen #[] c hc.1 (by omega)
    cases hl : txtLoop msg rdLen #[] c with
    | mk r c' =>
      rw [hl] at this
      cases r with
      | ok a => exact this.1
      | err e => exact this
      | panic pk => exact this
      | ub => exact this

/-- **read_rr_data** from a well-formed cursor: a value or an error; on success exactly `rdLen`
    bytes were consumed, the window is closed and the view restored; on error the cursor is still
    well-formed over the same full view. -/
theorem readRData_spec (t : RType) (msg : Bytes) (rdLen : Nat) (c : Cur) (h : Cur.OK msg c) :
    match readRData t msg rdLen c with
    | (.ok _, c') => c.orig = none ∧ c'.pos = c.pos + rdLen ∧ c'.lim = c.lim ∧ c'.orig = none ∧
        c.pos + rdLen ≤ c.lim
    | (.err _, c') => Cur.OK msg c' ∧ c'.full = c.full
    | (.panic _, _) => False
    | (.ub, _) => False := by
  unfold readRData
  show match CurM.bind (CurM.window msg rdLen) (fun _ =>
      CurM.bind (readRDataBody t msg rdLen) (fun rr => CurM.bind CurM.closeWindow (fun _ => CurM.pure rr))) c with
    | (.ok _, c') => _ | (.err _, c') => _ | (.panic _, _) => False | (.ub, _) => False
  unfold CurM.bind CurM.window CurM.lift0
  rcases Cur.window_spec h rdLen with ⟨hw, ho, hle⟩ | ⟨e, hw⟩
  · simp only [hw]
    have hfr : Frame msg (c.pos + rdLen) (some c.lim) { lim := c.pos + rdLen, pos := c.pos, orig := some c.lim } :=
      ⟨⟨by have := h.lim_le; simp only; omega, by
        intro o ho'; simp only [Option.some.injEq] at ho'; subst ho'; exact ⟨hle, h.lim_le⟩⟩, rfl, rfl⟩
    have hb := readRDataBody_ftriple t msg c.pos rdLen (some c.lim) _ ⟨hfr, rfl⟩
    cases hbody : readRDataBody t msg rdLen { lim := c.pos + rdLen, pos := c.pos, orig := some c.lim } with
    | mk r c1 =>
      rw [hbody] at hb
      cases r with
      | ok rr =>
        simp only at hb
        simp only
        unfold CurM.closeWindow CurM.lift0
        rcases Cur.closeWindow_spec c1 with ⟨o, ho1, hp1, hcw⟩ | ⟨e, hcw⟩
        · simp only [hcw, CurM.pure]
          have : o = c.lim := by
            have := hb.2.2; rw [ho1] at this; simpa using this
          exact ⟨ho, by rw [hp1, hb.2.1], this, trivial, hle⟩
        · simp only [hcw]
          refine ⟨hb.1, ?_⟩
          simp only [Cur.full, hb.2.2, ho, Option.getD_some, Option.getD_none]
      | err e =>
        simp only at hb
        simp only
        refine ⟨hb.1, ?_⟩
        simp only [Cur.full, hb.2.2, ho, Option.getD_some, Option.getD_none]
      | panic pk => exact hb
      | ub => exact hb
  · simp only [hw]
    refine ⟨h, ?_⟩
    first | rfl | trivial

end Rsdns
