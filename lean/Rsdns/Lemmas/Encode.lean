/-
  Rsdns.Lemmas.Encode — what the wire encoder writes, byte for byte, and how text names split into
  labels: the splitting loop as a fold over `labelsOf`, join/split lemmas, the `written` prefix of a
  `WCursor`, inversion lemmas for every write primitive up to `QueryWriter::write`, and the layout
  lemma `nameAt_of_wire` (what was written is a conforming name layout).  Helpers of C05 and C11.
-/
import Rsdns.Lemmas.Writer
import Rsdns.Lemmas.Bits
import Rsdns.Props.C03

set_option linter.unusedVariables false

namespace Rsdns.C11

open Rsdns Generated Spec

/-- the prefix up to `pos`: everything written so far -/
def WCur.written (w : WCur) : Bytes := w.buf.extract 0 w.pos

theorem put_written (w : WCur) (bs : Bytes) (h : w.pos + bs.size ≤ w.buf.size) :
    ∃ w', w.put bs = .ok w' ∧ WCur.written w' = WCur.written w ++ bs ∧ w'.pos = w.pos + bs.size ∧
      w'.buf.size = w.buf.size := by
  unfold WCur.put
  simp only [h, if_true]
  refine ⟨_, rfl, ?_, rfl, ?_⟩
  · unfold WCur.written
    simp only
    apply Array.ext'
    simp only [Array.toList_extract, Array.toList_append, List.extract_eq_take_drop, Nat.sub_zero, List.drop_zero]
    have hl : (List.take w.pos w.buf.toList ++ bs.toList).length = w.pos + bs.size := by
      simp only [List.length_append, List.length_take, Array.length_toList]; omega
    rw [List.take_append_of_le_length (by rw [hl]; exact Nat.le_refl _), ← hl, List.take_length]
  · simp only [Array.size_append, Array.size_extract]; omega

/-! ### the splitting loop is a fold over the dot-separated segments -/

/-- segments the loop hands to its action while scanning `j..`, current segment start `i`; and the
    start of the segment that is still open when the scan ends -/
def loopSegs (name : Bytes) : (fuel j i : Nat) → List Bytes × Nat
  | 0, _, i => ([], i)
  | fuel + 1, j, i =>
    if j < name.size then
      if name.getD j 0 == DOT then
        ((name.extract i j) :: (loopSegs name fuel (j + 1) (j + 1)).1, (loopSegs name fuel (j + 1) (j + 1)).2)
      else loopSegs name fuel (j + 1) i
    else ([], i)

/-- run the per-label action over a list of labels, stopping at the first non-`ok` outcome -/
def foldAct {σ : Type} (act : σ → Bytes → Res σ) : σ → List Bytes → Res σ
  | st, [] => .ok st
  | st, l :: ls =>
    match act st l with
    | .ok st' => foldAct act st' ls
    | .err e => .err e
    | .panic p => .panic p
    | .ub => .ub

theorem loopSegs_nil (name : Bytes) : ∀ (fuel j i : Nat), (loopSegs name fuel j i).1 = [] → (loopSegs name fuel j i).2 = i := by
  intro fuel
  induction fuel with
  | zero => intro j i _; rfl
  | succ fuel ih =>
    intro j i h
    unfold loopSegs at h ⊢
    by_cases hj : j < name.size
    · simp only [hj, if_true] at h ⊢
      by_cases hdot : (name.getD j 0 == DOT) = true
      · simp only [hdot, if_true] at h
        exact absurd h (List.cons_ne_nil _ _)
      · simp only [hdot, Bool.false_eq_true, if_false] at h ⊢
        exact ih _ _ h
    · simp [hj]

theorem splitLoop_fold {σ : Type} (name : Bytes) (act : σ → Bytes → Res σ) :
    ∀ (fuel j i : Nat) (ds : Option Nat) (st : σ), i ≤ j →
      splitLoop name act fuel j i ds st =
        (match foldAct act st (loopSegs name fuel j i).1 with
         | .ok st' => .ok (st', if (loopSegs name fuel j i).1 = [] then ds else some (loopSegs name fuel j i).2)
         | .err e => .err e
         | .panic p => .panic p
         | .ub => .ub) := by
  intro fuel
  induction fuel with
  | zero => intro j i ds st _; simp [splitLoop, loopSegs, foldAct]
  | succ fuel ih =>
    intro j i ds st hij
    unfold splitLoop loopSegs
    by_cases hj : j < name.size
    · simp only [hj, if_true]
      by_cases hdot : (name.getD j 0 == DOT) = true
      · simp only [hdot, if_true, hij, foldAct]
        cases hact : act st (name.extract i j) with
        | ok st1 =>
          simp only
          rw [ih (j + 1) (j + 1) (some (j + 1)) st1 (Nat.le_refl _)]
          cases hf : foldAct act st1 (loopSegs name fuel (j + 1) (j + 1)).1 with
          | ok st2 =>
            simp only [List.cons_ne_nil, if_false]
            by_cases he : (loopSegs name fuel (j + 1) (j + 1)).1 = []
            · simp only [he, if_true]
              rw [loopSegs_nil name fuel (j + 1) (j + 1) he]
            · simp only [he, if_false]
          | err e => rfl
          | panic p => rfl
          | ub => rfl
        | err e => rfl
        | panic p => rfl
        | ub => rfl
      · simp only [hdot, Bool.false_eq_true, if_false]
        exact ih (j + 1) i ds st (by omega)
    · simp [hj, foldAct]

theorem loopSegs_le (name : Bytes) : ∀ (fuel j i : Nat), i ≤ name.size → (loopSegs name fuel j i).2 ≤ name.size := by
  intro fuel
  induction fuel with
  | zero => intro j i h; exact h
  | succ fuel ih =>
    intro j i h
    unfold loopSegs
    by_cases hj : j < name.size
    · simp only [hj, if_true]
      by_cases hdot : (name.getD j 0 == DOT) = true
      · simp only [hdot, if_true]; exact ih _ _ (by omega)
      · simp only [hdot, Bool.false_eq_true, if_false]; exact ih _ _ h
    · simp only [hj, if_false]; exact h

/-- the labels of a text name: the segments between dots; a trailing dot does not open another label -/
def labelsOf (name : Bytes) : List Bytes :=
  if (loopSegs name name.size 0 0).2 < name.size then
    (loopSegs name name.size 0 0).1 ++ [name.extract (loopSegs name name.size 0 0).2 name.size]
  else (loopSegs name name.size 0 0).1

theorem foldAct_append {σ : Type} (act : σ → Bytes → Res σ) (st : σ) (a : List Bytes) (x : Bytes) :
    foldAct act st (a ++ [x]) =
      (match foldAct act st a with
       | .ok s => act s x
       | .err e => .err e
       | .panic p => .panic p
       | .ub => .ub) := by
  induction a generalizing st with
  | nil => simp only [List.nil_append, foldAct]; cases act st x <;> rfl
  | cons l ls ih =>
    simp only [List.cons_append, foldAct]
    cases act st l with
    | ok s1 => exact ih s1
    | err e => rfl
    | panic p => rfl
    | ub => rfl

/-- **the splitting loop + its tail = a fold of the action over the labels of the text** -/
theorem splitLabels_fold {σ : Type} (name : Bytes) (act : σ → Bytes → Res σ) (st : σ) (hne : name.size ≠ 0) :
    splitLabels name act st = foldAct act st (labelsOf name) := by
  unfold splitLabels labelsOf
  rw [splitLoop_fold name act name.size 0 0 none st (Nat.le_refl _)]
  have hle := loopSegs_le name name.size 0 0 (Nat.zero_le _)
  cases hf : foldAct act st (loopSegs name name.size 0 0).1 with
  | ok st1 =>
    simp only
    by_cases hnil : (loopSegs name name.size 0 0).1 = []
    · have hz := loopSegs_nil name name.size 0 0 hnil
      have hlt : (loopSegs name name.size 0 0).2 < name.size := by rw [hz]; omega
      simp only [hnil, if_true, List.nil_append, hz]
      rw [hnil] at hf
      simp only [foldAct, Res.ok.injEq] at hf
      subst hf
      have hpos : 0 < name.size := by omega
      have hex : name.extract 0 name.size = name := by simp
      simp only [hpos, if_true, hex, foldAct]
      cases act st name <;> rfl
    · simp only [hnil, if_false]
      have hnot : ¬ (name.size < (loopSegs name name.size 0 0).2) := by omega
      simp only [hnot, if_false]
      by_cases hlt : (loopSegs name name.size 0 0).2 < name.size
      · have : name.size - (loopSegs name name.size 0 0).2 > 0 := by omega
        simp only [this, if_true, hlt, foldAct_append, hf]
      · have : ¬ (name.size - (loopSegs name name.size 0 0).2 > 0) := by omega
        simp only [this, if_false, hlt, hf]
  | err e =>
    by_cases hlt : (loopSegs name name.size 0 0).2 < name.size
    · simp only [hlt, if_true, foldAct_append, hf]
    · simp only [hlt, if_false, hf]
  | panic p =>
    by_cases hlt : (loopSegs name name.size 0 0).2 < name.size
    · simp only [hlt, if_true, foldAct_append, hf]
    · simp only [hlt, if_false, hf]
  | ub =>
    by_cases hlt : (loopSegs name name.size 0 0).2 < name.size
    · simp only [hlt, if_true, foldAct_append, hf]
    · simp only [hlt, if_false, hf]

/-! ### what the segments are -/

theorem extract_append_extract (a : Bytes) (i j k : Nat) (hij : i ≤ j) (hjk : j ≤ k) (hk : k ≤ a.size) :
    a.extract i j ++ a.extract j k = a.extract i k := by
  apply Array.ext'
  simp only [Array.toList_append, Array.toList_extract, List.extract_eq_take_drop]
  have : k - i = (j - i) + (k - j) := by omega
  rw [this, List.take_add]
  congr 1
  rw [List.drop_drop]
  congr 2
  omega

theorem extract_succ (a : Bytes) (j : Nat) (hj : j < a.size) : a.extract j (j + 1) = #[a.getD j 0] := by
  apply Array.ext'
  simp only [Array.toList_extract, List.extract_eq_take_drop, Nat.add_sub_cancel_left]
  have hg : a.getD j 0 = a[j] := by simp [Array.getD, hj]
  rw [hg]
  have hl : j < a.toList.length := by simpa using hj
  rw [List.drop_eq_getElem_cons hl]
  simp

/-- the segments found while scanning from `j` with the open segment starting at `i` (no dot in
    `[i, j)`): joined with dots they are `name[i .. fi)`, the open segment starts at `fi`, none of them
    contains a dot, and there is no dot at or behind `fi` -/
theorem loopSegs_spec (name : Bytes) : ∀ (fuel j i : Nat), i ≤ j → j ≤ name.size → name.size - j ≤ fuel →
    (∀ k, i ≤ k → k < j → name.getD k 0 ≠ DOT) →
    textOf (loopSegs name fuel j i).1 = name.extract i (loopSegs name fuel j i).2 ∧
    i ≤ (loopSegs name fuel j i).2 ∧ (loopSegs name fuel j i).2 ≤ name.size ∧
    (∀ l ∈ (loopSegs name fuel j i).1, ∀ b ∈ l.toList, b ≠ DOT) ∧
    (∀ k, (loopSegs name fuel j i).2 ≤ k → k < name.size → name.getD k 0 ≠ DOT) ∧
    ((loopSegs name fuel j i).1 ≠ [] → 0 < (loopSegs name fuel j i).2 ∧
      name.getD ((loopSegs name fuel j i).2 - 1) 0 = DOT) := by
  intro fuel
  induction fuel with
  | zero =>
    intro j i hij hj hf hnd
    have : j = name.size := by omega
    subst this
    simp only [loopSegs, textOf]
    refine ⟨by simp; omega, Nat.le_refl _, by omega, by simp, ?_, by simp⟩
    intro k hk hk2; exact hnd k hk hk2
  | succ fuel ih =>
    intro j i hij hj hf hnd
    unfold loopSegs
    by_cases hlt : j < name.size
    · simp only [hlt, if_true]
      by_cases hdot : (name.getD j 0 == DOT) = true
      · simp only [hdot, if_true]
        obtain ⟨h1, h2, h3, h4, h5, h6⟩ := ih (j + 1) (j + 1) (Nat.le_refl _) (by omega) (by omega)
          (by intro k hk hk2; omega)
        have hd : name.getD j 0 = DOT := by simpa using hdot
        refine ⟨?_, by omega, h3, ?_, h5, ?_⟩
        · simp only [textOf, h1]
          have e1 : (name.extract i j).push 46 = name.extract i (j + 1) := by
            have := extract_succ name j hlt
            rw [hd] at this
            have h46 : DOT = 46 := rfl
            rw [h46] at this
            rw [Array.push_eq_append, ← this]
            exact extract_append_extract name i j (j + 1) hij (by omega) (by omega)
          rw [e1]
          exact extract_append_extract name i (j + 1) _ (by omega) h2 h3
        · intro l hl b hb
          rcases List.mem_cons.mp hl with rfl | hl'
          · -- a byte of name[i..j)
            rw [Array.toList_extract, List.extract_eq_take_drop] at hb
            obtain ⟨n, hn, hget⟩ := List.getElem_of_mem hb
            simp only [List.length_take, List.length_drop, Array.length_toList] at hn
            simp only [List.getElem_take, List.getElem_drop] at hget
            have := hnd (i + n) (by omega) (by omega)
            have hlt2 : i + n < name.size := by omega
            simp only [Array.getD, hlt2, dite_true] at this
            rw [← hget]
            simpa using this
          · exact h4 l hl' b hb
        · intro _
          by_cases hnil : (loopSegs name fuel (j + 1) (j + 1)).1 = []
          · rw [loopSegs_nil name fuel (j + 1) (j + 1) hnil]
            exact ⟨by omega, by simpa using hd⟩
          · exact h6 hnil
      · simp only [hdot, Bool.false_eq_true, if_false]
        have hd : name.getD j 0 ≠ DOT := by simpa using hdot
        exact ih (j + 1) i (by omega) (by omega) (by omega) (by
          intro k hk hk2
          by_cases hkj : k = j
          · subst hkj; exact hd
          · exact hnd k hk (by omega))
    · have : j = name.size := by omega
      subst this
      simp only [hlt, if_false, textOf]
      refine ⟨by simp; omega, Nat.le_refl _, hij, by simp, ?_, by simp⟩
      intro k hk hk2; exact hnd k hk hk2

theorem textOf_append (a : List Bytes) (x : Bytes) : textOf (a ++ [x]) = textOf a ++ x.push 46 := by
  induction a with
  | nil => simp [textOf]
  | cons l ls ih => simp only [List.cons_append, textOf, ih, Array.append_assoc]

/-- the canonical spelling of a text name: with the root dot -/
def canon (name : Bytes) : Bytes := if name.getD (name.size - 1) 0 != DOT then name.push DOT else name

/-- **labels of a text.** Joined with dots, the labels of a non-empty text spell its canonical form; no
    label contains a dot. -/
theorem labelsOf_spec (name : Bytes) (hne : name.size ≠ 0) :
    textOf (labelsOf name) = canon name ∧ ∀ l ∈ labelsOf name, ∀ b ∈ l.toList, b ≠ DOT := by
  obtain ⟨h1, h2, h3, h4, h5, h6⟩ := loopSegs_spec name name.size 0 0 (Nat.le_refl _) (Nat.zero_le _) (by omega)
    (by intro k _ hk; omega)
  unfold labelsOf canon
  by_cases hlt : (loopSegs name name.size 0 0).2 < name.size
  · simp only [hlt, if_true]
    have hlast : name.getD (name.size - 1) 0 ≠ DOT := h5 (name.size - 1) (by omega) (by omega)
    have hb : (name.getD (name.size - 1) 0 != DOT) = true := by simpa using hlast
    refine ⟨?_, ?_⟩
    · rw [textOf_append, h1, hb, if_pos rfl, Array.push_eq_append, Array.push_eq_append, ← Array.append_assoc,
        extract_append_extract name 0 _ name.size (Nat.zero_le _) (by omega) (Nat.le_refl _)]
      simp [DOT]
    · intro l hl b hb'
      rcases List.mem_append.mp hl with hl' | hl'
      · exact h4 l hl' b hb'
      · simp only [List.mem_singleton] at hl'
        subst hl'
        rw [Array.toList_extract, List.extract_eq_take_drop] at hb'
        obtain ⟨n, hn, hget⟩ := List.getElem_of_mem hb'
        simp only [List.length_take, List.length_drop, Array.length_toList] at hn
        simp only [List.getElem_take, List.getElem_drop] at hget
        have hk := h5 ((loopSegs name name.size 0 0).2 + n) (by omega) (by omega)
        have hlt2 : (loopSegs name name.size 0 0).2 + n < name.size := by omega
        simp only [Array.getD, hlt2, dite_true] at hk
        rw [← hget]
        simpa using hk
  · simp only [hlt, if_false]
    have hfi : (loopSegs name name.size 0 0).2 = name.size := by omega
    have hnn : (loopSegs name name.size 0 0).1 ≠ [] := by
      intro hnil
      have := loopSegs_nil name name.size 0 0 hnil
      omega
    obtain ⟨_, hd⟩ := h6 hnn
    rw [hfi] at hd
    have hb : (name.getD (name.size - 1) 0 != DOT) = false := by simp [hd]
    refine ⟨?_, h4⟩
    rw [h1, hfi, hb]
    simp

/-! ### what the encoder writes -/

def wireLabel (l : Bytes) : Bytes := #[UInt8.ofNat (l.size % 256)] ++ l

def wireLabels : List Bytes → Bytes
  | [] => #[]
  | l :: ls => wireLabel l ++ wireLabels ls

theorem put_inv (w w' : WCur) (bs : Bytes) (h : w.put bs = .ok w') :
    WCur.written w' = WCur.written w ++ bs ∧ w'.pos = w.pos + bs.size ∧ w'.buf.size = w.buf.size := by
  by_cases hfit : w.pos + bs.size ≤ w.buf.size
  · obtain ⟨w2, h2, a, b, c⟩ := put_written w bs hfit
    rw [h] at h2
    simp only [Res.ok.injEq] at h2
    subst h2
    exact ⟨a, b, c⟩
  · simp [WCur.put, hfit] at h

theorem u8_inv (w w' : WCur) (v : Nat) (h : w.u8 v = .ok w') :
    WCur.written w' = WCur.written w ++ #[UInt8.ofNat (v % 256)] ∧ w'.pos = w.pos + 1 ∧ w'.buf.size = w.buf.size := by
  unfold WCur.u8 at h
  split at h
  · have := put_inv w w' _ h
    simpa using this
  · simp at h

theorem wBe_inv (w w' : WCur) (v n : Nat) (h : w.wBe v n = .ok w') :
    WCur.written w' = WCur.written w ++ WCur.be v n ∧ w'.pos = w.pos + n ∧ w'.buf.size = w.buf.size := by
  unfold WCur.wBe at h
  split at h
  · have := put_inv w w' _ h
    rw [be_size] at this
    exact this
  · simp at h

theorem writeLabel_inv (w w' : WCur) (l : Bytes) (h : w.writeLabel l = .ok w') :
    checkLabel l = .ok () ∧ WCur.written w' = WCur.written w ++ wireLabel l ∧ w'.pos = w.pos + 1 + l.size ∧
      w'.buf.size = w.buf.size := by
  unfold WCur.writeLabel at h
  cases hck : checkLabel l with
  | ok u =>
    simp only [hck] at h
    split at h
    · cases h1 : w.put #[UInt8.ofNat (l.size % 256)] with
      | ok w1 =>
        simp only [h1] at h
        obtain ⟨a1, b1, c1⟩ := put_inv w w1 _ h1
        obtain ⟨a2, b2, c2⟩ := put_inv w1 w' _ h
        refine ⟨rfl, ?_, ?_, ?_⟩
        · rw [a2, a1, wireLabel, Array.append_assoc]
        · rw [b2, b1]; simp
        · rw [c2, c1]
      | err e => simp [h1] at h
      | panic p => simp [h1] at h
      | ub => simp [h1] at h
    · simp at h
  | err e => simp [hck] at h
  | panic p => simp [hck] at h
  | ub => simp [hck] at h

theorem foldWrite_inv : ∀ (ls : List Bytes) (w w' : WCur),
    foldAct (fun (st : WCur) l => st.writeLabel l) w ls = .ok w' →
    (∀ l ∈ ls, checkLabel l = .ok ()) ∧ WCur.written w' = WCur.written w ++ wireLabels ls ∧
      w'.buf.size = w.buf.size ∧ w'.pos = w.pos + (wireLabels ls).size := by
  intro ls
  induction ls with
  | nil =>
    intro w w' h
    simp only [foldAct, Res.ok.injEq] at h
    subst h
    simp [wireLabels]
  | cons l ls ih =>
    intro w w' h
    simp only [foldAct] at h
    cases h1 : w.writeLabel l with
    | ok w1 =>
      simp only [h1] at h
      obtain ⟨c, a, p, sz⟩ := writeLabel_inv w w1 l h1
      obtain ⟨cs, as, szs, ps⟩ := ih w1 w' h
      refine ⟨?_, ?_, by rw [szs, sz], ?_⟩
      · intro x hx
        rcases List.mem_cons.mp hx with rfl | hx'
        · exact c
        · exact cs x hx'
      · rw [as, a, wireLabels, Array.append_assoc]
      · rw [ps, p, wireLabels]
        simp [wireLabel]; omega
    | err e => simp [h1] at h
    | panic p => simp [h1] at h
    | ub => simp [h1] at h

/-- **what `write_domain_name` writes**: for a non-root name, the wire form of the labels of the text —
    every label length-prefixed — and the terminating zero; every label passed `check_label_bytes` and
    the whole is at most 255 octets -/
theorem writeDomainName_inv (w w' : WCur) (name : Bytes) (n : Nat) (h : w.writeDomainName name = .ok (w', n)) :
    name.size ≠ 0 ∧
    ((name = #[DOT] ∧ WCur.written w' = WCur.written w ++ #[0] ∧ n = 1) ∨
     (name ≠ #[DOT] ∧ (∀ l ∈ labelsOf name, checkLabel l = .ok ()) ∧
       WCur.written w' = WCur.written w ++ (wireLabels (labelsOf name) ++ #[0]) ∧
       n = (wireLabels (labelsOf name)).size + 1 ∧ n ≤ DOMAIN_NAME_MAX_LENGTH)) ∧
    w'.pos = w.pos + n ∧ w'.buf.size = w.buf.size := by
  unfold WCur.writeDomainName at h
  by_cases h0 : name.size = 0
  · simp [h0] at h
  · simp only [h0, if_false] at h
    refine ⟨h0, ?_⟩
    by_cases hr : (name == #[DOT]) = true
    · simp only [hr, if_true] at h
      cases h1 : w.u8 0 with
      | ok w1 =>
        simp only [h1, Res.ok.injEq, Prod.mk.injEq] at h
        obtain ⟨rfl, rfl⟩ := h
        obtain ⟨a, p, sz⟩ := u8_inv w w1 0 h1
        exact ⟨Or.inl ⟨by simpa using hr, by simpa using a, rfl⟩, p, sz⟩
      | err e => simp [h1] at h
      | panic p => simp [h1] at h
      | ub => simp [h1] at h
    · simp only [hr, Bool.false_eq_true, if_false] at h
      rw [splitLabels_fold name _ w h0] at h
      cases hf : foldAct (fun (st : WCur) l => st.writeLabel l) w (labelsOf name) with
      | ok w1 =>
        simp only [hf] at h
        obtain ⟨cs, as, szs, ps⟩ := foldWrite_inv _ w w1 hf
        cases h1 : w1.u8 0 with
        | ok w2 =>
          simp only [h1] at h
          obtain ⟨a, p, sz⟩ := u8_inv w1 w2 0 h1
          have hnlt : ¬ (w2.pos < w.pos) := by omega
          simp only [hnlt, if_false] at h
          split at h
          · simp at h
          · rename_i hlen
            simp only [Res.ok.injEq, Prod.mk.injEq] at h
            obtain ⟨rfl, rfl⟩ := h
            have hn : w2.pos - w.pos = (wireLabels (labelsOf name)).size + 1 := by omega
            refine ⟨Or.inr ⟨by simpa using hr, cs, ?_, hn, by omega⟩, by omega, by rw [sz, szs]⟩
            rw [a, as, Array.append_assoc]
            simp
        | err e => simp [h1] at h
        | panic p => simp [h1] at h
        | ub => simp [h1] at h
      | err e => simp [hf] at h
      | panic p => simp [hf] at h
      | ub => simp [hf] at h

/-! ### what was written decodes -/

theorem getElem?_mid (A B : Bytes) (x : UInt8) : (A ++ #[x] ++ B)[A.size]? = some x := by
  rw [Array.append_assoc, Array.getElem?_append_right (Nat.le_refl _)]
  simp only [Nat.sub_self]
  rw [Array.getElem?_append_left (by simp)]
  simp

theorem extract_mid (A l B : Bytes) : (A ++ l ++ B).extract A.size (A.size + l.size) = l := by
  apply Array.ext'
  simp only [Array.toList_extract, Array.toList_append, List.extract_eq_take_drop, Nat.add_sub_cancel_left]
  rw [List.append_assoc, List.drop_left' (by simp), List.take_left' (by simp)]

/-- in-place labels followed by the zero octet, anywhere inside a message, are a conforming layout of
    those labels (no pointers) -/
theorem nameAt_of_wire (ls : List Bytes) : ∀ (A B : Bytes) (lim s : Nat),
    (∀ l ∈ ls, 0 < l.size ∧ l.size < 64) →
    A.size + (wireLabels ls).size + 1 ≤ lim → lim ≤ (A ++ (wireLabels ls ++ #[0]) ++ B).size →
    NameAt (A ++ (wireLabels ls ++ #[0]) ++ B) lim s A.size ls (A.size + (wireLabels ls).size + 1) 0 := by
  induction ls with
  | nil =>
    intro A B lim s _ h1 h2
    simp only [wireLabels, Array.empty_append, Array.size_empty, Nat.add_zero] at h1 h2 ⊢
    exact NameAt.zero s A.size (getElem?_mid A B 0) (by omega)
  | cons l ls ih =>
    intro A B lim s hv h1 h2
    obtain ⟨hp, hlt⟩ := hv l (by simp)
    have hsz : (wireLabels (l :: ls)).size = 1 + l.size + (wireLabels ls).size := by
      simp [wireLabels, wireLabel]; omega
    -- regroup: the message is (A ++ #[len] ++ l) ++ (rest ++ #[0]) ++ B
    have hre : A ++ (wireLabels (l :: ls) ++ #[0]) ++ B =
        (A ++ #[UInt8.ofNat (l.size % 256)] ++ l) ++ (wireLabels ls ++ #[0]) ++ B := by
      simp only [wireLabels, wireLabel, Array.append_assoc]
    have hA' : (A ++ #[UInt8.ofNat (l.size % 256)] ++ l).size = A.size + 1 + l.size := by simp
    have hrec := ih (A ++ #[UInt8.ofNat (l.size % 256)] ++ l) B lim s
      (fun x hx => hv x (by simp [hx])) (by rw [hA']; rw [hsz] at h1; omega) (by rw [← hre]; exact h2)
    rw [hA'] at hrec
    rw [hre]
    have hlen : (UInt8.ofNat (l.size % 256)).toNat = l.size := by
      simp only [UInt8.toNat_ofNat']
      omega
    have hb : ((A ++ #[UInt8.ofNat (l.size % 256)] ++ l) ++ (wireLabels ls ++ #[0]) ++ B)[A.size]? =
        some (UInt8.ofNat (l.size % 256)) := by
      have : (A ++ #[UInt8.ofNat (l.size % 256)] ++ l) ++ (wireLabels ls ++ #[0]) ++ B =
          A ++ #[UInt8.ofNat (l.size % 256)] ++ (l ++ ((wireLabels ls ++ #[0]) ++ B)) := by
        simp only [Array.append_assoc]
      rw [this]
      exact getElem?_mid A _ _
    have hex : l = ((A ++ #[UInt8.ofNat (l.size % 256)] ++ l) ++ (wireLabels ls ++ #[0]) ++ B).extract (A.size + 1)
        (A.size + 1 + l.size) := by
      have : (A ++ #[UInt8.ofNat (l.size % 256)] ++ l) ++ (wireLabels ls ++ #[0]) ++ B =
          (A ++ #[UInt8.ofNat (l.size % 256)]) ++ l ++ ((wireLabels ls ++ #[0]) ++ B) := by
        simp only [Array.append_assoc]
      rw [this]
      have hs1 : (A ++ #[UInt8.ofNat (l.size % 256)]).size = A.size + 1 := by simp
      rw [← hs1]
      exact (extract_mid _ l _).symm
    have hfin : A.size + (wireLabels (l :: ls)).size + 1 = A.size + 1 + l.size + (wireLabels ls).size + 1 := by
      rw [hsz]; omega
    rw [hfin]
    refine NameAt.label s A.size (UInt8.ofNat (l.size % 256)) l ls _ 0 hb (by rw [hlen]; exact hp)
      (by rw [hlen]; exact hlt) ?_ (by rw [← hre]; exact h2) ?_ ?_
    · rw [hlen]; rw [hsz] at h1; omega
    · rw [hlen]; exact hex
    · rw [hlen]; exact hrec

theorem wireLabels_size (ls : List Bytes) : (wireLabels ls).size = (textOf ls).size := by
  induction ls with
  | nil => simp [wireLabels, textOf]
  | cons l ls ih => simp [wireLabels, wireLabel, textOf, ih]; omega

theorem checkLabel_size (l : Bytes) (h : checkLabel l = .ok ()) : 0 < l.size ∧ l.size < 64 := by
  unfold checkLabel at h
  split at h
  · simp at h
  · rename_i hne
    split at h
    · simp at h
    · rename_i hgt
      have : DOMAIN_NAME_LABEL_MAX_LENGTH = 63 := rfl
      omega

theorem labelsOf_ne_nil (name : Bytes) (hne : name.size ≠ 0) : labelsOf name ≠ [] := by
  unfold labelsOf
  by_cases hlt : (loopSegs name name.size 0 0).2 < name.size
  · simp [hlt]
  · simp only [hlt, if_false]
    intro hnil
    have := loopSegs_nil name name.size 0 0 hnil
    omega

theorem nameText_of_ne_nil (ls : List Bytes) (h : ls ≠ []) : nameText ls = textOf ls := by
  cases ls with
  | nil => exact absurd rfl h
  | cons l ls => simp [nameText]

/-! ### text → labels → text is the identity on dot-free labels -/

theorem split_plain (x y t u : List UInt8) (hx : ∀ b ∈ x, b ≠ 46) (hy : ∀ b ∈ y, b ≠ 46)
    (h : x ++ 46 :: t = y ++ 46 :: u) : x = y ∧ t = u := by
  induction x generalizing y with
  | nil =>
    cases y with
    | nil => simpa using h
    | cons d y' =>
      simp only [List.nil_append, List.cons_append, List.cons.injEq] at h
      exact absurd h.1.symm (hy d (by simp))
  | cons c x' ih =>
    cases y with
    | nil =>
      simp only [List.nil_append, List.cons_append, List.cons.injEq] at h
      exact absurd h.1 (hx c (by simp))
    | cons d y' =>
      simp only [List.cons_append, List.cons.injEq] at h
      obtain ⟨e1, e2⟩ := ih y' (fun b hb => hx b (by simp [hb])) (fun b hb => hy b (by simp [hb])) h.2
      exact ⟨by rw [h.1, e1], e2⟩

theorem textOf_toList' (l : Bytes) (ls : List Bytes) :
    (textOf (l :: ls)).toList = l.toList ++ 46 :: (textOf ls).toList := by
  simp [textOf]

/-- joining with dots is injective on dot-free labels -/
theorem textOf_inj : ∀ (a b : List Bytes), (∀ l ∈ a, ∀ x ∈ l.toList, x ≠ DOT) → (∀ l ∈ b, ∀ x ∈ l.toList, x ≠ DOT) →
    textOf a = textOf b → a = b := by
  intro a
  induction a with
  | nil =>
    intro b _ _ h
    cases b with
    | nil => rfl
    | cons y ys =>
      have := congrArg Array.size h
      simp [textOf] at this
      omega
  | cons x xs ih =>
    intro b ha hb h
    cases b with
    | nil =>
      have := congrArg Array.size h
      simp [textOf] at this
    | cons y ys =>
      have hl := congrArg Array.toList h
      rw [textOf_toList', textOf_toList'] at hl
      obtain ⟨e1, e2⟩ := split_plain _ _ _ _ (ha x (by simp)) (hb y (by simp)) hl
      have exy : x = y := Array.ext' e1
      have := ih ys (fun l hl' => ha l (by simp [hl'])) (fun l hl' => hb l (by simp [hl'])) (Array.ext' e2)
      rw [exy, this]

theorem canon_of_dot (t : Bytes) (h : t.getD (t.size - 1) 0 = DOT) : canon t = t := by
  simp [canon, h]

theorem getD_push_last (a : Bytes) (x : UInt8) : (a.push x).getD ((a.push x).size - 1) 0 = x := by
  simp [Array.getD]

theorem textOf_last (ls : List Bytes) (h : ls ≠ []) : (textOf ls).getD ((textOf ls).size - 1) 0 = DOT := by
  rcases List.eq_nil_or_concat ls with hn | ⟨init, last, rfl⟩
  · exact absurd hn h
  · rw [List.concat_eq_append, textOf_append]
    have : textOf init ++ last.push 46 = (textOf init ++ last).push 46 := by
      rw [Array.push_eq_append, Array.push_eq_append, Array.append_assoc]
    rw [this]
    exact getD_push_last _ _

theorem foldCheck_ok (ls : List Bytes) (h : ∀ l ∈ ls, checkLabel l = .ok ()) :
    foldAct (fun (_ : Unit) l => checkLabel l) () ls = .ok () := by
  induction ls with
  | nil => rfl
  | cons l ls ih =>
    simp only [foldAct, h l (by simp)]
    exact ih (fun x hx => h x (by simp [hx]))

theorem foldCheck_inv (ls : List Bytes) (h : foldAct (fun (_ : Unit) l => checkLabel l) () ls = .ok ()) :
    ∀ l ∈ ls, checkLabel l = .ok () := by
  induction ls with
  | nil => intro l hl; cases hl
  | cons x xs ih =>
    simp only [foldAct] at h
    cases hx : checkLabel x with
    | ok u =>
      simp only [hx] at h
      intro l hl
      rcases List.mem_cons.mp hl with rfl | hl'
      · exact hx
      · exact ih h l hl'
    | err e => simp [hx] at h
    | panic p => simp [hx] at h
    | ub => simp [hx] at h

theorem nodot_of_check (l : Bytes) (h : checkLabel l = .ok ()) : ∀ b ∈ l.toList, b ≠ DOT := by
  unfold checkLabel at h
  split at h
  · simp at h
  · split at h
    · simp at h
    · split at h
      · simp at h
      · rename_i hfind
        intro b hb heq
        have := List.find?_eq_none.mp hfind b hb
        subst heq
        simp [DOT, label_char_ok_not_dot] at this

/-- what the validator accepts, in terms of the labels of the text -/
theorem checkNameBytes_iff (s : Bytes) :
    checkNameBytes s = .ok () ↔
      s.size ≠ 0 ∧ (s = #[DOT] ∨ ((∀ l ∈ labelsOf s, checkLabel l = .ok ()) ∧ (canon s).size + 1 ≤ DOMAIN_NAME_MAX_LENGTH)) := by
  have hcan : ∀ (h0 : s.size ≠ 0), (canon s).size + 1 = (if s.getD (s.size - 1) 0 == DOT then s.size + 1 else s.size + 2) := by
    intro h0
    unfold canon
    by_cases hd : (s.getD (s.size - 1) 0 == DOT) = true
    · have hn : (s.getD (s.size - 1) 0 != DOT) = false := by simpa using hd
      simp only [hd, hn, Bool.false_eq_true, if_true, if_false]
    · have hn : (s.getD (s.size - 1) 0 != DOT) = true := by simpa using hd
      simp only [hd, hn, if_true, Bool.false_eq_true, if_false, Array.size_push]
  constructor
  · intro h
    obtain ⟨h0, hc⟩ := checkNameBytes_ok h
    refine ⟨h0, ?_⟩
    rcases hc with hr | ⟨hs, hlen⟩
    · exact Or.inl hr
    · right
      rw [splitLabels_fold s _ () h0] at hs
      exact ⟨foldCheck_inv _ hs, by rw [hcan h0]; exact hlen⟩
  · intro ⟨h0, hc⟩
    unfold checkNameBytes
    simp only [h0, if_false]
    rcases hc with hr | ⟨hs, hlen⟩
    · simp [hr]
    · by_cases hr : (s == #[DOT]) = true
      · simp [hr]
      · simp only [hr, Bool.false_eq_true, if_false]
        rw [splitLabels_fold s _ () h0, foldCheck_ok _ hs]
        simp only
        rw [hcan h0] at hlen
        have : ¬ ((if s.getD (s.size - 1) 0 == DOT then s.size + 1 else s.size + 2) > DOMAIN_NAME_MAX_LENGTH) := by omega
        simp only [this, if_false]

theorem writeLabel_ok (w : WCur) (l : Bytes) (hck : checkLabel l = .ok ()) (hroom : w.pos + l.size < w.buf.size) :
    ∃ w', w.writeLabel l = .ok w' := by
  unfold WCur.writeLabel
  simp only [hck]
  have hlen : w.len > l.size := by simp only [WCur.len]; omega
  simp only [hlen, if_true]
  obtain ⟨w1, h1, _, p1, s1⟩ := put_written w #[UInt8.ofNat (l.size % 256)] (by simp; omega)
  rw [h1]
  simp only
  obtain ⟨w2, h2, _⟩ := put_written w1 l (by rw [p1, s1]; simp; omega)
  exact ⟨w2, h2⟩

theorem foldWrite_ok : ∀ (ls : List Bytes) (w : WCur), (∀ l ∈ ls, checkLabel l = .ok ()) →
    w.pos + (wireLabels ls).size + 1 ≤ w.buf.size →
    ∃ w', foldAct (fun (st : WCur) l => st.writeLabel l) w ls = .ok w' := by
  intro ls
  induction ls with
  | nil => intro w _ _; exact ⟨w, rfl⟩
  | cons l ls ih =>
    intro w hck hroom
    have hsz : (wireLabels (l :: ls)).size = 1 + l.size + (wireLabels ls).size := by
      simp [wireLabels, wireLabel]; omega
    obtain ⟨w1, h1⟩ := writeLabel_ok w l (hck l (by simp)) (by omega)
    obtain ⟨_, _, p1, s1⟩ := writeLabel_inv w w1 l h1
    obtain ⟨w2, h2⟩ := ih w1 (fun x hx => hck x (by simp [hx])) (by rw [p1, s1]; omega)
    exact ⟨w2, by simp only [foldAct, h1, h2]⟩

theorem u16beUnchecked_inv (w w' : WCur) (v : Nat) (h : w.u16beUnchecked v = .ok w') :
    WCur.written w' = WCur.written w ++ WCur.be v 2 ∧ w'.pos = w.pos + 2 ∧ w'.buf.size = w.buf.size := by
  unfold WCur.u16beUnchecked at h
  split at h
  · have := put_inv w w' _ h
    rw [be_size] at this
    exact this
  · simp at h

theorem bind_ok_inv {α β} (x : Res α) (f : α → Res β) (b : β) (h : (x >>= f) = .ok b) :
    ∃ a, x = .ok a ∧ f a = .ok b := by
  cases x with
  | ok a => exact ⟨a, rfl, h⟩
  | err e => cases h
  | panic p => cases h
  | ub => cases h

/-- the twelve header bytes -/
def headerBytes (id flags qd an ns ar : Nat) : Bytes :=
  WCur.be id 2 ++ WCur.be flags 2 ++ WCur.be qd 2 ++ WCur.be an 2 ++ WCur.be ns 2 ++ WCur.be ar 2

theorem writeHeader_inv (w w' : WCur) (id flags qd an ns ar : Nat) (h : writeHeader w id flags qd an ns ar = .ok w') :
    WCur.written w' = WCur.written w ++ headerBytes id flags qd an ns ar ∧ w'.buf.size = w.buf.size := by
  unfold writeHeader at h
  split at h
  · obtain ⟨w1, h1, h⟩ := bind_ok_inv _ _ _ h
    obtain ⟨w2, h2, h⟩ := bind_ok_inv _ _ _ h
    obtain ⟨w3, h3, h⟩ := bind_ok_inv _ _ _ h
    obtain ⟨w4, h4, h⟩ := bind_ok_inv _ _ _ h
    obtain ⟨w5, h5, h⟩ := bind_ok_inv _ _ _ h
    obtain ⟨a1, _, s1⟩ := u16beUnchecked_inv _ _ _ h1
    obtain ⟨a2, _, s2⟩ := u16beUnchecked_inv _ _ _ h2
    obtain ⟨a3, _, s3⟩ := u16beUnchecked_inv _ _ _ h3
    obtain ⟨a4, _, s4⟩ := u16beUnchecked_inv _ _ _ h4
    obtain ⟨a5, _, s5⟩ := u16beUnchecked_inv _ _ _ h5
    obtain ⟨a6, _, s6⟩ := u16beUnchecked_inv _ _ _ h
    refine ⟨?_, by rw [s6, s5, s4, s3, s2, s1]⟩
    rw [a6, a5, a4, a3, a2, a1, headerBytes]
    simp only [Array.append_assoc]
  · simp at h

/-- the OPT pseudo-record as written: root owner, TYPE 41, CLASS = payload size, TTL, RDLENGTH 0 -/
def optBytes (version payload : Nat) : Bytes :=
  #[UInt8.ofNat (0 % 256)] ++ WCur.be TYPE_OPT 2 ++ WCur.be payload 2 ++ WCur.be (opt_ttl 0 version 0) 4 ++ WCur.be 0 2

theorem writeOpt_inv (w w' : WCur) (version payload : Nat) (h : writeOpt w version payload = .ok w') :
    WCur.written w' = WCur.written w ++ optBytes version payload ∧ w'.buf.size = w.buf.size := by
  unfold writeOpt at h
  obtain ⟨w1, h1, h⟩ := bind_ok_inv _ _ _ h
  obtain ⟨w2, h2, h⟩ := bind_ok_inv _ _ _ h
  obtain ⟨w3, h3, h⟩ := bind_ok_inv _ _ _ h
  obtain ⟨w4, h4, h⟩ := bind_ok_inv _ _ _ h
  obtain ⟨a1, _, s1⟩ := u8_inv _ _ _ h1
  obtain ⟨a2, _, s2⟩ := wBe_inv _ _ _ _ h2
  obtain ⟨a3, _, s3⟩ := wBe_inv _ _ _ _ h3
  obtain ⟨a4, _, s4⟩ := wBe_inv _ _ _ _ h4
  obtain ⟨a5, _, s5⟩ := wBe_inv _ _ _ _ h
  refine ⟨?_, by rw [s5, s4, s3, s2, s1]⟩
  rw [a5, a4, a3, a2, a1, optBytes]
  simp only [Array.append_assoc]

/-- the wire form of a text name as the encoder writes it -/
def wireName (name : Bytes) : Bytes :=
  if name = #[DOT] then #[0] else wireLabels (labelsOf name) ++ #[0]

theorem writeDomainName_written (w w' : WCur) (name : Bytes) (n : Nat) (h : w.writeDomainName name = .ok (w', n)) :
    WCur.written w' = WCur.written w ++ wireName name ∧ w'.buf.size = w.buf.size ∧ (wireName name).size = n := by
  obtain ⟨_, hcase, _, hs⟩ := writeDomainName_inv w w' name n h
  rcases hcase with ⟨hr, hw, hn⟩ | ⟨hnr, _, hw, hn, _⟩
  · exact ⟨by rw [hw, wireName, if_pos hr], hs, by rw [wireName, if_pos hr, hn]; rfl⟩
  · exact ⟨by rw [hw, wireName, if_neg hnr], hs, by rw [wireName, if_neg hnr, hn]; simp⟩

/-- everything `QueryWriter::write` appends behind the 2-byte length placeholder -/
def queryMsg (id : Nat) (qname : Bytes) (qtype qclass : Nat) (rd : Bool) (opt : Option (Nat × Nat)) : Bytes :=
  headerBytes id (if rd then 256 else 0) 1 0 0 (if opt.isSome then 1 else 0) ++ wireName qname ++
    WCur.be qtype 2 ++ WCur.be qclass 2 ++
    (match opt with
     | some (version, payload) => optBytes version payload
     | none => #[])

theorem queryBody_inv (w w' : WCur) (id : Nat) (qname : Bytes) (qtype qclass : Nat) (rd : Bool)
    (opt : Option (Nat × Nat)) (h : queryBody w id qname qtype qclass rd opt = .ok w') :
    WCur.written w' = WCur.written w ++ (WCur.be 0 2 ++ queryMsg id qname qtype qclass rd opt) ∧
      w'.buf.size = w.buf.size := by
  unfold queryBody at h
  obtain ⟨w1, h1, r1⟩ := bind_ok_inv _ _ _ h
  obtain ⟨w2, h2, r2⟩ := bind_ok_inv _ _ _ r1
  obtain ⟨w3, h3, r3⟩ := bind_ok_inv _ _ _ r2
  obtain ⟨w4, h4, r4⟩ := bind_ok_inv _ _ _ r3
  obtain ⟨w5, h5, r5⟩ := bind_ok_inv _ _ _ r4
  clear h r1 r2 r3 r4
  obtain ⟨a1, _, s1⟩ := wBe_inv _ _ _ _ h1
  obtain ⟨a2, s2⟩ := writeHeader_inv _ _ _ _ _ _ _ _ h2
  obtain ⟨x, hx, hx2⟩ := bind_ok_inv _ _ _ h3
  simp only [Res.ok.injEq] at hx2
  obtain ⟨wn, n⟩ := x
  simp only at hx2
  subst hx2
  obtain ⟨a3, s3, _⟩ := writeDomainName_written _ _ _ _ hx
  obtain ⟨a4, _, s4⟩ := wBe_inv _ _ _ _ h4
  obtain ⟨a5, _, s5⟩ := wBe_inv _ _ _ _ h5
  cases opt with
  | none =>
    simp only [pure, Res.ok.injEq] at r5
    subst r5
    refine ⟨?_, by rw [s5, s4, s3, s2, s1]⟩
    rw [a5, a4, a3, a2, a1, queryMsg]
    simp only [Array.append_assoc, Array.append_empty, Option.isSome_none, Bool.false_eq_true, if_false]
  | some vp =>
    obtain ⟨v, p⟩ := vp
    simp only at r5
    obtain ⟨a6, s6⟩ := writeOpt_inv _ _ _ _ r5
    refine ⟨?_, by rw [s6, s5, s4, s3, s2, s1]⟩
    rw [a6, a5, a4, a3, a2, a1, queryMsg]
    simp only [Array.append_assoc, Option.isSome_some, if_true]

theorem finish_bytes (w : WCur) (msg : Bytes) (hw : WCur.written w = WCur.be 0 2 ++ msg) (hp : w.pos ≤ w.buf.size)
    (buf : Bytes) (len : Nat) (h : finishQuery w = .ok (buf, len)) :
    len = 2 + msg.size ∧ buf.extract 0 len = WCur.be ((len - 2) % 65536) 2 ++ msg := by
  have hsz : w.pos = 2 + msg.size := by
    have := congrArg Array.size hw
    simp only [WCur.written, Array.size_extract, Array.size_append, be_size] at this
    omega
  unfold finishQuery at h
  simp only at h
  have hge : ¬ w.pos < 2 := by omega
  simp only [hge, if_false] at h
  cases hu : WCur.u16be { w with pos := 0 } ((w.pos - 2) % 65536) with
  | ok w' =>
    simp only [hu, Res.ok.injEq, Prod.mk.injEq] at h
    obtain ⟨rfl, rfl⟩ := h
    refine ⟨hsz, ?_⟩
    -- the put at position 0
    unfold WCur.u16be WCur.wBe at hu
    split at hu
    · rename_i hlen2
      unfold WCur.put at hu
      simp only [be_size] at hu
      split at hu
      · simp only [Res.ok.injEq] at hu
        subst hu
        simp only
        -- buf' = (#[] ++ be) ++ old[2..]; take the first `pos` bytes
        have hold : w.buf.extract 2 w.pos = msg := by
          have h1 : w.buf.extract 2 w.pos = (WCur.written w).extract 2 w.pos := by
            apply Array.ext'
            simp only [WCur.written, Array.toList_extract, List.extract_eq_take_drop, Nat.sub_zero, List.drop_zero]
            rw [List.drop_take]
            rw [List.take_take, Nat.min_self]
          rw [h1, hw]
          apply Array.ext'
          simp only [Array.toList_extract, Array.toList_append, List.extract_eq_take_drop]
          have hb : (WCur.be 0 2).toList.length = 2 := by simp [be_size]
          rw [List.drop_left' hb, hsz]
          simp only [Nat.add_sub_cancel_left]
          exact List.take_of_length_le (by simp)
        apply Array.ext'
        simp only [Array.toList_extract, Array.toList_append, List.extract_eq_take_drop, Nat.sub_zero, List.drop_zero,
          Nat.zero_add, List.take_zero, List.nil_append]
        have hb : (WCur.be ((w.pos - 2) % 65536) 2).toList.length = 2 := by simp [be_size]
        rw [List.take_append, hb]
        have e1 : List.take w.pos (WCur.be ((w.pos - 2) % 65536) 2).toList = (WCur.be ((w.pos - 2) % 65536) 2).toList := by
          apply List.take_of_length_le; rw [hb]; omega
        rw [e1]
        congr 1
        rw [List.take_take]
        have : min (w.pos - 2) (w.buf.size - 2) = w.pos - 2 := by omega
        rw [this, ← hold]
        simp only [Array.toList_extract, List.extract_eq_take_drop]
      · simp at hu
    · simp at hu
  | err e => simp [hu] at h
  | panic p => simp [hu] at h
  | ub => simp [hu] at h


/-- the encoder never writes outside its buffer and never panics (statement of `C11.writer_safe`) -/
theorem writeQuery_safe (cap id : Nat) (qname : Bytes) (qtype qclass : Nat) (rd : Bool) (opt : Option (Nat × Nat)) :
    (writeQuery cap id qname qtype qclass rd opt).safe ∧
      ∀ buf n, writeQuery cap id qname qtype qclass rd opt = .ok (buf, n) → buf.size = cap ∧ 2 ≤ n ∧ n ≤ cap := by
  unfold writeQuery
  have hb := queryBody_good (WCur.new cap) id qname qtype qclass rd opt
  have hnew : (WCur.new cap).buf.size = cap ∧ (WCur.new cap).pos = 0 := by simp [WCur.new]
  cases hq : queryBody (WCur.new cap) id qname qtype qclass rd opt with
  | err e => simp
  | panic p => rw [hq] at hb; exact absurd hb.1.1 (by simp)
  | ub => rw [hq] at hb; exact absurd hb.1.1 (by simp)
  | ok w =>
    have g := hb.1.2 w hq
    have hp := hb.2 w hq
    have hsz : w.buf.size = cap := by rw [g.2.1]; exact hnew.1
    have hfit : w.pos ≤ cap := by rw [← hsz]; exact g.2.2 (by rw [hnew.2]; omega)
    simp only
    unfold finishQuery
    have hp2 : ¬ (w.pos < 2) := by omega
    simp only [hp2, if_false, WCur.u16be]
    have g7 := wBe_good ({ w with pos := 0 } : WCur) ((w.pos - 2) % 65536) 2 (by omega)
    cases h7 : ({ w with pos := 0 } : WCur).wBe ((w.pos - 2) % 65536) 2 with
    | err e => simp
    | panic p => rw [h7] at g7; exact absurd g7.1 (by simp)
    | ub => rw [h7] at g7; exact absurd g7.1 (by simp)
    | ok w7 =>
      have b7 := g7.2 w7 h7
      refine ⟨trivial, ?_⟩
      intro buf n hbn
      simp only [Res.ok.injEq, Prod.mk.injEq] at hbn
      obtain ⟨rfl, rfl⟩ := hbn
      exact ⟨by rw [b7.2.1]; exact hsz, by omega, hfit⟩


end Rsdns.C11
