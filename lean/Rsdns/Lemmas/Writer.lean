/-
  Rsdns.Lemmas.Writer — helper lemmas about `WCursor` and the query serializer: every write stays inside
  the buffer (`GoodStep`, `Grows`), per-primitive safety.
-/
import Rsdns.Model.Client
import Rsdns.Lemmas.NameText

set_option linter.unusedVariables false

namespace Rsdns.C11

open Rsdns Generated

/-! ### the write cursor never leaves its buffer -/

theorem put_spec (w : WCur) (bs : Bytes) (h : w.pos + bs.size ≤ w.buf.size) :
    ∃ w', w.put bs = .ok w' ∧ w'.pos = w.pos + bs.size ∧ w'.buf.size = w.buf.size := by
  unfold WCur.put
  simp only [h, if_true]
  refine ⟨_, rfl, rfl, ?_⟩
  simp only [Array.size_append, Array.size_extract]
  omega

theorem be_size (v n : Nat) : (WCur.be v n).size = n := by
  induction n with
  | zero => simp [WCur.be]
  | succ k ih => simp [WCur.be, ih]; omega

theorem u8_safe (w : WCur) (v : Nat) : (w.u8 v).safe ∧ ∀ w', w.u8 v = .ok w' → w'.pos = w.pos + 1 ∧ w'.buf.size = w.buf.size := by
  unfold WCur.u8 WCur.len
  by_cases h : w.buf.size - w.pos ≥ 1
  · simp only [h, if_true]
    obtain ⟨w', hp, h1, h2⟩ := put_spec w #[UInt8.ofNat (v % 256)] (by simp; omega)
    rw [hp]
    exact ⟨trivial, by intro w'' hw; simp only [Res.ok.injEq] at hw; subst hw; exact ⟨by simpa using h1, h2⟩⟩
  · simp [h]

theorem wBe_safe (w : WCur) (v n : Nat) (hn : 0 < n) :
    (w.wBe v n).safe ∧ ∀ w', w.wBe v n = .ok w' → w'.pos = w.pos + n ∧ w'.buf.size = w.buf.size := by
  unfold WCur.wBe WCur.len
  by_cases h : w.buf.size - w.pos ≥ n
  · simp only [h, if_true]
    obtain ⟨w', hp', h1, h2⟩ := put_spec w (WCur.be v n) (by rw [be_size]; omega)
    rw [hp']
    exact ⟨trivial, by intro w'' hw; simp only [Res.ok.injEq] at hw; subst hw; exact ⟨by rw [h1, be_size], h2⟩⟩
  · simp [h]

/-- the relation every successful write respects: the buffer keeps its size, the position only grows,
    and a position inside the buffer stays inside it -/
def Grows (w w' : WCur) : Prop :=
  w.pos ≤ w'.pos ∧ w'.buf.size = w.buf.size ∧ (w.pos ≤ w.buf.size → w'.pos ≤ w'.buf.size)

theorem Grows.refl (w : WCur) : Grows w w := ⟨Nat.le_refl _, rfl, id⟩
theorem Grows.trans (a b c : WCur) (h1 : Grows a b) (h2 : Grows b c) : Grows a c :=
  ⟨Nat.le_trans h1.1 h2.1, h2.2.1.trans h1.2.1, fun h => h2.2.2 (h1.2.2 h)⟩

/-- a write step: safe, and `Grows` on success -/
def GoodStep (w : WCur) (x : Res WCur) : Prop := x.safe ∧ ∀ w', x = .ok w' → Grows w w'

theorem GoodStep.bind {w : WCur} {x : Res WCur} {f : WCur → Res WCur} (hx : GoodStep w x)
    (hf : ∀ a, GoodStep a (f a)) : GoodStep w (x >>= f) := by
  cases x with
  | ok a =>
    have g := hx.2 a rfl
    refine ⟨(hf a).1, ?_⟩
    intro w' hw
    exact Grows.trans _ _ _ g ((hf a).2 w' hw)
  | err e => exact ⟨trivial, by intro w' hw; simp at hw⟩
  | panic p => exact absurd hx.1 (by simp)
  | ub => exact absurd hx.1 (by simp)

theorem put_good (w : WCur) (bs : Bytes) (h : w.pos + bs.size ≤ w.buf.size) : GoodStep w (w.put bs) := by
  obtain ⟨w', hp, h1, h2⟩ := put_spec w bs h
  rw [hp]
  refine ⟨trivial, ?_⟩
  intro w'' hw
  simp only [Res.ok.injEq] at hw
  subst hw
  exact ⟨by omega, h2, fun _ => by omega⟩

theorem u8_good (w : WCur) (v : Nat) : GoodStep w (w.u8 v) := by
  unfold WCur.u8 WCur.len
  by_cases h : w.buf.size - w.pos ≥ 1
  · simp only [h, if_true]
    exact put_good w _ (by simp; omega)
  · simp only [h, if_false]
    exact ⟨trivial, by intro w' hw; simp at hw⟩

theorem wBe_good (w : WCur) (v n : Nat) (hn : 0 < n) : GoodStep w (w.wBe v n) := by
  unfold WCur.wBe WCur.len
  by_cases h : w.buf.size - w.pos ≥ n
  · simp only [h, if_true]
    exact put_good w _ (by rw [be_size]; omega)
  · simp only [h, if_false]
    exact ⟨trivial, by intro w' hw; simp at hw⟩

theorem writeLabel_good (w : WCur) (l : Bytes) : GoodStep w (w.writeLabel l) := by
  unfold WCur.writeLabel
  rcases checkLabel_ok_or_err l with hck | ⟨e, hck⟩
  · simp only [hck]
    unfold WCur.len
    by_cases h : w.buf.size - w.pos > l.size
    · simp only [h, if_true]
      obtain ⟨w1, hp1, h1, h2⟩ := put_spec w #[UInt8.ofNat (l.size % 256)] (by simp; omega)
      rw [hp1]
      simp only
      have g2 := put_good w1 l (by simp at h1; omega)
      refine ⟨g2.1, ?_⟩
      intro w' hw
      obtain ⟨t1, t2, t3⟩ := g2.2 w' hw
      simp at h1
      exact ⟨by omega, by omega, fun _ => t3 (by omega)⟩
    · simp only [h, if_false]
      exact ⟨trivial, by intro w' hw; simp at hw⟩
  · simp only [hck]
    exact ⟨trivial, by intro w' hw; simp at hw⟩

theorem writeDomainName_good (w : WCur) (name : Bytes) :
    GoodStep w ((w.writeDomainName name).bind (fun x => .ok x.1)) := by
  unfold WCur.writeDomainName
  by_cases h0 : name.size = 0
  · simp only [h0, if_true, Res.bind]
    exact ⟨trivial, by intro w' hw; simp at hw⟩
  · simp only [h0, if_false]
    by_cases hr : (name == #[DOT]) = true
    · simp only [hr, if_true]
      have g := u8_good w 0
      cases hu : w.u8 0 with
      | ok w1 =>
        simp only [Res.bind]
        exact ⟨trivial, by intro w' hw; simp only [Res.ok.injEq] at hw; subst hw; exact g.2 w1 hu⟩
      | err e => exact ⟨trivial, by intro w' hw; simp [Res.bind] at hw⟩
      | panic p => rw [hu] at g; exact absurd g.1 (by simp)
      | ub => rw [hu] at g; exact absurd g.1 (by simp)
    · simp only [hr, Bool.false_eq_true, if_false]
      have hs := splitLabels_safe name (fun (st : WCur) l => st.writeLabel l) (fun st l => (writeLabel_good st l).1) w
      cases hl : splitLabels name (fun (st : WCur) l => st.writeLabel l) w with
      | ok w1 =>
        have hg1 := splitLabels_rel name (fun (st : WCur) l => st.writeLabel l) Grows Grows.refl Grows.trans
          (fun st l st' h => (writeLabel_good st l).2 st' h) w w1 hl
        simp only
        have g8 := u8_good w1 0
        cases hu : w1.u8 0 with
        | ok w2 =>
          have h2 := g8.2 w2 hu
          simp only
          have hnot : ¬ (w2.pos < w.pos) := by have := hg1.1; have := h2.1; omega
          simp only [hnot, if_false]
          split
          · exact ⟨trivial, by intro w' hw; simp [Res.bind] at hw⟩
          · simp only [Res.bind]
            exact ⟨trivial, by intro w' hw; simp only [Res.ok.injEq] at hw; subst hw; exact Grows.trans _ _ _ hg1 h2⟩
        | err e => exact ⟨trivial, by intro w' hw; simp [Res.bind] at hw⟩
        | panic p => rw [hu] at g8; exact absurd g8.1 (by simp)
        | ub => rw [hu] at g8; exact absurd g8.1 (by simp)
      | err e => exact ⟨trivial, by intro w' hw; simp [Res.bind] at hw⟩
      | panic p => rw [hl] at hs; simp at hs
      | ub => rw [hl] at hs; simp at hs

theorem u16beUnchecked_good (w : WCur) (v : Nat) (h : w.pos + 2 ≤ w.buf.size) :
    ∃ w', w.u16beUnchecked v = .ok w' ∧ w'.pos = w.pos + 2 ∧ w'.buf.size = w.buf.size := by
  unfold WCur.u16beUnchecked WCur.len
  have : w.buf.size - w.pos ≥ 2 := by omega
  simp only [this, if_true]
  obtain ⟨w', hp, h1, h2⟩ := put_spec w (WCur.be v 2) (by rw [be_size]; omega)
  exact ⟨w', hp, by rw [h1, be_size], h2⟩

theorem writeHeader_good (w : WCur) (id flags qd an ns ar : Nat) : GoodStep w (writeHeader w id flags qd an ns ar) := by
  unfold writeHeader WCur.len
  by_cases h : w.buf.size - w.pos ≥ HEADER_LENGTH
  · have h' : w.pos + 12 ≤ w.buf.size := by
      have : HEADER_LENGTH = 12 := rfl
      omega
    simp only [h, if_true]
    obtain ⟨w1, e1, p1, s1⟩ := u16beUnchecked_good w id (by omega)
    obtain ⟨w2, e2, p2, s2⟩ := u16beUnchecked_good w1 flags (by omega)
    obtain ⟨w3, e3, p3, s3⟩ := u16beUnchecked_good w2 qd (by omega)
    obtain ⟨w4, e4, p4, s4⟩ := u16beUnchecked_good w3 an (by omega)
    obtain ⟨w5, e5, p5, s5⟩ := u16beUnchecked_good w4 ns (by omega)
    obtain ⟨w6, e6, p6, s6⟩ := u16beUnchecked_good w5 ar (by omega)
    simp only [bind, Res.bind, e1, e2, e3, e4, e5, e6]
    refine ⟨trivial, ?_⟩
    intro w' hw
    simp only [Res.ok.injEq] at hw
    subst hw
    exact ⟨by omega, by omega, fun _ => by omega⟩
  · simp only [h, if_false]
    exact ⟨trivial, by intro w' hw; simp at hw⟩

theorem writeOpt_good (w : WCur) (version payload : Nat) : GoodStep w (writeOpt w version payload) := by
  unfold writeOpt
  exact GoodStep.bind (u8_good w 0) (fun a =>
    GoodStep.bind (wBe_good a _ 2 (by omega)) (fun b =>
    GoodStep.bind (wBe_good b _ 2 (by omega)) (fun c =>
    GoodStep.bind (wBe_good c _ 4 (by omega)) (fun d => wBe_good d _ 2 (by omega)))))

theorem queryBody_good (w : WCur) (id : Nat) (qname : Bytes) (qtype qclass : Nat) (rd : Bool) (opt : Option (Nat × Nat)) :
    GoodStep w (queryBody w id qname qtype qclass rd opt) ∧
      ∀ w', queryBody w id qname qtype qclass rd opt = .ok w' → w.pos + 2 ≤ w'.pos := by
  unfold queryBody
  have key : ∀ a : WCur, GoodStep a (do
      let w ← writeHeader a id (if rd then 256 else 0) 1 0 0 (if opt.isSome then 1 else 0)
      let w ← (w.writeDomainName qname).bind (fun x => .ok x.1)
      let w ← w.u16be qtype
      let w ← w.u16be qclass
      match opt with
      | some (version, payload) => writeOpt w version payload
      | none => pure w) := fun a =>
    GoodStep.bind (writeHeader_good a _ _ _ _ _ _) (fun b =>
    GoodStep.bind (writeDomainName_good b qname) (fun c =>
    GoodStep.bind (wBe_good c _ 2 (by omega)) (fun d =>
    GoodStep.bind (wBe_good d _ 2 (by omega)) (fun e => by
      cases opt with
      | none => exact ⟨trivial, by intro w' hw; simp only [pure, Res.ok.injEq] at hw; subst hw; exact Grows.refl _⟩
      | some vp => obtain ⟨v, p⟩ := vp; exact writeOpt_good e v p))))
  constructor
  · exact GoodStep.bind (wBe_good w 0 2 (by omega)) key
  · intro w' hw
    -- the first write alone advances the position by two
    unfold WCur.u16be at hw
    cases h1 : w.wBe 0 2 with
    | ok w1 =>
      have p1 := (wBe_safe w 0 2 (by omega)).2 w1 h1
      simp only [h1, bind, Res.bind] at hw
      have := (key w1).2 w' hw
      have := this.1
      omega
    | err e => simp [h1, bind, Res.bind] at hw
    | panic p => simp [h1, bind, Res.bind] at hw
    | ub => simp [h1, bind, Res.bind] at hw


end Rsdns.C11
