/-
  Rsdns.Lemmas.Local — every cursor read, the label walk, the TXT loop and the 17 RDATA bodies look
  only at message bytes below the end of the cursor's view: two messages that agree there give the
  same outcome (`Agree`, `CongrM`).  Helpers of `Rsdns.Props.C04Local.rdata_local`.
-/
import Rsdns.Lemmas.RData
set_option linter.unusedVariables false
namespace Rsdns.C04
open Rsdns Generated Spec

/-- two byte strings agree on their first `W` bytes (and both have at least `W`) -/
structure Agree (W : Nat) (a b : Bytes) : Prop where
  sa : W ≤ a.size
  sb : W ≤ b.size
  eq : ∀ i, i < W → a[i]? = b[i]?

theorem Agree.getD {W : Nat} {a b : Bytes} (h : Agree W a b) {i : Nat} (hi : i < W) : a.getD i 0 = b.getD i 0 := by
  have := h.eq i hi
  simp only [Array.getD_eq_getD_getElem?, this]

theorem Agree.get {W : Nat} {a b : Bytes} (h : Agree W a b) {i : Nat} (hi : i < W) (ha : i < a.size) (hb : i < b.size) :
    a[i] = b[i] := by
  have := h.eq i hi
  rw [Array.getElem?_eq_getElem ha, Array.getElem?_eq_getElem hb] at this
  exact Option.some.inj this

theorem Agree.extract {W : Nat} {a b : Bytes} (h : Agree W a b) {p q : Nat} (hq : q ≤ W) :
    a.extract p q = b.extract p q := by
  apply Array.ext
  · simp only [Array.size_extract]
    have := h.sa; have := h.sb
    omega
  · intro i h1 h2
    simp only [Array.size_extract] at h1 h2
    simp only [Array.getElem_extract]
    exact h.get (by omega) _ _

theorem Agree.beNat {W : Nat} {a b : Bytes} (h : Agree W a b) : ∀ (n pos : Nat), pos + n ≤ W →
    Cur.beNat a pos n = Cur.beNat b pos n
  | 0, _, _ => rfl
  | k + 1, pos, hp => by
    simp only [Cur.beNat]
    rw [h.getD (by omega), Agree.beNat h k (pos + 1) (by omega)]

theorem u8_congr {W : Nat} {a b : Bytes} (h : Agree W a b) (c : Cur) (hl : c.lim ≤ W) : c.u8 a = c.u8 b := by
  unfold Cur.u8
  split
  · rename_i he
    have hlt : c.pos < c.lim := by
      simp only [Cur.isEmpty, Cur.len, Bool.not_eq_true', beq_eq_false_iff_ne, ne_eq] at he
      omega
    have ha := h.sa; have hb := h.sb
    have h1 : c.pos < c.lim ∧ c.pos < a.size := ⟨hlt, by omega⟩
    have h2 : c.pos < c.lim ∧ c.pos < b.size := ⟨hlt, by omega⟩
    simp only [h1, h2, and_self, dite_true]
    rw [h.get (by omega) h1.2 h2.2]
  · rfl

theorem rBe_congr {W : Nat} {a b : Bytes} (h : Agree W a b) (c : Cur) (n : Nat) (hl : c.lim ≤ W) :
    Cur.rBe a c n = Cur.rBe b c n := by
  unfold Cur.rBe
  split
  · rename_i hlen
    simp only [Cur.len] at hlen
    have ha := h.sa; have hb := h.sb
    by_cases hp : c.pos ≤ c.lim
    · have h1 : c.pos ≤ c.lim ∧ c.pos + n ≤ a.size := ⟨hp, by omega⟩
      have h2 : c.pos ≤ c.lim ∧ c.pos + n ≤ b.size := ⟨hp, by omega⟩
      simp only [h1, h2, and_self, if_true]
      rw [h.beNat n c.pos (by omega)]
    · have h1 : ¬ (c.pos ≤ c.lim ∧ c.pos + n ≤ a.size) := fun x => hp x.1
      have h2 : ¬ (c.pos ≤ c.lim ∧ c.pos + n ≤ b.size) := fun x => hp x.1
      simp only [h1, h2, if_false]
  · rfl

theorem slice_congr {W : Nat} {a b : Bytes} (h : Agree W a b) (c : Cur) (n : Nat) (hl : c.lim ≤ W) :
    Cur.slice a c n = Cur.slice b c n := by
  unfold Cur.slice
  split
  · rename_i hfit
    simp only [Cur.fits, Cur.len, Bool.and_eq_true, decide_eq_true_eq, ge_iff_le] at hfit
    obtain ⟨hf1, hf2⟩ := hfit
    have ha := h.sa; have hb := h.sb
    have h1 : c.pos + n ≤ c.lim ∧ c.lim ≤ a.size := ⟨by omega, by omega⟩
    have h2 : c.pos + n ≤ c.lim ∧ c.lim ≤ b.size := ⟨by omega, by omega⟩
    simp only [h1, h2, and_self, if_true]
    rw [h.extract (p := c.pos) (q := c.pos + n) (by omega)]
  · rfl

theorem iterStep_congr {W : Nat} {a b : Bytes} (h : Agree W a b) (s : LSt) (hl : s.cur.lim ≤ W) :
    iterStep a s = iterStep b s := by
  unfold iterStep
  rw [u8_congr h s.cur hl]
  cases hu : s.cur.u8 b with
  | err e => rfl
  | panic p => rfl
  | ub => rfl
  | ok v =>
    obtain ⟨label, c1⟩ := v
    have hc1 : c1.lim ≤ W := by rw [(Cur.u8_ok hu).1]; exact hl
    simp only
    rw [slice_congr h c1 label.toNat hc1, u8_congr h c1 hc1]

theorem walk_congr {W : Nat} {a b : Bytes} (h : Agree W a b) (m : Mode) (s : LSt) (acc : Bytes) (ls : List Bytes)
    (n : Nat) (hl : s.cur.lim ≤ W) : walk a m s acc ls n = walk b m s acc ls n := by
  fun_induction walk a m s acc ls n with
  | case1 s acc ls n e hst =>
    rw [iterStep_congr h s hl] at hst
    conv => rhs; rw [walk]
    split <;> simp_all
  | case2 s acc ls n p hst =>
    rw [iterStep_congr h s hl] at hst
    conv => rhs; rw [walk]
    split <;> simp_all
  | case3 s acc ls n hst =>
    rw [iterStep_congr h s hl] at hst
    conv => rhs; rw [walk]
    split <;> simp_all
  | case4 s acc ls n s' hst =>
    rw [iterStep_congr h s hl] at hst
    conv => rhs; rw [walk]
    split <;> simp_all
  | case5 s acc ls n bytes p s' hst e hon =>
    rw [iterStep_congr h s hl] at hst
    conv => rhs; rw [walk]
    split <;> simp_all
  | case6 s acc ls n bytes p s' hst pk hon =>
    rw [iterStep_congr h s hl] at hst
    conv => rhs; rw [walk]
    split <;> simp_all
  | case7 s acc ls n bytes p s' hst hon =>
    rw [iterStep_congr h s hl] at hst
    conv => rhs; rw [walk]
    split <;> simp_all
  | case8 s acc ls n bytes p s' hst acc' hon ih =>
    have hl' : s'.cur.lim ≤ W := by rw [(iterStep_label hst).2.2.1]; exact hl
    have ih' := ih hl'
    rw [iterStep_congr h s hl] at hst
    conv => rhs; rw [walk]
    split <;> simp_all
  | case9 s acc ls n s' hst ih =>
    have hl' : s'.cur.lim ≤ W := by rw [(iterStep_jump hst).2.2.1]; exact hl
    have ih' := ih hl'
    rw [iterStep_congr h s hl] at hst
    conv => rhs; rw [walk]
    split <;> simp_all

theorem readName_congr {W : Nat} {a b : Bytes} (h : Agree W a b) (k : NameKind) (c : Cur) (hl : c.lim ≤ W) :
    readName k a c = readName k b c := by
  unfold readName
  rw [walk_congr h (.read k) ⟨c, 0, 0⟩ #[] [] 0 hl]

theorem skipName_congr {W : Nat} {a b : Bytes} (h : Agree W a b) (c : Cur) (hl : c.lim ≤ W) :
    skipName a c = skipName b c := by
  unfold skipName
  rw [walk_congr h .skip ⟨c, 0, 0⟩ #[] [] 0 hl]

/-! ### cursor computations -/

/-- `f` (over `a`) and `g` (over `b`) compute the same from every cursor whose view ends at or below
    `W`, and keep the view -/
def CongrM {α : Type} (W : Nat) (f g : CurM α) : Prop := ∀ c, c.lim ≤ W → f c = g c ∧ (f c).2.lim = c.lim

theorem CongrM.pure {α} {W : Nat} (x : α) : CongrM W (Pure.pure x : CurM α) (Pure.pure x) := fun c _ => ⟨rfl, rfl⟩

theorem CongrM.bind {α β} {W : Nat} {x x' : CurM α} {f f' : α → CurM β} (hx : CongrM W x x')
    (hf : ∀ v, CongrM W (f v) (f' v)) : CongrM W (x >>= f) (x' >>= f') := by
  intro c hc
  obtain ⟨h1, h2⟩ := hx c hc
  show CurM.bind x f c = CurM.bind x' f' c ∧ (CurM.bind x f c).2.lim = c.lim
  unfold CurM.bind
  rw [← h1]
  cases hxc : x c with
  | mk res c1 =>
    rw [hxc] at h2
    cases res with
    | ok v =>
      obtain ⟨h3, h4⟩ := hf v c1 (by rw [h2]; exact hc)
      exact ⟨h3, by rw [h4]; exact h2⟩
    | err e => exact ⟨rfl, h2⟩
    | panic p => exact ⟨rfl, h2⟩
    | ub => exact ⟨rfl, h2⟩

theorem CongrM.lift {α} {W : Nat} {f g : Cur → Res (α × Cur)} (h : ∀ c, c.lim ≤ W → f c = g c)
    (hl : ∀ c v c', f c = .ok (v, c') → c'.lim = c.lim) : CongrM W (CurM.lift f) (CurM.lift g) := by
  intro c hc
  unfold CurM.lift
  rw [← h c hc]
  cases hf : f c with
  | ok v => obtain ⟨x, c'⟩ := v; exact ⟨rfl, hl c x c' hf⟩
  | err e => exact ⟨rfl, rfl⟩
  | panic p => exact ⟨rfl, rfl⟩
  | ub => exact ⟨rfl, rfl⟩

variable {W : Nat} {a b : Bytes}

theorem CongrM.u8 (h : Agree W a b) : CongrM W (CurM.u8 a) (CurM.u8 b) :=
  CongrM.lift (fun c hc => u8_congr h c hc) (fun c v c' hf => (Cur.u8_ok hf).1)

theorem rBe_lim {msg : Bytes} {c c' : Cur} {n v : Nat} (hf : Cur.rBe msg c n = .ok (v, c')) : c'.lim = c.lim := by
  unfold Cur.rBe at hf
  split at hf
  · split at hf
    · simp only [Res.ok.injEq, Prod.mk.injEq] at hf; rw [← hf.2]
    · simp at hf
  · simp at hf

theorem CongrM.u16be (h : Agree W a b) : CongrM W (CurM.u16be a) (CurM.u16be b) :=
  CongrM.lift (fun c hc => rBe_congr h c 2 hc) (fun c v c' hf => rBe_lim hf)
theorem CongrM.u32be (h : Agree W a b) : CongrM W (CurM.u32be a) (CurM.u32be b) :=
  CongrM.lift (fun c hc => rBe_congr h c 4 hc) (fun c v c' hf => rBe_lim hf)
theorem CongrM.u128be (h : Agree W a b) : CongrM W (CurM.u128be a) (CurM.u128be b) :=
  CongrM.lift (fun c hc => rBe_congr h c 16 hc) (fun c v c' hf => rBe_lim hf)
theorem CongrM.slice (h : Agree W a b) (n : Nat) : CongrM W (CurM.slice a n) (CurM.slice b n) :=
  CongrM.lift (fun c hc => slice_congr h c n hc) (fun c v c' hf => (Cur.slice_ok hf).1)
theorem CongrM.readName (h : Agree W a b) (k : NameKind) : CongrM W (CurM.readName k a) (CurM.readName k b) :=
  CongrM.lift (fun c hc => readName_congr h k c hc)
    (fun c v c' hf => by obtain ⟨_, _, _, _, hl, _⟩ := C03.read_sound k a c c' v hf; exact hl)

theorem CongrM.charString (h : Agree W a b) : CongrM W (readCharString a) (readCharString b) := by
  unfold readCharString
  exact CongrM.bind (CongrM.u8 h) (fun len => CongrM.slice h len.toNat)

/-- the TXT loop with its body spelled out by plain (non-dependent) matches -/
theorem txtLoop_unfold (msg : Bytes) (rdLen : Nat) (text : Bytes) (c : Cur) :
    txtLoop msg rdLen text c =
      if rdLen > 0 then
        match CurM.u8 msg c with
        | (.err e, c1) => (.err e, c1)
        | (.panic p, c1) => (.panic p, c1)
        | (.ub, c1) => (.ub, c1)
        | (.ok len, c1) =>
          match ((if len.toNat > 0 then
              (match CurM.slice msg len.toNat c1 with
              | (.ok s, c2) => ((.ok (text ++ s) : Res Bytes), c2)
              | (.err e, c2) => (.err e, c2)
              | (.panic p, c2) => (.panic p, c2)
              | (.ub, c2) => (.ub, c2))
            else (.ok text, c1)) : Res Bytes × Cur) with
          | (.err e, c2) => (.err e, c2)
          | (.panic p, c2) => (.panic p, c2)
          | (.ub, c2) => (.ub, c2)
          | (.ok text', c2) =>
            if rdLen < len.toNat + 1 then (.panic .overflow, c2)
            else txtLoop msg (rdLen - (len.toNat + 1)) text' c2
      else (.ok text, c) := by
  conv => lhs; rw [txtLoop]
  by_cases hpos : rdLen > 0
  · simp only [hpos, dite_true, if_true]
    split <;> simp_all
    rfl
  · simp only [hpos, dite_false, if_false]

theorem txtLoop_congr (h : Agree W a b) : ∀ (rdLen : Nat) (text : Bytes) (c : Cur), c.lim ≤ W →
    txtLoop a rdLen text c = txtLoop b rdLen text c ∧ (txtLoop a rdLen text c).2.lim = c.lim := by
  intro rdLen
  induction rdLen using Nat.strongRecOn with
  | _ rdLen ih =>
    intro text c hc
    rw [txtLoop_unfold a, txtLoop_unfold b]
    by_cases hpos : rdLen > 0
    · simp only [hpos, if_true]
      obtain ⟨h8, h8l⟩ := CongrM.u8 h c hc
      rw [← h8]
      cases hu : CurM.u8 a c with
      | mk res c1 =>
        rw [hu] at h8l
        cases res with
        | err e => exact ⟨rfl, h8l⟩
        | panic p => exact ⟨rfl, h8l⟩
        | ub => exact ⟨rfl, h8l⟩
        | ok len =>
          simp only
          have hc1 : c1.lim ≤ W := by rw [h8l]; exact hc
          by_cases hlen : len.toNat > 0
          · simp only [hlen, if_true]
            obtain ⟨hs, hsl⟩ := CongrM.slice h len.toNat c1 hc1
            rw [← hs]
            cases hsl' : CurM.slice a len.toNat c1 with
            | mk res2 c2 =>
              rw [hsl'] at hsl
              have hc2 : c2.lim = c.lim := by rw [hsl, h8l]
              cases res2 with
              | err e => exact ⟨rfl, hc2⟩
              | panic p => exact ⟨rfl, hc2⟩
              | ub => exact ⟨rfl, hc2⟩
              | ok sb =>
                simp only
                by_cases hlt : rdLen < len.toNat + 1
                · simp only [hlt, if_true]; exact ⟨trivial, hc2⟩
                · simp only [hlt, if_false]
                  obtain ⟨i1, i2⟩ := ih (rdLen - (len.toNat + 1)) (by omega) (text ++ sb) c2 (by rw [hc2]; exact hc)
                  exact ⟨i1, by rw [i2]; exact hc2⟩
          · simp only [hlen, if_false]
            by_cases hlt : rdLen < len.toNat + 1
            · simp only [hlt, if_true]; exact ⟨trivial, h8l⟩
            · simp only [hlt, if_false]
              obtain ⟨i1, i2⟩ := ih (rdLen - (len.toNat + 1)) (by omega) text c1 hc1
              exact ⟨i1, by rw [i2]; exact h8l⟩
    · simp only [hpos, if_false]
      constructor <;> first | rfl | trivial

theorem CongrM.txtLoop (h : Agree W a b) (rdLen : Nat) (text : Bytes) :
    CongrM W (Rsdns.txtLoop a rdLen text) (Rsdns.txtLoop b rdLen text) :=
  fun c hc => txtLoop_congr h rdLen text c hc

/-- the field-reading part of every typed decoder looks only at bytes below the end of its view -/
theorem CongrM.body (h : Agree W a b) (t : RType) (rdLen : Nat) :
    CongrM W (readRDataBody t a rdLen) (readRDataBody t b rdLen) := by
  have hn := CongrM.readName h .heap
  have h8 := CongrM.u8 h
  have h16 := CongrM.u16be h
  have h32 := CongrM.u32be h
  have h128 := CongrM.u128be h
  cases t <;> unfold readRDataBody <;> simp only
  case a => exact CongrM.bind h32 (fun _ => CongrM.pure _)
  case aaaa => exact CongrM.bind h128 (fun _ => CongrM.pure _)
  case ns => exact CongrM.bind hn (fun _ => CongrM.pure _)
  case md => exact CongrM.bind hn (fun _ => CongrM.pure _)
  case mf => exact CongrM.bind hn (fun _ => CongrM.pure _)
  case cname => exact CongrM.bind hn (fun _ => CongrM.pure _)
  case mb => exact CongrM.bind hn (fun _ => CongrM.pure _)
  case mg => exact CongrM.bind hn (fun _ => CongrM.pure _)
  case mr => exact CongrM.bind hn (fun _ => CongrM.pure _)
  case ptr => exact CongrM.bind hn (fun _ => CongrM.pure _)
  case soa =>
    exact CongrM.bind hn (fun _ => CongrM.bind hn (fun _ => CongrM.bind h32 (fun _ => CongrM.bind h32 (fun _ =>
      CongrM.bind h32 (fun _ => CongrM.bind h32 (fun _ => CongrM.bind h32 (fun _ => CongrM.pure _)))))))
  case null => exact CongrM.bind (CongrM.slice h rdLen) (fun _ => CongrM.pure _)
  case wks =>
    exact CongrM.bind h32 (fun _ => CongrM.bind h8 (fun _ => by
      by_cases hlt : rdLen < 5
      · simp only [hlt, if_true]; exact fun c _ => ⟨rfl, rfl⟩
      · simp only [hlt, if_false]; exact CongrM.bind (CongrM.slice h (rdLen - 5)) (fun _ => CongrM.pure _)))
  case hinfo => exact CongrM.bind (CongrM.charString h) (fun _ => CongrM.bind (CongrM.charString h) (fun _ => CongrM.pure _))
  case minfo => exact CongrM.bind hn (fun _ => CongrM.bind hn (fun _ => CongrM.pure _))
  case mx => exact CongrM.bind h16 (fun _ => CongrM.bind hn (fun _ => CongrM.pure _))
  case txt => exact CongrM.bind (CongrM.txtLoop h rdLen #[]) (fun _ => CongrM.pure _)

theorem window_congr (a b : Bytes) (c : Cur) (n : Nat) (hla : c.lim ≤ a.size) (hlb : c.lim ≤ b.size) :
    CurM.window a n c = CurM.window b n c := by
  simp only [CurM.window, CurM.lift0, Cur.window]
  by_cases ho : c.orig.isNone = true
  · simp only [ho, if_true]
    by_cases hf : c.fits n = true
    · simp only [hf, if_true]
      by_cases hp : c.pos + n ≤ c.lim
      · have h1 : c.pos + n ≤ c.lim ∧ c.lim ≤ a.size := ⟨hp, hla⟩
        have h2 : c.pos + n ≤ c.lim ∧ c.lim ≤ b.size := ⟨hp, hlb⟩
        simp only [h1, h2, and_self, if_true]
      · have h1 : ¬ (c.pos + n ≤ c.lim ∧ c.lim ≤ a.size) := fun x => hp x.1
        have h2 : ¬ (c.pos + n ≤ c.lim ∧ c.lim ≤ b.size) := fun x => hp x.1
        simp only [h1, h2, if_false]
    · simp only [hf, Bool.false_eq_true, if_false]
  · simp only [ho, Bool.false_eq_true, if_false]

end Rsdns.C04
