/-
  Rsdns.Lemmas.Labels — helper lemmas about `iterStep`, `walk`, `nextImpl`, `Labels.drain`.
  (Property statements live in Rsdns/Props; nothing here is a property.)
-/
import Rsdns.Model.Labels
import Rsdns.Spec.Expand
import Rsdns.Lemmas.Bits

set_option linter.unusedVariables false

namespace Rsdns

open Generated Spec

theorem getElem?_lt {msg : Bytes} {i : Nat} {v : UInt8} (h : msg[i]? = some v) : i < msg.size := by
  by_cases hi : i < msg.size
  · exact hi
  · simp [Array.getElem?_eq_none (Nat.le_of_not_lt hi)] at h

/-- `u8` succeeds exactly when a byte is in view -/
theorem Cur.u8_eq {msg : Bytes} {c : Cur} {v : UInt8} (hl : c.pos < c.lim) (h : msg[c.pos]? = some v) :
    c.u8 msg = .ok (v, { c with pos := c.pos + 1 }) := by
  have hlt := getElem?_lt h
  unfold Cur.u8 Cur.isEmpty Cur.len
  have h1 : (c.lim - c.pos == 0) = false := by
    simp only [beq_eq_false_iff_ne, ne_eq]; omega
  have h2 : c.pos < c.lim ∧ c.pos < msg.size := ⟨hl, hlt⟩
  simp only [h1, Bool.not_false, if_true, h2, and_self, dite_true]
  rw [Array.getElem?_eq_getElem hlt] at h
  simp only [Option.some.injEq] at h
  simp [h]

theorem Cur.u8_err {msg : Bytes} {c : Cur} (hl : c.lim ≤ c.pos) : c.u8 msg = .err c.boundError := by
  unfold Cur.u8 Cur.isEmpty Cur.len
  have h1 : (c.lim - c.pos == 0) = true := by
    simp only [beq_iff_eq]; omega
  simp [h1]

theorem Cur.slice_eq {msg : Bytes} {c : Cur} {n : Nat} (hp : c.pos + n ≤ c.lim) (hl : c.lim ≤ msg.size) :
    c.slice msg n = .ok (msg.extract c.pos (c.pos + n), { c with pos := c.pos + n }) := by
  unfold Cur.slice Cur.fits Cur.len
  have h1 : (decide (c.pos ≤ c.lim) && decide (c.lim - c.pos ≥ n)) = true := by
    simp only [Bool.and_eq_true, decide_eq_true_eq]; omega
  have h2 : c.pos + n ≤ c.lim ∧ c.lim ≤ msg.size := ⟨hp, hl⟩
  simp [h1, h2]

/-- every way `iterStep` can succeed -/
theorem iterStep_ok_cases {msg : Bytes} {s : LSt} {st : Step} (h : iterStep msg s = .ok st) :
    ∃ label c1, s.cur.u8 msg = .ok (label, c1) ∧
      ((label = 0 ∧ st = .zero { s with cur := c1, maxPos := if s.maxPos = 0 then c1.pos else s.maxPos }) ∨
       (label ≠ 0 ∧ is_length label.toNat = true ∧ ∃ bytes c2, c1.slice msg label.toNat = .ok (bytes, c2) ∧
          st = .label bytes s.cur.pos { s with cur := c2 }) ∨
       (label ≠ 0 ∧ is_length label.toNat = false ∧ is_pointer label.toNat = true ∧
          ∃ o2 c2, c1.u8 msg = .ok (o2, c2) ∧
            2 ≤ (if s.maxPos = 0 then c2.pos else s.maxPos) ∧
            pointer_to_offset label.toNat o2.toNat < (if s.maxPos = 0 then c2.pos else s.maxPos) - 2 ∧
            s.nptr + 1 ≤ DOMAIN_NAME_MAX_POINTERS ∧
            st = .jump { cur := c2.setPos (pointer_to_offset label.toNat o2.toNat),
                         maxPos := if s.maxPos = 0 then c2.pos else s.maxPos, nptr := s.nptr + 1 })) := by
  unfold iterStep at h
  simp only at h
  split at h <;> try (simp at h; done)
  rename_i label c1 hu
  refine ⟨label, c1, hu, ?_⟩
  by_cases hz : label = 0
  · left
    simp only [hz, beq_self_eq_true, if_true, Res.ok.injEq] at h
    exact ⟨hz, h.symm⟩
  · right
    have hz' : (label == 0) = false := by simp [hz]
    simp only [hz', Bool.false_eq_true, if_false] at h
    by_cases hl : is_length label.toNat = true
    · left
      simp only [hl, if_true] at h
      split at h <;> try (simp at h; done)
      rename_i bytes c2 hs
      simp only [Res.ok.injEq] at h
      exact ⟨hz, hl, bytes, c2, hs, h.symm⟩
    · right
      have hl' : is_length label.toNat = false := by simpa using hl
      simp only [hl', Bool.false_eq_true, if_false] at h
      by_cases hp : is_pointer label.toNat = true
      · simp only [hp, if_true] at h
        split at h <;> try (simp at h; done)
        rename_i o2 c2 hu2
        refine ⟨hz, hl', hp, o2, c2, hu2, ?_⟩
        generalize (if s.maxPos = 0 then c2.pos else s.maxPos) = mp at h ⊢
        by_cases h2 : mp < 2
        · simp [h2] at h
        · by_cases hoff : pointer_to_offset label.toNat o2.toNat ≥ mp - 2
          · simp [h2, hoff] at h
          · by_cases hn : s.nptr + 1 > DOMAIN_NAME_MAX_POINTERS
            · simp [h2, hoff, hn] at h
            · simp only [h2, hoff, hn, if_false, Res.ok.injEq] at h
              exact ⟨by omega, by omega, by omega, h.symm⟩
      · simp [hp] at h

/-- facts about the bytes under a successful zero step -/
theorem iterStep_zero {msg : Bytes} {s s' : LSt} (h : iterStep msg s = .ok (.zero s')) :
    msg[s.cur.pos]? = some 0 ∧ s'.cur.pos = s.cur.pos + 1 ∧ s'.nptr = s.nptr ∧
      s'.maxPos = (if s.maxPos = 0 then s.cur.pos + 1 else s.maxPos) ∧ s.cur.pos < s.cur.lim := by
  obtain ⟨label, c1, hu, hc⟩ := iterStep_ok_cases h
  have h1 := Cur.u8_ok hu
  rcases hc with ⟨hz, hst⟩ | ⟨_, _, _, _, _, hst⟩ | ⟨_, _, _, _, _, _, _, _, _, hst⟩
  · simp only [Step.zero.injEq] at hst
    subst hst
    subst hz
    refine ⟨h1.2.2.2.2.2, h1.2.1, rfl, ?_, h1.2.2.2.1⟩
    simp only [h1.2.1]
  · simp at hst
  · simp at hst

theorem iterStep_label_spec {msg : Bytes} {s s' : LSt} {b : Bytes} {p : Nat}
    (h : iterStep msg s = .ok (.label b p s')) :
    ∃ n : UInt8, msg[s.cur.pos]? = some n ∧ 0 < n.toNat ∧ n.toNat < 64 ∧
      s.cur.pos + 1 + n.toNat ≤ msg.size ∧ b = msg.extract (s.cur.pos + 1) (s.cur.pos + 1 + n.toNat) ∧
      s'.cur.pos = s.cur.pos + 1 + n.toNat ∧ p = s.cur.pos ∧ s'.nptr = s.nptr ∧ s'.maxPos = s.maxPos ∧
      s'.cur.lim = s.cur.lim ∧ s'.cur.pos ≤ s.cur.lim := by
  obtain ⟨label, c1, hu, hc⟩ := iterStep_ok_cases h
  have h1 := Cur.u8_ok hu
  rcases hc with ⟨hz, hst⟩ | ⟨hz, hl, bytes, c2, hs, hst⟩ | ⟨_, _, _, _, _, _, _, _, _, hst⟩
  · simp at hst
  · have h2 := Cur.slice_ok hs
    simp only [Step.label.injEq] at hst
    obtain ⟨rfl, rfl, rfl⟩ := hst
    have hlt : label.toNat < 64 := by
      have := is_length_iff label.toNat label.toNat_lt
      rw [hl] at this
      simpa using this.symm
    have hpos : 0 < label.toNat := UInt8.toNat_pos_of_ne_zero (by simpa using hz)
    refine ⟨label, h1.2.2.2.2.2, hpos, hlt, by omega, ?_, by simp only; omega, rfl, rfl, rfl, by simp only; omega,
      by simp only; omega⟩
    rw [h2.2.2.2.2.2, h1.2.1]
  · simp at hst

theorem iterStep_jump_spec {msg : Bytes} {s s' : LSt} (h : iterStep msg s = .ok (.jump s')) :
    ∃ b1 b2 : UInt8, msg[s.cur.pos]? = some b1 ∧ 192 ≤ b1.toNat ∧ msg[s.cur.pos + 1]? = some b2 ∧
      s'.cur.pos = ptrTarget b1 b2 ∧ s'.nptr = s.nptr + 1 ∧ s'.nptr ≤ DOMAIN_NAME_MAX_POINTERS ∧
      s'.maxPos = (if s.maxPos = 0 then s.cur.pos + 2 else s.maxPos) ∧ 2 ≤ s'.maxPos ∧
      ptrTarget b1 b2 < s'.maxPos - 2 ∧ s'.cur.lim = s.cur.lim ∧ s.cur.pos + 2 ≤ s.cur.lim := by
  obtain ⟨label, c1, hu, hc⟩ := iterStep_ok_cases h
  have h1 := Cur.u8_ok hu
  rcases hc with ⟨hz, hst⟩ | ⟨_, _, _, _, _, hst⟩ | ⟨hz, hl, hp, o2, c2, hu2, hm2, hoff, hn, hst⟩
  · simp at hst
  · simp at hst
  · have h2 := Cur.u8_ok hu2
    simp only [Step.jump.injEq] at hst
    subst hst
    have hge : 192 ≤ label.toNat := by
      have := is_pointer_iff label.toNat label.toNat_lt
      rw [hp] at this
      simpa using this.symm
    have hoffeq : pointer_to_offset label.toNat o2.toNat = ptrTarget label o2 := by
      rw [pointer_to_offset_eq _ _ label.toNat_lt o2.toNat_lt]
      unfold ptrTarget
      have := label.toNat_lt
      omega
    have hc2 : c2.pos = s.cur.pos + 2 := by omega
    refine ⟨label, o2, h1.2.2.2.2.2, hge, ?_, ?_, rfl, hn, ?_, ?_, ?_, ?_, ?_⟩
    · rw [← h1.2.1]; exact h2.2.2.2.2.2
    · simp only [Cur.setPos]; exact hoffeq
    · simp only [hc2]
    · simpa only [hc2] using hm2
    · simp only [← hoffeq]; exact hoff
    · simp only [Cur.setPos]; omega
    · omega


/-! ### name accumulation -/

theorem appendLabelBytes_ok {k : NameKind} {name l r : Bytes} (h : appendLabelBytes k name l = .ok r) :
    r = (name ++ l).push DOT ∧ checkLabel l = .ok () ∧ name.size + l.size + 1 < DOMAIN_NAME_MAX_LENGTH := by
  unfold appendLabelBytes at h
  split at h <;> try (simp at h; done)
  rename_i hck
  split at h
  · simp at h
  · by_cases hlen : name.size + l.size + 1 ≥ DOMAIN_NAME_MAX_LENGTH
    · cases k <;> simp [hlen] at h
    · cases k
      · simp only [hlen, if_false, Res.ok.injEq] at h
        exact ⟨h.symm, hck, by omega⟩
      · have h1 : ¬ (name.size + l.size > INLINE_CAP) := by unfold INLINE_CAP; omega
        have h2 : ¬ ((name ++ l).size + 1 > INLINE_CAP) := by
          unfold INLINE_CAP; simp only [Array.size_append]; omega
        simp only [hlen, h1, h2, if_false, Res.ok.injEq] at h
        exact ⟨h.symm, hck, by omega⟩

theorem textOf_size_pos {l : Bytes} {ls : List Bytes} : 0 < (textOf (l :: ls)).size := by
  simp [textOf]
  omega

theorem textOf_cons_assoc (acc l : Bytes) (ls : List Bytes) :
    (acc ++ l).push DOT ++ textOf ls = acc ++ textOf (l :: ls) := by
  simp only [textOf, DOT]
  rw [Array.push_eq_append, Array.push_eq_append]
  simp only [Array.append_assoc]

theorem Mode.onLabel_read_ok {k : NameKind} {acc b acc' : Bytes} (h : (Mode.read k).onLabel acc b = .ok acc') :
    acc' = (acc ++ b).push DOT ∧ checkLabel b = .ok () ∧ acc.size + b.size + 1 < DOMAIN_NAME_MAX_LENGTH := by
  simp only [Mode.onLabel] at h
  exact appendLabelBytes_ok h

theorem Mode.onLabel_skip_ok {acc b acc' : Bytes} (h : Mode.skip.onLabel acc b = .ok acc') :
    acc' = acc ∧ checkLabel b = .ok () := by
  simp only [Mode.onLabel] at h
  split at h <;> simp at h
  rename_i hck
  exact ⟨h.symm, hck⟩

theorem Mode.onLabel_ok_check {m : Mode} {acc b acc' : Bytes} (h : m.onLabel acc b = .ok acc') :
    checkLabel b = .ok () := by
  cases m with
  | read k => exact (Mode.onLabel_read_ok h).2.1
  | skip => exact (Mode.onLabel_skip_ok h).2


/-! ### positive step lemmas (used by the completeness proofs) -/

theorem iterStep_zero_eq {msg : Bytes} {s : LSt} (hl : s.cur.pos < s.cur.lim) (h : msg[s.cur.pos]? = some 0) :
    iterStep msg s = .ok (.zero { cur := { lim := s.cur.lim, pos := s.cur.pos + 1, orig := s.cur.orig },
                                  maxPos := if s.maxPos = 0 then s.cur.pos + 1 else s.maxPos, nptr := s.nptr }) := by
  unfold iterStep
  simp only [Cur.u8_eq hl h, beq_self_eq_true, if_true]

theorem iterStep_label_eq {msg : Bytes} {s : LSt} {n : UInt8} (hb : msg[s.cur.pos]? = some n)
    (hp : 0 < n.toNat) (hlt : n.toNat < 64) (hl : s.cur.pos + 1 + n.toNat ≤ s.cur.lim) (hm : s.cur.lim ≤ msg.size) :
    iterStep msg s = .ok (.label (msg.extract (s.cur.pos + 1) (s.cur.pos + 1 + n.toNat)) s.cur.pos
      { cur := { lim := s.cur.lim, pos := s.cur.pos + 1 + n.toNat, orig := s.cur.orig },
        maxPos := s.maxPos, nptr := s.nptr }) := by
  unfold iterStep
  have hne : (n == 0) = false := by
    simp only [beq_eq_false_iff_ne, ne_eq]
    intro h0; subst h0; simp at hp
  have hlen : is_length n.toNat = true := by
    rw [is_length_iff n.toNat n.toNat_lt]; simpa using hlt
  simp only [Cur.u8_eq (show s.cur.pos < s.cur.lim by omega) hb, hne, Bool.false_eq_true, if_false, hlen, if_true]
  rw [Cur.slice_eq (c := { s.cur with pos := s.cur.pos + 1 }) (by simpa using hl) hm]

theorem iterStep_jump_eq {msg : Bytes} {s : LSt} {b1 b2 : UInt8} (hb1 : msg[s.cur.pos]? = some b1)
    (hge : 192 ≤ b1.toNat) (hb2 : msg[s.cur.pos + 1]? = some b2) (hl : s.cur.pos + 2 ≤ s.cur.lim) :
    iterStep msg s =
      (let mp := if s.maxPos = 0 then s.cur.pos + 2 else s.maxPos
       if mp < 2 then .panic .overflow
       else if ptrTarget b1 b2 ≥ mp - 2 then .err (.badPointer (ptrTarget b1 b2) mp)
       else if s.nptr + 1 > DOMAIN_NAME_MAX_POINTERS then .err .tooMuchPointers
       else .ok (.jump { cur := { lim := s.cur.lim, pos := ptrTarget b1 b2, orig := s.cur.orig },
                         maxPos := mp, nptr := s.nptr + 1 })) := by
  unfold iterStep
  have hne : (b1 == 0) = false := by
    simp only [beq_eq_false_iff_ne, ne_eq]
    intro h0; subst h0; simp at hge
  have hlen : is_length b1.toNat = false := by
    rw [is_length_iff b1.toNat b1.toNat_lt]; simp; omega
  have hptr : is_pointer b1.toNat = true := by
    rw [is_pointer_iff b1.toNat b1.toNat_lt]; simpa using hge
  have hoffeq : pointer_to_offset b1.toNat b2.toNat = ptrTarget b1 b2 := by
    rw [pointer_to_offset_eq _ _ b1.toNat_lt b2.toNat_lt]
    unfold ptrTarget
    have := b1.toNat_lt
    omega
  simp only [Cur.u8_eq (show s.cur.pos < s.cur.lim by omega) hb1, hne, Bool.false_eq_true, if_false, hlen, hptr,
    if_true]
  rw [Cur.u8_eq (c := { s.cur with pos := s.cur.pos + 1 }) (by simpa using (show s.cur.pos + 1 < s.cur.lim by omega))
    (by simpa using hb2)]
  simp only [hoffeq, Cur.setPos]

theorem checkLabel_ok_ascii {l : Bytes} (h : checkLabel l = .ok ()) : l.all (fun b => decide (b.toNat < 128)) = true := by
  unfold checkLabel at h
  split at h
  · simp at h
  · split at h
    · simp at h
    · split at h
      · simp at h
      · rename_i hfind
        rw [Array.all_eq_true]
        intro i hi
        have := List.find?_eq_none.mp hfind (l[i]) (by simp)
        simp only [Bool.not_eq_true, Bool.not_eq_eq_eq_not, Bool.not_false] at this
        simpa using label_char_ok_ascii _ (l[i]).toNat_lt (by simpa using this)

theorem appendLabelBytes_eq {k : NameKind} {name l : Bytes} (hck : checkLabel l = .ok ())
    (hlen : name.size + l.size + 1 < DOMAIN_NAME_MAX_LENGTH) :
    appendLabelBytes k name l = .ok ((name ++ l).push DOT) := by
  unfold appendLabelBytes
  have ha := checkLabel_ok_ascii hck
  have hlen' : ¬ (name.size + l.size + 1 ≥ DOMAIN_NAME_MAX_LENGTH) := by omega
  cases k
  · simp only [hck, ha, not_true_eq_false, if_false, hlen']
  · have h1 : ¬ (name.size + l.size > INLINE_CAP) := by unfold INLINE_CAP; omega
    have h2 : ¬ ((name ++ l).size + 1 > INLINE_CAP) := by
      unfold INLINE_CAP; simp only [Array.size_append]; omega
    simp only [hck, ha, not_true_eq_false, if_false, hlen', h1, h2]


/-- the text accumulated by `read` stays strictly below the limit (wire form ≤ 255 octets) -/
theorem walk_text_len (msg : Bytes) (k : NameKind) (s : LSt) (acc : Bytes) (ls : List Bytes) (n : Nat)
    (o : WalkOut) (h : walk msg (.read k) s acc ls n = .ok o) (hacc : acc.size < DOMAIN_NAME_MAX_LENGTH) :
    o.text.size < DOMAIN_NAME_MAX_LENGTH := by
  generalize hm : Mode.read k = m at h
  fun_induction walk msg m s acc ls n with
  | case1 => simp at h
  | case2 => simp at h
  | case3 => simp at h
  | case4 s acc ls n s' hst =>
    simp only [Res.ok.injEq] at h
    subst h
    exact hacc
  | case5 => simp at h
  | case6 => simp at h
  | case7 => simp at h
  | case8 s acc ls n bytes p s' hst acc' hon ih =>
    subst hm
    have := Mode.onLabel_read_ok hon
    refine ih ?_ h
    rw [this.1]
    simp only [Array.size_push, Array.size_append]
    omega
  | case9 s acc ls n s' hst ih => exact ih hacc h

end Rsdns
