/-
  Rsdns.Lemmas.Safety — every cursor primitive and every instantiation of the label loop returns a
  value or an error (never `panic`, never `ub`) from ANY cursor whose view is a prefix of the message
  (`Cur.OK`): no assumption on `pos`, which callers may set anywhere.
-/
import Rsdns.Lemmas.Labels
import Rsdns.Props.C03

set_option linter.unusedVariables false

namespace Rsdns

open Generated Spec

/-! ### cursor primitives -/

theorem Cur.OK.withPos (msg : Bytes) (pos : Nat) : Cur.OK msg (Cur.withPos msg pos) :=
  ⟨Nat.le_refl _, by intro o h; simp [Cur.withPos] at h⟩

theorem Cur.OK.new (msg : Bytes) : Cur.OK msg (Cur.new msg) :=
  ⟨Nat.le_refl _, by intro o h; simp [Cur.new] at h⟩

theorem Cur.OK.setPos {msg : Bytes} {c : Cur} (h : Cur.OK msg c) (p : Nat) : Cur.OK msg (c.setPos p) :=
  ⟨h.lim_le, h.orig_le⟩

theorem Cur.OK.cloneWithPos {msg : Bytes} {c : Cur} (h : Cur.OK msg c) (p : Nat) :
    Cur.OK msg (c.cloneWithPos p) := by
  refine ⟨?_, by intro o ho; simp [Cur.cloneWithPos] at ho⟩
  simp only [Cur.cloneWithPos]
  cases ho : c.orig with
  | none => simpa using h.lim_le
  | some o => simpa using (h.orig_le o ho).2

/-- `u8`: never panics / UB; on success the cursor advanced by one inside the view -/
theorem Cur.u8_spec {msg : Bytes} {c : Cur} (h : Cur.OK msg c) :
    (∃ v, c.u8 msg = .ok (v, { c with pos := c.pos + 1 }) ∧ c.pos < c.lim) ∨
    (c.u8 msg = .err c.boundError ∧ c.lim ≤ c.pos) := by
  by_cases hl : c.pos < c.lim
  · left
    have hm : c.pos < msg.size := Nat.lt_of_lt_of_le hl h.lim_le
    exact ⟨msg[c.pos], Cur.u8_eq hl (by simp [hm]), hl⟩
  · right
    exact ⟨Cur.u8_err (by omega), by omega⟩

theorem Cur.rBe_spec {msg : Bytes} {c : Cur} (h : Cur.OK msg c) (n : Nat) (hn : 0 < n) :
    (c.rBe msg n = .ok (Cur.beNat msg c.pos n, { c with pos := c.pos + n }) ∧ c.pos + n ≤ c.lim) ∨
    (c.rBe msg n = .err c.boundError ∧ c.lim < c.pos + n) := by
  unfold Cur.rBe Cur.len
  have := h.lim_le
  by_cases hl : c.lim - c.pos ≥ n
  · left
    have h2 : c.pos ≤ c.lim ∧ c.pos + n ≤ msg.size := by omega
    simp only [hl, if_true, h2, and_self]
    exact ⟨trivial, by omega⟩
  · right
    simp only [hl, if_false]
    exact ⟨trivial, by omega⟩

theorem Cur.slice_spec {msg : Bytes} {c : Cur} (h : Cur.OK msg c) (n : Nat) :
    (c.slice msg n = .ok (msg.extract c.pos (c.pos + n), { c with pos := c.pos + n }) ∧ c.pos + n ≤ c.lim) ∨
    (c.slice msg n = .err c.boundError ∧ c.lim < c.pos + n ∨ c.slice msg n = .err c.boundError ∧ c.lim < c.pos) := by
  have := h.lim_le
  by_cases hl : c.pos + n ≤ c.lim
  · left
    exact ⟨Cur.slice_eq hl this, hl⟩
  · right
    left
    unfold Cur.slice Cur.fits Cur.len
    have h1 : (decide (c.pos ≤ c.lim) && decide (c.lim - c.pos ≥ n)) = false := by
      simp only [Bool.and_eq_false_iff, decide_eq_false_iff_not]
      omega
    simp only [h1, Bool.false_eq_true, if_false]
    exact ⟨trivial, by omega⟩

theorem Cur.skip_spec (c : Cur) (n : Nat) :
    (c.skip n = .ok { c with pos := c.pos + n } ∧ c.lim - c.pos ≥ n) ∨ (c.skip n = .err c.boundError) := by
  unfold Cur.skip Cur.len
  by_cases hl : c.lim - c.pos ≥ n
  · left; simp [hl]
  · right; simp [hl]

theorem Cur.window_spec {msg : Bytes} {c : Cur} (h : Cur.OK msg c) (n : Nat) :
    (c.window msg n = .ok { lim := c.pos + n, pos := c.pos, orig := some c.lim } ∧ c.orig = none ∧
        c.pos + n ≤ c.lim) ∨
    (∃ e, c.window msg n = .err e) := by
  unfold Cur.window Cur.fits Cur.len
  have := h.lim_le
  cases ho : c.orig with
  | some o => right; exact ⟨.cursorAlreadyInWindow, by simp⟩
  | none =>
    by_cases hl : c.pos + n ≤ c.lim
    · left
      have h1 : (decide (c.pos ≤ c.lim) && decide (c.lim - c.pos ≥ n)) = true := by
        simp only [Bool.and_eq_true, decide_eq_true_eq]; omega
      have h2 : c.pos + n ≤ c.lim ∧ c.lim ≤ msg.size := ⟨hl, this⟩
      simp [h1, h2, hl]
    · right
      have h1 : (decide (c.pos ≤ c.lim) && decide (c.lim - c.pos ≥ n)) = false := by
        simp only [Bool.and_eq_false_iff, decide_eq_false_iff_not]
        omega
      exact ⟨.endOfBuffer, by simp [h1]⟩

theorem Cur.closeWindow_spec (c : Cur) :
    (∃ o, c.orig = some o ∧ c.pos = c.lim ∧ c.closeWindow = .ok { lim := o, pos := c.pos, orig := none }) ∨
    (∃ e, c.closeWindow = .err e) := by
  unfold Cur.closeWindow
  cases ho : c.orig with
  | none => right; exact ⟨.cursorNotInWindow, rfl⟩
  | some o =>
    by_cases hp : c.pos = c.lim
    · left; exact ⟨o, rfl, hp, by simp [hp]⟩
    · right; exact ⟨.cursorWindowError c.lim c.pos, by simp [hp]⟩

/-! ### the label loop -/

/-- invariant of the loop state: the cursor view is inside the message and `max_pos`, once set, is
    at least 2 (so `max_pos - 2` cannot underflow) -/
structure LSt.OK (msg : Bytes) (s : LSt) : Prop where
  cur : Cur.OK msg s.cur
  mp : s.maxPos = 0 ∨ 2 ≤ s.maxPos

theorem iterStep_safe {msg : Bytes} {s : LSt} (h : LSt.OK msg s) :
    (iterStep msg s).safe ∧ ∀ st, iterStep msg s = .ok st →
      match st with
      | .zero s' => Cur.OK msg s'.cur ∧ s'.maxPos ≠ 0
      | .label _ _ s' => LSt.OK msg s'
      | .jump s' => LSt.OK msg s' := by
  have hcur := h.cur
  unfold iterStep
  rcases Cur.u8_spec hcur with ⟨label, hu, hlt⟩ | ⟨hu, _⟩
  · simp only [hu]
    by_cases hz : label = 0
    · subst hz
      simp only [beq_self_eq_true, if_true, Res.safe_ok, true_and]
      intro st hst
      simp only [Res.ok.injEq] at hst
      subst hst
      refine ⟨⟨hcur.lim_le, hcur.orig_le⟩, ?_⟩
      simp only
      split <;> omega
    · have hz' : (label == 0) = false := by simp [hz]
      simp only [hz', Bool.false_eq_true, if_false]
      by_cases hl : is_length label.toNat = true
      · simp only [hl, if_true]
        have hc1 : Cur.OK msg { lim := s.cur.lim, pos := s.cur.pos + 1, orig := s.cur.orig } := ⟨hcur.lim_le, hcur.orig_le⟩
        rcases Cur.slice_spec hc1 label.toNat with ⟨hs, _⟩ | ⟨hs, _⟩ | ⟨hs, _⟩
        · simp only [hs, Res.safe_ok, true_and]
          intro st hst
          simp only [Res.ok.injEq] at hst
          subst hst
          exact ⟨⟨hcur.lim_le, hcur.orig_le⟩, h.mp⟩
        · simp [hs]
        · simp [hs]
      · have hl' : is_length label.toNat = false := by simpa using hl
        simp only [hl', Bool.false_eq_true, if_false]
        by_cases hp : is_pointer label.toNat = true
        · simp only [hp, if_true]
          have hc1 : Cur.OK msg { lim := s.cur.lim, pos := s.cur.pos + 1, orig := s.cur.orig } := ⟨hcur.lim_le, hcur.orig_le⟩
          rcases Cur.u8_spec hc1 with ⟨o2, hu2, _⟩ | ⟨hu2, _⟩
          · simp only [hu2]
            have hmp2 : 2 ≤ (if s.maxPos = 0 then s.cur.pos + 1 + 1 else s.maxPos) := by
              rcases h.mp with h0 | h2
              · simp [h0]
              · split <;> omega
            generalize (if s.maxPos = 0 then s.cur.pos + 1 + 1 else s.maxPos) = mp at hmp2 ⊢
            have hn2 : ¬ (mp < 2) := by omega
            simp only [hn2, if_false]
            split
            · simp
            · split
              · simp
              · simp only [Res.safe_ok, true_and]
                intro st hst
                simp only [Res.ok.injEq] at hst
                subst hst
                exact ⟨⟨hcur.lim_le, hcur.orig_le⟩, Or.inr hmp2⟩
          · simp [hu2]
        · have hp' : is_pointer label.toNat = false := by simpa using hp
          simp [hp']
  · simp [hu]

theorem checkLabel_safe (l : Bytes) : (checkLabel l).safe := by
  unfold checkLabel
  split
  · simp
  · split
    · simp
    · split
      · simp
      · simp only
        split
        · simp
        · split <;> simp

theorem checkLabel_ok_or_err (l : Bytes) : checkLabel l = .ok () ∨ ∃ e, checkLabel l = .err e := by
  have := checkLabel_safe l
  cases h : checkLabel l with
  | ok u => left; rfl
  | err e => right; exact ⟨e, rfl⟩
  | panic p => rw [h] at this; simp at this
  | ub => rw [h] at this; simp at this

theorem appendLabelBytes_safe (k : NameKind) (name l : Bytes) : (appendLabelBytes k name l).safe := by
  unfold appendLabelBytes
  rcases checkLabel_ok_or_err l with hck | ⟨e, hck⟩
  · have ha := checkLabel_ok_ascii hck
    simp only [hck, ha, not_true_eq_false, if_false]
    split
    · simp
    · cases k <;> simp only
      · simp
      · split
        · simp
        · split <;> simp
  · simp [hck]

theorem Mode.onLabel_safe (m : Mode) (acc b : Bytes) : (m.onLabel acc b).safe := by
  cases m with
  | read k => exact appendLabelBytes_safe k acc b
  | skip =>
    simp only [Mode.onLabel]
    rcases checkLabel_ok_or_err b with h | ⟨e, h⟩ <;> simp [h]

/-- the read / skip loops never panic and never leave the buffer, from any loop state satisfying the
    invariant; on success `max_pos` is set -/
theorem walk_safe (msg : Bytes) (m : Mode) (s : LSt) (acc : Bytes) (ls : List Bytes) (n : Nat)
    (h : LSt.OK msg s) :
    (walk msg m s acc ls n).safe ∧ ∀ o, walk msg m s acc ls n = .ok o → o.maxPos ≠ 0 := by
  fun_induction walk msg m s acc ls n with
  | case1 s acc ls n e hst => simp
  | case2 s acc ls n p hst =>
    have := (iterStep_safe h).1
    rw [hst] at this
    simp at this
  | case3 s acc ls n hst =>
    have := (iterStep_safe h).1
    rw [hst] at this
    simp at this
  | case4 s acc ls n s' hst =>
    have := (iterStep_safe h).2 _ hst
    simp only at this
    refine ⟨by simp, ?_⟩
    intro o ho
    simp only [Res.ok.injEq] at ho
    subst ho
    exact this.2
  | case5 s acc ls n bytes p s' hst e hon => simp
  | case6 s acc ls n bytes p s' hst pk hon =>
    have := Mode.onLabel_safe m acc bytes
    rw [hon] at this
    simp at this
  | case7 s acc ls n bytes p s' hst hon =>
    have := Mode.onLabel_safe m acc bytes
    rw [hon] at this
    simp at this
  | case8 s acc ls n bytes p s' hst acc' hon ih =>
    have := (iterStep_safe h).2 _ hst
    exact ih this
  | case9 s acc ls n s' hst ih =>
    have := (iterStep_safe h).2 _ hst
    exact ih this

theorem LSt.OK.init {msg : Bytes} {c : Cur} (h : Cur.OK msg c) : LSt.OK msg { cur := c, maxPos := 0, nptr := 0 } :=
  ⟨h, Or.inl rfl⟩

theorem readName_safe (k : NameKind) (msg : Bytes) (c : Cur) (h : Cur.OK msg c) : (readName k msg c).safe := by
  unfold readName
  have := (walk_safe msg (.read k) _ #[] [] 0 (LSt.OK.init h)).1
  split <;> simp_all

theorem skipName_safe (msg : Bytes) (c : Cur) (h : Cur.OK msg c) : (skipName msg c).safe := by
  unfold skipName
  have hs := (walk_safe msg .skip _ #[] [] 0 (LSt.OK.init h)).1
  split
  · simp
  · rename_i hw; rw [hw] at hs; simp at hs
  · rename_i hw; rw [hw] at hs; simp at hs
  · rename_i o hw
    obtain ⟨tail, nxt, _, hex, hm0, _⟩ := C03.walk_sound _ _ _ _ _ _ _ hw
    have hlt := Expand.lt_next hex
    have : o.maxPos = nxt := hm0 rfl
    have hnot : ¬ (o.maxPos < c.pos) := by simp only at hlt; omega
    simp [hnot]

theorem nextImpl_safe (msg : Bytes) (s : LSt) (h : LSt.OK msg s) :
    (nextImpl msg s).safe ∧ ∀ lab s', nextImpl msg s = .ok (some lab, s') → LSt.OK msg s' := by
  fun_induction nextImpl msg s with
  | case1 => simp
  | case2 s p hst =>
    have := (iterStep_safe h).1
    rw [hst] at this; simp at this
  | case3 s hst =>
    have := (iterStep_safe h).1
    rw [hst] at this; simp at this
  | case4 s s1 hst => simp
  | case5 => simp
  | case6 s bytes pos s1 hst p hck =>
    have := checkLabel_safe bytes
    rw [hck] at this; simp at this
  | case7 s bytes pos s1 hst hck =>
    have := checkLabel_safe bytes
    rw [hck] at this; simp at this
  | case8 s bytes pos s1 hst hck =>
    have := (iterStep_safe h).2 _ hst
    refine ⟨by simp, ?_⟩
    intro r s' hr
    simp only [Res.ok.injEq, Prod.mk.injEq] at hr
    obtain ⟨_, rfl⟩ := hr
    exact this
  | case9 s s1 hst ih =>
    have := (iterStep_safe h).2 _ hst
    exact ih this

/-- invariant of a `Labels` iterator: finished, or its loop state is fine -/
def Labels.Inv (msg : Bytes) (l : Labels) : Prop := l.done = true ∨ LSt.OK msg l.st

theorem Labels.Inv.new {msg : Bytes} {c : Cur} (h : Cur.OK msg c) : Labels.Inv msg (Labels.new c) :=
  Or.inr (LSt.OK.init h)

theorem Labels.next_safe (msg : Bytes) (l : Labels) (h : Labels.Inv msg l) :
    (Labels.next msg l).safe ∧ ∀ o l', Labels.next msg l = .ok (o, l') → Labels.Inv msg l' := by
  unfold Labels.next
  split
  · rename_i hd
    exact ⟨by simp, by intro o l' hh; simp only [Res.ok.injEq, Prod.mk.injEq] at hh; obtain ⟨_, rfl⟩ := hh; exact Or.inl hd⟩
  · rename_i hd
    have h' : LSt.OK msg l.st := by
      rcases h with h | h
      · exact absurd h hd
      · exact h
    have hs := nextImpl_safe msg l.st h'
    split
    · rename_i lab s' hn
      refine ⟨by simp, ?_⟩
      intro o l' hh
      simp only [Res.ok.injEq, Prod.mk.injEq] at hh
      obtain ⟨_, rfl⟩ := hh
      exact Or.inr (hs.2 _ _ hn)
    · rename_i s' hn
      refine ⟨by simp, ?_⟩
      intro o l' hh
      simp only [Res.ok.injEq, Prod.mk.injEq] at hh
      obtain ⟨_, rfl⟩ := hh
      exact Or.inl rfl
    · refine ⟨by simp, ?_⟩
      intro o l' hh
      simp only [Res.ok.injEq, Prod.mk.injEq] at hh
      obtain ⟨_, rfl⟩ := hh
      exact Or.inl rfl
    · rename_i p hn; rw [hn] at hs; simp at hs
    · rename_i hn; rw [hn] at hs; simp at hs

theorem drain_safe (msg : Bytes) (l : Labels) (acc : List LabelRef) (h : Labels.Inv msg l) :
    (Labels.drain msg l acc).safe := by
  fun_induction Labels.drain msg l acc with
  | case1 => simp
  | case2 l acc hd lab s' hn ih =>
    have h' : LSt.OK msg l.st := by
      rcases h with h | h
      · exact absurd h hd
      · exact h
    exact ih (Or.inr ((nextImpl_safe msg l.st h').2 _ _ hn))
  | case3 => simp
  | case4 => simp
  | case5 l acc hd p hn =>
    have h' : LSt.OK msg l.st := by
      rcases h with h | h
      · exact absurd h hd
      · exact h
    have := (nextImpl_safe msg l.st h').1
    rw [hn] at this; simp at this
  | case6 l acc hd hn =>
    have h' : LSt.OK msg l.st := by
      rcases h with h | h
      · exact absurd h hd
      · exact h
    have := (nextImpl_safe msg l.st h').1
    rw [hn] at this; simp at this

/-- `NameRef::eq` on two names — possibly in two different messages — never panics or leaves either
    buffer -/
theorem nameRefEqLoop_safe (ma mb : Bytes) (a b : Labels) (ha : Labels.Inv ma a) (hb : Labels.Inv mb b) :
    (nameRefEqLoop ma mb a b).safe := by
  have key : ∀ a : Labels, Labels.Inv ma a → ¬ a.done = true → LSt.OK ma a.st := by
    intro a h hd
    rcases h with h | h
    · exact absurd h hd
    · exact h
  fun_induction nameRefEqLoop ma mb a b with
  | case1 a b hd p hn => have := (Labels.next_safe mb b hb).1; rw [hn] at this; simp at this
  | case2 a b hd hn => have := (Labels.next_safe mb b hb).1; rw [hn] at this; simp at this
  | case3 => simp
  | case4 => simp
  | case5 => simp
  | case6 a b hd p hn => have := (nextImpl_safe ma a.st (key a ha hd)).1; rw [hn] at this; simp at this
  | case7 a b hd hn => have := (nextImpl_safe ma a.st (key a ha hd)).1; rw [hn] at this; simp at this
  | case8 a b hd e hn p hn2 => have := (Labels.next_safe mb b hb).1; rw [hn2] at this; simp at this
  | case9 a b hd e hn hn2 => have := (Labels.next_safe mb b hb).1; rw [hn2] at this; simp at this
  | case10 => simp
  | case11 => simp
  | case12 => simp
  | case13 a b hd s' hn p hn2 => have := (Labels.next_safe mb b hb).1; rw [hn2] at this; simp at this
  | case14 a b hd s' hn hn2 => have := (Labels.next_safe mb b hb).1; rw [hn2] at this; simp at this
  | case15 => simp
  | case16 => simp
  | case17 => simp
  | case18 a b hd ml sa hn p hn2 => have := (Labels.next_safe mb b hb).1; rw [hn2] at this; simp at this
  | case19 a b hd ml sa hn hn2 => have := (Labels.next_safe mb b hb).1; rw [hn2] at this; simp at this
  | case20 => simp
  | case21 => simp
  | case22 => simp
  | case23 => simp
  | case24 => simp
  | case25 a b hd ml sa hn ol b' hn2 hpos hcase ih =>
    exact ih (Or.inr ((nextImpl_safe ma a.st (key a ha hd)).2 _ _ hn)) ((Labels.next_safe mb b hb).2 _ _ hn2)

end Rsdns
