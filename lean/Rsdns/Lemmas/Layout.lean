/-
  Rsdns.Lemmas.Layout — every message has a layout: the skip pass over its questions and records as far
  as it gets (`qPos`, `rPos`, `passNq`, `passNr`, `layoutOf`), with the facts the history theorem needs
  (`layout_exists`: well-formed layout, `PassUpto`, `Pad`, `Fails`).
-/
import Rsdns.Lemmas.History

set_option linter.unusedVariables false

namespace Rsdns.C09

open Rsdns Generated

/-! ### every message has a layout: the skip pass as far as it gets -/

/-- least `j < n` with `good j = false`, else `n` -/
def firstBad (good : Nat → Bool) : Nat → Nat
  | 0 => 0
  | n + 1 => if firstBad good n < n then firstBad good n else if good n then n + 1 else n

theorem firstBad_le (good : Nat → Bool) : ∀ n, firstBad good n ≤ n
  | 0 => Nat.le_refl _
  | n + 1 => by
    have := firstBad_le good n
    simp only [firstBad]
    split
    · omega
    · split <;> omega

theorem firstBad_good (good : Nat → Bool) : ∀ n j, j < firstBad good n → good j = true
  | 0, j, h => by simp [firstBad] at h
  | n + 1, j, h => by
    have hle := firstBad_le good n
    simp only [firstBad] at h
    split at h
    · exact firstBad_good good n j h
    · rename_i hn
      have heq : firstBad good n = n := by omega
      split at h
      · rename_i hg
        by_cases hj : j < n
        · exact firstBad_good good n j (by omega)
        · have : j = n := by omega
          rw [this]; exact hg
      · exact firstBad_good good n j (by omega)

theorem firstBad_bad (good : Nat → Bool) : ∀ n, firstBad good n < n → good (firstBad good n) = false
  | 0, h => by simp [firstBad] at h
  | n + 1, h => by
    have hle := firstBad_le good n
    simp only [firstBad] at h ⊢
    split
    · rename_i hn; exact firstBad_bad good n hn
    · rename_i hn
      split
      · rename_i hg
        rw [if_neg hn, if_pos hg] at h
        omega
      · rename_i hg
        simpa using hg

/-- a successful `skip_question` from a whole-message cursor: where it ends -/
theorem skipQuestion_ok_pos {msg : Bytes} {p : Nat} {c : Cur} (h : skipQuestion msg (Cur.withPos msg p) = (.ok (), c)) :
    c = Cur.withPos msg c.pos ∧ p < c.pos ∧ c.pos ≤ msg.size := by
  obtain ⟨n, c1, hsk, hc⟩ := skipQuestion_inv msg _ _ h
  obtain ⟨hadv, hl, ho⟩ := skipName_advances msg _ c1 n hsk
  simp only [Cur.withPos] at hadv hl ho
  have hle : c.pos ≤ msg.size := by
    have hf := skipQuestion_ftriple msg msg.size none (Cur.withPos msg p) (Frame.of (Cur.OK.withPos msg p))
    rw [h] at hf
    -- the final `skip 4` succeeded: four bytes were there
    unfold skipQuestion at h
    simp only [bind, CurM.bind, CurM.skipName, CurM.lift, hsk] at h
    simp only [CurM.skip, CurM.lift0] at h
    cases hs : Cur.skip c1 4 with
    | ok c2 =>
      rcases skip_inv c1 4 c2 hs with ⟨e, hb⟩ | ⟨_, hz⟩
      · rw [hc]; simp only; omega
      · omega
    | err e => simp [hs] at h
    | panic pk => simp [hs] at h
    | ub => simp [hs] at h
  refine ⟨?_, by rw [hc]; simp only; omega, hle⟩
  rw [hc]
  simp only [Cur.withPos, hl, ho]

/-- a successful `skip_rr` from a whole-message cursor: where it ends -/
theorem skipRr_ok_pos {msg : Bytes} {p : Nat} {c : Cur} (h : skipRr msg (Cur.withPos msg p) = (.ok (), c)) :
    c = Cur.withPos msg c.pos ∧ p < c.pos ∧ c.pos ≤ msg.size := by
  obtain ⟨n, c1, hsk, hfit, hskip⟩ := skipRr_inv2 msg _ _ h
  obtain ⟨hadv, hl, ho⟩ := skipName_advances msg _ c1 n hsk
  simp only [Cur.withPos] at hadv hl ho
  have hc : c = { c1 with pos := c1.pos + 10 + Cur.beNat msg (c1.pos + 8) 2 } ∧
      c1.pos + 10 + Cur.beNat msg (c1.pos + 8) 2 ≤ c1.lim := by
    rcases skip_inv _ _ c hskip with ⟨e, hb⟩ | ⟨e, hz⟩
    · exact ⟨e, hb⟩
    · refine ⟨e, ?_⟩
      rw [hz]; omega
  refine ⟨?_, by rw [hc.1]; simp only; omega, by rw [hc.1]; simp only; have := hc.2; omega⟩
  rw [hc.1]
  simp only [Cur.withPos, hl, ho]

/-- positions of the skip pass over the questions (stuck at the first failure) -/
def qPos (msg : Bytes) : Nat → Nat
  | 0 => 12
  | j + 1 =>
    match skipQuestion msg (Cur.withPos msg (qPos msg j)) with
    | (.ok (), c) => c.pos
    | _ => qPos msg j

def qGood (msg : Bytes) (j : Nat) : Bool :=
  match skipQuestion msg (Cur.withPos msg (qPos msg j)) with
  | (.ok (), _) => true
  | _ => false

/-- positions of the skip pass over the records, from `base` -/
def rPos (msg : Bytes) (base : Nat) : Nat → Nat
  | 0 => base
  | i + 1 =>
    match skipRr msg (Cur.withPos msg (rPos msg base i)) with
    | (.ok (), c) => c.pos
    | _ => rPos msg base i

def rGood (msg : Bytes) (base : Nat) (i : Nat) : Bool :=
  match skipRr msg (Cur.withPos msg (rPos msg base i)) with
  | (.ok (), _) => true
  | _ => false

theorem qGood_step {msg : Bytes} {j : Nat} (h : qGood msg j = true) :
    skipQuestion msg (Cur.withPos msg (qPos msg j)) = (.ok (), Cur.withPos msg (qPos msg (j + 1))) := by
  unfold qGood at h
  cases hs : skipQuestion msg (Cur.withPos msg (qPos msg j)) with
  | mk res c =>
    rw [hs] at h
    cases res with
    | ok u =>
      have hp : qPos msg (j + 1) = c.pos := by simp only [qPos, hs]
      rw [hp, ← (skipQuestion_ok_pos hs).1]
    | err e => simp at h
    | panic p => simp at h
    | ub => simp at h

theorem rGood_step {msg : Bytes} {base i : Nat} (h : rGood msg base i = true) :
    skipRr msg (Cur.withPos msg (rPos msg base i)) = (.ok (), Cur.withPos msg (rPos msg base (i + 1))) := by
  unfold rGood at h
  cases hs : skipRr msg (Cur.withPos msg (rPos msg base i)) with
  | mk res c =>
    rw [hs] at h
    cases res with
    | ok u =>
      have hp : rPos msg base (i + 1) = c.pos := by simp only [rPos, hs]
      rw [hp, ← (skipRr_ok_pos hs).1]
    | err e => simp at h
    | panic p => simp at h
    | ub => simp at h

theorem qBad_err {msg : Bytes} {j : Nat} (h : qGood msg j = false) :
    ∃ e c, skipQuestion msg (Cur.withPos msg (qPos msg j)) = (.err e, c) := by
  have hf := skipQuestion_ftriple msg msg.size none (Cur.withPos msg (qPos msg j)) (Frame.of (Cur.OK.withPos msg _))
  unfold qGood at h
  cases hs : skipQuestion msg (Cur.withPos msg (qPos msg j)) with
  | mk res c =>
    rw [hs] at h hf
    cases res with
    | ok u => simp at h
    | err e => exact ⟨e, c, rfl⟩
    | panic p => exact hf.elim
    | ub => exact hf.elim

theorem rBad_err {msg : Bytes} {base i : Nat} (h : rGood msg base i = false) :
    ∃ e c, skipRr msg (Cur.withPos msg (rPos msg base i)) = (.err e, c) := by
  have hf := skipRr_ftriple msg msg.size none (Cur.withPos msg (rPos msg base i)) (Frame.of (Cur.OK.withPos msg _))
  unfold rGood at h
  cases hs : skipRr msg (Cur.withPos msg (rPos msg base i)) with
  | mk res c =>
    rw [hs] at h hf
    cases res with
    | ok u => simp at h
    | err e => exact ⟨e, c, rfl⟩
    | panic p => exact hf.elim
    | ub => exact hf.elim

theorem qPos_bounds (msg : Bytes) (h12 : 12 ≤ msg.size) : ∀ j, 12 ≤ qPos msg j ∧ qPos msg j ≤ msg.size
  | 0 => ⟨Nat.le_refl _, h12⟩
  | j + 1 => by
    have ih := qPos_bounds msg h12 j
    simp only [qPos]
    cases hs : skipQuestion msg (Cur.withPos msg (qPos msg j)) with
    | mk res c =>
      cases res with
      | ok u => have := skipQuestion_ok_pos hs; simp only; omega
      | err e => exact ih
      | panic p => exact ih
      | ub => exact ih

theorem rPos_bounds (msg : Bytes) (base : Nat) (hb : 12 ≤ base ∧ base ≤ msg.size) :
    ∀ i, 12 ≤ rPos msg base i ∧ rPos msg base i ≤ msg.size
  | 0 => hb
  | i + 1 => by
    have ih := rPos_bounds msg base hb i
    simp only [rPos]
    cases hs : skipRr msg (Cur.withPos msg (rPos msg base i)) with
    | mk res c =>
      cases res with
      | ok u => have := skipRr_ok_pos hs; simp only; omega
      | err e => exact ih
      | panic p => exact ih
      | ub => exact ih

/-- how far the skip pass gets in the questions / in the records -/
def passNq (msg : Bytes) (h : Header) : Nat := firstBad (qGood msg) h.qd
def passNr (msg : Bytes) (h : Header) : Nat :=
  if passNq msg h = h.qd then firstBad (rGood msg (qPos msg h.qd)) (h.an + h.ns + h.ar) else 0

/-- the layout of the skip pass over `msg` under the counts of `h`, padded behind the last skippable
    record -/
def layoutOf (msg : Bytes) (h : Header) : Lay :=
  { qd := h.qd
    tot := fun j => if j = 0 then h.an else if j = 1 then h.ns else if j = 2 then h.ar else 0
    qEnd := qPos msg
    rOff := fun i => if i ≤ passNr msg h then rPos msg (qPos msg h.qd) i else 1 }

theorem layoutOf_n (msg : Bytes) (h : Header) : (layoutOf msg h).n = h.an + h.ns + h.ar := by
  simp [Lay.n, layoutOf]

/-- **every message has a layout.**  For any byte string of at least twelve bytes and at most 65535,
    and any header counts: the skip pass gets through `passNq` questions and `passNr` records, the
    next item (if any) cannot be skipped, and the layout is well-formed. -/
theorem layout_exists (msg : Bytes) (h : Header) (h12 : 12 ≤ msg.size) (hsz : msg.size ≤ 65535)
    (hq : h.qd ≤ 65535) (ha : h.an ≤ 65535) (hn : h.ns ≤ 65535) (hr : h.ar ≤ 65535) :
    (layoutOf msg h).WF ∧ PassUpto msg (layoutOf msg h) (passNq msg h) (passNr msg h) ∧
      Pad (layoutOf msg h) (passNr msg h) ∧ Fails msg (layoutOf msg h) (passNq msg h) (passNr msg h) := by
  have hnq_le : passNq msg h ≤ h.qd := firstBad_le _ _
  have hnr_le : passNr msg h ≤ h.an + h.ns + h.ar := by
    unfold passNr; split
    · exact firstBad_le _ _
    · omega
  have hbase := qPos_bounds msg h12 h.qd
  have hrb := rPos_bounds msg (qPos msg h.qd) hbase
  refine ⟨⟨?_, ?_, ?_, hq⟩, ⟨rfl, hnq_le, by rw [layoutOf_n]; exact hnr_le, ?_, ?_, ?_⟩, ?_, ⟨?_, ?_⟩⟩
  · show (if 0 ≤ passNr msg h then rPos msg (qPos msg h.qd) 0 else 1) = qPos msg h.qd
    simp [rPos]
  · intro i
    show 0 < (if i ≤ passNr msg h then rPos msg (qPos msg h.qd) i else 1) ∧
      (if i ≤ passNr msg h then rPos msg (qPos msg h.qd) i else 1) < 65536
    split
    · have := hrb i; omega
    · omega
  · intro j
    show (if j = 0 then h.an else if j = 1 then h.ns else if j = 2 then h.ar else 0) ≤ 65535
    split
    · exact ha
    · split
      · exact hn
      · split
        · exact hr
        · omega
  · intro hlt
    show passNr msg h = 0
    unfold passNr
    have : ¬ passNq msg h = h.qd := by
      have : (layoutOf msg h).qd = h.qd := rfl
      rw [this] at hlt; omega
    rw [if_neg this]
  · intro j hj
    exact qGood_step (firstBad_good _ _ j hj)
  · intro i hi
    show skipRr msg (Cur.withPos msg (if i ≤ passNr msg h then rPos msg (qPos msg h.qd) i else 1)) =
      (.ok (), Cur.withPos msg (if i + 1 ≤ passNr msg h then rPos msg (qPos msg h.qd) (i + 1) else 1))
    rw [if_pos (by omega), if_pos (by omega)]
    have hi' := hi
    unfold passNr at hi'
    split at hi'
    · exact rGood_step (firstBad_good _ _ i hi')
    · omega
  · intro i h1 _
    show (if i ≤ passNr msg h then rPos msg (qPos msg h.qd) i else 1) = 1
    rw [if_neg (by omega)]
  · intro hlt
    have hlt' : passNq msg h < h.qd := hlt
    exact qBad_err (firstBad_bad _ _ hlt')
  · intro heq hlt
    have heq' : passNq msg h = h.qd := heq
    have hlt' : passNr msg h < h.an + h.ns + h.ar := by rw [layoutOf_n] at hlt; exact hlt
    show ∃ e c, skipRr msg (Cur.withPos msg (if passNr msg h ≤ passNr msg h then rPos msg (qPos msg h.qd) (passNr msg h) else 1)) = (.err e, c)
    rw [if_pos (Nat.le_refl _)]
    have hnr : passNr msg h = firstBad (rGood msg (qPos msg h.qd)) (h.an + h.ns + h.ar) := by
      unfold passNr; rw [if_pos heq']
    rw [hnr] at hlt' ⊢
    exact rBad_err (firstBad_bad _ _ hlt')

end Rsdns.C09
